//go:build verif

// C14 end-to-end fidelity harness: a real http2.Transport client connection talks to a real
// http2.Server over an in-memory duplex conn that records every byte written in each direction.
//
// A case is a configuration line, 1..3 request specs and their response specs (what the client
// submits, what the handler writes). The exchange is run on the real code; then the recorded wire
// frames of both directions are appended as `fr` op lines (type, flags, stream, payload hex; a
// header block that completes on a frame carries the field list decoded by an independent
// hpack.Decoder), followed by `hreq i` / `cres i` lines whose implementation result is the canonical
// print of what the handler observed (*http.Request) and what the client received
// (*http.Response). The Lean driver (Driver/C14.lean) reassembles every message from the `fr`
// lines with Model/H2Msg.lean, checks it against the model of the sender's normalisation
// (Model/H2Norm.lean) and prints the model of the receiver's view for `hreq`/`cres`.
// The oracle (out.Fail) states the property directly: handler-observed = submitted and
// client-received = handler-written (status, header fields, body bytes, trailers).
//
// Injected as http2/zz_verif_c14_test.go (package http2) with `go test -overlay`.
package http2

import (
	"bytes"
	"encoding/binary"
	"errors"
	"fmt"
	"io"
	"net"
	"net/http"
	"net/url"
	"os"
	"runtime"
	"sort"
	"strconv"
	"strings"
	"sync"
	"testing"
	"time"

	"golang.org/x/net/http2/hpack"
	vu "golang.org/x/net/internal/verifutil"
)

func TestVerifC14(t *testing.T) {
	cfg := vu.ConfigFromEnv()
	vu.Run(cfg, c14Gen, func(ops []string, o *vu.Out) { c14Exec(ops, o) })
}

var c14Watchdog = 20 * time.Second

func init() {
	if v, err := strconv.Atoi(os.Getenv("C14_WATCHDOG_MS")); err == nil && v > 0 {
		c14Watchdog = time.Duration(v) * time.Millisecond
	}
}

// ---------------------------------------------------------------- in-memory recorded conn

type c14Pipe struct {
	mu     sync.Mutex
	cond   *sync.Cond
	buf    []byte
	closed bool
	held   bool // delivery suspended (the reader sees nothing until release)
}

func (p *c14Pipe) hold(v bool) {
	p.mu.Lock()
	p.held = v
	p.cond.Broadcast()
	p.mu.Unlock()
}

func newC14Pipe() *c14Pipe { p := &c14Pipe{}; p.cond = sync.NewCond(&p.mu); return p }

func (p *c14Pipe) read(b []byte) (int, error) {
	p.mu.Lock()
	defer p.mu.Unlock()
	for (len(p.buf) == 0 || p.held) && !p.closed {
		p.cond.Wait()
	}
	if len(p.buf) == 0 {
		return 0, io.EOF
	}
	n := copy(b, p.buf)
	p.buf = p.buf[n:]
	return n, nil
}

// write records the bytes (tap) before the reader can see them, atomically with the delivery:
// whatever the peer has observed is in the recorder.
func (p *c14Pipe) write(b []byte, tap func([]byte)) (int, error) {
	p.mu.Lock()
	defer p.mu.Unlock()
	if p.closed {
		return 0, io.ErrClosedPipe
	}
	tap(b)
	p.buf = append(p.buf, b...)
	p.cond.Broadcast()
	return len(b), nil
}

func (p *c14Pipe) close() {
	p.mu.Lock()
	p.closed = true
	p.cond.Broadcast()
	p.mu.Unlock()
}

type c14Frame struct {
	dir     int // 0 = client→server, 1 = server→client
	typ     byte
	flags   byte
	sid     uint32
	payload []byte
}

// c14Rec parses the bytes written in each direction into frames, in global write order.
type c14Rec struct {
	mu     sync.Mutex
	bufs   [2][]byte
	skip   [2]int
	frames []c14Frame
	frozen bool // the observation window is over (teardown traffic is not part of the trace)
}

func (r *c14Rec) freeze() {
	r.mu.Lock()
	r.frozen = true
	r.mu.Unlock()
}

func (r *c14Rec) tap(dir int, b []byte) {
	r.mu.Lock()
	defer r.mu.Unlock()
	if r.frozen {
		return
	}
	if r.skip[dir] > 0 {
		n := r.skip[dir]
		if n > len(b) {
			n = len(b)
		}
		r.skip[dir] -= n
		b = b[n:]
	}
	r.bufs[dir] = append(r.bufs[dir], b...)
	for {
		buf := r.bufs[dir]
		if len(buf) < 9 {
			return
		}
		ln := int(buf[0])<<16 | int(buf[1])<<8 | int(buf[2])
		if len(buf) < 9+ln {
			return
		}
		f := c14Frame{dir: dir, typ: buf[3], flags: buf[4], sid: binary.BigEndian.Uint32(buf[5:9]) & 0x7fffffff,
			payload: append([]byte(nil), buf[9:9+ln]...)}
		r.frames = append(r.frames, f)
		r.bufs[dir] = buf[9+ln:]
	}
}

func (r *c14Rec) sawSettingsAck(dir int) bool {
	r.mu.Lock()
	defer r.mu.Unlock()
	for _, f := range r.frames {
		if f.dir == dir && f.typ == 4 && f.flags&1 != 0 {
			return true
		}
	}
	return false
}

// sentOnStream: DATA bytes written on a stream in direction dir, and whether END_STREAM was written.
func (r *c14Rec) sentOnStream(dir int, sid uint32) (n int, ended bool) {
	r.mu.Lock()
	defer r.mu.Unlock()
	for _, f := range r.frames {
		if f.dir != dir || f.sid != sid {
			continue
		}
		if f.typ == 0 {
			n += len(f.payload)
		}
		if (f.typ == 0 || f.typ == 1) && f.flags&1 != 0 {
			ended = true
		}
	}
	return
}

func (r *c14Rec) sawGoAway(dir int, code uint32) bool {
	r.mu.Lock()
	defer r.mu.Unlock()
	for _, f := range r.frames {
		if f.dir == dir && f.typ == 7 && len(f.payload) >= 8 && binary.BigEndian.Uint32(f.payload[4:8]) == code {
			return true
		}
	}
	return false
}

type c14Addr struct{}

func (c14Addr) Network() string { return "c14" }
func (c14Addr) String() string  { return "c14" }

type c14Conn struct {
	r, w *c14Pipe
	rec  *c14Rec
	dir  int
}

func (c *c14Conn) Read(b []byte) (int, error) { return c.r.read(b) }
func (c *c14Conn) Write(b []byte) (int, error) {
	return c.w.write(b, func(b []byte) { c.rec.tap(c.dir, b) })
}
func (c *c14Conn) Close() error                     { c.r.close(); c.w.close(); return nil }
func (c *c14Conn) LocalAddr() net.Addr              { return c14Addr{} }
func (c *c14Conn) RemoteAddr() net.Addr             { return c14Addr{} }
func (c *c14Conn) SetDeadline(time.Time) error      { return nil }
func (c *c14Conn) SetReadDeadline(time.Time) error  { return nil }
func (c *c14Conn) SetWriteDeadline(time.Time) error { return nil }

// ---------------------------------------------------------------- specs

type c14KV struct {
	k  string
	vv []string
}

type c14Cfg struct {
	sfs, sws, scw, sdt, set int // server: MaxReadFrameSize, upload windows, hpack table sizes
	cfs, cws, ccw, cdt, cet int // client
	gz                      int // 1 = Transport compression enabled (adds accept-encoding: gzip)
	early                   int // 1 = requests start before the server's SETTINGS have been processed
	smh                     int // server http.Server.MaxHeaderBytes (0 = default); advertised MAX_HEADER_LIST_SIZE = smh+320
	cmh                     int // Transport.MaxHeaderListSize (0 = default 10 MiB), advertised as is
}

type c14Req struct {
	idx      int
	method   string
	scheme   string
	host     string // Request.Host ("" = use URL host)
	uhost    string // URL.Host
	path     string // RequestURI
	cl       int64  // Request.ContentLength as set by the caller: -1 unknown, 0 with nil body
	nilBody  bool
	body     []byte
	rd       []int // body Read chunk sizes (cycled)
	eofLast  bool  // the final Read returns the last bytes together with io.EOF
	hdr      []c14KV
	trl      []c14KV
	crd      int // client response body read size
	lim      string // "-" or "<req|resp><-1|0|1>": header list size relative to the peer's advertised MAX_HEADER_LIST_SIZE
}

type c14Resp struct {
	idx     int
	status  int
	mode    int // 0: read request fully, then respond. 1: send headers+first flush, then read request
	rdsz    int // handler request body read size
	expl    bool // explicit WriteHeader call
	body    []byte
	writes  []int // write sizes; -1 = Flush
	hdr     []c14KV
	trlDecl []c14KV // declared in the Trailer header, set after the body
	trlUndc []c14KV // set with the "Trailer:" key prefix after the body
}

const (
	sigEarlyWindow = "early-data-exceeds-unacked-initial-window"
	sigEarlyHpack  = "early-hpack-table-size-unacked"
)

func c14HexS(s string) string { return vu.Hex([]byte(s)) }

func c14KVTok(kv c14KV) string {
	vs := make([]string, len(kv.vv))
	for i, v := range kv.vv {
		vs[i] = c14HexS(v)
	}
	return c14HexS(kv.k) + ":" + strings.Join(vs, ",")
}

func c14ParseKV(tok string) c14KV {
	p := strings.SplitN(tok, ":", 2)
	kv := c14KV{k: string(vu.MustHex(p[0]))}
	if len(p) == 2 && p[1] != "" {
		for _, v := range strings.Split(p[1], ",") {
			kv.vv = append(kv.vv, string(vu.MustHex(v)))
		}
	}
	return kv
}

func c14Ints(xs []int) string {
	if len(xs) == 0 {
		return "-"
	}
	s := make([]string, len(xs))
	for i, x := range xs {
		s[i] = strconv.Itoa(x)
	}
	return strings.Join(s, ",")
}

func c14ParseInts(s string) []int {
	if s == "-" {
		return nil
	}
	var out []int
	for _, p := range strings.Split(s, ",") {
		out = append(out, vu.Atoi(p))
	}
	return out
}

// body token: g<n>.<a>  (byte i = (a + 13*i) % 251), as Driver/H2Common.patBytes
func c14Pat(n, a int) []byte {
	b := make([]byte, n)
	for i := range b {
		b[i] = byte((a + 13*i) % 251)
	}
	return b
}

func c14ParseBody(tok string) []byte {
	if strings.HasPrefix(tok, "g") {
		p := strings.Split(tok[1:], ".")
		return c14Pat(vu.Atoi(p[0]), vu.Atoi(p[1]))
	}
	return vu.MustHex(tok)
}

func c14KVs(prefix string, kvs []c14KV) string {
	var sb strings.Builder
	for _, kv := range kvs {
		sb.WriteString(" " + prefix + " " + c14KVTok(kv))
	}
	return sb.String()
}

func c14B(b bool) int {
	if b {
		return 1
	}
	return 0
}

func (c c14Cfg) line() string {
	return fmt.Sprintf("cfg sfs=%d sws=%d scw=%d sdt=%d set=%d cfs=%d cws=%d ccw=%d cdt=%d cet=%d gz=%d early=%d smh=%d cmh=%d",
		c.sfs, c.sws, c.scw, c.sdt, c.set, c.cfs, c.cws, c.ccw, c.cdt, c.cet, c.gz, c.early, c.smh, c.cmh)
}

func c14KVmap(toks []string) map[string]string {
	m := map[string]string{}
	for _, t := range toks {
		if i := strings.IndexByte(t, '='); i > 0 {
			m[t[:i]] = t[i+1:]
		}
	}
	return m
}

// split the tokens after the key=value prefix into tagged KV groups
func c14Groups(toks []string) (kvm map[string]string, groups map[string][]c14KV) {
	groups = map[string][]c14KV{}
	var plain []string
	for i := 0; i < len(toks); i++ {
		if strings.Contains(toks[i], "=") {
			plain = append(plain, toks[i])
			continue
		}
		if i+1 < len(toks) {
			groups[toks[i]] = append(groups[toks[i]], c14ParseKV(toks[i+1]))
			i++
		}
	}
	return c14KVmap(plain), groups
}

// ---------------------------------------------------------------- canonical printing

func c14Hash(b []byte) uint32 {
	h := uint32(7)
	for _, c := range b {
		h = h*31 + uint32(c)
	}
	return h
}

func c14Dig(b []byte) string {
	if len(b) <= 64 {
		return vu.Hex(b)
	}
	return fmt.Sprintf("L%dH%d", len(b), c14Hash(b))
}

// canonical print of a header map: keys sorted, `k:v1,v2` with hex tokens; wild keys print `*`.
func c14ShowHeader(h map[string][]string, wild map[string]bool) string {
	keys := make([]string, 0, len(h))
	for k := range h {
		keys = append(keys, k)
	}
	sort.Strings(keys)
	if len(keys) == 0 {
		return "-"
	}
	var parts []string
	for _, k := range keys {
		if wild[k] {
			parts = append(parts, c14HexS(k)+":*")
			continue
		}
		parts = append(parts, c14KVTok(c14KV{k, h[k]}))
	}
	return strings.Join(parts, " ")
}

// ---------------------------------------------------------------- request body reader

type c14Body struct {
	data    []byte
	rd      []int
	i       int
	eofLast bool
	atEOF   func()
	closed  bool
}

func (b *c14Body) Read(p []byte) (int, error) {
	if len(b.data) == 0 {
		if b.atEOF != nil {
			b.atEOF()
			b.atEOF = nil
		}
		return 0, io.EOF
	}
	n := len(p)
	if len(b.rd) > 0 {
		if c := b.rd[b.i%len(b.rd)]; c > 0 && c < n {
			n = c
		}
		b.i++
	}
	if n > len(b.data) {
		n = len(b.data)
	}
	copy(p, b.data[:n])
	b.data = b.data[n:]
	if len(b.data) == 0 && b.eofLast {
		if b.atEOF != nil {
			b.atEOF()
			b.atEOF = nil
		}
		return n, io.EOF
	}
	return n, nil
}

func (b *c14Body) Close() error { b.closed = true; return nil }

// ---------------------------------------------------------------- observations

type c14SeenReq struct {
	got      bool
	reading  bool // the handler has not finished reading the body
	method   string
	uri      string
	host     string
	proto    string
	cl       int64
	header   http.Header
	declared []string // Trailer keys at handler start
	body     []byte
	readErr  error
	trailer  http.Header
}

type c14SeenRes struct {
	got     bool
	err     error
	status  int
	cl      int64
	header  http.Header
	declared []string
	body    []byte
	readErr error
	trailer http.Header
	uncompressed bool
}

type c14Case struct {
	cfg   c14Cfg
	reqs  []*c14Req
	resps []*c14Resp

	mu      sync.Mutex
	seenReq []*c14SeenReq
	seenRes []*c14SeenRes
	started []chan struct{}
	hErr    []string
}

func c14CloneHeader(h http.Header) http.Header {
	out := http.Header{}
	for k, vv := range h {
		out[k] = append([]string(nil), vv...)
	}
	return out
}

func c14SortedKeys(h http.Header) []string {
	ks := make([]string, 0, len(h))
	for k := range h {
		ks = append(ks, k)
	}
	sort.Strings(ks)
	return ks
}

func (c *c14Case) handler(w http.ResponseWriter, r *http.Request) {
	// /<idx>/...
	idx := -1
	if p := strings.SplitN(strings.TrimPrefix(r.RequestURI, "/"), "/", 2); len(p) > 0 {
		if v, err := strconv.Atoi(p[0]); err == nil {
			idx = v
		}
	}
	if idx < 0 || idx >= len(c.resps) {
		c.mu.Lock()
		c.hErr = append(c.hErr, "handler: unroutable request "+strconv.Quote(r.RequestURI))
		c.mu.Unlock()
		w.WriteHeader(599)
		return
	}
	sp := c.resps[idx]
	seen := &c14SeenReq{got: true, reading: true, method: r.Method, uri: r.RequestURI, host: r.Host, proto: r.Proto,
		cl: r.ContentLength, header: c14CloneHeader(r.Header), declared: c14SortedKeys(r.Trailer)}
	c.mu.Lock()
	dup := c.seenReq[idx].got
	if !dup {
		c.seenReq[idx] = seen
	}
	c.mu.Unlock()
	if dup {
		c.mu.Lock()
		c.hErr = append(c.hErr, "handler: request delivered twice")
		c.mu.Unlock()
		return
	}
	close(c.started[idx])

	readBody := func() {
		buf := make([]byte, sp.rdsz)
		for {
			n, err := r.Body.Read(buf)
			seen.body = append(seen.body, buf[:n]...)
			if err != nil {
				if err != io.EOF {
					seen.readErr = err
				}
				break
			}
		}
		seen.trailer = c14CloneHeader(r.Trailer)
		c.mu.Lock()
		seen.reading = false
		c.mu.Unlock()
	}
	if sp.mode == 0 {
		readBody()
	}
	for _, kv := range sp.hdr {
		for _, v := range kv.vv {
			w.Header().Add(kv.k, v)
		}
	}
	for _, kv := range sp.trlDecl {
		w.Header().Add("Trailer", kv.k)
	}
	if sp.expl {
		w.WriteHeader(sp.status)
	}
	if sp.mode == 1 {
		w.(http.Flusher).Flush()
		readBody()
	}
	off := 0
	for _, n := range sp.writes {
		if n < 0 {
			w.(http.Flusher).Flush()
			continue
		}
		end := off + n
		if end > len(sp.body) {
			end = len(sp.body)
		}
		if _, err := w.Write(sp.body[off:end]); err != nil {
			c.mu.Lock()
			if c.reqs[idx].lim != "resp1" { // the client resets a stream whose response headers exceed its limit
				c.hErr = append(c.hErr, "handler: Write: "+err.Error())
			}
			c.mu.Unlock()
			return
		}
		off = end
	}
	if off < len(sp.body) {
		if _, err := w.Write(sp.body[off:]); err != nil {
			c.mu.Lock()
			if c.reqs[idx].lim != "resp1" { // the client resets a stream whose response headers exceed its limit
				c.hErr = append(c.hErr, "handler: Write: "+err.Error())
			}
			c.mu.Unlock()
			return
		}
	}
	for _, kv := range sp.trlDecl {
		for _, v := range kv.vv {
			w.Header().Add(kv.k, v)
		}
	}
	for _, kv := range sp.trlUndc {
		for _, v := range kv.vv {
			w.Header().Add(TrailerPrefix+kv.k, v)
		}
	}
}

func (c *c14Case) client(cc *ClientConn, i int, done chan<- int) {
	defer func() { done <- i }()
	sp := c.reqs[i]
	out := &c14SeenRes{}
	defer func() {
		c.mu.Lock()
		c.seenRes[i] = out
		c.mu.Unlock()
	}()
	u, err := url.Parse(sp.scheme + "://" + sp.uhost + sp.path)
	if err != nil {
		out.err = err
		return
	}
	req := &http.Request{Method: sp.method, URL: u, Host: sp.host, Header: http.Header{},
		Proto: "HTTP/1.1", ProtoMajor: 1, ProtoMinor: 1}
	for _, kv := range sp.hdr {
		req.Header[kv.k] = append([]string(nil), kv.vv...)
	}
	if !sp.nilBody {
		b := &c14Body{data: sp.body, rd: sp.rd, eofLast: sp.eofLast}
		if len(sp.trl) > 0 {
			b.atEOF = func() {
				for _, kv := range sp.trl {
					req.Trailer[kv.k] = append([]string(nil), kv.vv...)
				}
			}
		}
		req.Body = b
	}
	req.ContentLength = sp.cl
	if len(sp.trl) > 0 {
		req.Trailer = http.Header{}
		for _, kv := range sp.trl {
			req.Trailer[kv.k] = nil
			if sp.nilBody {
				req.Trailer[kv.k] = append([]string(nil), kv.vv...)
			}
		}
	}
	res, err := cc.RoundTrip(req)
	if err != nil {
		out.err = err
		return
	}
	out.got = true
	out.status = res.StatusCode
	out.cl = res.ContentLength
	out.header = c14CloneHeader(res.Header)
	out.declared = c14SortedKeys(res.Trailer)
	out.uncompressed = res.Uncompressed
	buf := make([]byte, sp.crd)
	for {
		n, err := res.Body.Read(buf)
		out.body = append(out.body, buf[:n]...)
		if err != nil {
			if err != io.EOF {
				out.readErr = err
			}
			break
		}
	}
	res.Body.Close()
	out.trailer = c14CloneHeader(res.Trailer)
}

// ---------------------------------------------------------------- executor

func c14ParseCase(ops []string) (*c14Case, error) {
	c := &c14Case{}
	haveCfg := false
	for _, op := range ops {
		toks := strings.Fields(op)
		if len(toks) == 0 {
			continue
		}
		switch toks[0] {
		case "cfg":
			m := c14KVmap(toks[1:])
			g := func(k string) int {
				if m[k] == "" {
					return 0 // fields added later (smh, cmh) are absent from older corpus lines
				}
				return vu.Atoi(m[k])
			}
			c.cfg = c14Cfg{sfs: g("sfs"), sws: g("sws"), scw: g("scw"), sdt: g("sdt"), set: g("set"),
				cfs: g("cfs"), cws: g("cws"), ccw: g("ccw"), cdt: g("cdt"), cet: g("cet"), gz: g("gz"), early: g("early"), smh: g("smh"), cmh: g("cmh")}
			haveCfg = true
		case "req":
			m, gr := c14Groups(toks[1:])
			r := &c14Req{idx: vu.Atoi(m["i"]), method: string(vu.MustHex(m["m"])), scheme: m["sch"],
				host: string(vu.MustHex(m["host"])), uhost: string(vu.MustHex(m["uhost"])),
				path: string(vu.MustHex(m["path"])), cl: vu.Atoi64(m["cl"]), nilBody: m["nil"] == "1",
				body: c14ParseBody(m["body"]), rd: c14ParseInts(m["rd"]), eofLast: m["eof"] == "1",
				crd: vu.Atoi(m["crd"]), hdr: gr["H"], trl: gr["T"], lim: m["lim"]}
			if r.lim == "" {
				r.lim = "-"
			}
			if r.idx != len(c.reqs) {
				return nil, errors.New("req index out of order")
			}
			c.reqs = append(c.reqs, r)
		case "resp":
			m, gr := c14Groups(toks[1:])
			r := &c14Resp{idx: vu.Atoi(m["i"]), status: vu.Atoi(m["st"]), mode: vu.Atoi(m["mode"]),
				rdsz: vu.Atoi(m["rdsz"]), expl: m["expl"] == "1", body: c14ParseBody(m["body"]),
				writes: c14ParseInts(m["w"]), hdr: gr["H"], trlDecl: gr["TD"], trlUndc: gr["TU"]}
			if r.idx != len(c.resps) {
				return nil, errors.New("resp index out of order")
			}
			c.resps = append(c.resps, r)
		case "fr", "hreq", "cres", "end":
			// observations of an earlier run (replay): regenerated below
		default:
			return nil, errors.New("unknown op " + toks[0])
		}
	}
	if !haveCfg || len(c.reqs) == 0 || len(c.reqs) != len(c.resps) {
		return nil, errors.New("incomplete case")
	}
	for _, r := range c.reqs {
		if r.crd <= 0 {
			return nil, errors.New("bad crd")
		}
	}
	for _, r := range c.resps {
		if r.rdsz <= 0 {
			return nil, errors.New("bad rdsz")
		}
	}
	return c, nil
}

func (r *c14Req) line() string {
	return fmt.Sprintf("req i=%d m=%s sch=%s host=%s uhost=%s path=%s cl=%d nil=%d body=%s rd=%s eof=%d crd=%d lim=%s%s%s",
		r.idx, c14HexS(r.method), r.scheme, c14HexS(r.host), c14HexS(r.uhost), c14HexS(r.path), r.cl,
		c14B(r.nilBody), r.bodyTok(), c14Ints(r.rd), c14B(r.eofLast), r.crd, r.limTok(), c14KVs("H", r.hdr), c14KVs("T", r.trl))
}

func (r *c14Req) limTok() string {
	if r.lim == "" {
		return "-"
	}
	return r.lim
}

func (r *c14Resp) line() string {
	return fmt.Sprintf("resp i=%d st=%d mode=%d rdsz=%d expl=%d body=%s w=%s%s%s%s",
		r.idx, r.status, r.mode, r.rdsz, c14B(r.expl), c14BodyTok(r.body), c14Ints(r.writes),
		c14KVs("H", r.hdr), c14KVs("TD", r.trlDecl), c14KVs("TU", r.trlUndc))
}

// bodies are always generated as patterns g<n>.<a>; recover the token (a = first byte)
func c14BodyTok(b []byte) string {
	if len(b) == 0 {
		return "-"
	}
	a := int(b[0])
	if bytes.Equal(b, c14Pat(len(b), a)) {
		return fmt.Sprintf("g%d.%d", len(b), a)
	}
	return vu.Hex(b)
}
func (r *c14Req) bodyTok() string { return c14BodyTok(r.body) }

func c14Exec(ops []string, o *vu.Out) {
	c, err := c14ParseCase(ops)
	if err != nil {
		for _, op := range ops {
			o.Op(op, "bad-op")
		}
		return
	}
	n := len(c.reqs)
	c.seenReq = make([]*c14SeenReq, n)
	c.seenRes = make([]*c14SeenRes, n)
	c.started = make([]chan struct{}, n)
	for i := range c.started {
		c.seenReq[i] = &c14SeenReq{}
		c.seenRes[i] = &c14SeenRes{}
		c.started[i] = make(chan struct{})
	}

	rec := &c14Rec{}
	rec.skip[0] = len(ClientPreface)
	c2s, s2c := newC14Pipe(), newC14Pipe()
	cconn := &c14Conn{r: s2c, w: c2s, rec: rec, dir: 0}
	sconn := &c14Conn{r: c2s, w: s2c, rec: rec, dir: 1}

	srv := &Server{
		MaxReadFrameSize:             uint32(c.cfg.sfs),
		MaxUploadBufferPerStream:     int32(c.cfg.sws),
		MaxUploadBufferPerConnection: int32(c.cfg.scw),
		MaxDecoderHeaderTableSize:    uint32(c.cfg.sdt),
		MaxEncoderHeaderTableSize:    uint32(c.cfg.set),
	}
	tr := &Transport{
		AllowHTTP:                 true,
		DisableCompression:        c.cfg.gz == 0,
		MaxReadFrameSize:          uint32(c.cfg.cfs),
		MaxDecoderHeaderTableSize: uint32(c.cfg.cdt),
		MaxEncoderHeaderTableSize: uint32(c.cfg.cet),
		MaxHeaderListSize:         uint32(c.cfg.cmh),
	}
	tr.t1 = &http.Transport{HTTP2: &http.HTTP2Config{
		MaxReceiveBufferPerStream:     c.cfg.cws,
		MaxReceiveBufferPerConnection: c.cfg.ccw,
	}}
	tr.t1.DisableCompression = c.cfg.gz == 0

	srvDone := make(chan struct{})
	go func() {
		defer close(srvDone)
		srv.ServeConn(sconn, &ServeConnOpts{Handler: http.HandlerFunc(c.handler), BaseConfig: &http.Server{MaxHeaderBytes: c.cfg.smh}})
	}()

	timedOut := false
	var ccErr error
	wd := c14Watchdog
	if c.cfg.early == 1 {
		// the client must not see anything from the server (in particular its SETTINGS) until it
		// has sent all it may send under the protocol's initial values
		s2c.hold(true)
		go func() {
			deadline := time.Now().Add(wd)
			limit := len(c.reqs[0].body)
			if limit > 65535 {
				limit = 65535
			}
			for time.Now().Before(deadline) {
				if sent, ended := rec.sentOnStream(0, 1); ended || (sent >= limit && limit > 0 && len(c.reqs[0].body) > 65535) {
					break
				}
				time.Sleep(100 * time.Microsecond)
			}
			s2c.hold(false)
		}()
	}
	watchdog := time.NewTimer(wd)
	defer watchdog.Stop()
	cc, ccErr := tr.NewClientConn(cconn)
	if ccErr == nil && c.cfg.early == 0 {
		// Let the SETTINGS exchange complete first (the client has written its SETTINGS ACK), so that
		// the peers' limits are in force before the first request: what a client may send before it
		// has seen the server's SETTINGS is a separate question (see the `early` scenario).
		for !rec.sawSettingsAck(0) {
			select {
			case <-watchdog.C:
				timedOut = true
			default:
				time.Sleep(100 * time.Microsecond)
				continue
			}
			break
		}
	}
	if ccErr == nil && !timedOut {
		done := make(chan int, n)
		pending := 0
	launch:
		for i := 0; i < n; i++ {
			go c.client(cc, i, done)
			pending++
			// the next request starts once this one's handler runs (stream ids 1,3,5 in spec order)
			for {
				select {
				case <-c.started[i]:
					continue launch
				case j := <-done:
					pending--
					if j == i {
						// finished without our handler having run (refused, or answered by the server itself)
						continue launch
					}
				case <-watchdog.C:
					timedOut = true
					break launch
				}
			}
		}
		for pending > 0 && !timedOut {
			select {
			case <-done:
				pending--
			case <-watchdog.C:
				timedOut = true
			}
		}
		if timedOut {
			// what Close() sends while tearing the hung exchange down is not an observation
			rec.freeze()
		}
		if timedOut && os.Getenv("C14_DUMP") != "" {
			buf := make([]byte, 1<<20)
			os.Stderr.Write(buf[:runtime.Stack(buf, true)])
		}
		cc.Close()
	}
	cconn.Close()
	sconn.Close()
	select {
	case <-srvDone:
	case <-time.After(5 * time.Second):
		timedOut = true
	}

	// ---- emit
	o.Op(c.cfg.line(), "ok")
	for i := 0; i < n; i++ {
		o.Op(c.reqs[i].line(), "ok")
		o.Op(c.resps[i].line(), "ok")
	}
	if ccErr != nil {
		o.Fail("newclientconn", ccErr.Error())
	}
	if c.cfg.early == 1 {
		// oracle-only scenario: the frames are not part of the trace
		c.mu.Lock()
		defer c.mu.Unlock()
		if timedOut {
			o.Fail("hang", fmt.Sprintf("early exchange did not finish within %v", wd))
		} else {
			c.earlyOracle(rec, o)
		}
		o.Op("end", "ok")
		return
	}
	if timedOut {
		o.Fail("hang", fmt.Sprintf("exchange did not finish within %v", wd))
		o.Op("end", "timeout")
		return
	}
	c.emitFrames(rec, o)
	c.mu.Lock()
	defer c.mu.Unlock()
	for _, e := range c.hErr {
		o.Fail("handler-error", e)
	}
	for i := 0; i < n; i++ {
		o.Op(fmt.Sprintf("hreq %d", i), c.showSeenReq(i))
		o.Op(fmt.Sprintf("cres %d", i), c.showSeenRes(i))
		c.oracle(i, o)
	}
	o.Op("end", "ok")
}

var c14TypeNames = map[byte]string{0: "DATA", 1: "HEADERS", 2: "PRIORITY", 3: "RST_STREAM", 4: "SETTINGS",
	5: "PUSH_PROMISE", 6: "PING", 7: "GOAWAY", 8: "WINDOW_UPDATE", 9: "CONTINUATION"}

// emitFrames prints the recorded frames in write order. Header blocks are decoded by an
// independent hpack.Decoder per direction; the field list is attached to the frame that carries
// END_HEADERS.
func (c *c14Case) emitFrames(rec *c14Rec, o *vu.Out) {
	rec.mu.Lock()
	frames := rec.frames
	left := [2]int{len(rec.bufs[0]), len(rec.bufs[1])}
	rec.mu.Unlock()
	var dec [2]*hpack.Decoder
	var blk [2][]byte
	for d := 0; d < 2; d++ {
		dec[d] = hpack.NewDecoder(4096, nil)
		dec[d].SetAllowedMaxDynamicTableSize(1 << 31)
	}
	dirName := [2]string{"c", "s"}
	// advertised MAX_HEADER_LIST_SIZE of the receiver of each direction
	limit := [2]int{int(uint32(c.cfg.smh + 320)), c.cfg.cmh}
	if c.cfg.smh <= 0 {
		limit[0] = http.DefaultMaxHeaderBytes + 320
	}
	if c.cfg.cmh <= 0 {
		limit[1] = 10 << 20
	} else if c.cfg.cmh >= 0xffffffff {
		limit[1] = 16 << 20 // "no limit": not advertised, the Framer's own default applies
	}
	if c.cfg.smh >= 1<<31-320 {
		o.Stat("hls-config:server>=2^31")
	}
	if c.cfg.cmh >= 1<<31 {
		o.Stat("hls-config:client>=2^31")
	}
	firstBlock := map[[2]uint32]bool{}
	for _, f := range frames {
		line := fmt.Sprintf("fr %s %d %d %d %s", dirName[f.dir], f.typ, f.flags, f.sid, vu.Hex(f.payload))
		if name, ok := c14TypeNames[f.typ]; ok {
			o.Stat("frame:" + dirName[f.dir] + ":" + name)
		}
		if f.typ == 1 || f.typ == 9 {
			frag := f.payload
			if f.typ == 1 && f.flags&0x28 != 0 {
				// padding / priority are never sent by this code; leave the raw payload to the monitor
				frag = nil
			}
			blk[f.dir] = append(blk[f.dir], frag...)
			if f.typ == 9 {
				o.Stat("continuation:" + dirName[f.dir])
			}
			if f.flags&0x4 != 0 {
				fields, err := dec[f.dir].DecodeFull(blk[f.dir])
				blk[f.dir] = nil
				if err != nil {
					o.Fail("hpack-undecodable", fmt.Sprintf("dir=%s sid=%d: %v", dirName[f.dir], f.sid, err))
					line += " FERR"
				} else {
					line += " F"
					hls := 0
					for _, hf := range fields {
						line += " " + c14HexS(hf.Name) + ":" + c14HexS(hf.Value)
						hls += len(hf.Name) + len(hf.Value) + 32
					}
					if key := [2]uint32{uint32(f.dir), f.sid}; !firstBlock[key] {
						firstBlock[key] = true
						switch d := hls - limit[f.dir]; {
						case d == 0:
							o.Stat("hls:" + dirName[f.dir] + ":at-limit")
						case d == -1:
							o.Stat("hls:" + dirName[f.dir] + ":limit-1")
						case d > 0:
							o.Stat("hls:" + dirName[f.dir] + ":above-limit")
						}
					}
				}
			}
		}
		o.Op(line, "ok")
	}
	if left[0] != 0 || left[1] != 0 {
		o.Fail("partial-frame", fmt.Sprintf("unparsed trailing bytes c=%d s=%d", left[0], left[1]))
	}
}

// showSeenReq: canonical print of what the handler observed.
func (c *c14Case) showSeenReq(i int) string {
	s := c.seenReq[i]
	if !s.got {
		return "none"
	}
	if s.reading {
		return "incomplete"
	}
	if s.readErr != nil {
		return "err body-read"
	}
	tr := http.Header{}
	for _, k := range s.declared {
		tr[k] = nil
	}
	for k, vv := range s.trailer {
		tr[k] = vv
	}
	return fmt.Sprintf("ok m=%s uri=%s host=%s proto=%s cl=%d H %s B %s T %s", c14HexS(s.method), c14HexS(s.uri),
		c14HexS(s.host), c14HexS(s.proto), s.cl, c14ShowHeader(s.header, nil), c14Dig(s.body), c14ShowHeader(tr, nil))
}

// showSeenRes: canonical print of what the client received. Header values the server generates
// from the clock (Date) or by sniffing (Content-Type) print as `*` when the handler did not set them.
func (c *c14Case) showSeenRes(i int) string {
	s := c.seenRes[i]
	if s.err != nil {
		return "err roundtrip"
	}
	if !s.got {
		return "none"
	}
	if s.readErr != nil {
		return "err body-read"
	}
	wild := map[string]bool{}
	has := func(k string) bool {
		for _, kv := range c.resps[i].hdr {
			if http.CanonicalHeaderKey(kv.k) == k {
				return true
			}
		}
		return false
	}
	if !has("Date") {
		wild["Date"] = true
	}
	if !has("Content-Type") {
		wild["Content-Type"] = true
	}
	tr := http.Header{}
	for _, k := range s.declared {
		tr[k] = nil
	}
	for k, vv := range s.trailer {
		tr[k] = vv
	}
	return fmt.Sprintf("ok st=%d cl=%d unc=%d H %s B %s T %s", s.status, s.cl, c14B(s.uncompressed),
		c14ShowHeader(s.header, wild), c14Dig(s.body), c14ShowHeader(tr, nil))
}

// ---------------------------------------------------------------- property oracle

// earlyOracle: the request was sent before the client could see the server's SETTINGS. The server
// applies its own INITIAL_WINDOW_SIZE and HEADER_TABLE_SIZE from the start instead of from the
// client's SETTINGS ACK on (RFC 9113 6.5.3), so a client using the protocol's initial values
// (65535 / 4096) is refused. Both are reported under narrow signatures; anything else goes
// through the regular oracle.
func (c *c14Case) earlyOracle(rec *c14Rec, o *vu.Out) {
	rq, sq, sr := c.reqs[0], c.seenReq[0], c.seenRes[0]
	failed := sr.err != nil || !sq.got || sq.readErr != nil || !bytes.Equal(sq.body, rq.body) || sr.readErr != nil
	if failed {
		if c.cfg.sws > 0 && c.cfg.sws < 65535 && len(rq.body) > c.cfg.sws {
			o.Stat("early:window-refused")
			o.Fail(sigEarlyWindow, fmt.Sprintf("MaxUploadBufferPerStream=%d, %d body bytes sent before the server's SETTINGS were seen: %v / %v",
				c.cfg.sws, len(rq.body), sr.err, sq.readErr))
			return
		}
		if c.cfg.sdt > 0 && c.cfg.sdt < 4096 && rec.sawGoAway(1, uint32(ErrCodeCompression)) {
			o.Stat("early:hpack-refused")
			o.Fail(sigEarlyHpack, fmt.Sprintf("MaxDecoderHeaderTableSize=%d: header block encoded with the initial 4096-byte table refused with COMPRESSION_ERROR: %v",
				c.cfg.sdt, sr.err))
			return
		}
	}
	o.Stat("early:delivered")
	c.oracle(0, o)
}

var c14ReqDropped = map[string]bool{"host": true, "content-length": true, "connection": true, "proxy-connection": true,
	"transfer-encoding": true, "upgrade": true, "keep-alive": true}

func c14Multiset(vv []string) string {
	s := append([]string(nil), vv...)
	sort.Strings(s)
	return strings.Join(s, "\x00")
}

func (c *c14Case) oracle(i int, o *vu.Out) {
	rq, rs := c.reqs[i], c.resps[i]
	sq, sr := c.seenReq[i], c.seenRes[i]
	failQ := func(f string, a ...any) { o.Fail("request-not-faithful", fmt.Sprintf("req %d: ", i)+fmt.Sprintf(f, a...)) }
	failR := func(f string, a ...any) { o.Fail("response-not-faithful", fmt.Sprintf("req %d: ", i)+fmt.Sprintf(f, a...)) }
	// One byte above the peer's advertised SETTINGS_MAX_HEADER_LIST_SIZE the exchange must be refused
	// (an error from RoundTrip), never delivered damaged; at or below the limit everything below applies.
	over := rq.lim == "req1" || rq.lim == "resp1"
	if over {
		if sr.err == nil {
			o.Fail("over-limit-not-refused", fmt.Sprintf("req %d (%s): header list above the advertised limit, RoundTrip returned no error", i, rq.lim))
		}
		if rq.lim == "req1" {
			if sq.got {
				failQ("handler ran for a request the client must refuse")
			}
			return
		}
	} else if sr.err != nil {
		o.Fail("roundtrip-error", fmt.Sprintf("req %d: %v", i, sr.err))
	}
	if !sq.got {
		failQ("handler never ran")
		return
	}
	// ---- request: handler-observed = submitted
	wantMethod := rq.method
	if wantMethod == "" {
		wantMethod = "GET" // documented default
	}
	if sq.method != wantMethod {
		failQ("method %q != %q", sq.method, wantMethod)
	}
	if sq.uri != rq.path {
		failQ("RequestURI %q != %q", sq.uri, rq.path)
	}
	wantHost := rq.host
	if wantHost == "" {
		wantHost = rq.uhost
	}
	if sq.host != wantHost {
		failQ("Host %q != %q", sq.host, wantHost)
	}
	if sq.readErr != nil {
		failQ("body read error %v", sq.readErr)
	}
	if !bytes.Equal(sq.body, rq.body) {
		failQ("body differs: got %s want %s", c14Dig(sq.body), c14Dig(rq.body))
	}
	// header fields: every submitted field that is not connection-specific arrives, nothing else does
	want := map[string][]string{}
	for _, kv := range rq.hdr {
		lk := strings.ToLower(kv.k)
		if c14ReqDropped[lk] {
			continue
		}
		ck := http.CanonicalHeaderKey(kv.k)
		switch lk {
		case "user-agent":
			if len(kv.vv) > 0 && kv.vv[0] != "" {
				want[ck] = append(want[ck], kv.vv[0])
			}
		case "cookie":
			// split into crumbs by the client, re-joined with "; " by the server: compare crumbs
			for _, v := range kv.vv {
				for _, p := range strings.Split(v, ";") {
					if p = strings.TrimLeft(p, " "); p != "" {
						want[ck] = append(want[ck], p) // empty crumbs are compared away on both sides
					}
				}
			}
		default:
			want[ck] = append(want[ck], kv.vv...)
		}
	}
	if c.cfg.gz == 1 && wantMethod != "HEAD" {
		// httpcommon.IsRequestGzip: exact-key lookups
		hasAE, hasRange := false, false
		for _, kv := range rq.hdr {
			if kv.k == "Accept-Encoding" && len(kv.vv) > 0 {
				hasAE = true
			}
			if kv.k == "Range" && len(kv.vv) > 0 {
				hasRange = true
			}
		}
		if !hasAE && !hasRange && len(want["Accept-Encoding"]) > 0 {
			want["Accept-Encoding"] = append(want["Accept-Encoding"], "gzip")
		}
	}
	got := map[string][]string{}
	for k, vv := range sq.header {
		if k == "Cookie" {
			for _, v := range vv {
				for _, p := range strings.Split(v, "; ") {
					if p != "" {
						got[k] = append(got[k], p)
					}
				}
			}
			continue
		}
		got[k] = vv
	}
	for k, vv := range want {
		if len(vv) == 0 {
			continue
		}
		if c14Multiset(got[k]) != c14Multiset(vv) {
			failQ("header %q: handler saw %q, client sent %q", k, got[k], vv)
		}
	}
	for k, vv := range got {
		if len(want[k]) > 0 {
			continue
		}
		switch k {
		case "User-Agent", "Content-Length", "Accept-Encoding":
			// added by the Transport (documented)
		default:
			failQ("handler saw header %q=%q that was not sent", k, vv)
		}
	}
	if len(rq.body) > 0 || rq.cl > 0 {
		wantCL := rq.cl
		if rq.cl == 0 {
			wantCL = -1
		}
		if sq.cl != wantCL {
			failQ("ContentLength %d != %d", sq.cl, wantCL)
		}
	}
	wantT := map[string][]string{}
	for _, kv := range rq.trl {
		ck := http.CanonicalHeaderKey(kv.k)
		if rq.nilBody {
			// no body, no trailers (they follow the body; same as HTTP/1): only announced
			wantT[ck] = append(wantT[ck])
			continue
		}
		wantT[ck] = append(wantT[ck], kv.vv...)
	}
	for k, vv := range wantT {
		if c14Multiset(sq.trailer[k]) != c14Multiset(vv) {
			failQ("trailer %q: handler saw %q, client sent %q", k, sq.trailer[k], vv)
		}
	}
	for k, vv := range sq.trailer {
		if _, ok := wantT[k]; !ok {
			failQ("handler saw trailer %q=%q that was not sent", k, vv)
		}
	}

	// ---- response: client-received = handler-written
	if !sr.got {
		return
	}
	if sr.status != rs.status {
		failR("status %d != %d", sr.status, rs.status)
	}
	if sr.readErr != nil {
		failR("body read error %v", sr.readErr)
	}
	if !bytes.Equal(sr.body, rs.body) {
		failR("body differs: got %s want %s", c14Dig(sr.body), c14Dig(rs.body))
	}
	wantH := map[string][]string{}
	for _, kv := range rs.hdr {
		ck := http.CanonicalHeaderKey(kv.k)
		if ck == "Connection" {
			continue
		}
		wantH[ck] = append(wantH[ck], kv.vv...)
	}
	for k, vv := range wantH {
		if c14Multiset(sr.header[k]) != c14Multiset(vv) {
			failR("header %q: client saw %q, handler wrote %q", k, sr.header[k], vv)
		}
	}
	for k, vv := range sr.header {
		if _, ok := wantH[k]; ok {
			continue
		}
		switch k {
		case "Date", "Content-Type", "Content-Length":
			// added by the server (documented)
		default:
			failR("client saw header %q=%q that the handler did not write", k, vv)
		}
	}
	if cl := sr.header.Get("Content-Length"); cl != "" && cl != strconv.Itoa(len(rs.body)) {
		failR("Content-Length %q for a body of %d bytes", cl, len(rs.body))
	}
	wantRT := map[string][]string{}
	for _, kv := range append(append([]c14KV(nil), rs.trlDecl...), rs.trlUndc...) {
		ck := http.CanonicalHeaderKey(kv.k)
		wantRT[ck] = append(wantRT[ck], kv.vv...)
	}
	for k, vv := range wantRT {
		if c14Multiset(sr.trailer[k]) != c14Multiset(vv) {
			failR("trailer %q: client saw %q, handler wrote %q", k, sr.trailer[k], vv)
		}
	}
	for k, vv := range sr.trailer {
		if _, ok := wantRT[k]; !ok && len(vv) > 0 {
			failR("client saw trailer %q=%q that the handler did not write", k, vv)
		}
	}
}
