//go:build verif

// C34 harness: HTTP/3 end to end. A real client (transport/clientConn.RoundTrip) and a real
// server (server/serverConn/responseWriter) of internal/http3 talk over real QUIC connections
// on an in-memory datagram network that drops, duplicates and reorders datagrams under a
// seeded PRNG. Two further rigs put a raw frame-writing peer on one side so that the
// bodyReader's Content-Length checks are reached (the real writers never emit a mismatch).
//
// Case layout (plans first, the exchange runs on `req`/`rawreq`/`rawresp`):
//
//	net <seed> <drop‰> <reorder‰> <dup‰> <wbuf>
//	hplan <reads> <stop>                                handler read plan
//	resp <status> <cl> <hl> <wl> <trmode> <trhl>        handler response plan
//	cplan <reads> <stop>                                client read plan
//	expect                                              the request carries Expect: 100-continue
//	order <r|w|f>                                       handler: read first | WriteHeader then read | WriteHeader, Flush, read
//	interim <1xx.1xx…>                                  interim responses the handler sends first (100, 102, 103)
//	req <method> <path> <cl> <nobody> <hl> <chunks> <trhl>   => handler-observed request
//	wres                                                => results of the handler's Write calls
//	cres                                                => client-received response
//	rawreq <method> <cl|-> <trdecl> <frames> <trhl>     raw client -> real server => handler-observed
//	rawresp <method> <status> <cl|-> <trdecl> <frames> <trhl>  real client <- raw server => client-received
package http3

import (
	"bytes"
	"context"
	"errors"
	"fmt"
	"io"
	"net"
	"net/http"
	"net/netip"
	"os"
	"sort"
	"strconv"
	"strings"
	"sync"
	"sync/atomic"
	"testing"
	"testing/synctest"
	"time"

	"golang.org/x/net/internal/gate"
	vu "golang.org/x/net/internal/verifutil"
	"golang.org/x/net/quic"
)

// ---------------------------------------------------------------- faulty datagram network

type c34Net struct {
	mu    sync.Mutex
	conns map[netip.AddrPort]*c34PC
	next  byte
	// fault parameters (per mille), applied by every sender with its own PRNG
	drop, reorder, dup int
	sent, dropped, held, duped int
}

type c34PC struct {
	tn    *c34Net
	addr  netip.AddrPort
	gate  gate.Gate
	queue []testPacket
	closed bool

	fmu  sync.Mutex
	rng  *vu.Rng
	held *testPacket
	heldDst *c34PC
}

func (tn *c34Net) newPC() *c34PC {
	tn.mu.Lock()
	defer tn.mu.Unlock()
	if tn.conns == nil {
		tn.conns = make(map[netip.AddrPort]*c34PC)
	}
	tn.next++
	a := netip.AddrPortFrom(netip.AddrFrom4([4]byte{127, 0, 1, tn.next}), 443)
	pc := &c34PC{tn: tn, addr: a, gate: gate.New(false), rng: vu.NewRng(uint64(tn.next))}
	tn.conns[a] = pc
	return pc
}

func (tn *c34Net) setFaults(seed uint64, drop, reorder, dup int) {
	tn.mu.Lock()
	tn.drop, tn.reorder, tn.dup = drop, reorder, dup
	i := uint64(0)
	keys := make([]netip.AddrPort, 0, len(tn.conns))
	for k := range tn.conns {
		keys = append(keys, k)
	}
	sort.Slice(keys, func(i, j int) bool { return keys[i].Compare(keys[j]) < 0 })
	for _, k := range keys {
		pc := tn.conns[k]
		if pc == nil {
			continue
		}
		i++
		pc.fmu.Lock()
		pc.rng = vu.NewRng(seed*7919 + i)
		pc.fmu.Unlock()
	}
	tn.mu.Unlock()
}

func (tn *c34Net) params() (int, int, int) {
	tn.mu.Lock()
	defer tn.mu.Unlock()
	return tn.drop, tn.reorder, tn.dup
}

func (pc *c34PC) unlock() { pc.gate.Unlock(pc.closed || len(pc.queue) > 0) }

func (pc *c34PC) ReadFrom(p []byte) (int, net.Addr, error) {
	if err := pc.gate.WaitAndLock(context.Background()); err != nil {
		return 0, nil, err
	}
	defer pc.unlock()
	if pc.closed {
		return 0, nil, net.ErrClosed
	}
	n := copy(p, pc.queue[0].b)
	src := net.UDPAddrFromAddrPort(pc.queue[0].src)
	pc.queue = pc.queue[1:]
	return n, src, nil
}

func (pc *c34PC) deliver(dst *c34PC, pkt testPacket) {
	dst.gate.Lock()
	if !dst.closed {
		dst.queue = append(dst.queue, pkt)
	}
	dst.unlock()
}

func (pc *c34PC) WriteTo(p []byte, dstAddr net.Addr) (int, error) {
	pc.gate.Lock()
	closed := pc.closed
	pc.unlock()
	if closed {
		return 0, net.ErrClosed
	}
	ap, err := addrPortFromAddr(dstAddr)
	if err != nil {
		return 0, err
	}
	pc.tn.mu.Lock()
	dst := pc.tn.conns[ap]
	pc.tn.sent++
	pc.tn.mu.Unlock()
	if dst == nil {
		return len(p), nil
	}
	drop, reorder, dup := pc.tn.params()
	pkt := testPacket{b: bytes.Clone(p), src: pc.addr}
	if c34Trace {
		defer func() { pc.trace(p, ap) }()
	}
	pc.fmu.Lock()
	r := pc.rng
	doDrop := drop > 0 && r.Intn(1000) < drop
	doDup := dup > 0 && r.Intn(1000) < dup
	doHold := reorder > 0 && r.Intn(1000) < reorder
	var release *testPacket
	var releaseDst *c34PC
	if c34Trace && (doDrop || doDup || (doHold && pc.held == nil)) {
		fmt.Fprintf(os.Stderr, "TRACE   next: drop=%v dup=%v hold=%v\n", doDrop, doDup, doHold && pc.held == nil)
	}
	if doDrop {
		pc.tn.mu.Lock()
		pc.tn.dropped++
		pc.tn.mu.Unlock()
		pc.fmu.Unlock()
		return len(p), nil
	}
	if doHold && pc.held == nil {
		pc.tn.mu.Lock()
		pc.tn.held++
		pc.tn.mu.Unlock()
		pc.held, pc.heldDst = &pkt, dst
		pc.fmu.Unlock()
		return len(p), nil
	}
	release, releaseDst = pc.held, pc.heldDst
	pc.held, pc.heldDst = nil, nil
	pc.fmu.Unlock()
	pc.deliver(dst, pkt)
	if doDup {
		pc.tn.mu.Lock()
		pc.tn.duped++
		pc.tn.mu.Unlock()
		pc.deliver(dst, testPacket{b: bytes.Clone(p), src: pc.addr})
	}
	if release != nil {
		pc.deliver(releaseDst, *release) // the held datagram arrives after a later one
	}
	return len(p), nil
}

var c34Trace = os.Getenv("VERIF_C34_TRACE") != ""
var c34T0 = time.Now()

// trace prints one line per datagram (debugging aid, VERIF_C34_TRACE=1): virtual time, direction,
// size, QUIC packet kind of the first coalesced packet.
func (pc *c34PC) trace(p []byte, dst netip.AddrPort) {
	kind := "1rtt"
	if len(p) > 0 && p[0]&0x80 != 0 {
		kind = []string{"initial", "0rtt", "handshake", "retry"}[(p[0]>>4)&3]
	}
	fmt.Fprintf(os.Stderr, "TRACE t=%v %v->%v len=%d %s\n", time.Since(c34T0).Round(time.Millisecond), pc.addr.Addr(), dst.Addr(), len(p), kind)
}

func (pc *c34PC) Close() error {
	pc.tn.mu.Lock()
	pc.tn.conns[pc.addr] = nil
	pc.tn.mu.Unlock()
	pc.gate.Lock()
	defer pc.unlock()
	pc.closed = true
	pc.queue = nil
	return nil
}

func (pc *c34PC) LocalAddr() net.Addr                { return net.UDPAddrFromAddrPort(pc.addr) }
func (pc *c34PC) SetDeadline(time.Time) error      { panic("unimplemented") }
func (pc *c34PC) SetReadDeadline(time.Time) error  { panic("unimplemented") }
func (pc *c34PC) SetWriteDeadline(time.Time) error { panic("unimplemented") }

// ---------------------------------------------------------------- parsing of op fields

type c34Field struct {
	name string
	val  string
}

func c34ParseHL(s string) ([]c34Field, bool) {
	if s == "-" {
		return nil, true
	}
	var out []c34Field
	for _, tok := range strings.Split(s, ",") {
		n, v, ok := strings.Cut(tok, ":")
		if !ok || n == "" {
			return nil, false
		}
		b, ok := vu.ParseHex(v)
		if !ok {
			return nil, false
		}
		out = append(out, c34Field{n, string(b)})
	}
	return out, true
}

// c34ShowHL prints the fields whose lower-cased name starts with "x-", sorted by name
// (stable: the order of the values of one name is kept). Names with no value are dropped.
func c34ShowHL(h http.Header) string {
	var names []string
	for k, vs := range h {
		lk := strings.ToLower(k)
		if strings.HasPrefix(lk, "x-") && len(vs) > 0 {
			names = append(names, k)
		}
	}
	sort.Slice(names, func(i, j int) bool { return strings.ToLower(names[i]) < strings.ToLower(names[j]) })
	var toks []string
	for _, k := range names {
		for _, v := range h[k] {
			toks = append(toks, strings.ToLower(k)+":"+vu.Hex([]byte(v)))
		}
	}
	if len(toks) == 0 {
		return "-"
	}
	return strings.Join(toks, ",")
}

func c34ParseChunks(s string) ([][]byte, bool) {
	if s == "-" {
		return nil, true
	}
	var out [][]byte
	for _, tok := range strings.Split(s, ".") {
		if tok == "e" {
			out = append(out, []byte{})
			continue
		}
		b, ok := vu.ParseHex(tok)
		if !ok || len(b) == 0 {
			return nil, false
		}
		out = append(out, b)
	}
	return out, true
}

func c34ParseInts(s string) ([]int, bool) {
	var out []int
	for _, tok := range strings.Split(s, ".") {
		n, err := strconv.Atoi(tok)
		if err != nil || n < 1 {
			return nil, false
		}
		out = append(out, n)
	}
	return out, len(out) > 0
}

func c34HexOrDash(b []byte) string {
	if len(b) == 0 {
		return "-"
	}
	return vu.Hex(b)
}

// ---------------------------------------------------------------- plans

type c34ReadPlan struct {
	reads []int
	stop  int
}

// run reads r according to the plan. end: eof | err | stopped.
func (p c34ReadPlan) run(r io.Reader) (data []byte, end string) {
	buf := make([]byte, 1<<16)
	for i := 0; ; i++ {
		if p.stop >= 0 && len(data) >= p.stop {
			return data, "stopped"
		}
		sz := min(p.reads[i%len(p.reads)], len(buf))
		if p.stop >= 0 {
			sz = min(sz, p.stop-len(data))
		}
		n, err := r.Read(buf[:sz])
		data = append(data, buf[:n]...)
		if err == io.EOF {
			return data, "eof"
		}
		if err != nil {
			return data, "err"
		}
		if i > 1<<22 {
			return data, "err"
		}
	}
}

type c34RespPlan struct {
	interim []int // 1xx statuses sent first with w.WriteHeader
	order   string // "", "r", "w", "f": see c34Handler
	status int // 0: implicit
	cl     int
	h      []c34Field
	writes []string // hex | "e" | "F"
	trmode string
	tr     []c34Field
}

type c34Observed struct {
	invoked bool
	method  string
	path    string
	cl      int64
	h       string
	body    []byte
	end     string
	tr      string
	wres    []string
}

func c34ErrTag(err error) string {
	switch {
	case err == nil:
		return "nil"
	case errors.Is(err, http.ErrContentLength):
		return "cl"
	case errors.Is(err, http.ErrBodyNotAllowed):
		return "nb"
	}
	return "err"
}

func c34Names(fs []c34Field) []string {
	var ns []string
	seen := map[string]bool{}
	for _, f := range fs {
		if !seen[f.name] {
			seen[f.name] = true
			ns = append(ns, f.name)
		}
	}
	return ns
}

// c34Handler is the server handler of one case.
func c34Handler(hp c34ReadPlan, rp c34RespPlan, obs *c34Observed, done chan struct{}) http.Handler {
	return http.HandlerFunc(func(w http.ResponseWriter, r *http.Request) {
		defer close(done)
		obs.invoked = true
		obs.method, obs.path, obs.cl = r.Method, r.URL.RequestURI(), r.ContentLength
		obs.h = c34ShowHL(r.Header)
		readReq := func() {
			obs.body, obs.end = hp.run(r.Body)
			obs.tr = "-"
			if obs.end == "eof" {
				obs.tr = c34ShowHL(r.Trailer)
			}
		}
		// order "r": read the request, then choose the status (default);
		// "w": choose the status with WriteHeader, then read; "f": WriteHeader, Flush, then read.
		if rp.order != "w" && rp.order != "f" {
			readReq()
		}
		for _, f := range rp.h {
			w.Header().Add(f.name, f.val)
		}
		if rp.cl >= 0 {
			w.Header().Set("Content-Length", strconv.Itoa(rp.cl))
		}
		if rp.trmode == "d" {
			w.Header().Set("Trailer", strings.Join(c34Names(rp.tr), ", "))
		}
		for _, code := range rp.interim {
			w.WriteHeader(code) // interim response; the final one follows
		}
		if rp.status != 0 {
			w.WriteHeader(rp.status)
		}
		if rp.order == "w" || rp.order == "f" {
			if rp.status == 0 {
				w.WriteHeader(200)
			}
			if rp.order == "f" {
				w.(http.Flusher).Flush()
			}
			readReq()
		}
		for _, tok := range rp.writes {
			switch tok {
			case "F":
				w.(http.Flusher).Flush()
			default:
				var b []byte
				if tok != "e" {
					b = vu.MustHex(tok)
				}
				n, err := w.Write(b)
				obs.wres = append(obs.wres, fmt.Sprintf("%d:%s", n, c34ErrTag(err)))
			}
		}
		switch rp.trmode {
		case "d":
			if rp.status == 0 && len(rp.writes) == 0 {
				// nothing sent the header yet: fix the header set first, as net/http handlers must
				w.WriteHeader(200)
			}
			for _, f := range rp.tr {
				w.Header().Add(f.name, f.val)
			}
		case "p":
			for _, f := range rp.tr {
				w.Header().Add(http.TrailerPrefix+f.name, f.val)
			}
		}
	})
}

// ---------------------------------------------------------------- rig

type c34Rig struct {
	t      *testing.T
	tn     *c34Net
	srv    *server
	srvEP  *quic.Endpoint
	cliEP  *quic.Endpoint
	rawEP  *quic.Endpoint
	mu     sync.Mutex
	h      http.Handler
	prog   *atomic.Int64
	eps    []*quic.Endpoint
	stalled bool // an operation of this case ran into the virtual-time deadline
}

func (rig *c34Rig) ServeHTTP(w http.ResponseWriter, r *http.Request) {
	rig.mu.Lock()
	h := rig.h
	rig.mu.Unlock()
	if h != nil {
		h.ServeHTTP(w, r)
	}
}

func c34Config(wbuf int) *quic.Config {
	c := &quic.Config{TLSConfig: testTLSConfig}
	if wbuf > 0 {
		c.MaxStreamWriteBufferSize = int64(wbuf)
	}
	return c
}

func newC34Rig(t *testing.T, prog *atomic.Int64) *c34Rig {
	rig := &c34Rig{t: t, tn: &c34Net{}, prog: prog}
	mk := func(cfg *quic.Config) *quic.Endpoint {
		e, err := quic.NewEndpoint(rig.tn.newPC(), cfg)
		if err != nil {
			t.Fatal(err)
		}
		rig.eps = append(rig.eps, e)
		return e
	}
	rig.srv = &server{config: c34Config(0), handler: rig}
	rig.srvEP = mk(rig.srv.config)
	rig.cliEP = mk(c34Config(0))
	rig.rawEP = mk(c34Config(0))
	go rig.srv.serve(rig.srvEP)
	return rig
}

// dialFailed: the QUIC handshake did not complete under the injected faults (handshake timeout);
// treated like a stall (connection establishment under loss is property C19's concern).
func (rig *c34Rig) dialFailed(err error) {
	if os.Getenv("VERIF_C34_DEBUG") != "" {
		fmt.Fprintf(os.Stderr, "C34 debug: dial error: %v\n", err)
	}
	rig.stalled = true
}

// close tears the whole rig down (every case gets fresh endpoints, a fresh server and a fresh
// network, so a case replays identically on its own).
func (rig *c34Rig) close() {
	for _, e := range rig.eps {
		e.Close(canceledCtx)
	}
	synctest.Wait()
}

const c34CaseTimeout = 120 * time.Second // synctest (virtual) time: fires when a case is stuck

type c34Case struct {
	hp   c34ReadPlan
	rp   c34RespPlan
	cp   c34ReadPlan
	wbuf int
	expect bool // the request carries Expect: 100-continue
}

// c34ClientObserve reads the response according to the plan. beforeClose (may be nil) runs after the
// response has been read and before Response.Body.Close: Close resets the request stream
// ("how the caller signals that they're done with a request"), which cancels a request body that is
// still being uploaded or not yet read by the handler — a cancellation by the caller, outside C34.
// The end-to-end rig therefore waits for the handler to return before it closes.
func c34ClientObserve(resp *http.Response, err error, cp c34ReadPlan, beforeClose func()) string {
	if err != nil {
		if os.Getenv("VERIF_C34_DEBUG") != "" {
			fmt.Fprintf(os.Stderr, "C34 debug: RoundTrip error: %v\n", err)
		}
		return "err rt"
	}
	body, end := cp.run(resp.Body)
	tr := "-"
	if end == "eof" {
		tr = c34ShowHL(resp.Trailer)
	}
	if beforeClose != nil {
		beforeClose()
	}
	resp.Body.Close()
	return fmt.Sprintf("ok %d %d %s %s %s %s", resp.StatusCode, resp.ContentLength, c34ShowHL(resp.Header), c34HexOrDash(body), end, tr)
}

type c34ChunkReader struct {
	chunks [][]byte
	closed bool
}

func (r *c34ChunkReader) Read(p []byte) (int, error) {
	for len(r.chunks) > 0 && len(r.chunks[0]) == 0 {
		r.chunks = r.chunks[1:]
	}
	if len(r.chunks) == 0 {
		return 0, io.EOF
	}
	n := copy(p, r.chunks[0])
	r.chunks[0] = r.chunks[0][n:]
	return n, nil
}
func (r *c34ChunkReader) Close() error { r.closed = true; return nil }

// e2e runs one request through the real client and the real server.
// Returns the three result lines (req, wres, cres).
func (rig *c34Rig) e2e(c c34Case, method, path string, cl int, nobody bool, h []c34Field, chunks [][]byte, tr []c34Field, o c34Sink) (string, string, string) {
	ctx, cancel := context.WithTimeout(context.Background(), c34CaseTimeout)
	defer cancel()
	defer func() {
		if ctx.Err() == context.DeadlineExceeded {
			rig.stalled = true
		}
	}()
	obs := &c34Observed{}
	done := make(chan struct{})
	rig.mu.Lock()
	rig.h = c34Handler(c.hp, c.rp, obs, done)
	rig.mu.Unlock()

	tr1 := &transport{
		endpoint:    rig.cliEP,
		config:      c34Config(c.wbuf),
		tr1:         new(http.Transport),
		activeConns: make(map[*clientConn]struct{}),
	}
	cc, err := tr1.dial(ctx, rig.srvEP.LocalAddr().String(), nil)
	if err != nil {
		rig.dialFailed(err)
		return "err dial", "err dial", "err dial"
	}
	defer func() {
		cc.Close()
		synctest.Wait()
	}()

	total := 0
	for _, ch := range chunks {
		total += len(ch)
	}
	req, _ := http.NewRequestWithContext(ctx, method, "https://example.tld"+path, nil)
	for _, f := range h {
		req.Header.Add(f.name, f.val)
	}
	if !nobody {
		req.Body = &c34ChunkReader{chunks: append([][]byte(nil), chunks...)}
	}
	req.ContentLength = int64(cl)
	if c.expect {
		req.Header.Set("Expect", "100-continue")
	}
	if len(tr) > 0 {
		req.Trailer = http.Header{}
		for _, f := range tr {
			req.Trailer.Add(f.name, f.val)
		}
	}
	resp, rerr := cc.RoundTrip(req)
	cres := c34ClientObserve(resp, rerr, c.cp, func() {
		// a response came back, so the handler was invoked: let it finish with the request
		select {
		case <-done:
		case <-ctx.Done():
		}
	})
	// Wait for the handler (it may still be running when RoundTrip failed early).
	synctest.Wait()
	finished := false
	select {
	case <-done:
		finished = true
	default:
	}
	if obs.invoked && !finished {
		select {
		case <-done:
			finished = true
		case <-ctx.Done():
		}
	}
	if obs.invoked && !finished {
		return "err handler-stuck", "err handler-stuck", cres
	}

	// Spec-level classification of the request (not the model): declared vs supplied length.
	actual := int64(cl)
	if nobody {
		actual, total = 0, 0
	} else if cl == 0 {
		actual = -1
	}
	reqMismatch := actual >= 0 && int64(total) != actual
	var want []byte
	for _, ch := range chunks {
		want = append(want, ch...)
	}
	if nobody {
		want = nil
	}

	// ---- Go-side oracle, request direction
	if obs.invoked {
		if !bytes.HasPrefix(want, obs.body) {
			o.Fail("req-body-not-prefix", fmt.Sprintf("handler read %d bytes that are not a prefix of the %d submitted", len(obs.body), len(want)))
		}
		if obs.end == "eof" && !bytes.Equal(want, obs.body) {
			if reqMismatch {
				o.Fail("req-length-mismatch-clean-eof", fmt.Sprintf("declared %d, supplied %d, handler read %d bytes and a clean EOF", actual, total, len(obs.body)))
			} else {
				o.Fail("req-body-altered", fmt.Sprintf("supplied %d bytes, handler read %d and EOF", total, len(obs.body)))
			}
		}
		if obs.end == "eof" && reqMismatch {
			o.Fail("req-length-mismatch-clean-eof", fmt.Sprintf("declared %d, supplied %d, handler saw a clean EOF", actual, total))
		}
	}
	if !reqMismatch {
		if !obs.invoked {
			o.Fail("req-not-delivered", "well-formed request never reached the handler")
		} else {
			if obs.end == "err" {
				o.Fail("req-read-error", "well-formed request body ended in an error on the handler side")
			}
			if obs.method != method || obs.path != path {
				o.Fail("req-line-altered", fmt.Sprintf("got %s %s", obs.method, obs.path))
			}
			wh := http.Header{}
			for _, f := range h {
				wh.Add(f.name, f.val)
			}
			if c34ShowHL(wh) != obs.h {
				o.Fail("req-headers-altered", obs.h)
			}
			if obs.end == "eof" {
				wt := http.Header{}
				for _, f := range tr {
					wt.Add(f.name, f.val)
				}
				if c34ShowHL(wt) != obs.tr {
					o.Fail("req-trailers-altered", obs.tr)
				}
			}
		}
	}

	if reqMismatch {
		if !obs.invoked || obs.end != "eof" {
			return "ok reqerr", "ok unspec", "ok unspec"
		}
	}
	if !obs.invoked {
		return "err nohandler", "ok unspec", cres
	}
	reqLine := fmt.Sprintf("ok %s %s %d %s %s %s %s", obs.method, obs.path, obs.cl, obs.h, c34HexOrDash(obs.body), obs.end, obs.tr)
	wres := "-"
	if len(obs.wres) > 0 {
		wres = strings.Join(obs.wres, ".")
	}

	// ---- Go-side oracle, response direction
	// Region of the known finding `early-response-lost`: the handler answered without reading the
	// whole request body while the client could not yet hand all of it to its QUIC stream.
	// (With a small stream write buffer the loss is frequent; with the default buffer it still
	// happens when the response overtakes the client's body-writing goroutine.)
	early := obs.end == "stopped" && len(obs.body) < total
	over := ""
	if early {
		over = "early-response-lost"
		o.Stat("e2e:early-region")
	}
	rig.respOracle(c, method, obs, cres, over, o)
	o.Stat("e2e:handler-" + obs.end)
	if early {
		if cf := strings.Fields(cres); len(cf) == 7 && cf[5] == "eof" {
			o.Stat("e2e:early-delivered")
		} else {
			o.Stat("e2e:early-lost")
		}
		cres = "ok unspec"
	}
	return reqLine, "ok " + wres, cres
}

// respOracle states the property for the response direction directly: what the handler's
// Write calls accepted must be what the client reads, and a shortfall against the declared
// Content-Length must end in an error, not a clean EOF.
func (rig *c34Rig) respOracle(c c34Case, method string, obs *c34Observed, cres string, over string, o0 c34Sink) {
	o := &c34Failer{o0, over}
	var accepted []byte
	wi := 0
	for _, tok := range c.rp.writes {
		if tok == "F" {
			continue
		}
		var b []byte
		if tok != "e" {
			b = vu.MustHex(tok)
		}
		if wi < len(obs.wres) {
			ns, _, _ := strings.Cut(obs.wres[wi], ":")
			n, _ := strconv.Atoi(ns)
			if n > len(b) {
				o.Fail("resp-write-overcount", obs.wres[wi])
				n = len(b)
			}
			accepted = append(accepted, b[:n]...)
		}
		wi++
	}
	f := strings.Fields(cres)
	if len(f) != 7 || f[0] != "ok" {
		o.Fail("resp-not-delivered", "handler answered but the client got: "+cres)
		return
	}
	status := c.rp.status
	if status == 0 {
		status = 200
	}
	if f[1] != strconv.Itoa(status) {
		o.Fail("resp-status-altered", f[1])
	}
	wh := http.Header{}
	for _, x := range c.rp.h {
		wh.Add(x.name, x.val)
	}
	if c34ShowHL(wh) != f[3] {
		o.Fail("resp-headers-altered", f[3])
	}
	noBody := method == "HEAD" || !responseCanHaveBody(status)
	var got []byte
	if f[4] != "-" {
		got = vu.MustHex(f[4])
	}
	if noBody {
		if len(got) != 0 {
			o.Fail("resp-body-on-bodyless", f[4])
		}
		if f[5] != "eof" {
			o.Fail("resp-bodyless-read-error", fmt.Sprintf("status %d to %s (Content-Length %d): client body read ends in %s", status, method, c.rp.cl, f[5]))
		}
		return
	}
	if !bytes.HasPrefix(accepted, got) {
		o.Fail("resp-body-not-prefix", fmt.Sprintf("client read %d bytes that are not a prefix of the %d accepted from the handler", len(got), len(accepted)))
	}
	declared := c.rp.cl
	mismatch := declared >= 0 && len(accepted) != declared
	switch f[5] {
	case "eof":
		if mismatch {
			o.Fail("resp-length-mismatch-clean-eof", fmt.Sprintf("declared %d, handler wrote %d, client read %d and a clean EOF", declared, len(accepted), len(got)))
		} else if !bytes.Equal(accepted, got) {
			o.Fail("resp-body-altered", fmt.Sprintf("handler wrote %d, client read %d and EOF", len(accepted), len(got)))
		}
		wt := http.Header{}
		for _, x := range c.rp.tr {
			wt.Add(x.name, x.val)
		}
		if c.rp.trmode != "-" && c34ShowHL(wt) != f[6] {
			if declared == 0 && c.rp.trmode == "p" {
				o.Fail("resp-undeclared-trailers-dropped-cl0", f[6])
			} else {
				o.Fail("resp-trailers-altered", f[6])
			}
		}
	case "err":
		if !mismatch {
			o.Fail("resp-read-error", "well-formed response body ended in an error on the client side")
		}
	}
}

// c34Sink receives oracle verdicts and coverage counters.
type c34Sink interface {
	Fail(sig, desc string)
	Stat(key string)
}

// c34Buf buffers them until the attempt is known not to have stalled.
type c34Buf struct {
	fails [][2]string
	stats []string
}

func (b *c34Buf) Fail(sig, desc string) { b.fails = append(b.fails, [2]string{sig, desc}) }
func (b *c34Buf) Stat(key string)       { b.stats = append(b.stats, key) }
func (b *c34Buf) flush(o *vu.Out) {
	for _, f := range b.fails {
		o.Fail(f[0], f[1])
	}
	for _, k := range b.stats {
		o.Stat(k)
	}
}

type c34Failer struct {
	o    c34Sink
	over string
}

func (f *c34Failer) Stat(key string) { f.o.Stat(key) }

func (f *c34Failer) Fail(sig, desc string) {
	if f.over != "" {
		desc = "[" + sig + "] " + desc
		sig = f.over
	}
	f.o.Fail(sig, desc)
}

// ---------------------------------------------------------------- raw peers

type c34RawFrame struct {
	kind byte // 'D' data, 'U' unknown (type 0x21)
	p    []byte
}

func c34ParseFrames(s string) ([]c34RawFrame, bool) {
	if s == "-" {
		return nil, true
	}
	var out []c34RawFrame
	for _, tok := range strings.Split(s, ".") {
		if len(tok) == 0 || (tok[0] != 'D' && tok[0] != 'U') {
			return nil, false
		}
		var b []byte
		if len(tok) > 1 {
			var ok bool
			b, ok = vu.ParseHex(tok[1:])
			if !ok {
				return nil, false
			}
		}
		out = append(out, c34RawFrame{tok[0], b})
	}
	return out, true
}

func c34WriteRaw(st *stream, fields []c34Field, frames []c34RawFrame, tr []c34Field, sendTr bool) {
	var enc qpackEncoder
	enc.init()
	hb := enc.encode(func(f func(itype indexType, name, value string)) {
		for _, x := range fields {
			f(mayIndex, x.name, x.val)
		}
	})
	st.writeVarint(int64(frameTypeHeaders))
	st.writeVarint(int64(len(hb)))
	st.Write(hb)
	for _, fr := range frames {
		if fr.kind == 'D' {
			st.writeVarint(int64(frameTypeData))
		} else {
			st.writeVarint(0x21)
		}
		st.writeVarint(int64(len(fr.p)))
		st.Write(fr.p)
	}
	if sendTr {
		tb := enc.encode(func(f func(itype indexType, name, value string)) {
			for _, x := range tr {
				f(mayIndex, x.name, x.val)
			}
		})
		st.writeVarint(int64(frameTypeHeaders))
		st.writeVarint(int64(len(tb)))
		st.Write(tb)
	}
	st.stream.CloseWrite()
}

func c34RawTotal(frames []c34RawFrame) (data []byte) {
	for _, fr := range frames {
		if fr.kind == 'D' {
			data = append(data, fr.p...)
		}
	}
	return data
}

// rawReq: a raw QUIC peer writes a request (HEADERS, frames, optional trailers, FIN) to the real server.
func (rig *c34Rig) rawReq(c c34Case, method, clStr string, trdecl bool, frames []c34RawFrame, tr []c34Field, o c34Sink) string {
	ctx, cancel := context.WithTimeout(context.Background(), c34CaseTimeout)
	defer cancel()
	defer func() {
		if ctx.Err() == context.DeadlineExceeded {
			rig.stalled = true
		}
	}()
	obs := &c34Observed{}
	done := make(chan struct{})
	rig.mu.Lock()
	rig.h = c34Handler(c.hp, c34RespPlan{cl: -1, trmode: "-"}, obs, done)
	rig.mu.Unlock()
	qc, err := rig.rawEP.Dial(ctx, "udp", rig.srvEP.LocalAddr().String(), c34Config(0))
	if err != nil {
		rig.dialFailed(err)
		return "err dial"
	}
	defer func() {
		qc.Abort(nil)
		synctest.Wait()
	}()
	qs, err := qc.NewStream(ctx)
	if err != nil {
		return "err stream"
	}
	st := newStream(qs)
	fields := []c34Field{{":method", method}, {":scheme", "https"}, {":authority", "example.tld"}, {":path", "/raw"}}
	if clStr != "-" {
		fields = append(fields, c34Field{"content-length", clStr})
	}
	if trdecl {
		fields = append(fields, c34Field{"trailer", strings.Join(c34Names(tr), ", ")})
	}
	c34WriteRaw(st, fields, frames, tr, trdecl)
	// wait for the response to finish or for the stream to be reset
	qs.SetReadContext(ctx)
	io.Copy(io.Discard, qs)
	synctest.Wait()
	select {
	case <-done:
	default:
		if obs.invoked {
			select {
			case <-done:
			case <-ctx.Done():
				return "err handler-stuck"
			}
		}
	}
	if !obs.invoked {
		return "err nohandler"
	}
	data := c34RawTotal(frames)
	declared := int64(-1)
	if clStr != "-" {
		if n, err := strconv.Atoi(clStr); err == nil {
			declared = int64(n)
		}
	}
	mismatch := declared >= 0 && int64(len(data)) != declared
	if !bytes.HasPrefix(data, obs.body) {
		o.Fail("rawreq-body-not-prefix", "handler read bytes that were not sent in DATA frames")
	}
	if obs.end == "eof" {
		if mismatch {
			if declared == 0 && !trdecl {
				o.Fail("declared-zero-body-ignored", fmt.Sprintf("request declares Content-Length 0, carries %d DATA bytes, handler sees a clean empty body", len(data)))
			} else {
				o.Fail("rawreq-length-mismatch-clean-eof", fmt.Sprintf("declared %d, DATA total %d, handler read %d bytes and a clean EOF", declared, len(data), len(obs.body)))
			}
		} else if !bytes.Equal(data, obs.body) {
			o.Fail("rawreq-body-altered", fmt.Sprintf("sent %d, handler read %d and EOF", len(data), len(obs.body)))
		}
	}
	if obs.end == "err" && !mismatch {
		o.Fail("rawreq-read-error", "well-formed raw request ended in an error on the handler side")
	}
	o.Stat("rawreq:" + obs.end)
	return fmt.Sprintf("ok %d %s %s %s", obs.cl, c34HexOrDash(obs.body), obs.end, obs.tr)
}

// rawResp: the real client sends a bodyless request to a raw QUIC peer which answers with
// HEADERS, frames, optional trailers, FIN.
func (rig *c34Rig) rawResp(c c34Case, method string, status int, clStr string, trdecl bool, frames []c34RawFrame, tr []c34Field, o c34Sink) string {
	ctx, cancel := context.WithTimeout(context.Background(), c34CaseTimeout)
	defer cancel()
	defer func() {
		if ctx.Err() == context.DeadlineExceeded {
			rig.stalled = true
		}
	}()
	tr1 := &transport{
		endpoint:    rig.cliEP,
		config:      c34Config(0),
		tr1:         new(http.Transport),
		activeConns: make(map[*clientConn]struct{}),
	}
	type dialRes struct {
		cc  *clientConn
		err error
	}
	dch := make(chan dialRes, 1)
	go func() {
		cc, err := tr1.dial(ctx, rig.rawEP.LocalAddr().String(), nil)
		dch <- dialRes{cc, err}
	}()
	qc, err := rig.rawEP.Accept(ctx)
	dr := <-dch
	if err != nil || dr.err != nil {
		if dr.cc != nil {
			dr.cc.Close()
		}
		if err == nil {
			err = dr.err
		}
		rig.dialFailed(err)
		return "err dial"
	}
	defer func() {
		dr.cc.Close()
		qc.Abort(nil)
		synctest.Wait()
	}()
	go func() {
		for {
			qs, err := qc.AcceptStream(ctx)
			if err != nil {
				return
			}
			if qs.IsReadOnly() {
				continue
			}
			st := newStream(qs)
			fields := []c34Field{{":status", strconv.Itoa(status)}}
			if clStr != "-" {
				fields = append(fields, c34Field{"content-length", clStr})
			}
			if trdecl {
				fields = append(fields, c34Field{"trailer", strings.Join(c34Names(tr), ", ")})
			}
			c34WriteRaw(st, fields, frames, tr, trdecl)
		}
	}()
	req, _ := http.NewRequestWithContext(ctx, method, "https://example.tld/raw", nil)
	resp, rerr := dr.cc.RoundTrip(req)
	cres := c34ClientObserve(resp, rerr, c.cp, nil)
	f := strings.Fields(cres)
	if len(f) != 7 {
		o.Fail("rawresp-not-delivered", cres)
		return cres
	}
	data := c34RawTotal(frames)
	declared := int64(-1)
	if clStr != "-" && status != 204 && !(status >= 100 && status < 200) {
		if n, err := strconv.ParseUint(clStr, 10, 63); err == nil {
			declared = int64(n)
		}
	}
	var got []byte
	if f[4] != "-" {
		got = vu.MustHex(f[4])
	}
	if method == "HEAD" || status == 304 {
		// bodyless response: Content-Length describes the representation, not the (absent) content
		if len(data) == 0 && f[5] != "eof" {
			o.Fail("rawresp-bodyless-read-error", cres)
		}
	} else {
		mismatch := declared >= 0 && int64(len(data)) != declared
		if !bytes.HasPrefix(data, got) {
			o.Fail("rawresp-body-not-prefix", "client read bytes that were not sent in DATA frames")
		}
		if f[5] == "eof" {
			if mismatch {
				if declared == 0 && !trdecl {
					o.Fail("declared-zero-body-ignored", fmt.Sprintf("response declares Content-Length 0, carries %d DATA bytes, client sees a clean empty body", len(data)))
				} else {
					o.Fail("rawresp-length-mismatch-clean-eof", fmt.Sprintf("declared %d, DATA total %d, client read %d bytes and a clean EOF", declared, len(data), len(got)))
				}
			} else if !bytes.Equal(data, got) {
				o.Fail("rawresp-body-altered", fmt.Sprintf("sent %d, client read %d and EOF", len(data), len(got)))
			}
		}
		if f[5] == "err" && !mismatch {
			o.Fail("rawresp-read-error", "well-formed raw response ended in an error on the client side")
		}
	}
	o.Stat("rawresp:" + f[5])
	return strings.Join(f, " ")
}

// ---------------------------------------------------------------- exec

type c34Exec struct {
	t    *testing.T
	prog *atomic.Int64
	rig  *c34Rig
}

// attempt runs one exchange. An attempt that runs into the 120 s virtual-time deadline under the
// injected faults (a stall of the QUIC connection: liveness is property C19's concern, not C34's)
// is discarded and the exchange is repeated once on a fresh rig with a perfect network; the
// number of such retries is reported in the stats.
func (x *c34Exec) attempt(o *vu.Out, f func(sink c34Sink) string) string {
	buf := &c34Buf{}
	res := vu.Catch(func() string { return f(buf) })
	drop, reorder, dup := x.rig.tn.params()
	faults := drop+reorder+dup > 0
	// A connection-level failure under active faults (request never reached the handler / no
	// response at all) is treated like a stall; it is counted separately so that it stays visible.
	connFail := faults && (res == "err nohandler" || res == "err rt")
	if (x.rig.stalled || connFail) && res != "panic" {
		if x.rig.stalled {
			o.Stat("net:stall-retried-without-faults")
		} else {
			o.Stat("net:connfail-under-faults-retried-without-faults")
		}
		x.rig.close()
		x.rig = newC34Rig(x.t, x.prog)
		buf = &c34Buf{}
		res = vu.Catch(func() string { return f(buf) })
		if x.rig.stalled {
			o.Stat("net:stall-on-perfect-network")
			buf.Fail("stall-on-perfect-network", "exchange did not finish within 120 s of virtual time on a fault-free network")
		}
	}
	buf.flush(o)
	return res
}

func (x *c34Exec) exec(ops []string, o *vu.Out) {
	x.prog.Add(1)
	x.rig = newC34Rig(x.t, x.prog)
	defer func() {
		x.rig.close()
		tn := x.rig.tn
		tn.mu.Lock()
		o.StatN("net:datagrams", tn.sent)
		o.StatN("net:dropped", tn.dropped)
		o.StatN("net:reordered", tn.held)
		o.StatN("net:duplicated", tn.duped)
		tn.mu.Unlock()
	}()
	c := c34Case{
		hp: c34ReadPlan{reads: []int{4096}, stop: -1},
		cp: c34ReadPlan{reads: []int{4096}, stop: -1},
		rp: c34RespPlan{cl: -1, trmode: "-"},
	}
	x.rig.tn.setFaults(0, 0, 0, 0)
	var wres, cres string
	var interim []int
	var order string
	for _, op := range ops {
		f := strings.Fields(op)
		res := "bad-op"
		func() {
			if len(f) == 0 {
				return
			}
			switch f[0] {
			case "net":
				if len(f) != 6 {
					return
				}
				seed, e0 := strconv.ParseUint(f[1], 10, 64)
				d, e1 := strconv.Atoi(f[2])
				r, e2 := strconv.Atoi(f[3])
				u, e3 := strconv.Atoi(f[4])
				w, e4 := strconv.Atoi(f[5])
				if e0 != nil || e1 != nil || e2 != nil || e3 != nil || e4 != nil || d < 0 || d > 500 || r < 0 || r > 1000 || u < 0 || u > 1000 || w < 0 {
					return
				}
				x.rig.tn.setFaults(seed, d, r, u)
				c.wbuf = w
				res = "ok"
			case "expect":
				if len(f) != 1 {
					return
				}
				c.expect = true
				res = "ok"
			case "order":
				if len(f) != 2 || (f[1] != "r" && f[1] != "w" && f[1] != "f") {
					return
				}
				order = f[1]
				c.rp.order = order
				res = "ok"
			case "interim":
				if len(f) != 2 {
					return
				}
				var codes []int
				for _, tok := range strings.Split(f[1], ".") {
					n, err := strconv.Atoi(tok)
					if err != nil || (n != 100 && n != 102 && n != 103) {
						return
					}
					codes = append(codes, n)
				}
				interim = codes
				c.rp.interim = codes
				res = "ok"
			case "hplan", "cplan":
				if len(f) != 3 {
					return
				}
				reads, ok := c34ParseInts(f[1])
				stop, err := strconv.Atoi(f[2])
				if !ok || err != nil || stop < -1 {
					return
				}
				if f[0] == "hplan" {
					c.hp = c34ReadPlan{reads, stop}
				} else {
					c.cp = c34ReadPlan{reads, stop}
				}
				res = "ok"
			case "resp":
				if len(f) != 7 {
					return
				}
				st, e1 := strconv.Atoi(f[1])
				cl, e2 := strconv.Atoi(f[2])
				h, ok1 := c34ParseHL(f[3])
				tr, ok2 := c34ParseHL(f[6])
				if e1 != nil || e2 != nil || !ok1 || !ok2 || cl < -1 || (st != 0 && (st < 200 || st > 599)) {
					return
				}
				var ws []string
				if f[4] != "-" {
					ws = strings.Split(f[4], ".")
					for _, w := range ws {
						if w == "F" || w == "e" {
							continue
						}
						if b, ok := vu.ParseHex(w); !ok || len(b) == 0 {
							return
						}
					}
				}
				if f[5] != "d" && f[5] != "p" && f[5] != "-" {
					return
				}
				if (f[5] == "-") != (len(tr) == 0) {
					return
				}
				c.rp = c34RespPlan{interim: interim, order: order, status: st, cl: cl, h: h, writes: ws, trmode: f[5], tr: tr}
				res = "ok"
			case "req":
				if len(f) != 8 {
					return
				}
				cl, e1 := strconv.Atoi(f[3])
				h, ok1 := c34ParseHL(f[5])
				chunks, ok2 := c34ParseChunks(f[6])
				tr, ok3 := c34ParseHL(f[7])
				if e1 != nil || !ok1 || !ok2 || !ok3 || cl < -1 || (f[4] != "0" && f[4] != "1") || !strings.HasPrefix(f[2], "/") {
					return
				}
				switch f[1] {
				case "GET", "POST", "PUT", "HEAD", "DELETE", "PATCH":
				default:
					return
				}
				res = x.attempt(o, func(sink c34Sink) string {
					var r string
					r, wres, cres = x.rig.e2e(c, f[1], f[2], cl, f[4] == "1", h, chunks, tr, sink)
					return r
				})
			case "wres":
				if len(f) != 1 || wres == "" {
					return
				}
				res = wres
			case "cres":
				if len(f) != 1 || cres == "" {
					return
				}
				res = cres
			case "rawreq":
				if len(f) != 6 {
					return
				}
				frames, ok1 := c34ParseFrames(f[4])
				tr, ok2 := c34ParseHL(f[5])
				if !ok1 || !ok2 || (f[3] != "0" && f[3] != "1") || (f[1] != "POST" && f[1] != "GET" && f[1] != "PUT") || (f[3] == "1") != (len(tr) > 0) {
					return
				}
				if f[2] != "-" {
					if n, err := strconv.ParseUint(f[2], 10, 31); err != nil || strconv.FormatUint(n, 10) != f[2] {
						return
					}
				}
				res = x.attempt(o, func(sink c34Sink) string { return x.rig.rawReq(c, f[1], f[2], f[3] == "1", frames, tr, sink) })
			case "rawresp":
				if len(f) != 7 {
					return
				}
				st, e1 := strconv.Atoi(f[2])
				frames, ok1 := c34ParseFrames(f[5])
				tr, ok2 := c34ParseHL(f[6])
				if e1 != nil || st < 200 || st > 599 || !ok1 || !ok2 || (f[4] != "0" && f[4] != "1") || (f[1] != "GET" && f[1] != "HEAD") || (f[4] == "1") != (len(tr) > 0) {
					return
				}
				if f[3] != "-" {
					if n, err := strconv.ParseUint(f[3], 10, 31); err != nil || strconv.FormatUint(n, 10) != f[3] {
						return
					}
				}
				res = x.attempt(o, func(sink c34Sink) string { return x.rig.rawResp(c, f[1], st, f[3], f[4] == "1", frames, tr, sink) })
			}
		}()
		if res == "panic" {
			o.Fail("panic", op)
		}
		o.Op(op, res)
	}
	x.rig.tn.setFaults(0, 0, 0, 0)
}

func TestVerifC34(t *testing.T) {
	// Wall-clock watchdog outside the synctest bubble: a case that makes no progress for
	// 100 s of real time aborts the run (the bubble's own timers are virtual).
	var prog atomic.Int64
	stop := make(chan struct{})
	go func() {
		last, lastT := int64(-1), time.Now()
		for {
			select {
			case <-stop:
				return
			case <-time.After(2 * time.Second):
			}
			if p := prog.Load(); p != last {
				last, lastT = p, time.Now()
			} else if time.Since(lastT) > 100*time.Second {
				fmt.Fprintf(os.Stderr, "C34 watchdog: case %d made no progress for 100s\n", p)
				os.Exit(3)
			}
		}
	}()
	defer close(stop)
	synctest.Test(t, func(t *testing.T) {
		x := &c34Exec{t: t, prog: &prog}
		vu.Run(vu.ConfigFromEnv(), c34Gen, x.exec)
	})
}
