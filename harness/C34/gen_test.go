//go:build verif

package http3

import (
	"fmt"
	"os"
	"strings"

	vu "golang.org/x/net/internal/verifutil"
)

var c34Sizes = []int{1, 1, 2, 3, 7, 16, 63, 64, 65, 100, 255, 256, 300, 511, 512, 513, 1000, 1199, 1200, 1500, 4095, 4096, 4097}
var c34BigSizes = []int{8192, 16383, 16384, 16385, 32768, 32769, 40000, 70000}

func c34Size(r *vu.Rng) int {
	if r.Chance(1, 12) {
		return c34BigSizes[r.Intn(len(c34BigSizes))]
	}
	if r.Chance(1, 4) {
		return r.Range(1, 2000)
	}
	return c34Sizes[r.Intn(len(c34Sizes))]
}

func c34GenHL(r *vu.Rng, prefix string, max int) string {
	n := r.Intn(max + 1)
	if n == 0 {
		return "-"
	}
	var toks []string
	for i := 0; i < n; i++ {
		name := fmt.Sprintf("x-%s%d", prefix, r.Intn(3))
		vlen := r.Intn(12)
		if r.Chance(1, 10) {
			vlen = r.Range(50, 300)
		}
		v := r.BytesFrom("abcdefghijklmnopqrstuvwxyzABCDEFGHIJKLMNOPQRSTUVWXYZ0123456789-_.;=/", vlen)
		toks = append(toks, name+":"+vu.Hex(v))
	}
	return strings.Join(toks, ",")
}

func c34GenChunks(r *vu.Rng, maxChunks int) (string, int) {
	n := r.Intn(maxChunks + 1)
	if n == 0 {
		return "-", 0
	}
	var toks []string
	total := 0
	for i := 0; i < n; i++ {
		sz := c34Size(r)
		if total+sz > 150000 {
			sz = 10
		}
		total += sz
		toks = append(toks, vu.Hex(r.Bytes(sz)))
	}
	return strings.Join(toks, "."), total
}

func c34GenReads(r *vu.Rng) string {
	n := r.Range(1, 4)
	var toks []string
	for i := 0; i < n; i++ {
		switch r.Intn(4) {
		case 0:
			toks = append(toks, fmt.Sprint(r.Range(1, 9)))
		case 1:
			toks = append(toks, fmt.Sprint(c34Sizes[r.Intn(len(c34Sizes))]))
		default:
			toks = append(toks, fmt.Sprint(r.Range(100, 60000)))
		}
	}
	return strings.Join(toks, ".")
}

func c34GenStop(r *vu.Rng, total int) int {
	if r.Chance(4, 5) {
		return -1
	}
	switch r.Intn(4) {
	case 0:
		return 0
	case 1:
		return total
	case 2:
		return total + r.Range(1, 10)
	}
	return r.Intn(total + 1)
}

func c34GenNet(r *vu.Rng) string {
	if os.Getenv("VERIF_C34_NOFAULT") != "" || r.Chance(2, 5) {
		return fmt.Sprintf("net %d 0 0 0 0", r.Intn(1000))
	}
	drop, reorder, dup := 0, 0, 0
	if r.Chance(3, 4) {
		drop = r.Range(1, 150)
	}
	if r.Chance(1, 2) {
		reorder = r.Range(1, 400)
	}
	if r.Chance(1, 4) {
		dup = r.Range(1, 150)
	}
	return fmt.Sprintf("net %d %d %d %d 0", r.Intn(1<<30), drop, reorder, dup)
}

func c34GenResp(r *vu.Rng) string {
	statuses := []int{0, 0, 200, 200, 201, 404, 500, 204, 304}
	st := statuses[r.Intn(len(statuses))]
	// writes with flushes
	n := r.Intn(6)
	var toks []string
	total := 0
	for i := 0; i < n; i++ {
		if r.Chance(1, 4) {
			toks = append(toks, "F")
		}
		if r.Chance(1, 12) {
			toks = append(toks, "e")
			continue
		}
		sz := c34Size(r)
		if total+sz > 150000 {
			sz = 10
		}
		total += sz
		toks = append(toks, vu.Hex(r.Bytes(sz)))
	}
	if r.Chance(1, 5) {
		toks = append(toks, "F")
	}
	wl := "-"
	if len(toks) > 0 {
		wl = strings.Join(toks, ".")
	}
	cl := -1
	switch r.Intn(8) {
	case 0, 1, 2:
		cl = total
	case 3:
		cl = total + r.Range(1, 600) // handler writes less than declared
		if r.Bool() {
			cl = total + 1
		}
	case 4:
		if total > 0 {
			cl = r.Intn(total) // handler writes more than declared (trimmed)
			if r.Bool() {
				cl = total - 1
			}
		}
	}
	trmode, tr := "-", "-"
	if r.Chance(1, 3) {
		tr = c34GenHL(r, "t", 3)
		if tr != "-" {
			trmode = "d"
			if r.Chance(1, 3) {
				trmode = "p"
			}
		}
	}
	return fmt.Sprintf("resp %d %d %s %s %s %s", st, cl, c34GenHL(r, "r", 3), wl, trmode, tr)
}

func c34GenFrames(r *vu.Rng) (string, int) {
	n := r.Intn(5)
	if n == 0 {
		return "-", 0
	}
	var toks []string
	total := 0
	for i := 0; i < n; i++ {
		switch {
		case r.Chance(1, 8):
			toks = append(toks, "D") // empty DATA frame
		case r.Chance(1, 8):
			toks = append(toks, "U"+vu.Hex(r.Bytes(r.Intn(20))))
		default:
			sz := c34Size(r)
			if sz > 5000 {
				sz = r.Range(1, 5000)
			}
			total += sz
			toks = append(toks, "D"+vu.Hex(r.Bytes(sz)))
		}
	}
	return strings.Join(toks, "."), total
}

func c34GenCL(r *vu.Rng, total int) string {
	switch r.Intn(8) {
	case 0, 1:
		return "-"
	case 2, 3:
		return fmt.Sprint(total)
	case 4:
		if r.Bool() {
			return fmt.Sprint(total + 1) // off by one: declared one more than sent
		}
		return fmt.Sprint(total + r.Range(1, 300))
	case 5:
		if total > 0 {
			if r.Bool() {
				return fmt.Sprint(total - 1) // off by one: declared one less than sent
			}
			return fmt.Sprint(r.Intn(total))
		}
		return "0"
	case 6:
		return "0"
	}
	return fmt.Sprint(total)
}

func c34Gen(r *vu.Rng, i int) []string {
	ops := []string{c34GenNet(r)}
	switch k := r.Intn(10); {
	case k < 6: // real client <-> real server
		methods := []string{"POST", "POST", "PUT", "PATCH", "GET", "DELETE", "HEAD"}
		m := methods[r.Intn(len(methods))]
		path := "/" + string(r.BytesFrom("abcdefghijklmnopqrstuvwxyz0123456789/-_", r.Intn(12)))
		if r.Chance(1, 4) {
			path += "?q=" + string(r.BytesFrom("abc123", r.Intn(6)))
		}
		chunks, total := c34GenChunks(r, 6)
		nobody := 0
		if (m == "GET" || m == "HEAD" || m == "DELETE") && r.Chance(3, 4) || r.Chance(1, 10) {
			nobody, chunks, total = 1, "-", 0
		}
		cl := -1
		mismatch := false
		switch r.Intn(8) {
		case 0, 1, 2:
			cl = total
		case 3:
			cl = 0
		case 4:
			if nobody == 0 {
				cl = total + r.Range(1, 300)
				if r.Bool() {
					cl = total + 1
				}
				mismatch = true
			}
		case 5:
			if total > 1 {
				cl = r.Range(1, total-1)
				if r.Bool() {
					cl = total - 1
				}
				mismatch = true
			}
		}
		tr := "-"
		if nobody == 0 && r.Chance(1, 3) {
			tr = c34GenHL(r, "q", 3)
		}
		hstop := -1
		if !mismatch {
			hstop = c34GenStop(r, total)
		}
		if !mismatch && nobody == 0 && r.Chance(1, 12) {
			// region of the known finding early-response-lost: small client stream write buffer,
			// a body that does not fit it, a handler that answers after reading only a little
			ops[0] = strings.TrimSuffix(ops[0], " 0") + " 2048"
			var toks []string
			total = 0
			for i := r.Range(2, 5); i > 0; i-- {
				sz := r.Range(3000, 9000)
				total += sz
				toks = append(toks, vu.Hex(r.Bytes(sz)))
			}
			chunks = strings.Join(toks, ".")
			if cl > 0 {
				cl = total
			}
			hstop = r.Intn(200)
		}
		ops = append(ops,
			fmt.Sprintf("hplan %s %d", c34GenReads(r), hstop),
			c34GenResp(r),
			fmt.Sprintf("cplan %s %d", c34GenReads(r), -1))
		if r.Chance(1, 5) {
			// interim (1xx) responses before the final one, also a 100 nobody asked for
			var codes []string
			for i := r.Range(1, 3); i > 0; i-- {
				codes = append(codes, []string{"100", "100", "103", "102"}[r.Intn(4)])
			}
			ops = append(ops, "interim "+strings.Join(codes, "."))
		}
		expect := !mismatch && nobody == 0 && total > 0 && r.Chance(1, 5)
		if expect {
			ops = append(ops, "expect")
		}
		switch r.Intn(6) {
		case 0:
			ops = append(ops, "order w") // WriteHeader before reading the request body
		case 1:
			// Final header on the wire before the body is read. Not combined with Expect: the
			// client (by design) does not send the body after a final response without a 100,
			// so a handler that then reads blocks itself.
			if !expect {
				ops = append(ops, "order f")
			}
		}
		ops = append(ops,
			fmt.Sprintf("req %s %s %d %d %s %s %s", m, path, cl, nobody, c34GenHL(r, "h", 4), chunks, tr),
			"wres", "cres")
	case k < 8: // raw client -> real server
		frames, total := c34GenFrames(r)
		tr, trdecl := "-", 0
		if r.Chance(1, 4) {
			if tr = c34GenHL(r, "q", 2); tr != "-" {
				trdecl = 1
			}
		}
		ops = append(ops,
			fmt.Sprintf("hplan %s %d", c34GenReads(r), -1),
			fmt.Sprintf("rawreq %s %s %d %s %s", []string{"POST", "PUT", "GET"}[r.Intn(3)], c34GenCL(r, total), trdecl, frames, tr))
	default: // real client <- raw server
		frames, total := c34GenFrames(r)
		tr, trdecl := "-", 0
		if r.Chance(1, 4) {
			if tr = c34GenHL(r, "t", 2); tr != "-" {
				trdecl = 1
			}
		}
		m := "GET"
		if r.Chance(1, 8) {
			m = "HEAD"
		}
		st := []int{200, 200, 200, 201, 404, 204, 304}[r.Intn(7)]
		ops = append(ops,
			fmt.Sprintf("cplan %s %d", c34GenReads(r), -1),
			fmt.Sprintf("rawresp %s %d %s %d %s %s", m, st, c34GenCL(r, total), trdecl, frames, tr))
	}
	return ops
}
