//go:build verif

// C39 harness: html.Tokenizer is lossless and total; SetMaxBuf is respected.
//
// Two modes (env VERIF_C39_MODE):
//
//	raw   (default, V-tie): every token returned by Next is recorded as an event
//	      line `tok <type> <rawlen> <rawhex> <cap>`, the final ErrorToken as
//	      `end <kind> <errRawHex> <tailHex>`; the Lean monitor checks the local
//	      span condition and reconstructs the input.
//	exact (D-tie): one line `tokenize …` per input; the result is the list of
//	      (type,len) pairs which the exact Lean model of Next must reproduce.
package main

import (
	"bytes"
	"errors"
	"fmt"
	"io"
	"os"
	"strconv"
	"strings"
	"time"

	"golang.org/x/net/html"
	vu "golang.org/x/net/internal/verifutil"
)

var errCustom = errors.New("verif: custom reader error")

// ---------------------------------------------------------------- generator

var rawTextTags = []string{"script", "style", "textarea", "title", "plaintext", "xmp", "iframe", "noembed", "noframes", "noscript"}
var plainTags = []string{"a", "b", "p", "div", "br", "img", "table", "td", "svg", "math", "foreignObject", "desc", "mi", "annotation-xml", "select", "template", "i", "s", "t", "x", "n", "scrip", "scripts", "sty", "titl", "titles"}
var ctxTags = []string{"", "", "", "div", "title", "textarea", "script", "style", "plaintext", "xmp", "iframe", "noembed", "noframes", "noscript", "svg", "TITLE", "Script"}

func randCase(r *vu.Rng, s string) string {
	if r.Chance(3, 4) {
		return s
	}
	b := []byte(s)
	for i := range b {
		if 'a' <= b[i] && b[i] <= 'z' && r.Bool() {
			b[i] -= 'a' - 'A'
		}
	}
	return string(b)
}

func ws(r *vu.Rng) string {
	return []string{"", " ", " ", "\n", "\t", "\f", "\r", "  ", "\r\n"}[r.Intn(9)]
}

func genText(r *vu.Rng) string {
	switch r.Intn(12) {
	case 0:
		return "&amp;&lt;&#x41;&notanentity;&"
	case 1:
		return "a\x00b"
	case 2:
		return "\xff\xfe\xc3(\xe2\x82"
	case 3:
		return "x < y"
	case 4:
		return "<"
	case 5:
		return "1<2>3"
	case 6:
		return "\r\n\r"
	case 7:
		return "<<"
	case 8:
		return "</"
	case 9:
		return "é→☃"
	default:
		return string(r.BytesFrom("abc xyz.\n", r.Range(1, 8)))
	}
}

func genAttr(r *vu.Rng) string {
	k := []string{"a", "b", "href", "A", "xlink:href", "=x", "a\x00", "", "k", "k", "/", "a/b", "\"", "'"}[r.Intn(14)]
	switch r.Intn(10) {
	case 0:
		return k
	case 1:
		return k + "="
	case 2:
		return k + ws(r) + "=" + ws(r) + "v"
	case 3:
		return k + "=\"v w\""
	case 4:
		return k + "='v>w'"
	case 5:
		return k + "=\"unterminated"
	case 6:
		return k + "=/"
	case 7:
		return k + "=v/"
	case 8:
		return k + "=\"&amp;\x00\r\n\""
	default:
		return k + "=" + string(r.BytesFrom("abc/='\"<&", r.Range(1, 4)))
	}
}

func genStartTag(r *vu.Rng, name string) string {
	var b strings.Builder
	b.WriteString("<" + randCase(r, name))
	n := r.Intn(4)
	if r.Chance(1, 2) {
		n = 0
	}
	for i := 0; i < n; i++ {
		sp := ws(r)
		if sp == "" && r.Chance(3, 4) {
			sp = " "
		}
		b.WriteString(sp + genAttr(r))
	}
	b.WriteString(ws(r))
	switch r.Intn(12) {
	case 0:
		b.WriteString("/>")
	case 1:
		b.WriteString(" / >")
	case 2:
		// unterminated
	default:
		b.WriteString(">")
	}
	return b.String()
}

func genEndTag(r *vu.Rng, name string) string {
	switch r.Intn(10) {
	case 0:
		return "</" + randCase(r, name) + " >"
	case 1:
		return "</" + randCase(r, name) + " a=b>"
	case 2:
		return "</" + randCase(r, name)
	case 3:
		return "</" + randCase(r, name) + "/>"
	default:
		return "</" + randCase(r, name) + ">"
	}
}

func genComment(r *vu.Rng) string {
	pool := []string{"<!--x-->", "<!---->", "<!-->", "<!--->", "<!--a--!>", "<!--a--!b-->", "<!--a-", "<!--a--", "<!--a--!", "<!--",
		"<!--a->b-->", "<!-- <!-- nested --> -->", "<!--\x00-->", "<!x>", "<!>", "<!", "<?xml version?>", "<?", "<?>", "</>", "</ x>", "</1>", "</", "</\x00>",
		"<!--a--!-->", "<!--!>", "<!--!-->", "<!--a---->", "<!--a--->", "<!-- - -- --- -->", "<!-", "<!-x>"}
	return pool[r.Intn(len(pool))]
}

func genDoctype(r *vu.Rng) string {
	pool := []string{"<!DOCTYPE html>", "<!doctype html>", "<!DoCtYpE  html PUBLIC \"-//W3C//DTD HTML 4.01//EN\">", "<!DOCTYPE", "<!DOCTYPE ", "<!DOCTYPE>", "<!DOCTYP html>",
		"<!DOCTYPEhtml>", "<!DOCTYPE html", "<!DOCTYPE \x00>", "<!DOCTY", "<!D", "<!DO", "<!doctype\n\t x>"}
	return pool[r.Intn(len(pool))]
}

func genCDATA(r *vu.Rng) string {
	pool := []string{"<![CDATA[x]]>", "<![CDATA[]]>", "<![CDATA[a]b]]c]]]>", "<![CDATA[x", "<![CDATA[x]]", "<![CDATA", "<![CDAT", "<![cdata[x]]>", "<![CDATA[\x00<a>]]>", "<![", "<![CDATA[]>]]>>"}
	return pool[r.Intn(len(pool))]
}

func genRawContent(r *vu.Rng, tag string) string {
	var b strings.Builder
	n := r.Intn(5)
	for i := 0; i < n; i++ {
		switch r.Intn(16) {
		case 0:
			b.WriteString("<!--")
		case 1:
			b.WriteString("-->")
		case 2:
			b.WriteString("<script>")
		case 3:
			b.WriteString("</script ")
		case 4:
			b.WriteString("</" + tag[:r.Intn(len(tag)+1)])
		case 5:
			b.WriteString("</" + randCase(r, tag) + "x>")
		case 6:
			b.WriteString("<" + randCase(r, "script") + []string{" ", ">", "/", "x", "\n"}[r.Intn(5)])
		case 7:
			b.WriteString("--")
		case 8:
			b.WriteString("-")
		case 9:
			b.WriteString("<")
		case 10:
			b.WriteString("</")
		case 11:
			b.WriteString("<!-")
		case 12:
			b.WriteString("<p>&amp;\x00")
		case 13:
			b.WriteString("</" + randCase(r, "script") + []string{">", " ", "/", "\t", "x"}[r.Intn(5)])
		default:
			b.Write(r.BytesFrom("ab <>-!/", r.Range(1, 5)))
		}
	}
	return b.String()
}

func genFragment(r *vu.Rng, b *strings.Builder) {
	switch r.Intn(16) {
	case 0, 1, 2:
		b.WriteString(genText(r))
	case 3, 4, 5:
		b.WriteString(genStartTag(r, plainTags[r.Intn(len(plainTags))]))
	case 6, 7:
		b.WriteString(genEndTag(r, plainTags[r.Intn(len(plainTags))]))
	case 8, 9:
		b.WriteString(genComment(r))
	case 10:
		b.WriteString(genDoctype(r))
	case 11:
		b.WriteString(genCDATA(r))
	case 12, 13, 14:
		tag := rawTextTags[r.Intn(len(rawTextTags))]
		if r.Chance(1, 2) {
			tag = "script"
		}
		b.WriteString(genStartTag(r, tag))
		b.WriteString(genRawContent(r, tag))
		if r.Chance(4, 5) {
			b.WriteString(genEndTag(r, tag))
		}
	default:
		// foreign content
		root := []string{"svg", "math"}[r.Intn(2)]
		b.WriteString("<" + root + ">")
		for i, n := 0, r.Intn(3); i < n; i++ {
			switch r.Intn(4) {
			case 0:
				b.WriteString(genCDATA(r))
			case 1:
				b.WriteString("<title>a<b>c</title>")
			case 2:
				b.WriteString(genStartTag(r, []string{"foreignObject", "desc", "mi", "annotation-xml", "g", "path"}[r.Intn(6)]))
			default:
				b.WriteString(genText(r))
			}
		}
		if r.Bool() {
			b.WriteString("</" + root + ">")
		}
	}
}

const mutAlphabet = "<>/!-\x00\"'= &"

func genInput(r *vu.Rng) []byte {
	var out []byte
	switch r.Intn(10) {
	case 0:
		out = r.Bytes(r.Intn(40))
	case 1, 2:
		out = r.BytesFrom("<>/!-=\"' aAsScCrRiIpPtT[]?\x00\n", r.Intn(30))
	default:
		var b strings.Builder
		for i, n := 0, r.Range(1, 6); i < n; i++ {
			genFragment(r, &b)
		}
		out = []byte(b.String())
	}
	// mutations
	if r.Chance(1, 4) && len(out) > 0 {
		for k, n := 0, r.Range(1, 3); k < n && len(out) > 0; k++ {
			i := r.Intn(len(out))
			switch r.Intn(3) {
			case 0:
				out[i] = mutAlphabet[r.Intn(len(mutAlphabet))]
			case 1:
				out = append(out[:i], out[i+1:]...)
			default:
				out = append(out[:i], append([]byte{mutAlphabet[r.Intn(len(mutAlphabet))]}, out[i:]...)...)
			}
		}
	}
	if r.Chance(1, 5) && len(out) > 0 {
		out = out[:r.Intn(len(out)+1)]
	}
	// long inputs crossing the 4096-byte buffer (growth and compaction paths)
	if r.Chance(1, 60) {
		filler := bytes.Repeat([]byte([]string{"x", "ab ", "<p>", "-", "a=b "}[r.Intn(5)]), r.Range(1000, 3500))
		i := r.Intn(len(out) + 1)
		out = append(out[:i:i], append(filler, out[i:]...)...)
	}
	return out
}

type cfg struct {
	maxBuf   int
	input    []byte
	cdata    bool
	ctx      string
	seed     uint64
	chunkMax int
	errKind  string // eof | custom
	nirt     int    // 0 never, 1 always, 2 random: call NextIsNotRawText after start tags
	api      bool   // also call Token() on every token
}

func genCfg(r *vu.Rng) cfg {
	c := cfg{input: genInput(r), cdata: r.Chance(1, 3), ctx: ctxTags[r.Intn(len(ctxTags))], seed: r.Uint64() >> 1,
		errKind: "eof", api: r.Bool()}
	switch r.Intn(5) {
	case 0:
		c.chunkMax = 0 // whole input in one Read
	case 1:
		c.chunkMax = 1
	default:
		c.chunkMax = r.Range(2, 12)
	}
	if len(c.input) > 500 {
		c.chunkMax = []int{0, 100, 1000, 5000}[r.Intn(4)]
	}
	if r.Chance(1, 10) {
		c.errKind = "custom"
	}
	if r.Chance(1, 6) {
		c.nirt = r.Range(1, 2)
	}
	if r.Chance(2, 5) {
		switch r.Intn(3) {
		case 0:
			c.maxBuf = r.Range(1, 8)
		case 1:
			c.maxBuf = r.Range(1, len(c.input)+3)
		default:
			c.maxBuf = r.Range(1, 40)
		}
		if len(c.input) > 500 && r.Bool() {
			c.maxBuf = r.Range(1000, 6000)
		}
	}
	return c
}

func b2i(b bool) int {
	if b {
		return 1
	}
	return 0
}

func (c cfg) fields() string {
	ctx := c.ctx
	if ctx == "" {
		ctx = "-"
	}
	return fmt.Sprintf("%d %s %d %s %d %d %s %d %d", c.maxBuf, vu.Hex(c.input), b2i(c.cdata), ctx, c.seed, c.chunkMax, c.errKind, c.nirt, b2i(c.api))
}

func parseCfg(t []string) (c cfg, ok bool) {
	if len(t) != 9 {
		return c, false
	}
	var err error
	if c.maxBuf, err = strconv.Atoi(t[0]); err != nil || c.maxBuf < 0 {
		return c, false
	}
	if c.input, ok = vu.ParseHex(t[1]); !ok {
		return c, false
	}
	c.cdata = t[2] == "1"
	if t[3] != "-" {
		c.ctx = t[3]
	}
	if c.seed, err = strconv.ParseUint(t[4], 10, 64); err != nil {
		return c, false
	}
	if c.chunkMax, err = strconv.Atoi(t[5]); err != nil || c.chunkMax < 0 {
		return c, false
	}
	if c.errKind = t[6]; c.errKind != "eof" && c.errKind != "custom" {
		return c, false
	}
	if c.nirt, err = strconv.Atoi(t[7]); err != nil {
		return c, false
	}
	c.api = t[8] == "1"
	return c, true
}

var mode = os.Getenv("VERIF_C39_MODE")

func gen(r *vu.Rng, i int) []string {
	c := genCfg(r)
	if mode == "exact" {
		c.nirt, c.api = 0, false
		return []string{"tokenize " + c.fields()}
	}
	return []string{"run " + c.fields()}
}

// ---------------------------------------------------------------- reader

// chunkReader delivers data in short reads of random sizes, sometimes (0,nil),
// sometimes the final bytes together with the error.
type chunkReader struct {
	data  []byte
	pos   int
	max   int
	r     *vu.Rng
	final error
	zeros int
}

func (c *chunkReader) Read(p []byte) (int, error) {
	if c.pos >= len(c.data) {
		return 0, c.final
	}
	if len(p) == 0 {
		return 0, nil
	}
	if c.max > 0 && c.zeros < 3 && c.r.Chance(1, 8) {
		c.zeros++
		return 0, nil
	}
	c.zeros = 0
	n := len(c.data) - c.pos
	if c.max > 0 {
		if k := 1 + c.r.Intn(c.max); k < n {
			n = k
		}
	}
	if n > len(p) {
		n = len(p)
	}
	copy(p, c.data[c.pos:c.pos+n])
	c.pos += n
	if c.pos == len(c.data) && c.max > 0 && c.r.Chance(1, 3) {
		return n, c.final
	}
	return n, nil
}

// ---------------------------------------------------------------- executor

type tokEv struct {
	tt  html.TokenType
	raw []byte
	cap int
}

type runResult struct {
	toks    []tokEv
	errRaw  []byte
	err     error
	tail    []byte
	steps   int
	stalled bool
}

// tokenizeAll drives one tokenizer to its ErrorToken.
func tokenizeAll(c cfg, chunked bool) runResult {
	final := io.EOF
	if c.errKind == "custom" {
		final = errCustom
	}
	rd := &chunkReader{data: c.input, max: c.chunkMax, r: vu.NewRng(c.seed), final: final}
	if !chunked {
		rd.max = 0
	}
	nr := vu.NewRng(c.seed ^ 0x5555)
	var z *html.Tokenizer
	if c.ctx == "" {
		z = html.NewTokenizer(rd)
	} else {
		z = html.NewTokenizerFragment(rd, c.ctx)
	}
	if c.maxBuf > 0 {
		z.SetMaxBuf(c.maxBuf)
	}
	z.AllowCDATA(c.cdata)
	var res runResult
	limit := len(c.input) + 2
	for {
		tt := z.Next()
		res.steps++
		raw := append([]byte(nil), z.Raw()...)
		cp, _, _, _ := html.VerifBufState(z)
		if tt == html.ErrorToken {
			res.errRaw, res.err = raw, z.Err()
			rest, _ := io.ReadAll(io.MultiReader(bytes.NewReader(z.Buffered()), bytes.NewReader(rd.data[rd.pos:])))
			res.tail = rest
			return res
		}
		res.toks = append(res.toks, tokEv{tt, raw, cp})
		if c.api {
			_ = z.Token()
			_, _ = z.TagName()
			_, _, _ = z.TagAttr()
			_ = z.Text()
		}
		if tt == html.StartTagToken && (c.nirt == 1 || (c.nirt == 2 && nr.Bool())) {
			z.NextIsNotRawText()
		}
		if res.steps > limit {
			res.stalled = true
			return res
		}
	}
}

// withWatchdog runs f; a hang or panic is reported instead of killing the harness.
func withWatchdog(f func() runResult) (res runResult, panicMsg string, hung bool) {
	type out struct {
		r runResult
		p string
	}
	ch := make(chan out, 1)
	go func() {
		var o out
		defer func() {
			if e := recover(); e != nil {
				o.p = fmt.Sprint(e)
				if o.p == "" {
					o.p = "panic"
				}
			}
			ch <- o
		}()
		o.r = f()
	}()
	select {
	case o := <-ch:
		return o.r, o.p, false
	case <-time.After(30 * time.Second):
		return runResult{}, "", true
	}
}

func isLetter(c byte) bool { return 'a' <= c && c <= 'z' || 'A' <= c && c <= 'Z' }

func openTagLike(b []byte) bool {
	if len(b) >= 2 && b[0] == '<' && isLetter(b[1]) {
		return true
	}
	return len(b) >= 3 && b[0] == '<' && b[1] == '/' && isLetter(b[2])
}

func endKind(c cfg, err error) string {
	switch err {
	case io.EOF:
		return "eof"
	case html.ErrBufferExceeded:
		return "maxbuf"
	}
	return "other"
}

func capBound(mb int) int {
	if b := 4 * mb; b > 4096 {
		return b
	}
	return 4096
}

// oracle states C39 directly on the implementation.
func oracle(c cfg, res runResult, o *vu.Out) {
	in := fmt.Sprintf("input=%q maxBuf=%d cdata=%v ctx=%q chunk=%d/%d err=%s nirt=%d", c.input, c.maxBuf, c.cdata, c.ctx, c.chunkMax, c.seed, c.errKind, c.nirt)
	if res.stalled {
		o.Fail("no-progress", "more tokens than input bytes: "+in)
		return
	}
	var cat []byte
	for i, t := range res.toks {
		cat = append(cat, t.raw...)
		if len(t.raw) == 0 {
			o.Fail("empty-token", fmt.Sprintf("token %d (%v) has empty Raw(): %s", i, t.tt, in))
		}
		if t.tt > html.DoctypeToken {
			o.Fail("bad-type", fmt.Sprintf("token %d has type %d: %s", i, t.tt, in))
		}
		if c.maxBuf > 0 {
			if len(t.raw) > c.maxBuf {
				o.Fail("maxbuf-exceeded", fmt.Sprintf("token %d %v Raw()=%q is %d bytes > maxBuf: %s", i, t.tt, t.raw, len(t.raw), in))
			}
			if t.cap > capBound(c.maxBuf) {
				o.Fail("cap-exceeded", fmt.Sprintf("cap(z.buf)=%d after token %d: %s", t.cap, i, in))
			}
		}
	}
	all := append(append(append([]byte{}, cat...), res.errRaw...), res.tail...)
	if !bytes.Equal(all, c.input) {
		o.Fail("not-lossless", fmt.Sprintf("concat(Raw)+errRaw+unread = %q: %s", all, in))
	}
	if len(res.errRaw) > 0 && !openTagLike(res.errRaw) {
		o.Fail("lost-non-tag", fmt.Sprintf("ErrorToken Raw()=%q is not an unterminated tag: %s", res.errRaw, in))
	}
	if c.maxBuf > 0 && len(res.errRaw) > c.maxBuf {
		o.Fail("maxbuf-exceeded", fmt.Sprintf("ErrorToken Raw()=%q > maxBuf: %s", res.errRaw, in))
	}
	switch res.err {
	case io.EOF:
		if len(res.tail) != 0 || c.errKind != "eof" {
			o.Fail("eof-early", fmt.Sprintf("EOF with %d unread bytes: %s", len(res.tail), in))
		}
	case html.ErrBufferExceeded:
		if c.maxBuf == 0 {
			o.Fail("maxbuf-spurious", "ErrBufferExceeded without SetMaxBuf: "+in)
		}
	case errCustom:
		if len(res.tail) != 0 || c.errKind != "custom" {
			o.Fail("eof-early", fmt.Sprintf("reader error with %d unread bytes: %s", len(res.tail), in))
		}
	default:
		o.Fail("bad-err", fmt.Sprintf("Err()=%v: %s", res.err, in))
	}
}

func sameTokens(a, b runResult) bool {
	if len(a.toks) != len(b.toks) || !bytes.Equal(a.errRaw, b.errRaw) || a.err != b.err {
		return false
	}
	for i := range a.toks {
		if a.toks[i].tt != b.toks[i].tt || !bytes.Equal(a.toks[i].raw, b.toks[i].raw) {
			return false
		}
	}
	return true
}

func exec(ops []string, o *vu.Out) {
	for _, op := range ops {
		t := strings.Fields(op)
		if len(t) == 0 {
			continue
		}
		switch t[0] {
		case "tok", "end", "panic":
			continue // recorded events of an earlier run (replay files); regenerated below
		case "run", "tokenize":
		default:
			o.Op(op, "bad-op")
			continue
		}
		c, ok := parseCfg(t[1:])
		if !ok {
			o.Op(op, "bad-op")
			continue
		}
		res, pmsg, hung := withWatchdog(func() runResult { return tokenizeAll(c, true) })
		o.Stat("mode:" + t[0])
		if c.maxBuf > 0 {
			o.Stat("cfg:maxbuf")
		}
		if hung || pmsg != "" {
			if hung {
				o.Fail("hang", fmt.Sprintf("tokenizer did not terminate within 30s: input=%q maxBuf=%d ctx=%q", c.input, c.maxBuf, c.ctx))
			} else {
				o.Fail("panic", fmt.Sprintf("tokenizer panicked (%s): input=%q maxBuf=%d ctx=%q cdata=%v", pmsg, c.input, c.maxBuf, c.ctx, c.cdata))
			}
			if t[0] == "run" {
				o.Op(op, "ok")
				o.Op("panic", "ok")
			} else {
				o.Op(op, "panic")
			}
			continue
		}
		oracle(c, res, o)
		// chunk independence: the same input in one Read gives the same tokens
		if c.chunkMax > 0 && c.nirt != 2 {
			whole, p2, h2 := withWatchdog(func() runResult { return tokenizeAll(c, false) })
			if p2 != "" || h2 || !sameTokens(res, whole) {
				o.Fail("chunk-dependent", fmt.Sprintf("tokens depend on how the reader splits the input: input=%q maxBuf=%d ctx=%q seed=%d/%d", c.input, c.maxBuf, c.ctx, c.seed, c.chunkMax))
			}
		}
		for _, tk := range res.toks {
			o.Stat("tt:" + tk.tt.String())
		}
		o.Stat("end:" + endKind(c, res.err))
		if len(res.errRaw) > 0 {
			o.Stat("end:open-tag-dropped")
		}
		if t[0] == "run" {
			o.Op(op, "ok")
			for _, tk := range res.toks {
				o.Op(fmt.Sprintf("tok %d %d %s %d", tk.tt, len(tk.raw), vu.Hex(tk.raw), tk.cap), "ok")
			}
			o.Op(fmt.Sprintf("end %s %s %s", endKind(c, res.err), vu.Hex(res.errRaw), vu.Hex(res.tail)), "ok")
		} else {
			var b strings.Builder
			b.WriteString("ok")
			for _, tk := range res.toks {
				fmt.Fprintf(&b, " %d:%d", tk.tt, len(tk.raw))
			}
			fmt.Fprintf(&b, " end %s %d", endKind(c, res.err), len(res.errRaw))
			o.Op(op, b.String())
		}
	}
}

func main() { vu.Main(gen, exec) }
