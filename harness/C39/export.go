//go:build verif

package html

// White-box accessors for the C39 harness (injected with -overlay, never committed).

// VerifBufState exposes the tokenizer's buffer counters:
// cap(z.buf), len(z.buf), z.raw.start, z.raw.end.
func VerifBufState(z *Tokenizer) (capBuf, lenBuf, rawStart, rawEnd int) {
	return cap(z.buf), len(z.buf), z.raw.start, z.raw.end
}

// VerifRawTag exposes z.rawTag (the pending raw-text end tag).
func VerifRawTag(z *Tokenizer) string { return z.rawTag }
