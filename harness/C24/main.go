//go:build verif

// C24 harness: quic rangeset[int64] against an independent reference
// (membership predicate folded over the op history).
package main

import (
	"fmt"
	"math"
	"sort"
	"strings"

	vu "golang.org/x/net/internal/verifutil"
	"golang.org/x/net/quic"
)

var boundaryPool = []int64{math.MinInt64, math.MinInt64 + 1, math.MinInt64 + 2, -2, -1, 0, 1, 2,
	1 << 62, 1<<62 + 1, -(1 << 62), math.MaxInt64 - 2, math.MaxInt64 - 1, math.MaxInt64}

// gen: reset, then a short history of add/sub with interleaved queries.
func gen(r *vu.Rng, i int) []string {
	if r.Chance(1, 24) {
		return genMany(r)
	}
	mode := r.Intn(20)
	var pool []int64
	switch {
	case mode < 13: // small universe, many overlaps / adjacencies
		hi := int64(r.Range(6, 40))
		pool = nil
		for v := int64(-2); v <= hi; v++ {
			pool = append(pool, v)
		}
	case mode < 16: // wide values drawn from a small random pool, +-1 neighbours
		for k := 0; k < 6; k++ {
			v := int64(r.Uint64())
			pool = append(pool, v)
			if v > math.MinInt64 {
				pool = append(pool, v-1)
			}
			if v < math.MaxInt64 {
				pool = append(pool, v+1)
			}
		}
	default: // int64 boundaries mixed with small values
		pool = append(pool, boundaryPool...)
		for v := int64(3); v < 8; v++ {
			pool = append(pool, v)
		}
	}
	pick := func() int64 { return pool[r.Intn(len(pool))] }
	rng := func() (int64, int64) {
		a, b := pick(), pick()
		switch k := r.Intn(100); {
		case k < 4: // empty range
			b = a
		case k < 10: // unordered: an inverted pair (a > b) is an empty range
		default:
			if a > b {
				a, b = b, a
			}
		}
		return a, b
	}
	ops := []string{"reset"}
	n := r.Range(2, 14)
	for k := 0; k < n; k++ {
		a, b := rng()
		switch j := r.Intn(100); {
		case j < 45:
			ops = append(ops, fmt.Sprintf("add %d %d", a, b))
		case j < 80:
			ops = append(ops, fmt.Sprintf("sub %d %d", a, b))
		case j < 86:
			ops = append(ops, fmt.Sprintf("contains %d", a))
		case j < 92:
			ops = append(ops, fmt.Sprintf("rc %d", a))
		case j < 96:
			ops = append(ops, "q")
		default:
			ops = append(ops, fmt.Sprintf("isrange %d %d", a, b))
		}
		if r.Chance(1, 4) {
			ops = append(ops, "q")
		}
	}
	// A final isrange that is often true.
	if r.Bool() {
		ops = append(ops, "isrange-cur")
	}
	return ops
}

// genMany builds sets with MANY disjoint ranges (around and far beyond any small-set threshold an
// implementation might special-case: 8/9, 16/17, 32/33, 64/65, 128), in shuffled order, optionally
// thins/splits them with subs, and then asks every query op at start-1, start, end-1, end of EVERY
// constructed range and inside every gap.
func genMany(r *vu.Rng) []string {
	k := []int{7, 8, 9, 10, 15, 16, 17, 31, 32, 33, 63, 64, 65, 100, 128}[r.Intn(15)]
	if r.Chance(1, 3) {
		k = r.Range(5, 70)
	}
	base := int64(r.Range(-50, 50))
	switch r.Intn(6) {
	case 0:
		base = math.MinInt64 + int64(r.Intn(3))
	case 1:
		base = math.MaxInt64 - int64(k)*12 - int64(r.Intn(3))
	case 2:
		base = int64(r.Uint64()>>2) - 1<<61
	}
	type rg struct{ a, b int64 }
	rs := make([]rg, k)
	pos := base
	for j := range rs {
		w := int64(r.Range(1, 5))
		rs[j] = rg{pos, pos + w}
		pos += w + int64(r.Range(1, 4)) // gap >= 1: never adjacent
	}
	ops := []string{"reset"}
	order := make([]int, k)
	for j := range order {
		order[j] = j
	}
	switch r.Intn(3) {
	case 0: // ascending
	case 1: // descending
		for a, b := 0, k-1; a < b; a, b = a+1, b-1 {
			order[a], order[b] = order[b], order[a]
		}
	default: // shuffled
		for j := k - 1; j > 0; j-- {
			x := r.Intn(j + 1)
			order[j], order[x] = order[x], order[j]
		}
	}
	queryAt := func(v int64) {
		ops = append(ops, fmt.Sprintf("contains %d", v), fmt.Sprintf("rc %d", v))
	}
	for n, j := range order {
		ops = append(ops, fmt.Sprintf("add %d %d", rs[j].a, rs[j].b))
		if r.Chance(1, 6) { // interleaved queries while the set grows through the thresholds
			q := rs[order[r.Intn(n+1)]]
			queryAt(q.a)
			queryAt(q.b - 1)
		}
	}
	// optional second phase: split wide ranges, remove some, bridge some gaps
	if r.Bool() {
		m := r.Range(1, k/2+1)
		for n := 0; n < m; n++ {
			j := r.Intn(k)
			switch r.Intn(4) {
			case 0: // remove entirely
				ops = append(ops, fmt.Sprintf("sub %d %d", rs[j].a, rs[j].b))
			case 1: // split (when wide enough) or trim
				ops = append(ops, fmt.Sprintf("sub %d %d", rs[j].a+1, rs[j].b-1))
			case 2: // bridge the gap to the next range
				if j+1 < k {
					ops = append(ops, fmt.Sprintf("add %d %d", rs[j].b, rs[j+1].a))
				}
			default: // cut across several ranges
				j2 := min(k-1, j+r.Intn(4))
				ops = append(ops, fmt.Sprintf("sub %d %d", rs[j].a+int64(r.Intn(2)), rs[j2].b-int64(r.Intn(2))))
			}
		}
	}
	ops = append(ops, "q", "isrange-cur")
	for j := range rs {
		for _, v := range []int64{rs[j].a - 1, rs[j].a, rs[j].b - 1, rs[j].b} {
			if (v == rs[j].a-1 && rs[j].a == math.MinInt64) || v < rs[j].a-1 {
				continue
			}
			queryAt(v)
		}
		if j+1 < k && rs[j+1].a-rs[j].b > 1 {
			queryAt(rs[j].b + (rs[j+1].a-rs[j].b)/2)
		}
		if r.Chance(1, 8) {
			ops = append(ops, fmt.Sprintf("isrange %d %d", rs[j].a, rs[j].b))
		}
	}
	ops = append(ops, fmt.Sprintf("isrange %d %d", rs[0].a, rs[k-1].b), "q")
	return ops
}

type hop struct {
	add  bool
	a, b int64
}

// ref is the mathematical set: membership folded over the history.
func ref(h []hop, v int64) bool {
	in := false
	for _, o := range h {
		if o.a <= v && v < o.b {
			in = o.add
		}
	}
	return in
}

func showRanges(rs [][2]int64) string {
	if len(rs) == 0 {
		return "-"
	}
	var sb strings.Builder
	for i, r := range rs {
		if i > 0 {
			sb.WriteByte(',')
		}
		fmt.Fprintf(&sb, "%d:%d", r[0], r[1])
	}
	return sb.String()
}

// runsOf computes the maximal runs of the reference set. Every boundary of the
// set is an endpoint of some op, so it suffices to look at those.
func runsOf(h []hop) ([][2]int64, []int64, bool) {
	seen := map[int64]bool{}
	var E []int64
	for _, o := range h {
		for _, v := range []int64{o.a, o.b} {
			if !seen[v] {
				seen[v] = true
				E = append(E, v)
			}
		}
	}
	sort.Slice(E, func(i, j int) bool { return E[i] < E[j] })
	in := make([]bool, len(E))
	for i, e := range E {
		in[i] = ref(h, e)
	}
	var runs [][2]int64
	for i := 0; i < len(E); i++ {
		e := E[i]
		if !in[i] || (e != math.MinInt64 && ref(h, e-1)) {
			continue
		}
		found := false
		for j := i + 1; j < len(E); j++ {
			if !in[j] {
				runs = append(runs, [2]int64{e, E[j]})
				found = true
				break
			}
		}
		if !found {
			return nil, E, false
		}
	}
	return runs, E, true
}

func exec(ops []string, o *vu.Out) {
	var s quic.VerifRangeset
	var hist []hop
	outOfContract := false // (kept for replay of old cases; nothing sets it any more)
	nfail := 0
	var curRuns [][2]int64 // maximal runs of the reference set after the last mutation
	fail := func(desc string) {
		if outOfContract {
			return
		}
		if nfail++; nfail > 8 {
			return
		}
		if len(desc) > 600 {
			desc = desc[:600] + "…"
		}
		o.Fail("", desc)
	}
	// full: also sweep every critical point (every op endpoint and its neighbours) with every
	// point query; done after every op of short histories, every 8th op and after the last
	// mutation of long ones (the cheap part runs after every op).
	checkAll := func(op string, full bool) {
		if outOfContract {
			return
		}
		got := s.Ranges()
		runs, E, ok := runsOf(hist)
		if !ok {
			fail("oracle: unterminated run in reference")
			return
		}
		curRuns = runs
		// well-formedness, stated directly
		for i, r := range got {
			if r[0] >= r[1] {
				fail(fmt.Sprintf("%s: empty/inverted range %d:%d stored (%s)", op, r[0], r[1], showRanges(got)))
			}
			if i > 0 && got[i-1][1] >= r[0] {
				fail(fmt.Sprintf("%s: ranges not sorted/disjoint/non-adjacent (%s)", op, showRanges(got)))
			}
		}
		// membership at every critical point
		for _, e := range E {
			if !full {
				break
			}
			for d := int64(-1); d <= 1; d++ {
				p := e + d
				if (d < 0 && e == math.MinInt64) || (d > 0 && e == math.MaxInt64) {
					continue
				}
				want := ref(hist, p)
				direct := false
				for _, r := range got {
					if r[0] <= p && p < r[1] {
						direct = true
					}
				}
				if direct != want {
					fail(fmt.Sprintf("%s: stored ranges %s contain %d = %v, set says %v", op, showRanges(got), p, direct, want))
				}
				if c := s.Contains(p); c != want {
					fail(fmt.Sprintf("%s: contains(%d) = %v, set says %v (%s)", op, p, c, want, showRanges(got)))
				}
				a, b := s.RangeContaining(p)
				wa, wb := int64(0), int64(0)
				for _, r := range runs {
					if r[0] <= p && p < r[1] {
						wa, wb = r[0], r[1]
					}
				}
				if a != wa || b != wb {
					fail(fmt.Sprintf("%s: rangeContaining(%d) = %d:%d, maximal run is %d:%d (%s)", op, p, a, b, wa, wb, showRanges(got)))
				}
			}
		}
		// canonical form: list-for-list equal to the maximal runs of the set
		if showRanges(got) != showRanges(runs) {
			fail(fmt.Sprintf("%s: stored %s, maximal runs of the set are %s", op, showRanges(got), showRanges(runs)))
		}
		var wmin, wmax, wend, wsize int64
		if len(runs) > 0 {
			wmin, wend = runs[0][0], runs[len(runs)-1][1]
			wmax = wend - 1
		}
		for _, r := range runs {
			wsize += r[1] - r[0] // wraps like the implementation; exact when the set has < 2^63 elements
		}
		if s.Min() != wmin || s.Max() != wmax || s.End() != wend || s.NumRanges() != len(runs) || s.Size() != wsize {
			fail(fmt.Sprintf("%s: min/max/end/num/size = %d %d %d %d %d, set says %d %d %d %d %d", op,
				s.Min(), s.Max(), s.End(), s.NumRanges(), s.Size(), wmin, wmax, wend, len(runs), wsize))
		}
	}
	lastMut := -1
	for i, op := range ops {
		if strings.HasPrefix(op, "add ") || strings.HasPrefix(op, "sub ") {
			lastMut = i
		}
	}
	for opIdx, op := range ops {
		t := strings.Fields(op)
		if len(t) == 0 {
			o.Op(op, "bad-op")
			continue
		}
		o.Stat("op:" + t[0])
		switch {
		case t[0] == "reset" && len(t) == 1:
			s = quic.VerifRangeset{}
			hist = nil
			outOfContract = false
			nfail = 0
			curRuns = nil
			o.Op(op, "ok")
		case (t[0] == "add" || t[0] == "sub") && len(t) == 3:
			a, b := vu.Atoi64(t[1]), vu.Atoi64(t[2])
			if a > b { // an inverted pair denotes the empty set: a no-op like start == end
				o.Stat("inverted:" + t[0])
			}
			if a == b {
				o.Stat("empty:" + t[0])
			}
			if t[0] == "sub" && a == b {
				for _, r := range s.Ranges() {
					if r[0] < a && a < r[1] {
						o.Stat("empty:sub-inside-range")
					}
				}
			}
			before := len(s.Ranges())
			res := vu.Catch(func() string {
				if t[0] == "add" {
					s.Add(a, b)
				} else {
					s.Sub(a, b)
				}
				return "ok " + showRanges(s.Ranges())
			})
			o.Op(op, res)
			if res == "panic" {
				fail(op + " panicked")
			}
			hist = append(hist, hop{t[0] == "add", a, b})
			after := len(s.Ranges())
			switch {
			case after > before:
				o.Stat("effect:" + t[0] + ":grow")
			case after < before:
				o.Stat("effect:" + t[0] + ":shrink")
			default:
				o.Stat("effect:" + t[0] + ":same-len")
			}
			checkAll(op, len(hist) <= 16 || len(hist)%8 == 0 || opIdx == lastMut)
			if n := len(s.Ranges()); n > 8 {
				o.Stat("ranges:>8")
				if n > 32 {
					o.Stat("ranges:>32")
				}
			}
		case t[0] == "contains" && len(t) == 2:
			v := vu.Atoi64(t[1])
			c := s.Contains(v)
			o.Op(op, fmt.Sprintf("ok %v", c))
			if c != ref(hist, v) {
				fail(fmt.Sprintf("contains(%d) = %v, set says %v", v, c, !c))
			}
		case t[0] == "rc" && len(t) == 2:
			v := vu.Atoi64(t[1])
			a, b := s.RangeContaining(v)
			o.Op(op, fmt.Sprintf("ok %d %d", a, b))
			if in := ref(hist, v); (in && !(a <= v && v < b)) || (!in && (a != 0 || b != 0)) {
				fail(fmt.Sprintf("rangeContaining(%d) = %d:%d but membership is %v", v, a, b, in))
			}
			if !outOfContract {
				wa, wb := int64(0), int64(0)
				for _, r := range curRuns {
					if r[0] <= v && v < r[1] {
						wa, wb = r[0], r[1]
					}
				}
				if a != wa || b != wb {
					fail(fmt.Sprintf("rangeContaining(%d) = %d:%d, maximal run of the set is %d:%d", v, a, b, wa, wb))
				}
			}
		case t[0] == "q" && len(t) == 1:
			o.Op(op, fmt.Sprintf("ok %d %d %d %d %d", s.Min(), s.Max(), s.End(), s.NumRanges(), s.Size()))
		case t[0] == "isrange" && len(t) == 3, t[0] == "isrange-cur" && len(t) == 1:
			var a, b int64
			if t[0] == "isrange" {
				a, b = vu.Atoi64(t[1]), vu.Atoi64(t[2])
			} else if rs := s.Ranges(); len(rs) > 0 {
				a, b = rs[0][0], rs[len(rs)-1][1]
			}
			got := s.IsRange(a, b)
			// isrange-cur depends on implementation state, so it is recorded as the concrete query
			op2 := fmt.Sprintf("isrange %d %d", a, b)
			o.Op(op2, fmt.Sprintf("ok %v", got))
			if !outOfContract {
				runs, _, ok := runsOf(hist)
				want := ok && ((len(runs) == 0 && a == 0 && b == 0) || (len(runs) == 1 && runs[0][0] == a && runs[0][1] == b))
				if got != want {
					fail(fmt.Sprintf("isrange(%d,%d) = %v, set says %v", a, b, got, want))
				}
				if got {
					o.Stat("isrange:true")
				}
			}
		default:
			o.Op(op, "bad-op")
		}
	}
}

func main() { vu.Main(gen, exec) }
