//go:build verif

// White-box shims for the C24 harness: rangeset[int64] is unexported.
package quic

// VerifRangeset wraps a rangeset[int64].
type VerifRangeset struct{ S rangeset[int64] }

func (v *VerifRangeset) Add(a, b int64)          { v.S.add(a, b) }
func (v *VerifRangeset) Sub(a, b int64)          { v.S.sub(a, b) }
func (v *VerifRangeset) Contains(x int64) bool   { return v.S.contains(x) }
func (v *VerifRangeset) Min() int64              { return v.S.min() }
func (v *VerifRangeset) Max() int64              { return v.S.max() }
func (v *VerifRangeset) End() int64              { return v.S.end() }
func (v *VerifRangeset) NumRanges() int          { return v.S.numRanges() }
func (v *VerifRangeset) Size() int64             { return v.S.size() }
func (v *VerifRangeset) IsRange(a, b int64) bool { return v.S.isrange(a, b) }
func (v *VerifRangeset) RangeContaining(x int64) (int64, int64) {
	r := v.S.rangeContaining(x)
	return r.start, r.end
}

// Ranges returns a copy of the stored ranges.
func (v *VerifRangeset) Ranges() [][2]int64 {
	out := make([][2]int64, 0, len(v.S))
	for _, r := range v.S {
		out = append(out, [2]int64{r.start, r.end})
	}
	return out
}
