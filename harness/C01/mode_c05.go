//go:build verif

package main

// Property the harness binary is built for (decides which oracle clauses report).
const verifMode = "C05"
