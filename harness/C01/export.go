//go:build verif

package hpack

// White-box accessors for the /verif harness of C01 and C05 (injected with -overlay).

// VerifC01EncState returns the encoder's table fields (entries NEWEST FIRST) and update flags.
func VerifC01EncState(e *Encoder) (size, maxSize, minSize, limit uint32, upd bool, ents []HeaderField) {
	t := e.dynTab.table
	for i := len(t.ents) - 1; i >= 0; i-- {
		ents = append(ents, t.ents[i])
	}
	return e.dynTab.size, e.dynTab.maxSize, e.minSize, e.maxSizeLimit, e.tableSizeUpdate, ents
}

// VerifC01DecState returns the decoder's table fields (entries NEWEST FIRST) and firstField.
func VerifC01DecState(d *Decoder) (size, maxSize, allowed uint32, ents []HeaderField, firstField bool) {
	t := d.dynTab.table
	for i := len(t.ents) - 1; i >= 0; i-- {
		ents = append(ents, t.ents[i])
	}
	return d.dynTab.size, d.dynTab.maxSize, d.dynTab.allowedMaxSize, ents, d.firstField
}

// VerifC01Search exposes Encoder.searchTable.
func VerifC01Search(e *Encoder, f HeaderField) (uint64, bool) { return e.searchTable(f) }

// VerifC01IsNeedMore reports the internal sentinel.
func VerifC01IsNeedMore(err error) bool { return err == errNeedMore }

// VerifC01IndexConsistent checks the byName/byNameValue index of the encoder's dynamic table
// against its entries: every id must point at the newest entry with that name / pair.
func VerifC01IndexConsistent(e *Encoder) bool {
	t := &e.dynTab.table
	newestN := map[string]uint64{}
	newestNV := map[pairNameValue]uint64{}
	for k, f := range t.ents {
		id := uint64(k) + t.evictCount + 1
		newestN[f.Name] = id
		newestNV[pairNameValue{f.Name, f.Value}] = id
	}
	if len(newestN) != len(t.byName) || len(newestNV) != len(t.byNameValue) {
		return false
	}
	for k, v := range newestN {
		if t.byName[k] != v {
			return false
		}
	}
	for k, v := range newestNV {
		if t.byNameValue[k] != v {
			return false
		}
	}
	return true
}
