//go:build verif

// C01 / C05 harness: the real hpack.Encoder feeding the real hpack.Decoder over generated
// histories of header blocks with table-size calls between blocks.
//
// ops:  reset <A>                      NewEncoder + NewDecoder(4096) + SetAllowedMaxDynamicTableSize(A)
//       setmax <v> | setlimit <v>      Encoder.SetMaxDynamicTableSize / SetMaxDynamicTableSizeLimit
//       wf <name> <value> <0|1>        Encoder.WriteField, then Decoder.Write of exactly those bytes
//       end                            Decoder.Close (end of the header block)
//       emit <0|1>                     Decoder.SetEmitEnabled
//       cboff                          arm the emit callback: on the next emitted field it calls SetEmitEnabled(false)
//                                      from inside the callback (as http2's Framer does for too large header lists)
//       search <name> <value> <0|1>    Encoder.searchTable
package main

import (
	"bytes"
	"encoding/hex"
	"fmt"
	"os"
	"strings"
	"time"

	"golang.org/x/net/http2/hpack"
	vu "golang.org/x/net/internal/verifutil"
)

// ---------------------------------------------------------------- generator

var namePool = []string{
	":authority", ":method", ":path", ":scheme", ":status", "accept-encoding", "cookie",
	"content-length", "date", "set-cookie", "www-authenticate", "accept",
	"", "a", "b", "x-a", "x-b", "k1", "custom-key",
}

var valuePool = []string{
	"", "GET", "POST", "/", "/index.html", "http", "https", "200", "404", "500", "gzip, deflate",
	"1", "2", "v", "custom-value", "secret", "www.example.com",
}

var sizePool = []uint32{0, 1, 31, 32, 33, 34, 35, 36, 40, 64, 66, 70, 98, 100, 128, 130, 200, 256, 1000,
	4095, 4096, 4097, 5000, 8192, 65536, 4294967295}

var lenPool = []int{0, 1, 2, 3, 5, 10, 30, 31, 32, 33, 60, 95, 96, 97, 126, 127, 128, 129, 200, 254, 255, 256, 300}

// genString: n bytes of one of several kinds (Huffman-favourable, Huffman-neutral, incompressible).
func genString(r *vu.Rng, n int) string {
	switch r.Intn(6) {
	case 0:
		return string(r.BytesFrom("abcdefghijklmnopqrstuvwxyz0123456789-", n)) // 5..7-bit codes
	case 1:
		return string(r.BytesFrom("&*,;XZ", n)) // 8-bit codes: Huffman length == raw length
	case 2:
		return string(r.BytesFrom("&*,;XZaeiost:BCDEF", n)) // around the tie
	case 3:
		b := r.Bytes(n)
		for i := range b {
			b[i] |= 0x80 // 19..28-bit codes
		}
		return string(b)
	case 4:
		return string(r.BytesFrom("\x00\x01\x0a\x0d\x16 !\"#<>{}~\x7f", n))
	default:
		return string(r.Bytes(n))
	}
}

type genState struct {
	limit, max uint32
	maxLimit   uint32 // largest limit in force at any time
}

func (g *genState) setMax(v uint32) {
	if v > g.limit {
		v = g.limit
	}
	g.max = v
}

func (g *genState) setLimit(v uint32) {
	g.limit = v
	if v > g.maxLimit {
		g.maxLimit = v
	}
	if g.max > v {
		g.max = v
	}
}

// pools of one case: a few names and values, so that the same pair comes back (dynamic-table hits,
// re-references after eviction, sensitive and non-sensitive copies of the same pair).
type casePools struct {
	names, values []string
}

func genPools(r *vu.Rng) *casePools {
	c := &casePools{}
	for k := r.Range(2, 5); k > 0; k-- {
		if r.Chance(1, 6) {
			c.names = append(c.names, genString(r, lenPool[r.Intn(8)]))
		} else {
			c.names = append(c.names, namePool[r.Intn(len(namePool))])
		}
	}
	for k := r.Range(2, 5); k > 0; k-- {
		if r.Chance(1, 3) {
			c.values = append(c.values, genString(r, lenPool[r.Intn(len(lenPool))]))
		} else {
			c.values = append(c.values, valuePool[r.Intn(len(valuePool))])
		}
	}
	return c
}

func genField(r *vu.Rng, g *genState, c *casePools) string {
	var name, value string
	switch {
	case r.Chance(7, 10):
		name = c.names[r.Intn(len(c.names))]
	case r.Chance(2, 3):
		name = namePool[r.Intn(len(namePool))]
	default:
		name = genString(r, lenPool[r.Intn(8)])
	}
	switch {
	case r.Chance(6, 10):
		value = c.values[r.Intn(len(c.values))]
	case r.Chance(1, 3):
		value = valuePool[r.Intn(len(valuePool))]
	case r.Chance(1, 2) && g.max >= 32 && g.max <= 1100:
		// entry size around the current table size: len(name)+len(value)+32 = max + {-2..2}
		n := int(g.max) - 32 - len(name) + r.Range(-2, 2)
		if n < 0 {
			n = 0
		}
		value = genString(r, n)
	default:
		value = genString(r, lenPool[r.Intn(len(lenPool))])
	}
	sens := 0
	p := 25
	if verifMode == "C05" {
		p = 45
	}
	if r.Chance(p, 100) {
		sens = 1
	}
	return fmt.Sprintf("wf %s %s %d", vu.Hex([]byte(name)), vu.Hex([]byte(value)), sens)
}

func pickSize(r *vu.Rng) uint32 {
	if r.Chance(1, 12) {
		return uint32(r.Boundary(32))
	}
	return sizePool[r.Intn(len(sizePool))]
}

func genSizeOps(r *vu.Rng, g *genState) []string {
	var ops []string
	smax := func(v uint32) { g.setMax(v); ops = append(ops, fmt.Sprintf("setmax %d", v)) }
	slim := func(v uint32) { g.setLimit(v); ops = append(ops, fmt.Sprintf("setlimit %d", v)) }
	small := func() uint32 { return sizePool[r.Intn(16)] }
	switch r.Intn(20) {
	case 0, 1, 2, 3, 4, 5, 6, 7, 8:
		// no size change
	case 9, 10:
		smax(pickSize(r))
	case 11:
		slim(pickSize(r))
	case 12, 13: // lower then raise
		smax(small())
		smax(sizePool[16+r.Intn(8)])
	case 14: // lower to nothing, then raise
		smax(0)
		smax(pickSize(r))
	case 15: // only the encoder shrinks: limit down, limit up, raise
		slim(small())
		slim(sizePool[19+r.Intn(5)])
		smax(sizePool[19+r.Intn(5)])
	case 16: // raise the limit, then the size
		v := sizePool[19+r.Intn(6)]
		slim(v)
		smax(v)
	default:
		for k := r.Range(1, 4); k > 0; k-- {
			if r.Chance(2, 3) {
				smax(pickSize(r))
			} else {
				slim(pickSize(r))
			}
		}
	}
	return ops
}

func gen(r *vu.Rng, i int) []string {
	g := &genState{limit: 4096, max: 4096, maxLimit: 4096}
	c := genPools(r)
	var body []string
	nblocks := r.Range(1, 8)
	if r.Chance(1, 6) {
		// small tables from the start, so that evictions are frequent
		v := sizePool[3+r.Intn(12)]
		g.setMax(v)
		body = append(body, fmt.Sprintf("setmax %d", v))
	}
	// one case in three toggles emission: the callback switches it off in the middle of a block (cboff),
	// SetEmitEnabled is called between fields, and it is mostly switched on again before the next block
	toggles := r.Chance(1, 3)
	for b := 0; b < nblocks; b++ {
		if b > 0 || r.Chance(1, 4) {
			body = append(body, genSizeOps(r, g)...)
		}
		if toggles && b > 0 && r.Chance(4, 5) {
			body = append(body, "emit 1")
		}
		for k := r.Intn(7); k > 0; k-- {
			if toggles {
				switch r.Intn(8) {
				case 0, 1:
					body = append(body, "cboff")
				case 2:
					body = append(body, "emit 0")
				case 3:
					body = append(body, "emit 1")
				}
			}
			body = append(body, genField(r, g, c))
			if r.Chance(1, 10) {
				body = append(body, "search"+strings.TrimPrefix(genField(r, g, c), "wf"))
			}
		}
		body = append(body, "end")
	}
	// decoder bound: at least every limit in force (the hypothesis of C01); sometimes larger,
	// rarely smaller (hypothesis violated: the oracle is silent, the model must still agree).
	a := uint64(g.maxLimit)
	switch r.Intn(12) {
	case 0:
		a = uint64(sizePool[r.Intn(len(sizePool))])
	case 1, 2:
		if a < 1<<32-1 {
			a += uint64(r.Intn(5000))
			if a > 1<<32-1 {
				a = 1<<32 - 1
			}
		}
	}
	return append([]string{fmt.Sprintf("reset %d", a)}, body...)
}

// ---------------------------------------------------------------- executor

func errTag(err error) string {
	if err == nil {
		return "ok"
	}
	if hpack.VerifC01IsNeedMore(err) {
		return "err NeedMore"
	}
	switch err {
	case hpack.ErrStringLength:
		return "err StringLength"
	case hpack.ErrInvalidHuffman:
		return "err Huffman"
	}
	if de, ok := err.(hpack.DecodingError); ok {
		if _, ok := de.Err.(hpack.InvalidIndexError); ok {
			return "err InvalidIndex"
		}
		m := de.Err.Error()
		switch {
		case m == "truncated headers":
			return "err Truncated"
		case m == "dynamic table size update too large":
			return "err UpdateTooLarge"
		case strings.HasPrefix(m, "dynamic table size update MUST occur"):
			return "err UpdateNotAtStart"
		case m == "varint integer overflow":
			return "err VarintOverflow"
		case m == "invalid encoding":
			return "err InvalidEncoding"
		}
	}
	return "err Other"
}

func showEmits(em []hpack.HeaderField) string {
	if len(em) == 0 {
		return "-"
	}
	var p []string
	for _, f := range em {
		s := 0
		if f.Sensitive {
			s = 1
		}
		p = append(p, fmt.Sprintf("%s:%s:%d", hex.EncodeToString([]byte(f.Name)), hex.EncodeToString([]byte(f.Value)), s))
	}
	return strings.Join(p, ",")
}

func showEntries(es []hpack.HeaderField) string {
	if len(es) == 0 {
		return "-"
	}
	var p []string
	for _, f := range es {
		p = append(p, hex.EncodeToString([]byte(f.Name))+":"+hex.EncodeToString([]byte(f.Value)))
	}
	return strings.Join(p, ",")
}

func b01(b bool) int {
	if b {
		return 1
	}
	return 0
}

type sys struct {
	enc   *hpack.Encoder
	dec   *hpack.Decoder
	buf   bytes.Buffer
	emits []hpack.HeaderField

	allowed  uint64
	hypOK    bool // the decoder bound covers every limit in force so far (hypothesis of C01)
	desync   bool // a (reported) failure happened: later mismatches are consequences
	nfields  int  // fields written in the current block

	cbOff     bool           // the callback is armed to disable emission at the next emitted field
	shadow    *hpack.Decoder // fed the same bytes with emission always enabled: its table is the reference
	shadowBad bool           // a decoder returned an error: tables are no longer compared
	blockErr bool
}

func (s *sys) encState() string {
	size, maxSize, minSize, limit, upd, ents := hpack.VerifC01EncState(s.enc)
	return fmt.Sprintf("ET %d %d %d %d %d %s", size, maxSize, minSize, limit, b01(upd), showEntries(ents))
}

func (s *sys) decState() string {
	size, maxSize, allowed, ents, ff := hpack.VerifC01DecState(s.dec)
	return fmt.Sprintf("DT %d %d %d %s %d %d", size, maxSize, allowed, showEntries(ents), b01(ff), b01(s.dec.EmitEnabled()))
}

// checkShadow: the dynamic table must not depend on whether emission is enabled.
func (s *sys) checkShadow(o *vu.Out, when string) {
	if s.shadowBad {
		return
	}
	size, maxSize, _, ents, _ := hpack.VerifC01DecState(s.dec)
	size2, maxSize2, _, ents2, _ := hpack.VerifC01DecState(s.shadow)
	if size != size2 || maxSize != maxSize2 || !sameEntries(ents, ents2) {
		s.shadowBad = true
		s.fail(o, false, "", fmt.Sprintf("%s: decoder table (size %d, %s) differs from the table of a decoder fed the same bytes with emission always enabled (size %d, %s)",
			when, size, showEntries(ents), size2, showEntries(ents2)))
	}
}

func sameEntries(a, b []hpack.HeaderField) bool {
	if len(a) != len(b) {
		return false
	}
	for i := range a {
		if a[i].Name != b[i].Name || a[i].Value != b[i].Value {
			return false
		}
	}
	return true
}

// skipUpdates returns p without its leading "dynamic table size update" representations (001xxxxx).
func skipUpdates(p []byte) []byte {
	for len(p) > 0 && p[0]&0xe0 == 0x20 {
		first := p[0] & 0x1f
		p = p[1:]
		if first == 0x1f {
			for len(p) > 0 && p[0]&0x80 != 0 {
				p = p[1:]
			}
			if len(p) > 0 {
				p = p[1:]
			}
		}
	}
	return p
}

func isPrefix(a, b []hpack.HeaderField) bool { return len(a) <= len(b) && sameEntries(a, b[:len(a)]) }

func (s *sys) fail(o *vu.Out, c01 bool, sig, desc string) {
	// C01 clauses report in the C01 build only; the sensitive-field clauses report in both.
	if c01 && verifMode != "C01" {
		return
	}
	o.Fail(sig, desc)
}

func (s *sys) writeField(f hpack.HeaderField, o *vu.Out) string {
	// state before the call
	_, encMax, encMin, _, encUpd, encEnts0 := hpack.VerifC01EncState(s.enc)
	_, _, _, decEnts0, _ := hpack.VerifC01DecState(s.dec)
	// two table size updates will be emitted when the size was lowered and raised again (minSize < maxSize)
	doubleUpd := encUpd && encMin < encMax
	if doubleUpd && len(decEnts0) > 0 && decEnts0[0].Size() <= encMin {
		o.Stat("update:double-nonempty-table")
	}
	if encUpd {
		if doubleUpd {
			o.Stat("update:double")
		} else {
			o.Stat("update:single")
		}
	}

	s.buf.Reset()
	werr := s.enc.WriteField(f)
	p := append([]byte(nil), s.buf.Bytes()...)
	s.emits = nil
	emitOn := s.dec.EmitEnabled()
	_, derr := s.dec.Write(p)
	em := s.emits
	if _, serr := s.shadow.Write(p); serr != nil || derr != nil {
		s.shadowBad = true
	}
	if emitOn {
		o.Stat("emit:on")
	} else {
		o.Stat("emit:off")
	}
	s.nfields++
	if derr != nil {
		s.blockErr = true
	}

	_, _, _, _, _, encEnts1 := hpack.VerifC01EncState(s.enc)
	_, _, _, decEnts1, _ := hpack.VerifC01DecState(s.dec)
	res := fmt.Sprintf("%s B %s E %s %s %s", errTag(derr), vu.Hex(p), showEmits(em), s.encState(), s.decState())

	// ---- coverage
	rep := skipUpdates(p)
	if len(rep) > 0 {
		switch {
		case rep[0]&0x80 != 0:
			if rep[0] == 0xff || rep[0]&0x7f > 61 {
				o.Stat("repr:indexed-dynamic")
			} else {
				o.Stat("repr:indexed-static")
			}
		case rep[0]&0xc0 == 0x40:
			if rep[0]&0x3f == 0 {
				o.Stat("repr:incremental-newname")
			} else {
				o.Stat("repr:incremental-idxname")
			}
		case rep[0]&0xf0 == 0x10:
			o.Stat("repr:never-indexed")
		case rep[0]&0xf0 == 0:
			o.Stat("repr:without-indexing")
		}
	}
	if len(encEnts1) > 0 && len(encEnts0) > 0 && len(encEnts1) <= len(encEnts0) && !f.Sensitive && len(rep) > 0 && rep[0]&0xc0 == 0x40 {
		o.Stat("table:eviction-on-add")
	}
	if !sameEntries(encEnts1, decEnts1) {
		o.Stat("table:encoder-strict-prefix")
	}

	// ---- oracle
	if werr != nil {
		s.fail(o, true, "", fmt.Sprintf("WriteField(%q,%q) returned %v", f.Name, f.Value, werr))
	}
	if !hpack.VerifC01IndexConsistent(s.enc) {
		s.fail(o, true, "", "encoder byName/byNameValue index does not point at the newest entries")
	}
	if s.hypOK && !s.desync {
		switch {
		case derr != nil:
			s.desync = true
			s.fail(o, true, "", fmt.Sprintf("Decoder.Write(%x) of WriteField(%q,%q,sens=%v) failed: %v", p, f.Name, f.Value, f.Sensitive, derr))
		case emitOn && (len(em) != 1 || em[0] != f):
			s.desync = true
			s.fail(o, true, "", fmt.Sprintf("round trip: wrote %q=%q sens=%v, decoder emitted %s", f.Name, f.Value, f.Sensitive, showEmits(em)))
		case !emitOn && len(em) != 0:
			s.desync = true
			s.fail(o, true, "", fmt.Sprintf("emission disabled, but the decoder emitted %s", showEmits(em)))
		case !isPrefix(encEnts1, decEnts1):
			s.desync = true
			s.fail(o, true, "", fmt.Sprintf("encoder table %s is not the newest part of the decoder table %s", showEntries(encEnts1), showEntries(decEnts1)))
		}
	}
	if f.Sensitive {
		o.Stat("sensitive")
		if !sameEntries(encEnts0, encEnts1) {
			s.fail(o, false, "", fmt.Sprintf("sensitive field %q=%q changed the encoder table", f.Name, f.Value))
		}
		if len(rep) == 0 || rep[0]&0xf0 != 0x10 {
			s.fail(o, false, "", fmt.Sprintf("sensitive field %q=%q encoded as %x (not a never-indexed literal 0001xxxx)", f.Name, f.Value, rep))
		}
		if derr == nil {
			// the size updates in front of the field may evict; the field itself must add nothing
			if len(decEnts1) > len(decEnts0) || !isPrefix(decEnts1, decEnts0) {
				s.fail(o, false, "", fmt.Sprintf("sensitive field %q=%q changed the decoder table to %s", f.Name, f.Value, showEntries(decEnts1)))
			}
			if emitOn && (len(em) != 1 || !em[0].Sensitive) {
				s.fail(o, false, "", fmt.Sprintf("sensitive field %q=%q decoded as %s", f.Name, f.Value, showEmits(em)))
			}
		}
	} else if derr == nil && len(em) == 1 && em[0].Sensitive {
		s.fail(o, false, "", fmt.Sprintf("non-sensitive field %q=%q decoded as sensitive", f.Name, f.Value))
	}
	s.checkShadow(o, fmt.Sprintf("after field %q=%q", f.Name, f.Value))
	return res
}

func execCase(ops []string, o *vu.Out) {
	var s *sys
	for _, op := range ops {
		t := strings.Fields(op)
		if len(t) == 0 {
			o.Op(op, "bad-op")
			continue
		}
		if t[0] != "reset" && s == nil {
			o.Op(op, "bad-op")
			continue
		}
		switch {
		case t[0] == "reset" && len(t) == 2:
			a := vu.Atou64(t[1])
			if a > 1<<32-1 {
				o.Op(op, "bad-op")
				continue
			}
			s = &sys{allowed: a, hypOK: a >= 4096}
			s.enc = hpack.NewEncoder(&s.buf)
			s.dec = hpack.NewDecoder(4096, func(f hpack.HeaderField) {
				s.emits = append(s.emits, f)
				if s.cbOff {
					s.cbOff = false
					s.dec.SetEmitEnabled(false)
				}
			})
			s.dec.SetAllowedMaxDynamicTableSize(uint32(a))
			s.shadow = hpack.NewDecoder(4096, func(f hpack.HeaderField) {})
			s.shadow.SetAllowedMaxDynamicTableSize(uint32(a))
			o.Op(op, "ok")
		case (t[0] == "setmax" || t[0] == "setlimit") && len(t) == 2:
			v := vu.Atou64(t[1])
			if v > 1<<32-1 {
				o.Op(op, "bad-op")
				continue
			}
			o.Stat("op:" + t[0])
			if s.nfields > 0 {
				// a size call inside a block is outside the statement (updates would not be at the block start)
				s.hypOK = false
			}
			o.Op(op, vu.Catch(func() string {
				if t[0] == "setmax" {
					s.enc.SetMaxDynamicTableSize(uint32(v))
				} else {
					s.enc.SetMaxDynamicTableSizeLimit(uint32(v))
					if v > s.allowed {
						s.hypOK = false
					}
				}
				return "ok " + s.encState()
			}))
		case t[0] == "wf" && len(t) == 4 && (t[3] == "0" || t[3] == "1"):
			f := hpack.HeaderField{Name: string(vu.MustHex(t[1])), Value: string(vu.MustHex(t[2])), Sensitive: t[3] == "1"}
			o.Stat("op:wf")
			o.Op(op, vu.Catch(func() string { return s.writeField(f, o) }))
		case t[0] == "emit" && len(t) == 2 && (t[1] == "0" || t[1] == "1"):
			o.Stat("op:emit")
			s.dec.SetEmitEnabled(t[1] == "1")
			o.Op(op, "ok")
		case t[0] == "cboff" && len(t) == 1:
			o.Stat("op:cboff")
			s.cbOff = true
			o.Op(op, "ok")
		case t[0] == "end" && len(t) == 1:
			o.Stat("op:end")
			o.Op(op, vu.Catch(func() string {
				err := s.dec.Close()
				if err != nil && s.hypOK && !s.desync {
					s.desync = true
					s.fail(o, true, "", fmt.Sprintf("Decoder.Close after a complete block: %v", err))
				}
				s.nfields = 0
				s.blockErr = false
				if s.shadow.Close() != nil || err != nil {
					s.shadowBad = true
				}
				s.checkShadow(o, "after Close")
				return errTag(err) + " " + s.decState()
			}))
		case t[0] == "search" && len(t) == 4 && (t[3] == "0" || t[3] == "1"):
			f := hpack.HeaderField{Name: string(vu.MustHex(t[1])), Value: string(vu.MustHex(t[2])), Sensitive: t[3] == "1"}
			o.Stat("op:search")
			o.Op(op, vu.Catch(func() string {
				i, m := hpack.VerifC01Search(s.enc, f)
				if m && f.Sensitive {
					s.fail(o, false, "", fmt.Sprintf("searchTable reports a name+value match for sensitive %q=%q", f.Name, f.Value))
				}
				return fmt.Sprintf("ok %d %d", i, b01(m))
			}))
		default:
			o.Op(op, "bad-op")
		}
	}
}

// exec runs one case under a wall-clock watchdog.
func exec(ops []string, o *vu.Out) {
	done := make(chan struct{})
	go func() {
		defer close(done)
		execCase(ops, o)
	}()
	select {
	case <-done:
	case <-time.After(60 * time.Second):
		fmt.Fprintln(os.Stderr, "C01 harness: case exceeded 60 s wall clock")
		os.Exit(124)
	}
}

func main() { vu.Main(gen, exec) }
