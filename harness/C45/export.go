//go:build verif

package webdav

// White-box shims for the C45 harness (injected with -overlay; never written to /repo).

func VerifResolve(d Dir, name string) string { return d.resolve(name) }

func VerifSlashClean(name string) string { return slashClean(name) }
