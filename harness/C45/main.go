//go:build verif

// C45 harness: webdav.Dir keeps every request path inside its root.
//
// ops (names and dirs are hex tokens, "-" = empty string):
//
//	clean <name>            slashClean(name)                      -> ok <path>
//	resolve <dir> <name>    Dir(dir).resolve(name)                -> ok <path> | rej
//	stat <name>             Dir(tmp).Stat(name)                   -> err NotExist | os <path>
//	removeall <name>        Dir(tmp).RemoveAll(name)              -> err NotExist | err Invalid | os <path>
//	rename <old> <new>      Dir(tmp).Rename(old, new)             -> err NotExist | err Invalid | os <old> <new>
//
// For the last three the Dir is "<jail>/n/n/n/n/n/n/n/root/" (unclean spelling on purpose), a
// fresh, empty temporary directory under /verif/.scratch, removed when the run ends. The paths
// that reached the os package are read back from the *PathError / *LinkError they produce and
// reported with the temporary root replaced by "$". Sentinel files next to the root and at the
// top of the jail must survive everything.
//
// SAFETY: a broken (mutated) resolve/RemoveAll/Rename may well try to delete or move things
// outside the root. All file-system ops therefore run in a child process (this binary,
// re-executed) that chroots into the jail directory first; where chroot is not permitted the
// child works with absolute paths, and in both modes an op whose resolved native path is not
// inside the root is reported (oracle FAIL "escape") and NOT executed; the root sits 8 levels
// below the jail so that even an unguarded escape of the generated names (≤ 7 "..") stays inside.
package main

import (
	"bufio"
	"context"
	"errors"
	"fmt"
	"os"
	osexec "os/exec"
	"path/filepath"
	"strings"
	"syscall"

	vu "golang.org/x/net/internal/verifutil"
	"golang.org/x/net/webdav"
)

var compPool = []string{
	"..", "..", ".", "", "a", "b", "ab", "%2e%2e", "%2f", "\x00", "...", "..a", "a..", ".a", " ",
	"\\", "..\\..", "a\x00b", "$", "~", "-", "\xff\xfe", "é",
}

var dirPool = []string{
	"", ".", "/", "/r", "/r/s/", "r", "../r", "r/../..", "//r//s", "./r", "/..", "/r/../s", "..",
	"../..", "r/./s/", "/r/..", "a/b/c", "/$", "$",
}

func genName(r *vu.Rng) string {
	switch r.Intn(12) {
	case 0:
		return string(r.BytesFrom("/.a\x00", r.Intn(9)))
	case 1:
		return string(r.BytesFrom("/.", r.Intn(12)))
	case 2:
		// a name that cleans to the root
		return []string{"", "/", ".", "..", "/..", "/../", "a/..", "/a/../", "//", "/./", "a/b/../..", "../..", "/a/../../.."}[r.Intn(13)]
	}
	n := r.Intn(7)
	var sb strings.Builder
	if r.Chance(2, 3) {
		sb.WriteString("/")
	}
	for i := 0; i < n; i++ {
		c := compPool[r.Intn(len(compPool))]
		if r.Chance(1, 40) {
			c = strings.Repeat("x", r.Range(250, 300))
		}
		sb.WriteString(c)
		if i+1 < n || r.Chance(1, 4) {
			if r.Chance(1, 5) {
				sb.WriteString("//")
			} else {
				sb.WriteString("/")
			}
		}
	}
	return sb.String()
}

func h(s string) string { return vu.Hex([]byte(s)) }

func gen(r *vu.Rng, i int) []string {
	var ops []string
	k := r.Range(1, 4)
	for j := 0; j < k; j++ {
		switch r.Intn(10) {
		case 0:
			ops = append(ops, "clean "+h(genName(r)))
		case 1, 2, 3, 4:
			ops = append(ops, "resolve "+h(dirPool[r.Intn(len(dirPool))])+" "+h(genName(r)))
		case 5:
			ops = append(ops, "stat "+h(genName(r)))
		case 6, 7:
			ops = append(ops, "removeall "+h(genName(r)))
		default:
			ops = append(ops, "rename "+h(genName(r))+" "+h(genName(r)))
		}
	}
	return ops
}

// failer is what the oracles need (satisfied by *vu.Out in the parent and *sink in the child).
type failer interface {
	Fail(sig, desc string)
	Stat(key string)
}

// oracleResolve states the property directly on resolve's output.
func oracleResolve(o failer, dir, name, got string) {
	if strings.Contains(name, "\x00") {
		if got != "" {
			o.Fail("nul-accepted", fmt.Sprintf("Dir(%q).resolve(%q) = %q: a name containing NUL was not rejected", dir, name, got))
		}
		return
	}
	if got == "" {
		o.Fail("rejected-clean-name", fmt.Sprintf("Dir(%q).resolve(%q) rejected a NUL-free name", dir, name))
		return
	}
	d := dir
	if d == "" {
		d = "."
	}
	root := filepath.Clean(d)
	var rest string
	switch {
	case got == root:
		return
	case root == "/" && strings.HasPrefix(got, "/"):
		rest = got[1:]
	case root == "." && !strings.HasPrefix(got, "/"):
		rest = got
	case strings.HasPrefix(got, root+"/"):
		rest = got[len(root)+1:]
	default:
		o.Fail("escape", fmt.Sprintf("Dir(%q).resolve(%q) = %q is not below the root %q", dir, name, got, root))
		return
	}
	for _, c := range strings.Split(rest, "/") {
		if c == "" || c == "." || c == ".." {
			o.Fail("escape", fmt.Sprintf("Dir(%q).resolve(%q) = %q has the component %q below the root", dir, name, got, c))
			return
		}
	}
}

// cleansToRoot is the naive reference for "the name denotes the root".
func cleansToRoot(name string) bool {
	depth := 0
	for _, c := range strings.Split(name, "/") {
		switch c {
		case "", ".":
		case "..":
			if depth > 0 {
				depth--
			}
		default:
			depth++
		}
	}
	return depth == 0
}

func statKey(res string) string {
	if strings.HasPrefix(res, "os") {
		return "os"
	}
	return strings.ReplaceAll(res, " ", "_")
}

// oracleClean: slashClean always yields "/" or "/c1/c2/..." with ordinary components.
func oracleClean(o failer, name, got string) {
	if got == "/" {
		if !cleansToRoot(name) {
			o.Fail("clean-wrong", fmt.Sprintf("slashClean(%q) = \"/\" but the name does not denote the root", name))
		}
		return
	}
	if !strings.HasPrefix(got, "/") {
		o.Fail("escape", fmt.Sprintf("slashClean(%q) = %q is not rooted", name, got))
		return
	}
	for _, c := range strings.Split(got[1:], "/") {
		if c == "" || c == "." || c == ".." {
			o.Fail("escape", fmt.Sprintf("slashClean(%q) = %q has the component %q", name, got, c))
			return
		}
	}
}

func errKind(err error) string {
	switch {
	case err == os.ErrNotExist:
		return "err NotExist"
	case err == os.ErrInvalid:
		return "err Invalid"
	}
	return ""
}

// ---- parent side: relay file-system ops to the jailed child

var (
	tmpBase  string // <scratch>/c45tmp-XXXX  (the jail)
	child    *osexec.Cmd
	childIn  *bufio.Writer
	childOut *bufio.Reader
)

func scratchDir() string {
	if d := os.Getenv("VERIF_C45_TMP"); d != "" {
		return d
	}
	if wd, err := os.Getwd(); err == nil && strings.Contains(wd, "/.scratch/") {
		return wd
	}
	return "/verif/.scratch"
}

func ensureChild() {
	if child != nil {
		return
	}
	sd := scratchDir()
	if err := os.MkdirAll(sd, 0o755); err != nil {
		panic(err)
	}
	b, err := os.MkdirTemp(sd, "c45tmp-")
	if err != nil {
		panic(err)
	}
	tmpBase = b
	exe, err := os.Executable()
	if err != nil {
		panic(err)
	}
	c := osexec.Command(exe)
	c.Env = append(os.Environ(), "VERIF_C45_FSCHILD="+tmpBase)
	c.Stderr = os.Stderr
	in, err := c.StdinPipe()
	if err != nil {
		panic(err)
	}
	out, err := c.StdoutPipe()
	if err != nil {
		panic(err)
	}
	if err := c.Start(); err != nil {
		panic(err)
	}
	child, childIn, childOut = c, bufio.NewWriter(in), bufio.NewReaderSize(out, 1<<16)
}

func stopChild() {
	if child != nil {
		childIn.WriteString("quit\n")
		childIn.Flush()
		child.Wait()
		child = nil
	}
	if tmpBase != "" {
		os.RemoveAll(tmpBase)
		tmpBase = ""
	}
}

// fsCall sends one op line to the child and relays its answer.
func fsCall(op string, o *vu.Out) string {
	ensureChild()
	childIn.WriteString(op + "\n")
	if err := childIn.Flush(); err != nil {
		panic(err)
	}
	res := ""
	for {
		l, err := childOut.ReadString('\n')
		if err != nil {
			panic("C45 fs child died: " + err.Error())
		}
		l = strings.TrimRight(l, "\n")
		switch {
		case l == ".":
			return res
		case strings.HasPrefix(l, "R "):
			res = l[2:]
		case strings.HasPrefix(l, "S "):
			o.Stat(l[2:])
		case strings.HasPrefix(l, "F "):
			f := strings.SplitN(l[2:], " ", 2)
			o.Fail(f[0], f[1])
		}
	}
}

func exec(ops []string, o *vu.Out) {
	for _, op := range ops {
		t := strings.Fields(op)
		if len(t) < 2 {
			o.Op(op, "bad-op")
			continue
		}
		args := make([]string, 0, 2)
		bad := false
		for _, a := range t[1:] {
			b, ok := vu.ParseHex(a)
			if !ok {
				bad = true
			}
			args = append(args, string(b))
		}
		if bad {
			o.Op(op, "bad-op")
			continue
		}
		switch {
		case t[0] == "clean" && len(args) == 1:
			o.Stat("op:" + t[0])
			got := webdav.VerifSlashClean(args[0])
			o.Op(op, "ok "+h(got))
			oracleClean(o, args[0], got)
		case t[0] == "resolve" && len(args) == 2:
			o.Stat("op:" + t[0])
			got := webdav.VerifResolve(webdav.Dir(args[0]), args[1])
			if got == "" {
				o.Op(op, "rej")
				o.Stat("resolve:rej")
			} else {
				o.Op(op, "ok "+h(got))
				if cleansToRoot(args[1]) {
					o.Stat("resolve:root")
				} else {
					o.Stat("resolve:below")
				}
			}
			oracleResolve(o, args[0], args[1], got)
		case (t[0] == "stat" || t[0] == "removeall") && len(args) == 1, t[0] == "rename" && len(args) == 2:
			o.Stat("op:" + t[0])
			o.Op(op, fsCall(op, o))
		default:
			o.Op(op, "bad-op")
		}
	}
}

// ---- child side: the jailed file-system executor

type sink struct{ w *bufio.Writer }

func (s *sink) Fail(sig, desc string) {
	desc = strings.ReplaceAll(strings.ReplaceAll(desc, "\n", " "), "\r", " ")
	fmt.Fprintf(s.w, "F %s %s\n", sig, desc)
}
func (s *sink) Stat(key string) { fmt.Fprintf(s.w, "S %s\n", key) }

var (
	jail     string // "" when chrooted, else the absolute jail directory
	tmpRoot  string // jail + nest + "/root"
	outside  string // sentinel next to the root
	outside0 string // sentinel at the top of the jail
	nestDir  string
)

const nest = "/n/n/n/n/n/n/n"

func childSetup(base string) string {
	mode := "chroot"
	if err := syscall.Chroot(base); err == nil {
		os.Chdir("/")
		jail = ""
	} else {
		mode = "nochroot"
		jail = base
	}
	nestDir = jail + nest
	tmpRoot = nestDir + "/root"
	outside = nestDir + "/outside"
	outside0 = jail + "/outside0"
	restoreWorld()
	return mode
}

func restoreWorld() {
	os.MkdirAll(tmpRoot, 0o755)
	os.WriteFile(outside, []byte("sentinel"), 0o644)
	os.WriteFile(outside0, []byte("sentinel"), 0o644)
}

// sym replaces the temporary root prefix by "$".
func sym(p string) string {
	if p == tmpRoot {
		return "$"
	}
	if strings.HasPrefix(p, tmpRoot+"/") {
		return "$" + p[len(tmpRoot):]
	}
	return "!" + p // a path outside the root reached the os package
}

func inside(p string) bool { return p == tmpRoot || strings.HasPrefix(p, tmpRoot+"/") }

// checkWorld is the confinement oracle on the real file system.
func checkWorld(o failer, op string) {
	damaged := false
	for _, f := range []string{outside, outside0} {
		if b, err := os.ReadFile(f); err != nil || string(b) != "sentinel" {
			o.Fail("outside-touched", fmt.Sprintf("%s: a sentinel file outside the Dir root was modified or removed", op))
			damaged = true
		}
	}
	fi, err := os.Lstat(tmpRoot)
	if err != nil || !fi.IsDir() {
		o.Fail("root-destroyed", fmt.Sprintf("%s: the Dir root itself was removed or renamed", op))
		damaged = true
	}
	if ents, _ := os.ReadDir(nestDir); len(ents) != 2 && !damaged {
		o.Fail("outside-touched", fmt.Sprintf("%s: entries appeared next to the Dir root (%d entries)", op, len(ents)))
		damaged = true
	}
	if damaged {
		if ents, _ := os.ReadDir(nestDir); len(ents) > 0 {
			for _, e := range ents {
				os.RemoveAll(filepath.Join(nestDir, e.Name()))
			}
		}
		restoreWorld()
	}
	// keep the root empty for the next op
	if ents, _ := os.ReadDir(tmpRoot); len(ents) > 0 {
		for _, e := range ents {
			os.RemoveAll(filepath.Join(tmpRoot, e.Name()))
		}
	}
}

func childMain(base string) {
	mode := childSetup(base)
	in := bufio.NewReaderSize(os.Stdin, 1<<16)
	w := bufio.NewWriterSize(os.Stdout, 1<<16)
	o := &sink{w}
	first := true
	for {
		l, err := in.ReadString('\n')
		if err != nil {
			return
		}
		l = strings.TrimRight(l, "\n")
		if l == "quit" {
			return
		}
		if first {
			o.Stat("fs-jail:" + mode)
			first = false
		}
		t := strings.Fields(l)
		args := make([]string, 0, 2)
		for _, a := range t[1:] {
			args = append(args, string(vu.MustHex(a)))
		}
		res := childOp(t[0], args, l, o)
		fmt.Fprintf(w, "R %s\n.\n", res)
		w.Flush()
	}
}

func childOp(kind string, args []string, op string, o failer) string {
	ctx := context.Background()
	dir := webdav.Dir(tmpRoot + "/")
	// guard: never execute an op whose resolved native path lies outside the root
	for _, a := range args {
		if p := webdav.VerifResolve(dir, a); p != "" && !inside(p) {
			o.Fail("escape", fmt.Sprintf("Dir(root).resolve(%q) = %q is outside the root (op not executed)", a, sym(p)[1:]))
			return "os " + h(sym(p))
		}
	}
	switch kind {
	case "stat":
		res := vu.Catch(func() string {
			fi, err := dir.Stat(ctx, args[0])
			if k := errKind(err); k != "" {
				return k
			}
			var pe *os.PathError
			if errors.As(err, &pe) {
				return "os " + h(sym(pe.Path))
			}
			if err == nil {
				if ri, e2 := os.Stat(tmpRoot); e2 == nil && os.SameFile(fi, ri) {
					return "os " + h("$")
				}
				o.Fail("escape", fmt.Sprintf("Stat(%q) on an empty Dir found something that is not the root", args[0]))
			}
			return "os ?"
		})
		o.Stat("stat:" + statKey(res))
		nul := strings.Contains(args[0], "\x00")
		if nul != (res == "err NotExist") {
			o.Fail("nul-accepted", fmt.Sprintf("Stat(%q): NUL=%v but result %s", args[0], nul, res))
		}
		if strings.HasPrefix(res, "os x21") {
			o.Fail("escape", fmt.Sprintf("Stat(%q) passed a path outside the root to os.Stat: %s", args[0], res))
		}
		checkWorld(o, op)
		return res
	case "removeall":
		name := args[0]
		// the native path RemoveAll is about to work on; pre-create it so that the effect is visible
		p := webdav.VerifResolve(dir, name)
		created := false
		if p != "" && strings.HasPrefix(p, tmpRoot+"/") && len(p) < 3000 {
			if os.MkdirAll(p, 0o755) == nil {
				created = true
				os.WriteFile(filepath.Join(p, "f"), []byte("x"), 0o644)
			}
		}
		res := vu.Catch(func() string {
			err := dir.RemoveAll(ctx, name)
			if k := errKind(err); k != "" {
				return k
			}
			if created {
				if _, e2 := os.Lstat(p); e2 == nil {
					o.Fail("removeall-wrong-target", fmt.Sprintf("RemoveAll(%q) returned %v but %q still exists", name, err, sym(p)))
				}
			}
			return "os " + h(sym(p))
		})
		o.Stat("removeall:" + statKey(res))
		nul := strings.Contains(name, "\x00")
		switch {
		case nul && res != "err NotExist":
			o.Fail("nul-accepted", fmt.Sprintf("RemoveAll(%q): name with NUL gave %s", name, res))
		case !nul && cleansToRoot(name) && res != "err Invalid":
			o.Fail("root-not-refused", fmt.Sprintf("RemoveAll(%q) names the root but gave %s, want ErrInvalid", name, res))
		case !nul && !cleansToRoot(name) && !strings.HasPrefix(res, "os "):
			o.Fail("non-root-refused", fmt.Sprintf("RemoveAll(%q) does not name the root but gave %s", name, res))
		}
		checkWorld(o, op)
		return res
	case "rename":
		res := vu.Catch(func() string {
			err := dir.Rename(ctx, args[0], args[1])
			if k := errKind(err); k != "" {
				return k
			}
			var le *os.LinkError
			if errors.As(err, &le) {
				return "os " + h(sym(le.Old)) + " " + h(sym(le.New))
			}
			return "os ?"
		})
		o.Stat("rename:" + statKey(res))
		nul := strings.Contains(args[0], "\x00") || strings.Contains(args[1], "\x00")
		isRoot := cleansToRoot(args[0]) || cleansToRoot(args[1])
		switch {
		case nul && res != "err NotExist":
			o.Fail("nul-accepted", fmt.Sprintf("Rename(%q,%q): name with NUL gave %s", args[0], args[1], res))
		case !nul && isRoot && res != "err Invalid":
			o.Fail("root-not-refused", fmt.Sprintf("Rename(%q,%q) names the root but gave %s, want ErrInvalid", args[0], args[1], res))
		case !nul && !isRoot && !strings.HasPrefix(res, "os "):
			o.Fail("non-root-refused", fmt.Sprintf("Rename(%q,%q) does not name the root but gave %s", args[0], args[1], res))
		}
		if strings.HasPrefix(res, "os ") {
			for _, f := range strings.Fields(res)[1:] {
				if b, ok := vu.ParseHex(f); ok && strings.HasPrefix(string(b), "!") {
					o.Fail("escape", fmt.Sprintf("Rename(%q,%q) passed %q (outside the root) to os.Rename", args[0], args[1], string(b)[1:]))
				}
			}
		}
		checkWorld(o, op)
		return res
	}
	return "bad-op"
}

func main() {
	if b := os.Getenv("VERIF_C45_FSCHILD"); b != "" {
		childMain(b)
		return
	}
	defer stopChild()
	vu.Main(gen, exec)
}
