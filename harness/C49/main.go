//go:build verif

// C49 harness: bpf.NewVM / VM.Run on generated programs x packets, compared
// with a reference classic-BPF interpreter run over the Assemble()d program.
package main

import (
	"fmt"
	"strings"

	"golang.org/x/net/bpf"
	vu "golang.org/x/net/internal/verifutil"
)

// ---- reference interpreter (classic BPF over raw instructions) ------------------------------

// refRun executes raw on pkt. valid=false: the program is not a valid classic
// BPF program on this path (unknown opcode, scratch index > 15, constant
// division by zero, running or jumping off the end).
func refRun(raw []bpf.RawInstruction, pkt []byte) (ret uint32, valid bool) {
	var A, X uint32
	var M [16]uint32
	n := uint64(len(pkt))
	load := func(off uint64, size uint64) (uint32, bool) {
		if off+size > n {
			return 0, false
		}
		var v uint32
		for i := uint64(0); i < size; i++ {
			v = v<<8 | uint32(pkt[off+i])
		}
		return v, true
	}
	pc := uint64(0)
	for steps := 0; steps <= len(raw); steps++ {
		if pc >= uint64(len(raw)) {
			return 0, false
		}
		in := raw[pc]
		k := in.K
		next := uint64(0)
		src := k // operand of ALU / jump: K or X by bit 0x08
		cls := in.Op & 0x07
		if (cls == 0x04 || cls == 0x05) && in.Op&0x08 != 0 {
			src = X
		}
		switch in.Op {
		case 0x00:
			A = k
		case 0x01:
			X = k
		case 0x20, 0x28, 0x30, 0x40, 0x48, 0x50:
			off := uint64(k)
			if in.Op&0xe0 == 0x40 {
				off += uint64(X)
			}
			size := map[uint16]uint64{0x00: 4, 0x08: 2, 0x10: 1}[in.Op&0x18]
			v, ok := load(off, size)
			if !ok {
				return 0, true
			}
			A = v
		case 0x60, 0x61, 0x02, 0x03:
			if k > 15 {
				return 0, false
			}
			switch in.Op {
			case 0x60:
				A = M[k]
			case 0x61:
				X = M[k]
			case 0x02:
				M[k] = A
			case 0x03:
				M[k] = X
			}
		case 0x80:
			A = uint32(n)
		case 0x81:
			X = uint32(n)
		case 0xb1:
			v, ok := load(uint64(k), 1)
			if !ok {
				return 0, true
			}
			X = 4 * (v & 0xf)
		case 0x04, 0x0c:
			A += src
		case 0x14, 0x1c:
			A -= src
		case 0x24, 0x2c:
			A *= src
		case 0x34, 0x3c, 0x94, 0x9c:
			if src == 0 {
				if in.Op&0x08 != 0 {
					return 0, true // division by X == 0: the filter returns 0
				}
				return 0, false // constant zero divisor: rejected by every classic BPF validator
			}
			if in.Op&0xf0 == 0x30 {
				A /= src
			} else {
				A %= src
			}
		case 0x44, 0x4c:
			A |= src
		case 0x54, 0x5c:
			A &= src
		case 0x64, 0x6c:
			if src >= 32 {
				A = 0
			} else {
				A <<= src
			}
		case 0x74, 0x7c:
			if src >= 32 {
				A = 0
			} else {
				A >>= src
			}
		case 0xa4, 0xac:
			A ^= src
		case 0x84:
			A = -A
		case 0x05:
			next = uint64(k)
		case 0x15, 0x1d, 0x25, 0x2d, 0x35, 0x3d, 0x45, 0x4d:
			var t bool
			switch in.Op & 0xf0 {
			case 0x10:
				t = A == src
			case 0x20:
				t = A > src
			case 0x30:
				t = A >= src
			case 0x40:
				t = A&src != 0
			}
			if t {
				next = uint64(in.Jt)
			} else {
				next = uint64(in.Jf)
			}
		case 0x06:
			return k, true
		case 0x16:
			return A, true
		case 0x07:
			X = A
		case 0x87:
			A = X
		default:
			return 0, false
		}
		pc += 1 + next
	}
	return 0, false
}

// ---- generators ---------------------------------------------------------------------------------

// dirty: the current program may contain fields NewVM / Assemble reject (set per case by gen).
var dirty bool

func bad(r *vu.Rng, num, den int) bool { return dirty && r.Chance(num, den) }

var valPool = []uint32{0, 0, 1, 2, 3, 4, 7, 8, 15, 16, 31, 32, 33, 63, 64, 255, 256, 0xffff, 0x10000, 0x7fffffff,
	0x80000000, 0xfffffffe, 0xffffffff}

func genVal(r *vu.Rng) uint32 {
	if r.Chance(3, 4) {
		return valPool[r.Intn(len(valPool))]
	}
	return uint32(r.Boundary(32))
}

func genOff(r *vu.Rng, plen int) uint32 {
	switch r.Intn(10) {
	case 0:
		return genVal(r)
	case 1:
		return uint32(0xfffff000 + r.Intn(0x1000))
	case 2, 3, 4:
		// around the end of the packet
		d := r.Range(-5, 2)
		if plen+d < 0 {
			return 0
		}
		return uint32(plen + d)
	}
	if plen == 0 {
		return uint32(r.Intn(3))
	}
	return uint32(r.Intn(plen + 1))
}

func genSkip8(r *vu.Rng, room int) uint8 {
	// room = number of instructions after this one (check); valid skips are < room
	if room <= 0 || bad(r, 1, 40) {
		return uint8(r.Intn(256))
	}
	if r.Chance(1, 12) {
		v := room - 1 // largest accepted skip
		if dirty {
			v = room + r.Range(-1, 1) // room-1 ok, room and room+1 rejected
		}
		if v < 0 {
			v = 0
		}
		if v > 255 {
			v = 255
		}
		return uint8(v)
	}
	m := room
	if m > 256 {
		m = 256
	}
	if r.Chance(1, 3) {
		return 0
	}
	return uint8(r.Intn(m))
}

func genSkip32(r *vu.Rng, room int) uint32 {
	if room <= 0 || bad(r, 1, 40) {
		return genVal(r)
	}
	if r.Chance(1, 10) {
		v := room - 1
		if dirty {
			v = room + r.Range(-1, 1)
		}
		if v < 0 {
			v = 0
		}
		return uint32(v)
	}
	return uint32(r.Intn(room))
}

func genSize(r *vu.Rng) int {
	if bad(r, 1, 60) {
		return []int{0, 3, 8, -1}[r.Intn(4)]
	}
	return []int{1, 2, 4}[r.Intn(3)]
}

func genOp(r *vu.Rng) bpf.ALUOp {
	if bad(r, 1, 30) {
		return []bpf.ALUOp{0x08, 0x80, 0xb0, 0x1234, 0x100, 0x31}[r.Intn(6)]
	}
	return aluOps[r.Intn(len(aluOps))]
}

func genReg(r *vu.Rng) bpf.Register {
	if bad(r, 1, 80) {
		return bpf.Register(2 + r.Intn(3))
	}
	return bpf.Register(r.Intn(2))
}

func genSlot(r *vu.Rng) int {
	if bad(r, 1, 80) {
		return []int{-1, 16, 17, 1 << 40}[r.Intn(4)]
	}
	if r.Bool() {
		return []int{0, 15}[r.Intn(2)]
	}
	return r.Intn(16)
}

func genCond(r *vu.Rng) bpf.JumpTest {
	if bad(r, 1, 80) {
		return bpf.JumpTest(8 + r.Intn(3))
	}
	return bpf.JumpTest(r.Intn(8))
}

func genIns(r *vu.Rng, room, plen int) bpf.Instruction {
	switch r.Intn(40) {
	case 0, 1, 2:
		return bpf.LoadConstant{Dst: genReg(r), Val: genVal(r)}
	case 3, 4:
		return bpf.LoadScratch{Dst: genReg(r), N: genSlot(r)}
	case 5, 6, 7:
		return bpf.LoadAbsolute{Off: genOff(r, plen), Size: genSize(r)}
	case 8, 9, 10:
		return bpf.LoadIndirect{Off: genOff(r, plen), Size: genSize(r)}
	case 11, 12:
		return bpf.LoadMemShift{Off: genOff(r, plen)}
	case 13:
		if bad(r, 1, 12) {
			return bpf.LoadExtension{Num: []bpf.Extension{bpf.ExtProto, bpf.ExtRand, 4096, -1}[r.Intn(4)]}
		}
		return bpf.LoadExtension{Num: bpf.ExtLen}
	case 14, 15, 16:
		return bpf.StoreScratch{Src: genReg(r), N: genSlot(r)}
	case 17, 18, 19, 20, 21:
		a := bpf.ALUOpConstant{Op: genOp(r), Val: genVal(r)}
		if a.Val == 0 && (a.Op == bpf.ALUOpDiv || a.Op == bpf.ALUOpMod) && !bad(r, 1, 4) {
			a.Val = 1 + uint32(r.Intn(40))
		}
		return a
	case 22, 23, 24, 25, 26:
		return bpf.ALUOpX{Op: genOp(r)}
	case 27:
		if bad(r, 1, 6) {
			return bpf.NegateA{}
		}
		return bpf.TAX{}
	case 28, 29:
		return bpf.Jump{Skip: genSkip32(r, room)}
	case 30, 31, 32, 33:
		return bpf.JumpIf{Cond: genCond(r), Val: genVal(r), SkipTrue: genSkip8(r, room), SkipFalse: genSkip8(r, room)}
	case 34, 35:
		return bpf.JumpIfX{Cond: genCond(r), SkipTrue: genSkip8(r, room), SkipFalse: genSkip8(r, room)}
	case 36:
		if r.Bool() {
			return bpf.RetA{}
		}
		return bpf.RetConstant{Val: genVal(r)}
	case 37:
		return bpf.TAX{}
	case 38:
		return bpf.TXA{}
	}
	if bad(r, 1, 10) {
		return bpf.RawInstruction{Op: uint16(r.Intn(256)), Jt: uint8(r.Intn(3)), Jf: uint8(r.Intn(3)), K: genVal(r)}
	}
	return bpf.TXA{}
}

// genGuarded: stores to scratch slots guarded by packet bytes, then loads of those (and other) slots:
// slots are read on paths that did not write them in the same run.
func genGuarded(r *vu.Rng) ([]bpf.Instruction, [][]byte) {
	dirty = false
	var p []bpf.Instruction
	nslots := r.Range(1, 3)
	slots := make([]int, nslots)
	for j := range slots {
		slots[j] = genSlot(r)
	}
	for j, sl := range slots {
		val := genVal(r)
		if val == 0 || r.Bool() {
			val = 1 + uint32(r.Intn(0xffff))
		}
		src := bpf.Register(r.Intn(2))
		p = append(p, bpf.LoadAbsolute{Off: uint32(j), Size: 1})
		// skip the store unless the test on the packet byte succeeds / fails
		if r.Bool() {
			p = append(p, bpf.JumpIf{Cond: bpf.JumpTest(r.Intn(8)), Val: uint32(r.Intn(3)), SkipTrue: 2})
		} else {
			p = append(p, bpf.JumpIf{Cond: bpf.JumpTest(r.Intn(8)), Val: uint32(r.Intn(3)), SkipFalse: 2})
		}
		p = append(p, bpf.LoadConstant{Dst: src, Val: val}, bpf.StoreScratch{Src: src, N: sl})
	}
	p = append(p, bpf.LoadConstant{Dst: bpf.RegA, Val: 0})
	for _, sl := range slots {
		if r.Bool() {
			p = append(p, bpf.LoadScratch{Dst: bpf.RegX, N: sl}, bpf.ALUOpX{Op: []bpf.ALUOp{bpf.ALUOpAdd, bpf.ALUOpXor, bpf.ALUOpOr}[r.Intn(3)]})
		} else {
			p = append(p, bpf.LoadScratch{Dst: bpf.RegA, N: sl})
		}
	}
	if r.Chance(1, 4) {
		p = append(p, bpf.LoadScratch{Dst: bpf.RegA, N: r.Intn(16)})
	}
	p = append(p, bpf.RetA{})
	npk := r.Range(2, 5)
	pkts := make([][]byte, npk)
	for k := range pkts {
		b := make([]byte, nslots+r.Intn(2))
		for j := range b {
			b[j] = byte(r.Intn(3))
		}
		if k >= 2 && r.Bool() {
			b = append([]byte{}, pkts[r.Intn(k)]...) // a packet seen before
		}
		pkts[k] = b
	}
	return p, pkts
}

func runsLine(p []bpf.Instruction, pkts [][]byte) string {
	parts := []string{"runs", fmtProg(p)}
	for _, b := range pkts {
		parts = append(parts, vu.Hex(b))
	}
	return strings.Join(parts, " ")
}

func gen(r *vu.Rng, i int) []string {
	if r.Chance(1, 5) {
		p, pkts := genGuarded(r)
		return []string{runsLine(p, pkts)}
	}
	// packet
	plen := r.Intn(24)
	switch r.Intn(10) {
	case 0:
		plen = 0
	case 1:
		plen = r.Range(60, 70)
	}
	pkt := r.Bytes(plen)
	// program
	dirty = r.Chance(1, 3)
	n := r.Range(1, 14)
	switch r.Intn(12) {
	case 0:
		n = r.Range(250, 300) // jump offsets near 255 and beyond
	case 1:
		n = r.Range(15, 40)
	case 2:
		n = 1
	}
	p := make([]bpf.Instruction, n)
	for j := 0; j < n-1; j++ {
		p[j] = genIns(r, n-(j+1), plen)
	}
	switch {
	case bad(r, 1, 15):
		p[n-1] = genIns(r, 0, plen) // usually not a return: rejected
	case r.Bool():
		p[n-1] = bpf.RetA{}
	default:
		p[n-1] = bpf.RetConstant{Val: genVal(r)}
	}
	ps := fmtProg(p)
	lines := []string{"run " + ps + " " + vu.Hex(pkt), "ref " + ps + " " + vu.Hex(pkt)}
	if r.Chance(1, 3) {
		// the same VM value run on several packets in a row
		pk := [][]byte{pkt}
		for k := r.Range(1, 3); k > 0; k-- {
			if r.Chance(1, 3) {
				pk = append(pk, pkt)
			} else {
				pk = append(pk, r.Bytes(r.Intn(plen+3)))
			}
		}
		lines = append(lines, runsLine(p, pk))
	}
	if r.Chance(1, 4) {
		// same program, another packet (shorter / longer)
		pkt2 := r.Bytes(r.Intn(30))
		lines = append(lines, "run "+ps+" "+vu.Hex(pkt2), "ref "+ps+" "+vu.Hex(pkt2))
	}
	return lines
}

// ---- executor + oracle ----------------------------------------------------------------------

func implemented(p []bpf.Instruction) bool {
	for _, i := range p {
		switch i.(type) {
		case bpf.NegateA, bpf.RawInstruction:
			return false
		}
	}
	return true
}

func unknownALU(p []bpf.Instruction) bool {
	for _, i := range p {
		switch a := i.(type) {
		case bpf.ALUOpConstant:
			if !knownALUOp(a.Op) {
				return true
			}
		case bpf.ALUOpX:
			if !knownALUOp(a.Op) {
				return true
			}
		}
	}
	return false
}

func exec(ops []string, o *vu.Out) {
	for _, op := range ops {
		t := strings.Fields(op)
		if len(t) < 2 {
			o.Op(op, "bad-op")
			continue
		}
		p, ok := parseProg(t[1])
		if !ok {
			o.Op(op, "bad-op")
			continue
		}
		switch {
		case t[0] == "newvm" && len(t) == 2:
			_, err := bpf.NewVM(p)
			if err != nil {
				o.Op(op, "err")
			} else {
				o.Op(op, "ok")
			}
		case t[0] == "run" && len(t) == 3:
			pkt, ok := vu.ParseHex(t[2])
			if !ok {
				o.Op(op, "bad-op")
				continue
			}
			vm, err := bpf.NewVM(p)
			if err != nil {
				o.Op(op, "rej")
				o.Stat("run:rej")
				continue
			}
			var got int
			var rerr error
			res, panicked, msg := vu.CatchMsg(func() string {
				got, rerr = vm.Run(pkt)
				if rerr != nil {
					return "err"
				}
				return fmt.Sprintf("ok %d", got)
			})
			o.Op(op, res)
			o.Stat("run:" + strings.Fields(res)[0])
			for _, ins := range p {
				o.Stat("ins:" + strings.SplitN(fmtInstr(ins), ":", 2)[0])
			}
			if !implemented(p) {
				continue
			}
			// the property, on the implementation
			if panicked {
				o.Fail("", "VM.Run panicked on an accepted program: "+msg)
				continue
			}
			if rerr != nil {
				o.Fail("", "VM.Run returned an error on an accepted program without NegateA: "+rerr.Error())
				continue
			}
			raw, aerr := bpf.Assemble(p)
			if aerr != nil {
				o.Fail("", "NewVM accepted a program that does not assemble")
				continue
			}
			want, valid := refRun(raw, pkt)
			if !valid || int(want) != got {
				sig := ""
				if unknownALU(p) {
					sig = "aluop-unknown"
				}
				o.Stat("diff:" + sig)
				o.Fail(sig, fmt.Sprintf("VM.Run = %d, reference interpreter on the assembled program = %d (valid=%v)", got, want, valid))
			}
		case t[0] == "runs" && len(t) >= 3:
			var pkts [][]byte
			okp := true
			for _, h := range t[2:] {
				b, ok := vu.ParseHex(h)
				okp = okp && ok
				pkts = append(pkts, b)
			}
			if !okp {
				o.Op(op, "bad-op")
				continue
			}
			vm, err := bpf.NewVM(p)
			if err != nil {
				o.Op(op, "rej")
				o.Stat("runs:rej")
				continue
			}
			o.Stat("runs")
			raw, aerr := bpf.Assemble(p)
			res := []string{"ok"}
			for k, pkt := range pkts {
				var got int
				var rerr error
				r1, panicked, msg := vu.CatchMsg(func() string {
					got, rerr = vm.Run(pkt) // the SAME VM for every packet of the case
					if rerr != nil {
						return "err"
					}
					return fmt.Sprint(got)
				})
				res = append(res, r1)
				if !implemented(p) {
					continue
				}
				if panicked || rerr != nil || aerr != nil {
					o.Fail("", fmt.Sprintf("run %d of an accepted program failed: panic=%v %s err=%v asm=%v", k, panicked, msg, rerr, aerr))
					continue
				}
				// independence of earlier runs, stated twice: against the reference interpreter (fresh
				// state by construction) and against a fresh VM of the same program
				want, valid := refRun(raw, pkt)
				if !valid || int(want) != got {
					sig := ""
					if unknownALU(p) {
						sig = "aluop-unknown"
					}
					o.Stat("runs-diff:" + sig)
					o.Fail(sig, fmt.Sprintf("run %d on one VM: Run(%x) = %d, reference interpreter = %d (valid=%v)", k, pkt, got, want, valid))
				}
				if fresh, err := bpf.NewVM(p); err == nil {
					if g2, e2 := fresh.Run(pkt); e2 != nil || g2 != got {
						o.Fail("", fmt.Sprintf("run %d on a used VM: Run(%x) = %d, on a fresh VM = %d", k, pkt, got, g2))
					}
				}
			}
			o.Op(op, strings.Join(res, " "))
		case t[0] == "ref" && len(t) == 3:
			pkt, ok := vu.ParseHex(t[2])
			if !ok {
				o.Op(op, "bad-op")
				continue
			}
			raw, err := bpf.Assemble(p)
			if err != nil {
				o.Op(op, "err-asm")
				continue
			}
			v, valid := refRun(raw, pkt)
			if !valid {
				o.Op(op, "invalid")
			} else {
				o.Op(op, fmt.Sprintf("ok %d", v))
			}
		default:
			o.Op(op, "bad-op")
		}
	}
}

func main() { vu.Main(gen, exec) }
