//go:build verif

// C53 harness: proxy.PerHost — AddFromString / Add* and which dialer receives the Dial call.
//
// Op lines (facts tabulate net.ParseCIDR / netip.ParseAddr, which the Lean model takes as
// parameters; the executor recomputes them and refuses stale lines):
//
//	reset
//	add <string> <fact>*            fact: C:<key>:<ip>:<ones>:<bits> | P:<key>:<ip>
//	addzone <s> | addhost <s> | addip <bytes> | addnet <ip> <ones> <bits>
//	dial <mode d|c|x> <addr> <splitOk> <host> <ip|n>
package main

import (
	"context"
	"errors"
	"fmt"
	"net"
	"net/netip"
	"strconv"
	"strings"

	vu "golang.org/x/net/internal/verifutil"
	"golang.org/x/net/proxy"
)

func hx(s string) string { return vu.Hex([]byte(s)) }

// asciiTrim is the model's strings.TrimSpace.
func asciiTrim(s string) string {
	isSp := func(c byte) bool { return (c >= 9 && c <= 13) || c == ' ' }
	for len(s) > 0 && isSp(s[0]) {
		s = s[1:]
	}
	for len(s) > 0 && isSp(s[len(s)-1]) {
		s = s[:len(s)-1]
	}
	return s
}

func asciiLower(s string) string {
	b := []byte(s)
	for i, c := range b {
		if c >= 'A' && c <= 'Z' {
			b[i] = c + 32
		}
	}
	return string(b)
}

// lowerStable: Unicode case mapping agrees with the model's ASCII lower-casing on s.
func lowerStable(s string) bool { return strings.ToLower(s) == asciiLower(s) }

func stripNonASCII(s string) string {
	var b []byte
	for i := 0; i < len(s); i++ {
		if s[i] < 0x80 {
			b = append(b, s[i])
		}
	}
	return string(b)
}

func stableList(s string) bool {
	if !lowerStable(s) {
		return false
	}
	for _, p := range strings.Split(s, ",") {
		if strings.TrimSpace(p) != asciiTrim(p) {
			return false
		}
	}
	return true
}

func addFacts(s string) []string {
	var facts []string
	seen := map[string]bool{}
	add := func(f string) {
		if !seen[f] {
			seen[f] = true
			facts = append(facts, f)
		}
	}
	for _, piece := range strings.Split(s, ",") {
		h := strings.TrimSpace(piece)
		if h == "" {
			continue
		}
		if _, n, err := net.ParseCIDR(h); err == nil {
			ones, bits := n.Mask.Size()
			add(fmt.Sprintf("C:%s:%s:%d:%d", hx(h), vu.Hex(n.IP), ones, bits))
		}
		if a, err := netip.ParseAddr(h); err == nil {
			add(fmt.Sprintf("P:%s:%s", hx(h), vu.Hex(a.AsSlice())))
		}
	}
	return facts
}

func addLine(s string) string {
	return strings.Join(append([]string{"add", hx(s)}, addFacts(s)...), " ")
}

type dialInfo struct {
	ok   bool
	host string
	ip   []byte
}

func dialInfoOf(addr string) dialInfo {
	h, _, err := net.SplitHostPort(addr)
	if err != nil {
		return dialInfo{}
	}
	di := dialInfo{ok: true, host: h}
	if a, err := netip.ParseAddr(h); err == nil {
		di.ip = a.AsSlice()
	}
	return di
}

func dialLine(mode, addr string) string {
	di := dialInfoOf(addr)
	ok, ip := "0", "n"
	if di.ok {
		ok = "1"
	}
	if di.ip != nil {
		ip = vu.Hex(di.ip)
	}
	return fmt.Sprintf("dial %s %s %s %s %s", mode, hx(addr), ok, hx(di.host), ip)
}

// ---------------------------------------------------------------- generator

var domPool = []string{"example.com", "foo.example.com", "localhost", "corp", "a.b.c", "Example.COM", "example.com.", "x", "bücher.example", "com", "0"}
var v4Pool = []string{"1.2.3.4", "10.0.0.1", "127.0.0.1", "192.168.1.77", "0.0.0.0", "255.255.255.255", "10.255.255.255", "11.0.0.0"}
var v6Pool = []string{"::1", "2001:db8::1", "fe80::1", "fe80::1%eth0", "::ffff:1.2.3.4", "::", "2001:db8:ffff::", "::ffff:10.0.0.1", "ff02::1"}

const junkAlpha = "abc.*:[]/0123456789 -%\t.com"

type genCtx struct {
	r     *vu.Rng
	doms  []string
	ips   []string
	cidrs []string
}

func pick(r *vu.Rng, p []string) string { return p[r.Intn(len(p))] }

func (g *genCtx) randIP() string {
	r := g.r
	switch r.Intn(6) {
	case 0, 1:
		return pick(r, v4Pool)
	case 2, 3:
		return pick(r, v6Pool)
	case 4:
		return netip.AddrFrom4([4]byte(r.Bytes(4))).String()
	default:
		b := r.Bytes(16)
		if r.Bool() {
			for i := 2; i < 14; i++ {
				b[i] = 0
			}
		}
		return netip.AddrFrom16([16]byte(b)).String()
	}
}

func (g *genCtx) randDomain() string {
	r := g.r
	d := pick(r, domPool)
	if r.Chance(1, 4) {
		d = string(r.BytesFrom("abcxyz", r.Range(1, 4))) + "." + d
	}
	switch r.Intn(8) { // letter-case variants (ASCII only: Unicode case mapping is not modelled)
	case 0:
		d = strings.ToUpper(stripNonASCII(d))
	case 1:
		d = strings.Title(stripNonASCII(d))
	}
	return d
}

func (g *genCtx) randCIDR() string {
	r := g.r
	ip := g.randIP()
	a, err := netip.ParseAddr(ip)
	if err != nil {
		return ip + "/8"
	}
	ones := r.Intn(a.BitLen() + 1)
	if r.Chance(1, 3) {
		ones = []int{0, 1, 7, 8, 9, 16, 24, 31, 32, 64, 95, 96, 97, 120, 127, 128}[r.Intn(16)]
		if ones > a.BitLen() && !r.Chance(1, 10) {
			ones = a.BitLen()
		}
	}
	return a.WithZone("").String() + "/" + strconv.Itoa(ones)
}

func (g *genCtx) entry() string {
	r := g.r
	var e string
	switch k := r.Intn(20); {
	case k < 4:
		d := g.randDomain()
		g.doms = append(g.doms, d)
		e = d
	case k < 8:
		d := g.randDomain()
		g.doms = append(g.doms, d)
		e = "*." + d
		if r.Chance(1, 6) {
			e += "."
		}
	case k < 12:
		ip := g.randIP()
		g.ips = append(g.ips, ip)
		e = ip
	case k < 16:
		c := g.randCIDR()
		g.cidrs = append(g.cidrs, c)
		e = c
	case k < 17:
		e = pick(r, []string{"", " ", ".", "*.", "*", "*..", "/", "1.2.3.4/", "/8", "[::1]", "1.2.3.4:80", "*.*", ".example.com", "..", "*.example.com/8", "example.com/"})
	default:
		e = string(r.BytesFrom(junkAlpha, r.Intn(9)))
	}
	if r.Chance(1, 5) {
		e = pick(r, []string{" ", "\t", "  "}) + e
	}
	if r.Chance(1, 5) {
		e += pick(r, []string{" ", "\t", " \n"})
	}
	return e
}

func flipBit(a netip.Addr, k int) netip.Addr {
	b := a.AsSlice()
	if k < 0 || k >= len(b)*8 {
		return a
	}
	b[k/8] ^= 0x80 >> uint(k%8)
	x, _ := netip.AddrFromSlice(b)
	return x
}

func (g *genCtx) dialHost() string {
	r := g.r
	switch k := r.Intn(20); {
	case k < 7 && len(g.doms) > 0:
		d := pick(r, g.doms)
		switch r.Intn(8) {
		case 0:
			return "www." + d
		case 1:
			return "x" + d
		case 2:
			if i := strings.IndexByte(d, '.'); i >= 0 {
				return d[i+1:]
			}
			return d
		case 3:
			return strings.ToUpper(stripNonASCII(d))
		case 6:
			return strings.ToLower(stripNonASCII(d)) + "."
		case 4:
			return d + "."
		case 5:
			return strings.TrimSuffix(d, ".")
		default:
			return d
		}
	case k < 10 && len(g.ips) > 0:
		ip := pick(r, g.ips)
		a, err := netip.ParseAddr(ip)
		if err != nil {
			return ip
		}
		switch r.Intn(5) {
		case 0:
			return flipBit(a, r.Intn(a.BitLen())).String()
		case 1:
			if a.Is4() {
				return netip.AddrFrom16(a.As16()).String()
			}
			if a.Is4In6() {
				return a.Unmap().String()
			}
			return a.WithZone("").String()
		default:
			return ip
		}
	case k < 15 && len(g.cidrs) > 0:
		pfx, err := netip.ParsePrefix(pick(r, g.cidrs))
		if err != nil {
			return g.randIP()
		}
		b := pfx.Addr().AsSlice()
		rb := r.Bytes(len(b))
		for i := pfx.Bits(); i < len(b)*8; i++ {
			if rb[i/8]&(0x80>>uint(i%8)) != 0 {
				b[i/8] ^= 0x80 >> uint(i%8)
			}
		}
		a, _ := netip.AddrFromSlice(b)
		switch r.Intn(6) {
		case 0:
			a = flipBit(a, pfx.Bits()-1)
		case 1:
			a = flipBit(a, pfx.Bits())
		case 2:
			if a.Is4() {
				a = netip.AddrFrom16(a.As16())
			} else if a.Is4In6() {
				a = a.Unmap()
			}
		}
		return a.String()
	case k < 17:
		return g.randIP()
	case k < 18:
		return pick(r, []string{"", ".", "a]b", "[", "1.2.3.4.", "example.com:80", " example.com", "*.example.com"})
	default:
		return g.randDomain()
	}
}

func (g *genCtx) dial() string {
	r := g.r
	h := g.dialHost()
	if !lowerStable(h) {
		h = stripNonASCII(h)
	}
	var addr string
	switch r.Intn(12) {
	case 0:
		addr = h // no port: SplitHostPort fails
	case 1:
		addr = h + ":80" // IPv6 without brackets fails
	default:
		addr = net.JoinHostPort(h, pick(r, []string{"80", "443", "0", ""}))
	}
	return dialLine(pick(r, []string{"d", "c", "x"}), addr)
}

func gen(r *vu.Rng, i int) []string {
	g := &genCtx{r: r}
	ops := []string{"reset"}
	for k := r.Range(1, 3); k > 0; k-- {
		switch r.Intn(10) {
		case 0:
			d := g.randDomain()
			g.doms = append(g.doms, d)
			ops = append(ops, "addzone "+hx(pick(r, []string{d, "." + d, d + ".", "." + d + ".", "", ".", ".."})))
		case 1:
			d := g.randDomain()
			g.doms = append(g.doms, d)
			ops = append(ops, "addhost "+hx(pick(r, []string{d, d + ".", "." + d, "", "."})))
		case 2:
			ip := g.randIP()
			a, _ := netip.ParseAddr(ip)
			g.ips = append(g.ips, ip)
			b := a.AsSlice()
			if r.Bool() && a.Is4() {
				b16 := a.As16()
				b = b16[:]
			}
			ops = append(ops, "addip "+vu.Hex(b))
		default:
			n := r.Intn(6)
			var es []string
			for j := 0; j < n; j++ {
				es = append(es, g.entry())
			}
			s := strings.Join(es, ",")
			if !stableList(s) {
				s = "example.com"
			}
			ops = append(ops, addLine(s))
		}
	}
	for k := r.Range(2, 8); k > 0; k-- {
		ops = append(ops, g.dial())
	}
	return ops
}

// ---------------------------------------------------------------- executor

var errMarker = errors.New("marker")

type marker struct {
	name  string
	calls *[]string
}

func (m marker) Dial(network, addr string) (net.Conn, error) {
	*m.calls = append(*m.calls, m.name+" Dial "+network+" "+addr)
	return nil, errMarker
}

// ctxMarker also implements proxy.ContextDialer.
type ctxMarker struct{ marker }

func (m ctxMarker) DialContext(ctx context.Context, network, addr string) (net.Conn, error) {
	*m.calls = append(*m.calls, m.name+" DialContext "+network+" "+addr)
	return nil, errMarker
}

// rule is the oracle's own record of what was added, kept from the raw API arguments.
type rule struct {
	kind string // net | ip | zone | host
	ip   netip.Addr
	ones int
	name string
}

type state struct {
	ph    *proxy.PerHost // plain marker dialers
	phCtx *proxy.PerHost // ContextDialer markers
	calls []string
	rules []rule
}

func newState() *state {
	st := &state{}
	st.ph = proxy.NewPerHost(marker{"default", &st.calls}, marker{"bypass", &st.calls})
	st.phCtx = proxy.NewPerHost(ctxMarker{marker{"default", &st.calls}}, ctxMarker{marker{"bypass", &st.calls}})
	return st
}

func dump(p *proxy.PerHost) string {
	nets, ips, zones, hosts := proxy.VerifDumpPerHost(p)
	show := func(xs []string) string {
		if len(xs) == 0 {
			return "-"
		}
		return strings.Join(xs, ",")
	}
	var a, b, c, d []string
	for _, n := range nets {
		a = append(a, fmt.Sprintf("%s/%d/%d", vu.Hex(n.IP), n.Ones, n.Bits))
	}
	for _, ip := range ips {
		b = append(b, vu.Hex(ip))
	}
	for _, z := range zones {
		c = append(c, hx(z))
	}
	for _, h := range hosts {
		d = append(d, hx(h))
	}
	return fmt.Sprintf("ok nets=%s ips=%s zones=%s hosts=%s", show(a), show(b), show(c), show(d))
}

func (st *state) both(f func(p *proxy.PerHost)) { f(st.ph); f(st.phCtx) }

func netRule(ipb []byte, ones int) rule {
	a, _ := netip.AddrFromSlice(ipb)
	if a.Is4In6() && ones >= 96 {
		a, ones = a.Unmap(), ones-96
	}
	return rule{kind: "net", ip: a, ones: ones}
}

// specRules: the documented reading of one AddFromString argument.
func specRules(s string) []rule {
	var rs []rule
	for _, h := range strings.Split(s, ",") {
		h = strings.TrimSpace(h)
		if h == "" {
			continue
		}
		if strings.Contains(h, "/") {
			if _, n, err := net.ParseCIDR(h); err == nil {
				ones, _ := n.Mask.Size()
				rs = append(rs, netRule(n.IP, ones))
			}
			continue
		}
		if a, err := netip.ParseAddr(h); err == nil {
			rs = append(rs, rule{kind: "ip", ip: a.WithZone("").Unmap()})
			continue
		}
		if strings.HasPrefix(h, "*.") {
			rs = append(rs, zoneRule(h[1:]))
			continue
		}
		rs = append(rs, hostRule(h))
	}
	return rs
}

// names are compared case-insensitively and without the trailing dot of a rooted spelling
func zoneRule(z string) rule {
	return rule{kind: "zone", name: strings.TrimPrefix(strings.ToLower(strings.TrimSuffix(z, ".")), ".")}
}

func hostRule(h string) rule {
	return rule{kind: "host", name: strings.ToLower(strings.TrimSuffix(h, "."))}
}

func prefixEq(a, b []byte, n int) bool {
	for i := 0; i < n; i++ {
		if (a[i/8]^b[i/8])&(0x80>>uint(i%8)) != 0 {
			return false
		}
	}
	return true
}

// specBypass: C53 stated directly.
func specBypass(rules []rule, di dialInfo) (by bool, why string) {
	if di.ip != nil {
		a, _ := netip.AddrFromSlice(di.ip)
		a = a.Unmap()
		for _, r := range rules {
			switch r.kind {
			case "net":
				if r.ip.BitLen() == a.BitLen() && prefixEq(r.ip.AsSlice(), a.AsSlice(), r.ones) {
					return true, "net"
				}
			case "ip":
				if r.ip == a {
					return true, "ip"
				}
			}
		}
		return false, "ip-no-match"
	}
	// names are compared without the trailing dot of a fully qualified spelling, on both sides
	name := strings.ToLower(strings.TrimSuffix(di.host, "."))
	if name != di.host {
		why = "folded-"
	}
	for _, r := range rules {
		switch r.kind {
		case "zone":
			if name == r.name {
				return true, why + "zone-apex"
			}
			if strings.HasSuffix(name, "."+r.name) {
				return true, why + "zone-sub"
			}
		case "host":
			if name == r.name {
				return true, why + "host"
			}
		}
	}
	return false, why + "name-no-match"
}

func exec(ops []string, o *vu.Out) {
	st := newState()
	for _, op := range ops {
		t := strings.Fields(op)
		if len(t) == 0 {
			o.Op(op, "bad-op")
			continue
		}
		o.Stat("op:" + t[0])
		switch {
		case t[0] == "reset" && len(t) == 1:
			st = newState()
			o.Op(op, "ok")
		case t[0] == "add" && len(t) >= 2:
			b, ok := vu.ParseHex(t[1])
			s := string(b)
			if !ok || !stableList(s) || addLine(s) != strings.Join(t, " ") {
				o.Op(op, "bad-op")
				continue
			}
			o.Op(op, vu.Catch(func() string {
				st.both(func(p *proxy.PerHost) { p.AddFromString(s) })
				return dump(st.ph)
			}))
			st.rules = append(st.rules, specRules(s)...)
		case (t[0] == "addzone" || t[0] == "addhost") && len(t) == 2:
			b, ok := vu.ParseHex(t[1])
			if !ok {
				o.Op(op, "bad-op")
				continue
			}
			s := string(b)
			if !lowerStable(s) {
				o.Op(op, "bad-op")
				continue
			}
			o.Op(op, vu.Catch(func() string {
				if t[0] == "addzone" {
					st.both(func(p *proxy.PerHost) { p.AddZone(s) })
				} else {
					st.both(func(p *proxy.PerHost) { p.AddHost(s) })
				}
				return dump(st.ph)
			}))
			if t[0] == "addzone" {
				st.rules = append(st.rules, zoneRule(s))
			} else {
				st.rules = append(st.rules, hostRule(s))
			}
		case t[0] == "addip" && len(t) == 2:
			b, ok := vu.ParseHex(t[1])
			if !ok || (len(b) != 4 && len(b) != 16) {
				o.Op(op, "bad-op")
				continue
			}
			o.Op(op, vu.Catch(func() string {
				st.both(func(p *proxy.PerHost) { p.AddIP(net.IP(append([]byte{}, b...))) })
				return dump(st.ph)
			}))
			a, _ := netip.AddrFromSlice(b)
			st.rules = append(st.rules, rule{kind: "ip", ip: a.Unmap()})
		case t[0] == "addnet" && len(t) == 4:
			b, ok := vu.ParseHex(t[1])
			ones, e1 := strconv.Atoi(t[2])
			bits, e2 := strconv.Atoi(t[3])
			if !ok || e1 != nil || e2 != nil || bits != 8*len(b) || (len(b) != 4 && len(b) != 16) || ones < 0 || ones > bits {
				o.Op(op, "bad-op")
				continue
			}
			o.Op(op, vu.Catch(func() string {
				st.both(func(p *proxy.PerHost) {
					p.AddNetwork(&net.IPNet{IP: net.IP(append([]byte{}, b...)), Mask: net.CIDRMask(ones, bits)})
				})
				return dump(st.ph)
			}))
			st.rules = append(st.rules, netRule(b, ones))
		case t[0] == "dial" && len(t) == 6:
			b, ok := vu.ParseHex(t[2])
			addr := string(b)
			if !ok || dialLine(t[1], addr) != strings.Join(t, " ") || !lowerStable(addr) {
				o.Op(op, "bad-op")
				continue
			}
			di := dialInfoOf(addr)
			st.calls = nil
			var err error
			res := vu.Catch(func() string {
				switch t[1] {
				case "d":
					_, err = st.ph.Dial("tcp", addr)
				case "c":
					_, err = st.phCtx.DialContext(context.Background(), "tcp", addr)
				case "x": // DialContext over dialers that only implement Dial (goroutine path, awaited)
					_, err = st.ph.DialContext(context.Background(), "tcp", addr)
				default:
					return "bad-op"
				}
				if len(st.calls) == 0 {
					if err == nil || err == errMarker {
						return "ok nothing-dialed"
					}
					return "err split"
				}
				if len(st.calls) > 1 {
					return "ok many-dialed"
				}
				f := strings.Fields(st.calls[0] + " .")
				if f[2] != "tcp" || strings.TrimSuffix(strings.SplitN(st.calls[0], " ", 4)[3], "") != addr {
					return "ok wrong-args"
				}
				return "ok " + f[0]
			})
			o.Op(op, res)
			// property oracle
			want := "err split"
			if di.ok {
				by, why := specBypass(st.rules, di)
				o.Stat("spec:" + why)
				want = "ok default"
				if by {
					want = "ok bypass"
				}
			} else {
				o.Stat("spec:unsplittable")
			}
			if res != want {
				o.Fail("", fmt.Sprintf("rules=%s addr=%q mode=%s: got %q (calls %q), documented rule gives %q", dump(st.ph), addr, t[1], res, st.calls, want))
			}
		default:
			o.Op(op, "bad-op")
		}
	}
}

func main() { vu.Main(gen, exec) }
