//go:build verif

// White-box shim for the C53 harness (injected as proxy/zz_verif_c53.go).
package proxy

// VerifNet is one bypass network: IP bytes and the mask as ones/bits.
type VerifNet struct {
	IP   []byte
	Ones int
	Bits int
}

// VerifDumpPerHost exposes the four rule lists of p.
func VerifDumpPerHost(p *PerHost) (nets []VerifNet, ips [][]byte, zones, hosts []string) {
	for _, n := range p.bypassNetworks {
		ones, bits := n.Mask.Size()
		nets = append(nets, VerifNet{IP: []byte(n.IP), Ones: ones, Bits: bits})
	}
	for _, ip := range p.bypassIPs {
		ips = append(ips, []byte(ip))
	}
	zones = append(zones, p.bypassZones...)
	hosts = append(hosts, p.bypassHosts...)
	return
}
