//go:build verif

// C21 harness, tie "wire" (V-tie): a real Conn in the package's own rig (newTestConn, fake
// network, synthetic clock). The harness plays the peer and the local application:
//
//	reset <c|s> <cfgBidi> <cfgUni> <grantBidi> <grantUni>   Config.Max{Bidi,Uni}RemoteStreams, the peer's
//	                                                        initial_max_streams_{bidi,uni}; handshake done
//	popen <b|u> <num> <fin>      peer sends a STREAM frame for its stream <num> (implicitly opens lower ones)
//	pframe <b|u> <num> <kind>    peer references its stream <num> with another frame that carries a stream id:
//	                             sdb STREAM_DATA_BLOCKED, reset RESET_STREAM, stop STOP_SENDING, msd MAX_STREAM_DATA
//	                             (stop/msd only for bidirectional streams). RFC 9000 4.6: ANY frame with a stream id
//	                             exceeding the limit must be answered with STREAM_LIMIT_ERROR
//	pclose <k>                   the application closes the k-th accepted peer stream, the peer finishes its
//	                             side (FIN) and acknowledges everything: the stream is completely closed
//	nstream <b|u>                application: NewStream / NewSendOnlyStream with an expired context
//	phalf <k> <r|w|s>            (s: CloseRead before the peer finished: STOP_SENDING, stream stays open)
//	                             the application closes only the read (r) or only the write (w) direction of the
//	                             k-th accepted peer stream (the peer finishes / acknowledges its part): the stream
//	                             counts as closed only once both directions are closed
//	lclose <k>                   the application closes the k-th stream it opened itself, the peer finishes and
//	                             acknowledges: a LOCALLY initiated stream is completely closed (must not extend the
//	                             peer's limit)
//	pmax <b|u> <v>               peer sends MAX_STREAMS (any order, stale values included)
//	ackall                       peer acknowledges everything received so far
//
// Each op line is `<op> => <observations>`, implementation result `ok`. Observation tokens:
// tp:<bidi>:<uni> transport parameters sent, cfg:<bidi>:<uni> effective configuration,
// m:<t>:<v> MAX_STREAMS frame sent by the Conn, x:<code> CONNECTION_CLOSE, acc:<t>:<num> stream returned
// by AcceptStream, closed:<t>:<num> (peer-initiated stream), lclosed:<t>:<num> (locally initiated), ok:<num> / blocked (nstream), dead.
package quic

import (
	"context"
	"fmt"
	"strings"
	"sync/atomic"
	"testing"
	"testing/synctest"
	"time"

	vu "golang.org/x/net/internal/verifutil"
)

func TestVerifC21Conn(t *testing.T) {
	vu.Run(vu.ConfigFromEnv(), c21wGen, c21wExec(t))
}

func c21wGen(r *vu.Rng, i int) []string {
	cfgPool := []int64{-1, 0, 1, 2, 3, 4, 8, 9, 10, 20, 99, 100, 101, 150, 1 << 60}
	grantPool := []int64{0, 0, 1, 2, 3, 5, 8, 100}
	side := "s"
	if r.Bool() {
		side = "c"
	}
	cfg := [2]int64{cfgPool[r.Intn(len(cfgPool))], cfgPool[r.Intn(len(cfgPool))]}
	grant := [2]int64{grantPool[r.Intn(len(grantPool))], grantPool[r.Intn(len(grantPool))]}
	// "held open" mode: small limits, the peer opens up to its limit and never closes, while the
	// application opens and completely finishes streams of its own
	held := r.Chance(1, 3)
	if held {
		cfg = [2]int64{int64(r.Range(1, 4)), int64(r.Range(1, 4))}
		grant = [2]int64{int64(r.Range(2, 8)), int64(r.Range(2, 8))}
	}
	ops := []string{fmt.Sprintf("reset %s %d %d %d %d", side, cfg[0], cfg[1], grant[0], grant[1])}
	locals := 0
	// generator-side guess of the advertised limit, to aim at the boundary
	var sim [2]remoteStreamLimits
	for k := 0; k < 2; k++ {
		sim[k].init(configDefault(cfg[k], 100, int64(1)<<60))
	}
	tn := []string{"b", "u"}
	accepted := 0
	n := r.Range(6, 45)
	for k := 0; k < n; k++ {
		t := r.Intn(2)
		x := r.Intn(100)
		if held && x >= 40 && x < 65 {
			x = 65 + r.Intn(35) // never close a peer stream
		}
		switch {
		case x < 40:
			var num int64
			pick := r.Intn(20)
			if held && pick < 5 {
				pick = 11 // fill up to the limit without provoking STREAM_LIMIT_ERROR
			}
			switch pick {
			case 0:
				num = sim[t].max // first number beyond the limit
			case 1, 2, 3:
				num = sim[t].max - 1
			case 4:
				num = sim[t].max + int64(r.Range(1, 50))
			case 5, 6:
				num = sim[t].opened - int64(r.Range(1, 3))
			case 7, 8, 9, 10:
				num = sim[t].opened + int64(r.Range(1, 6)) // implicit opens
			default:
				num = sim[t].opened
			}
			if num < 0 {
				num = 0
			}
			if r.Chance(1, 4) {
				kinds := []string{"sdb", "reset", "sdb", "stop", "msd"}
				kind := kinds[r.Intn(3)]
				if t == 0 {
					kind = kinds[r.Intn(5)]
				}
				ops = append(ops, fmt.Sprintf("pframe %s %d %s", tn[t], num, kind))
			} else {
				ops = append(ops, fmt.Sprintf("popen %s %d %d", tn[t], num, r.Intn(2)))
			}
			if num < sim[t].max && num >= sim[t].opened {
				accepted += 1
				sim[t].opened = num + 1
				sim[t].maybeUpdateMax()
			}
		case x < 65:
			ops = append(ops, fmt.Sprintf("pclose %d", r.Intn(accepted+1)))
			// which type gets closed is not known to the generator: nudge both guesses
			for q := 0; q < 2; q++ {
				if sim[q].closed < sim[q].opened && r.Bool() {
					sim[q].closed++
					sim[q].maybeUpdateMax()
				}
			}
		case x < 78:
			ops = append(ops, "nstream "+tn[t])
			locals++
		case x < 83:
			ops = append(ops, fmt.Sprintf("lclose %d", r.Intn(locals+1)))
		case x < 86:
			ops = append(ops, fmt.Sprintf("phalf %d %s", r.Intn(accepted+1), []string{"r", "w", "s"}[r.Intn(3)]))
		case x < 94:
			v := int64(r.Range(0, 12))
			if r.Chance(1, 10) {
				v = 1 << 60
			}
			ops = append(ops, fmt.Sprintf("pmax %s %d", tn[t], v))
		default:
			ops = append(ops, "ackall")
		}
	}
	return ops
}

type c21wCase struct {
	t      *testing.T
	o      *vu.Out
	tc     *testConn
	peer   connSide
	dead   bool
	obs    []string
	adv    [2]int64 // oracle: last MAX_STREAMS value on the wire (or transport parameter)
	cfg    [2]int64
	grant  [2]int64
	lcount [2]int64
	closed [2]int64
	open   []*Stream // accepted, not yet closed
	local  []*Stream // opened by the application, not yet closed
	maxPn  packetNumber // largest 1-RTT packet number the Conn sent
	finned map[streamID]bool
	halfR  map[streamID]bool // application closed the read direction only
	halfW  map[streamID]bool
}

func c21wExec(t *testing.T) func(ops []string, o *vu.Out) {
	return func(ops []string, o *vu.Out) {
		clean := make([]string, len(ops))
		for i, op := range ops {
			if j := strings.Index(op, "=>"); j >= 0 {
				op = op[:j]
			}
			clean[i] = strings.TrimSpace(op)
		}
		var emitted atomic.Int64
		var abandoned atomic.Bool
		done := make(chan string, 1)
		go func() {
			finished := false
			defer func() {
				if e := recover(); e != nil || !finished {
					done <- fmt.Sprint("panic or t.Fatal inside the case: ", e)
				}
			}()
			synctest.Test(t, func(t *testing.T) {
				x := &c21wCase{t: t, o: o, finned: map[streamID]bool{}, halfR: map[streamID]bool{}, halfW: map[streamID]bool{}}
				for _, op := range clean {
					if abandoned.Load() {
						return
					}
					line := x.step(op)
					if abandoned.Load() {
						return
					}
					o.Op(line, "ok")
					emitted.Add(1)
				}
				if x.tc != nil {
					x.tc.cleanup()
				}
			})
			finished = true
			done <- ""
		}()
		select {
		case msg := <-done:
			if msg != "" {
				o.Fail("", "case aborted: "+msg)
				o.Stat("wire:aborted")
				for k := int(emitted.Load()); k < len(clean); k++ {
					o.Op(clean[k]+" => aborted", "aborted")
				}
			}
		case <-time.After(60 * time.Second):
			abandoned.Store(true)
			o.Fail("", "watchdog: case did not finish within 60 s of wall-clock time")
			for k := int(emitted.Load()); k < len(clean); k++ {
				o.Op(clean[k]+" => timeout", "timeout")
			}
		}
	}
}

func c21wType(s string) (streamType, int, bool) {
	switch s {
	case "b":
		return bidiStream, 0, true
	case "u":
		return uniStream, 1, true
	}
	return 0, 0, false
}

func c21wTI(t streamType) int {
	if t == uniStream {
		return 1
	}
	return 0
}

var c21wTN = [2]string{"b", "u"}

// drain records what the Conn sends and states the wire clauses on it.
func (x *c21wCase) drain() {
	for {
		d := x.tc.readDatagram()
		if d == nil {
			return
		}
		for _, p := range d.packets {
			if p.ptype == packetType1RTT && p.num > x.maxPn {
				x.maxPn = p.num
			}
			for _, f := range p.frames {
				switch f := f.(type) {
				case debugFrameMaxStreams:
					ti := c21wTI(f.streamType)
					x.obs = append(x.obs, fmt.Sprintf("m:%s:%d", c21wTN[ti], f.max))
					x.o.Stat("wire:max-streams")
					// ---- oracle: MAX_STREAMS never decreases and never lets the peer hold more than configured
					if f.max < x.adv[ti] {
						x.o.Fail("", fmt.Sprintf("MAX_STREAMS(%s) on the wire decreased: %d after %d", c21wTN[ti], f.max, x.adv[ti]))
					}
					if f.max-x.closed[ti] > x.cfg[ti] {
						x.o.Fail("", fmt.Sprintf("MAX_STREAMS(%s)=%d with %d peer streams closed lets the peer hold %d streams, configured maximum %d",
							c21wTN[ti], f.max, x.closed[ti], f.max-x.closed[ti], x.cfg[ti]))
					}
					x.adv[ti] = f.max
				case debugFrameStream:
					if f.fin {
						x.obs = append(x.obs, fmt.Sprintf("fin:%d", int64(f.id)))
					}
				case debugFrameConnectionCloseTransport:
					x.obs = append(x.obs, fmt.Sprintf("x:%d", uint64(f.code)))
					x.dead = true
				case debugFrameConnectionCloseApplication:
					x.obs = append(x.obs, "x:app")
					x.dead = true
				}
			}
		}
	}
}

// ackAll: the peer acknowledges every 1-RTT packet the Conn has sent so far.
func (x *c21wCase) ackAll() {
	x.tc.writeFrames(packetType1RTT, debugFrameAck{ranges: []i64range[packetNumber]{{0, x.maxPn + 1}}})
}

func (x *c21wCase) step(op string) string {
	t := strings.Fields(op)
	x.obs = x.obs[:0]
	bad := func() string { return op + " => bad-op" }
	if len(t) == 0 {
		return bad()
	}
	x.o.Stat("op:" + t[0])
	if t[0] == "reset" {
		if x.tc != nil || len(t) != 6 || (t[1] != "c" && t[1] != "s") {
			return bad()
		}
		side := clientSide
		x.peer = serverSide
		if t[1] == "s" {
			side, x.peer = serverSide, clientSide
		}
		cb, cu, gb, gu := vu.Atoi64(t[2]), vu.Atoi64(t[3]), vu.Atoi64(t[4]), vu.Atoi64(t[5])
		if gb < 0 || gu < 0 || gb > 1<<60 || gu > 1<<60 {
			return bad()
		}
		x.tc = newTestConn(x.t, side, permissiveTransportParameters,
			func(c *Config) {
				c.MaxBidiRemoteStreams, c.MaxUniRemoteStreams = cb, cu
				c.HandshakeTimeout, c.MaxIdleTimeout = 24*time.Hour, 24*time.Hour
			},
			func(p *transportParameters) { p.initialMaxStreamsBidi, p.initialMaxStreamsUni = gb, gu })
		x.tc.handshake()
		x.tc.ignoreFrame(frameTypeAck)
		tp := x.tc.sentTransportParameters
		x.adv = [2]int64{tp.initialMaxStreamsBidi, tp.initialMaxStreamsUni}
		x.cfg = [2]int64{x.tc.conn.config.maxBidiRemoteStreams(), x.tc.conn.config.maxUniRemoteStreams()}
		x.grant = [2]int64{gb, gu}
		x.drain()
		for k := 0; k < 2; k++ {
			if x.adv[k] > x.cfg[k] {
				x.o.Fail("", fmt.Sprintf("initial_max_streams(%s)=%d exceeds the configured %d", c21wTN[k], x.adv[k], x.cfg[k]))
			}
		}
		return fmt.Sprintf("%s => tp:%d:%d cfg:%d:%d %s", op, tp.initialMaxStreamsBidi, tp.initialMaxStreamsUni, x.cfg[0], x.cfg[1], strings.Join(x.obs, " "))
	}
	if x.tc == nil {
		return bad()
	}
	c := x.tc.conn
	if !x.dead && c.lifetime.state != connStateAlive {
		x.dead = true
	}
	if x.dead {
		return op + " => dead"
	}
	ctx, cancel := context.WithCancel(context.Background())
	cancel()
	switch {
	case (t[0] == "popen" && len(t) == 4 && (t[3] == "0" || t[3] == "1")) ||
		(t[0] == "pframe" && len(t) == 4 && (t[3] == "sdb" || t[3] == "reset" || ((t[3] == "stop" || t[3] == "msd") && t[1] == "b"))):
		st, ti, ok := c21wType(t[1])
		num := vu.Atoi64(t[2])
		if !ok || num < 0 || num >= 1<<60 {
			return bad()
		}
		id := newStreamID(x.peer, st, num)
		advBefore := x.adv[ti]
		switch t[3] {
		case "0", "1":
			x.tc.writeFrames(packetType1RTT, debugFrameStream{id: id, fin: t[3] == "1"})
			if t[3] == "1" {
				x.finned[id] = true
			}
		case "sdb":
			x.tc.writeFrames(packetType1RTT, debugFrameStreamDataBlocked{id: id, max: 0})
		case "reset":
			if x.finned[id] {
				x.obs = append(x.obs, "-") // the peer already finished this stream with FIN
				return op + " => -"
			}
			x.tc.writeFrames(packetType1RTT, debugFrameResetStream{id: id, code: 1, finalSize: 0})
			x.finned[id] = true // the peer's direction is finished
		case "stop":
			x.tc.writeFrames(packetType1RTT, debugFrameStopSending{id: id, code: 1})
		case "msd":
			x.tc.writeFrames(packetType1RTT, debugFrameMaxStreamData{id: id, max: 1 << 20})
		}
		x.o.Stat("wire:peer-frame-" + t[3])
		x.drain()
		limitErr := false
		for _, o := range x.obs {
			if o == fmt.Sprintf("x:%d", uint64(errStreamLimit)) {
				limitErr = true
			}
		}
		// ---- oracle: STREAM_LIMIT_ERROR iff the stream number is at or beyond the limit the peer was told
		if limitErr != (num >= advBefore) {
			x.o.Fail("", fmt.Sprintf("peer referenced %s stream %d (%s) with advertised MAX_STREAMS=%d: STREAM_LIMIT_ERROR=%v", t[1], num, op, advBefore, limitErr))
		}
		if limitErr {
			x.o.Stat("wire:stream-limit-error")
		}
		for !x.dead {
			s, err := c.AcceptStream(ctx)
			if err != nil {
				break
			}
			s.SetReadContext(ctx)
			s.SetWriteContext(ctx)
			ai := c21wTI(s.id.streamType())
			x.obs = append(x.obs, fmt.Sprintf("acc:%s:%d", c21wTN[ai], s.id.num()))
			if s.id.num() >= advBefore && ai == ti || s.id.num() >= x.adv[ai] {
				x.o.Fail("", fmt.Sprintf("AcceptStream returned %s stream %d beyond the advertised limit %d", c21wTN[ai], s.id.num(), x.adv[ai]))
			}
			x.open = append(x.open, s)
			x.o.Stat("wire:accepted")
		}
	case t[0] == "pclose" && len(t) == 2:
		k := vu.Atoi(t[1])
		if k < 0 {
			return bad()
		}
		if len(x.open) == 0 {
			x.obs = append(x.obs, "-")
			break
		}
		k %= len(x.open)
		s := x.open[k]
		x.open = append(x.open[:k], x.open[k+1:]...)
		if !x.finned[s.id] {
			x.tc.writeFrames(packetType1RTT, debugFrameStream{id: s.id, fin: true})
			x.finned[s.id] = true
			x.drain()
		}
		// from here on the Conn may count the stream as closed
		ai := c21wTI(s.id.streamType())
		x.closed[ai]++
		x.obs = append(x.obs, fmt.Sprintf("closed:%s:%d", c21wTN[ai], s.id.num()))
		x.o.Stat("wire:closed")
		s.Close()
		x.drain()
		x.ackAll()
		x.drain()
	case t[0] == "phalf" && len(t) == 3 && (t[2] == "r" || t[2] == "w" || t[2] == "s"):
		k := vu.Atoi(t[1])
		if k < 0 {
			return bad()
		}
		if len(x.open) == 0 {
			x.obs = append(x.obs, "-")
			break
		}
		k %= len(x.open)
		s := x.open[k]
		if t[2] == "s" && x.finned[s.id] {
			t[2] = "r" // the peer already finished its direction: this is an ordinary read-side close
		}
		if t[2] == "s" {
			// the application stops reading while the peer has NOT finished its direction
			// (STOP_SENDING goes out): the stream is not closed by this
			s.CloseRead()
			x.o.Stat("wire:stop-sending")
			x.drain()
			x.ackAll()
			x.drain()
			break
		}
		uni := s.id.streamType() == uniStream
		if t[2] == "w" && uni || t[2] == "r" && x.halfR[s.id] || t[2] == "w" && x.halfW[s.id] {
			x.obs = append(x.obs, "-")
			break
		}
		if t[2] == "r" {
			x.halfR[s.id] = true
		} else {
			x.halfW[s.id] = true
		}
		if x.halfR[s.id] && (uni || x.halfW[s.id]) {
			// second half: from here on the stream may be counted as closed
			x.open = append(x.open[:k], x.open[k+1:]...)
			ai := c21wTI(s.id.streamType())
			x.closed[ai]++
			x.obs = append(x.obs, fmt.Sprintf("closed:%s:%d", c21wTN[ai], s.id.num()))
			x.o.Stat("wire:closed")
		} else {
			x.o.Stat("wire:half-closed")
		}
		if t[2] == "r" {
			if !x.finned[s.id] {
				x.tc.writeFrames(packetType1RTT, debugFrameStream{id: s.id, fin: true})
				x.finned[s.id] = true
				x.drain()
			}
			s.CloseRead()
		} else {
			s.CloseWrite()
		}
		x.drain()
		x.ackAll()
		x.drain()
	case t[0] == "lclose" && len(t) == 2:
		k := vu.Atoi(t[1])
		if k < 0 {
			return bad()
		}
		if len(x.local) == 0 {
			x.obs = append(x.obs, "-")
			break
		}
		k %= len(x.local)
		s := x.local[k]
		x.local = append(x.local[:k], x.local[k+1:]...)
		if s.id.streamType() == bidiStream {
			// the peer finishes its half of our stream
			x.tc.writeFrames(packetType1RTT, debugFrameStream{id: s.id, fin: true})
			x.drain()
		}
		ai := c21wTI(s.id.streamType())
		x.obs = append(x.obs, fmt.Sprintf("lclosed:%s:%d", c21wTN[ai], s.id.num()))
		x.o.Stat("wire:local-closed")
		s.Close()
		x.drain()
		x.ackAll()
		x.drain()
	case t[0] == "nstream" && len(t) == 2:
		st, ti, ok := c21wType(t[1])
		if !ok {
			return bad()
		}
		s, err := c.newLocalStream(ctx, st)
		switch {
		case err == nil:
			num := s.id.num()
			x.obs = append(x.obs, fmt.Sprintf("ok:%d", num))
			x.o.Stat("wire:local-open")
			s.SetReadContext(ctx)
			s.SetWriteContext(ctx)
			x.local = append(x.local, s)
			// ---- oracle: never open a stream at or beyond the peer's MAX_STREAMS
			if num >= x.grant[ti] {
				x.o.Fail("", fmt.Sprintf("NewStream(%s) opened stream number %d, peer MAX_STREAMS=%d", t[1], num, x.grant[ti]))
			}
			if num != x.lcount[ti] {
				x.o.Fail("", fmt.Sprintf("NewStream(%s) returned number %d, expected %d", t[1], num, x.lcount[ti]))
			}
			x.lcount[ti]++
		case err == context.Canceled:
			x.obs = append(x.obs, "blocked")
			x.o.Stat("wire:local-blocked")
			if x.lcount[ti] < x.grant[ti] {
				x.o.Fail("", fmt.Sprintf("NewStream(%s) blocked with %d opened and peer MAX_STREAMS=%d", t[1], x.lcount[ti], x.grant[ti]))
			}
		default:
			x.obs = append(x.obs, "err")
		}
		x.drain()
	case t[0] == "pmax" && len(t) == 3:
		st, ti, ok := c21wType(t[1])
		v := vu.Atoi64(t[2])
		if !ok || v < 0 || v > 1<<60 {
			return bad()
		}
		x.tc.writeFrames(packetType1RTT, debugFrameMaxStreams{streamType: st, max: v})
		x.grant[ti] = max(x.grant[ti], v)
		x.drain()
	case t[0] == "ackall" && len(t) == 1:
		x.ackAll()
		x.drain()
	default:
		return bad()
	}
	if len(x.obs) == 0 {
		x.obs = append(x.obs, "-")
	}
	return op + " => " + strings.Join(x.obs, " ")
}
