//go:build verif

// C21 harness, tie "pair" (V-tie): a real client Conn and a real server Conn of package quic,
// connected by an in-memory packet network inside a testing/synctest bubble. Generated
// application scripts open streams on both sides, accept them, and close them one end at a
// time (so streams with only one direction finished exist). The frames each Conn puts on / takes
// off the wire are taken from its own qlog hook (packet_sent / packet_received with frame
// detail). Op lines are `<op> => <events>`, implementation result `ok`.
//
//	reset <bidi0> <uni0> <bidi1> <uni1>   Config.Max{Bidi,Uni}RemoteStreams of client (0) and server (1)
//	open <side> <b|u>                      NewStream / NewSendOnlyStream with an expired context (+ 1 byte, flushed)
//	accept <side>                          AcceptStream until none is pending
//	close <k> <side>                       that side's application closes its end of the k-th stream ever opened
//	settle <ms>                            let synthetic time pass
//
// Event tokens (in the order they happened): tm:<side>:<t>:<v> MAX_STREAMS sent by side,
// rm:<side>:<t>:<v> MAX_STREAMS received by side, x:<side>:<code> CONNECTION_CLOSE sent,
// ok:<side>:<t>:<num> / blocked:<side>:<t>, acc:<side>:<t>:<num>, closed:<opener>:<t>:<num> the accepting
// application has closed its end (earliest moment the stream can be completely finished there), tp:<side>:<bidi>:<uni> cfg:<side>:<bidi>:<uni> at reset.
package quic

import (
	"context"
	"fmt"
	"log/slog"
	"net/netip"
	"strings"
	"sync"
	"sync/atomic"
	"testing"
	"testing/synctest"
	"time"

	vu "golang.org/x/net/internal/verifutil"
)

func TestVerifC21Pair(t *testing.T) {
	vu.Run(vu.ConfigFromEnv(), c21pGen, c21pExec(t))
}

func c21pGen(r *vu.Rng, i int) []string {
	pool := []int64{0, 1, 1, 2, 2, 3, 4, 8, 9, 20, 100}
	ops := []string{fmt.Sprintf("reset %d %d %d %d", pool[r.Intn(len(pool))], pool[r.Intn(len(pool))], pool[r.Intn(len(pool))], pool[r.Intn(len(pool))])}
	n := r.Range(8, 60)
	opened := 0
	tn := []string{"b", "u"}
	for k := 0; k < n; k++ {
		switch x := r.Intn(100); {
		case x < 40:
			ops = append(ops, fmt.Sprintf("open %d %s", r.Intn(2), tn[r.Intn(2)]))
			opened++
		case x < 55:
			ops = append(ops, fmt.Sprintf("accept %d", r.Intn(2)))
		case x < 92:
			ops = append(ops, fmt.Sprintf("close %d %d", r.Intn(opened+1), r.Intn(2)))
		default:
			ops = append(ops, fmt.Sprintf("settle %d", []int{1, 30, 200}[r.Intn(3)]))
		}
	}
	return ops
}

type c21pWire struct {
	mu  sync.Mutex
	out [2][][]byte
}

type c21pPC struct {
	w      *c21pWire
	side   int
	addr   netip.AddrPort
	recvc  chan *datagram
	closed chan struct{}
	once   sync.Once
}

func (p *c21pPC) Close() error              { p.once.Do(func() { close(p.closed) }); return nil }
func (p *c21pPC) LocalAddr() netip.AddrPort { return p.addr }
func (p *c21pPC) Read(f func(*datagram)) {
	for {
		select {
		case d := <-p.recvc:
			f(d)
		case <-p.closed:
			return
		}
	}
}
func (p *c21pPC) Write(d datagram) error {
	p.w.mu.Lock()
	defer p.w.mu.Unlock()
	p.w.out[p.side] = append(p.w.out[p.side], append([]byte(nil), d.b...))
	return nil
}

type c21pLog struct {
	side int
	mu   *sync.Mutex
	buf  *[]string
}

func (h c21pLog) Enabled(context.Context, slog.Level) bool { return true }
func (h c21pLog) WithAttrs([]slog.Attr) slog.Handler       { return h }
func (h c21pLog) WithGroup(string) slog.Handler            { return h }
func (h c21pLog) Handle(_ context.Context, r slog.Record) error {
	var dir string
	switch r.Message {
	case "transport:packet_sent":
		dir = "t"
	case "transport:packet_received":
		dir = "r"
	default:
		return nil
	}
	r.Attrs(func(a slog.Attr) bool {
		if a.Key != "frames" {
			return true
		}
		vals, _ := a.Value.Any().([]slog.Value)
		for _, v := range vals {
			var line string
			switch f := v.Any().(type) {
			case debugFrameMaxStreams:
				line = fmt.Sprintf("%sm:%d:%s:%d", dir, h.side, c21wTNp[c21pTI(f.streamType)], f.max)
			case debugFrameConnectionCloseTransport:
				if dir == "t" {
					line = fmt.Sprintf("x:%d:%d", h.side, uint64(f.code))
				}
			}
			if line != "" {
				h.mu.Lock()
				*h.buf = append(*h.buf, line)
				h.mu.Unlock()
			}
		}
		return false
	})
	return nil
}

var c21wTNp = [2]string{"b", "u"}

func c21pTI(t streamType) int {
	if t == uniStream {
		return 1
	}
	return 0
}

type c21pStream struct {
	opener int
	ti     int
	num    int64
	h      [2]*Stream // application handles (opener's, acceptor's)
	closed [2]bool
	done   bool
}

type c21pCase struct {
	t       *testing.T
	o       *vu.Out
	wire    *c21pWire
	pcs     [2]*c21pPC
	eps     [2]*Endpoint
	conns   [2]*Conn
	addrs   [2]netip.AddrPort
	logMu   sync.Mutex
	logBuf  []string
	obs     []string
	streams []*c21pStream
	byID    map[[3]int64]*c21pStream
	adv     [2][2]int64 // oracle: [advertiser][type] last MAX_STREAMS sent (or transport parameter)
	grant   [2][2]int64 // oracle: [opener][type] largest MAX_STREAMS received (or transport parameter)
	cfg     [2][2]int64
	lcount  [2][2]int64
	ccount  [2][2]int64 // [advertiser][type] completely closed streams of the other side
	dead    bool
}

// pump delivers datagrams until the network is quiet, collecting qlog events.
func (x *c21pCase) pump() {
	for i := 0; i < 200; i++ {
		synctest.Wait()
		x.wire.mu.Lock()
		out := x.wire.out
		x.wire.out = [2][][]byte{}
		x.wire.mu.Unlock()
		if len(out[0])+len(out[1]) == 0 {
			break
		}
		for s := 0; s < 2; s++ {
			for _, b := range out[s] {
				d := newDatagram()
				d.b = d.b[:len(b)]
				copy(d.b, b)
				d.peerAddr = x.addrs[s]
				d.localAddr = x.addrs[1-s]
				select {
				case x.pcs[1-s].recvc <- d:
				case <-x.pcs[1-s].closed:
				}
			}
		}
	}
	x.logMu.Lock()
	evs := x.logBuf
	x.logBuf = nil
	x.logMu.Unlock()
	for _, e := range evs {
		x.obs = append(x.obs, e)
		var side int
		var tn string
		var v int64
		switch {
		case strings.HasPrefix(e, "tm:"):
			fmt.Sscanf(strings.ReplaceAll(e[3:], ":", " "), "%d %s %d", &side, &tn, &v)
			ti := strings.Index("bu", tn)
			// ---- oracle: MAX_STREAMS never decreases and never exceeds closed + configured
			if v < x.adv[side][ti] {
				x.o.Fail("", fmt.Sprintf("side %d sent MAX_STREAMS(%s)=%d after %d", side, tn, v, x.adv[side][ti]))
			}
			if v-x.ccount[side][ti] > x.cfg[side][ti] {
				x.o.Fail("", fmt.Sprintf("side %d sent MAX_STREAMS(%s)=%d with %d peer streams completely closed: the peer may hold %d streams, configured %d",
					side, tn, v, x.ccount[side][ti], v-x.ccount[side][ti], x.cfg[side][ti]))
			}
			x.adv[side][ti] = v
			x.o.Stat("pair:max-streams")
		case strings.HasPrefix(e, "rm:"):
			fmt.Sscanf(strings.ReplaceAll(e[3:], ":", " "), "%d %s %d", &side, &tn, &v)
			ti := strings.Index("bu", tn)
			x.grant[side][ti] = max(x.grant[side][ti], v)
		case strings.HasPrefix(e, "x:"):
			x.dead = true
			x.o.Fail("", "a compliant pair closed the connection with a transport error: "+e)
		}
	}
}

func c21pExec(t *testing.T) func(ops []string, o *vu.Out) {
	return func(ops []string, o *vu.Out) {
		clean := make([]string, len(ops))
		for i, op := range ops {
			if j := strings.Index(op, "=>"); j >= 0 {
				op = op[:j]
			}
			clean[i] = strings.TrimSpace(op)
		}
		var emitted atomic.Int64
		var abandoned atomic.Bool
		done := make(chan string, 1)
		go func() {
			finished := false
			defer func() {
				if e := recover(); e != nil || !finished {
					done <- fmt.Sprint("panic or t.Fatal inside the case: ", e)
				}
			}()
			synctest.Test(t, func(t *testing.T) {
				x := &c21pCase{t: t, o: o, byID: map[[3]int64]*c21pStream{}}
				defer x.shutdown()
				for _, op := range clean {
					if abandoned.Load() {
						return
					}
					line := x.step(op)
					o.Op(line, "ok")
					emitted.Add(1)
				}
			})
			finished = true
			done <- ""
		}()
		select {
		case msg := <-done:
			if msg != "" {
				o.Fail("", "case aborted: "+msg)
				for k := int(emitted.Load()); k < len(clean); k++ {
					o.Op(clean[k]+" => aborted", "aborted")
				}
			}
		case <-time.After(60 * time.Second):
			abandoned.Store(true)
			o.Fail("", "watchdog: case did not finish within 60 s of wall-clock time")
			for k := int(emitted.Load()); k < len(clean); k++ {
				o.Op(clean[k]+" => timeout", "timeout")
			}
		}
	}
}

func (x *c21pCase) shutdown() {
	for s := 0; s < 2; s++ {
		if x.conns[s] != nil {
			x.conns[s].exit()
		}
	}
	for s := 0; s < 2; s++ {
		if x.eps[s] != nil {
			x.eps[s].Close(canceledContext())
		}
	}
}

func (x *c21pCase) setup(cfg [2][2]int64) bool {
	x.wire = &c21pWire{}
	x.addrs = [2]netip.AddrPort{netip.MustParseAddrPort("10.0.0.1:4433"), netip.MustParseAddrPort("10.0.0.2:443")}
	var confs [2]*Config
	for s := 0; s < 2; s++ {
		side := clientSide
		if s == 1 {
			side = serverSide
		}
		x.pcs[s] = &c21pPC{w: x.wire, side: s, addr: x.addrs[s], recvc: make(chan *datagram), closed: make(chan struct{})}
		confs[s] = &Config{
			TLSConfig:            newTestTLSConfig(side),
			MaxBidiRemoteStreams: cfg[s][0],
			MaxUniRemoteStreams:  cfg[s][1],
			QLogLogger:           slog.New(c21pLog{side: s, mu: &x.logMu, buf: &x.logBuf}),
			HandshakeTimeout:     time.Hour,
			MaxIdleTimeout:       24 * time.Hour,
		}
		// 0 means "default" in Config; the script's 0 means "no streams"
		if cfg[s][0] == 0 {
			confs[s].MaxBidiRemoteStreams = -1
		}
		if cfg[s][1] == 0 {
			confs[s].MaxUniRemoteStreams = -1
		}
		var lc *Config
		if s == 1 {
			lc = confs[s]
		}
		e, err := newEndpoint(x.pcs[s], lc, nil)
		if err != nil {
			return false
		}
		x.eps[s] = e
	}
	type dialRes struct {
		c   *Conn
		err error
	}
	dialc := make(chan dialRes, 1)
	go func() {
		c, err := x.eps[0].Dial(context.Background(), "udp", x.addrs[1].String(), confs[0])
		dialc <- dialRes{c, err}
	}()
	for i := 0; i < 2000 && (x.conns[0] == nil || x.conns[1] == nil); i++ {
		x.pump()
		if x.conns[0] == nil {
			select {
			case dr := <-dialc:
				if dr.err != nil {
					return false
				}
				x.conns[0] = dr.c
			default:
			}
		}
		if x.conns[1] == nil {
			if c, err := x.eps[1].Accept(canceledContext()); err == nil {
				x.conns[1] = c
			}
		}
		if x.conns[0] == nil || x.conns[1] == nil {
			time.Sleep(time.Millisecond)
		}
	}
	if x.conns[0] == nil || x.conns[1] == nil {
		return false
	}
	time.Sleep(50 * time.Millisecond)
	x.pump()
	for s := 0; s < 2; s++ {
		c := x.conns[s]
		x.cfg[s] = [2]int64{c.config.maxBidiRemoteStreams(), c.config.maxUniRemoteStreams()}
	}
	return true
}

func (x *c21pCase) step(op string) string {
	t := strings.Fields(op)
	x.obs = x.obs[:0]
	bad := func() string { return op + " => bad-op" }
	if len(t) == 0 {
		return bad()
	}
	x.o.Stat("op:" + t[0])
	if t[0] == "reset" {
		if x.conns[0] != nil || len(t) != 5 {
			return bad()
		}
		var cfg [2][2]int64
		for k := 0; k < 4; k++ {
			v := vu.Atoi64(t[1+k])
			if v < 0 || v > 1<<60 {
				return bad()
			}
			cfg[k/2][k%2] = v
		}
		if !x.setup(cfg) {
			x.o.Fail("", "handshake of the pair did not complete")
			x.dead = true
			return op + " => dead"
		}
		x.obs = x.obs[:0] // MAX_STREAMS during the handshake do not occur; transport parameters carry the limits
		for s := 0; s < 2; s++ {
			// what side s advertised = what the other side was granted (transport parameters)
			tpb := x.conns[1-s].streams.localLimit[bidiStream].max
			tpu := x.conns[1-s].streams.localLimit[uniStream].max
			x.adv[s] = [2]int64{tpb, tpu}
			x.grant[1-s] = [2]int64{tpb, tpu}
			x.obs = append(x.obs, fmt.Sprintf("tp:%d:%d:%d", s, tpb, tpu), fmt.Sprintf("cfg:%d:%d:%d", s, x.cfg[s][0], x.cfg[s][1]))
			for k := 0; k < 2; k++ {
				if x.adv[s][k] > x.cfg[s][k] {
					x.o.Fail("", fmt.Sprintf("side %d advertised initial_max_streams(%s)=%d above its configuration %d", s, c21wTNp[k], x.adv[s][k], x.cfg[s][k]))
				}
			}
		}
		return op + " => " + strings.Join(x.obs, " ")
	}
	if x.conns[0] == nil || x.dead {
		return op + " => dead"
	}
	ctx, cancel := context.WithCancel(context.Background())
	cancel()
	switch {
	case t[0] == "open" && len(t) == 3 && (t[1] == "0" || t[1] == "1") && (t[2] == "b" || t[2] == "u"):
		s := int(t[1][0] - '0')
		ti := strings.Index("bu", t[2])
		st := bidiStream
		if ti == 1 {
			st = uniStream
		}
		str, err := x.conns[s].newLocalStream(ctx, st)
		switch {
		case err == nil:
			num := str.id.num()
			x.obs = append(x.obs, fmt.Sprintf("ok:%d:%s:%d", s, t[2], num))
			// ---- oracle: never open a stream at or beyond the peer's MAX_STREAMS
			if num >= x.grant[s][ti] {
				x.o.Fail("", fmt.Sprintf("side %d opened %s stream %d, largest MAX_STREAMS received %d", s, t[2], num, x.grant[s][ti]))
			}
			if num != x.lcount[s][ti] {
				x.o.Fail("", fmt.Sprintf("side %d opened %s stream number %d, expected %d", s, t[2], num, x.lcount[s][ti]))
			}
			x.lcount[s][ti]++
			str.SetReadContext(ctx)
			str.SetWriteContext(ctx)
			str.Write([]byte{1})
			str.Flush()
			ps := &c21pStream{opener: s, ti: ti, num: num}
			ps.h[0] = str
			x.streams = append(x.streams, ps)
			x.byID[[3]int64{int64(s), int64(ti), num}] = ps
			x.o.Stat("pair:open-ok")
		case err == context.Canceled:
			x.obs = append(x.obs, fmt.Sprintf("blocked:%d:%s", s, t[2]))
			if x.lcount[s][ti] < x.grant[s][ti] {
				x.o.Fail("", fmt.Sprintf("side %d NewStream(%s) blocked with %d opened and MAX_STREAMS %d received", s, t[2], x.lcount[s][ti], x.grant[s][ti]))
			}
			x.o.Stat("pair:open-blocked")
		default:
			x.obs = append(x.obs, "err")
		}
		x.pump()
	case t[0] == "accept" && len(t) == 2 && (t[1] == "0" || t[1] == "1"):
		a := int(t[1][0] - '0')
		for {
			str, err := x.conns[a].AcceptStream(ctx)
			if err != nil {
				break
			}
			str.SetReadContext(ctx)
			str.SetWriteContext(ctx)
			ti := c21pTI(str.id.streamType())
			num := str.id.num()
			x.obs = append(x.obs, fmt.Sprintf("acc:%d:%s:%d", a, c21wTNp[ti], num))
			if num >= x.adv[a][ti] {
				x.o.Fail("", fmt.Sprintf("side %d accepted %s stream %d at or beyond its advertised limit %d", a, c21wTNp[ti], num, x.adv[a][ti]))
			}
			if ps := x.byID[[3]int64{int64(1 - a), int64(ti), num}]; ps != nil {
				ps.h[1] = str
			}
			x.o.Stat("pair:accepted")
		}
		x.pump()
	case t[0] == "close" && len(t) == 3 && (t[2] == "0" || t[2] == "1"):
		k := vu.Atoi(t[1])
		e := int(t[2][0] - '0') // 0: the opener's end, 1: the acceptor's end
		if k < 0 {
			return bad()
		}
		if len(x.streams) == 0 {
			break
		}
		ps := x.streams[k%len(x.streams)]
		if ps.h[e] == nil || ps.closed[e] {
			break
		}
		ps.closed[e] = true
		if e == 1 && !ps.done {
			// the accepting application is done with the stream: from now on (and not earlier) the
			// acceptor's Conn may see both directions finish and retire it
			ps.done = true
			adv := 1 - ps.opener
			x.ccount[adv][ps.ti]++
			x.obs = append(x.obs, fmt.Sprintf("closed:%d:%s:%d", ps.opener, c21wTNp[ps.ti], ps.num))
			x.o.Stat("pair:closed")
		} else {
			x.o.Stat("pair:half-closed")
		}
		ps.h[e].Close()
		x.pump()
		time.Sleep(30 * time.Millisecond) // delayed ACKs
		x.pump()
	case t[0] == "settle" && len(t) == 2:
		ms := vu.Atoi(t[1])
		if ms < 0 || ms > 1000 {
			return bad()
		}
		time.Sleep(time.Duration(ms) * time.Millisecond)
		x.pump()
	default:
		return bad()
	}
	if len(x.obs) == 0 {
		x.obs = append(x.obs, "-")
	}
	return op + " => " + strings.Join(x.obs, " ")
}
