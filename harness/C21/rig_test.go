//go:build verif

// C21 harness: quic/stream_limits.go driven white-box (package quic test file).
//
// Two kinds of case:
//   local  : lreset, lopen, lsetmax <m>, lclose, lwas <n>        (localStreamLimits)
//   remote : rreset <b|u> <cfg>, ropen <num>, rclose, rsend      (remoteStreamLimits;
//            rreset goes through Config.max{Bidi,Uni}RemoteStreams, ropen through a real
//            streamID, rsend through appendFrame + packetWriter + consumeMaxStreamsFrame)
// Every result line carries the complete counter state, so the Lean model is compared
// field by field after every operation.
package quic

import (
	"context"
	"fmt"
	"strings"
	"testing"

	vu "golang.org/x/net/internal/verifutil"
)

func TestVerifC21(t *testing.T) {
	vu.Run(vu.ConfigFromEnv(), c21Gen, c21Exec)
}

var c21CfgPool = []int64{-5, -1, 0, 1, 2, 3, 7, 8, 9, 10, 16, 50, 99, 100, 101, 108, 150, 200, 1000,
	1<<60 - 1, 1 << 60, 1<<60 + 1, 1 << 62}

func c21Gen(r *vu.Rng, i int) []string {
	var ops []string
	n := r.Range(4, 70)
	if r.Chance(1, 3) {
		// localStreamLimits
		ops = append(ops, "lreset")
		max, opened := int64(0), int64(0) // generator-side guess, only used to aim at boundaries
		for k := 0; k < n; k++ {
			switch x := r.Intn(20); {
			case x < 9:
				ops = append(ops, "lopen")
				if opened < max {
					opened++
				}
			case x < 15:
				var m int64
				switch r.Intn(6) {
				case 0:
					m = max - int64(r.Intn(3)) // stale / duplicate MAX_STREAMS
				case 1:
					m = opened + int64(r.Intn(2))
				case 2:
					m = int64(r.Intn(12))
				case 3:
					m = 1 << 60
				default:
					m = max + int64(r.Range(1, 4))
				}
				if m < 0 {
					m = 0
				}
				if m > max {
					max = m
				}
				ops = append(ops, fmt.Sprintf("lsetmax %d", m))
			case x < 18:
				ops = append(ops, fmt.Sprintf("lwas %d", opened+int64(r.Range(-2, 2))))
			default:
				if r.Chance(1, 8) {
					ops = append(ops, "lclose")
				} else {
					ops = append(ops, "lopen")
				}
			}
		}
		return ops
	}
	// remoteStreamLimits: track an approximate state to aim at the boundaries
	cfg := c21CfgPool[r.Intn(len(c21CfgPool))]
	typ := "b"
	if r.Bool() {
		typ = "u"
	}
	ops = append(ops, fmt.Sprintf("rreset %s %d", typ, cfg))
	var sim remoteStreamLimits
	sim.init(configDefault(cfg, 100, int64(1)<<60))
	for k := 0; k < n; k++ {
		switch x := r.Intn(20); {
		case x < 10:
			var num int64
			switch r.Intn(8) {
			case 0:
				num = sim.max // exactly at the limit: must be rejected
			case 1:
				num = sim.max - 1 // last permitted
			case 2:
				num = sim.max + int64(r.Range(1, 200))
			case 3:
				num = sim.opened - int64(r.Range(1, 3)) // already open
			case 4:
				num = sim.opened + int64(r.Range(1, 12)) // implicit opens
			case 5:
				num = int64(r.Boundary(60))
			default:
				num = sim.opened
			}
			if num < 0 {
				num = 0
			}
			if num > 1<<60-1 {
				num = 1<<60 - 1
			}
			ops = append(ops, fmt.Sprintf("ropen %d", num))
			if num < sim.max && num >= sim.opened {
				sim.opened = num + 1
				sim.maybeUpdateMax()
			}
		case x < 17:
			ops = append(ops, "rclose")
			if sim.closed < sim.opened {
				sim.closed++
				sim.maybeUpdateMax()
			}
		default:
			ops = append(ops, "rsend")
		}
	}
	return ops
}

type c21State struct {
	loc       *localStreamLimits
	rem       *remoteStreamLimits
	styp      streamType
	lastFrame int64 // last MAX_STREAMS value put on the wire (or the transport-parameter value)
	pnum      packetNumber
	lOpened   int64 // oracle: successful local opens so far
}

func c21Exec(ops []string, o *vu.Out) {
	st := &c21State{}
	for _, op := range ops {
		o.Op(op, vu.Catch(func() string { return c21Step(st, op, o) }))
	}
}

func c21LocalState(l *localStreamLimits) string {
	set := l.gate.lock()
	l.gate.unlock(set)
	g := 0
	if set {
		g = 1
	}
	return fmt.Sprintf("max=%d opened=%d gate=%d", l.max, l.opened, g)
}

func c21RemoteState(l *remoteStreamLimits) string {
	u := 0
	if l.sendMax.shouldSend() {
		u = 1
	}
	return fmt.Sprintf("max=%d opened=%d closed=%d maxopen=%d unsent=%d", l.max, l.opened, l.closed, l.maxOpen, u)
}

func c21Step(st *c21State, op string, o *vu.Out) string {
	t := strings.Fields(op)
	if len(t) == 0 {
		return "bad-op"
	}
	o.Stat("op:" + t[0])
	switch {
	case t[0] == "lreset" && len(t) == 1:
		st.loc = &localStreamLimits{}
		st.loc.init()
		st.lOpened = 0
		return "ok " + c21LocalState(st.loc)
	case t[0][0] == 'l' && st.loc == nil:
		return "bad-op"
	case t[0] == "lopen" && len(t) == 1:
		l := st.loc
		preMax, preOpened := l.max, l.opened
		ctx, cancel := context.WithCancel(context.Background())
		cancel()
		num, err := l.open(ctx, nil)
		var res string
		switch {
		case err == nil:
			res = fmt.Sprintf("ok %d", num)
			o.Stat("lopen:ok")
			// ---- oracle: never open a stream at or beyond the peer's MAX_STREAMS
			if num >= preMax {
				o.Fail("", fmt.Sprintf("local open returned stream number %d with MAX_STREAMS=%d", num, preMax))
			}
			if num != st.lOpened {
				o.Fail("", fmt.Sprintf("local open returned number %d, want consecutive %d", num, st.lOpened))
			}
			st.lOpened++
		case err == errConnClosed:
			res = "err closed"
			o.Stat("lopen:closed")
			if preOpened >= 0 {
				o.Fail("", "local open reported errConnClosed on a live conn")
			}
		case err == context.Canceled:
			res = "err blocked"
			o.Stat("lopen:blocked")
			// ---- oracle: blocks iff opened >= max
			if preOpened < preMax {
				o.Fail("", fmt.Sprintf("local open blocked with opened=%d < max=%d", preOpened, preMax))
			}
		default:
			res = "err other"
		}
		if err == nil && preOpened >= preMax {
			o.Fail("", fmt.Sprintf("local open succeeded with opened=%d >= max=%d", preOpened, preMax))
		}
		return res + " " + c21LocalState(l)
	case t[0] == "lsetmax" && len(t) == 2:
		l := st.loc
		pre := l.max
		m := vu.Atoi64(t[1])
		l.setMax(m)
		if l.max < pre || l.max < m {
			o.Fail("", fmt.Sprintf("setMax(%d): max went %d -> %d", m, pre, l.max))
		}
		return "ok " + c21LocalState(l)
	case t[0] == "lclose" && len(t) == 1:
		st.loc.connHasClosed()
		return "ok " + c21LocalState(st.loc)
	case t[0] == "lwas" && len(t) == 2:
		n := vu.Atoi64(t[1])
		w := st.loc.wasOpened(n)
		if st.loc.opened >= 0 && w != (n < st.lOpened) {
			o.Fail("", fmt.Sprintf("wasOpened(%d)=%v after %d opens", n, w, st.lOpened))
		}
		return fmt.Sprintf("ok %v %s", w, c21LocalState(st.loc))

	case t[0] == "rreset" && len(t) == 3 && (t[1] == "b" || t[1] == "u"):
		cfg := &Config{}
		v := vu.Atoi64(t[2])
		var maxOpen int64
		if t[1] == "b" {
			st.styp = bidiStream
			cfg.MaxBidiRemoteStreams = v
			maxOpen = cfg.maxBidiRemoteStreams()
		} else {
			st.styp = uniStream
			cfg.MaxUniRemoteStreams = v
			maxOpen = cfg.maxUniRemoteStreams()
		}
		st.rem = &remoteStreamLimits{}
		st.rem.init(maxOpen)
		st.lastFrame = st.rem.max // initial_max_streams_* transport parameter
		st.pnum = 0
		c21RemoteOracle(st, o, st.rem.max, "rreset")
		return "ok " + c21RemoteState(st.rem)
	case t[0][0] == 'r' && st.rem == nil:
		return "bad-op"
	case t[0] == "ropen" && len(t) == 2:
		l := st.rem
		num := vu.Atoi64(t[1])
		if num < 0 || num >= 1<<60 {
			return "bad-op"
		}
		preMax := l.max
		preUnsent := l.sendMax.shouldSend()
		id := newStreamID(clientSide, st.styp, num)
		err := l.open(id)
		res := "ok"
		if err != nil {
			res = "err other"
			if te, ok := err.(localTransportError); ok && te.code == errStreamLimit {
				res = "err limit"
			}
			o.Stat("ropen:limit")
		} else {
			o.Stat("ropen:ok")
		}
		// ---- oracle: STREAM_LIMIT_ERROR iff the stream number is at or beyond the advertised limit
		if (res == "err limit") != (num >= preMax) || res == "err other" {
			o.Fail("", fmt.Sprintf("remote open(num=%d) with advertised max=%d gave %q", num, preMax, res))
		}
		// ---- literal reading: "beyond the ADVERTISED limit" = beyond the last value actually sent.
		// lim.max is raised by maybeUpdateMax before the MAX_STREAMS frame is written, so in that
		// window a stream number in [last sent, lim.max) is accepted (known finding, narrow sig).
		if err == nil && num >= st.lastFrame {
			if preUnsent && num < preMax {
				o.Fail("accepts-beyond-unsent-limit", fmt.Sprintf("remote open(num=%d) accepted: the last MAX_STREAMS value sent to the peer is %d (lim.max=%d is still waiting to be sent)", num, st.lastFrame, preMax))
				o.Stat("ropen:beyond-unsent-limit")
			} else {
				o.Fail("", fmt.Sprintf("remote open(num=%d) accepted beyond the sent limit %d with nothing pending (lim.max=%d)", num, st.lastFrame, preMax))
			}
		}
		c21RemoteOracle(st, o, preMax, op)
		return res + " " + c21RemoteState(l)
	case t[0] == "rclose" && len(t) == 1:
		l := st.rem
		if l.closed >= l.opened {
			return "skip " + c21RemoteState(l) // the conn only closes streams that exist
		}
		preMax := l.max
		l.close()
		c21RemoteOracle(st, o, preMax, op)
		return "ok " + c21RemoteState(l)
	case t[0] == "rsend" && len(t) == 1:
		l := st.rem
		var w packetWriter
		w.reset(1200)
		w.start1RTTPacket(st.pnum, -1, []byte{1, 2, 3, 4})
		done := l.appendFrame(&w, st.styp, st.pnum, false)
		st.pnum++
		pay := w.payload()
		res := "ok none"
		if len(pay) > 0 {
			typ, v, n := consumeMaxStreamsFrame(pay)
			if n != len(pay) || typ != st.styp {
				o.Fail("", fmt.Sprintf("appendFrame wrote an unparsable MAX_STREAMS frame %x", pay))
				return "err frame"
			}
			res = fmt.Sprintf("ok frame %d", v)
			o.Stat("rsend:frame")
			// ---- oracle: MAX_STREAMS values on the wire never decrease and are the current limit
			if v < st.lastFrame {
				o.Fail("", fmt.Sprintf("MAX_STREAMS on the wire decreased: %d after %d", v, st.lastFrame))
			}
			if v != l.max {
				o.Fail("", fmt.Sprintf("MAX_STREAMS frame carries %d, limit is %d", v, l.max))
			}
			st.lastFrame = v
		}
		if !done {
			return "err nofit"
		}
		return res + " " + c21RemoteState(l)
	}
	return "bad-op"
}

// c21RemoteOracle states the C21 invariants on the real counters after an operation.
func c21RemoteOracle(st *c21State, o *vu.Out, preMax int64, op string) {
	l := st.rem
	if l.max < preMax {
		o.Fail("", fmt.Sprintf("%s: advertised limit decreased %d -> %d", op, preMax, l.max))
	}
	if l.opened > l.max {
		o.Fail("", fmt.Sprintf("%s: opened=%d beyond advertised max=%d", op, l.opened, l.max))
	}
	if l.opened-l.closed > l.maxOpen {
		o.Fail("", fmt.Sprintf("%s: peer holds %d open streams, configured maximum %d", op, l.opened-l.closed, l.maxOpen))
	}
	if l.max > l.closed+l.maxOpen {
		o.Fail("", fmt.Sprintf("%s: advertised max=%d lets the peer exceed maxOpen=%d (closed=%d)", op, l.max, l.maxOpen, l.closed))
	}
	if l.max-l.opened > implicitStreamLimit {
		o.Fail("", fmt.Sprintf("%s: a single frame may implicitly open %d streams", op, l.max-l.opened))
	}
}
