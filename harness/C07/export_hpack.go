//go:build verif

package hpack

// VerifCloneDecoder returns an independent deep copy of d's decoding state
// (dynamic table, partially buffered representation, flags) with a no-op
// emit function. Used by the C07 harness to observe, on copies, what the
// decoder owned by a Framer does with the header block fragments of one
// ReadFrame call.
func VerifCloneDecoder(d *Decoder) *Decoder {
	c := &Decoder{
		emit:        func(HeaderField) {},
		emitEnabled: d.emitEnabled,
		maxStrLen:   d.maxStrLen,
		firstField:  d.firstField,
	}
	c.dynTab.size = d.dynTab.size
	c.dynTab.maxSize = d.dynTab.maxSize
	c.dynTab.allowedMaxSize = d.dynTab.allowedMaxSize
	c.dynTab.table.ents = append([]HeaderField(nil), d.dynTab.table.ents...)
	c.dynTab.table.evictCount = d.dynTab.table.evictCount
	c.dynTab.table.byName = make(map[string]uint64, len(d.dynTab.table.byName))
	for k, v := range d.dynTab.table.byName {
		c.dynTab.table.byName[k] = v
	}
	c.dynTab.table.byNameValue = make(map[pairNameValue]uint64, len(d.dynTab.table.byNameValue))
	for k, v := range d.dynTab.table.byNameValue {
		c.dynTab.table.byNameValue[k] = v
	}
	c.saveBuf.Write(d.saveBuf.Bytes())
	return c
}
