//go:build verif

package http2

// VerifHeaderFragment runs the package's own HEADERS / CONTINUATION payload
// parser on one raw frame and returns the header block fragment it yields.
func VerifHeaderFragment(fh FrameHeader, payload []byte) (frag []byte, ok bool) {
	fh.valid = true
	switch fh.Type {
	case FrameHeaders:
		f, err := parseHeadersFrame(nil, fh, func(string) {}, payload)
		if err != nil {
			return nil, false
		}
		return f.(*HeadersFrame).headerFragBuf, true
	case FrameContinuation:
		f, err := parseContinuationFrame(nil, fh, func(string) {}, payload)
		if err != nil {
			return nil, false
		}
		return f.(*ContinuationFrame).headerFragBuf, true
	}
	return nil, false
}

// VerifMaxHeaderStringLen is what readMetaFrame passes to hpack's SetMaxStringLength.
func VerifMaxHeaderStringLen(fr *Framer) int { return fr.maxHeaderStringLen() }
