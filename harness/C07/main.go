//go:build verif

// C07 harness: Framer.ReadFrame on arbitrary / mutated byte streams, with a
// random SetMaxReadFrameSize, with and without ReadMetaHeaders.
//
//	reset <maxRead> <meta> <maxHeaderListSize> <stream>   -> ok
//	read [c=<closeErr> d=<e><a>:<name>.<value>,... ...]    -> one ReadFrame call
//
// In ReadMetaHeaders mode exec appends to the recorded `read` op the abstract
// outcome of the HPACK decoder for each header block fragment consumed by the
// call (observed on clones of the Framer's decoder, see hpackAux); the model
// takes these as input. On replay the tokens are recomputed.
package main

import (
	"bytes"
	"encoding/hex"
	"fmt"
	"io"
	"strconv"
	"strings"

	"golang.org/x/net/http2"
	"golang.org/x/net/http2/hpack"
	vu "golang.org/x/net/internal/verifutil"
)

// ---------------------------------------------------------------- generator

var maxReadPool = []uint32{0, 1, 4, 5, 8, 9, 16, 17, 64, 100, 1000, 16384, 16385, 1<<24 - 2, 1<<24 - 1, 1 << 24, 1<<24 + 5, 1<<32 - 1}
var mhlsPool = []uint32{0, 0, 1, 31, 32, 33, 34, 40, 64, 70, 100, 128, 200, 400, 1000, 65536, 1<<31 - 1, 1 << 31, 1<<31 + 3, 1<<32 - 1}

var reqPseudo = []hpack.HeaderField{{Name: ":method", Value: "GET"}, {Name: ":path", Value: "/"}, {Name: ":scheme", Value: "https"},
	{Name: ":authority", Value: "example.com"}, {Name: ":protocol", Value: "websocket"}, {Name: ":method", Value: "POST"}, {Name: ":path", Value: "/index.html"}}
var respPseudo = []hpack.HeaderField{{Name: ":status", Value: "200"}, {Name: ":status", Value: "404"}}
var oddNames = []string{":foo", ":", "", "Upper", "a b", "x\x80", "caf\xc3\xa9", "a:b", "x-\x7f", "ok-name", ":status", ":method", "host\x00"}
var goodNames = []string{"content-type", "x-a", "accept", "cookie", "user-agent", "priority", "via", "a", "x-custom-header-name", "0", "!#$%&'*+-.^_`|~"}
var oddValues = []string{"a\x00b", "\r\n", "\x7f", "v\tx", " ", "\x1f", "caf\xc3\xa9", "\xff\xfe"}

func genField(r *vu.Rng) hpack.HeaderField {
	var f hpack.HeaderField
	switch r.Intn(10) {
	case 0:
		f = reqPseudo[r.Intn(len(reqPseudo))]
	case 1:
		f = respPseudo[r.Intn(len(respPseudo))]
	case 2:
		f.Name = oddNames[r.Intn(len(oddNames))]
	case 4:
		// a multi-byte UTF-8 rune (2, 3, 4 bytes; also Latin-1, overlong and surrogate forms) inside an
		// otherwise valid name; many have a low byte that is a token character (U+0161 -> 'a'), so a
		// rune-vs-byte confusion in the token check would let them through
		runes := []string{"\u0161", "\u012d", "\u017a", "\u0130", "\u2461", "\u212a", "\uff41", "\U00010061", "\U0001f600",
			"\u00e9", "\u00ff", "\u0100", "\u07ff", "\u0800", "\uffff", "\U0010ffff", "\xc1\xa1", "\xed\xa0\x80", "\xf8\x88\x80\x80\x80"}
		ru := runes[r.Intn(len(runes))]
		if r.Chance(1, 3) { // any rune whose low byte is a lower-case letter or digit
			lo := "abcxyz019-_"[r.Intn(11)]
			ru = string(rune(0x100*(1+r.Intn(0x10ff)) + int(lo)))
		}
		b := string(r.BytesFrom("abcxyz019-_", r.Intn(4)))
		k := r.Intn(len(b) + 1)
		f.Name = b[:k] + ru + b[k:]
	case 3:
		// every byte class boundary of the token table: a mostly valid name with one arbitrary byte
		b := r.BytesFrom("abcxyz019-_", 1+r.Intn(4))
		c := byte(0x20 + r.Intn(0x60))
		if r.Chance(1, 4) {
			pool := "@AZ[`az{/09:~\x7f\x80\xff\x00\x1f !\"(),;<=>?\\]}|^"
			c = pool[r.Intn(len(pool))]
		}
		b[r.Intn(len(b))] = c
		f.Name = string(b)
	default:
		f.Name = goodNames[r.Intn(len(goodNames))]
	}
	if f.Value == "" || r.Chance(1, 4) {
		switch r.Intn(8) {
		case 0:
			f.Value = oddValues[r.Intn(len(oddValues))]
		case 3:
			// one arbitrary byte (incl. the CTL / LWS / DEL boundaries) in an otherwise plain value
			b := r.BytesFrom("abc 123", 1+r.Intn(5))
			c := byte(r.Intn(256))
			if r.Bool() {
				pool := "\x00\x08\x09\x0a\x0d\x1f\x20\x21\x7e\x7f\x80\xff"
				c = pool[r.Intn(len(pool))]
			}
			b[r.Intn(len(b))] = c
			f.Value = string(b)
		case 1:
			f.Value = ""
		case 2:
			f.Value = string(r.BytesFrom("abcdefghij0123456789 /=;", r.Intn(300)))
		default:
			f.Value = string(r.BytesFrom("abcdefghijklmnopqrstuvwxyz0123456789-/.", r.Intn(24)))
		}
	}
	f.Sensitive = r.Chance(1, 8)
	return f
}

// genBlockFields: mostly a well-formed request or response header list, sometimes anything.
func genBlockFields(r *vu.Rng) []hpack.HeaderField {
	var fs []hpack.HeaderField
	switch r.Intn(6) {
	case 0:
		for n := r.Intn(6); n > 0; n-- {
			fs = append(fs, genField(r))
		}
		return fs
	case 1:
		fs = append(fs, respPseudo[r.Intn(len(respPseudo))])
	default:
		perm := []int{0, 1, 2, 3}
		for i := range perm {
			j := i + r.Intn(len(perm)-i)
			perm[i], perm[j] = perm[j], perm[i]
		}
		for _, k := range perm[:1+r.Intn(4)] {
			fs = append(fs, reqPseudo[k])
		}
	}
	for n := r.Intn(5); n > 0; n-- {
		f := genField(r)
		if r.Chance(5, 6) {
			f.Name = goodNames[r.Intn(len(goodNames))]
		}
		fs = append(fs, f)
	}
	if r.Chance(1, 12) && len(fs) > 1 { // misplace one field
		i, j := r.Intn(len(fs)), r.Intn(len(fs))
		fs[i], fs[j] = fs[j], fs[i]
	}
	if r.Chance(1, 12) && len(fs) > 0 { // duplicate one
		fs = append(fs[:1], fs...)
	}
	return fs
}

// craftedBlock concatenates hand-written HPACK representations chosen to exercise the
// interplay of the emit callback (invalid / truncated => emission disabled) with decoder
// errors that do or do not depend on emission being enabled.
func craftedBlock(r *vu.Rng) []byte {
	parts := [][]byte{
		{0x00, 0x01, 0x41, 0x01, 0x61},       // "A": "a"  (invalid name) literal, not indexed
		{0x00, 0x01, 0x62, 0x82, 0xff, 0xff}, // "b": invalid Huffman, not indexed: error only while emitting
		{0x10, 0x01, 0x62, 0x81, 0x00},       // never-indexed, Huffman value with bad padding: same
		{0x40, 0x01, 0x66, 0x82, 0xff, 0xff}, // incremental indexing + invalid Huffman: always an error
		{0x80},                               // index 0: always an error
		{0xff, 0xff, 0xff, 0xff, 0xff, 0xff, 0xff, 0xff, 0xff, 0xff, 0xff, 0x7f}, // varint overflow
		{0x00, 0x01, 0x63, 0x01, 0x64},       // "c": "d"
		{0x82},                               // :method GET
		{0x88},                               // :status 200
		{0x40, 0x01, 0x67, 0x01, 0x68},       // "g": "h" indexed
		{0xbe},                               // first dynamic entry
		{0x00, 0x01, 0x61, 0x02, 0x61, 0x00}, // "a": "a\x00" invalid value
		{0x3f, 0xe1, 0x1f},                   // dynamic table size update (4096): an error unless first
		{0x00, 0x01, 0x3a, 0x00},             // ":": "" unknown pseudo
	}
	big := append([]byte{0x00, 0x01, 0x65, 0x7f, 0x00}, bytes.Repeat([]byte{'x'}, 127)...) // "e": 127 x
	parts = append(parts, big)
	var b []byte
	for n := 1 + r.Intn(5); n > 0; n-- {
		b = append(b, parts[r.Intn(len(parts))]...)
	}
	return b
}

type sess struct {
	buf bytes.Buffer
	fr  *http2.Framer
	enc *hpack.Encoder
	hb  bytes.Buffer
	n   int // frames written
	// cumulative HeaderField sizes (RFC 7541 §4.1) after each field of each header block written
	sums []uint32
}

func newSess() *sess {
	s := &sess{}
	s.fr = http2.NewFramer(&s.buf, nil)
	s.fr.AllowIllegalWrites = true
	s.enc = hpack.NewEncoder(&s.hb)
	return s
}

func genStreamID(r *vu.Rng) uint32 {
	switch r.Intn(8) {
	case 0:
		return 0
	case 1:
		return 0x7fffffff
	case 2:
		return uint32(r.Uint64()) // reserved bit possibly set
	default:
		return uint32(1 + r.Intn(9))
	}
}

// headerBlock writes HEADERS (+CONTINUATIONs) for an encoded field list, split at random points.
func (s *sess) headerBlock(r *vu.Rng) {
	s.hb.Reset()
	var sum uint32
	for _, f := range genBlockFields(r) {
		s.enc.WriteField(f)
		sum += uint32(len(f.Name) + len(f.Value) + 32)
		s.sums = append(s.sums, sum)
	}
	block := append([]byte{}, s.hb.Bytes()...)
	if r.Chance(1, 7) {
		block = craftedBlock(r)
	}
	if r.Chance(1, 6) && len(block) > 0 { // corrupt the HPACK block
		switch r.Intn(3) {
		case 0:
			block[r.Intn(len(block))] ^= byte(1 << uint(r.Intn(8)))
		case 1:
			block = block[:r.Intn(len(block))]
		default:
			block = append(block, r.Bytes(1+r.Intn(3))...)
		}
	}
	sid := genStreamID(r)
	if r.Chance(3, 4) && sid == 0 {
		sid = 1
	}
	nfrag := 1
	if r.Chance(1, 2) {
		nfrag = 2 + r.Intn(3)
	}
	cuts := []int{0}
	for i := 1; i < nfrag; i++ {
		cuts = append(cuts, r.Intn(len(block)+1))
	}
	cuts = append(cuts, len(block))
	for i := 1; i < len(cuts); i++ { // sort
		for j := i; j > 0 && cuts[j] < cuts[j-1]; j-- {
			cuts[j], cuts[j-1] = cuts[j-1], cuts[j]
		}
	}
	endHeadersAtLast := !r.Chance(1, 12)
	for i := 0; i < nfrag; i++ {
		frag := block[cuts[i]:cuts[i+1]]
		last := i == nfrag-1
		eh := last && endHeadersAtLast
		if !last && r.Chance(1, 30) {
			eh = true // END_HEADERS too early
		}
		if i == 0 {
			p := http2.HeadersFrameParam{StreamID: sid, BlockFragment: frag, EndStream: r.Bool(), EndHeaders: eh}
			if r.Chance(1, 3) {
				p.PadLength = uint8(r.Intn(256))
				if r.Bool() {
					p.PadLength = uint8(r.Intn(4))
				}
			}
			if r.Chance(1, 3) {
				p.Priority = http2.PriorityParam{StreamDep: genStreamID(r), Exclusive: r.Bool(), Weight: uint8(r.Intn(256))}
			}
			s.fr.WriteHeaders(p)
		} else {
			csid := sid
			if r.Chance(1, 25) {
				csid = genStreamID(r)
			}
			s.fr.WriteContinuation(csid, eh, frag)
		}
		s.n++
		if !last && r.Chance(1, 20) { // something interleaved inside the header block
			s.otherFrame(r)
		}
	}
}

func (s *sess) otherFrame(r *vu.Rng) {
	sid := genStreamID(r)
	s.n++
	switch r.Intn(14) {
	case 0, 1:
		var pad []byte
		if r.Bool() {
			pad = make([]byte, r.Intn(20))
		}
		s.fr.WriteDataPadded(sid, r.Bool(), r.Bytes(r.Intn(40)), pad)
	case 2:
		s.fr.WritePriority(sid, http2.PriorityParam{StreamDep: genStreamID(r), Exclusive: r.Bool(), Weight: uint8(r.Intn(256))})
	case 3:
		s.fr.WriteRSTStream(sid, http2.ErrCode(r.Intn(16)))
	case 4:
		var ss []http2.Setting
		for n := r.Intn(4); n > 0; n-- {
			ss = append(ss, http2.Setting{ID: http2.SettingID(r.Intn(10)), Val: uint32(r.Boundary(32))})
		}
		s.fr.WriteSettings(ss...)
	case 5:
		s.fr.WriteSettingsAck()
	case 6:
		var d [8]byte
		copy(d[:], r.Bytes(8))
		s.fr.WritePing(r.Bool(), d)
	case 7:
		s.fr.WriteGoAway(genStreamID(r), http2.ErrCode(r.Intn(16)), r.Bytes(r.Intn(10)))
	case 8:
		s.fr.WriteWindowUpdate(sid, uint32(r.Boundary(32)))
	case 9:
		s.fr.WriteContinuation(sid, r.Bool(), r.Bytes(r.Intn(10)))
	case 10:
		s.fr.WritePushPromise(http2.PushPromiseParam{StreamID: sid, PromiseID: genStreamID(r), BlockFragment: r.Bytes(r.Intn(10)),
			EndHeaders: r.Bool(), PadLength: uint8(r.Intn(3) * r.Intn(100))})
	case 11:
		s.fr.WritePriorityUpdate(genStreamID(r), "u=3")
	default:
		// raw frame: any type/flags, payload length near the per-type fixed sizes
		t := []int{0, 1, 2, 3, 4, 5, 6, 7, 8, 9, 10, 16, 17, 255}[r.Intn(14)]
		n := []int{0, 1, 3, 4, 5, 6, 7, 8, 9, 12, 13}[r.Intn(11)]
		s.fr.WriteRawFrame(http2.FrameType(t), http2.Flags(r.Intn(256)), sid, r.Bytes(n))
	}
}

func mutate(r *vu.Rng, b []byte) []byte {
	if len(b) == 0 {
		return b
	}
	switch r.Intn(6) {
	case 0: // bit flips
		for n := 1 + r.Intn(3); n > 0; n-- {
			b[r.Intn(len(b))] ^= byte(1 << uint(r.Intn(8)))
		}
	case 1: // truncate
		b = b[:r.Intn(len(b))]
	case 2: // length field ±1 of the first frame / some byte ±1
		i := 2
		if r.Bool() {
			i = r.Intn(len(b))
		}
		if i < len(b) {
			if r.Bool() {
				b[i]++
			} else {
				b[i]--
			}
		}
	case 3: // drop a byte
		i := r.Intn(len(b))
		b = append(b[:i:i], b[i+1:]...)
	case 4: // insert bytes
		i := r.Intn(len(b) + 1)
		b = append(b[:i:i], append(r.Bytes(1+r.Intn(9)), b[i:]...)...)
	default: // overwrite a header-ish window
		i := r.Intn(len(b))
		copy(b[i:], r.Bytes(r.Intn(9)))
	}
	return b
}

func gen(r *vu.Rng, i int) []string {
	var stream []byte
	var sums []uint32
	nreads := 3
	switch k := r.Intn(10); {
	case k == 0: // unstructured bytes with a plausible first header
		stream = r.Bytes(r.Intn(60))
		if len(stream) >= 9 && r.Chance(3, 4) {
			stream[0], stream[1] = 0, 0
			stream[2] = byte(r.Intn(20))
			stream[3] = byte(r.Intn(11))
		}
	default:
		s := newSess()
		for n := 1 + r.Intn(5); n > 0; n-- {
			if r.Chance(1, 2) {
				s.headerBlock(r)
			} else {
				s.otherFrame(r)
			}
		}
		stream = append([]byte{}, s.buf.Bytes()...)
		if k <= 3 {
			stream = mutate(r, stream)
		}
		if k == 4 && r.Bool() {
			stream = append([]byte("HTTP/1.1 400 Bad Request\r\n\r\n"), stream...)
		}
		nreads = s.n + 2
		sums = s.sums
	}
	// read limit: mostly generous; otherwise around the largest frame of the stream, or a boundary value
	// (a generous limit is usually 2^16: the Framer allocates Length bytes per frame, and 16 MiB
	// buffers for garbage length fields only cost time)
	maxRead := uint32(1 << 16)
	if r.Chance(1, 150) {
		maxRead = 1<<24 - 1
	}
	switch r.Intn(8) {
	case 0:
		if r.Chance(1, 6) {
			maxRead = maxReadPool[r.Intn(len(maxReadPool))]
		} else {
			maxRead = maxReadPool[r.Intn(12)]
		}
	case 1, 2:
		var big uint32
		for _, rf := range splitFrames(stream) {
			if rf.fh.Length > big && rf.fh.Length < 1<<16 {
				big = rf.fh.Length
			}
		}
		maxRead = big + uint32(r.Intn(3)) // big, big+1, big+2 ...
		if maxRead > 0 {
			maxRead-- // ... shifted to big-1, big, big+1 (0 stays 0)
		}
	case 3:
		maxRead = uint32(r.Intn(64))
	}
	meta := r.Chance(3, 5)
	mhls := uint32(0)
	if r.Chance(2, 3) {
		mhls = mhlsPool[r.Intn(len(mhlsPool))]
	} else if r.Bool() {
		mhls = uint32(r.Intn(500))
	}
	if len(sums) > 0 && r.Chance(1, 3) {
		// exact boundary: the limit is the header list size up to some field, or one off
		mhls = sums[r.Intn(len(sums))] + uint32(r.Intn(3)) - 1
		if mhls == 0 {
			mhls = 1 // 0 means "default"
		}
		meta = meta || r.Chance(2, 3)
	}
	ops := []string{fmt.Sprintf("reset %d %s %d %s", maxRead, b01(meta), mhls, vu.Hex(stream))}
	for j := 0; j < nreads; j++ {
		ops = append(ops, "read")
	}
	return ops
}

// ---------------------------------------------------------------- executor

type logReader struct {
	data []byte
	pos  int
}

func (l *logReader) Read(p []byte) (int, error) {
	if l.pos >= len(l.data) {
		return 0, io.EOF
	}
	n := copy(p, l.data[l.pos:])
	l.pos += n
	return n, nil
}

type rawFrame struct {
	fh       http2.FrameHeader
	payload  []byte
	complete bool
}

// splitFrames walks the bytes one ReadFrame call consumed.
func splitFrames(b []byte) []rawFrame {
	var out []rawFrame
	for len(b) >= 9 {
		fh, err := http2.ReadFrameHeader(bytes.NewReader(b[:9]))
		if err != nil {
			break
		}
		b = b[9:]
		if uint32(len(b)) < fh.Length {
			out = append(out, rawFrame{fh: fh, payload: b})
			return out
		}
		out = append(out, rawFrame{fh: fh, payload: b[:fh.Length], complete: true})
		b = b[fh.Length:]
	}
	return out
}

type state struct {
	fr      *http2.Framer
	rd      *logReader
	meta    bool
	maxRead uint32
	mhls    uint32
	// oracle state
	dead    bool
	pending uint32
}

func fieldTok(f hpack.HeaderField) string {
	return hex.EncodeToString([]byte(f.Name)) + "." + hex.EncodeToString([]byte(f.Value))
}

// hpackAux observes, on two clones of the Framer's decoder taken before the call, what
// hpack does with the fragments the call consumed: s1 with emission always enabled (fields,
// first error), s2 with emission always disabled (errors that do not depend on emission).
func hpackAux(s1, s2 *hpack.Decoder, frames []rawFrame, o *vu.Out) (aux string, all []hpack.HeaderField, s1ok bool) {
	var toks []string
	closeErr := false
	var cur []hpack.HeaderField
	s1.SetEmitEnabled(true)
	s1.SetEmitFunc(func(f hpack.HeaderField) { cur = append(cur, f) })
	s2.SetEmitEnabled(false)
	s1dead, s2dead := false, false
	ended := false
	for i, rf := range frames {
		if !rf.complete || (i == 0) != (rf.fh.Type == http2.FrameHeaders) {
			break
		}
		frag, ok := http2.VerifHeaderFragment(rf.fh, rf.payload)
		if !ok {
			break
		}
		cur = nil
		e, a := false, false
		if !s1dead {
			if _, err := s1.Write(frag); err != nil {
				e, s1dead = true, true
			}
		}
		if !s2dead {
			if _, err := s2.Write(frag); err != nil {
				a, s2dead = true, true
			}
		}
		var fts []string
		for _, f := range cur {
			fts = append(fts, fieldTok(f))
		}
		all = append(all, cur...)
		toks = append(toks, "d="+b01(e)+b01(a)+":"+strings.Join(fts, ","))
		o.Stat("aux:errEnabled=" + b01(e) + ",errAlways=" + b01(a))
		if rf.fh.Flags.Has(http2.FlagHeadersEndHeaders) {
			ended = true
			break
		}
	}
	if ended && !s2dead {
		closeErr = s2.Close() != nil
		if closeErr {
			o.Stat("aux:closeErr")
		}
	}
	return strings.TrimSpace("c=" + b01(closeErr) + " " + strings.Join(toks, " ")), all, ended && !s1dead
}

func exec(ops []string, o *vu.Out) {
	var st *state
	for _, op := range ops {
		t := strings.Fields(op)
		switch {
		case len(t) == 5 && t[0] == "reset":
			maxRead, err1 := strconv.ParseUint(t[1], 10, 32)
			mhls, err2 := strconv.ParseUint(t[3], 10, 32)
			stream, ok := parsePayloadTok(t[4])
			if err1 != nil || err2 != nil || !ok || (t[2] != "0" && t[2] != "1") {
				o.Op(op, "bad-op")
				continue
			}
			st = &state{rd: &logReader{data: stream}, meta: t[2] == "1", maxRead: uint32(maxRead), mhls: uint32(mhls)}
			st.fr = http2.NewFramer(nil, st.rd)
			st.fr.SetMaxReadFrameSize(uint32(maxRead))
			if st.maxRead > 1<<24-1 {
				st.maxRead = 1<<24 - 1
			}
			if st.meta {
				st.fr.ReadMetaHeaders = hpack.NewDecoder(4096, nil)
				st.fr.MaxHeaderListSize = uint32(mhls)
			}
			o.Stat("reset:meta=" + t[2])
			o.Op(op, "ok")
		case len(t) >= 1 && t[0] == "read" && st != nil:
			recorded, res := execRead(st, o)
			o.Op(recorded, res)
		default:
			o.Op(op, "bad-op")
		}
	}
}

func execRead(st *state, o *vu.Out) (string, string) {
	var s1, s2 *hpack.Decoder
	if st.meta {
		s1 = hpack.VerifCloneDecoder(st.fr.ReadMetaHeaders)
		s2 = hpack.VerifCloneDecoder(st.fr.ReadMetaHeaders)
		s1.SetMaxStringLength(http2.VerifMaxHeaderStringLen(st.fr))
		s2.SetMaxStringLength(http2.VerifMaxHeaderStringLen(st.fr))
	}
	start := st.rd.pos
	var f http2.Frame
	var err error
	res := vu.Catch(func() string {
		f, err = st.fr.ReadFrame()
		if err != nil {
			return showReadErr(err)
		}
		if mh, ok := f.(*http2.MetaHeadersFrame); ok {
			var fts []string
			for _, hf := range mh.Fields {
				fts = append(fts, fieldTok(hf))
			}
			fs := "-"
			if len(fts) > 0 {
				fs = strings.Join(fts, ",")
			}
			return fmt.Sprintf("ok META %s %s trunc=%s %s", showHeader(mh.FrameHeader), showPrio(mh.Priority), b01(mh.Truncated), fs)
		}
		return "ok " + showFrame(f)
	})
	consumed := st.rd.data[start:st.rd.pos]
	frames := splitFrames(consumed)
	recorded := "read"
	var allFields []hpack.HeaderField
	s1ok := false
	if st.meta {
		var aux string
		aux, allFields, s1ok = hpackAux(s1, s2, frames, o)
		recorded = "read " + aux
	}
	// ---------------- property oracle (C07) ----------------
	if res == "panic" {
		o.Fail("panic", fmt.Sprintf("ReadFrame panicked (maxRead=%d meta=%v) on %x", st.maxRead, st.meta, st.rd.data))
		st.dead = true
		return recorded, res
	}
	cls := strings.Fields(res)
	o.Stat("res:" + cls[0] + ":" + cls[1])
	if err == nil {
		if f.Header().Length > st.maxRead {
			o.Fail("frame-longer-than-max", fmt.Sprintf("returned frame %s exceeds SetMaxReadFrameSize(%d)", showHeader(f.Header()), st.maxRead))
		}
		for _, rf := range frames {
			if rf.fh.Length > st.maxRead {
				o.Fail("frame-longer-than-max", fmt.Sprintf("frame %s consumed for a returned frame exceeds SetMaxReadFrameSize(%d)", showHeader(rf.fh), st.maxRead))
			}
		}
		checkStreamIDRule(f, o)
		if mh, ok := f.(*http2.MetaHeadersFrame); ok {
			checkMeta(st, mh, allFields, s1ok, o)
		}
	}
	if _, isStreamErr := err.(http2.StreamError); err != nil && !isStreamErr {
		st.dead = true // terminal: nothing is promised about later calls
	}
	if !st.dead {
		// every header the Framer accepted (frame returned, or only a stream error) must respect contiguity
		for _, rf := range frames {
			isCont := rf.fh.Type == http2.FrameContinuation
			if st.pending != 0 && (!isCont || rf.fh.StreamID != st.pending) {
				o.Fail("contiguity", fmt.Sprintf("accepted %s while a CONTINUATION for stream %d was due", showHeader(rf.fh), st.pending))
			}
			if st.pending == 0 && isCont {
				o.Fail("contiguity", fmt.Sprintf("accepted %s without an open header block", showHeader(rf.fh)))
			}
			if rf.fh.Type == http2.FrameHeaders || isCont {
				if rf.fh.Flags.Has(http2.FlagHeadersEndHeaders) {
					st.pending = 0
				} else {
					st.pending = rf.fh.StreamID
				}
			}
		}
		if _, isMeta := f.(*http2.MetaHeadersFrame); isMeta && err == nil && st.pending != 0 {
			o.Fail("contiguity", "ReadMetaHeaders returned a MetaHeadersFrame in the middle of a header block")
		}
	}
	return recorded, res
}

func checkStreamIDRule(f http2.Frame, o *vu.Out) {
	h := f.Header()
	switch f.(type) {
	case *http2.DataFrame, *http2.HeadersFrame, *http2.MetaHeadersFrame, *http2.PriorityFrame, *http2.RSTStreamFrame,
		*http2.PushPromiseFrame, *http2.ContinuationFrame:
		if h.StreamID == 0 {
			o.Fail("stream-id-rule", "returned stream-bound frame with stream id 0: "+showHeader(h))
		}
	case *http2.SettingsFrame, *http2.PingFrame, *http2.GoAwayFrame, *http2.PriorityUpdateFrame:
		if h.StreamID != 0 {
			o.Fail("stream-id-rule", "returned connection-level frame with a stream id: "+showHeader(h))
		}
	}
	if h.StreamID >= 1<<31 {
		o.Fail("stream-id-rule", "reserved bit not masked: "+showHeader(h))
	}
}

func isTokenByteRef(c byte) bool {
	switch {
	case '0' <= c && c <= '9', 'a' <= c && c <= 'z', 'A' <= c && c <= 'Z':
		return true
	}
	return strings.IndexByte("!#$%&'*+-.^_`|~", c) >= 0
}

// checkMeta states the MetaHeadersFrame guarantees of C07 directly.
func checkMeta(st *state, mh *http2.MetaHeadersFrame, all []hpack.HeaderField, s1ok bool, o *vu.Out) {
	known := map[string]int{":method": 1, ":path": 1, ":scheme": 1, ":authority": 1, ":protocol": 1, ":status": 2}
	seen := map[string]bool{}
	regular := false
	kinds := 0
	var total uint64
	for _, hf := range mh.Fields {
		total += uint64(len(hf.Name)) + uint64(len(hf.Value)) + 32
		for i := 0; i < len(hf.Value); i++ {
			if c := hf.Value[i]; (c < 0x20 && c != '\t') || c == 0x7f {
				o.Fail("meta-invalid-value", fmt.Sprintf("field %q has an invalid value %q", hf.Name, hf.Value))
			}
		}
		if strings.HasPrefix(hf.Name, ":") {
			if regular {
				o.Fail("meta-pseudo-after-regular", fmt.Sprintf("pseudo-header %q after a regular field", hf.Name))
			}
			if known[hf.Name] == 0 {
				o.Fail("meta-unknown-pseudo", fmt.Sprintf("unknown pseudo-header %q", hf.Name))
			}
			if seen[hf.Name] {
				o.Fail("meta-duplicate-pseudo", fmt.Sprintf("duplicate pseudo-header %q", hf.Name))
			}
			seen[hf.Name] = true
			kinds |= known[hf.Name]
			continue
		}
		regular = true
		bad := hf.Name == ""
		for i := 0; i < len(hf.Name); i++ {
			c := hf.Name[i]
			if c >= 0x80 || !isTokenByteRef(c) || ('A' <= c && c <= 'Z') {
				bad = true
			}
		}
		if bad {
			o.Fail("meta-invalid-name", fmt.Sprintf("invalid field name %q", hf.Name))
		}
	}
	if kinds == 3 {
		o.Fail("meta-mixed-pseudo", "request and response pseudo-headers mixed")
	}
	limit := uint64(st.mhls)
	if limit == 0 {
		limit = 16 << 20
	}
	if total > limit {
		o.Fail("meta-header-list-too-large", fmt.Sprintf("header list size %d exceeds MaxHeaderListSize %d (Truncated=%v)", total, limit, mh.Truncated))
	}
	if mh.Truncated && s1ok {
		// Truncated only if the complete decoded header list really exceeds the limit
		var full uint64
		for _, hf := range all {
			full += uint64(len(hf.Name)) + uint64(len(hf.Value)) + 32
		}
		if full <= limit {
			o.Fail("meta-truncated-within-limit", fmt.Sprintf("Truncated although the header list size %d does not exceed MaxHeaderListSize %d", full, limit))
		}
		if full == limit+1 {
			o.Stat("branch:meta-truncated-by-one")
		}
	}
	if !mh.Truncated && total == limit {
		o.Stat("branch:meta-size-equals-limit")
	}
	if mh.Truncated {
		o.Stat("branch:meta-truncated")
	} else if s1ok {
		// not truncated: Fields is the complete decoded header list
		same := len(all) == len(mh.Fields)
		for i := 0; same && i < len(all); i++ {
			same = all[i].Name == mh.Fields[i].Name && all[i].Value == mh.Fields[i].Value
		}
		if !same {
			o.Fail("meta-incomplete-not-truncated", fmt.Sprintf("Fields has %d of %d decoded fields but Truncated is false", len(mh.Fields), len(all)))
		}
	}
	o.Stat(fmt.Sprintf("branch:meta-ok-fields=%d", min(len(mh.Fields), 6)))
}

func main() { vu.Main(gen, exec) }
