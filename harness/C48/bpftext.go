//go:build verif

// Text syntax of bpf instructions shared by the C48 and C49 harnesses (the
// Lean side is lean/NetVerif/Driver/BpfText.lean).
package main

import (
	"fmt"
	"strconv"
	"strings"

	"golang.org/x/net/bpf"
)

func fmtInstr(i bpf.Instruction) string {
	switch a := i.(type) {
	case bpf.LoadConstant:
		return fmt.Sprintf("LC:%d:%d", uint16(a.Dst), a.Val)
	case bpf.LoadScratch:
		return fmt.Sprintf("LS:%d:%d", uint16(a.Dst), a.N)
	case bpf.LoadAbsolute:
		return fmt.Sprintf("LA:%d:%d", a.Off, a.Size)
	case bpf.LoadIndirect:
		return fmt.Sprintf("LI:%d:%d", a.Off, a.Size)
	case bpf.LoadMemShift:
		return fmt.Sprintf("LM:%d", a.Off)
	case bpf.LoadExtension:
		return fmt.Sprintf("LE:%d", int(a.Num))
	case bpf.StoreScratch:
		return fmt.Sprintf("SS:%d:%d", uint16(a.Src), a.N)
	case bpf.ALUOpConstant:
		return fmt.Sprintf("AK:%d:%d", uint16(a.Op), a.Val)
	case bpf.ALUOpX:
		return fmt.Sprintf("AX:%d", uint16(a.Op))
	case bpf.NegateA:
		return "NEG"
	case bpf.Jump:
		return fmt.Sprintf("JA:%d", a.Skip)
	case bpf.JumpIf:
		return fmt.Sprintf("JI:%d:%d:%d:%d", uint16(a.Cond), a.Val, a.SkipTrue, a.SkipFalse)
	case bpf.JumpIfX:
		return fmt.Sprintf("JX:%d:%d:%d", uint16(a.Cond), a.SkipTrue, a.SkipFalse)
	case bpf.RetA:
		return "RA"
	case bpf.RetConstant:
		return fmt.Sprintf("RK:%d", a.Val)
	case bpf.TXA:
		return "TXA"
	case bpf.TAX:
		return "TAX"
	case bpf.RawInstruction:
		return fmt.Sprintf("RAW:%d:%d:%d:%d", a.Op, a.Jt, a.Jf, a.K)
	}
	return fmt.Sprintf("UNKNOWN<%T>", i)
}

func fmtProg(p []bpf.Instruction) string {
	s := make([]string, len(p))
	for i, x := range p {
		s[i] = fmtInstr(x)
	}
	return strings.Join(s, ",")
}

type fieldParser struct {
	f  []string
	ok bool
}

func (p *fieldParser) u(i int, bits int) uint64 {
	if i >= len(p.f) {
		p.ok = false
		return 0
	}
	v, err := strconv.ParseUint(p.f[i], 10, bits)
	if err != nil {
		p.ok = false
	}
	return v
}

func (p *fieldParser) i(i int) int {
	if i >= len(p.f) {
		p.ok = false
		return 0
	}
	v, err := strconv.ParseInt(p.f[i], 10, 64)
	if err != nil {
		p.ok = false
	}
	return int(v)
}

func parseInstr(s string) (bpf.Instruction, bool) {
	f := strings.Split(s, ":")
	p := &fieldParser{f: f, ok: true}
	want := func(n int) bool { return len(f) == n }
	var ins bpf.Instruction
	switch f[0] {
	case "LC":
		ins = bpf.LoadConstant{Dst: bpf.Register(p.u(1, 16)), Val: uint32(p.u(2, 32))}
		p.ok = p.ok && want(3)
	case "LS":
		ins = bpf.LoadScratch{Dst: bpf.Register(p.u(1, 16)), N: p.i(2)}
		p.ok = p.ok && want(3)
	case "LA":
		ins = bpf.LoadAbsolute{Off: uint32(p.u(1, 32)), Size: p.i(2)}
		p.ok = p.ok && want(3)
	case "LI":
		ins = bpf.LoadIndirect{Off: uint32(p.u(1, 32)), Size: p.i(2)}
		p.ok = p.ok && want(3)
	case "LM":
		ins = bpf.LoadMemShift{Off: uint32(p.u(1, 32))}
		p.ok = p.ok && want(2)
	case "LE":
		ins = bpf.LoadExtension{Num: bpf.Extension(p.i(1))}
		p.ok = p.ok && want(2)
	case "SS":
		ins = bpf.StoreScratch{Src: bpf.Register(p.u(1, 16)), N: p.i(2)}
		p.ok = p.ok && want(3)
	case "AK":
		ins = bpf.ALUOpConstant{Op: bpf.ALUOp(p.u(1, 16)), Val: uint32(p.u(2, 32))}
		p.ok = p.ok && want(3)
	case "AX":
		ins = bpf.ALUOpX{Op: bpf.ALUOp(p.u(1, 16))}
		p.ok = p.ok && want(2)
	case "NEG":
		ins = bpf.NegateA{}
		p.ok = want(1)
	case "JA":
		ins = bpf.Jump{Skip: uint32(p.u(1, 32))}
		p.ok = p.ok && want(2)
	case "JI":
		ins = bpf.JumpIf{Cond: bpf.JumpTest(p.u(1, 16)), Val: uint32(p.u(2, 32)), SkipTrue: uint8(p.u(3, 8)), SkipFalse: uint8(p.u(4, 8))}
		p.ok = p.ok && want(5)
	case "JX":
		ins = bpf.JumpIfX{Cond: bpf.JumpTest(p.u(1, 16)), SkipTrue: uint8(p.u(2, 8)), SkipFalse: uint8(p.u(3, 8))}
		p.ok = p.ok && want(4)
	case "RA":
		ins = bpf.RetA{}
		p.ok = want(1)
	case "RK":
		ins = bpf.RetConstant{Val: uint32(p.u(1, 32))}
		p.ok = p.ok && want(2)
	case "TXA":
		ins = bpf.TXA{}
		p.ok = want(1)
	case "TAX":
		ins = bpf.TAX{}
		p.ok = want(1)
	case "RAW":
		ins = bpf.RawInstruction{Op: uint16(p.u(1, 16)), Jt: uint8(p.u(2, 8)), Jf: uint8(p.u(3, 8)), K: uint32(p.u(4, 32))}
		p.ok = p.ok && want(5)
	default:
		return nil, false
	}
	return ins, p.ok
}

func parseProg(s string) ([]bpf.Instruction, bool) {
	parts := strings.Split(s, ",")
	out := make([]bpf.Instruction, len(parts))
	for i, t := range parts {
		ins, ok := parseInstr(t)
		if !ok {
			return nil, false
		}
		out[i] = ins
	}
	return out, true
}

func parseRawFields(t []string) (bpf.RawInstruction, bool) {
	p := &fieldParser{f: t, ok: true}
	r := bpf.RawInstruction{Op: uint16(p.u(0, 16)), Jt: uint8(p.u(1, 8)), Jf: uint8(p.u(2, 8)), K: uint32(p.u(3, 32))}
	return r, p.ok && len(t) == 4
}

func fmtRaw(r bpf.RawInstruction) string {
	return fmt.Sprintf("%d %d %d %d", r.Op, r.Jt, r.Jf, r.K)
}

// The exported ALU operators (constants.go) — the values Disassemble and the VM know.
var aluOps = []bpf.ALUOp{bpf.ALUOpAdd, bpf.ALUOpSub, bpf.ALUOpMul, bpf.ALUOpDiv, bpf.ALUOpOr, bpf.ALUOpAnd,
	bpf.ALUOpShiftLeft, bpf.ALUOpShiftRight, bpf.ALUOpMod, bpf.ALUOpXor}

func knownALUOp(op bpf.ALUOp) bool {
	for _, o := range aluOps {
		if o == op {
			return true
		}
	}
	return false
}
