//go:build verif

// C48 harness: bpf Assemble / RawInstruction.Disassemble on the real package.
//
// Cases 0..65535 walk every 16-bit opcode (with boundary Jt/Jf/K); later cases
// are typed instruction values with boundary fields and small programs.
package main

import (
	"fmt"
	"strings"

	"golang.org/x/net/bpf"
	vu "golang.org/x/net/internal/verifutil"
)

var kPool = []uint32{0, 0, 0, 1, 2, 15, 16, 17, 42, 255, 256, 0x7fffffff, 0x80000000, 0xffffefff, 0xfffff000,
	0xfffff001, 0xfffff002, 0xfffff004, 0xfffff034, 0xffffffff}

func genK(r *vu.Rng) uint32 {
	if r.Chance(2, 3) {
		return kPool[r.Intn(len(kPool))]
	}
	return uint32(r.Boundary(32))
}

func genJ(r *vu.Rng) uint8 {
	switch r.Intn(5) {
	case 0, 1:
		return 0
	case 2:
		return 1
	case 3:
		return 255
	}
	return uint8(r.Intn(256))
}

func genReg(r *vu.Rng) bpf.Register {
	switch r.Intn(12) {
	case 0:
		return bpf.Register(2)
	case 1:
		return bpf.Register(r.Intn(65536))
	}
	return bpf.Register(r.Intn(2))
}

func genSlot(r *vu.Rng) int {
	switch r.Intn(12) {
	case 0:
		return -1
	case 1:
		return 16
	case 2:
		return int(int64(r.Boundary(64)))
	}
	return r.Intn(16)
}

func genSize(r *vu.Rng) int {
	switch r.Intn(12) {
	case 0:
		return []int{0, 3, 8, -1, 5}[r.Intn(5)]
	case 1:
		return int(int64(r.Boundary(64)))
	}
	return []int{1, 2, 4}[r.Intn(3)]
}

func genALUOp(r *vu.Rng) bpf.ALUOp {
	switch r.Intn(8) {
	case 0:
		return []bpf.ALUOp{0x08, 0x80, 0xb0, 0xf0, 0x100, 0x1234, 0x0f, 0x14, 0xffff}[r.Intn(9)]
	case 1:
		return bpf.ALUOp(r.Intn(65536))
	}
	return aluOps[r.Intn(len(aluOps))]
}

func genCond(r *vu.Rng) bpf.JumpTest {
	switch r.Intn(16) {
	case 0:
		return bpf.JumpTest(8)
	case 1:
		return bpf.JumpTest(r.Intn(65536))
	}
	return bpf.JumpTest(r.Intn(8))
}

func genExt(r *vu.Rng) bpf.Extension {
	switch r.Intn(6) {
	case 0:
		return bpf.Extension([]int{-1, 4095, 4096, 4097, 1 << 32, 1<<32 + 5, -4096, 0x1000 - 1, -1 << 63, 1<<63 - 1}[r.Intn(10)])
	case 1:
		return bpf.Extension(int64(r.Boundary(64)))
	case 2:
		return bpf.Extension(r.Intn(4096))
	}
	return []bpf.Extension{bpf.ExtLen, bpf.ExtProto, bpf.ExtType, bpf.ExtPayloadOffset, bpf.ExtInterfaceIndex,
		bpf.ExtNetlinkAttr, bpf.ExtNetlinkAttrNested, bpf.ExtMark, bpf.ExtQueue, bpf.ExtLinkLayerType, bpf.ExtRXHash,
		bpf.ExtCPUID, bpf.ExtVLANTag, bpf.ExtVLANTagPresent, bpf.ExtVLANProto, bpf.ExtRand}[r.Intn(16)]
}

func genTyped(r *vu.Rng) bpf.Instruction {
	switch r.Intn(18) {
	case 0:
		return bpf.LoadConstant{Dst: genReg(r), Val: genK(r)}
	case 1:
		return bpf.LoadScratch{Dst: genReg(r), N: genSlot(r)}
	case 2:
		return bpf.LoadAbsolute{Off: genK(r), Size: genSize(r)}
	case 3:
		return bpf.LoadIndirect{Off: genK(r), Size: genSize(r)}
	case 4:
		return bpf.LoadMemShift{Off: genK(r)}
	case 5:
		return bpf.LoadExtension{Num: genExt(r)}
	case 6:
		return bpf.StoreScratch{Src: genReg(r), N: genSlot(r)}
	case 7:
		return bpf.ALUOpConstant{Op: genALUOp(r), Val: genK(r)}
	case 8:
		return bpf.ALUOpX{Op: genALUOp(r)}
	case 9:
		return bpf.NegateA{}
	case 10:
		return bpf.Jump{Skip: genK(r)}
	case 11, 12:
		return bpf.JumpIf{Cond: genCond(r), Val: genK(r), SkipTrue: genJ(r), SkipFalse: genJ(r)}
	case 13:
		return bpf.JumpIfX{Cond: genCond(r), SkipTrue: genJ(r), SkipFalse: genJ(r)}
	case 14:
		return bpf.RetA{}
	case 15:
		return bpf.RetConstant{Val: genK(r)}
	case 16:
		if r.Bool() {
			return bpf.TXA{}
		}
		return bpf.TAX{}
	}
	return bpf.RawInstruction{Op: uint16(r.Intn(65536)), Jt: genJ(r), Jf: genJ(r), K: genK(r)}
}

func rawLines(r bpf.RawInstruction) []string {
	s := fmtRaw(r)
	return []string{"dis " + s, "rt2 " + s}
}

func gen(r *vu.Rng, i int) []string {
	if i < 65536 {
		// every opcode: once with the unused fields zero, once with boundary junk
		op := uint16(i)
		k := genK(r)
		lines := rawLines(bpf.RawInstruction{Op: op, K: k})
		lines = append(lines, rawLines(bpf.RawInstruction{Op: op, K: 0})...)
		lines = append(lines, rawLines(bpf.RawInstruction{Op: op, Jt: genJ(r), Jf: genJ(r), K: genK(r)})...)
		return lines
	}
	switch r.Intn(8) {
	case 0:
		// a low opcode (where all the structure is) with random fields
		return rawLines(bpf.RawInstruction{Op: uint16(r.Intn(256)), Jt: genJ(r), Jf: genJ(r), K: genK(r)})
	case 1:
		n := r.Range(1, 6)
		p := make([]bpf.Instruction, n)
		for j := range p {
			p[j] = genTyped(r)
		}
		return []string{"asmprog " + fmtProg(p)}
	case 2:
		// the image of Assemble, perturbed in one field
		ins := genTyped(r)
		raw, err := ins.Assemble()
		if err != nil {
			return []string{"asm " + fmtInstr(ins)}
		}
		switch r.Intn(5) {
		case 0:
			raw.Op ^= 1 << uint(r.Intn(16))
		case 1:
			raw.Jt = genJ(r)
		case 2:
			raw.Jf = genJ(r)
		case 3:
			raw.K = genK(r)
		}
		return rawLines(raw)
	}
	s := fmtInstr(genTyped(r))
	return []string{"asm " + s, "rt1 " + s}
}

// --- the property, stated on the implementation ----------------------------------------------

// typedDeviation names the known region where Disassemble(Assemble(i)) != i
// although Assemble accepts i ("" = i is expected to round-trip).
func typedDeviation(i bpf.Instruction) string {
	normal := func(c bpf.JumpTest, st, sf uint8) bool {
		if c%2 == 0 { // ==, >, >=, & : positive tests
			return st != 0
		}
		return sf == 0
	}
	switch a := i.(type) {
	case bpf.JumpIf:
		if !normal(a.Cond, a.SkipTrue, a.SkipFalse) {
			return "typed-jump-nonnormal"
		}
	case bpf.JumpIfX:
		if !normal(a.Cond, a.SkipTrue, a.SkipFalse) {
			return "typed-jump-nonnormal"
		}
	case bpf.ALUOpConstant:
		if !knownALUOp(a.Op) {
			return "typed-aluop-unknown"
		}
	case bpf.ALUOpX:
		if !knownALUOp(a.Op) {
			return "typed-aluop-unknown"
		}
	case bpf.LoadAbsolute:
		if a.Off >= 0xfffff000 {
			return "typed-loadabs-extrange"
		}
	}
	return ""
}

type usage struct {
	k     bool   // K is used
	kmax  uint32 // largest canonical K when k
	jumps bool   // Jt/Jf are used
}

// canonicalOps: every opcode a typed instruction assembles to, with the
// fields that encoding uses (written from the classic BPF opcode table, not
// from the package's Disassemble).
var canonicalOps = func() map[uint16]usage {
	m := map[uint16]usage{
		0x00: {k: true, kmax: 0xffffffff}, 0x01: {k: true, kmax: 0xffffffff}, // ld/ldx #k
		0x60: {k: true, kmax: 15}, 0x61: {k: true, kmax: 15}, // ld/ldx M[k]
		0x20: {k: true, kmax: 0xffffffff}, 0x28: {k: true, kmax: 0xffffefff}, 0x30: {k: true, kmax: 0xffffefff}, // ld/ldh/ldb [k]
		0x40: {k: true, kmax: 0xffffffff}, 0x48: {k: true, kmax: 0xffffffff}, 0x50: {k: true, kmax: 0xffffffff}, // [x+k]
		0x80: {}, 0xb1: {k: true, kmax: 0xffffffff}, // ld #len, ldx 4*([k]&0xf)
		0x02: {k: true, kmax: 15}, 0x03: {k: true, kmax: 15}, // st, stx
		0x84: {},                           // neg
		0x05: {k: true, kmax: 0xffffffff},  // ja
		0x06: {k: true, kmax: 0xffffffff}, 0x16: {}, // ret #k, ret a
		0x07: {}, 0x87: {}, // tax, txa
	}
	for _, op := range aluOps {
		m[0x04|uint16(op)] = usage{k: true, kmax: 0xffffffff}
		m[0x0c|uint16(op)] = usage{}
	}
	for _, j := range []uint16{0x10, 0x20, 0x30, 0x40} {
		m[0x05|j] = usage{k: true, kmax: 0xffffffff, jumps: true}
		m[0x0d|j] = usage{jumps: true}
	}
	return m
}()

// canonicalRaw: r is spelled the way Assemble spells the instruction it decodes to.
func canonicalRaw(r bpf.RawInstruction) bool {
	u, ok := canonicalOps[r.Op]
	if !ok {
		return false
	}
	if !u.jumps && (r.Jt != 0 || r.Jf != 0) {
		return false
	}
	if !u.k && r.K != 0 {
		return false
	}
	if u.k && r.K > u.kmax {
		return false
	}
	if r.Op == 0x20 && r.K == 0xfffff001 { // spelled `ld #len` (0x80) by LoadExtension{ExtLen}
		return false
	}
	return true
}

func isRaw(i bpf.Instruction) bool { _, ok := i.(bpf.RawInstruction); return ok }

func exec(ops []string, o *vu.Out) {
	for _, op := range ops {
		t := strings.Fields(op)
		if len(t) < 2 {
			o.Op(op, "bad-op")
			continue
		}
		switch t[0] {
		case "asm", "rt1":
			ins, ok := parseInstr(t[1])
			if !ok || len(t) != 2 {
				o.Op(op, "bad-op")
				continue
			}
			o.Stat(t[0] + ":" + strings.SplitN(t[1], ":", 2)[0])
			raw, err := ins.Assemble()
			if err != nil {
				o.Op(op, "err")
				o.Stat("asm-err")
				continue
			}
			back := raw.Disassemble()
			same := back == ins
			if t[0] == "asm" {
				o.Op(op, "ok "+fmtRaw(raw))
				if !isRaw(ins) && !same {
					sig := typedDeviation(ins)
					o.Stat("typed-diff:" + sig)
					o.Fail(sig, fmt.Sprintf("Disassemble(Assemble(%s)) = %s (raw %s)", fmtInstr(ins), fmtInstr(back), fmtRaw(raw)))
				}
			} else {
				if same {
					o.Op(op, "ok same")
				} else {
					o.Op(op, "ok diff")
				}
			}
		case "dis", "rt2":
			raw, ok := parseRawFields(t[1:])
			if !ok {
				o.Op(op, "bad-op")
				continue
			}
			res := vu.Catch(func() string {
				d := raw.Disassemble()
				if t[0] == "dis" {
					return "ok " + fmtInstr(d)
				}
				if isRaw(d) {
					o.Stat("rt2:raw")
					if d != bpf.Instruction(raw) {
						o.Fail("", fmt.Sprintf("Disassemble(%s) returned a different RawInstruction %s", fmtRaw(raw), fmtInstr(d)))
					}
					if canonicalRaw(raw) {
						// every encoding Assemble can produce must be decoded, not passed through
						o.Fail("", fmt.Sprintf("Disassemble(%s): canonical encoding not decoded", fmtRaw(raw)))
					}
					return "ok raw"
				}
				o.Stat("rt2:" + strings.SplitN(fmtInstr(d), ":", 2)[0])
				again, err := d.Assemble()
				if err != nil {
					o.Fail("", fmt.Sprintf("Disassemble(%s) = %s does not assemble: %v", fmtRaw(raw), fmtInstr(d), err))
					return "ok diff"
				}
				if again == raw {
					return "ok same"
				}
				o.Stat("raw-diff")
				o.Fail("", fmt.Sprintf("Assemble(Disassemble(%s)) = %s via %s", fmtRaw(raw), fmtRaw(again), fmtInstr(d)))
				return "ok diff"
			})
			o.Op(op, res)
		case "asmprog":
			p, ok := parseProg(t[1])
			if !ok || len(t) != 2 {
				o.Op(op, "bad-op")
				continue
			}
			o.Stat("asmprog")
			rs, err := bpf.Assemble(p)
			if err != nil {
				o.Op(op, "err")
				continue
			}
			parts := make([]string, len(rs))
			for j, r := range rs {
				parts[j] = fmtRaw(r)
			}
			o.Op(op, fmt.Sprintf("ok %d %s", len(rs), strings.Join(parts, " ")))
			// program-level round trip on the canonical part
			back, all := bpf.Disassemble(rs)
			for j := range back {
				if isRaw(p[j]) {
					continue
				}
				if isRaw(back[j]) && all {
					o.Fail("", "Disassemble reported allDecoded with a RawInstruction in the output")
				}
				if back[j] != p[j] {
					if sig := typedDeviation(p[j]); sig != "" {
						o.Fail(sig, fmt.Sprintf("program round trip differs at %d: %s -> %s", j, fmtInstr(p[j]), fmtInstr(back[j])))
					} else {
						o.Fail("", fmt.Sprintf("program round trip differs at %d: %s -> %s", j, fmtInstr(p[j]), fmtInstr(back[j])))
					}
				}
			}
		default:
			o.Op(op, "bad-op")
		}
	}
}

func main() { vu.Main(gen, exec) }
