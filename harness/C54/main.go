//go:build verif

// C54 harness: internal/socks client (and proxy.SOCKS5) against a scripted in-memory server.
//
//	dial <api w|c|p> <ctx 0|1> <chunk> <auth 0|1> <user> <pass> <addr> <destfact> <script>
//	reply <bytes>
//
// api: w = Dialer.DialWithConn, c = Dialer.DialContext (ProxyDial -> scripted conn, BoundAddr),
// p = proxy.SOCKS5(...).Dial with a forwarding dialer that returns the scripted conn.
// destfact tabulates net.SplitHostPort/strconv.Atoi/net.ParseIP of <addr> (not modelled in Lean).
package main

import (
	"bytes"
	"context"
	"fmt"
	"io"
	"net"
	"net/netip"
	"strconv"
	"strings"
	"time"

	"golang.org/x/net/internal/socks"
	vu "golang.org/x/net/internal/verifutil"
	"golang.org/x/net/proxy"
)

func hx(s string) string { return vu.Hex([]byte(s)) }

// ---------------------------------------------------------------- scripted conn

type dummyAddr struct{}

func (dummyAddr) Network() string { return "script" }
func (dummyAddr) String() string  { return "script" }

type scriptConn struct {
	script  []byte
	pos     int
	chunk   int
	written []byte
	closed  int
}

func (c *scriptConn) Read(p []byte) (int, error) {
	if len(p) == 0 {
		return 0, nil
	}
	if c.pos >= len(c.script) {
		return 0, io.EOF
	}
	n := len(p)
	if c.chunk > 0 && n > c.chunk {
		n = c.chunk
	}
	if n > len(c.script)-c.pos {
		n = len(c.script) - c.pos
	}
	copy(p, c.script[c.pos:c.pos+n])
	c.pos += n
	return n, nil
}
func (c *scriptConn) Write(p []byte) (int, error)        { c.written = append(c.written, p...); return len(p), nil }
func (c *scriptConn) Close() error                       { c.closed++; return nil }
func (c *scriptConn) LocalAddr() net.Addr                { return dummyAddr{} }
func (c *scriptConn) RemoteAddr() net.Addr               { return dummyAddr{} }
func (c *scriptConn) SetDeadline(t time.Time) error      { return nil }
func (c *scriptConn) SetReadDeadline(t time.Time) error  { return nil }
func (c *scriptConn) SetWriteDeadline(t time.Time) error { return nil }

type fwdDialer struct{ c net.Conn }

func (f fwdDialer) Dial(network, addr string) (net.Conn, error) { return f.c, nil }

// ---------------------------------------------------------------- facts

func destFact(addr string) string {
	host, port, err := net.SplitHostPort(addr)
	if err != nil {
		return "e"
	}
	pn, err := strconv.Atoi(port)
	if err != nil || pn < 1 || pn > 0xffff {
		return "e"
	}
	if ip := net.ParseIP(host); ip != nil {
		if ip4 := ip.To4(); ip4 != nil {
			return fmt.Sprintf("4:%s:%d", vu.Hex(ip4), pn)
		}
		return fmt.Sprintf("6:%s:%d", vu.Hex(ip.To16()), pn)
	}
	return fmt.Sprintf("n:%s:%d", hx(host), pn)
}

func dialLine(api string, ctx, chunk int, auth bool, user, pass, addr string, script []byte) string {
	a := "0"
	if auth {
		a = "1"
	}
	return fmt.Sprintf("dial %s %d %d %s %s %s %s %s %s", api, ctx, chunk, a, hx(user), hx(pass), hx(addr), destFact(addr), vu.Hex(script))
}

// ---------------------------------------------------------------- generator

var hostPool = []string{"1.2.3.4", "0.0.0.0", "255.255.255.255", "127.0.0.1", "10.0.0.1", "::1", "2001:db8::1", "::", "fe80::1",
	"::ffff:1.2.3.4", "example.com", "a", "", "localhost", "xn--bcher-kva.example", "bücher.example", "1.2.3.4.", "1.2.3", "fe80::1%eth0",
	"[::1]", "a b", "example.com.", "*", "01.02.03.04", "0x7f.1", "1.2.3.256"}
var portStrPool = []string{"1", "80", "443", "1080", "65535", "65534", "256", "255", "257", "0", "65536", "-1", "http", "", "+80", "080", "99999999999999999999"}

func genHost(r *vu.Rng) string {
	switch r.Intn(10) {
	case 0:
		return netip.AddrFrom4([4]byte(r.Bytes(4))).String()
	case 1:
		return netip.AddrFrom16([16]byte(r.Bytes(16))).String()
	case 2: // long names around the 255 limit
		n := []int{253, 254, 255, 256, 257, 300, 100, 63, 64}[r.Intn(9)]
		return string(r.BytesFrom("abcdefghijklmnopqrstuvwxyz0123456789-.", n))
	case 3: // arbitrary bytes (no ':' so that SplitHostPort keeps it a host)
		b := r.Bytes(r.Intn(20))
		for i := range b {
			if b[i] == ':' || b[i] == '[' || b[i] == ']' {
				b[i] = 'x'
			}
		}
		return string(b)
	default:
		return hostPool[r.Intn(len(hostPool))]
	}
}

func genAddr(r *vu.Rng) string {
	h := genHost(r)
	p := "80"
	switch r.Intn(6) {
	case 0:
		p = portStrPool[r.Intn(len(portStrPool))]
	case 1:
		p = strconv.Itoa(r.Range(1, 65535))
	}
	switch r.Intn(40) {
	case 0:
		return h // no port
	case 1:
		return h + ":" + p // unbracketed (breaks for IPv6)
	}
	return net.JoinHostPort(h, p)
}

func genBound(r *vu.Rng) []byte {
	port := []byte{byte(r.Intn(256)), byte(r.Intn(256))}
	if r.Chance(1, 4) {
		port = [][]byte{{0, 0}, {0xff, 0xff}, {0, 80}, {1, 0}}[r.Intn(4)]
	}
	var b []byte
	switch r.Intn(3) {
	case 0:
		b = append([]byte{1}, r.Bytes(4)...)
	case 1:
		b = append([]byte{4}, r.Bytes(16)...)
	default:
		n := r.Intn(12)
		if r.Chance(1, 4) {
			n = []int{0, 1, 254, 255}[r.Intn(4)]
		}
		b = append([]byte{3, byte(n)}, r.BytesFrom("abc.xyz-0123", n)...)
	}
	return append(b, port...)
}

// genReply: the server's answer to the CONNECT request, mostly well formed.
func genReply(r *vu.Rng) []byte {
	b := append([]byte{5, 0, 0}, genBound(r)...)
	switch r.Intn(30) {
	case 0:
		b[0] = byte(r.Intn(256)) // version
	case 1:
		b[1] = byte(r.Range(1, 9)) // failure code
	case 2:
		b[1] = byte(r.Intn(256))
	case 3:
		b[2] = byte(r.Range(1, 255)) // reserved
	case 4:
		b[3] = []byte{0, 2, 5, 0xff, 3, 1, 4}[r.Intn(7)] // ATYP swapped/unknown
	case 5:
		if len(b) > 4 && b[3] == 3 {
			b[4] = byte(r.Intn(256)) // FQDN length byte lies
		}
	}
	return b
}

func genScript(r *vu.Rng, auth bool) []byte {
	m := byte(0)
	if auth && r.Bool() {
		m = 2
	}
	switch r.Intn(40) {
	case 0:
		m = 0xff
	case 1:
		m = byte(r.Intn(256))
	case 2:
		m = 2
	}
	s := []byte{5, m}
	if r.Chance(1, 40) {
		s[0] = byte(r.Intn(256))
	}
	if auth && m == 2 {
		a := []byte{1, 0}
		switch r.Intn(10) {
		case 0:
			a[0] = byte(r.Intn(256))
		case 1:
			a[1] = byte(r.Range(1, 255))
		}
		s = append(s, a...)
	}
	s = append(s, genReply(r)...)
	switch r.Intn(16) {
	case 0:
		s = s[:r.Intn(len(s)+1)] // truncated anywhere
	case 1:
		if len(s) > 0 {
			s[r.Intn(len(s))] ^= 1 << uint(r.Intn(8)) // bit flip
		}
	case 2:
		s = append(s, r.Bytes(r.Range(1, 5))...) // trailing bytes (payload already flowing)
	case 3:
		s = s[:len(s)-1] // one byte short
	}
	if r.Chance(1, 40) {
		s = r.Bytes(r.Intn(30))
	}
	return s
}

func genCred(r *vu.Rng) string {
	n := []int{0, 1, 5, 10, 255, 256, 3, 8}[r.Intn(8)]
	return string(r.BytesFrom("abcXYZ019 :", n))
}

func gen(r *vu.Rng, i int) []string {
	if r.Chance(1, 8) {
		b := genReply(r)
		switch r.Intn(4) {
		case 0:
			b = b[:r.Intn(len(b)+1)]
		case 1:
			b = append(b, r.Bytes(r.Range(1, 4))...)
		}
		return []string{"reply " + vu.Hex(b)}
	}
	auth := r.Chance(1, 3)
	user, pass := "", ""
	if auth {
		user, pass = genCred(r), genCred(r)
		if r.Chance(2, 3) && user == "" {
			user = "u"
		}
	}
	api := []string{"w", "w", "c", "c", "p"}[r.Intn(5)]
	chunk := []int{1, 1, 2, 3, 7, 64, 100000}[r.Intn(7)]
	return []string{dialLine(api, r.Intn(2), chunk, auth, user, pass, genAddr(r), genScript(r, auth))}
}

// ---------------------------------------------------------------- executor

func showAddr(a net.Addr) string {
	sa, ok := a.(*socks.Addr)
	if !ok || sa == nil {
		return "noaddr"
	}
	if sa.IP != nil {
		return fmt.Sprintf("ip:%s:%d", vu.Hex(sa.IP), sa.Port)
	}
	return fmt.Sprintf("name:%s:%d", hx(sa.Name), sa.Port)
}

type ctxKey struct{}

func runDial(api string, ctxMode int, auth bool, user, pass, addr string, conn *scriptConn) string {
	return vu.Catch(func() string {
		ctx := context.Background()
		if ctxMode == 1 {
			ctx = context.WithValue(ctx, ctxKey{}, 1) // != Background: exercises the watcher goroutine, never fires
		}
		if api == "p" {
			var pa *proxy.Auth
			if auth {
				pa = &proxy.Auth{User: user, Password: pass}
			}
			d, err := proxy.SOCKS5("tcp", "proxy.invalid:1080", pa, fwdDialer{conn})
			if err != nil {
				return "err " + vu.Hex(conn.written)
			}
			c, err := d.Dial("tcp", addr)
			if err != nil {
				return "err " + vu.Hex(conn.written)
			}
			if c != net.Conn(conn) {
				return "ok " + vu.Hex(conn.written) + " other-conn"
			}
			return "ok " + vu.Hex(conn.written) + " conn"
		}
		d := socks.NewDialer("tcp", "proxy.invalid:1080")
		if auth {
			up := socks.UsernamePassword{Username: user, Password: pass}
			d.AuthMethods = []socks.AuthMethod{socks.AuthMethodNotRequired, socks.AuthMethodUsernamePassword}
			d.Authenticate = up.Authenticate
		}
		if api == "c" {
			d.ProxyDial = func(context.Context, string, string) (net.Conn, error) { return conn, nil }
			c, err := d.DialContext(ctx, "tcp", addr)
			if err != nil {
				return "err " + vu.Hex(conn.written)
			}
			sc, ok := c.(*socks.Conn)
			if !ok {
				return "ok " + vu.Hex(conn.written) + " noaddr"
			}
			return "ok " + vu.Hex(conn.written) + " " + showAddr(sc.BoundAddr())
		}
		a, err := d.DialWithConn(ctx, conn, "tcp", addr)
		if err != nil {
			return "err " + vu.Hex(conn.written)
		}
		return "ok " + vu.Hex(conn.written) + " " + showAddr(a)
	})
}

func exec(ops []string, o *vu.Out) {
	for _, op := range ops {
		t := strings.Fields(op)
		switch {
		case len(t) == 2 && t[0] == "reply":
			b, ok := vu.ParseHex(t[1])
			if !ok {
				o.Op(op, "bad-op")
				continue
			}
			o.Stat("op:reply")
			conn := &scriptConn{script: append([]byte{5, 0}, b...), chunk: 3}
			res := vu.Catch(func() string {
				a, err := socks.NewDialer("tcp", "proxy.invalid:1080").DialWithConn(context.Background(), conn, "tcp", "1.2.3.4:80")
				if err != nil {
					return "err"
				}
				return fmt.Sprintf("ok %s %d", showAddr(a), len(conn.script)-conn.pos)
			})
			o.Op(op, res)
			want, wa, rest := refReply(b)
			if res == "panic" {
				o.Fail("", fmt.Sprintf("reply %x: panic", b))
			} else if want && res != fmt.Sprintf("ok %s %d", wa, len(rest)) {
				o.Fail("", fmt.Sprintf("reply %x is a well-formed success reply for %s but the client returned %q", b, wa, res))
			} else if !want && res != "err" {
				o.Fail("", fmt.Sprintf("reply %x is malformed/truncated/failed but the client returned %q", b, res))
			}
		case len(t) == 10 && t[0] == "dial":
			ctxMode, e1 := strconv.Atoi(t[2])
			chunk, e2 := strconv.Atoi(t[3])
			user, ok1 := vu.ParseHex(t[5])
			pass, ok2 := vu.ParseHex(t[6])
			addrB, ok3 := vu.ParseHex(t[7])
			script, ok4 := vu.ParseHex(t[9])
			addr := string(addrB)
			if e1 != nil || e2 != nil || !ok1 || !ok2 || !ok3 || !ok4 || chunk < 1 || (t[4] != "0" && t[4] != "1") ||
				(t[1] != "w" && t[1] != "c" && t[1] != "p") || (ctxMode != 0 && ctxMode != 1) || destFact(addr) != t[8] {
				o.Op(op, "bad-op")
				continue
			}
			auth := t[4] == "1"
			o.Stat("api:" + t[1])
			conn := &scriptConn{script: script, chunk: chunk}
			res := runDial(t[1], ctxMode, auth, string(user), string(pass), addr, conn)
			o.Op(op, res)
			oracle(o, t[1], auth, string(user), string(pass), addr, script, conn, res)
		default:
			o.Op(op, "bad-op")
		}
	}
}

// ---------------------------------------------------------------- property oracle

// refReply: a conforming-reply decoder (RFC 1928 §6): success reply -> bound address.
func refReply(b []byte) (ok bool, addr string, rest []byte) {
	if len(b) < 4 || b[0] != 5 || b[1] != 0 || b[2] != 0 {
		return false, "", nil
	}
	p := b[4:]
	switch b[3] {
	case 1:
		if len(p) < 6 {
			return false, "", nil
		}
		return true, fmt.Sprintf("ip:%s:%d", vu.Hex(p[:4]), int(p[4])<<8|int(p[5])), p[6:]
	case 4:
		if len(p) < 18 {
			return false, "", nil
		}
		return true, fmt.Sprintf("ip:%s:%d", vu.Hex(p[:16]), int(p[16])<<8|int(p[17])), p[18:]
	case 3:
		if len(p) < 1 || len(p) < 1+int(p[0])+2 {
			return false, "", nil
		}
		n := int(p[0])
		return true, fmt.Sprintf("name:%s:%d", vu.Hex(p[1:1+n]), int(p[1+n])<<8|int(p[2+n])), p[3+n:]
	}
	return false, "", nil
}

// refServer decodes what the client wrote the way an RFC 1928/1929 server does, given the
// method it selected. It returns the decoded request target or why the stream is not conforming.
func refServer(w []byte, selected byte) (methods []byte, user, pass string, hasAuth bool, target string, hasReq bool, bad string) {
	if len(w) < 2 || w[0] != 5 || len(w) < 2+int(w[1]) {
		return nil, "", "", false, "", false, "bad method message"
	}
	methods = w[2 : 2+int(w[1])]
	w = w[2+int(w[1]):]
	if selected == 2 && bytes.IndexByte(methods, 2) >= 0 && len(w) > 0 && w[0] == 1 {
		if len(w) < 2 || len(w) < 2+int(w[1])+1 {
			return methods, "", "", false, "", false, "bad auth message"
		}
		ul := int(w[1])
		user = string(w[2 : 2+ul])
		pl := int(w[2+ul])
		if len(w) < 3+ul+pl {
			return methods, "", "", false, "", false, "bad auth message"
		}
		pass = string(w[3+ul : 3+ul+pl])
		hasAuth = true
		w = w[3+ul+pl:]
	}
	if len(w) == 0 {
		return methods, user, pass, hasAuth, "", false, ""
	}
	if len(w) < 4 || w[0] != 5 || w[1] != 1 || w[2] != 0 {
		return methods, user, pass, hasAuth, "", true, "bad request header"
	}
	p := w[4:]
	var host string
	switch w[3] {
	case 1:
		if len(p) != 6 {
			return methods, user, pass, hasAuth, "", true, "bad IPv4 request length"
		}
		host, p = netip.AddrFrom4([4]byte(p[:4])).String(), p[4:]
	case 4:
		if len(p) != 18 {
			return methods, user, pass, hasAuth, "", true, "bad IPv6 request length"
		}
		host, p = netip.AddrFrom16([16]byte(p[:16])).String(), p[16:]
	case 3:
		if len(p) < 1 || len(p) != 1+int(p[0])+2 {
			return methods, user, pass, hasAuth, "", true, "bad FQDN request length"
		}
		host, p = "name:"+string(p[1:1+int(p[0])]), p[1+int(p[0]):]
	default:
		return methods, user, pass, hasAuth, "", true, "bad ATYP"
	}
	return methods, user, pass, hasAuth, fmt.Sprintf("%s|%d", host, int(p[0])<<8|int(p[1])), true, ""
}

// wantTarget: the requested destination, classified independently of the client (netip).
func wantTarget(addr string) (string, bool) {
	host, port, err := net.SplitHostPort(addr)
	if err != nil {
		return "", false
	}
	pn, err := strconv.Atoi(port)
	if err != nil || pn < 1 || pn > 65535 {
		return "", false
	}
	if a, err := netip.ParseAddr(host); err == nil && a.Zone() == "" {
		if a.Is4In6() {
			a = a.Unmap() // the same IPv4 destination
		}
		return fmt.Sprintf("%s|%d", a.String(), pn), true
	}
	return fmt.Sprintf("name:%s|%d", host, pn), true
}

func oracle(o *vu.Out, api string, auth bool, user, pass, addr string, script []byte, conn *scriptConn, res string) {
	fail := func(msg string) {
		o.Fail("", fmt.Sprintf("api=%s auth=%v user=%q pass=%q addr=%q script=%x written=%x result=%q: %s", api, auth, user, pass, addr, script, conn.written, res, msg))
	}
	if res == "panic" {
		fail("panic")
		return
	}
	okRes := strings.HasPrefix(res, "ok ")
	want, valid := wantTarget(addr)
	if !valid {
		o.Stat("dest:rejected")
		if okRes || len(conn.written) != 0 {
			fail("invalid target address must be refused before anything is sent")
		}
		return
	}
	if strings.HasPrefix(want, "name:") {
		o.Stat("dest:name")
	} else {
		o.Stat("dest:ip")
	}
	var sel byte
	if len(script) >= 2 {
		sel = script[1]
	}
	methods, u, p, hasAuth, target, hasReq, bad := refServer(conn.written, sel)
	if bad != "" {
		fail("a conforming server cannot decode the client's bytes: " + bad)
		return
	}
	wantMethods := []byte{0}
	if auth {
		wantMethods = []byte{0, 2}
	}
	if !bytes.Equal(methods, wantMethods) {
		fail(fmt.Sprintf("offered methods %x, want %x", methods, wantMethods))
	}
	if hasAuth && (u != user || p != pass) {
		fail(fmt.Sprintf("RFC 1929 message carries %q/%q", u, p))
	}
	if hasReq {
		o.Stat("request:sent")
		if target != want {
			fail(fmt.Sprintf("request decodes to %s, requested %s", target, want))
		}
	}
	if okRes && !hasReq {
		fail("success without a CONNECT request")
	}
	// expected outcome from the script, for conforming method selection
	if len(script) < 2 || script[0] != 5 || script[1] == 0xff {
		o.Stat("script:bad-method-reply")
		if okRes {
			fail("method selection reply is malformed / no acceptable methods, yet success")
		}
		return
	}
	rest := script[2:]
	if auth {
		switch {
		case sel == 0:
		case sel == 2:
			if len(user) == 0 || len(user) > 255 || len(pass) > 255 || len(rest) < 2 || rest[0] != 1 || rest[1] != 0 {
				o.Stat("script:auth-fails")
				if okRes {
					fail("username/password sub-negotiation cannot succeed, yet success")
				}
				return
			}
			rest = rest[2:]
		default:
			o.Stat("script:unsupported-method")
			if okRes {
				fail("server selected an unsupported method, yet success")
			}
			return
		}
	} else if sel != 0 {
		o.Stat("script:nonconforming-method") // server selected a method that was not offered; out of scope
		return
	}
	if strings.HasPrefix(want, "name:") && len(want[5:strings.LastIndexByte(want, '|')]) > 255 {
		o.Stat("dest:name-too-long")
		if okRes || hasReq {
			fail("names longer than 255 bytes cannot be encoded")
		}
		return
	}
	ok, wa, _ := refReply(rest)
	if ok {
		o.Stat("script:good-reply")
		exp := "ok " + vu.Hex(conn.written) + " " + wa
		if api == "p" {
			exp = "ok " + vu.Hex(conn.written) + " conn"
		}
		if res != exp {
			fail("well-formed success reply reporting " + wa + " was not returned as such")
		}
	} else {
		o.Stat("script:bad-reply")
		if okRes {
			fail("malformed/truncated/failure reply, yet success")
		}
	}
}

func main() { vu.Main(gen, exec) }
