//go:build verif

// C25 harness, tie "wire" (V-tie): a real Conn in the package's own rig (newTestConn, fake
// network, synthetic clock of testing/synctest). The harness plays the peer: it sends packets
// with chosen packet numbers (any order, duplicates, gaps), peer ACK frames (ACK-of-ACK,
// ACKs covering never-sent or skipped numbers) and lets time pass; it records what the Conn
// puts on the wire. Every op line is `<script op> => <observations>` with implementation
// result `ok`; the Lean monitor (drv_C25w) prints `ok` or `reject <why>`.
//
//	reset app <side c|s>            handshake completed, 1-RTT space
//	reset init                      server Conn before any ClientHello, Initial space
//	pkt <rel> <tag>                 packet number base+rel carrying PATH_CHALLENGE(tag) (app) / PING (init)
//	ping <rel>                      packet number base+rel carrying only PING (ack-eliciting, no immediate reply)
//	ackpkt <rel> <a:b,a:b,…>        packet base+rel carrying an ACK frame; each bound is an offset from the
//	                                Conn's next packet number (N), `0:` prefix = absolute, `k` = most recent skipped number
//	wait <ms>                       let synthetic time pass (delayed ACK timer, PTO)
//	skipsoon <k>                    white-box: make the Conn skip packet number N+k (it normally picks the
//	                                first skip at a PRNG-chosen 64..255)
//
// 1-RTT packets are encoded by the harness itself the way a real sender does: the packet number is
// truncated relative to the largest number the Conn has acknowledged on the wire (e:<bytes>), so the
// Conn's packet number decoding (its notion of the largest received number) is exercised as well.
//
// Observation tokens: p:<pnum> arrival number, c:1 the packet carries a PATH_CHALLENGE (must be answered when fresh), q:<lo>-<hi>,… peer ACK ranges, f:1 arrival number is
// larger than every earlier one (so it must be processed), s:<space>:<pnum> packet the Conn sent,
// a:<space>:<lo>-<hi>,… ACK frame the Conn sent, r:<tag> PATH_RESPONSE, x:<code> CONNECTION_CLOSE,
// n:<space>:<N> all numbers below N were used by the Conn before the script started,
// h:<space>:<ranges> packet numbers that arrived before the script started, dead = Conn closed earlier.
package quic

import (
	"encoding/binary"
	"fmt"
	"strings"
	"sync/atomic"
	"testing"
	"testing/synctest"
	"time"

	vu "golang.org/x/net/internal/verifutil"
)

func TestVerifC25Conn(t *testing.T) {
	vu.Run(vu.ConfigFromEnv(), func(r *vu.Rng, i int) []string { return c25wGen(r, i, 10) }, c25wExec(t))
}

// TestVerifC23Conn: the same rig as a second tie of C23 (packet number decoding at the receiver):
// most cases contain long runs of non-ack-eliciting packets acknowledged in one delayed ACK
// followed by packets with 1-byte packet number encodings.
func TestVerifC23Conn(t *testing.T) {
	vu.Run(vu.ConfigFromEnv(), func(r *vu.Rng, i int) []string { return c25wGen(r, i, 2) }, c25wExec(t))
}

// c25wRun appends "an ack-eliciting packet, a long run of ACK-only packets sent back to back, the
// delayed ACK for all of them, then new packets": afterwards the sender encodes in 1 byte
// relative to a largest-acked number far above the last ack-eliciting packet.
func c25wRun(r *vu.Rng, ops []string, next *int64, tag *int) []string {
	ops = append(ops, fmt.Sprintf("ping %d", *next)) // ack-eliciting, answered only by the delayed ACK
	*next++
	for j, m := 0, r.Range(100, 300); j < m; j++ {
		ops = append(ops, fmt.Sprintf("ackpkt %d -1:0", *next))
		*next++
	}
	ops = append(ops, "wait 26")
	for j, m := 0, r.Range(1, 4); j < m; j++ {
		*tag++
		ops = append(ops, fmt.Sprintf("pkt %d %d", *next, *tag))
		*next += int64(r.Range(1, 2))
	}
	return ops
}

func c25wGen(r *vu.Rng, i int, runEvery int) []string {
	var ops []string
	initKind := r.Chance(1, 4)
	if runEvery <= 2 {
		initKind = false
	}
	if initKind {
		ops = append(ops, "reset init")
	} else if r.Bool() {
		ops = append(ops, "reset app s")
	} else {
		ops = append(ops, "reset app c")
	}
	n := r.Range(8, 60)
	if r.Chance(1, 8) {
		n = r.Range(150, 330) // long enough to reach the Conn's first PRNG-chosen skipped number
	}
	next := int64(0)
	tag := 0
	var hist []int64
	stride := int64(1)
	if r.Chance(1, 3) {
		stride = 2
	}
	if !initKind && r.Chance(1, 2) {
		ops = append(ops, fmt.Sprintf("skipsoon %d", r.Range(1, 6)))
	}
	longRun := !initKind && r.Chance(1, runEvery)
	runAt := r.Intn(n)
	if longRun && n > 60 {
		n = r.Range(8, 60)
		runAt = r.Intn(n)
	}
	for k := 0; k < n; k++ {
		if longRun && k == runAt {
			ops = c25wRun(r, ops, &next, &tag)
		}
		x := r.Intn(100)
		switch {
		case x < 55:
			var rel int64
			switch r.Intn(10) {
			case 0, 1:
				if len(hist) > 0 {
					rel = hist[r.Intn(len(hist))] // duplicate
				}
			case 2:
				rel = next - int64(r.Range(1, 25)) // old, maybe in a gap, maybe pruned
			case 3:
				next += int64(r.Range(2, 40))
				rel = next
				next++
			default:
				rel = next
				next += stride
			}
			if rel < 0 {
				rel = 0
			}
			tag++
			ops = append(ops, fmt.Sprintf("pkt %d %d", rel, tag))
			hist = append(hist, rel)
		case x < 80:
			// peer ACK frame in a fresh (largest so far) packet number
			var rs []string
			nr := r.Range(1, 3)
			hi := 0
			switch r.Intn(12) {
			case 0:
				hi = r.Range(1, 3) // acknowledges numbers the Conn has not used yet
			case 1, 2:
				rs = append(rs, "k") // around the most recent skipped number, if any
			}
			for j := 0; j < nr; j++ {
				ln := r.Range(1, 5)
				if r.Chance(1, 5) {
					rs = append(rs, fmt.Sprintf("0:0:%d", hi)) // cumulative from 0
					break
				}
				rs = append(rs, fmt.Sprintf("%d:%d", hi-ln, hi))
				hi = hi - ln - r.Range(1, 4)
			}
			ops = append(ops, fmt.Sprintf("ackpkt %d %s", next, strings.Join(rs, ",")))
			hist = append(hist, next)
			next++
		case x < 84:
			ops = append(ops, fmt.Sprintf("ping %d", next))
			hist = append(hist, next)
			next += stride
		case x < 96:
			ops = append(ops, fmt.Sprintf("wait %d", []int{1, 5, 26, 30, 120}[r.Intn(5)]))
		default:
			if !initKind {
				ops = append(ops, fmt.Sprintf("skipsoon %d", r.Range(1, 8)))
			} else {
				ops = append(ops, "wait 26")
			}
		}
	}
	return ops
}

type c25wCase struct {
	t        *testing.T
	o        *vu.Out
	tc       *testConn
	space    numberSpace
	ptype    packetType
	base     packetNumber
	maxArr   packetNumber
	acked    packetNumber // largest of our numbers the Conn acknowledged on the wire
	encLen   int
	arrived  map[packetNumber]bool
	sent     map[packetNumber]bool
	sentLow  packetNumber
	proc     map[packetNumber]bool
	dead     bool
	obs      []string
	emitted  int
	closeObs string
}

func c25wExec(t *testing.T) func(ops []string, o *vu.Out) {
	return func(ops []string, o *vu.Out) {
		clean := make([]string, len(ops))
		for i, op := range ops {
			if j := strings.Index(op, "=>"); j >= 0 {
				op = op[:j]
			}
			clean[i] = strings.TrimSpace(op)
		}
		var emitted atomic.Int64
		var abandoned atomic.Bool
		done := make(chan string, 1)
		go func() {
			finished := false
			defer func() {
				if e := recover(); e != nil || !finished {
					done <- fmt.Sprint("panic or t.Fatal inside the case: ", e)
				}
			}()
			synctest.Test(t, func(t *testing.T) {
				x := &c25wCase{t: t, o: o}
				for _, op := range clean {
					if abandoned.Load() {
						return
					}
					line := x.step(op)
					if abandoned.Load() {
						return
					}
					o.Op(line, "ok")
					emitted.Add(1)
				}
				if x.tc != nil {
					x.tc.cleanup()
				}
			})
			finished = true
			done <- ""
		}()
		select {
		case msg := <-done:
			if msg != "" {
				o.Fail("", "case aborted: "+msg)
				o.Stat("wire:aborted")
				for k := int(emitted.Load()); k < len(clean); k++ {
					o.Op(clean[k]+" => aborted", "aborted")
				}
			}
		case <-time.After(60 * time.Second):
			abandoned.Store(true)
			o.Fail("", "watchdog: case did not finish within 60 s of wall-clock time")
			for k := int(emitted.Load()); k < len(clean); k++ {
				o.Op(clean[k]+" => timeout", "timeout")
			}
		}
	}
}

// The script must not run into the handshake / idle timeouts (the rig's endpoint would then
// answer with a brand-new Conn).
func c25wTimeouts(c *Config) {
	c.HandshakeTimeout = 24 * time.Hour
	c.MaxIdleTimeout = 24 * time.Hour
}

func c25wRanges(rs []i64range[packetNumber]) string {
	var p []string
	for _, r := range rs {
		p = append(p, fmt.Sprintf("%d-%d", r.start, r.end))
	}
	if len(p) == 0 {
		return "-"
	}
	return strings.Join(p, ",")
}

// drain reads everything the Conn wants to send and records it.
func (x *c25wCase) drain() {
	for {
		d := x.tc.readDatagram()
		if d == nil {
			return
		}
		for _, p := range d.packets {
			sp := spaceForPacketType(p.ptype)
			x.obs = append(x.obs, fmt.Sprintf("s:%d:%d", sp, p.num))
			if sp == x.space {
				x.sent[p.num] = true
			}
			for _, f := range p.frames {
				switch f := f.(type) {
				case debugFrameAck:
					x.obs = append(x.obs, fmt.Sprintf("a:%d:%s", sp, c25wRanges(f.ranges)))
					x.o.Stat(fmt.Sprintf("wire:ack-frame-ranges=%d", min(len(f.ranges), 9)))
					// ---- oracle: an ACK frame on the wire only acknowledges numbers that arrived
					if sp == x.space {
						if len(f.ranges) > 0 && f.ranges[len(f.ranges)-1].end-1 > x.acked {
							x.acked = f.ranges[len(f.ranges)-1].end - 1
						}
						for _, r := range f.ranges {
							for n := r.start; n < r.end && r.end-r.start < 1<<20; n++ {
								if !x.arrived[n] {
									x.o.Fail("", fmt.Sprintf("Conn sent ACK [%d,%d) in space %d: packet number %d never arrived", r.start, r.end, sp, n))
									break
								}
							}
						}
					}
				case debugFramePathResponse:
					tag := binary.BigEndian.Uint64(f.data[:])
					x.obs = append(x.obs, fmt.Sprintf("r:%d", tag))
					pn := packetNumber(tag >> 20)
					// ---- oracle: a packet number is processed at most once
					if x.proc[pn] {
						x.o.Fail("", fmt.Sprintf("packet number %d was processed twice (second PATH_RESPONSE, tag %d)", pn, tag&0xfffff))
					}
					x.proc[pn] = true
					x.o.Stat("wire:processed")
				case debugFrameConnectionCloseTransport:
					x.obs = append(x.obs, fmt.Sprintf("x:%d", uint64(f.code)))
					x.closeObs = fmt.Sprint(uint64(f.code))
					x.dead = true
				case debugFrameConnectionCloseApplication:
					x.obs = append(x.obs, "x:app")
					x.closeObs = "app"
					x.dead = true
				}
			}
		}
	}
}

func (x *c25wCase) write(num packetNumber, frames ...debugFrame) {
	tc := x.tc
	dstConnID := tc.conn.connIDState.local[0].cid
	if tc.conn.connIDState.local[0].seq == -1 && x.ptype != packetTypeInitial {
		dstConnID = tc.conn.connIDState.local[1].cid
	}
	d := &testDatagram{
		packets: []*testPacket{{
			ptype: x.ptype, num: num, keyNumber: tc.sendKeyNumber, keyPhaseBit: tc.sendKeyPhaseBit,
			frames: frames, version: quicVersion1, dstConnID: dstConnID, srcConnID: tc.peerConnID,
		}},
		addr: tc.conn.peerAddr,
	}
	if x.ptype == packetTypeInitial {
		d.paddedSize = 1200
		tc.write(d)
		return
	}
	// 1-RTT: encode like a real sender, truncating the packet number relative to the largest
	// acknowledged one (packets at or below it are old packets: full 4-byte encoding).
	base := x.acked
	if num <= base {
		base = num - 1<<24
	}
	x.encLen = packetNumberLength(num, base)
	x.obs = append(x.obs, fmt.Sprintf("e:%d", x.encLen))
	var w packetWriter
	w.reset(1200)
	w.start1RTTPacket(num, base, dstConnID)
	for _, f := range frames {
		f.write(&w)
	}
	k := &updatingKeyPair{
		w: updatingKeys{hdr: tc.wkeyAppData.hdr,
			pkt: [2]packetKey{tc.wkeyAppData.pkt[tc.sendKeyNumber], tc.wkeyAppData.pkt[tc.sendKeyNumber]}},
		updateAfter: maxPacketNumber,
	}
	if tc.sendKeyPhaseBit {
		k.phase |= keyPhaseBit
	}
	w.finish1RTTPacket(num, base, dstConnID, k)
	if num >= tc.peerNextPacketNum[appDataSpace] {
		tc.peerNextPacketNum[appDataSpace] = num + 1
	}
	tc.endpoint.write(&datagram{b: append([]byte(nil), w.datagram()...), peerAddr: tc.conn.peerAddr})
}

// freshOracle (packet number decoding / delivery): a packet numbered above everything sent before,
// with its number truncated as RFC 9000 17.1 prescribes, is decoded to that number and processed.
func (x *c25wCase) freshOracle(fresh, challenge bool, num packetNumber) {
	if !fresh || x.dead {
		return
	}
	c := x.tc.conn
	if c.lifetime.state != connStateAlive {
		return
	}
	if !c.acks[x.space].seen.contains(num) {
		x.o.Fail("", fmt.Sprintf("packet %d (number encoded in %d byte(s) relative to largest acknowledged %d) was not received as packet %d: the Conn dropped it (its largest-received is %d)",
			num, x.encLen, x.acked, num, c.acks[x.space].largestSeen()))
	} else if challenge && !x.proc[num] {
		x.o.Fail("", fmt.Sprintf("packet %d was received but its PATH_CHALLENGE was not answered", num))
	}
	if x.space == appDataSpace {
		x.o.Stat(fmt.Sprintf("wire:fresh-enc-%d", x.encLen))
	}
}

func (x *c25wCase) step(op string) string {
	t := strings.Fields(op)
	x.obs = x.obs[:0]
	bad := func() string { return op + " => bad-op" }
	if len(t) == 0 {
		return bad()
	}
	x.o.Stat("op:" + t[0])
	if t[0] == "reset" {
		if x.tc != nil {
			return bad()
		}
		switch {
		case len(t) == 3 && t[1] == "app" && (t[2] == "c" || t[2] == "s"):
			side := clientSide
			if t[2] == "s" {
				side = serverSide
			}
			x.tc = newTestConn(x.t, side, permissiveTransportParameters, c25wTimeouts)
			x.tc.handshake()
			x.space, x.ptype = appDataSpace, packetType1RTT
		case len(t) == 2 && t[1] == "init":
			x.tc = newTestConn(x.t, serverSide, permissiveTransportParameters, c25wTimeouts)
			x.space, x.ptype = initialSpace, packetTypeInitial
		default:
			return bad()
		}
		x.arrived, x.sent, x.proc = map[packetNumber]bool{}, map[packetNumber]bool{}, map[packetNumber]bool{}
		x.drain()
		c := x.tc.conn
		x.base = x.tc.peerNextPacketNum[x.space]
		x.maxArr = x.base - 1
		x.acked = -1
		x.sentLow = c.loss.spaces[x.space].nextNum
		for _, k := range c.loss.spaces[x.space].skipped {
			x.o.Fail("", fmt.Sprintf("rig assumption broken: packet number %d skipped during the handshake", k))
		}
		for _, r := range c.acks[x.space].seen {
			for n := r.start; n < r.end; n++ {
				x.arrived[n] = true
			}
		}
		x.obs = append(x.obs, fmt.Sprintf("n:%d:%d", x.space, x.sentLow), fmt.Sprintf("h:%d:%s", x.space, c25wRanges(c.acks[x.space].seen)))
		return op + " => " + strings.Join(x.obs, " ")
	}
	if x.tc == nil {
		return bad()
	}
	c := x.tc.conn
	if !x.dead && c.lifetime.state != connStateAlive {
		x.dead = true
		x.o.Stat("wire:conn-gone")
	}
	if x.dead {
		return op + " => dead"
	}
	switch {
	case (t[0] == "pkt" && len(t) == 3) || (t[0] == "ping" && len(t) == 2):
		rel, tag := vu.Atoi64(t[1]), int64(0)
		if t[0] == "pkt" {
			tag = vu.Atoi64(t[2])
		}
		if rel < 0 || rel > 1<<30 || tag < 0 || tag >= 1<<20 {
			return bad()
		}
		num := x.base + packetNumber(rel)
		x.obs = append(x.obs, fmt.Sprintf("p:%d", num))
		fresh := num > x.maxArr
		if fresh {
			x.obs = append(x.obs, "f:1")
			x.maxArr = num
		}
		x.arrived[num] = true
		challenge := t[0] == "pkt" && x.space == appDataSpace
		if challenge {
			x.obs = append(x.obs, "c:1")
			var data pathChallengeData
			binary.BigEndian.PutUint64(data[:], uint64(num)<<20|uint64(tag))
			x.write(num, debugFramePathChallenge{data: data})
		} else {
			x.write(num, debugFramePing{})
		}
		x.drain()
		x.freshOracle(fresh, challenge, num)
	case t[0] == "ackpkt" && len(t) == 3:
		rel := vu.Atoi64(t[1])
		if rel < 0 || rel > 1<<30 {
			return bad()
		}
		num := x.base + packetNumber(rel)
		N := int64(c.loss.spaces[x.space].nextNum)
		var rs rangeset[packetNumber]
		for _, part := range strings.Split(t[2], ",") {
			var lo, hi int64
			if part == "k" {
				sk := c.loss.spaces[x.space].skipped
				if len(sk) == 0 {
					continue
				}
				lo, hi = int64(sk[len(sk)-1])-1, int64(sk[len(sk)-1])+1
				x.o.Stat("wire:ack-aims-at-skip")
			} else {
				f := strings.Split(part, ":")
				switch {
				case len(f) == 2:
					lo, hi = N+vu.Atoi64(f[0]), N+vu.Atoi64(f[1])
				case len(f) == 3 && f[0] == "0":
					lo, hi = vu.Atoi64(f[1]), N+vu.Atoi64(f[2])
				default:
					return bad()
				}
			}
			lo, hi = max(lo, 0), max(hi, 0)
			if lo < hi {
				rs.add(packetNumber(lo), packetNumber(hi))
			}
		}
		if len(rs) == 0 {
			rs.add(0, 1)
		}
		fresh := num > x.maxArr
		x.obs = append(x.obs, fmt.Sprintf("p:%d", num), "q:"+c25wRanges(rs))
		if fresh {
			x.obs = append(x.obs, "f:1")
			x.maxArr = num
		}
		x.arrived[num] = true
		// ---- oracle (clause 3), stated on what the peer can know: numbers seen on the wire
		unsent := packetNumber(-1)
		for _, r := range rs {
			for n := r.start; n < r.end; n++ {
				if n >= x.sentLow && !x.sent[n] {
					unsent = n
				}
			}
		}
		skipCovered := false
		for _, k := range c.loss.spaces[x.space].skipped {
			if rs.contains(k) {
				skipCovered = true
			}
		}
		x.write(num, debugFrameAck{ranges: rs})
		x.drain()
		x.freshOracle(fresh, false, num)
		if fresh {
			pv := x.closeObs == fmt.Sprint(uint64(errProtocolViolation))
			if (unsent >= 0) != pv {
				x.o.Fail("", fmt.Sprintf("peer ACK %s (first never-sent number covered: %d): connection close=%q, PROTOCOL_VIOLATION expected=%v",
					c25wRanges(rs), unsent, x.closeObs, unsent >= 0))
			}
			if unsent >= 0 {
				x.o.Stat("wire:ack-of-unsent")
			}
			if skipCovered {
				x.o.Stat("wire:ack-of-skipped")
			}
		}
	case t[0] == "wait" && len(t) == 2:
		ms := vu.Atoi(t[1])
		if ms < 0 || ms > 1000 {
			return bad()
		}
		time.Sleep(time.Duration(ms) * time.Millisecond)
		x.drain()
	case t[0] == "skipsoon" && len(t) == 2:
		k := vu.Atoi(t[1])
		if k < 0 || k > 1000 || x.space != appDataSpace {
			return bad()
		}
		// only ever move the PRNG-chosen number closer
		if want := c.loss.spaces[appDataSpace].nextNum + packetNumber(k); want < c.skip.skip {
			c.skip.skip = want
		}
		x.obs = append(x.obs, "-")
	default:
		return bad()
	}
	if len(x.obs) == 0 {
		x.obs = append(x.obs, "-")
	}
	return op + " => " + strings.Join(x.obs, " ")
}
