//go:build verif

// C25 harness, tie "acks": quic/acks.go ackState + packetWriter.appendAckFrame +
// consumeAckFrame, driven white-box (package quic test file).
//
//	reset <space>            fresh ackState
//	arrive <num> <0|1>       what conn_recv.go does: if shouldProcess(num) { receive(...) }
//	should <num>             shouldProcess query
//	hack <largest>           handleAck(largest)  (an ACK for one of our ACK-carrying packets)
//	sent                     sentAck()
//	frame <avail> <delay>    acksToSend -> appendAckFrame (avail bytes left) -> consumeAckFrame
//	sweep <delay> <s-e,…>    appendAckFrame on the given range set for EVERY room size 0..full+2, each frame
//	                         decoded with consumeAckFrame: the ranges on the wire must be the newest ranges of the
//	                         set, in order (a prefix, newest first); result: number of ranges per room size
//
// Result lines carry the complete `seen` rangeset and unackedAckEliciting.
package quic

import (
	"fmt"
	"strings"
	"testing"
	"time"

	vu "golang.org/x/net/internal/verifutil"
)

func TestVerifC25Acks(t *testing.T) {
	vu.Run(vu.ConfigFromEnv(), c25Gen, c25Exec)
}

var c25Base = time.Date(2024, 1, 1, 0, 0, 0, 0, time.UTC)

// c25SweepSet: a range set whose gaps and lengths straddle the varint size boundaries.
func c25SweepSet(r *vu.Rng) string {
	pool := []int64{1, 1, 2, 3, 10, 62, 63, 64, 65, 66, 100, 16382, 16383, 16384, 16385, 16386, 1<<30 - 1, 1 << 30, 1<<30 + 1, 1<<30 + 2}
	nr := r.Range(2, 8)
	if r.Chance(1, 12) {
		nr = r.Range(62, 70) // more ranges than fit the one-byte range count
	}
	pos := int64(r.Intn(3))
	if r.Chance(1, 4) {
		pos = int64(r.Boundary(40))
	}
	var parts []string
	for j := 0; j < nr; j++ {
		ln := pool[r.Intn(len(pool))]
		if nr > 10 {
			ln = int64(r.Range(1, 2))
		}
		parts = append(parts, fmt.Sprintf("%d-%d", pos, pos+ln))
		gap := pool[r.Intn(len(pool))]
		if nr > 10 {
			gap = int64(r.Range(1, 70))
		}
		pos += ln + gap // next start: at least one missing number in between
	}
	return strings.Join(parts, ",")
}

func c25Gen(r *vu.Rng, i int) []string {
	space := r.Intn(3)
	ops := []string{fmt.Sprintf("reset %d", space)}
	if r.Chance(1, 4) {
		for j, m := 0, r.Range(1, 4); j < m; j++ {
			ops = append(ops, fmt.Sprintf("sweep %d %s", r.Boundary(30), c25SweepSet(r)))
		}
		return ops
	}
	var sim ackState // only used to aim the generator at interesting numbers
	now := c25Base
	n := r.Range(5, 90)
	next := int64(0)
	if r.Chance(1, 6) {
		next = int64(r.Boundary(40))
	}
	var sentLargest []int64
	var hist []int64
	stride := int64(1)
	if r.Chance(1, 3) {
		stride = 2 // every other packet lost: one range per packet, overflows maxAckRanges quickly
	}
	for k := 0; k < n; k++ {
		switch x := r.Intn(20); {
		case x < 11:
			var num int64
			switch r.Intn(12) {
			case 0, 1: // duplicate of something that arrived
				if len(hist) > 0 {
					num = hist[r.Intn(len(hist))]
				}
			case 2: // just below the oldest remembered range (pruned territory)
				num = int64(sim.seen.min()) - int64(r.Range(1, 3))
			case 3: // inside a gap between ranges
				if len(sim.seen) >= 2 {
					j := r.Intn(len(sim.seen) - 1)
					num = int64(sim.seen[j].end) + int64(r.Intn(int(sim.seen[j+1].start-sim.seen[j].end)))
				} else {
					num = next
				}
			case 4: // far jump ahead
				next += int64(r.Range(2, 50))
				num = next
				next++
			case 5: // reordered: a little behind
				num = next - int64(r.Range(1, 6))
			default:
				num = next
				next += stride
				if r.Chance(1, 5) {
					next += int64(r.Range(1, 3))
				}
			}
			if num < 0 {
				num = 0
			}
			ae := r.Intn(4) != 0
			ops = append(ops, fmt.Sprintf("arrive %d %d", num, c25b2i(ae)))
			hist = append(hist, num)
			if sim.shouldProcess(packetNumber(num)) {
				sim.receive(now, numberSpace(space), packetNumber(num), ae, ecnNotECT)
			}
		case x < 13:
			num := next - int64(r.Range(0, 20))
			if r.Bool() && len(sim.seen) > 0 {
				num = int64(sim.seen.min()) + int64(r.Range(-2, 2))
			}
			if num < 0 {
				num = 0
			}
			ops = append(ops, fmt.Sprintf("should %d", num))
		case x < 16:
			avail := 1200
			switch r.Intn(4) {
			case 0:
				avail = r.Range(0, 12)
			case 1:
				avail = r.Range(4, 40)
			}
			delay := int64(r.Boundary(30))
			ops = append(ops, fmt.Sprintf("frame %d %d", avail, delay))
			if s, _ := sim.acksToSend(now); len(s) > 0 {
				sentLargest = append(sentLargest, int64(s.max()))
			}
			if r.Chance(3, 4) {
				ops = append(ops, "sent")
				sim.sentAck()
			}
		case x < 19:
			var la int64
			switch {
			case len(sentLargest) > 0 && r.Chance(3, 4):
				la = sentLargest[r.Intn(len(sentLargest))]
			case len(sim.seen) > 0 && r.Bool():
				j := r.Intn(len(sim.seen))
				la = int64(sim.seen[j].start) + int64(r.Intn(int(sim.seen[j].size())))
			default:
				la = next + int64(r.Range(-10, 10))
			}
			if la < 0 {
				la = 0
			}
			ops = append(ops, fmt.Sprintf("hack %d", la))
			sim.handleAck(packetNumber(la))
		default:
			ops = append(ops, "sent")
			sim.sentAck()
		}
	}
	return ops
}

func c25b2i(b bool) int {
	if b {
		return 1
	}
	return 0
}

type c25State struct {
	acks      *ackState
	space     numberSpace
	now       time.Time
	received  map[int64]bool // oracle: every number that arrived
	processed map[int64]bool // oracle: every number that was processed
}

func c25Exec(ops []string, o *vu.Out) {
	st := &c25State{}
	for _, op := range ops {
		o.Op(op, vu.Catch(func() string { return c25Step(st, op, o) }))
	}
}

func c25Ranges(s rangeset[packetNumber]) string {
	if len(s) == 0 {
		return "-"
	}
	var b strings.Builder
	for i, r := range s {
		if i > 0 {
			b.WriteByte(',')
		}
		fmt.Fprintf(&b, "%d-%d", r.start, r.end)
	}
	return b.String()
}

func c25StateStr(st *c25State) string {
	return fmt.Sprintf("seen=%s unacked=%d", c25Ranges(st.acks.seen), st.acks.unackedAckEliciting)
}

// c25Oracle: the property on the real ackState after every operation.
func c25Oracle(st *c25State, o *vu.Out, op string) {
	a := st.acks
	for _, r := range a.seen {
		if r.size() > 1<<20 {
			o.Fail("", fmt.Sprintf("%s: seen range %d-%d larger than everything that ever arrived", op, r.start, r.end))
			return
		}
		for n := r.start; n < r.end; n++ {
			if !st.received[int64(n)] {
				o.Fail("", fmt.Sprintf("%s: seen contains %d which never arrived", op, n))
				return
			}
		}
	}
	// processed ⊆ seen ∪ [0, seen.min): anything processed is still refused
	bad := int64(-1)
	for n := range st.processed {
		if a.shouldProcess(packetNumber(n)) && (bad < 0 || n < bad) {
			bad = n
		}
	}
	if bad >= 0 {
		o.Fail("", fmt.Sprintf("%s: packet %d was processed and shouldProcess accepts it again (seen=%s)", op, bad, c25Ranges(a.seen)))
	}
	if a.nextAck.IsZero() != (a.unackedAckEliciting == 0) {
		o.Fail("", fmt.Sprintf("%s: nextAck.IsZero()=%v but unackedAckEliciting=%d", op, a.nextAck.IsZero(), a.unackedAckEliciting))
	}
}

func c25Step(st *c25State, op string, o *vu.Out) string {
	t := strings.Fields(op)
	if len(t) == 0 {
		return "bad-op"
	}
	o.Stat("op:" + t[0])
	if t[0] == "reset" && len(t) == 2 {
		sp := vu.Atoi(t[1])
		if sp < 0 || sp > 2 {
			return "bad-op"
		}
		st.acks = &ackState{}
		st.space = numberSpace(sp)
		st.now = c25Base
		st.received = map[int64]bool{}
		st.processed = map[int64]bool{}
		return "ok " + c25StateStr(st)
	}
	if st.acks == nil {
		return "bad-op"
	}
	a := st.acks
	st.now = st.now.Add(time.Millisecond)
	switch {
	case t[0] == "arrive" && len(t) == 3 && (t[2] == "0" || t[2] == "1"):
		num := vu.Atoi64(t[1])
		if num < 0 || num >= 1<<62 {
			return "bad-op"
		}
		st.received[num] = true
		res := "ok drop"
		if a.shouldProcess(packetNumber(num)) {
			// ---- oracle: a packet number is never processed twice
			if st.processed[num] {
				o.Fail("", fmt.Sprintf("packet %d processed twice (seen=%s)", num, c25Ranges(a.seen)))
			}
			st.processed[num] = true
			a.receive(st.now, st.space, packetNumber(num), t[2] == "1", ecnNotECT)
			res = "ok proc"
			o.Stat("arrive:proc")
			if len(a.seen) > 8 {
				o.Fail("", fmt.Sprintf("more than maxAckRanges ranges remembered: %s", c25Ranges(a.seen)))
			}
		} else {
			o.Stat("arrive:drop")
			if !st.processed[num] {
				o.Stat("arrive:drop-unprocessed") // allowed: pruned territory
			}
		}
		c25Oracle(st, o, op)
		return res + " " + c25StateStr(st)
	case t[0] == "should" && len(t) == 2:
		num := vu.Atoi64(t[1])
		return fmt.Sprintf("ok %v", a.shouldProcess(packetNumber(num)))
	case t[0] == "hack" && len(t) == 2:
		a.handleAck(packetNumber(vu.Atoi64(t[1])))
		c25Oracle(st, o, op)
		return "ok " + c25StateStr(st)
	case t[0] == "sent" && len(t) == 1:
		a.sentAck()
		c25Oracle(st, o, op)
		return "ok " + c25StateStr(st)
	case t[0] == "sweep" && len(t) == 3:
		delay := vu.Atoi64(t[1])
		if delay < 0 || delay >= 1<<62 {
			return "bad-op"
		}
		var set rangeset[packetNumber]
		prev := int64(-1)
		for _, part := range strings.Split(t[2], ",") {
			var lo, hi int64
			if n, err := fmt.Sscanf(part, "%d-%d", &lo, &hi); n != 2 || err != nil || fmt.Sprintf("%d-%d", lo, hi) != part ||
				lo <= prev || hi <= lo || hi >= 1<<61 {
				return "bad-op" // ranges must be non-empty, increasing and non-adjacent
			}
			set = append(set, i64range[packetNumber]{packetNumber(lo), packetNumber(hi)})
			prev = hi
		}
		if len(set) == 0 || len(set) > 100 {
			return "bad-op"
		}
		build := func(avail int) (ranges []i64range[packetNumber], size int, added bool) {
			var w packetWriter
			w.b = make([]byte, 0, avail+16)
			w.pktLim = avail
			w.sent = newSentPacket()
			added = w.appendAckFrame(set, unscaledAckDelay(delay), ecnCounts{})
			if !added {
				if len(w.b) != 0 {
					o.Fail("", fmt.Sprintf("appendAckFrame(room %d) wrote bytes but reported added=false", avail))
				}
				return nil, 0, false
			}
			if len(w.b) > avail {
				o.Fail("", fmt.Sprintf("appendAckFrame wrote %d bytes with room %d", len(w.b), avail))
			}
			_, _, _, n := consumeAckFrame(w.b, func(_ int, start, end packetNumber) {
				ranges = append(ranges, i64range[packetNumber]{start, end})
			})
			if n != len(w.b) {
				o.Fail("", fmt.Sprintf("ACK frame %x built with room %d does not parse back", w.b, avail))
			}
			return ranges, len(w.b), true
		}
		_, full, ok := build(65536)
		if !ok {
			return "err full"
		}
		var ks []string
		for avail := 0; avail <= full+2; avail++ {
			ranges, _, added := build(avail)
			if !added {
				ks = append(ks, "-1")
				continue
			}
			ks = append(ks, fmt.Sprint(len(ranges)))
			o.Stat("sweep:frames")
			if len(ranges) < len(set) {
				o.Stat("sweep:truncated")
			}
			// ---- oracle: the frame acknowledges exactly the newest len(ranges) ranges of the set
			for j, rg := range ranges {
				if j >= len(set) || rg != set[len(set)-1-j] {
					o.Fail("", fmt.Sprintf("ACK frame built with room %d for %s carries range #%d = [%d,%d), which is not the set's range #%d from the top: it acknowledges packet numbers that were not received",
						avail, t[2], j, rg.start, rg.end, j))
					break
				}
			}
		}
		return fmt.Sprintf("ok full=%d k=%s", full, strings.Join(ks, ","))
	case t[0] == "frame" && len(t) == 3:
		avail := vu.Atoi(t[1])
		delay := vu.Atoi64(t[2])
		if avail < 0 || avail > 65536 || delay < 0 || delay >= 1<<62 {
			return "bad-op"
		}
		seen, _ := a.acksToSend(st.now)
		var w packetWriter
		w.b = make([]byte, 0, avail+16)
		w.pktLim = avail
		w.sent = newSentPacket()
		added := w.appendAckFrame(seen, unscaledAckDelay(delay), a.ecn)
		if !added {
			if len(w.b) != 0 {
				o.Fail("", "appendAckFrame wrote bytes but reported added=false")
			}
			return "ok none"
		}
		if len(w.b) > avail {
			o.Fail("", fmt.Sprintf("appendAckFrame wrote %d bytes with %d available", len(w.b), avail))
		}
		var rs []string
		ok := true
		largest, d, _, n := consumeAckFrame(w.b, func(_ int, start, end packetNumber) {
			rs = append(rs, fmt.Sprintf("%d-%d", start, end))
			if end-start > 1<<20 {
				ok = false
				return
			}
			for p := start; p < end; p++ {
				// ---- oracle: an ACK frame never acknowledges a packet number that did not arrive
				if !st.received[int64(p)] && ok {
					ok = false
					o.Fail("", fmt.Sprintf("ACK frame acknowledges %d which never arrived (seen=%s)", p, c25Ranges(a.seen)))
				}
			}
		})
		if n != len(w.b) {
			o.Fail("", fmt.Sprintf("ACK frame %x does not parse back (n=%d)", w.b, n))
			return "err frame"
		}
		o.Stat(fmt.Sprintf("frame:ranges=%d", len(rs)))
		if len(rs) < len(seen) {
			o.Stat("frame:truncated")
		}
		return fmt.Sprintf("ok %d %d %s", largest, d, strings.Join(rs, ","))
	}
	return "bad-op"
}
