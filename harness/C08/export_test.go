//go:build verif

// White-box accessors for the C08/C09 harnesses (injected into package http2 as an
// internal _test.go file; never committed to /repo).
package http2

import "sort"

// VerifC08View returns the server's own send-side flow-control state. It must only be
// called while the serve goroutine is idle (after synctest.Wait).
func (sc *serverConn) VerifC08View() (conn, initWin, maxFrame int32, ids []uint32, wins []int32) {
	conn = sc.flow.n
	initWin = sc.initialStreamSendWindowSize
	maxFrame = sc.maxFrameSize
	for id := range sc.streams {
		ids = append(ids, id)
	}
	sort.Slice(ids, func(i, j int) bool { return ids[i] < ids[j] })
	for _, id := range ids {
		wins = append(wins, sc.streams[id].flow.n)
	}
	return
}

// VerifC09View returns the client connection's own send-side flow-control state.
func (cc *ClientConn) VerifC09View() (conn int32, initWin, maxFrame uint32, ids []uint32, wins []int32) {
	cc.mu.Lock()
	defer cc.mu.Unlock()
	conn = cc.flow.n
	initWin = cc.initialWindowSize
	maxFrame = cc.maxFrameSize
	for id := range cc.streams {
		ids = append(ids, id)
	}
	sort.Slice(ids, func(i, j int) bool { return ids[i] < ids[j] })
	for _, id := range ids {
		wins = append(wins, cc.streams[id].flow.n)
	}
	return
}
