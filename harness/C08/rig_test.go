//go:build verif

// C08 trace harness: the server's outbound flow control on the package's own server rig
// (newServerTester inside a synctest bubble).
//
// A case is a script of client frames (SETTINGS, WINDOW_UPDATE, HEADERS, RST_STREAM) and handler
// steps (write n bytes + Flush, return). Every step is performed, the bubble is run to quiescence
// (synctest.Wait) and every frame the server wrote is appended to the op line after "=>" in wire
// order. The Lean monitor (Model/SendWin.lean, `Mon`) validates each line; this file states the
// property directly on the recorded frames (safety: every DATA frame within the client's view of
// the stream window, the connection window and SETTINGS_MAX_FRAME_SIZE; liveness: at quiescence
// no handler data is pending on a stream whose stream and connection windows are both positive)
// and cross-checks the server's own counters against the client's view.
//
// Injected as http2/zz_verif_c08_test.go (package http2_test) with `go test -overlay`.
package http2_test

import (
	"fmt"
	"net/http"
	"os"
	"sort"
	"strings"
	"sync"
	"testing"
	"testing/synctest"
	"time"

	. "golang.org/x/net/http2"
	vu "golang.org/x/net/internal/verifutil"
)

const (
	c8MaxWin     = int64(1<<31 - 1)
	c8MinMFS     = int64(16384)
	c8MaxMFS     = int64(1<<24 - 1)
	c8Watchdog   = 120 * time.Second
	c8MaxWrite   = 1 << 20
	c8MaxStreams = 6
)

func TestVerifC08(t *testing.T) {
	cfg := vu.ConfigFromEnv()
	vu.Run(cfg, c8Gen, func(ops []string, o *vu.Out) { c8Case(t, ops, o, c8Exec) })
}

// c8Case runs one case inside a fresh bubble under a wall-clock watchdog.
func c8Case(t *testing.T, ops []string, o *vu.Out, exec func(*testing.T, []string, *vu.Out)) {
	wd := time.AfterFunc(c8Watchdog, func() {
		o.Fail("", fmt.Sprintf("watchdog: case did not finish within %v of wall-clock time", c8Watchdog))
		o.Close()
		os.Exit(3)
	})
	defer wd.Stop()
	// A panic in a goroutine of the code under test (e.g. outflow.take "took too much" in the Transport)
	// kills the process before anything is recorded: keep the case being run in a scratch file so that it
	// can be replayed by hand (removed again when the case ends normally).
	inflight := fmt.Sprintf("/tmp/verif-c08c09-inflight-%d.ops", os.Getpid())
	os.WriteFile(inflight, []byte("# case 0\n"+strings.Join(ops, "\n")+"\n"), 0o644)
	defer os.Remove(inflight)
	defer func() {
		if e := recover(); e != nil {
			o.Fail("", fmt.Sprintf("panic while running the case (deadlocked bubble or harness error): %v", e))
		}
	}()
	synctest.Test(t, func(t *testing.T) { exec(t, ops, o) })
}

// ---------------------------------------------------------------- peer's view (oracle)

type c8Stream struct {
	id   uint32
	win  int64 // client's view of the stream send window
	open bool  // server may still send DATA
	// handler side
	call      *serverHandlerCall
	mu        sync.Mutex
	busy      bool // a scripted write is still running in the handler goroutine
	failed    bool // a handler Write/Flush returned an error
	exited    bool
	committed int64 // bytes the handler has handed to Write (+Flush)
	received  int64 // DATA payload bytes seen on the wire
}

type c8Conn struct {
	t        *testing.T
	st       *serverTester
	o        *vu.Out
	conn     int64
	initWin  int64
	maxFrame int64
	dead     bool // connection error expected/seen: trace ends
	streams  map[uint32]*c8Stream
	obs      []string
	maxSid   uint32
	panicked string
}

func (c *c8Conn) sorted() []*c8Stream {
	ids := make([]int, 0, len(c.streams))
	for id := range c.streams {
		ids = append(ids, int(id))
	}
	sort.Ints(ids)
	out := make([]*c8Stream, 0, len(ids))
	for _, id := range ids {
		out = append(out, c.streams[uint32(id)])
	}
	return out
}

// onData is the safety clause of C08 for one DATA frame.
func (c *c8Conn) onData(sid uint32, n int64, fin bool) {
	s := c.streams[sid]
	if s == nil || !s.open {
		c.o.Fail("", fmt.Sprintf("DATA (%d bytes) on stream %d which is not open for sending", n, sid))
		return
	}
	if n > c.maxFrame {
		c.o.Fail("", fmt.Sprintf("DATA frame of %d bytes on stream %d exceeds the client's SETTINGS_MAX_FRAME_SIZE %d", n, sid, c.maxFrame))
	}
	if n > 0 && n > s.win {
		c.o.Fail("", fmt.Sprintf("DATA frame of %d bytes on stream %d exceeds the stream send window %d", n, sid, s.win))
	}
	if n > 0 && n > c.conn {
		c.o.Fail("", fmt.Sprintf("DATA frame of %d bytes on stream %d exceeds the connection send window %d", n, sid, c.conn))
	}
	if n > 0 {
		if n == s.win || n == c.conn {
			c.o.Stat("branch:data-exhausts-window")
		}
		if n == c.maxFrame {
			c.o.Stat("branch:data-at-max-frame")
		}
	}
	s.win -= n
	c.conn -= n
	s.received += n
	if s.received > s.committed {
		c.o.Fail("", fmt.Sprintf("stream %d: %d DATA bytes on the wire but the handler wrote only %d", sid, s.received, s.committed))
	}
	if fin {
		s.open = false
	}
}

func (c *c8Conn) drain() {
	for {
		f, err := c.st.fr.ReadFrame()
		if err != nil {
			if err == os.ErrDeadlineExceeded || err == errWouldBlock {
				return
			}
			if !c.dead {
				c.obs = append(c.obs, "closed")
			}
			c.dead = true
			return
		}
		switch f := f.(type) {
		case *DataFrame:
			sid, n, fin := f.Header().StreamID, int64(len(f.Data())), f.StreamEnded()
			c.obs = append(c.obs, fmt.Sprintf("data:%d:%d:%d", sid, n, c8b(fin)))
			if int64(f.Header().Length) != n {
				c.o.Fail("", "server sent a padded DATA frame")
			}
			c.onData(sid, n, fin)
		case *HeadersFrame:
			sid := f.Header().StreamID
			if f.StreamEnded() {
				c.obs = append(c.obs, fmt.Sprintf("end:%d", sid))
				if s := c.streams[sid]; s != nil {
					s.open = false
				}
			} else {
				c.obs = append(c.obs, fmt.Sprintf("hdrs:%d", sid))
			}
		case *RSTStreamFrame:
			sid := f.Header().StreamID
			c.obs = append(c.obs, fmt.Sprintf("rst:%d:%d", sid, uint32(f.ErrCode)))
			if s := c.streams[sid]; s != nil {
				s.open = false
			}
		case *GoAwayFrame:
			c.obs = append(c.obs, fmt.Sprintf("goaway:%d", uint32(f.ErrCode)))
			if f.ErrCode != ErrCodeNo {
				c.dead = true
			}
		case *SettingsFrame:
			if f.IsAck() {
				c.obs = append(c.obs, "ack")
			} else {
				c.obs = append(c.obs, "frame")
				c.st.writeSettingsAck()
				synctest.Wait()
			}
		case *WindowUpdateFrame:
			c.obs = append(c.obs, fmt.Sprintf("wuout:%d:%d", f.Header().StreamID, f.Increment))
		default:
			c.obs = append(c.obs, "frame")
		}
	}
}

func (c *c8Conn) settle() {
	synctest.Wait()
	c.drain()
}

// quiescent is the liveness clause plus the white-box comparison, evaluated after every step.
func (c *c8Conn) quiescent(where string) {
	if c.panicked != "" {
		c.o.Fail("", fmt.Sprintf("%s: serverConn.serve panicked: %s", where, c.panicked))
		c.panicked = ""
		c.dead = true
	}
	if c.dead {
		return
	}
	for _, s := range c.sorted() {
		s.mu.Lock()
		busy, failed, committed := s.busy, s.failed, s.committed
		s.mu.Unlock()
		pending := committed - s.received
		if !s.open || failed {
			continue
		}
		if pending > 0 {
			if s.win > 0 && c.conn > 0 {
				c.o.Fail("", fmt.Sprintf("%s: stream %d has %d handler bytes pending although the stream window (%d) and the connection window (%d) are both positive", where, s.id, pending, s.win, c.conn))
			} else if s.win <= 0 {
				c.o.Stat("quiesce:blocked-on-stream-window")
				if s.win < 0 {
					c.o.Stat("quiesce:stream-window-negative")
				}
			} else {
				c.o.Stat("quiesce:blocked-on-conn-window")
			}
		} else if busy {
			c.o.Fail("", fmt.Sprintf("%s: stream %d: every handler byte is on the wire but Write/Flush has not returned", where, s.id))
		} else if committed > 0 {
			c.o.Stat("quiesce:all-sent")
		}
	}
	// the server's own counters must equal the client's view
	if c.st.sc != nil {
		conn, iw, mfs, ids, wins := c.st.sc.VerifC08View()
		if int64(conn) != c.conn {
			c.o.Fail("", fmt.Sprintf("%s: server's connection send window %d differs from the client's view %d", where, conn, c.conn))
		}
		if int64(iw) != c.initWin {
			c.o.Fail("", fmt.Sprintf("%s: server's initial stream send window %d differs from the client's SETTINGS %d", where, iw, c.initWin))
		}
		if int64(mfs) != c.maxFrame {
			c.o.Fail("", fmt.Sprintf("%s: server's max frame size %d differs from the client's SETTINGS %d", where, mfs, c.maxFrame))
		}
		for i, id := range ids {
			if s := c.streams[id]; s != nil && s.open && int64(wins[i]) != s.win {
				c.o.Fail("", fmt.Sprintf("%s: server's send window %d of stream %d differs from the client's view %d", where, wins[i], id, s.win))
			}
		}
	}
}

func c8b(b bool) int {
	if b {
		return 1
	}
	return 0
}

func c8OptInt(s string) (int64, bool) {
	if s == "-" {
		return 0, false
	}
	return vu.Atoi64(s), true
}

// ---------------------------------------------------------------- executor

func c8Exec(t *testing.T, ops []string, o *vu.Out) {
	var c *c8Conn
	// every recorded case starts with the line "begin" (tells the Lean driver to forget the previous case)
	if len(ops) == 0 || strings.TrimSpace(ops[0]) != "begin" {
		o.Op("begin", "ok")
	}
	for i, op := range ops {
		base := strings.TrimSpace(strings.SplitN(op, "=>", 2)[0])
		f := strings.Fields(base)
		if len(f) == 0 {
			o.Op(op, "bad-op")
			continue
		}
		if base == "begin" {
			if i == 0 {
				o.Op("begin", "ok")
			} else {
				o.Op(op, "bad-op")
			}
			continue
		}
		if f[0] == "reset" {
			if len(f) != 2 || c != nil {
				o.Op(op, "bad-op")
				continue
			}
			c = &c8Conn{t: t, o: o, conn: 65535, initWin: 65535, maxFrame: 16384, streams: map[uint32]*c8Stream{}}
			cc := c
			SetTestHookOnPanic(t, func(sc *ServerConn, v interface{}) bool {
				cc.panicked = fmt.Sprint(v)
				return false
			})
			var sched func() WriteScheduler
			switch f[1] {
			case "rr":
				sched = NewRoundRobinWriteScheduler
			case "p9218":
				sched = NewPriorityWriteSchedulerRFC9218
			case "p7540":
				sched = func() WriteScheduler { return NewPriorityWriteScheduler(nil) }
			case "p7540t":
				sched = func() WriteScheduler {
					return NewPriorityWriteScheduler(&PriorityWriteSchedulerConfig{MaxClosedNodesInTree: 3, MaxIdleNodesInTree: 3, ThrottleOutOfOrderWrites: true})
				}
			case "default":
			default:
				o.Op(op, "bad-op")
				c = nil
				continue
			}
			c.st = newServerTester(t, nil, func(s *Server) { s.NewWriteScheduler = sched }, optQuiet)
			c.st.fr.AllowIllegalWrites = true
			c.st.writePreface()
			o.Stat("op:reset:" + f[1])
			o.Op(base, "ok")
			continue
		}
		if c == nil {
			o.Op(op, "bad-op")
			continue
		}
		if c.dead {
			o.Op(base, "ok")
			continue
		}
		c.obs = nil
		valid := true
		switch f[0] {
		case "settings":
			if len(f) != 3 {
				valid = false
				break
			}
			var ss []Setting
			mfs, hasM := c8OptInt(f[1])
			iw, hasI := c8OptInt(f[2])
			if (hasM && (mfs < 0 || mfs > 1<<32-1)) || (hasI && (iw < 0 || iw > 1<<32-1)) {
				valid = false
				break
			}
			bad := false
			if hasM {
				ss = append(ss, Setting{ID: SettingMaxFrameSize, Val: uint32(mfs)})
				if mfs < c8MinMFS || mfs > c8MaxMFS {
					bad = true
					o.Stat("branch:settings-invalid-mfs")
				} else {
					c.maxFrame = mfs
				}
			}
			if hasI && !bad {
				if iw > c8MaxWin {
					bad = true
					o.Stat("branch:settings-invalid-iw")
				} else {
					d := iw - c.initWin
					c.initWin = iw
					for _, s := range c.streams {
						if s.open {
							s.win += d
							if s.win > c8MaxWin {
								bad = true // the server must answer with FLOW_CONTROL_ERROR
								o.Stat("branch:settings-overflows-stream-window")
							}
							if s.win < 0 {
								o.Stat("branch:settings-drives-window-negative")
							}
						}
					}
				}
			}
			if hasI {
				ss = append(ss, Setting{ID: SettingInitialWindowSize, Val: uint32(iw)})
			}
			c.st.writeSettings(ss...)
			c.settle()
			if bad && !c.dead {
				o.Fail("", fmt.Sprintf("%q: illegal SETTINGS were not answered with a connection error", base))
				c.dead = true
			}
		case "wu":
			if len(f) != 3 {
				valid = false
				break
			}
			sid, inc := uint32(vu.Atoi64(f[1])), vu.Atoi64(f[2])
			if inc < 0 || inc > c8MaxWin {
				valid = false
				break
			}
			expectDead, expectRst := false, false
			if sid == 0 {
				c.conn += inc
				if inc == 0 || c.conn > c8MaxWin {
					expectDead = true
					o.Stat("branch:wu-conn-illegal")
				}
			} else if s := c.streams[sid]; s != nil && s.open {
				s.win += inc
				if inc == 0 || s.win > c8MaxWin {
					expectRst = true
					o.Stat("branch:wu-stream-illegal")
				}
			} else if s == nil {
				c.obs = append(c.obs, "skip") // never opened: not part of the scripts (idle-stream error)
				break
			}
			c.st.writeWindowUpdate(sid, uint32(inc))
			c.settle()
			if expectDead && !c.dead {
				o.Fail("", fmt.Sprintf("%q: illegal connection-level WINDOW_UPDATE was not answered with a connection error", base))
				c.dead = true
			}
			if expectRst {
				if s := c.streams[sid]; s.open && !c.dead {
					o.Fail("", fmt.Sprintf("%q: illegal stream-level WINDOW_UPDATE was not answered with RST_STREAM", base))
					s.open = false
				}
			}
		case "hdr":
			// hdr <sid> [<dep> <weight-1> <exclusive>]: request HEADERS, optionally with RFC 7540 priority
			if len(f) != 2 && len(f) != 5 {
				valid = false
				break
			}
			sid := uint32(vu.Atoi64(f[1]))
			if sid%2 == 0 || sid == 0 {
				valid = false
				break
			}
			var prio PriorityParam
			if len(f) == 5 {
				dep, w := vu.Atoi64(f[2]), vu.Atoi64(f[3])
				if dep < 0 || dep > 1<<31-1 || w < 0 || w > 255 || uint32(dep) == sid || (f[4] != "0" && f[4] != "1") {
					valid = false
					break
				}
				prio = PriorityParam{StreamDep: uint32(dep), Weight: uint8(w), Exclusive: f[4] == "1"}
				o.Stat("branch:hdr-with-priority")
			}
			if c.streams[sid] != nil || sid < c.maxSid {
				c.obs = append(c.obs, "skip")
				break
			}
			c.maxSid = sid
			s := &c8Stream{id: sid, win: c.initWin, open: true}
			c.streams[sid] = s
			c.st.writeHeaders(HeadersFrameParam{StreamID: sid, BlockFragment: c.st.encodeHeader(), EndStream: true, EndHeaders: true, Priority: prio})
			synctest.Wait()
			c.st.callsMu.Lock()
			if len(c.st.calls) > 0 {
				s.call = c.st.calls[0]
				c.st.calls = c.st.calls[1:]
			}
			c.st.callsMu.Unlock()
			c.settle()
		case "prio":
			// prio <sid> <dep> <weight-1> <exclusive>: PRIORITY frame (any stream, idle ones included)
			if len(f) != 5 {
				valid = false
				break
			}
			sid, dep, w := vu.Atoi64(f[1]), vu.Atoi64(f[2]), vu.Atoi64(f[3])
			if sid < 1 || sid > 1<<31-1 || dep < 0 || dep > 1<<31-1 || dep == sid || w < 0 || w > 255 || (f[4] != "0" && f[4] != "1") {
				valid = false
				break
			}
			c.st.writePriority(uint32(sid), PriorityParam{StreamDep: uint32(dep), Weight: uint8(w), Exclusive: f[4] == "1"})
			c.settle()
		case "prst":
			if len(f) != 2 {
				valid = false
				break
			}
			sid := uint32(vu.Atoi64(f[1]))
			s := c.streams[sid]
			if s == nil {
				c.obs = append(c.obs, "skip")
				break
			}
			s.open = false
			c.st.writeRSTStream(sid, ErrCodeCancel)
			c.settle()
		case "write":
			if len(f) != 4 {
				valid = false
				break
			}
			s := c.streams[uint32(vu.Atoi64(f[1]))]
			n, k := vu.Atoi64(f[2]), vu.Atoi64(f[3])
			if n < 1 || n > c8MaxWrite || k < 0 {
				valid = false
				break
			}
			if s == nil {
				c.obs = append(c.obs, "skip")
				break
			}
			s.mu.Lock()
			busy := s.busy
			s.mu.Unlock()
			if s.call == nil || s.exited || busy || !s.open {
				c.obs = append(c.obs, "skip")
				break
			}
			s.mu.Lock()
			s.busy = true
			s.committed += n
			s.mu.Unlock()
			call := s.call
			call.ch <- func() {
				var err error
				rem := n
				for rem > 0 && err == nil {
					m := rem
					if k > 0 && m > k {
						m = k
					}
					_, err = call.w.Write(make([]byte, m))
					rem -= m
				}
				if err == nil {
					if fl, ok := call.w.(http.Flusher); ok {
						fl.Flush()
					}
				}
				s.mu.Lock()
				s.busy = false
				if err != nil {
					s.failed = true
				}
				s.mu.Unlock()
			}
			c.settle()
		case "hexit":
			if len(f) != 2 {
				valid = false
				break
			}
			s := c.streams[uint32(vu.Atoi64(f[1]))]
			if s == nil {
				c.obs = append(c.obs, "skip")
				break
			}
			s.mu.Lock()
			busy := s.busy
			s.mu.Unlock()
			if s.call == nil || s.exited || busy {
				c.obs = append(c.obs, "skip")
				break
			}
			s.exited = true
			s.call.exit()
			c.settle()
			if s.open && !c.dead {
				o.Fail("", fmt.Sprintf("%q: handler returned with nothing pending but the stream was not ended", base))
			}
		case "quiesce":
			if len(f) != 1 {
				valid = false
				break
			}
			c.settle()
		default:
			valid = false
		}
		if !valid {
			o.Op(op, "bad-op")
			continue
		}
		o.Stat("op:" + f[0])
		c.quiescent(fmt.Sprintf("after %q", base))
		line := base
		if len(c.obs) > 0 {
			line += " => " + strings.Join(c.obs, " ")
		}
		o.Op(line, "ok")
	}
}

// ---------------------------------------------------------------- generator

type c8gs struct {
	id      int
	win     int64
	pending int64
	open    bool
	handler bool
}

func c8PickMFS(r *vu.Rng) int64 {
	switch r.Intn(8) {
	case 0:
		return c8MinMFS
	case 1:
		return c8MinMFS + int64(r.Range(1, 3))
	case 2:
		return c8MaxMFS
	case 3:
		return c8MaxMFS - int64(r.Range(1, 3))
	case 4:
		return int64(r.Range(16384, 70000))
	default:
		return int64(r.Range(16384, 1<<24-1))
	}
}

func c8PickIW(r *vu.Rng) int64 {
	switch r.Intn(12) {
	case 0, 1:
		return 0
	case 2:
		return int64(r.Range(1, 10))
	case 3:
		return int64(r.Range(10, 5000))
	case 4:
		return 16384 + int64(r.Range(-1, 1))
	case 5:
		return 65535
	case 6:
		return int64(r.Range(60000, 300000))
	case 7:
		return c8MaxWin
	case 8:
		return c8MaxWin - int64(r.Intn(70000))
	default:
		return int64(r.Range(0, 140000))
	}
}

func c8Gen(r *vu.Rng, i int) []string {
	var ops []string
	add := func(format string, a ...any) { ops = append(ops, fmt.Sprintf(format, a...)) }
	sched := []string{"default", "rr", "p9218", "p7540", "p7540", "p7540t"}[r.Intn(6)]
	add("reset %s", sched)
	prioHeavy := strings.HasPrefix(sched, "p7540") || r.Chance(1, 4)
	// RFC 7540 priority parameters: dependency on root, a live/closed/idle stream; weights from a small pool
	// with distinct values so that sibling weights differ on several levels of the tree
	pickPrio := func(self int, known []int) (int, int, int) {
		dep := 0
		switch k := r.Intn(10); {
		case k < 3 || len(known) == 0:
		case k < 9:
			dep = known[r.Intn(len(known))]
		default:
			dep = self + 2*r.Range(1, 4) // an idle stream
		}
		if dep == self {
			dep = 0
		}
		w := []int{0, 1, 9, 15, 99, 199, 254, 255}[r.Intn(8)]
		if r.Chance(1, 4) {
			w = r.Intn(256)
		}
		ex := 0
		if r.Chance(1, 8) {
			ex = 1
		}
		return dep, w, ex
	}
	conn, initWin, maxFrame := int64(65535), int64(65535), int64(16384)
	var streams []*c8gs
	dead := false
	nextID := 1
	optS := func(v int64, has bool) string {
		if !has {
			return "-"
		}
		return fmt.Sprint(v)
	}
	// flush simulates the server sending whatever the windows allow (approximation used for steering only)
	flush := func() {
		for _, s := range streams {
			if !s.open || s.pending == 0 {
				continue
			}
			n := s.pending
			if s.win < n {
				n = s.win
			}
			if conn < n {
				n = conn
			}
			if n > 0 {
				s.pending -= n
				s.win -= n
				conn -= n
			}
		}
	}
	settings := func(first bool) {
		hasM, hasI := r.Chance(1, 3), r.Chance(3, 4)
		if first {
			hasM, hasI = r.Chance(1, 2), r.Chance(5, 6)
		}
		var mfs, iw int64
		if hasM {
			mfs = c8PickMFS(r)
			if r.Chance(1, 60) {
				mfs = []int64{16383, 1 << 24, 0, 1<<32 - 1}[r.Intn(4)]
			}
		}
		if hasI {
			iw = c8PickIW(r)
			if !first && r.Chance(1, 3) {
				// aim at a live stream: shrink below what was sent, or grow to the edge of 2^31-1
				for _, s := range streams {
					if s.open {
						switch r.Intn(4) {
						case 0:
							iw = initWin - s.win - int64(r.Range(0, 3)) // window to 0 or just below
						case 1:
							iw = initWin + (c8MaxWin - s.win) + int64(r.Range(-1, 1)) // window to 2^31-1 (+-1)
						case 2:
							iw = initWin - int64(r.Range(1, 70000))
						default:
							iw = initWin + s.pending + int64(r.Range(-1, 1))
						}
						break
					}
				}
				if iw < 0 {
					iw = 0
				}
				if iw > c8MaxWin {
					iw = c8MaxWin
				}
			}
			if r.Chance(1, 60) {
				iw = []int64{1 << 31, 1<<32 - 1}[r.Intn(2)]
			}
		}
		add("settings %s %s", optS(mfs, hasM), optS(iw, hasI))
		if hasM {
			if mfs < c8MinMFS || mfs > c8MaxMFS {
				dead = true
				return
			}
			maxFrame = mfs
		}
		if hasI {
			if iw > c8MaxWin {
				dead = true
				return
			}
			d := iw - initWin
			initWin = iw
			for _, s := range streams {
				if s.open {
					s.win += d
					if s.win > c8MaxWin {
						dead = true
					}
				}
			}
		}
		flush()
	}
	openStream := func() *c8gs {
		s := &c8gs{id: nextID, win: initWin, open: true, handler: true}
		nextID += 2
		var known []int
		for _, x := range streams {
			known = append(known, x.id)
		}
		streams = append(streams, s)
		if prioHeavy && r.Chance(3, 4) {
			dep, w, ex := pickPrio(s.id, known)
			add("hdr %d %d %d %d", s.id, dep, w, ex)
		} else {
			add("hdr %d", s.id)
		}
		return s
	}
	prioOp := func() {
		var known []int
		for _, x := range streams {
			known = append(known, x.id)
		}
		sid := nextID + 2*r.Intn(3) // mostly existing streams, sometimes an idle one
		if len(known) > 0 && r.Chance(5, 6) {
			sid = known[r.Intn(len(known))]
		}
		dep, w, ex := pickPrio(sid, known)
		add("prio %d %d %d %d", sid, dep, w, ex)
	}
	pick := func() *c8gs {
		var live []*c8gs
		for _, s := range streams {
			if s.open {
				live = append(live, s)
			}
		}
		if len(live) == 0 || (len(live) < c8MaxStreams && r.Chance(1, 6)) {
			return openStream()
		}
		return live[r.Intn(len(live))]
	}
	write := func(s *c8gs) {
		if s.pending > 0 { // the handler is still blocked in Write
			return
		}
		var n int64
		w := s.win
		if conn < w {
			w = conn
		}
		switch r.Intn(12) {
		case 0:
			n = w + int64(r.Range(-1, 1))
		case 1:
			n = maxFrame + int64(r.Range(-1, 1))
		case 2:
			n = int64(r.Range(1, 10))
		case 3:
			n = 4096 + int64(r.Range(-1, 1))
		case 4:
			n = 2*maxFrame + int64(r.Range(-1, 1))
		case 5:
			n = int64(r.Range(1, 300000))
		case 6:
			n = w + int64(r.Range(1, 70000))
		default:
			n = int64(r.Range(1, 70000))
		}
		if n < 1 {
			n = 1
		}
		if n > c8MaxWrite {
			n = c8MaxWrite
		}
		k := int64(0)
		switch r.Intn(5) {
		case 0:
			k = int64(r.Range(1, 5000))
		case 1:
			k = 4096
		}
		if k > 0 && n/k > 400 {
			k = n/400 + 1
		}
		add("write %d %d %d", s.id, n, k)
		s.pending += n
		flush()
	}
	wu := func() {
		var sid int
		var cur, pend int64
		var tgt *c8gs
		if r.Chance(2, 5) || len(streams) == 0 {
			sid, cur = 0, conn
			for _, s := range streams {
				if s.open {
					pend += s.pending
				}
			}
		} else {
			tgt = pick()
			sid, cur, pend = tgt.id, tgt.win, tgt.pending
		}
		var inc int64
		switch r.Intn(14) {
		case 0:
			inc = 1
		case 1:
			inc = pend // exactly what is pending
		case 2:
			inc = pend + int64(r.Range(-1, 1))
		case 3:
			inc = -cur + int64(r.Range(0, 2)) // lift a negative window to 0 / just above
		case 4:
			inc = c8MaxWin - cur // to exactly 2^31-1
		case 5:
			if r.Chance(1, 3) {
				inc = c8MaxWin - cur + int64(r.Range(1, 2)) // overflow
			} else {
				inc = int64(r.Range(1, 20000))
			}
		case 6:
			if r.Chance(1, 4) {
				inc = 0
			} else {
				inc = maxFrame
			}
		case 7:
			inc = int64(r.Range(1, 100))
		default:
			inc = int64(r.Range(1, 140000))
		}
		if inc < 0 {
			inc = 0
		}
		if inc > c8MaxWin {
			inc = c8MaxWin
		}
		if inc == 0 && !r.Chance(1, 6) {
			inc = 1
		}
		add("wu %d %d", sid, inc)
		if tgt == nil {
			conn += inc
			if inc == 0 || conn > c8MaxWin {
				dead = true
			}
		} else {
			tgt.win += inc
			if inc == 0 || tgt.win > c8MaxWin {
				tgt.open = false
			}
		}
		flush()
	}
	settings(true)
	steps := r.Range(4, 36)
	if !dead {
		openStream()
	}
	if prioHeavy && !dead && r.Chance(1, 2) {
		// a burst of concurrent streams up front: a deeper dependency tree before any window opens
		for n := r.Range(2, 4); n > 0 && len(streams) < c8MaxStreams; n-- {
			openStream()
		}
		if r.Chance(1, 2) {
			for _, s := range streams {
				write(s)
			}
		}
	}
	for j := 0; j < steps && !dead; j++ {
		if prioHeavy && r.Chance(1, 10) {
			prioOp()
			continue
		}
		switch k := r.Intn(100); {
		case k < 34:
			write(pick())
		case k < 70:
			wu()
		case k < 84:
			settings(false)
		case k < 89:
			s := pick()
			add("prst %d", s.id)
			s.open = false
		case k < 95:
			s := pick()
			add("hexit %d", s.id)
			if s.pending == 0 {
				s.open = false
			}
		default:
			if len(streams) < c8MaxStreams {
				openStream()
			}
		}
	}
	if !dead && r.Chance(2, 3) {
		// wind down: open both windows wide, everything pending must drain
		if conn < c8MaxWin {
			add("wu 0 %d", c8MaxWin-conn)
		}
		for _, s := range streams {
			if s.open && s.win < s.pending && s.pending-s.win <= c8MaxWin {
				add("wu %d %d", s.id, s.pending-s.win)
			}
		}
	}
	add("quiesce")
	return ops
}
