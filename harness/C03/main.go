//go:build verif

// C03 harness: hpack decoding must not depend on how a header block is split into Writes.
// Two decoders run in lockstep over the whole case: A gets every block in the chunks of the op,
// B gets it in one Write. The result line is A's (compared with the Lean model); the oracle
// compares A with B (emitted fields, success/failure, table) after every block.
package main

import (
	"fmt"
	"strings"

	"golang.org/x/net/http2/hpack"
	vu "golang.org/x/net/internal/verifutil"
)

var tableSizes = []int{0, 64, 100, 256, 4096}
var strLens = []int{0, 0, 1, 3, 10, 40, 127}

func gen(r *vu.Rng, i int) []string {
	var ops []string
	ops = append(ops, fmt.Sprintf("new %d", tableSizes[r.Intn(len(tableSizes))]))
	g := &blockGen{r: r, overlong: r.Chance(1, 2)}
	if r.Chance(1, 12) {
		return append(ops, genLongRepr(r)...)
	}
	dyn := 0
	for b, nb := 0, r.Range(1, 3); b < nb; b++ {
		if r.Chance(1, 2) {
			g.maxStr = strLens[r.Intn(len(strLens))]
			ops = append(ops, fmt.Sprintf("maxstr %d", g.maxStr))
		}
		if r.Chance(1, 8) {
			ops = append(ops, fmt.Sprintf("emit %d", r.Intn(2)))
		}
		blk := g.block(dyn)
		dyn += 2
		var cuts []int
		if len(blk) <= 24 && r.Chance(1, 3) {
			// one op per split point of a short block
			for c := 0; c <= len(blk); c++ {
				ops = append(ops, fmt.Sprintf("blk %s %d", vu.Hex(blk), c))
			}
			continue
		}
		cuts = randomCuts(r, len(blk))
		ops = append(ops, fmt.Sprintf("blk %s %s", vu.Hex(blk), showCuts(cuts)))
	}
	return ops
}

// genLongRepr: one literal whose strings are as long as maxStrLen allows and whose three varints are
// over-long, so that the unparsed representation prefix approaches 2*(maxStrLen+10) (it exceeded the former bound 2*(maxStrLen+8)).
func genLongRepr(r *vu.Rng) []string {
	m := []int{1, 3, 20, 127}[r.Intn(4)]
	ex1, ex2 := r.Range(0, 9), r.Range(0, 9)
	var b []byte
	if r.Chance(1, 4) {
		b = appendVarInt(b, 7, 0x80, 62, 0) // a field before
	}
	b = append(b, []byte{0x00, 0x10, 0x40}[r.Intn(3)])
	name := strings.Repeat("n", m)
	val := strings.Repeat("v", m-r.Intn(2))
	if m < 127 {
		// lengths below 127 have no over-long form: use a 127-byte Huffman string? keep raw, canonical
		b = append(b, byte(len(name)))
		b = append(b, name...)
		b = append(b, byte(len(val)))
		b = append(b, val...)
	} else {
		b = appendVarInt(b, 7, 0, uint64(len(name)), ex1)
		b = append(b, name...)
		b = appendVarInt(b, 7, 0, uint64(len(val)), ex2)
		b = append(b, val...)
	}
	if r.Chance(1, 5) {
		b = b[:len(b)-r.Range(1, 3)] // truncated
	}
	ops := []string{fmt.Sprintf("maxstr %d", m)}
	var cuts []int
	if len(b) >= 3 {
		switch r.Intn(3) {
		case 0:
			cuts = []int{len(b) - r.Range(1, 6)}
		case 1:
			cuts = []int{r.Range(1, len(b)-1)}
		}
	}
	if len(cuts) == 1 && (cuts[0] <= 0 || cuts[0] >= len(b)) {
		cuts = nil
	}
	return append(ops, fmt.Sprintf("blk %s %s", vu.Hex(b), showCuts(cuts)))
}

type pair struct {
	a, b   *decw
	maxStr int
}

// writeAll is runBlock that also reports whether the saveBuf paranoia bound fired:
// the only path on which Write returns (0, ErrStringLength) for a non-empty p.
func writeAll(w *decw, chunks [][]byte, maxStr int, o *vu.Out) (em []hpack.HeaderField, err error, paranoia bool) {
	fed := 0
	for _, c := range chunks {
		n, e := w.d.Write(c)
		fed += len(c)
		if e != nil {
			paranoia = e == hpack.ErrStringLength && n == 0 && len(c) > 0
			// the bound is 2*(maxStrLen+10) unparsed bytes (the longest incomplete representation); it must not fire below that
			if paranoia && fed <= 2*(maxStr+10) {
				o.Fail("", fmt.Sprintf("saveBuf bound fired after only %d bytes of the block (maxStrLen=%d)", fed, maxStr))
			}
			return w.takeEmits(), e, paranoia
		}
	}
	err = w.d.Close()
	return w.takeEmits(), err, false
}

func exec(ops []string, o *vu.Out) {
	var p pair
	for _, op := range ops {
		t := strings.Fields(op)
		if len(t) == 0 {
			o.Op(op, "bad-op")
			continue
		}
		o.Stat("op:" + t[0])
		res := vu.Catch(func() string { return p.step(t, o) })
		if res == "panic" {
			o.Fail("", "hpack decoder panicked on "+op)
		}
		o.Op(op, res)
	}
}

func (p *pair) step(t []string, o *vu.Out) string {
	if t[0] == "new" && len(t) == 2 {
		n := uint32(vu.Atoi(t[1]))
		p.a, p.b, p.maxStr = newDecw(n), newDecw(n), 0
		return "ok"
	}
	if p.a == nil {
		return "bad-op"
	}
	switch {
	case t[0] == "maxstr" && len(t) == 2:
		p.maxStr = vu.Atoi(t[1])
		p.a.d.SetMaxStringLength(p.maxStr)
		p.b.d.SetMaxStringLength(p.maxStr)
		return "ok"
	case t[0] == "allowed" && len(t) == 2:
		p.a.d.SetAllowedMaxDynamicTableSize(uint32(vu.Atoi(t[1])))
		p.b.d.SetAllowedMaxDynamicTableSize(uint32(vu.Atoi(t[1])))
		return "ok"
	case t[0] == "emit" && len(t) == 2:
		p.a.d.SetEmitEnabled(t[1] == "1")
		p.b.d.SetEmitEnabled(t[1] == "1")
		return "ok"
	case t[0] == "blk" && len(t) == 3:
		blk := vu.MustHex(t[1])
		cuts := parseCuts(t[2])
		for i, c := range cuts {
			if c < 0 || c > len(blk) || (i > 0 && c < cuts[i-1]) {
				return "bad-op"
			}
		}
		emA, errA, parA := writeAll(p.a, chunksAt(blk, cuts), p.maxStr, o)
		emB, errB, parB := writeAll(p.b, [][]byte{blk}, p.maxStr, o)
		o.Stat("blk:" + strings.Fields(errTag(errA))[0])
		if len(cuts) > 0 {
			o.Stat("blk:split")
		}
		stA, stB := p.a.state(), p.b.state()
		if !sameFields(emA, emB) || (errA == nil) != (errB == nil) || stA != stB {
			if parA || parB {
				o.Stat("savebuf-bound-fired")
			}
			o.Fail("", fmt.Sprintf("block %x split at %s: emits %s / %v / %s; one Write: emits %s / %v / %s",
				blk, t[2], showEmits(emA), errTag(errA), stA, showEmits(emB), errTag(errB), stB))
		}
		return errTag(errA) + " E " + showEmits(emA) + " " + stA
	}
	return "bad-op"
}

func main() { vu.Main(gen, exec) }
