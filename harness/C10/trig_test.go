//go:build verif

// C10 / C11 trace harness on the Transport rig (newTestClientConn, synctest): the endpoint
// under test is the client, the harness plays the server ("peer") and the application
// (RoundTrip callers reading / closing response bodies, cancelling requests).
// Same line protocol as rig_test.go: `<step> => <observations>`; shares its helpers.
//
// Injected as http2/zz_verif_c10t_test.go together with rig_test.go, whose TestVerifC10 /
// TestVerifC11 alternate between the two rigs.
package http2_test

import (
	"errors"
	"fmt"
	"io"
	"net/http"
	"sort"
	"strconv"
	"strings"
	"testing"
	"testing/synctest"

	. "golang.org/x/net/http2"
	vu "golang.org/x/net/internal/verifutil"
)

const (
	vtPre = iota
	vtOpen
	vtHalf
	vtClosed
)

var errVerifReleased = errors.New("verif: request body released")

const sigGoAwayNotFlushed = "transport-goaway-not-flushed"

type vtStream struct {
	id       uint32
	kind     int
	rt       *testRoundTrip
	reqBody  *testRequestBody
	released bool
	pend     *vfRead
	closing  *vfRead // Body.Close in progress
	bodyDone bool    // Body.Close was called
	// the peer's / oracle's view
	status    int
	win       int64
	bodyBytes int64
	delivered int64
}

type vtConn struct {
	t          *testing.T
	tc         *testClientConn
	o          *vu.Out
	mode       string
	configured int64
	streamInit int64
	conn       int64
	dead       bool
	nextID     uint32
	streams    map[uint32]*vtStream
	sentinel   *testRoundTrip
	obs        []string
	sawFC      bool // connection-level FLOW_CONTROL_ERROR reported in this step
	wireFC     bool // ... as a GOAWAY frame on the wire
}

func (c *vtConn) sorted() []*vtStream {
	ids := make([]int, 0, len(c.streams))
	for id := range c.streams {
		ids = append(ids, int(id))
	}
	sort.Ints(ids)
	out := make([]*vtStream, 0, len(ids))
	for _, id := range ids {
		out = append(out, c.streams[uint32(id)])
	}
	return out
}

func (s *vtStream) response() *http.Response {
	if s.rt == nil || !s.rt.done() {
		return nil
	}
	res, err := s.rt.result()
	if err != nil {
		return nil
	}
	return res
}

func (c *vtConn) endedStatus(s *vtStream) int {
	if s.kind == 1 {
		return vtHalf // the request body is still open: the stream stays registered
	}
	return vtClosed
}

func (c *vtConn) collect(s *vtStream) {
	if s.closing != nil {
		s.closing.mu.Lock()
		done := s.closing.done
		s.closing.mu.Unlock()
		if done {
			s.closing = nil
		}
	}
	if s.pend == nil {
		return
	}
	s.pend.mu.Lock()
	done, n, err := s.pend.done, s.pend.n, s.pend.err
	s.pend.mu.Unlock()
	if !done {
		return
	}
	s.pend = nil
	c.obs = append(c.obs, fmt.Sprintf("rd:%d:%d", s.id, n))
	if err == io.EOF {
		c.obs = append(c.obs, fmt.Sprintf("rdeof:%d", s.id))
	} else if err != nil {
		c.obs = append(c.obs, fmt.Sprintf("rderr:%d", s.id))
	}
	s.delivered += int64(n)
	if s.delivered > s.bodyBytes {
		c.o.Fail("", fmt.Sprintf("stream %d: the response body delivered %d bytes but only %d were within the advertised windows", s.id, s.delivered, s.bodyBytes))
	}
}

func (c *vtConn) drain() {
	for {
		f, err := c.tc.fr.ReadFrame()
		if err != nil {
			break
		}
		switch f := f.(type) {
		case *WindowUpdateFrame:
			sid := f.Header().StreamID
			c.obs = append(c.obs, fmt.Sprintf("wu:%d:%d", sid, f.Increment))
			if sid == 0 {
				c.conn += int64(f.Increment)
				if c.conn > vMaxWindow {
					c.o.Fail("", fmt.Sprintf("WINDOW_UPDATE(0,%d) lifts the connection window to %d > 2^31-1", f.Increment, c.conn))
				}
				if c.conn > c.configured {
					c.o.Fail("", fmt.Sprintf("WINDOW_UPDATE(0,%d) lifts the connection window to %d, above the configured %d", f.Increment, c.conn, c.configured))
				}
			} else if s := c.streams[sid]; s != nil {
				s.win += int64(f.Increment)
				if s.win > vMaxWindow {
					c.o.Fail("", fmt.Sprintf("WINDOW_UPDATE(%d,%d) lifts the stream window to %d > 2^31-1", sid, f.Increment, s.win))
				}
			}
		case *RSTStreamFrame:
			sid := f.Header().StreamID
			c.obs = append(c.obs, fmt.Sprintf("rst:%d:%d", sid, uint32(f.ErrCode)))
			if uint32(f.ErrCode) == vFlowCode {
				c.o.Fail("", fmt.Sprintf("Transport sent RST_STREAM(FLOW_CONTROL_ERROR) on stream %d", sid))
			}
			if s := c.streams[sid]; s != nil {
				s.status = vtClosed
			}
		case *GoAwayFrame:
			c.obs = append(c.obs, fmt.Sprintf("goaway:%d", uint32(f.ErrCode)))
			if uint32(f.ErrCode) == vFlowCode {
				c.sawFC = true
				c.wireFC = true
			}
			if f.ErrCode != ErrCodeNo {
				c.dead = true
			}
		case *SettingsFrame:
			if f.IsAck() {
				c.obs = append(c.obs, "settingsack")
			} else if v, ok := f.Value(SettingInitialWindowSize); ok {
				c.obs = append(c.obs, fmt.Sprintf("set:%d", v))
				c.streamInit = int64(v)
			} else {
				c.obs = append(c.obs, "settings")
			}
		default:
			c.obs = append(c.obs, "frame")
		}
	}
	if c.tc.netconn.IsClosedByPeer() {
		// the application-visible connection error first (the monitor stops at `closed`)
		if c.sentinel != nil && c.sentinel.done() {
			if _, err := c.sentinel.result(); err != nil {
				var ce ConnectionError
				if errors.As(err, &ce) {
					c.obs = append(c.obs, fmt.Sprintf("connerr:%d", uint32(ce)))
					if uint32(ce) == vFlowCode {
						c.sawFC = true
					}
				}
			}
		}
		if !c.dead {
			c.obs = append(c.obs, "closed")
		}
		c.dead = true
	}
}

// settle: quiescence, completed reads, frames; then release the request bodies of streams
// that have been torn down (so that the Transport forgets them) and settle again.
func (c *vtConn) settle() {
	for round := 0; round < 3; round++ {
		synctest.Wait()
		for _, s := range c.sorted() {
			c.collect(s)
		}
		c.drain()
		again := false
		for _, s := range c.sorted() {
			if s.kind == 1 && s.status == vtClosed && !s.released && s.reqBody != nil {
				s.released = true
				s.reqBody.closeWithError(errVerifReleased)
				again = true
			}
		}
		if !again {
			return
		}
	}
}

func vtNewConn(t *testing.T, o *vu.Out, mode string, connBuf, streamWin int64) *vtConn {
	c := &vtConn{t: t, o: o, mode: mode, streams: map[uint32]*vtStream{}}
	c.tc = newTestClientConn(t, func(t1 *http.Transport) {
		t1.HTTP2 = &http.HTTP2Config{MaxReceiveBufferPerConnection: int(connBuf), MaxReceiveBufferPerStream: int(streamWin)}
	}, func(tr *Transport) {
		tr.MaxReadFrameSize = 1 << 20
	})
	c.configured = connBuf + InitialWindowSize
	if c.configured > vMaxWindow {
		c.configured = vMaxWindow // a receive window cannot exceed 2^31-1 (RFC 9113 6.9.1)
		c.o.Stat("branch:config-above-max-window")
	}
	c.streamInit = InitialWindowSize
	c.conn = InitialWindowSize
	c.settle()
	c.tc.writeSettings()
	c.tc.writeSettingsAck()
	c.settle()
	// the observer of connection errors: a request that never gets a response (stream 1)
	req, _ := http.NewRequest("GET", "https://dummy.tld/sentinel", nil)
	c.sentinel = c.tc.roundTrip(req)
	c.streams[1] = &vtStream{id: 1, status: vtPre, win: c.streamInit}
	c.nextID = 3
	c.settle()
	return c
}

func (c *vtConn) residueCheck(where string) {
	if c.dead {
		c.o.Stat("quiesce:dead-conn")
		return
	}
	residue := c.configured - c.conn
	ok := residue >= 0 && (residue == 0 || (residue < vMinRefresh && residue < c.conn))
	switch {
	case !ok && residue < 0:
		c.o.Fail("", fmt.Sprintf("%s: connection window %d is above the configured %d", where, c.conn, c.configured))
	case !ok:
		c.o.Fail("", fmt.Sprintf("%s: %d bytes of connection-level credit were never returned (peer view %d, configured %d)", where, residue, c.conn, c.configured))
	case residue > 0:
		c.o.Stat("quiesce:residue")
		if c.mode == "c10" {
			c.o.Fail(sigResidue, fmt.Sprintf("%s: peer's view %d is %d below the configured window %d: credit withheld by inflowMinRefresh batching", where, c.conn, residue, c.configured))
		}
	default:
		c.o.Stat("quiesce:exact")
	}
	// white-box cross-check on the Transport's own counters (avail+unsent)
	if w, err := c.tc.cc.TestInflowWindow(0); err == nil && int64(w) != c.configured {
		c.o.Fail("", fmt.Sprintf("%s: Transport counters: avail+unsent = %d, configured %d: %d bytes of connection-level credit lost", where, w, c.configured, c.configured-int64(w)))
	}
}

// classifyData: oracle's view of a DATA frame from the server; reports whether a
// connection-level FLOW_CONTROL_ERROR must follow.
func (c *vtConn) classifyData(sid uint32, ln, pad int64, es bool) bool {
	L := ln
	if pad >= 0 {
		L += pad + 1
	}
	s := c.streams[sid]
	if s == nil {
		c.dead = true // never requested: connection error (PROTOCOL_ERROR)
		return false
	}
	connOnly := func(tag string) bool {
		c.o.Stat("branch:" + tag)
		if L > c.conn {
			c.o.Stat("branch:excess-conn")
			return true
		}
		c.conn -= L
		s.status = vtClosed
		return false
	}
	switch {
	case s.status == vtClosed:
		return connOnly("data-on-forgotten-stream")
	case s.status == vtHalf:
		return connOnly("data-after-end-stream")
	case s.status == vtPre:
		return connOnly("data-before-headers")
	case L == 0:
		if es {
			s.status = c.endedStatus(s)
		}
		return false
	case s.kind == 2 && ln > 0:
		return connOnly("data-on-head")
	case L > c.conn || L > s.win:
		if L > s.win {
			c.o.Stat("branch:excess-stream")
		} else {
			c.o.Stat("branch:excess-conn")
		}
		if L == c.conn+1 || L == s.win+1 {
			c.o.Stat("branch:excess-by-one")
		}
		return true
	}
	if L == c.conn || L == s.win {
		c.o.Stat("branch:exact-window")
	}
	if pad >= 0 {
		c.o.Stat("branch:padded")
	}
	c.conn -= L
	s.win -= L
	if ln > 0 {
		s.bodyBytes += ln
	}
	if es {
		s.status = c.endedStatus(s)
	}
	return false
}

func (c *vtConn) startClose(s *vtStream, res *http.Response) {
	r := &vfRead{}
	s.closing = r
	s.bodyDone = true
	go func() {
		res.Body.Close()
		r.mu.Lock()
		r.done = true
		r.mu.Unlock()
	}()
}

func vtExec(t *testing.T, mode string, ops []string, o *vu.Out) {
	var c *vtConn
	defer func() {
		// leave no goroutine blocked in the bubble: release request bodies, cancel requests,
		// close the connection
		if c == nil {
			return
		}
		for _, s := range c.sorted() {
			if s.reqBody != nil && !s.released {
				s.released = true
				s.reqBody.closeWithError(errVerifReleased)
			}
			if s.rt != nil {
				s.rt.cancel()
			}
		}
		c.sentinel.cancel()
		c.tc.closeWrite()
		synctest.Wait()
	}()
	for _, op := range ops {
		base := strings.TrimSpace(strings.SplitN(op, "=>", 2)[0])
		f := strings.Fields(base)
		if len(f) == 0 {
			o.Op(op, "bad-op")
			continue
		}
		emit := func() {
			line := base
			if c != nil && len(c.obs) > 0 {
				line += " => " + strings.Join(c.obs, " ")
			}
			o.Op(line, "ok")
		}
		if c != nil {
			c.obs = nil
			c.sawFC = false
			c.wireFC = false
		}
		if f[0] == "treset" {
			if len(f) != 3 {
				o.Op(op, "bad-op")
				continue
			}
			if c != nil {
				o.Op(base, "ok")
				continue
			}
			c = vtNewConn(t, o, mode, vfAtoi(f[1]), vfAtoi(f[2]))
			o.Stat("op:treset")
			c.residueCheck("after the initial WINDOW_UPDATE")
			emit()
			continue
		}
		if c == nil || c.dead {
			o.Op(base, "ok")
			continue
		}
		o.Stat("op:" + f[0])
		expectFC := false
		valid := true
		stream := func(tok string) *vtStream {
			s := c.streams[uint32(vfAtoi(tok))]
			if s != nil && s.id == 1 {
				return nil // the sentinel is not scriptable
			}
			return s
		}
		skip := func() { c.obs = append(c.obs, "nohandler") }
		switch f[0] {
		case "req":
			if len(f) != 3 {
				valid = false
				break
			}
			sid, kind := uint32(vfAtoi(f[1])), int(vfAtoi(f[2]))
			if sid != c.nextID || kind < 0 || kind > 2 {
				skip()
				break
			}
			s := &vtStream{id: sid, kind: kind, status: vtPre, win: c.streamInit}
			var req *http.Request
			switch kind {
			case 0:
				req, _ = http.NewRequest("GET", "https://dummy.tld/", nil)
			case 1:
				s.reqBody = c.tc.newRequestBody()
				req, _ = http.NewRequest("POST", "https://dummy.tld/", s.reqBody)
			default:
				req, _ = http.NewRequest("HEAD", "https://dummy.tld/", nil)
			}
			s.rt = c.tc.roundTrip(req)
			if got := s.rt.streamID(); got != sid {
				t.Fatalf("stream id %d, script says %d", got, sid)
			}
			c.streams[sid] = s
			c.nextID += 2
		case "rhdr":
			if len(f) != 4 {
				valid = false
				break
			}
			s := stream(f[1])
			cl, es := vfAtoi(f[2]), f[3] == "1"
			if s == nil || s.status != vtPre {
				skip()
				break
			}
			h := []string{":status", "200"}
			if cl >= 0 {
				h = append(h, "content-length", strconv.FormatInt(cl, 10))
			}
			c.tc.writeHeaders(HeadersFrameParam{StreamID: s.id, EndHeaders: true, EndStream: es, BlockFragment: c.tc.makeHeaderBlockFragment(h...)})
			if es {
				s.status = c.endedStatus(s)
			} else {
				s.status = vtOpen
			}
		case "data":
			if len(f) != 5 {
				valid = false
				break
			}
			sid, ln, pad, es := uint32(vfAtoi(f[1])), vfAtoi(f[2]), vfAtoi(f[3]), f[4] == "1"
			if ln < 0 || pad < -1 || pad > 255 || ln+pad+1 > 1<<20 || sid == 1 {
				valid = false
				break
			}
			expectFC = c.classifyData(sid, ln, pad, es)
			if pad >= 0 {
				c.tc.writeDataPadded(sid, es, make([]byte, ln), make([]byte, pad))
			} else {
				c.tc.writeData(sid, es, make([]byte, ln))
			}
		case "read":
			if len(f) != 3 {
				valid = false
				break
			}
			s := stream(f[1])
			n := vfAtoi(f[2])
			if n < 1 || n > 1<<22 {
				valid = false
				break
			}
			var res *http.Response
			if s != nil {
				res = s.response()
			}
			if res == nil || s.bodyDone {
				skip()
			} else if s.pend != nil {
				c.obs = append(c.obs, "busy")
			} else {
				r := &vfRead{}
				s.pend = r
				go func() {
					buf := make([]byte, n)
					got, err := res.Body.Read(buf)
					r.mu.Lock()
					r.done, r.n, r.err = true, got, err
					r.mu.Unlock()
				}()
			}
		case "bclose":
			if len(f) != 2 {
				valid = false
				break
			}
			s := stream(f[1])
			var res *http.Response
			if s != nil {
				res = s.response()
			}
			if res == nil || s.closing != nil {
				skip()
			} else if s.pend != nil {
				c.obs = append(c.obs, "busy")
			} else {
				if s.bodyDone {
					c.o.Stat("branch:body-closed-again")
				}
				c.startClose(s, res)
				s.status = vtClosed
			}
		case "hexit": // the application abandons the request: context cancelled
			if len(f) != 2 {
				valid = false
				break
			}
			s := stream(f[1])
			if s == nil || s.rt == nil {
				skip()
			} else if s.pend != nil {
				c.obs = append(c.obs, "busy")
			} else {
				s.rt.cancel()
				s.status = vtClosed
			}
		case "crst": // the peer (server) resets the stream
			if len(f) != 2 {
				valid = false
				break
			}
			sid := uint32(vfAtoi(f[1]))
			if sid == 1 {
				valid = false
				break
			}
			if s := c.streams[sid]; s == nil {
				c.dead = true
			} else {
				s.status = vtClosed
			}
			c.tc.writeRSTStream(sid, ErrCodeCancel)
		case "quiesce":
			if len(f) != 1 {
				valid = false
				break
			}
			for _, s := range c.sorted() {
				if s.id == 1 {
					continue
				}
				if s.pend != nil {
					// unblock a reader by resetting its stream
					c.tc.writeRSTStream(s.id, ErrCodeCancel)
					c.obs = append(c.obs, fmt.Sprintf("crst:%d", s.id))
					s.status = vtClosed
				}
			}
			synctest.Wait()
			for _, s := range c.sorted() {
				c.collect(s)
			}
			for _, s := range c.sorted() {
				if s.id == 1 {
					continue
				}
				if res := s.response(); res != nil && !s.bodyDone && s.pend == nil {
					c.startClose(s, res)
				} else if s.rt != nil {
					s.rt.cancel()
				}
				s.status = vtClosed
			}
		default:
			valid = false
		}
		if !valid {
			o.Op(op, "bad-op")
			continue
		}
		c.settle()
		if expectFC && !c.sawFC {
			o.Fail("", fmt.Sprintf("%q: DATA beyond the advertised window was not refused with a FLOW_CONTROL_ERROR connection error", base))
		}
		if expectFC && c.sawFC && !c.wireFC {
			// literal reading of C11 ("RST_STREAM/GOAWAY codes on the wire"): the error reaches the
			// application but ClientConn.readLoop never flushes its GOAWAY before closing
			c.o.Stat("branch:fc-not-on-wire")
			if c.mode == "c11" {
				o.Fail(sigGoAwayNotFlushed, fmt.Sprintf("%q: the Transport reported FLOW_CONTROL_ERROR to the application and closed the connection, but no GOAWAY(FLOW_CONTROL_ERROR) reached the wire", base))
			}
		}
		if c.sawFC && !expectFC {
			o.Fail("", fmt.Sprintf("%q: FLOW_CONTROL_ERROR although the DATA was within the advertised windows", base))
		}
		if f[0] == "quiesce" {
			c.residueCheck("at quiescence")
		}
		emit()
	}
}

// ---------------------------------------------------------------- generator

type gtStream struct {
	id       int
	kind     int
	fl       gflow
	status   int
	buffered int64
	hasResp  bool
	done     bool // body closed / cancelled
}

func vtGen(r *vu.Rng, i int, mode string) []string {
	connBuf := int64(InitialWindowSize)
	switch r.Intn(5) {
	case 0:
	case 1:
		connBuf = 1 << 20
	default:
		connBuf += int64(r.Intn(200000))
	}
	if r.Chance(1, 12) { // configured sizes up to the largest accepted value, around 2^31-1-65535
		switch r.Intn(4) {
		case 0:
			connBuf = vMaxWindow
		case 1:
			connBuf = vMaxWindow - InitialWindowSize + int64(r.Range(-2, 2))
		case 2:
			connBuf = vMaxWindow - int64(r.Intn(70000))
		default:
			connBuf = 1<<30 + int64(r.Intn(1<<30))
		}
	}
	var streamWin int64
	switch r.Intn(5) {
	case 0:
		streamWin = int64(r.Range(1, 3*vMinRefresh))
	case 1:
		streamWin = connBuf
	default:
		streamWin = int64(r.Range(1, 300000))
	}
	if mode == "c11" && r.Chance(2, 3) {
		connBuf = InitialWindowSize + int64(r.Intn(30000))
		streamWin = int64(r.Range(1, 120000))
	}
	ops := []string{fmt.Sprintf("treset %d %d", connBuf, streamWin)}
	conn := gflow{avail: connBuf + InitialWindowSize}
	var streams []*gtStream
	nextID := 3
	open := func() *gtStream {
		s := &gtStream{id: nextID, fl: gflow{avail: streamWin}, status: vtPre}
		nextID += 2
		switch k := r.Intn(10); {
		case k < 7:
			s.kind = 0
		case k < 9:
			s.kind = 1
		default:
			s.kind = 2
		}
		ops = append(ops, fmt.Sprintf("req %d %d", s.id, s.kind))
		streams = append(streams, s)
		if !r.Chance(1, 12) { // usually the response headers follow at once
			respond(r, s, &ops)
		}
		return s
	}
	pick := func() *gtStream {
		if len(streams) == 0 {
			return open()
		}
		s := streams[r.Intn(len(streams))]
		for k := 0; k < 3 && (s.status == vtClosed || s.done); k++ {
			s = streams[r.Intn(len(streams))]
		}
		if (s.status == vtClosed || s.done) && len(streams) < 8 && r.Chance(2, 3) {
			return open()
		}
		return s
	}
	ended := func(s *gtStream) int {
		if s.kind == 1 {
			return vtHalf
		}
		return vtClosed
	}
	dataOp := func(s *gtStream) {
		w := conn.avail
		if s.status == vtOpen && s.fl.avail < w {
			w = s.fl.avail
		}
		var L int64
		switch k := r.Intn(16); {
		case k == 0:
			L = w
		case k == 1:
			L = w + 1
		case k == 2 && mode == "c11":
			L = w + int64(r.Range(2, 5000))
		case k == 3:
			L = w - 1
		case k == 4:
			L = int64(r.Intn(3))
		case k == 5:
			L = conn.avail + int64(r.Range(-1, 1))
		default:
			if w > 0 {
				L = int64(r.Intn(int(w))) / int64(r.Range(1, 8))
			}
			if r.Chance(1, 3) && L > 20000 {
				L = int64(r.Intn(20000))
			}
		}
		if mode == "c11" && r.Chance(1, 3) {
			L = w + int64(r.Range(-1, 1))
		}
		if L < 0 {
			L = 0
		}
		if L > 1<<20-300 {
			L = 1<<20 - 300
		}
		pad, ln := int64(-1), L
		if r.Chance(1, 5) && L >= 1 {
			pad = int64(r.Intn(256))
			if pad+1 > L {
				pad = L - 1
			}
			ln = L - pad - 1
		}
		es := 0
		if r.Chance(1, 8) {
			es = 1
		}
		ops = append(ops, fmt.Sprintf("data %d %d %d %d", s.id, ln, pad, es))
		switch {
		case s.status != vtOpen || (s.kind == 2 && ln > 0 && L > 0):
			if L <= conn.avail {
				conn.avail -= L
				conn.add(L)
				s.status = vtClosed
			}
		case L == 0:
			if es == 1 {
				s.status = ended(s)
			}
		case L > conn.avail || L > s.fl.avail:
			// connection error: the rest of the script is ignored
		default:
			conn.avail -= L
			s.fl.avail -= L
			s.buffered += ln
			conn.add(L - ln)
			s.fl.add(L - ln)
			if es == 1 {
				s.status = ended(s)
			}
		}
	}
	readOp := func(s *gtStream) {
		var n int64
		switch r.Intn(5) {
		case 0:
			n = int64(r.Range(1, 100))
		case 1:
			n = int64(vMinRefresh) + int64(r.Range(-2, 2))
		case 2:
			n = 1 << 21
		default:
			n = int64(r.Range(1, 70000))
		}
		ops = append(ops, fmt.Sprintf("read %d %d", s.id, n))
		if !s.hasResp || s.done {
			return
		}
		got := n
		if got > s.buffered {
			got = s.buffered
		}
		s.buffered -= got
		conn.add(got)
		if s.status == vtOpen {
			s.fl.add(got)
		}
	}
	tearDown := func(s *gtStream) {
		conn.add(s.buffered)
		s.buffered = 0
		s.status = vtClosed
		s.done = true
	}
	steps := r.Range(4, 36)
	if mode == "c11" {
		steps = r.Range(4, 22)
	}
	open()
	for j := 0; j < steps; j++ {
		s := pick()
		switch k := r.Intn(100); {
		case k < 42:
			dataOp(s)
		case k < 70:
			readOp(s)
		case k < 75:
			ops = append(ops, fmt.Sprintf("bclose %d", s.id))
			if r.Chance(1, 3) { // explicit Close followed by a deferred one
				ops = append(ops, fmt.Sprintf("bclose %d", s.id))
			}
			if s.hasResp {
				tearDown(s)
			}
		case k < 79:
			ops = append(ops, fmt.Sprintf("crst %d", s.id))
			conn.add(0)
			s.status = vtClosed
		case k < 83:
			ops = append(ops, fmt.Sprintf("hexit %d", s.id))
			s.status = vtClosed
		case k < 86:
			if !s.hasResp {
				respond(r, s, &ops)
			} else {
				dataOp(s)
			}
		case k < 93:
			if len(streams) < 6 {
				open()
			} else {
				dataOp(s)
			}
		case k < 96:
			ops = append(ops, "quiesce")
			for _, x := range streams {
				tearDown(x)
			}
		default:
			dataOp(s)
			readOp(s)
		}
	}
	for _, s := range streams {
		if s.status == vtOpen && r.Chance(2, 3) {
			if r.Bool() {
				ops = append(ops, fmt.Sprintf("data %d 0 -1 1", s.id))
			} else {
				ops = append(ops, fmt.Sprintf("crst %d", s.id))
			}
		}
		switch r.Intn(4) {
		case 0:
			ops = append(ops, fmt.Sprintf("read %d %d", s.id, 1<<21), fmt.Sprintf("read %d 10", s.id))
		case 1:
			ops = append(ops, fmt.Sprintf("bclose %d", s.id), fmt.Sprintf("bclose %d", s.id))
		case 2:
			ops = append(ops, fmt.Sprintf("read %d %d", s.id, r.Range(1, 5000)))
		}
	}
	ops = append(ops, "quiesce")
	return ops
}

func respond(r *vu.Rng, s *gtStream, ops *[]string) {
	cl := int64(-1)
	if r.Chance(1, 4) {
		cl = int64(r.Intn(30000))
	}
	es := 0
	if r.Chance(1, 12) {
		es = 1
	}
	*ops = append(*ops, fmt.Sprintf("rhdr %d %d %d", s.id, cl, es))
	if s.status != vtPre {
		return
	}
	s.hasResp = true
	if es == 1 {
		if s.kind == 1 {
			s.status = vtHalf
		} else {
			s.status = vtClosed
		}
	} else {
		s.status = vtOpen
	}
}
