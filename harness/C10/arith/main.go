//go:build verif

// C10/C11 arithmetic harness: http2/flow.go inflow, takeInflows, outflow against the
// Lean model (D-tie), with the property stated directly on the Go values (oracle).
package main

import (
	"fmt"
	"strings"

	"golang.org/x/net/http2"
	vu "golang.org/x/net/internal/verifutil"
)

const maxWindow = 1<<31 - 1

func pick32(r *vu.Rng) int64 {
	switch r.Intn(6) {
	case 0:
		return int64(r.Intn(10))
	case 1:
		return int64(http2.VerifInflowMinRefresh) + int64(r.Range(-3, 3))
	case 2:
		return 65535 + int64(r.Range(-2, 2))
	case 3:
		return maxWindow - int64(r.Intn(5000))
	case 4:
		return int64(r.Boundary(31))
	default:
		return int64(r.Intn(1 << 20))
	}
}

func gen(r *vu.Rng, i int) []string {
	var ops []string
	if r.Chance(1, 4) {
		return genOutflow(r)
	}
	a, b := pick32(r), pick32(r)
	if r.Chance(1, 2) {
		a = 65535 + int64(r.Intn(1<<20))
	}
	ops = append(ops, fmt.Sprintf("ainit %d %d", a, b))
	var owed [2]int64 // bytes taken and not yet returned (generator's own guess; only steers sizes)
	avail := [2]int64{a, b}
	n := r.Range(3, 40)
	for j := 0; j < n; j++ {
		k := r.Intn(2)
		switch r.Intn(10) {
		case 0, 1, 2: // take around the boundary of what is available
			var v int64
			switch r.Intn(4) {
			case 0:
				v = avail[k] + int64(r.Range(-2, 2))
			case 1:
				v = int64(r.Intn(20000))
			case 2:
				v = int64(r.Boundary(32))
			default:
				v = avail[k] / int64(r.Range(1, 6))
			}
			if v < 0 {
				v = 0
			}
			if v > 1<<32-1 {
				v = 1<<32 - 1
			}
			ops = append(ops, fmt.Sprintf("itake %d %d", k, v))
			if v <= avail[k] {
				avail[k] -= v
				owed[k] += v
			}
		case 3: // two-window take
			m := avail[0]
			if avail[1] < m {
				m = avail[1]
			}
			v := m + int64(r.Range(-2, 2))
			if r.Bool() {
				v = int64(r.Intn(int(m%100000) + 1))
			}
			if v < 0 {
				v = 0
			}
			ops = append(ops, fmt.Sprintf("itake2 %d", v))
			if v <= avail[0] && v <= avail[1] {
				avail[0] -= v
				avail[1] -= v
				owed[0] += v
				owed[1] += v
			}
		case 4: // hostile / boundary add
			var v int64
			switch r.Intn(5) {
			case 0:
				v = -int64(r.Intn(3)) - 1
			case 1:
				v = maxWindow - avail[k] + int64(r.Range(-4100, 3))
			case 2:
				v = int64(r.Boundary(33))
			case 3:
				v = 0
			default:
				v = int64(http2.VerifInflowMinRefresh) + int64(r.Range(-2, 2))
			}
			ops = append(ops, fmt.Sprintf("iadd %d %d", k, v))
		default: // return part of what is owed (the realistic pattern)
			v := owed[k]
			if v > 0 && r.Chance(2, 3) {
				v = int64(r.Intn(int(v%100000)+1)) + int64(r.Intn(2))
				if v > owed[k] {
					v = owed[k]
				}
			}
			owed[k] -= v
			avail[k] += v // approximate (ignores batching); only steers sizes
			ops = append(ops, fmt.Sprintf("iadd %d %d", k, v))
		}
	}
	return ops
}

func pickI32(r *vu.Rng) int64 {
	switch r.Intn(6) {
	case 0:
		return int64(r.Range(-3, 3))
	case 1:
		return maxWindow - int64(r.Intn(4))
	case 2:
		return -maxWindow - 1 + int64(r.Intn(4))
	case 3:
		v := int64(r.Boundary(31))
		if r.Bool() {
			v = -v
		}
		return v
	default:
		return int64(r.Intn(1 << 17))
	}
}

func genOutflow(r *vu.Rng) []string {
	ops := []string{fmt.Sprintf("oinit %d %d %d", pickI32(r), pickI32(r), r.Intn(2))}
	n := r.Range(3, 25)
	for j := 0; j < n; j++ {
		switch r.Intn(6) {
		case 0:
			ops = append(ops, "oavail")
		case 1, 2:
			ops = append(ops, fmt.Sprintf("otake %d", pickI32(r)))
		case 3:
			ops = append(ops, fmt.Sprintf("ocadd %d", pickI32(r)))
		default:
			ops = append(ops, fmt.Sprintf("oadd %d", pickI32(r)))
		}
	}
	return ops
}

type state struct {
	in          [2]http2.VerifInflow
	init        [2]int64
	taken       [2]int64
	added       [2]int64
	sent        [2]int64
	st, cn      http2.VerifOutflow
	linked      bool
	initialised bool
}

func b01(b bool) int {
	if b {
		return 1
	}
	return 0
}

func exec(ops []string, o *vu.Out) {
	var s state
	for _, op := range ops {
		t := strings.Fields(op)
		if len(t) == 0 {
			o.Op(op, "bad-op")
			continue
		}
		o.Stat("op:" + t[0])
		bad := func() { o.Op(op, "bad-op") }
		switch t[0] {
		case "ainit":
			if len(t) != 3 {
				bad()
				continue
			}
			for k := 0; k < 2; k++ {
				v := vu.Atoi64(t[1+k])
				s.in[k].Init(int32(v))
				s.init[k], s.taken[k], s.added[k], s.sent[k] = v, 0, 0, 0
			}
			s.initialised = true
			o.Op(op, "ok")
		case "iadd":
			if len(t) != 3 {
				bad()
				continue
			}
			k, n := vu.Atoi(t[1])&1, vu.Atoi64(t[2])
			f := &s.in[k]
			a0, u0 := int64(f.Avail()), int64(f.Unsent())
			res := vu.Catch(func() string {
				r := f.Add(int(n))
				return fmt.Sprintf("ok %d %d %d", r, f.Avail(), f.Unsent())
			})
			o.Op(op, res)
			a1, u1 := int64(f.Avail()), int64(f.Unsent())
			wantPanic := n < 0 || a0+u0+n > maxWindow
			if (res == "panic") != wantPanic {
				o.Fail("", fmt.Sprintf("inflow.add(%d) on {avail=%d unsent=%d}: panic=%v, want %v", n, a0, u0, res == "panic", wantPanic))
			}
			if res == "panic" {
				o.Stat("branch:add-panic")
				if a1 != a0 || u1 != u0 {
					o.Fail("", "inflow.add panicked after modifying the window")
				}
				continue
			}
			s.added[k] += n
			s.sent[k] += a1 - a0
			if a1 == a0 {
				o.Stat("branch:add-buffered")
			} else {
				o.Stat("branch:add-flushed")
			}
			if a1+u1 > maxWindow {
				o.Fail("", fmt.Sprintf("inflow.add(%d): avail+unsent=%d exceeds 2^31-1", n, a1+u1))
			}
			if !(u1 == 0 || (u1 < http2.VerifInflowMinRefresh && u1 < a1)) {
				o.Fail("", fmt.Sprintf("inflow.add(%d): withheld credit %d is not a batching residue (avail=%d)", n, u1, a1))
			}
			var ret int64
			fmt.Sscanf(res, "ok %d", &ret)
			if ret != a1-a0 {
				o.Fail("", fmt.Sprintf("inflow.add(%d): returned increment %d but avail moved by %d", n, ret, a1-a0))
			}
			s.checkLedger(k, o)
		case "itake":
			if len(t) != 3 {
				bad()
				continue
			}
			k, n := vu.Atoi(t[1])&1, vu.Atou64(t[2])
			f := &s.in[k]
			a0 := int64(f.Avail())
			ok := f.Take(uint32(n))
			o.Op(op, fmt.Sprintf("ok %d %d %d", b01(ok), f.Avail(), f.Unsent()))
			if ok != (int64(n) <= a0) {
				o.Fail("", fmt.Sprintf("inflow.take(%d) with avail=%d returned %v", n, a0, ok))
			}
			if ok {
				s.taken[k] += int64(n)
				o.Stat("branch:take-ok")
				if int64(n) == a0 {
					o.Stat("branch:take-exact-boundary")
				}
			} else {
				o.Stat("branch:take-refused")
				if int64(n) == a0+1 {
					o.Stat("branch:take-boundary-plus-1")
				}
			}
			s.checkLedger(k, o)
		case "itake2":
			if len(t) != 2 {
				bad()
				continue
			}
			n := vu.Atou64(t[1])
			a0, a1 := int64(s.in[0].Avail()), int64(s.in[1].Avail())
			ok := http2.VerifTakeInflows(&s.in[0], &s.in[1], uint32(n))
			o.Op(op, fmt.Sprintf("ok %d %d %d", b01(ok), s.in[0].Avail(), s.in[1].Avail()))
			if ok != (int64(n) <= a0 && int64(n) <= a1) {
				o.Fail("", fmt.Sprintf("takeInflows(%d) with avail=%d,%d returned %v", n, a0, a1, ok))
			}
			if ok {
				s.taken[0] += int64(n)
				s.taken[1] += int64(n)
				o.Stat("branch:take2-ok")
			} else {
				o.Stat("branch:take2-refused")
				if int64(s.in[0].Avail()) != a0 || int64(s.in[1].Avail()) != a1 {
					o.Fail("", "takeInflows refused but changed a window")
				}
			}
			s.checkLedger(0, o)
			s.checkLedger(1, o)
		case "oinit":
			if len(t) != 4 {
				bad()
				continue
			}
			s.st.SetN(int32(vu.Atoi64(t[1])))
			s.cn.SetN(int32(vu.Atoi64(t[2])))
			s.linked = t[3] == "1"
			if s.linked {
				s.st.SetConn(&s.cn)
			} else {
				s.st.SetConn(nil)
			}
			o.Op(op, "ok")
		case "oavail":
			o.Op(op, fmt.Sprintf("ok %d", s.st.Available()))
		case "otake":
			if len(t) != 2 {
				bad()
				continue
			}
			n := int32(vu.Atoi64(t[1]))
			av := s.st.Available()
			res := vu.Catch(func() string {
				s.st.Take(n)
				return fmt.Sprintf("ok %d %d", s.st.N(), s.cn.N())
			})
			o.Op(op, res)
			if (res == "panic") != (n > av) {
				o.Fail("", fmt.Sprintf("outflow.take(%d) with available=%d: %s", n, av, res))
			}
		case "oadd", "ocadd":
			if len(t) != 2 {
				bad()
				continue
			}
			n := int32(vu.Atoi64(t[1]))
			f := &s.st
			if t[0] == "ocadd" {
				f = &s.cn
			}
			before := int64(f.N())
			ok := f.Add(n)
			o.Op(op, fmt.Sprintf("ok %d %d %d", b01(ok), s.st.N(), s.cn.N()))
			sum := before + int64(n)
			fits := sum <= maxWindow && sum >= -maxWindow-1
			if ok != fits || (ok && int64(f.N()) != sum) || (!ok && int64(f.N()) != before) {
				o.Fail("", fmt.Sprintf("outflow.add(%d) on n=%d returned %v, n=%d", n, before, ok, f.N()))
			}
			if !ok {
				o.Stat("branch:oadd-overflow")
			}
		default:
			bad()
		}
	}
}

// checkLedger: conservation (C10) on the implementation's own fields.
func (s *state) checkLedger(k int, o *vu.Out) {
	if !s.initialised {
		return
	}
	f := &s.in[k]
	a, u := int64(f.Avail()), int64(f.Unsent())
	if a+u+s.taken[k] != s.init[k]+s.added[k] {
		o.Fail("", fmt.Sprintf("inflow %d: avail %d + unsent %d + taken %d != initial %d + returned %d", k, a, u, s.taken[k], s.init[k], s.added[k]))
	}
	if s.init[k]-s.taken[k]+s.sent[k] != a {
		o.Fail("", fmt.Sprintf("inflow %d: peer view %d != avail %d", k, s.init[k]-s.taken[k]+s.sent[k], a))
	}
	if a < 0 || u < 0 || a+u > maxWindow {
		o.Fail("", fmt.Sprintf("inflow %d out of range: avail=%d unsent=%d", k, a, u))
	}
}

func main() { vu.Main(gen, exec) }
