//go:build verif

// C10 / C11 trace harness on the package's own server rig (newServerTester, synctest).
//
// A case is a peer/application script (one step per op line). Every step is performed,
// the bubble is run to quiescence (synctest.Wait), and everything the server did in
// response is appended to the op line after "=>": WINDOW_UPDATE, RST_STREAM, GOAWAY
// frames read from the wire and the results of handler reads. The Lean monitor
// (Model/FlowMonitor.lean) validates each line; this file states the properties
// directly on the recorded values as well (out.Fail).
//
// Injected as http2/zz_verif_c10_test.go (package http2_test) with `go test -overlay`.
package http2_test

import (
	"fmt"
	"io"
	"math"
	"net/http"
	"os"
	"sort"
	"strconv"
	"strings"
	"sync"
	"testing"
	"testing/synctest"

	. "golang.org/x/net/http2"
	vu "golang.org/x/net/internal/verifutil"
)

const (
	vMaxWindow  = 1<<31 - 1
	vMinRefresh = InflowMinRefresh
	vFlowCode   = uint32(ErrCodeFlowControl)

	sigResidue = "batching-residue"
	sigPreAck  = "pre-ack-small-stream-window"
)

func TestVerifC10(t *testing.T) { verifFlowRun(t, "c10") }
func TestVerifC11(t *testing.T) { verifFlowRun(t, "c11") }

// verifFlowRun alternates between the server rig (this file) and the Transport rig
// (trig_test.go); a case's first op (`reset` / `treset`) selects the rig on replay.
func verifFlowRun(t *testing.T, mode string) {
	cfg := vu.ConfigFromEnv()
	vu.Run(cfg, func(r *vu.Rng, i int) []string {
		if i%2 == 1 {
			return vtGen(r, i, mode)
		}
		return vfGen(r, i, mode)
	}, func(ops []string, o *vu.Out) {
		transport := false
		for _, op := range ops {
			if f := strings.Fields(op); len(f) > 0 && (f[0] == "reset" || f[0] == "treset") {
				transport = f[0] == "treset"
				break
			}
		}
		synctest.Test(t, func(t *testing.T) {
			if transport {
				vtExec(t, mode, ops, o)
			} else {
				vfExec(t, mode, ops, o)
			}
		})
	})
}

// ---------------------------------------------------------------- executor

type vfRead struct {
	mu   sync.Mutex
	done bool
	n    int
	err  error
}

const (
	vsOpen = iota
	vsHalfRemote
	vsClosed
)

type vfStream struct {
	id     uint32
	call   *serverHandlerCall
	exited bool
	pend   *vfRead
	// the peer's / oracle's view
	status     int
	win        int64
	declCL     int64
	bodyBytes  int64
	delivered  int64
	bodyClosed bool
	short      int64 // enforced window = win - short (stream opened before the SETTINGS ACK, configured window < 65535)
}

type vfConn struct {
	t          *testing.T
	st         *serverTester
	o          *vu.Out
	configured int64
	streamInit int64
	conn       int64 // peer's view of the connection window
	dead       bool
	maxSid     uint32
	streams    map[uint32]*vfStream
	obs        []string
	fcSeen     map[uint32]bool
	goawayFC   bool
	mode       string
	goneAway   bool   // graceful GOAWAY sent: later streams are ignored, their DATA discarded
	keepAlive  uint32 // the body-less request left in flight across the shutdown
	blocked    bool   // the peer is not reading: the server's writer is blocked, its frames queue up
	acked      bool   // the client has acknowledged the server's SETTINGS
	preAck     bool   // this step's DATA is in the pre-ACK region
}

// advWin is the stream window advertised to the client for a new stream: the protocol default
// 65535 until the client has acknowledged a smaller SETTINGS_INITIAL_WINDOW_SIZE.
func (c *vfConn) advWin() int64 {
	if !c.acked && c.streamInit < InitialWindowSize {
		return InitialWindowSize
	}
	return c.streamInit
}

// block: the client stops reading and sends a PING, whose acknowledgement occupies the server's
// writer; every frame the server produces from now on (RST_STREAM, WINDOW_UPDATE, ...) stays queued.
func (c *vfConn) block() {
	if c.blocked {
		return
	}
	nc := c.st.cc.(*synctestNetConn)
	nc.SetReadBufferSize(0)
	nc.autoWait = false
	c.st.fr.WritePing(false, [8]byte{1})
	c.blocked = true
}

// unblock: the client resumes reading; the queued frames are recorded on the current line.
func (c *vfConn) unblock() {
	if !c.blocked {
		return
	}
	nc := c.st.cc.(*synctestNetConn)
	nc.SetReadBufferSize(math.MaxInt)
	nc.autoWait = true
	c.blocked = false
	c.settle()
}

func (c *vfConn) sortedStreams() []*vfStream {
	ids := make([]int, 0, len(c.streams))
	for id := range c.streams {
		ids = append(ids, int(id))
	}
	sort.Ints(ids)
	out := make([]*vfStream, 0, len(ids))
	for _, id := range ids {
		out = append(out, c.streams[uint32(id)])
	}
	return out
}

// settle runs the bubble to quiescence, then records completed handler reads followed by
// every frame the server wrote.
func (c *vfConn) settle() {
	synctest.Wait()
	for _, s := range c.sortedStreams() {
		c.collect(s)
	}
	if !c.blocked {
		c.drain()
	}
}

func (c *vfConn) collect(s *vfStream) {
	if s.pend == nil {
		return
	}
	s.pend.mu.Lock()
	done, n, err := s.pend.done, s.pend.n, s.pend.err
	s.pend.mu.Unlock()
	if !done {
		return
	}
	s.pend = nil
	c.obs = append(c.obs, fmt.Sprintf("rd:%d:%d", s.id, n))
	if err == io.EOF {
		c.obs = append(c.obs, fmt.Sprintf("rdeof:%d", s.id))
	} else if err != nil {
		c.obs = append(c.obs, fmt.Sprintf("rderr:%d", s.id))
	}
	s.delivered += int64(n)
	if s.delivered > s.bodyBytes {
		c.o.Fail("", fmt.Sprintf("stream %d: handler was delivered %d bytes but only %d were within the advertised windows", s.id, s.delivered, s.bodyBytes))
	}
	if s.status == vsClosed && n > 0 {
		// closeStream discards the unread body; bytes read afterwards would be refunded twice
		c.o.Stat("branch:read-after-close")
	}
}

func (c *vfConn) drain() {
	for {
		f, err := c.st.fr.ReadFrame()
		if err != nil {
			if err == os.ErrDeadlineExceeded || err == errWouldBlock {
				return
			}
			// EOF or a transport error: the server closed the connection
			if !c.dead {
				c.obs = append(c.obs, "closed")
			}
			c.dead = true
			return
		}
		switch f := f.(type) {
		case *WindowUpdateFrame:
			sid := f.Header().StreamID
			c.obs = append(c.obs, fmt.Sprintf("wu:%d:%d", sid, f.Increment))
			if sid == 0 {
				c.conn += int64(f.Increment)
				if c.conn > vMaxWindow {
					c.o.Fail("", fmt.Sprintf("WINDOW_UPDATE(0,%d) lifts the connection window to %d > 2^31-1", f.Increment, c.conn))
				}
				if c.conn > c.configured {
					c.o.Fail("", fmt.Sprintf("WINDOW_UPDATE(0,%d) lifts the connection window to %d, above the configured %d (credit refunded twice)", f.Increment, c.conn, c.configured))
				}
			} else if s := c.streams[sid]; s != nil {
				s.win += int64(f.Increment)
				if s.win > vMaxWindow {
					c.o.Fail("", fmt.Sprintf("WINDOW_UPDATE(%d,%d) lifts the stream window to %d > 2^31-1", sid, f.Increment, s.win))
				}
			}
		case *RSTStreamFrame:
			sid := f.Header().StreamID
			c.obs = append(c.obs, fmt.Sprintf("rst:%d:%d", sid, uint32(f.ErrCode)))
			if uint32(f.ErrCode) == vFlowCode {
				c.fcSeen[sid] = true
			}
			if s := c.streams[sid]; s != nil {
				s.status = vsClosed
			}
		case *GoAwayFrame:
			c.obs = append(c.obs, fmt.Sprintf("goaway:%d", uint32(f.ErrCode)))
			if uint32(f.ErrCode) == vFlowCode {
				c.goawayFC = true
			}
			if f.ErrCode != ErrCodeNo {
				c.dead = true
			}
		case *SettingsFrame:
			if f.IsAck() {
				c.obs = append(c.obs, "settingsack")
			} else {
				if v, ok := f.Value(SettingInitialWindowSize); ok {
					c.obs = append(c.obs, fmt.Sprintf("set:%d", v))
					c.streamInit = int64(v)
				} else {
					c.obs = append(c.obs, "settings")
				}
			}
		case *HeadersFrame:
			c.obs = append(c.obs, fmt.Sprintf("resp:%d", f.Header().StreamID))
		default:
			c.obs = append(c.obs, "frame")
		}
	}
}

func vfNewConn(t *testing.T, o *vu.Out, mode string, connWin, streamWin int64, early bool) *vfConn {
	c := &vfConn{t: t, o: o, mode: mode, streams: map[uint32]*vfStream{}, fcSeen: map[uint32]bool{}}
	c.st = newServerTester(t, nil, func(s *Server) {
		s.MaxUploadBufferPerConnection = int32(connWin)
		s.MaxUploadBufferPerStream = int32(streamWin)
	}, optQuiet)
	c.configured = connWin
	c.streamInit = InitialWindowSize
	c.conn = InitialWindowSize
	c.st.writePreface()
	c.st.writeSettings()
	c.settle()
	if early {
		return c // the client goes on without acknowledging (or waiting for) the server's SETTINGS
	}
	c.acked = true
	c.st.writeSettingsAck()
	c.settle()
	return c
}

// residueCheck is the C10 statement at a quiescent point.
func (c *vfConn) residueCheck(where string) {
	if c.dead {
		c.o.Stat("quiesce:dead-conn")
		return
	}
	residue := c.configured - c.conn
	ok := residue >= 0 && (residue == 0 || (residue < vMinRefresh && residue < c.conn))
	switch {
	case !ok && residue < 0:
		c.o.Fail("", fmt.Sprintf("%s: connection window %d is above the configured %d", where, c.conn, c.configured))
	case !ok:
		c.o.Fail("", fmt.Sprintf("%s: %d bytes of connection-level credit were never returned (peer view %d, configured %d)", where, residue, c.conn, c.configured))
	case residue > 0:
		c.o.Stat("quiesce:residue")
		// this finding belongs to C10; the C11 check only counts it
		if c.mode == "c10" {
			c.o.Fail(sigResidue, fmt.Sprintf("%s: peer's view %d is %d below the configured window %d: credit withheld by inflowMinRefresh batching", where, c.conn, residue, c.configured))
		}
	default:
		c.o.Stat("quiesce:exact")
	}
	// white-box cross-check on the server's own counters
	if c.st.sc != nil {
		consumed := int64(c.st.sc.TestFlowControlConsumed())
		if consumed != 0 {
			c.o.Fail("", fmt.Sprintf("%s: server counters: configured-(avail+unsent) = %d, expected 0", where, consumed))
		}
	}
}

func vfAtoi(s string) int64 {
	v, err := strconv.ParseInt(s, 10, 64)
	if err != nil {
		panic("bad int " + s)
	}
	return v
}

// classifyData updates the oracle's view for a DATA frame and returns the stream on which
// FLOW_CONTROL_ERROR must be reported (0 = the frame is within the advertised windows).
func (c *vfConn) classifyData(sid uint32, ln, pad int64, es bool) uint32 {
	L := ln
	if pad >= 0 {
		L += pad + 1
	}
	s := c.streams[sid]
	if s == nil {
		c.dead = true // idle stream: connection error, not a flow-control matter
		return 0
	}
	connOnly := func() uint32 {
		s.status = vsClosed // the server resets the stream (the RST_STREAM may still be queued)
		if L > c.conn {
			c.o.Stat("branch:excess-conn")
			return sid
		}
		c.conn -= L
		return 0
	}
	switch {
	case s.status != vsOpen:
		c.o.Stat("branch:data-on-closed")
		if c.blocked {
			c.o.Stat("branch:data-while-reset-queued")
		}
		return connOnly()
	case s.declCL != -1 && s.bodyBytes+ln > s.declCL:
		c.o.Stat("branch:data-past-content-length")
		return connOnly()
	case L == 0:
		if es {
			s.status = vsHalfRemote
		}
		return 0
	case L > c.conn || L > s.win-s.short:
		if L <= c.conn && L <= s.win {
			// within the window advertised to the client, beyond the one the server enforces
			c.o.Stat("branch:pre-ack-refused-within-advertised")
			c.preAck = true
		}
		if L > s.win {
			c.o.Stat("branch:excess-stream")
		} else {
			c.o.Stat("branch:excess-conn")
		}
		if L == c.conn+1 || L == s.win+1 {
			c.o.Stat("branch:excess-by-one")
		}
		s.status = vsClosed
		return sid
	}
	if L == c.conn || L == s.win {
		c.o.Stat("branch:exact-window")
	}
	c.conn -= L
	s.win -= L
	if ln > 0 {
		s.bodyBytes += ln
	}
	if pad >= 0 {
		c.o.Stat("branch:padded")
	}
	if s.bodyClosed && ln > 0 {
		c.o.Stat("branch:data-after-body-close")
	} else if es {
		s.status = vsHalfRemote
	}
	return 0
}

func vfExec(t *testing.T, mode string, ops []string, o *vu.Out) {
	var c *vfConn
	defer func() {
		if c != nil && c.blocked {
			c.unblock()
		}
	}()
	for _, op := range ops {
		base := strings.TrimSpace(strings.SplitN(op, "=>", 2)[0])
		f := strings.Fields(base)
		emit := func() {
			line := base
			if c != nil && len(c.obs) > 0 {
				line += " => " + strings.Join(c.obs, " ")
			}
			o.Op(line, "ok")
		}
		if len(f) == 0 {
			o.Op(op, "bad-op")
			continue
		}
		if c != nil {
			c.obs = nil
			c.fcSeen = map[uint32]bool{}
			c.goawayFC = false
			c.preAck = false
		}
		if f[0] == "reset" || f[0] == "ereset" {
			if len(f) != 3 {
				o.Op(op, "bad-op")
				continue
			}
			if c != nil {
				// one connection per case: a second reset is ignored
				o.Op(base, "ok")
				continue
			}
			c = vfNewConn(t, o, mode, vfAtoi(f[1]), vfAtoi(f[2]), f[0] == "ereset")
			o.Stat("op:" + f[0])
			c.residueCheck("after the initial WINDOW_UPDATE")
			emit()
			continue
		}
		if c == nil || c.dead {
			o.Op(base, "ok")
			continue
		}
		// autoUnblock records the frames released by an implicit `unblock` as a line of its own
		autoUnblock := func() {
			line := "unblock"
			if len(c.obs) > 0 {
				line += " => " + strings.Join(c.obs, " ")
			}
			o.Op(line, "ok")
			c.obs = nil
			c.fcSeen = map[uint32]bool{}
		}
		o.Stat("op:" + f[0])
		var expectFC uint32
		valid := true
		if c.blocked {
			switch f[0] {
			case "hexit", "hexitr", "bclose", "shutdown":
				// handler teardown is deferred by a blocked writer in ways the peer cannot tell from
				// the wire; these steps are not taken while the peer is not reading
				c.obs = append(c.obs, "nohandler")
				c.settle()
				emit()
				continue
			case "quiesce":
				c.unblock()
				autoUnblock()
			}
		}
		switch f[0] {
		case "ack":
			if len(f) != 1 {
				valid = false
				break
			}
			if !c.acked {
				c.acked = true
				c.st.writeSettingsAck()
				for _, s := range c.streams {
					s.win -= s.short
					s.short = 0
				}
			}
		case "block":
			if len(f) != 1 {
				valid = false
				break
			}
			c.block()
		case "unblock":
			if len(f) != 1 {
				valid = false
				break
			}
			c.unblock()
		case "hdr":
			if len(f) != 4 {
				valid = false
				break
			}
			sid, cl, es := uint32(vfAtoi(f[1])), vfAtoi(f[2]), f[3] == "1"
			if sid <= c.maxSid || sid%2 == 0 {
				c.dead = true
			}
			hdrs := []string{":method", "POST"}
			if cl >= 0 {
				hdrs = append(hdrs, "content-length", strconv.FormatInt(cl, 10))
			}
			c.st.writeHeaders(HeadersFrameParam{StreamID: sid, BlockFragment: c.st.encodeHeader(hdrs...), EndStream: es, EndHeaders: true})
			if !c.dead {
				c.maxSid = sid
				s := &vfStream{id: sid, win: c.advWin(), declCL: cl, status: vsOpen}
				s.short = s.win - c.streamInit
				if es {
					s.status = vsHalfRemote
				}
				if c.goneAway {
					s.status = vsClosed // HEADERS above the GOAWAY's last stream id are ignored
					c.o.Stat("branch:stream-after-goaway")
				}
				c.streams[sid] = s
				synctest.Wait()
				c.st.callsMu.Lock()
				if len(c.st.calls) > 0 {
					s.call = c.st.calls[0]
					c.st.calls = c.st.calls[1:]
				}
				c.st.callsMu.Unlock()
				if s.call == nil {
					s.exited = true
				}
			}
		case "shutdown":
			// a body-less request is left in flight (its handler never returns before the end of
			// the case), then the server starts a graceful shutdown: GOAWAY(NO_ERROR)
			if len(f) != 2 {
				valid = false
				break
			}
			sid := uint32(vfAtoi(f[1]))
			if sid <= c.maxSid || sid%2 == 0 || c.goneAway {
				c.dead = true // malformed script: nothing further is checked
				break
			}
			c.st.writeHeaders(HeadersFrameParam{StreamID: sid, BlockFragment: c.st.encodeHeader(":method", "GET"), EndStream: true, EndHeaders: true})
			c.maxSid = sid
			ks := &vfStream{id: sid, win: c.advWin(), declCL: -1, status: vsHalfRemote}
			ks.short = ks.win - c.streamInit
			c.streams[sid] = ks
			synctest.Wait()
			c.st.callsMu.Lock()
			if len(c.st.calls) > 0 {
				ks.call = c.st.calls[0]
				c.st.calls = c.st.calls[1:]
			}
			c.st.callsMu.Unlock()
			c.keepAlive = sid
			c.goneAway = true
			c.st.sc.StartGracefulShutdown()
		case "data":
			if len(f) != 5 {
				valid = false
				break
			}
			sid, ln, pad, es := uint32(vfAtoi(f[1])), vfAtoi(f[2]), vfAtoi(f[3]), f[4] == "1"
			if c.goneAway && pad >= 0 && c.streams[sid] != nil && sid > c.keepAlive {
				c.o.Stat("branch:padded-data-after-goaway")
			}
			if ln < 0 || pad < -1 || pad > 255 || ln+pad+1 > 1<<20 {
				valid = false
				break
			}
			if c.blocked {
				L := ln
				if pad >= 0 {
					L += pad + 1
				}
				if s := c.streams[sid]; s == nil || L > c.conn || L > s.win-s.short {
					// the refusal has to be observable on this line, and the frames queued so far
					// precede the DATA frame: they get a line of their own
					c.unblock()
					autoUnblock()
				}
			}
			expectFC = c.classifyData(sid, ln, pad, es)
			if pad >= 0 {
				c.st.writeDataPadded(sid, es, make([]byte, ln), make([]byte, pad))
			} else {
				c.st.writeData(sid, es, make([]byte, ln))
			}
		case "read":
			if len(f) != 3 {
				valid = false
				break
			}
			s := c.streams[uint32(vfAtoi(f[1]))]
			n := vfAtoi(f[2])
			if n < 1 || n > 1<<22 {
				valid = false
				break
			}
			if s == nil || s.call == nil || s.exited {
				c.obs = append(c.obs, "nohandler")
			} else if s.pend != nil {
				c.obs = append(c.obs, "busy")
			} else {
				r := &vfRead{}
				s.pend = r
				call := s.call
				call.ch <- func() {
					buf := make([]byte, n)
					got, err := call.req.Body.Read(buf)
					r.mu.Lock()
					r.done, r.n, r.err = true, got, err
					r.mu.Unlock()
				}
			}
		case "bclose":
			if len(f) != 2 {
				valid = false
				break
			}
			s := c.streams[uint32(vfAtoi(f[1]))]
			if s == nil || s.call == nil || s.exited {
				c.obs = append(c.obs, "nohandler")
			} else if s.pend != nil {
				c.obs = append(c.obs, "busy")
			} else {
				s.call.do(func(w http.ResponseWriter, r *http.Request) { r.Body.Close() })
				s.bodyClosed = true
			}
		case "hexit":
			if len(f) != 2 {
				valid = false
				break
			}
			s := c.streams[uint32(vfAtoi(f[1]))]
			if s == nil || s.call == nil || s.exited || (c.keepAlive != 0 && s.id == c.keepAlive) {
				c.obs = append(c.obs, "nohandler")
			} else if s.pend != nil {
				c.obs = append(c.obs, "busy")
			} else {
				s.call.exit()
				s.exited = true
				s.status = vsClosed
			}
		case "hexitr", "crstr":
			// Race: a goroutine started by the handler reads the request body in chunks of n bytes
			// and is NOT awaited; at the same moment the handler returns (hexitr) or the peer resets
			// the stream (crstr). Which of pipe.Read / closeStream / noteBodyRead comes first is the
			// scheduler's choice; whatever it is, every byte must be refunded exactly once.
			if len(f) != 3 {
				valid = false
				break
			}
			sid := uint32(vfAtoi(f[1]))
			n := vfAtoi(f[2])
			if n < 1 || n > 1<<22 {
				valid = false
				break
			}
			s := c.streams[sid]
			racing := s != nil && s.call != nil && !s.exited && s.pend == nil && !(c.keepAlive != 0 && s.id == c.keepAlive) && !c.blocked
			if f[0] == "hexitr" && !racing {
				if s != nil && s.pend != nil {
					c.obs = append(c.obs, "busy")
				} else {
					c.obs = append(c.obs, "nohandler")
				}
				break
			}
			start := make(chan struct{})
			if racing {
				r := &vfRead{}
				s.pend = r
				call := s.call
				call.do(func(w http.ResponseWriter, req *http.Request) {
					go func() {
						<-start
						buf := make([]byte, n)
						total := 0
						for {
							got, err := req.Body.Read(buf)
							total += got
							if err != nil {
								r.mu.Lock()
								r.done, r.n, r.err = true, total, err
								r.mu.Unlock()
								return
							}
						}
					}()
				})
				c.o.Stat("branch:race-" + f[0])
			}
			close(start)
			if f[0] == "hexitr" {
				s.call.exit()
				s.exited = true
				s.status = vsClosed
			} else {
				if s == nil {
					c.dead = true // RST_STREAM on an idle stream is a connection error
				} else {
					s.status = vsClosed
				}
				c.st.writeRSTStream(sid, ErrCodeCancel)
			}
		case "crst":
			if len(f) != 2 {
				valid = false
				break
			}
			sid := uint32(vfAtoi(f[1]))
			s := c.streams[sid]
			if s == nil {
				c.dead = true // RST_STREAM on an idle stream is a connection error
			} else {
				s.status = vsClosed
			}
			c.st.writeRSTStream(sid, ErrCodeCancel)
		case "quiesce":
			if len(f) != 1 {
				valid = false
				break
			}
			// unblock handlers stuck in Read by resetting their streams, then let every handler return
			for _, s := range c.sortedStreams() {
				if s.pend != nil {
					c.st.writeRSTStream(s.id, ErrCodeCancel)
					c.obs = append(c.obs, fmt.Sprintf("crst:%d", s.id))
					s.status = vsClosed
				}
			}
			synctest.Wait()
			for _, s := range c.sortedStreams() {
				c.collect(s)
			}
			for _, s := range c.sortedStreams() {
				if s.call != nil && !s.exited && s.pend == nil && !(c.keepAlive != 0 && s.id == c.keepAlive) {
					s.call.exit()
					s.exited = true
				}
				s.status = vsClosed
			}
		default:
			valid = false
		}
		if !valid {
			o.Op(op, "bad-op")
			continue
		}
		c.settle()
		// C11 on the implementation
		if c.preAck && c.fcSeen[expectFC] && mode == "c11" {
			o.Fail(sigPreAck, fmt.Sprintf("%q: DATA within the 65535-byte stream window the client is entitled to before it has acknowledged SETTINGS_INITIAL_WINDOW_SIZE=%d was refused with FLOW_CONTROL_ERROR", base, c.streamInit))
		}
		if expectFC != 0 && !c.fcSeen[expectFC] && !c.goawayFC {
			o.Fail("", fmt.Sprintf("%q: DATA beyond the advertised window was not refused with FLOW_CONTROL_ERROR", base))
		}
		for sid := range c.fcSeen {
			if sid != expectFC {
				o.Fail("", fmt.Sprintf("%q: FLOW_CONTROL_ERROR on stream %d although the DATA was within the advertised windows", base, sid))
			}
		}
		if c.goawayFC {
			o.Fail("", fmt.Sprintf("%q: GOAWAY(FLOW_CONTROL_ERROR)", base))
		}
		if f[0] == "quiesce" {
			c.residueCheck("at quiescence")
		}
		emit()
	}
}

// ---------------------------------------------------------------- generator

// gflow mirrors inflow's batching so that the generator can aim at the exact window edges.
type gflow struct{ avail, unsent int64 }

func (f *gflow) add(n int64) {
	u := f.unsent + n
	if u < int64(vMinRefresh) && u < f.avail {
		f.unsent = u
		return
	}
	f.avail += u
	f.unsent = 0
}

type gstream struct {
	id        int
	fl        gflow
	open      bool // peer may still send body DATA
	closed    bool // reset / handler gone
	handler   bool // handler still running
	bodyClose bool
	cl        int64
	sent      int64
	buffered  int64
}

func vfGen(r *vu.Rng, i int, mode string) []string {
	var ops []string
	connWin := int64(InitialWindowSize)
	switch r.Intn(6) {
	case 0:
	case 1:
		connWin += int64(r.Intn(2 * vMinRefresh)) // initial update may itself be batched
	case 2:
		connWin = 1 << 20
	default:
		connWin += int64(r.Intn(300000))
	}
	var streamWin int64
	switch r.Intn(5) {
	case 0:
		streamWin = int64(r.Range(1, 3*vMinRefresh))
	case 1:
		streamWin = connWin
	default:
		streamWin = int64(r.Range(1, 400000))
	}
	if mode == "c11" && r.Chance(2, 3) {
		connWin = InitialWindowSize + int64(r.Intn(40000))
		streamWin = int64(r.Range(1, 90000))
	}
	early := r.Chance(1, 8)
	if early {
		// the client does not wait for (or acknowledge) the server's SETTINGS; mostly a configured
		// stream window below the protocol default
		if r.Chance(3, 4) {
			streamWin = int64(r.Range(1, InitialWindowSize-1))
		}
		ops = append(ops, fmt.Sprintf("ereset %d %d", connWin, streamWin))
	} else {
		ops = append(ops, fmt.Sprintf("reset %d %d", connWin, streamWin))
	}
	conn := gflow{avail: InitialWindowSize}
	conn.add(connWin - InitialWindowSize)
	var streams []*gstream
	nextID := 1
	afterGoAway := false
	ackSent := false
	openStream := func() *gstream {
		s := &gstream{id: nextID, fl: gflow{avail: streamWin}, open: true, handler: true, cl: -1}
		if afterGoAway {
			s.open, s.closed, s.handler = false, true, false
		}
		nextID += 2
		es := 0
		if r.Chance(1, 12) {
			es = 1
			s.open = false
		} else if r.Chance(1, 4) {
			s.cl = int64(r.Intn(60000))
		}
		ops = append(ops, fmt.Sprintf("hdr %d %d %d", s.id, s.cl, es))
		streams = append(streams, s)
		return s
	}
	pick := func() *gstream {
		if len(streams) == 0 {
			return openStream()
		}
		s := streams[r.Intn(len(streams))]
		for k := 0; k < 3 && (s.closed || !s.handler); k++ { // prefer streams that are still alive
			s = streams[r.Intn(len(streams))]
		}
		if (s.closed || !s.handler) && len(streams) < 8 && r.Chance(2, 3) {
			return openStream()
		}
		return s
	}
	dataOp := func(s *gstream) {
		w := conn.avail
		if s.open && !s.closed && s.fl.avail < w {
			w = s.fl.avail
		}
		var L int64
		switch k := r.Intn(16); {
		case k == 0:
			L = w // exactly the window
		case k == 1:
			L = w + 1
		case k == 2 && mode == "c11":
			L = w + int64(r.Range(2, 5000))
		case k == 3:
			L = w - 1
		case k == 4:
			L = int64(r.Intn(3))
		case k == 5:
			L = conn.avail + int64(r.Range(-1, 1))
		default:
			if w > 0 {
				L = int64(r.Intn(int(w))) / int64(r.Range(1, 8))
			}
			if r.Chance(1, 3) && L > 20000 {
				L = int64(r.Intn(20000))
			}
		}
		if mode == "c11" && r.Chance(1, 3) {
			L = w + int64(r.Range(-1, 1))
		}
		if early && !ackSent && streamWin < InitialWindowSize && r.Chance(1, 2) {
			// between the configured window and the 65535 the client may still use
			L = streamWin + int64(r.Intn(int(InitialWindowSize-streamWin)+2))
		}
		if L < 0 {
			L = 0
		}
		if L > 1<<20-300 {
			L = 1<<20 - 300
		}
		pad := int64(-1)
		ln := L
		if (r.Chance(1, 5) || (afterGoAway && r.Chance(2, 3))) && L >= 1 {
			pad = int64(r.Intn(256))
			if pad+1 > L {
				pad = L - 1
			}
			ln = L - pad - 1
		}
		es := 0
		if r.Chance(1, 10) {
			es = 1
		}
		ops = append(ops, fmt.Sprintf("data %d %d %d %d", s.id, ln, pad, es))
		// steer the simulation (approximate: mirrors processData's main branches)
		switch {
		case !s.open || s.closed:
			if L <= conn.avail {
				conn.avail -= L
				conn.add(L)
			}
		case s.cl >= 0 && s.sent+ln > s.cl:
			if L <= conn.avail {
				conn.avail -= L
				conn.add(L)
			}
			s.closed, s.open, s.handler = true, false, s.handler
			conn.add(s.buffered)
			s.buffered = 0
		case L == 0:
			if es == 1 {
				s.open = false
			}
		case L > conn.avail || L > s.fl.avail:
			s.closed, s.open = true, false
			conn.add(s.buffered)
			s.buffered = 0
		default:
			conn.avail -= L
			s.fl.avail -= L
			s.sent += ln
			if s.bodyClose && ln > 0 {
				conn.add(L)
			} else {
				s.buffered += ln
				conn.add(L - ln)
				s.fl.add(L - ln)
				if es == 1 {
					s.open = false
				}
			}
		}
	}
	readOp := func(s *gstream) {
		var n int64
		switch r.Intn(5) {
		case 0:
			n = int64(r.Range(1, 100))
		case 1:
			n = int64(vMinRefresh) + int64(r.Range(-2, 2))
		case 2:
			n = 1 << 21
		default:
			n = int64(r.Range(1, 70000))
		}
		ops = append(ops, fmt.Sprintf("read %d %d", s.id, n))
		if !s.handler || s.bodyClose {
			return
		}
		got := n
		if got > s.buffered {
			got = s.buffered
		}
		s.buffered -= got
		conn.add(got)
		if s.open && !s.closed {
			s.fl.add(got)
		}
	}
	closeSim := func(s *gstream) {
		conn.add(s.buffered)
		s.buffered = 0
		s.closed, s.open = true, false
	}
	if r.Chance(1, 6) {
		// blocked-writer class: the peer stops reading, a stream is reset by the server (the
		// RST_STREAM stays queued), the peer keeps sending DATA on it, resumes reading, and then
		// probes the connection window on another stream: exactly the window, then one byte more
		w := int64(InitialWindowSize) + int64(r.Intn(200000))
		ops = []string{fmt.Sprintf("reset %d %d", w, w)}
		cw := gflow{avail: InitialWindowSize}
		cw.add(w - InitialWindowSize)
		id := 1
		charge := func(L int64) {
			if L <= cw.avail {
				cw.avail -= L
				cw.add(L)
			}
		}
		for rounds := r.Range(1, 3); rounds > 0; rounds-- {
			switch r.Intn(3) {
			case 0: // DATA past the declared Content-Length
				cl := int64(r.Intn(2000))
				ops = append(ops, fmt.Sprintf("hdr %d %d 0", id, cl), "block", fmt.Sprintf("data %d %d -1 0", id, cl+1+int64(r.Intn(50))))
				charge(cl + 1)
			case 1: // DATA after END_STREAM
				ops = append(ops, fmt.Sprintf("hdr %d -1 0", id), fmt.Sprintf("data %d 10 -1 1", id), "block", fmt.Sprintf("data %d 7 -1 0", id))
			default: // DATA after the peer's own reset... and on a stream the handler has left
				ops = append(ops, fmt.Sprintf("hdr %d -1 0", id), fmt.Sprintf("hexit %d", id), "block", fmt.Sprintf("data %d 9 -1 0", id))
			}
			for q := r.Range(1, 4); q > 0; q-- {
				L := int64(r.Range(1, 30000))
				pad := int64(-1)
				if r.Chance(1, 3) {
					pad = int64(r.Intn(200))
				}
				ops = append(ops, fmt.Sprintf("data %d %d %d 0", id, L, pad))
			}
			ops = append(ops, "unblock")
			id += 2
		}
		ops = append(ops, "quiesce", fmt.Sprintf("hdr %d -1 0", id))
		// after quiesce everything has been refunded up to a batching residue the generator
		// cannot see; the sharp probe is still: fill the window the peer knows, then one byte
		ops = append(ops, fmt.Sprintf("data %d %d -1 0", id, w-4095), fmt.Sprintf("data %d 4095 -1 0", id), fmt.Sprintf("data %d 1 -1 0", id))
		ops = append(ops, "quiesce")
		return ops
	}
	if mode == "c10" && r.Chance(1, 5) {
		// race class: many streams, each torn down while a detached goroutine reads its body
		ops = ops[:0]
		ops = append(ops, fmt.Sprintf("reset %d %d", 1<<20, 1<<20))
		k := r.Range(8, 24)
		for j := 0; j < k; j++ {
			id := 2*j + 1
			ops = append(ops, fmt.Sprintf("hdr %d -1 0", id))
			for q := r.Range(1, 3); q > 0; q-- {
				ops = append(ops, fmt.Sprintf("data %d %d -1 0", id, r.Range(1, 30000)))
			}
			if r.Chance(1, 4) {
				ops = append(ops, fmt.Sprintf("read %d %d", id, r.Range(1, 5000)))
			}
			chunk := r.Range(1, 70000)
			if r.Chance(2, 3) {
				ops = append(ops, fmt.Sprintf("hexitr %d %d", id, chunk))
			} else {
				ops = append(ops, fmt.Sprintf("crstr %d %d", id, chunk), fmt.Sprintf("hexit %d", id))
			}
		}
		ops = append(ops, "quiesce")
		return ops
	}
	steps := r.Range(4, 40)
	if mode == "c11" {
		steps = r.Range(4, 24)
	}
	openStream()
	shutdownAt := -1
	if r.Chance(1, 4) {
		shutdownAt = r.Intn(steps)
	}
	ackAt := -1
	if early && r.Chance(2, 3) {
		ackAt = r.Intn(steps)
	}
	for j := 0; j < steps; j++ {
		if j == ackAt {
			ops = append(ops, "ack")
			ackSent = true
		}
		if j == shutdownAt {
			// graceful shutdown with a request in flight; streams opened from here on are ignored
			// by the server and their DATA (mostly padded below) is discarded
			ops = append(ops, fmt.Sprintf("shutdown %d", nextID))
			nextID += 2
			afterGoAway = true
			openStream()
		}
		s := pick()
		switch k := r.Intn(100); {
		case k < 40:
			dataOp(s)
		case k < 68:
			readOp(s)
		case k < 72:
			ops = append(ops, fmt.Sprintf("bclose %d", s.id))
			if s.handler {
				s.bodyClose = true
			}
		case k < 77:
			if r.Chance(1, 3) {
				ops = append(ops, fmt.Sprintf("crstr %d %d", s.id, r.Range(1, 70000)))
			} else {
				ops = append(ops, fmt.Sprintf("crst %d", s.id))
			}
			closeSim(s)
		case k < 82:
			if r.Chance(1, 3) {
				ops = append(ops, fmt.Sprintf("hexitr %d %d", s.id, r.Range(1, 70000)))
			} else {
				ops = append(ops, fmt.Sprintf("hexit %d", s.id))
			}
			if s.handler {
				s.handler = false
				closeSim(s)
			}
		case k < 92:
			if len(streams) < 6 {
				openStream()
			} else {
				dataOp(s)
			}
		case k < 94:
			if r.Bool() {
				ops = append(ops, "block")
			} else {
				ops = append(ops, "unblock")
			}
		case k < 95:
			ops = append(ops, "quiesce")
			for _, x := range streams {
				x.handler = false
				closeSim(x)
			}
		default:
			dataOp(s)
			readOp(s)
		}
	}
	// wind down: every body is read to the end or closed, in a random style per stream
	for _, s := range streams {
		if s.open && r.Chance(2, 3) {
			if r.Bool() {
				ops = append(ops, fmt.Sprintf("data %d 0 -1 1", s.id))
			} else {
				ops = append(ops, fmt.Sprintf("crst %d", s.id))
			}
		}
		switch r.Intn(4) {
		case 0:
			ops = append(ops, fmt.Sprintf("read %d %d", s.id, 1<<21), fmt.Sprintf("read %d 10", s.id))
		case 1:
			ops = append(ops, fmt.Sprintf("bclose %d", s.id))
		case 2:
			ops = append(ops, fmt.Sprintf("read %d %d", s.id, r.Range(1, 5000)))
		}
		if r.Chance(1, 2) {
			ops = append(ops, fmt.Sprintf("hexit %d", s.id))
		}
	}
	ops = append(ops, "quiesce")
	return ops
}
