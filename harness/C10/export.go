//go:build verif

// White-box shims for the flow.go arithmetic (properties C10, C11; outflow for C08/C09).
// Injected into package http2 with `go build -overlay`; never written to /repo.
package http2

// VerifInflow wraps the unexported inflow.
type VerifInflow struct{ f inflow }

func (v *VerifInflow) Init(n int32)       { v.f = inflow{}; v.f.init(n) }
func (v *VerifInflow) Add(n int) int32    { return v.f.add(n) }
func (v *VerifInflow) Take(n uint32) bool { return v.f.take(n) }
func (v *VerifInflow) Avail() int32       { return v.f.avail }
func (v *VerifInflow) Unsent() int32      { return v.f.unsent }

func VerifTakeInflows(a, b *VerifInflow, n uint32) bool { return takeInflows(&a.f, &b.f, n) }

const VerifInflowMinRefresh = inflowMinRefresh
const VerifInitialWindowSize = initialWindowSize

// VerifOutflow wraps the unexported outflow.
type VerifOutflow struct{ f outflow }

func (v *VerifOutflow) SetN(n int32) { v.f.n = n }
func (v *VerifOutflow) N() int32     { return v.f.n }
func (v *VerifOutflow) SetConn(c *VerifOutflow) {
	if c == nil {
		v.f.conn = nil
		return
	}
	v.f.setConnFlow(&c.f)
}
func (v *VerifOutflow) Available() int32 { return v.f.available() }
func (v *VerifOutflow) Take(n int32)     { v.f.take(n) }
func (v *VerifOutflow) Add(n int32) bool { return v.f.add(n) }
