//go:build verif

// C37 harness: arbitrary / mutated byte strings through Message.Unpack, the
// Parser (parse and skip paths), Name.unpack and skipName.
package main

import (
	"fmt"
	"strings"

	dm "golang.org/x/net/dns/dnsmessage"

	vu "golang.org/x/net/internal/verifutil"
)

// genNameBuf builds a buffer out of name fragments: labels, terminators,
// pointers (backward, forward, self, out of range), reserved prefixes.
func genNameBuf(r *vu.Rng) ([]byte, []int) {
	var b []byte
	var starts []int
	n := 1 + r.Intn(8)
	for i := 0; i < n; i++ {
		starts = append(starts, len(b))
		switch r.Intn(12) {
		case 0, 1, 2, 3: // label
			l := genLabel(r, false)
			if r.Chance(1, 15) {
				l[r.Intn(len(l))] = '.'
			}
			b = append(b, byte(len(l)))
			b = append(b, l...)
		case 4, 5: // terminator
			b = append(b, 0)
		case 6, 7: // pointer to a fragment start / anywhere
			t := r.Intn(len(b) + 4)
			if len(starts) > 0 && r.Chance(2, 3) {
				t = starts[r.Intn(len(starts))]
			}
			if r.Chance(1, 20) {
				t = r.Intn(1 << 14)
			}
			b = append(b, 0xC0|byte(t>>8), byte(t))
		case 8: // pointer to itself
			t := len(b)
			b = append(b, 0xC0|byte(t>>8), byte(t))
		case 9: // reserved prefix
			b = append(b, []byte{0x40, 0x80, 0x7f, 0xbf}[r.Intn(4)]|byte(r.Intn(64)))
		case 10: // a run of labels (long names)
			for k, m := 0, r.Range(2, 9); k < m; k++ {
				ln := r.Range(20, 63)
				b = append(b, byte(ln))
				b = append(b, r.BytesFrom(labelAlphabet, ln)...)
			}
		default:
			b = append(b, r.Bytes(1+r.Intn(3))...)
		}
	}
	if r.Chance(2, 3) {
		b = append(b, 0)
	}
	if r.Chance(1, 6) && len(b) > 0 {
		b = b[:r.Intn(len(b))]
	}
	return b, starts
}

// genLoopBuf: a label block of total text length L followed by a pointer back to
// offset 0 (or a chain of pointers): exercises the pointer budget against the
// 254 limit.
func genLoopBuf(r *vu.Rng) []byte {
	var b []byte
	switch r.Intn(3) {
	case 0: // block then pointer to start
		for k, m := 0, 1+r.Intn(3); k < m; k++ {
			ln := r.Range(1, 30)
			b = append(b, byte(ln))
			b = append(b, r.BytesFrom(labelAlphabet, ln)...)
		}
		b = append(b, 0xC0, 0)
	case 1: // chain of k pointers ending in a name
		k := r.Range(8, 13)
		for i := 0; i < k; i++ {
			t := 2 * (i + 1)
			b = append(b, 0xC0, byte(t))
		}
		b = append(b, 1, 'a', 0)
	default: // labels summing to 252..256 text bytes, then 0
		want := r.Range(251, 256)
		got := 0
		for got < want {
			ln := min(63, want-got-1)
			if ln <= 0 {
				break
			}
			b = append(b, byte(ln))
			b = append(b, r.BytesFrom(labelAlphabet, ln)...)
			got += ln + 1
		}
		b = append(b, 0)
	}
	return b
}

func packValid(r *vu.Rng) []byte {
	for tries := 0; tries < 20; tries++ {
		m, ok := parseMessage(strings.Fields(genMessage(r, false)))
		if !ok {
			continue
		}
		if r.Chance(1, 3) {
			if b, err := buildWith(m, false, 0); err == nil {
				return b
			}
			continue
		}
		if b, err := m.Pack(); err == nil {
			return b
		}
	}
	return make([]byte, 12)
}

func mutate(r *vu.Rng, b []byte) []byte {
	b = append([]byte{}, b...)
	for k, n := 0, 1+r.Intn(3); k < n && len(b) > 0; k++ {
		i := r.Intn(len(b))
		switch r.Intn(10) {
		case 0:
			b = b[:i] // truncate
		case 1:
			b[i] ^= 1 << uint(r.Intn(8))
		case 2:
			b[i] = byte(r.Uint64())
		case 3:
			b[i]++
		case 4:
			b[i]--
		case 5: // plant a pointer
			if i+1 < len(b) {
				t := r.Intn(len(b))
				if r.Chance(1, 4) {
					t = i
				}
				b[i], b[i+1] = 0xC0|byte(t>>8), byte(t)
			}
		case 6: // touch the section counts
			j := 4 + r.Intn(8)
			if j < len(b) {
				b[j] = byte(r.Intn(4))
			}
		case 7: // insert bytes
			ins := r.Bytes(1 + r.Intn(4))
			b = append(b[:i], append(ins, b[i:]...)...)
		case 8: // delete bytes
			j := min(len(b), i+1+r.Intn(4))
			b = append(b[:i], b[j:]...)
		default: // append garbage
			b = append(b, r.Bytes(1+r.Intn(6))...)
		}
	}
	return b
}

// genLenMessage: a small message whose records are of the kinds that carry length octets inside
// the RDATA (TXT strings, OPT options, SVCB parameters, unknown data) - packed without compression.
func genLenMessage(r *vu.Rng) []byte {
	for tries := 0; tries < 20; tries++ {
		p := &namePool{}
		n := 1 + r.Intn(3)
		s := fmt.Sprintf("%d 0000000 0 0 0 %d", genU16(r), n)
		for i := 0; i < n; i++ {
			var body string
			switch r.Intn(5) {
			case 0, 1:
				k := 1 + r.Intn(3)
				body = fmt.Sprintf("TXT %d", k)
				for j := 0; j < k; j++ {
					body += " " + vu.Hex(r.Bytes(r.Intn(6)))
				}
			case 2:
				body = "OPT" + genPairs(r, false, false)
			case 3:
				body = fmt.Sprintf("SVCB %d %s", genU16(r), hexS(p.gen(r, false))) + genPairs(r, true, false)
			default:
				body = fmt.Sprintf("UNK %d %s", 99+r.Intn(3), vu.Hex(r.Bytes(r.Intn(6))))
			}
			s += fmt.Sprintf(" %s 0 1 %d 0 %s", hexS(p.gen(r, false)), r.Intn(1000), body)
		}
		s += " 0 0"
		if m, ok := parseMessage(strings.Fields(s)); ok {
			if b, err := buildWith(m, false, 0); err == nil {
				return b
			}
		}
	}
	return packValid(r)
}

// lengthOctets: offsets of the length octets of a packed message - RDLENGTH (low byte) of every
// record, and inside TXT / OPT / SVCB / HTTPS RDATA every string / option / parameter length.
// The last one of each record is listed twice (more weight: that is where an overrun escapes).
func lengthOctets(b []byte) []int {
	var p dm.Parser
	if _, err := p.Start(b); err != nil || p.SkipAllQuestions() != nil {
		return nil
	}
	var offs []int
	hdrs := []func() (dm.ResourceHeader, error){p.AnswerHeader, p.AuthorityHeader, p.AdditionalHeader}
	skips := []func() error{p.SkipAnswer, p.SkipAuthority, p.SkipAdditional}
	for s := range hdrs {
		for {
			h, err := hdrs[s]()
			if err != nil {
				break
			}
			body := dm.VerifParserOff(&p)
			end := body + int(h.Length)
			if end > len(b) {
				return offs
			}
			offs = append(offs, body-1)
			var in []int
			switch h.Type {
			case dm.TypeTXT:
				for i := body; i < end; i += 1 + int(b[i]) {
					in = append(in, i)
				}
			case dm.TypeOPT:
				for i := body; i+4 <= end; i += 4 + int(b[i+2])<<8 + int(b[i+3]) {
					in = append(in, i+3)
				}
			case dm.TypeSVCB, dm.TypeHTTPS:
				i := body + 2
				for i < end && b[i] != 0 && b[i]&0xC0 == 0 { // target labels
					in = append(in, i)
					i += 1 + int(b[i])
				}
				for i++; i+4 <= end; i += 4 + int(b[i+2])<<8 + int(b[i+3]) {
					in = append(in, i+3)
				}
			}
			if len(in) > 0 {
				in = append(in, in[len(in)-1])
			}
			offs = append(offs, in...)
			if skips[s]() != nil {
				return offs
			}
		}
	}
	return offs
}

// genLenPerturbed: one length octet +-1, with and without bytes following the message.
func genLenPerturbed(r *vu.Rng) []byte {
	b := genLenMessage(r)
	if r.Chance(1, 4) {
		b = packValid(r)
	}
	offs := lengthOctets(b)
	b = append([]byte{}, b...)
	if len(offs) > 0 {
		i := offs[r.Intn(len(offs))]
		if i < len(b) {
			if r.Bool() {
				b[i]++
			} else {
				b[i]--
			}
		}
	}
	switch r.Intn(4) {
	case 0, 1: // data present after the message
		b = append(b, r.Bytes(1+r.Intn(3))...)
	case 2: // the last byte missing
		if len(b) > 0 {
			b = b[:len(b)-1]
		}
	}
	return b
}

// genTruncLast: the last record's RDLENGTH is larger than the bytes that remain - by one or by many -
// either because the message is cut inside its RDATA or because RDLENGTH is raised.
func genTruncLast(r *vu.Rng) []byte {
	b := append([]byte{}, packValid(r)...)
	if r.Bool() {
		b = append([]byte{}, genLenMessage(r)...)
	}
	offs := lengthOctets(b)
	last := -1 // offset of the low byte of the last RDLENGTH
	for _, i := range offs {
		if i >= 1 && i+1 <= len(b) {
			// RDLENGTH octets are the ones directly before an RDATA; the last record's is the largest
			// offset whose record reaches the end of the message
			if i+1+int(b[i-1])<<8+int(b[i]) == len(b) && i > last {
				last = i
			}
		}
	}
	if last < 0 {
		return b
	}
	by := 1
	if r.Bool() {
		by = 2 + r.Intn(300)
	}
	if r.Bool() { // cut the message
		rd := int(b[last-1])<<8 + int(b[last])
		if by > rd {
			by = rd
		}
		return b[:len(b)-by]
	}
	v := int(b[last-1])<<8 + int(b[last]) + by
	if v > 65535 {
		v = 65535
	}
	b[last-1], b[last] = byte(v>>8), byte(v)
	return b
}

// genGuardEdge: pressure on every bounds guard of the reader: the message cut one byte before / at /
// one byte after a field boundary (length octets, RDLENGTH, header fields), pointers to the last
// byte and one past the end, and name reads at offsets len-1, len, len+1.
func genGuardEdge(r *vu.Rng) []string {
	b := append([]byte{}, genLenMessage(r)...)
	if r.Bool() {
		b = append([]byte{}, packValid(r)...)
	}
	offs := append(lengthOctets(b), 0, 2, 4, 6, 8, 10, 12)
	cut := offs[r.Intn(len(offs))] + r.Intn(4) - 1
	switch r.Intn(4) {
	case 0: // pointer to the last byte / just past the end, somewhere after the header
		if len(b) > 14 {
			i := 12 + r.Intn(len(b)-13)
			t := len(b) - 1 + r.Intn(2)
			b[i], b[i+1] = 0xC0|byte(t>>8), byte(t)
		}
	case 1, 2:
		if cut >= 0 && cut <= len(b) {
			b = b[:cut]
		}
	default: // a lone pointer prefix as the very last byte
		b = append(b, 0xC0|byte(r.Intn(64)))
	}
	h := vu.Hex(b)
	ops := msgOps(b, r)
	for _, off := range []int{len(b) - 2, len(b) - 1, len(b), len(b) + 1} {
		if off >= 0 {
			ops = append(ops, fmt.Sprintf("uname %s %d", h, off), fmt.Sprintf("sname %s %d", h, off))
		}
	}
	return append(ops, "walk "+h+" hkhkhkhkhk", "walk "+h+" khkhkhkhkh")
}

func msgOps(b []byte, r *vu.Rng) []string {
	h := vu.Hex(b)
	ops := []string{"unpack " + h, "skipall " + h}
	for k := 0; k < 2; k++ {
		sc := string(r.BytesFrom("pshkw", 1+r.Intn(8)))
		if r.Chance(1, 6) {
			sc = "-"
		}
		ops = append(ops, "walk "+h+" "+sc)
	}
	for k := 0; k < 2; k++ {
		off := 12
		if k == 1 || len(b) < 12 {
			off = r.Intn(len(b) + 2)
		}
		ops = append(ops, fmt.Sprintf("uname %s %d", h, off), fmt.Sprintf("sname %s %d", h, off))
	}
	return ops
}

func gen(r *vu.Rng, i int) []string {
	switch k := r.Intn(100); {
	case k < 25:
		b, starts := genNameBuf(r)
		h := vu.Hex(b)
		var ops []string
		for j := 0; j < 3; j++ {
			off := r.Intn(len(b) + 2)
			if len(starts) > 0 && r.Chance(3, 4) {
				off = starts[r.Intn(len(starts))]
			}
			ops = append(ops, fmt.Sprintf("uname %s %d", h, off), fmt.Sprintf("sname %s %d", h, off))
		}
		return ops
	case k < 35:
		b := genLoopBuf(r)
		h := vu.Hex(b)
		return []string{fmt.Sprintf("uname %s 0", h), fmt.Sprintf("sname %s 0", h)}
	case k < 36: // nested names, packed WITHOUT compression: accepted, but the re-pack compresses them
		if m, ok := parseMessage(strings.Fields(genChainMessage(r, r.Range(9, 14)))); ok {
			if b, err := buildWith(m, false, 0); err == nil {
				return msgOps(b, r)
			}
		}
		return msgOps(packValid(r), r)
	case k < 45: // valid message, unmutated
		return msgOps(packValid(r), r)
	case k < 62:
		return msgOps(genLenPerturbed(r), r)
	case k < 68:
		return genGuardEdge(r)
	case k < 80:
		b := genTruncLast(r)
		h := vu.Hex(b)
		return append(msgOps(b, r), "walk "+h+" kkkkkkkkkkkk", "walk "+h+" ssssssssssss", "walk "+h+" hhhhhhhhhhhh")
	case k < 90:
		return msgOps(mutate(r, packValid(r)), r)
	case k < 95: // header + random tail
		b := r.Bytes(12 + r.Intn(40))
		for j := 4; j < 12 && j < len(b); j++ {
			b[j] = 0
			if j%2 == 1 {
				b[j] = byte(r.Intn(3))
			}
		}
		return msgOps(b, r)
	default:
		return msgOps(r.Bytes(r.Intn(40)), r)
	}
}

func main() { vu.Main(gen, exec) }
