//go:build verif

// C16 harness: the HTTP/2 server survives any client byte stream.
//
// A case is a script of raw client writes run against the package's own server rig
// (newServerTester) inside a synctest bubble, with a wall-clock watchdog around it. After every
// op the bubble is run to quiescence and the white-box counters are appended to the op line
// (`=> q:<queuedControlFrames> h:<curHandlers> r:<user handlers running> alive|gone`). The last op
// `end` first probes the connection (a PING and a request), then advances fake time by 15 s
// (beyond prefaceTimeout / firstSettingsTimeout / goAwayTimeout) and classifies the outcome:
//
//	served   the probe was answered and the connection is still open
//	goaway   the server sent GOAWAY (and closed, or is waiting for its streams)
//	closed   the server closed the connection without GOAWAY
//	stuck    none of these: neither serving nor ended within the bound      -> rejected
//	panic    serverConn.serve panicked (testHookOnPanic)                     -> rejected
//	deadlock synctest reported a deadlocked bubble                           -> rejected
//
// The Lean monitor (Driver/C16.lean) re-checks every line; out.Fail states the property here.
// Absence of panics and deadlocks in the real goroutines is SEARCHED by this fuzzing, not proved.
//
// ops: conn <adv> | raw x<hex> | pre | set | req <sid> | flood <kind> <n> | block | unblock |
//
//	sleep <ms> | eof | end
//
// Injected as http2/zz_verif_c16_test.go (package http2_test) with `go test -overlay`.
package http2_test

import (
	"bytes"
	"fmt"
	"net/http"
	"os"
	"strconv"
	"strings"
	"sync"
	"testing"
	"testing/synctest"
	"time"

	. "golang.org/x/net/http2"
	"golang.org/x/net/http2/hpack"
	vu "golang.org/x/net/internal/verifutil"
)

func TestVerifC16(t *testing.T) {
	cfg := vu.ConfigFromEnv()
	vu.Run(cfg, v16Gen, func(ops []string, o *vu.Out) {
		wd := time.AfterFunc(120*time.Second, func() {
			fmt.Fprintf(os.Stderr, "C16 watchdog: case stuck for 120 s of wall-clock time:\n%.4000s\n", strings.Join(ops, "\n"))
			os.Exit(3)
		})
		defer wd.Stop()
		st := &v16State{o: o}
		func() {
			defer func() {
				if e := recover(); e != nil {
					// synctest.Test panics in this goroutine when the bubble deadlocks
					st.deadlock = fmt.Sprint(e)
				}
			}()
			synctest.Test(t, func(t *testing.T) { v16Exec(t, ops, st) })
		}()
		st.finish(ops)
	})
}

type v16State struct {
	o        *vu.Out
	lines    []string // op lines recorded so far (emitted by finish)
	results  []string
	endIdx   int
	outcome  string
	deadlock string
	panicked bool
	maxQ     int
	maxH     int
	adv      int
}

// finish emits the recorded lines; the `end` line carries the outcome including what was only
// known after the bubble ended (deadlock).
func (s *v16State) finish(ops []string) {
	for i, l := range s.lines {
		if i == s.endIdx && s.endIdx >= 0 && s.results[i] == "ok" {
			out := s.outcome
			if s.panicked {
				out = "panic"
			}
			if s.deadlock != "" {
				out = "deadlock"
				s.o.Fail("", "synctest: "+s.deadlock)
			}
			l = fmt.Sprintf("%s => %s q:%d h:%d", l, out, s.maxQ, s.maxH)
			s.o.Stat("outcome:" + out)
		}
		s.o.Op(l, s.results[i])
	}
	if s.deadlock != "" && (s.endIdx < 0 || s.endIdx >= len(s.lines)) {
		// the bubble died before `end` was reached: report on an extra line-less failure
		s.o.Fail("", "synctest: "+s.deadlock)
	}
	// lines that were never reached (bubble aborted)
	for i := len(s.lines); i < len(ops); i++ {
		s.o.Op(strings.TrimSpace(strings.SplitN(ops[i], "=>", 2)[0]), "aborted")
	}
}

type v16Conn struct {
	t       *testing.T
	st      *serverTester
	s       *v16State
	mu      sync.Mutex
	running int
	maxRun  int
	served  int
	blocked bool
	closed  bool // server closed the connection (client saw EOF / error)
	goaway  bool
	cliEOF  bool
	pingAck map[[8]byte]bool
	resp    map[uint32]bool
	henc    *hpack.Encoder
	hbuf    bytes.Buffer
}

func (c *v16Conn) serveHTTP(w http.ResponseWriter, r *http.Request) {
	c.mu.Lock()
	c.running++
	if c.running > c.maxRun {
		c.maxRun = c.running
	}
	c.mu.Unlock()
	defer func() {
		c.mu.Lock()
		c.running--
		c.served++
		c.mu.Unlock()
	}()
	w.Write([]byte("ok"))
}

func (c *v16Conn) write(b []byte) {
	if c.closed || c.cliEOF || len(b) == 0 {
		return
	}
	c.st.cc.Write(b)
}

// observe drains what the server wrote and reads the white-box counters.
func (c *v16Conn) observe() string {
	synctest.Wait()
	if !c.blocked && !c.cliEOF {
		for !c.closed {
			f, err := c.st.fr.ReadFrame()
			if err != nil {
				if err == os.ErrDeadlineExceeded || err == errWouldBlock {
					break
				}
				c.closed = true
				break
			}
			switch f := f.(type) {
			case *GoAwayFrame:
				c.goaway = true
			case *PingFrame:
				if f.IsAck() {
					c.pingAck[f.Data] = true
				}
			case *HeadersFrame:
				c.resp[f.Header().StreamID] = true
			}
		}
	}
	c.mu.Lock()
	run, maxRun := c.running, c.maxRun
	c.mu.Unlock()
	q, h, alive := 0, 0, false
	if c.st.sc != nil {
		if wb, ok := c.st.sc.VerifCounters(); ok {
			q, h, alive = wb.QueuedControl, wb.CurHandlers, true
			if q > VerifMaxQueuedControlFrames {
				c.s.o.Fail("", fmt.Sprintf("queuedControlFrames=%d > %d on a connection that is still being served", q, VerifMaxQueuedControlFrames))
			}
			if h > wb.AdvMaxStreams {
				c.s.o.Fail("", fmt.Sprintf("curHandlers=%d exceeds advMaxStreams=%d", h, wb.AdvMaxStreams))
			}
			if wb.Unstarted > 4*wb.AdvMaxStreams+1 {
				c.s.o.Fail("", fmt.Sprintf("%d unstarted handlers queued (advMaxStreams=%d)", wb.Unstarted, wb.AdvMaxStreams))
			}
		}
	}
	if maxRun > c.s.adv {
		c.s.o.Fail("", fmt.Sprintf("%d handlers ran concurrently, advertised limit %d", maxRun, c.s.adv))
	}
	if q > c.s.maxQ {
		c.s.maxQ = q
	}
	if maxRun > c.s.maxH {
		c.s.maxH = maxRun
	}
	if h > c.s.maxH {
		c.s.maxH = h
	}
	a := "gone"
	if alive {
		a = "alive"
	}
	return fmt.Sprintf("q:%d h:%d r:%d %s", q, h, run, a)
}

func (c *v16Conn) reqBytes(sid uint32) []byte {
	c.hbuf.Reset()
	for _, kv := range [][2]string{{":method", "GET"}, {":scheme", "https"}, {":authority", "dummy.tld"}, {":path", "/"}} {
		c.henc.WriteField(hpack.HeaderField{Name: kv[0], Value: kv[1]})
	}
	var buf bytes.Buffer
	fr := NewFramer(&buf, nil)
	fr.AllowIllegalWrites = true
	fr.WriteHeaders(HeadersFrameParam{StreamID: sid, BlockFragment: c.hbuf.Bytes(), EndStream: true, EndHeaders: true})
	return buf.Bytes()
}

func (c *v16Conn) floodBytes(kind string, n int) ([]byte, bool) {
	var buf bytes.Buffer
	fr := NewFramer(&buf, nil)
	fr.AllowIllegalWrites = true
	switch kind {
	case "ping":
		for i := 0; i < n; i++ {
			fr.WritePing(false, [8]byte{1, 2, 3, 4, byte(i >> 24), byte(i >> 16), byte(i >> 8), byte(i)})
		}
	case "settings":
		for i := 0; i < n; i++ {
			fr.WriteSettings()
		}
	case "settingsack":
		for i := 0; i < n; i++ {
			fr.WriteSettingsAck()
		}
	case "rst": // rapid reset: open and reset fresh streams
		for i := 0; i < n; i++ {
			sid := uint32(100001 + 2*i)
			buf.Write(c.reqBytes(sid))
			fr.WriteRSTStream(sid, ErrCodeCancel)
		}
	case "hdr": // streams beyond the limit
		for i := 0; i < n; i++ {
			buf.Write(c.reqBytes(uint32(200001 + 2*i)))
		}
	case "cont": // HEADERS without END_HEADERS, then empty CONTINUATION frames
		c.hbuf.Reset()
		c.henc.WriteField(hpack.HeaderField{Name: ":method", Value: "GET"})
		fr.WriteHeaders(HeadersFrameParam{StreamID: 300001, BlockFragment: c.hbuf.Bytes(), EndStream: true, EndHeaders: false})
		for i := 0; i < n; i++ {
			fr.WriteContinuation(300001, false, nil)
		}
	case "wu":
		for i := 0; i < n; i++ {
			fr.WriteWindowUpdate(0, 1)
		}
	case "wu0": // zero increments on closed streams: stream errors -> RST_STREAM control frames
		for i := 0; i < n; i++ {
			fr.WriteWindowUpdate(1, 0)
		}
	case "prio":
		for i := 0; i < n; i++ {
			fr.WritePriority(uint32(2*i+1), PriorityParam{StreamDep: uint32(2*i + 1), Weight: 1})
		}
	case "data0": // DATA on a closed stream: STREAM_CLOSED resets
		for i := 0; i < n; i++ {
			fr.WriteData(1, false, nil)
		}
	case "unknown":
		for i := 0; i < n; i++ {
			fr.WriteRawFrame(FrameType(0x40+i%16), Flags(i), uint32(i%7), []byte{byte(i)})
		}
	default:
		return nil, false
	}
	return buf.Bytes(), true
}

func v16Exec(t *testing.T, ops []string, s *v16State) {
	var c *v16Conn
	s.endIdx = -1
	rec := func(line, res string) {
		s.lines = append(s.lines, line)
		s.results = append(s.results, res)
	}
	for _, op := range ops {
		base := strings.TrimSpace(strings.SplitN(op, "=>", 2)[0])
		f := strings.Fields(base)
		if len(f) == 0 {
			rec(op, "bad-op")
			continue
		}
		if f[0] == "conn" {
			// conn <adv> [<scheduler>]: default | rr | p9218 | p7540 | rand
			adv, err := strconv.Atoi(f[min(1, len(f)-1)])
			sched := "default"
			if len(f) == 3 {
				sched = f[2]
			}
			var newSched func() WriteScheduler
			switch sched {
			case "default":
			case "rr":
				newSched = NewRoundRobinWriteScheduler
			case "p9218":
				newSched = NewPriorityWriteSchedulerRFC9218
			case "p7540":
				newSched = func() WriteScheduler { return NewPriorityWriteSchedulerRFC7540(nil) }
			case "rand":
				newSched = NewRandomWriteScheduler
			default:
				err = fmt.Errorf("unknown scheduler")
			}
			if len(f) < 2 || len(f) > 3 || err != nil || adv < 1 || adv > 1000 || c != nil {
				rec(op, "bad-op")
				continue
			}
			s.o.Stat("sched:" + sched)
			c = &v16Conn{t: t, s: s, pingAck: map[[8]byte]bool{}, resp: map[uint32]bool{}}
			s.adv = adv
			DisableGoroutineTracking(t)
			SetTestHookOnPanic(t, func(sc *ServerConn, v interface{}) bool {
				s.panicked = true
				s.o.Fail("", fmt.Sprintf("serverConn.serve panicked: %v", v))
				return false
			})
			c.st = newServerTester(t, c.serveHTTP, func(sv *Server) {
				sv.MaxConcurrentStreams = uint32(adv)
				sv.NewWriteScheduler = newSched
			}, optQuiet)
			// waits are explicit (observe): no synctest.Wait around every conn read / write
			c.st.cc.(*synctestNetConn).autoWait = false
			c.henc = hpack.NewEncoder(&c.hbuf)
			c.henc.SetMaxDynamicTableSizeLimit(0)
			c.henc.SetMaxDynamicTableSize(0)
			s.o.Stat("op:conn")
			rec(base+" => "+c.observe(), "ok")
			continue
		}
		if c == nil {
			rec(op, "bad-op")
			continue
		}
		valid := true
		switch f[0] {
		case "raw":
			if len(f) != 2 {
				valid = false
				break
			}
			b, ok := vu.ParseHex(f[1])
			if !ok {
				valid = false
				break
			}
			c.write(b)
		case "pre":
			if len(f) != 1 {
				valid = false
				break
			}
			c.write([]byte(ClientPreface))
		case "set":
			if len(f) != 1 {
				valid = false
				break
			}
			c.write([]byte{0, 0, 0, 4, 0, 0, 0, 0, 0})
		case "req":
			sid, err := strconv.ParseUint(f[len(f)-1], 10, 31)
			if len(f) != 2 || err != nil {
				valid = false
				break
			}
			c.write(c.reqBytes(uint32(sid)))
		case "flood":
			if len(f) != 3 {
				valid = false
				break
			}
			n, err := strconv.Atoi(f[2])
			if err != nil || n < 0 || n > 30000 {
				valid = false
				break
			}
			b, ok := c.floodBytes(f[1], n)
			if !ok {
				valid = false
				break
			}
			c.write(b)
			s.o.Stat("flood:" + f[1])
		case "block":
			if len(f) != 1 {
				valid = false
				break
			}
			c.st.cc.(*synctestNetConn).SetReadBufferSize(0)
			c.blocked = true
		case "unblock":
			if len(f) != 1 {
				valid = false
				break
			}
			c.st.cc.(*synctestNetConn).SetReadBufferSize(1 << 30)
			c.blocked = false
		case "sleep":
			ms, err := strconv.Atoi(f[len(f)-1])
			if len(f) != 2 || err != nil || ms < 0 || ms > 60000 {
				valid = false
				break
			}
			time.Sleep(time.Duration(ms) * time.Millisecond)
		case "eof":
			if len(f) != 1 {
				valid = false
				break
			}
			if !c.cliEOF {
				c.st.cc.Close()
				c.cliEOF = true
			}
		case "end":
			if len(f) != 1 {
				valid = false
				break
			}
			if c.blocked {
				c.st.cc.(*synctestNetConn).SetReadBufferSize(1 << 30)
				c.blocked = false
			}
			c.observe()
			// probe: is the connection still being served?
			probe := [8]byte{'v', 'e', 'r', 'i', 'f', 'c', '1', '6'}
			if !c.closed && !c.cliEOF {
				var buf bytes.Buffer
				fr := NewFramer(&buf, nil)
				fr.WritePing(false, probe)
				c.write(buf.Bytes())
				c.observe()
			}
			if c.pingAck[probe] {
				s.o.Stat("probe:ping-answered")
			}
			// bounded time: beyond every timeout the server arms on its own
			time.Sleep(15 * time.Second)
			last := c.observe()
			responsive := strings.HasSuffix(last, "alive")
			switch {
			case c.cliEOF:
				// the client hung up: the server must have stopped serving
				if c.st.sc != nil && !c.st.sc.VerifServeDone() {
					s.outcome = "stuck"
				} else {
					s.outcome = "closed"
				}
			case c.goaway:
				s.outcome = "goaway"
			case c.closed:
				s.outcome = "closed"
			case responsive:
				// still open: the serve loop answers (it may be waiting for the rest of a
				// frame the client never completed, so a PING probe cannot be required)
				s.outcome = "served"
			default:
				s.outcome = "stuck"
			}
			if s.outcome == "stuck" {
				s.o.Fail("", "the connection is neither served (the serve loop does not respond) nor ended 15 s after the last client byte")
			}
			s.endIdx = len(s.lines)
			rec(base, "ok")
			s.o.Stat("op:end")
			continue
		default:
			valid = false
		}
		if !valid {
			rec(op, "bad-op")
			continue
		}
		s.o.Stat("op:" + f[0])
		rec(base+" => "+c.observe(), "ok")
	}
}

// ---------------------------------------------------------------- generator

func v16Frame(typ, flags byte, sid uint32, payload []byte) []byte {
	n := len(payload)
	b := []byte{byte(n >> 16), byte(n >> 8), byte(n), typ, flags, byte(sid >> 24), byte(sid >> 16), byte(sid >> 8), byte(sid)}
	return append(b, payload...)
}

// v16Session builds the bytes of a valid session (without preface): SETTINGS, requests, PINGs…
func v16Session(r *vu.Rng) []byte {
	var hb bytes.Buffer
	enc := hpack.NewEncoder(&hb)
	var out []byte
	out = append(out, v16Frame(4, 0, 0, nil)...) // SETTINGS
	sid := uint32(1)
	for n := r.Range(1, 6); n > 0; n-- {
		switch r.Intn(6) {
		case 0:
			out = append(out, v16Frame(6, 0, 0, r.Bytes(8))...) // PING
		case 1:
			out = append(out, v16Frame(4, 1, 0, nil)...) // SETTINGS ACK
		case 2:
			out = append(out, v16Frame(8, 0, 0, []byte{0, 0, 1, 0})...) // WINDOW_UPDATE
		default:
			hb.Reset()
			for _, kv := range [][2]string{{":method", "POST"}, {":scheme", "https"}, {":authority", "dummy.tld"}, {":path", "/p"}, {"x-a", "b"}} {
				enc.WriteField(hpack.HeaderField{Name: kv[0], Value: kv[1]})
			}
			es := byte(0)
			if r.Bool() {
				es = 1
			}
			out = append(out, v16Frame(1, 4|es, sid, append([]byte(nil), hb.Bytes()...))...)
			if es == 0 {
				out = append(out, v16Frame(0, 1, sid, r.Bytes(r.Intn(20)))...)
			}
			if r.Chance(1, 4) {
				out = append(out, v16Frame(3, 0, sid, []byte{0, 0, 0, 8})...)
			}
			sid += 2
		}
	}
	return out
}

func v16Mutate(r *vu.Rng, b []byte) []byte {
	b = append([]byte(nil), b...)
	for k := r.Range(1, 4); k > 0 && len(b) > 0; k-- {
		switch r.Intn(7) {
		case 0: // bit flip
			i := r.Intn(len(b))
			b[i] ^= 1 << uint(r.Intn(8))
		case 1: // truncate
			b = b[:r.Intn(len(b)+1)]
		case 2: // duplicate a slice
			i := r.Intn(len(b))
			j := i + r.Intn(len(b)-i+1)
			b = append(b[:j:j], append(append([]byte(nil), b[i:j]...), b[j:]...)...)
		case 3: // length field +-1 of the first frame header found at a plausible offset
			i := 2
			if i < len(b) {
				b[i] += byte(r.Range(-2, 2))
			}
		case 4: // random byte
			b[r.Intn(len(b))] = byte(r.Uint64())
		case 5: // delete a slice
			i := r.Intn(len(b))
			j := i + r.Intn(len(b)-i+1)
			b = append(b[:i:i], b[j:]...)
		default: // insert random bytes
			i := r.Intn(len(b) + 1)
			b = append(b[:i:i], append(r.Bytes(r.Range(1, 12)), b[i:]...)...)
		}
	}
	return b
}

func v16Chunks(r *vu.Rng, ops []string, b []byte) []string {
	for len(b) > 0 {
		n := len(b)
		if r.Chance(2, 3) {
			n = r.Range(1, len(b))
		}
		ops = append(ops, "raw "+vu.Hex(b[:n]))
		b = b[n:]
		if r.Chance(1, 10) {
			ops = append(ops, fmt.Sprintf("sleep %d", []int{1, 100, 1500, 2500}[r.Intn(4)]))
		}
	}
	return ops
}


// v16Lit is an HPACK "literal header field without indexing — new name" (no Huffman, lengths < 127):
// self-contained, so blocks built by the generator never depend on dynamic-table state.
func v16Lit(name, value string) []byte {
	b := []byte{0x00, byte(len(name))}
	b = append(b, name...)
	b = append(b, byte(len(value)))
	return append(b, value...)
}

func v16Block(fields [][2]string) []byte {
	var b []byte
	for _, f := range fields {
		b = append(b, v16Lit(f[0], f[1])...)
	}
	return b
}

// v16PadFuzz: structured frame fuzz of the PADDED / PRIORITY layouts of HEADERS, DATA and
// PUSH_PROMISE: every flag combination, with the declared pad length at the boundaries of
// (a) the whole payload, (b) the payload left after the 5 priority bytes, (c) the header block,
// and with the padding bytes present, absent or short.
func v16PadFuzz(r *vu.Rng, ops []string) []string {
	if r.Chance(5, 6) {
		ops = append(ops, "pre", "set")
	} else {
		ops = append(ops, "pre")
	}
	if r.Chance(1, 4) {
		ops = append(ops, "block")
	}
	sid := uint32(1)
	good := v16Block([][2]string{{":method", "GET"}, {":scheme", "https"}, {":path", "/"}, {":authority", "dummy.tld"}})
	for n := r.Range(1, 8); n > 0; n-- {
		typ := byte(1)
		switch k := r.Intn(20); {
		case k < 4:
			typ = 0
		case k < 6:
			typ = 5
		case k < 7:
			typ = 9 // CONTINUATION has no PADDED/PRIORITY flags: they must be ignored
		}
		var flags byte
		padded := r.Chance(5, 6)
		prio := (typ == 1 && r.Chance(1, 2)) || (typ != 1 && r.Chance(1, 8))
		if padded {
			flags |= 0x8
		}
		if prio {
			flags |= 0x20
		}
		if r.Chance(4, 5) {
			flags |= 0x4
		}
		if r.Bool() {
			flags |= 0x1
		}
		var body []byte
		switch {
		case typ == 0:
			body = r.Bytes(r.Intn(6))
		case r.Chance(1, 3):
			body = []byte{0x82, 0x84} // the two-byte block of the classic short frame
		case r.Chance(1, 6):
			body = nil
		default:
			body = good
		}
		var fixed []byte
		if typ == 5 {
			fixed = append(fixed, 0, 0, 0, byte(2*r.Range(1, 4))) // promised stream id
		}
		if prio {
			dep := uint32(r.Intn(8))
			if r.Chance(1, 4) {
				dep = sid
			}
			if r.Chance(1, 4) {
				dep |= 1 << 31 // exclusive
			}
			fixed = append(fixed, byte(dep>>24), byte(dep>>16), byte(dep>>8), byte(dep), byte(r.Intn(256)))
		}
		pre := len(fixed)
		fixed = append(fixed, body...)
		var payload []byte
		if padded {
			cands := []int{0, len(body), len(body) + 1, len(body) - 1, len(fixed), len(fixed) + 1, len(fixed) - 1,
				pre, pre + 1, len(fixed) - pre + 1, 255, r.Intn(12)}
			padLen := cands[r.Intn(len(cands))]
			if padLen < 0 {
				padLen = 0
			}
			if padLen > 255 {
				padLen = 255
			}
			actual := padLen
			switch r.Intn(4) {
			case 0:
				actual = 0 // declared, not present: the pad length eats into the fixed part / block
			case 1:
				actual = r.Intn(padLen + 1)
			}
			payload = append([]byte{byte(padLen)}, fixed...)
			payload = append(payload, make([]byte, actual)...)
		} else {
			payload = fixed
		}
		if r.Chance(1, 10) && len(payload) > 0 {
			payload = payload[:r.Intn(len(payload))] // truncated mandatory fields
		}
		use := sid
		if typ == 0 && sid > 1 && r.Bool() {
			use = sid - 2
		}
		if r.Chance(1, 12) {
			use = 0
		}
		ops = append(ops, "raw "+vu.Hex(v16Frame(typ, flags, use, payload)))
		if typ == 1 {
			sid += 2
		}
		if r.Chance(1, 8) {
			ops = append(ops, "raw "+vu.Hex(v16Frame(6, 0, 0, r.Bytes(8))))
		}
	}
	return ops
}

// v16RejectedThenData: a HEADERS frame without END_STREAM that the server rejects AFTER it has created
// the stream (self-dependent PRIORITY section, bad pseudo-header set) or before (malformed field),
// followed at once by DATA / trailers / WINDOW_UPDATE / RST_STREAM on the same stream — with the
// server's writer free, or stalled behind a client that does not read (the RST_STREAM is then still
// queued when the next frame is processed).
func v16RejectedThenData(r *vu.Rng, ops []string) []string {
	ops = append(ops, "pre", "set")
	if r.Chance(1, 3) {
		ops = append(ops, "req 1")
	}
	stalled := r.Chance(2, 3)
	if stalled {
		ops = append(ops, "block")
		if r.Chance(4, 5) {
			ops = append(ops, "raw "+vu.Hex(v16Frame(6, 0, 0, r.Bytes(8)))) // its ACK's flush stalls the writer
		}
	}
	sid := uint32(3)
	for n := r.Range(1, 4); n > 0; n-- {
		fields := [][2]string{{":method", "POST"}, {":scheme", "https"}, {":path", "/u"}, {":authority", "dummy.tld"}}
		var prio []byte
		switch r.Intn(9) {
		case 0, 1: // PRIORITY section depending on itself
			prio = []byte{byte(sid >> 24), byte(sid >> 16), byte(sid >> 8), byte(sid), 16}
		case 2:
			fields = fields[:2] // no :path
		case 3:
			fields[0][1] = "" // empty :method
		case 4:
			fields = append([][2]string{{":protocol", "websocket"}}, fields...)
		case 5:
			fields[1][1] = "ftp"
		case 6:
			fields = [][2]string{{":method", "CONNECT"}, {":path", "/"}, {":authority", "h:1"}}
		case 7:
			fields = append(fields, [2]string{"Upper", "x"}) // rejected by the framer: no stream object
		default:
			fields = append(fields, [2]string{"connection", "close"}) // answered 400 by the server itself
		}
		flags := byte(0x4) // END_HEADERS, no END_STREAM
		if r.Chance(1, 8) {
			flags |= 1
		}
		payload := v16Block(fields)
		if prio != nil {
			flags |= 0x20
			payload = append(prio, payload...)
		}
		b := v16Frame(1, flags, sid, payload)
		var next []byte
		for k := r.Range(1, 3); k > 0; k-- {
			switch r.Intn(6) {
			case 0, 1, 2:
				es := byte(0)
				if r.Bool() {
					es = 1
				}
				next = append(next, v16Frame(0, es, sid, r.Bytes(r.Intn(10)))...)
			case 3:
				next = append(next, v16Frame(1, 5, sid, v16Block([][2]string{{"x-t", "1"}}))...) // trailers
			case 4:
				next = append(next, v16Frame(8, 0, sid, []byte{0, 0, 0, byte(r.Intn(3))})...)
			default:
				next = append(next, v16Frame(3, 0, sid, []byte{0, 0, 0, 8})...)
			}
		}
		if r.Chance(2, 3) {
			ops = append(ops, "raw "+vu.Hex(append(b, next...)))
		} else {
			ops = append(ops, "raw "+vu.Hex(b), "raw "+vu.Hex(next))
		}
		sid += 2
	}
	if stalled && r.Chance(1, 2) {
		ops = append(ops, "unblock")
	}
	return ops
}


// v16PriorityValue draws an RFC 9218 priority field value from a small grammar: urgencies at and
// beyond both ends of 0..7 (negative, huge, decimal, leading zeros), the incremental flag in its
// forms, parameters, duplicates, inner lists and malformed dictionaries.
func v16PriorityValue(r *vu.Rng) string {
	us := []string{"0", "1", "3", "7", "8", "9", "-1", "-2", "-7", "-8", "-128", "-129", "-249", "-255", "-256", "-257",
		"255", "256", "263", "65536", "2147483648", "4294967295", "4294967296", "-4294967295", "999999999999999", "-999999999999999",
		"9999999999999999", "1.5", "-0.5", "7.0", "-0", "007", "+1", "1e3", "", "a", "?1", "?0", "\"1\"", "(1 2)", ":AQ==:", "@1", " 2"}
	u := "u=" + us[r.Intn(len(us))]
	is := []string{"i", "i=?1", "i=?0", "i=1", "i=", "i=?2", "I", "i;x=1"}
	switch r.Intn(12) {
	case 0:
		return u
	case 1:
		return u + ", " + is[r.Intn(len(is))]
	case 2:
		return is[r.Intn(len(is))] + "," + u
	case 3:
		return u + ";p=" + us[r.Intn(len(us))]
	case 4:
		return u + ", u=" + us[r.Intn(len(us))]
	case 5:
		return []string{"", ",", "u", "u=1,,i", "=1", "u =1", "u= 1", "U=1", "u=1 i", "u=1;", ";", "u=1,", "\x00", "u=\xff", "u=1\t, i"}[r.Intn(15)]
	case 6:
		return strings.Repeat("u=1, ", r.Range(2, 200)) + "i"
	case 7:
		return "u=" + strings.Repeat("9", r.Range(10, 40))
	case 8:
		return "u=-" + strings.Repeat("9", r.Range(10, 40))
	default:
		return u + ", i"
	}
}

// v16Priority: requests carrying `priority` header fields and PRIORITY_UPDATE frames (for idle,
// open and closed streams, stream 0, on a non-zero stream), with a reading or a blocked client so
// that responses are queued in (and popped from) the write scheduler under the signalled urgency.
func v16Priority(r *vu.Rng, ops []string) []string {
	ops = append(ops, "pre", "set")
	blocked := r.Chance(1, 3)
	if blocked {
		ops = append(ops, "block")
	}
	pu := func(on, target uint32, val string) string {
		p := []byte{byte(target >> 24), byte(target >> 16), byte(target >> 8), byte(target)}
		return "raw " + vu.Hex(v16Frame(0x10, 0, on, append(p, val...)))
	}
	sid := uint32(1)
	for n := r.Range(1, 8); n > 0; n-- {
		switch r.Intn(10) {
		case 0, 1, 2: // PRIORITY_UPDATE
			target := sid
			switch r.Intn(4) {
			case 0:
				target = sid + 2*uint32(r.Intn(3)) // idle (buffered until the stream opens)
			case 1:
				if sid > 1 {
					target = sid - 2
				}
			case 2:
				target = uint32(r.Intn(4)) // 0, even, low
			}
			on := uint32(0)
			if r.Chance(1, 10) {
				on = sid
			}
			ops = append(ops, pu(on, target, v16PriorityValue(r)))
		default: // request with priority field(s)
			fields := [][2]string{{":method", []string{"GET", "POST"}[r.Intn(2)]}, {":scheme", "https"}, {":path", "/p"}, {":authority", "dummy.tld"}}
			for k := r.Range(1, 2); k > 0; k-- {
				v := v16PriorityValue(r)
				if len(v) > 120 {
					v = v[:120]
				}
				fields = append(fields, [2]string{"priority", v})
			}
			if r.Chance(1, 6) {
				fields = append(fields, [2]string{"via", "1.1 proxy"})
			}
			es := byte(1)
			if r.Chance(1, 4) {
				es = 0
			}
			b := v16Frame(1, 4|es, sid, v16Block(fields))
			if es == 0 {
				b = append(b, v16Frame(0, 1, sid, r.Bytes(r.Intn(8)))...)
			}
			ops = append(ops, "raw "+vu.Hex(b))
			sid += 2
		}
	}
	if blocked {
		ops = append(ops, "unblock")
	}
	return ops
}

func v16Gen(r *vu.Rng, i int) []string {
	adv := []int{1, 2, 5, 250}[r.Intn(4)]
	sc := r.Intn(32)
	sched := []string{"default", "rr", "p9218", "p7540", "rand"}[r.Intn(5)]
	if sc >= 27 && r.Chance(3, 4) {
		sched = "p9218" // the only scheduler that reads the priority signals
	}
	ops := []string{fmt.Sprintf("conn %d %s", adv, sched)}
	if sched == "default" && r.Bool() {
		ops[0] = fmt.Sprintf("conn %d", adv)
	}
	switch {
	case sc >= 27:
		ops = v16Priority(r, ops)
	case sc >= 20 && sc < 24:
		ops = v16PadFuzz(r, ops)
	case sc >= 24:
		ops = v16RejectedThenData(r, ops)
	case sc < 3: // random bytes, no preface
		ops = v16Chunks(r, ops, r.Bytes(r.Intn(120)))
	case sc < 6: // preface (maybe damaged) + random bytes
		pre := []byte(ClientPreface)
		if r.Chance(1, 3) {
			pre = v16Mutate(r, pre)
		}
		ops = v16Chunks(r, ops, append(pre, r.Bytes(r.Intn(120))...))
	case sc < 8: // preface + random frames with plausible headers
		ops = append(ops, "pre")
		var b []byte
		for n := r.Range(1, 12); n > 0; n-- {
			sid := uint32(r.Intn(8))
			if r.Chance(1, 6) {
				sid = uint32(r.Uint64())
			}
			b = append(b, v16Frame(byte(r.Intn(12)), byte(r.Uint64()), sid, r.Bytes(r.Intn(40)))...)
		}
		ops = v16Chunks(r, ops, b)
	case sc < 13: // mutated valid session
		ops = append(ops, "pre")
		b := v16Session(r)
		if r.Chance(5, 6) {
			b = v16Mutate(r, b)
		}
		ops = v16Chunks(r, ops, b)
	case sc < 14: // silence / slow client
		if r.Bool() {
			ops = append(ops, "pre")
		}
		if r.Bool() {
			ops = append(ops, fmt.Sprintf("sleep %d", r.Range(1, 12000)))
		}
		if r.Chance(1, 3) {
			ops = append(ops, "set")
		}
	default: // floods
		ops = append(ops, "pre", "set")
		if r.Chance(1, 2) {
			ops = append(ops, "req 1")
		}
		blocked := r.Chance(1, 2)
		if blocked {
			ops = append(ops, "block")
		}
		kinds := []string{"ping", "settings", "settingsack", "rst", "hdr", "cont", "wu", "wu0", "prio", "data0", "unknown"}
		for n := r.Range(1, 3); n > 0; n-- {
			k := kinds[r.Intn(len(kinds))]
			cnt := r.Range(1, 300)
			if r.Chance(1, 4) {
				cnt = []int{9990, 10001, 10003, 12000}[r.Intn(4)]
				if k == "rst" || k == "hdr" {
					cnt /= 4
				}
			}
			ops = append(ops, fmt.Sprintf("flood %s %d", k, cnt))
		}
		if blocked && r.Chance(2, 3) {
			ops = append(ops, "unblock")
		}
		if r.Chance(1, 3) {
			ops = append(ops, "req 400001")
		}
	}
	if r.Chance(1, 8) {
		ops = append(ops, "eof")
	}
	ops = append(ops, "end")
	return ops
}
