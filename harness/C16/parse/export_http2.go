//go:build verif

// White-box access to the per-type frame parsers for the C16 `parse` tie.
// Injected as http2/zz_verif_c16.go (package http2). No behaviour change.
package http2

import "bytes"

// VerifParseFrame decodes a 9-byte frame header with readFrameHeader and hands header and
// payload to typeFrameParser exactly as Framer.ReadFrameForHeader does (including the
// connError -> ConnectionError conversion), without the Framer's read loop and order check.
func VerifParseFrame(hdr []byte, payload []byte) (Frame, error) {
	buf := make([]byte, frameHeaderLen)
	fh, err := readFrameHeader(buf, bytes.NewReader(hdr))
	if err != nil {
		return nil, err
	}
	f, err := typeFrameParser(fh.Type)(nil, fh, func(string) {}, payload)
	if err != nil {
		if ce, ok := err.(connError); ok {
			return nil, ConnectionError(ce.Code)
		}
		return nil, err
	}
	return f, nil
}
