//go:build verif

// C16 `parse` tie: the inbound frame decoder of http2/frame.go against the checked Lean model
// (Model/H2FrameParse.lean), result for result.
//
//	pf <hex of 9 header bytes> <payload token>   typeFrameParser(type)(hdr, payload) on the real code
//	rf <maxReadFrameSize> <bytes token>          Framer.ReadFrame in a loop over the bytes: per frame
//	                                             type, length and bytes consumed; then eof|short|toolarge
//
// A panic of the real code is recorded as the result `panic` and as an oracle failure.
package main

import (
	"bytes"
	"errors"
	"fmt"
	"io"
	"strconv"
	"strings"

	"golang.org/x/net/http2"
	vu "golang.org/x/net/internal/verifutil"
)

func exec(ops []string, o *vu.Out) {
	for _, op := range ops {
		f := strings.Fields(op)
		switch {
		case len(f) == 3 && f[0] == "pf":
			hdr, ok1 := vu.ParseHex(f[1])
			payload, ok2 := parsePayloadTok(f[2])
			if !ok1 || !ok2 || len(hdr) != 9 {
				o.Op(op, "bad-op")
				continue
			}
			res, panicked, msg := vu.CatchMsg(func() string {
				fr, err := http2.VerifParseFrame(hdr, payload)
				if err != nil {
					return showReadErr(err)
				}
				return "ok " + showFrame(fr)
			})
			if panicked {
				o.Fail("", fmt.Sprintf("frame parser panicked on header %x payload %x: %s", hdr, payload, msg))
			}
			o.Stat(fmt.Sprintf("pf:type%d", min(int(hdr[3]), 17)))
			o.Stat("pf:" + strings.Join(strings.Fields(res)[:min(2, len(strings.Fields(res)))], "-"))
			o.Op(op, res)
		case len(f) == 3 && f[0] == "rf":
			max, err := strconv.Atoi(f[1])
			b, ok := parsePayloadTok(f[2])
			if err != nil || !ok || max < 0 || max > 1<<24 {
				o.Op(op, "bad-op")
				continue
			}
			res, panicked, msg := vu.CatchMsg(func() string {
				rd := bytes.NewReader(b)
				var out []string
			loop:
				for k := 0; k <= len(b); k++ {
					// a fresh Framer per frame: the HEADERS/CONTINUATION order state is not part of
					// byte consumption (an order error is reported by ReadFrameHeader after the
					// size check and before the payload is read; it is ignored here)
					fr := http2.NewFramer(io.Discard, rd)
					fr.SetMaxReadFrameSize(uint32(max))
					before := rd.Len()
					fh, err := fr.ReadFrameHeader()
					var ce http2.ConnectionError
					if err != nil && !errors.As(err, &ce) {
						switch {
						case errors.Is(err, http2.ErrFrameTooLarge):
							out = append(out, "toolarge")
						case errors.Is(err, io.EOF) && before == 0:
							out = append(out, "eof")
						default:
							out = append(out, "short")
						}
						break loop
					}
					fr.ReadFrameForHeader(fh)
					if before-rd.Len() != 9+int(fh.Length) {
						// io.ReadFull of the payload came up short (a parser's own
						// io.ErrUnexpectedEOF leaves the payload fully consumed)
						out = append(out, "short")
						break loop
					}
					out = append(out, fmt.Sprintf("f:%d:%d:%d", fh.Type, fh.Length, before-rd.Len()))
				}
				return "ok " + strings.Join(out, " ")
			})
			if panicked {
				o.Fail("", fmt.Sprintf("Framer.ReadFrame panicked on %x: %s", b, msg))
			}
			o.Stat("op:rf")
			o.Op(op, res)
		default:
			o.Op(op, "bad-op")
		}
	}
}

// ---------------------------------------------------------------- generator

func hdrHex(length int, typ, flags byte, sid uint32) string {
	return vu.Hex([]byte{byte(length >> 16), byte(length >> 8), byte(length), typ, flags, byte(sid >> 24), byte(sid >> 16), byte(sid >> 8), byte(sid)})
}

// minimum / exact payload sizes the parsers test for
var typeMin = map[byte]int{0: 0, 1: 0, 2: 5, 3: 4, 4: 0, 5: 4, 6: 8, 7: 8, 8: 4, 9: 0, 16: 4}

func genPF(r *vu.Rng) string {
	typ := []byte{0, 1, 2, 3, 4, 5, 6, 7, 8, 9, 16}[r.Intn(11)]
	if r.Chance(1, 12) {
		typ = byte(r.Uint64())
	}
	flagSets := []byte{0, 0x1, 0x4, 0x8, 0x20, 0x28, 0x2c, 0x2d, 0x9, 0xd, 0x21, 0xff}
	flags := flagSets[r.Intn(len(flagSets))]
	if r.Chance(1, 4) {
		flags = byte(r.Uint64())
	}
	sid := uint32(0)
	switch r.Intn(4) {
	case 0:
	case 1:
		sid = uint32(r.Range(1, 9))
	case 2:
		sid = uint32(r.Uint64()) // reserved bit may be set
	default:
		sid = 1
	}
	// payload length: around the type's minimum, around 6k for SETTINGS, around pad boundaries
	n := typeMin[typ] + r.Range(-1, 2)
	switch r.Intn(5) {
	case 0:
		n = r.Intn(4)
	case 1:
		n = 6*r.Intn(4) + r.Range(-1, 1)
	case 2:
		n = r.Intn(40)
	}
	if n < 0 {
		n = 0
	}
	payload := r.Bytes(n)
	// pad length byte (first byte) at the boundaries of what follows it
	if n > 0 && r.Chance(2, 3) {
		rest := n - 1
		c := []int{0, rest, rest + 1, rest - 1, rest - 4, rest - 5, rest - 6, rest - 3, 255, r.Intn(rest + 2)}
		v := c[r.Intn(len(c))]
		if v < 0 {
			v = 0
		}
		if v > 255 {
			v = 255
		}
		payload[0] = byte(v)
	}
	if typ == 8 && n == 4 && r.Chance(1, 2) { // zero / reserved-bit-only increment
		payload = []byte{byte(0x80 * r.Intn(2)), 0, 0, 0}
	}
	if typ == 4 && n >= 6 && r.Chance(1, 2) { // INITIAL_WINDOW_SIZE around 2^31
		payload[0], payload[1] = 0, 4
		payload[2] = []byte{0x7f, 0x80, 0xff, 0}[r.Intn(4)]
	}
	if typ == 16 && n >= 4 && r.Chance(1, 2) {
		payload[0], payload[1], payload[2], payload[3] = byte(0x80*r.Intn(2)), 0, 0, byte(r.Intn(2))
	}
	// the header's length field normally equals the payload length (ReadFrame guarantees it);
	// SETTINGS tests fh.Length itself, so also disagree sometimes
	length := n
	if r.Chance(1, 20) {
		length = r.Intn(20)
	}
	return fmt.Sprintf("pf %s %s", hdrHex(length, typ, flags, sid), vu.Hex(payload))
}

func genRF(r *vu.Rng) string {
	var b []byte
	for k := r.Range(0, 5); k > 0; k-- {
		n := r.Intn(30)
		typ := byte(r.Intn(11))
		if r.Chance(1, 5) {
			typ = byte(r.Uint64())
		}
		declared := n
		if r.Chance(1, 8) {
			declared = n + r.Range(-2, 40)
			if declared < 0 {
				declared = 0
			}
		}
		h, _ := vu.ParseHex(hdrHex(declared, typ, byte(r.Uint64()), uint32(r.Intn(4))))
		b = append(b, h...)
		b = append(b, r.Bytes(n)...)
	}
	if r.Chance(1, 3) {
		b = append(b, r.Bytes(r.Intn(12))...)
	}
	if r.Chance(1, 6) {
		b = r.Bytes(r.Intn(60))
	}
	max := []int{16384, 0, 5, 20, 1 << 20, 1 << 24}[r.Intn(6)]
	return fmt.Sprintf("rf %d %s", max, vu.Hex(b))
}

func gen(r *vu.Rng, i int) []string {
	var ops []string
	for k := r.Range(4, 16); k > 0; k-- {
		if r.Chance(4, 5) {
			ops = append(ops, genPF(r))
		} else {
			ops = append(ops, genRF(r))
		}
	}
	return ops
}

func main() { vu.Main(gen, exec) }
