//go:build verif

// C31 harness: Retry-token binding (quic/retry.go) and stateless-reset tokens
// (quic/stateless_reset.go). Injected into package quic as a _test.go file.
//
// D-tie: additionalData bytes; validateToken's decision logic with a toy AEAD (the same toy
// the Lean model has) plugged into the real retryState. Oracle: real XChaCha20-Poly1305
// tokens from the real makeToken under single-field mutations and a fixed clock.
package quic

import (
	"bytes"
	"crypto/hmac"
	"crypto/sha256"
	"encoding/binary"
	"errors"
	"fmt"
	"net/netip"
	"strings"
	"sync"
	"testing"
	"time"

	vu "golang.org/x/net/internal/verifutil"
)

func TestVerifC31(t *testing.T) {
	vu.Run(vu.ConfigFromEnv(), c31Gen, c31Exec)
}

// ---- toy AEAD (must match NetVerif.Model.QuicRetryToken.toy)

type c31Toy struct{}

func c31Wsum(b []byte, k uint64) (s uint64) {
	for _, x := range b {
		s += uint64(x) * k
		k++
	}
	return s
}

func c31Tag(nonce, p, ad []byte) []byte {
	s := c31Wsum(ad, 1) + c31Wsum(p, 7) + c31Wsum(nonce, 3)
	tag := make([]byte, 16)
	for j := range tag {
		tag[j] = byte((s>>uint(j) + uint64(j)) % 256)
	}
	return tag
}

func (c31Toy) NonceSize() int { return 24 }
func (c31Toy) Overhead() int  { return 16 }
func (c31Toy) Seal(dst, nonce, p, ad []byte) []byte {
	tag := c31Tag(nonce, p, ad)
	out := make([]byte, len(p))
	for i, x := range p {
		out[i] = x ^ nonce[23]
	}
	return append(append(dst, out...), tag...)
}
func (c31Toy) Open(dst, nonce, ct, ad []byte) ([]byte, error) {
	if len(ct) < 16 {
		return nil, errors.New("short")
	}
	p := make([]byte, len(ct)-16)
	for i := range p {
		p[i] = ct[i] ^ nonce[23]
	}
	if !bytes.Equal(ct[len(ct)-16:], c31Tag(nonce, p, ad)) {
		return nil, errors.New("bad tag")
	}
	return append(dst, p...), nil
}

// ---- generator

func c31Addr(r *vu.Rng) []byte {
	if r.Bool() {
		return r.Bytes(4)
	}
	return r.Bytes(16)
}

func c31Cid(r *vu.Rng) []byte {
	n := r.Intn(21)
	if r.Chance(1, 40) {
		n = r.Range(250, 258)
	}
	return r.Bytes(n)
}

func c31Gen(r *vu.Rng, i int) []string {
	if r.Chance(1, 300) {
		// concurrent use of one generator: goroutines x iterations over a set of connection IDs
		return []string{fmt.Sprintf("resetconc %s %d %d %d", vu.Hex(r.Bytes(32)), r.Range(1, 8), r.Range(2, 8), r.Range(500, 3000))}
	}
	if r.Chance(1, 12) {
		// a PAIR of different contexts whose naive concatenation cid|ip|port coincides: 12 bytes move
		// between the end of the connection ID and the start of the address (IPv6 <-> IPv4)
		var cid, addr []byte
		if r.Bool() {
			addr = r.Bytes(16)
			cid = r.Bytes(r.Intn(9))
			if r.Chance(1, 4) {
				cid = r.Bytes(r.Intn(21))
			}
		} else {
			addr = r.Bytes(4)
			cid = r.Bytes(r.Range(12, 20))
		}
		return []string{fmt.Sprintf("realpair %d %s %s %d %s", r.Intn(1<<32), vu.Hex(cid), vu.Hex(addr), r.Intn(65536), vu.Hex(r.Bytes(r.Intn(21))))}
	}
	switch r.Intn(10) {
	case 0, 1:
		return []string{fmt.Sprintf("ad %s %s %d", vu.Hex(c31Cid(r)), vu.Hex(c31Addr(r)), r.Intn(65536))}
	case 2, 3, 4, 5:
		return []string{c31GenValidate(r)}
	case 6, 7, 8:
		// real AEAD: issue at t0, present at t0+delta with one field mutated (0 = none)
		t0 := int64(r.Intn(1 << 32))
		if r.Chance(1, 4) {
			t0 = int64(r.Boundary(40))
		}
		dns := int64(r.Range(-7000, 7000)) * 1000000
		switch r.Intn(8) {
		case 0:
			dns = []int64{5000000000, 5000000001, 4999999999, -5000000000, -5000000001, 5999999999, 6000000000}[r.Intn(7)]
		case 1:
			dns = int64(r.Boundary(60)) * int64(1-2*r.Intn(2))
		case 2:
			// beyond 2^61 ns the offset is applied twice: presented ~292 years before (or after) the issue time
			dns = (int64(1<<62) + int64(r.Intn(1<<40))) * int64(1-2*r.Intn(2))
			if r.Chance(2, 3) {
				dns = -(int64(1<<62) + int64(r.Intn(1<<40)))
			}
		}
		mut := 0
		if r.Chance(2, 3) {
			mut = 1 + r.Intn(7)
		}
		t0ns := r.Intn(1000000000)
		if r.Chance(1, 3) {
			t0ns = 0 // so that the +-5 s boundaries are hit exactly
		}
		return []string{fmt.Sprintf("real %d %d %d %d %s %s %s %d %d", t0, t0ns, dns, mut,
			vu.Hex(r.Bytes(r.Intn(21))), vu.Hex(r.Bytes(r.Intn(21))), vu.Hex(c31Addr(r)), r.Intn(65536), r.Uint64()%1000)}
	default:
		key := r.Bytes(32)
		if r.Chance(1, 10) {
			key = make([]byte, 32)
		}
		return []string{fmt.Sprintf("reset %s %s", vu.Hex(key), vu.Hex(r.Bytes(r.Intn(21))))}
	}
}

// c31GenValidate builds a token with the toy AEAD (as makeToken would for a given nonce) and
// presents it, usually with one thing changed.
func c31GenValidate(r *vu.Rng) string {
	nonce := r.Bytes(24)
	src, odcid, addr, port := c31Cid(r), r.Bytes(r.Intn(21)), c31Addr(r), r.Intn(65536)
	if len(src) > 255 && r.Chance(2, 3) {
		src = src[:20]
	}
	when := uint64(r.Intn(1 << 32))
	switch r.Intn(10) {
	case 0:
		when = r.Boundary(62)
	case 1:
		when = 1<<63 + uint64(r.Intn(1000)) // negative seconds
	}
	var pt []byte
	pt = binary.BigEndian.AppendUint64(pt, when)
	pt = append(pt, odcid...)
	if r.Chance(1, 15) {
		pt = pt[:r.Intn(9)]
	}
	ad := []byte{byte(len(src))}
	ad = append(append(ad, src...), addr...)
	ad = binary.BigEndian.AppendUint16(ad, uint16(port))
	token := append([]byte{}, nonce[20:]...)
	token = c31Toy{}.Seal(token, nonce, pt, ad)
	dst := append([]byte{}, nonce[:20]...)
	// presentation time
	nowSec := int64(when)
	nowNs := int64(r.Intn(1000000000))
	switch r.Intn(8) {
	case 0:
		nowSec += int64(r.Range(-7, 7))
	case 1:
		nowSec += []int64{5, -5, 6, -6, 4}[r.Intn(5)]
		nowNs = []int64{0, 1, 999999999}[r.Intn(3)]
	case 2:
		nowSec = int64(r.Boundary(40))
	case 3:
		// far in the past of the token: now.Sub(when) saturates at the minimum duration
		nowSec -= int64(9223372037) + int64(r.Intn(1000))
	case 4:
		nowSec += int64(9223372037) + int64(r.Intn(1000))
	}
	if nowSec > 1<<61 {
		nowSec = 1 << 61
	}
	if nowSec < -(1 << 61) {
		nowSec = -(1 << 61)
	}
	// mutation
	switch r.Intn(12) {
	case 0:
		if len(src) > 0 {
			src = append([]byte{}, src...)
			src[r.Intn(len(src))] ^= 1
		}
	case 1:
		src = append(append([]byte{}, src...), 0)
	case 2:
		addr = append([]byte{}, addr...)
		addr[r.Intn(len(addr))] ^= 0x10
	case 3:
		port ^= 1 << uint(r.Intn(16))
	case 4:
		dst[r.Intn(20)] ^= 4
	case 5:
		dst = dst[:r.Intn(20)]
	case 6:
		token[r.Intn(len(token))] ^= 1 << uint(r.Intn(8))
	case 7:
		token = token[:r.Intn(len(token)+1)]
	case 8:
		// move a byte between srcConnID and the address: same concatenation, different framing
		if len(src) > 0 && len(addr) == 4 {
			addr = append([]byte{src[len(src)-1]}, addr...)[:4]
		}
	}
	return fmt.Sprintf("validate %d %d %s %s %s %s %d", nowSec, nowNs, vu.Hex(token), vu.Hex(src), vu.Hex(dst), vu.Hex(addr), port)
}

// ---- executor

func c31AddrPort(a []byte, port int) (netip.AddrPort, bool) {
	if port < 0 || port > 65535 {
		return netip.AddrPort{}, false
	}
	switch len(a) {
	case 4:
		return netip.AddrPortFrom(netip.AddrFrom4([4]byte(a)), uint16(port)), true
	case 16:
		return netip.AddrPortFrom(netip.AddrFrom16([16]byte(a)), uint16(port)), true
	}
	return netip.AddrPort{}, false
}

func c31Exec(ops []string, o *vu.Out) {
	for _, op := range ops {
		res := "bad-op"
		func() {
			defer func() {
				if e := recover(); e != nil {
					if s, ok := e.(string); ok && strings.HasPrefix(s, "verifutil:") {
						res = "bad-op"
						return
					}
					res = "panic"
				}
			}()
			res = c31Exec1(op, strings.Fields(op), o)
		}()
		o.Op(op, res)
	}
}

func c31Exec1(op string, t []string, o *vu.Out) string {
	if len(t) == 0 {
		return "bad-op"
	}
	switch {
	case t[0] == "ad" && len(t) == 4:
		ap, ok := c31AddrPort(vu.MustHex(t[2]), vu.Atoi(t[3]))
		if !ok {
			return "bad-op"
		}
		o.Stat("op:ad")
		rs := &retryState{aead: c31Toy{}}
		return "ok " + vu.Hex(rs.additionalData(vu.MustHex(t[1]), ap))
	case t[0] == "validate" && len(t) == 8:
		sec, ns := vu.Atoi64(t[1]), vu.Atoi64(t[2])
		ap, ok := c31AddrPort(vu.MustHex(t[6]), vu.Atoi(t[7]))
		if !ok || ns < 0 || ns > 999999999 || sec > 1<<61 || sec < -(1<<61) {
			return "bad-op"
		}
		rs := &retryState{aead: c31Toy{}}
		odcid, okv := rs.validateToken(time.Unix(sec, ns), vu.MustHex(t[3]), vu.MustHex(t[4]), vu.MustHex(t[5]), ap)
		if !okv {
			o.Stat("validate:reject")
			return "reject"
		}
		o.Stat("validate:accept")
		return "ok " + vu.Hex(odcid)
	case t[0] == "real" && len(t) == 10:
		return c31Real(op, t, o)
	case t[0] == "realpair" && len(t) == 6:
		return c31RealPair(op, t, o)
	case t[0] == "resetconc" && len(t) == 5:
		key := vu.MustHex(t[1])
		ncid, ng, iters := vu.Atoi(t[2]), vu.Atoi(t[3]), vu.Atoi(t[4])
		if len(key) != 32 || ncid < 1 || ncid > 64 || ng < 1 || ng > 64 || iters < 1 || iters > 100000 {
			return "bad-op"
		}
		o.Stat("op:resetconc")
		c31ResetConcurrent(op, key, ncid, ng, iters, o)
		return "ok"
	case t[0] == "reset" && len(t) == 3:
		key, cid := vu.MustHex(t[1]), vu.MustHex(t[2])
		if len(key) != 32 {
			return "bad-op"
		}
		o.Stat("op:reset")
		var g, g2 statelessResetTokenGenerator
		g.init([32]byte(key))
		zero := [32]byte(key) == [32]byte{}
		if g.canReset == zero {
			o.Fail("", fmt.Sprintf("%s: canReset=%v for zero-key=%v", op, g.canReset, zero))
		}
		a, b := g.tokenForConnID(cid), g.tokenForConnID(cid)
		if a != b {
			o.Fail("", op+": tokenForConnID is not deterministic")
		}
		if zero {
			return "ok"
		}
		g2.init([32]byte(key))
		if g2.tokenForConnID(cid) != a {
			o.Fail("", op+": a second generator with the same key gives a different token")
		}
		m := hmac.New(sha256.New, key)
		m.Write(cid)
		if !bytes.Equal(m.Sum(nil)[:16], a[:]) {
			o.Fail("", op+": token is not HMAC-SHA256(key, cid)[:16]")
		}
		// different connection ID / key => different token (a collision would be an HMAC collision)
		cid2 := append(append([]byte{}, cid...), 1)
		if g.tokenForConnID(cid2) == a {
			o.Fail("", op+": same token for a different connection ID")
		}
		key2 := append([]byte{}, key...)
		key2[7] ^= 0x20
		var g3 statelessResetTokenGenerator
		g3.init([32]byte(key2))
		if g3.tokenForConnID(cid) == a {
			o.Fail("", op+": same token under a different key")
		}
		return "ok"
	}
	return "bad-op"
}

// c31ResetConcurrent: tokens are a deterministic function of (key, connection ID) also when
// several goroutines (connection loops, the endpoint) use one generator at the same time: every
// result must equal the independent HMAC-SHA256 reference. The verdict on a correct generator
// does not depend on scheduling (all results are compared with precomputed references).
func c31ResetConcurrent(op string, key []byte, ncid, ng, iters int, o *vu.Out) {
	var g statelessResetTokenGenerator
	g.init([32]byte(key))
	cids := make([][]byte, ncid)
	want := make([]statelessResetToken, ncid)
	for i := range cids {
		cids[i] = []byte{byte(i), 0xaa, 0xbb, 0xcc, byte(len(cids)), 0xee, 0xff, byte(i * 7)}[:1+i%8]
		m := hmac.New(sha256.New, key)
		m.Write(cids[i])
		copy(want[i][:], m.Sum(nil))
	}
	type bad struct {
		cid      []byte
		got      statelessResetToken
		panicked bool
	}
	results := make([]*bad, ng)
	var wg sync.WaitGroup
	for w := 0; w < ng; w++ {
		wg.Add(1)
		go func(w int) {
			defer wg.Done()
			defer func() {
				if recover() != nil && results[w] == nil {
					results[w] = &bad{panicked: true}
				}
			}()
			for k := 0; k < iters; k++ {
				i := (w + k) % ncid
				if got := g.tokenForConnID(cids[i]); got != want[i] && results[w] == nil {
					results[w] = &bad{cid: cids[i], got: got}
				}
			}
		}(w)
	}
	wg.Wait()
	for w, b := range results { // goroutine order: deterministic report
		if b == nil {
			continue
		}
		if b.panicked {
			o.Fail("", fmt.Sprintf("%s: tokenForConnID panics under concurrent use (goroutine %d)", op, w))
		} else {
			o.Fail("", fmt.Sprintf("%s: concurrent tokenForConnID(%x) = %x, not HMAC-SHA256(key, cid)[:16]", op, b.cid, b.got[:]))
		}
		return
	}
}

// c31RealPair: two DIFFERENT contexts (cid, ip, port) whose concatenated bytes coincide: the
// token is issued (real makeToken, real AEAD) for one and presented with the other at the same
// time with the same destination connection ID. It must be rejected, and the additional data of
// the two contexts must differ (injectivity of additionalData stated on the implementation).
func c31RealPair(op string, t []string, o *vu.Out) string {
	t0 := vu.Atoi64(t[1])
	cid, addr, odcid := vu.MustHex(t[2]), vu.MustHex(t[3]), vu.MustHex(t[5])
	port := vu.Atoi(t[4])
	var cid2, addr2 []byte
	switch {
	case len(addr) == 16 && len(cid) <= 243:
		cid2 = append(append([]byte{}, cid...), addr[:12]...)
		addr2 = addr[12:]
	case len(addr) == 4 && len(cid) >= 12 && len(cid) <= 255:
		cid2 = cid[:len(cid)-12]
		addr2 = append(append([]byte{}, cid[len(cid)-12:]...), addr...)
	default:
		return "bad-op"
	}
	ap, ok := c31AddrPort(addr, port)
	ap2, ok2 := c31AddrPort(addr2, port)
	if !ok || !ok2 || t0 < 0 || t0 > 1<<41 {
		return "bad-op"
	}
	o.Stat(fmt.Sprintf("realpair:v%d", len(addr)))
	var rs retryState
	if err := rs.init(); err != nil {
		return "bad-op"
	}
	if bytes.Equal(rs.additionalData(cid, ap), rs.additionalData(cid2, ap2)) {
		o.Fail("", fmt.Sprintf("%s: additionalData(%x, %v) == additionalData(%x, %v): different contexts, same additional data", op, cid, ap, cid2, ap2))
	}
	now := time.Unix(t0, 0)
	for dir := 0; dir < 2; dir++ {
		c1, a1, c2, a2 := cid, ap, cid2, ap2
		if dir == 1 {
			c1, a1, c2, a2 = cid2, ap2, cid, ap
		}
		token, dst, err := rs.makeToken(now, c1, odcid, a1)
		if err != nil {
			o.Fail("", op+": makeToken failed")
			return "ok"
		}
		if _, okv := rs.validateToken(now, token, c1, dst, a1); !okv {
			o.Fail("", fmt.Sprintf("%s: token rejected in its own context", op))
		}
		if _, okv := rs.validateToken(now, token, c2, dst, a2); okv {
			o.Fail("", fmt.Sprintf("%s: token issued for source connection ID %x at %v is accepted for connection ID %x at %v", op, c1, a1, c2, a2))
			return "ok"
		}
	}
	return "ok"
}

// c31Real: real AEAD, real makeToken; fixed clock; single-field mutation `mut`:
// 0 none, 1 address, 2 port, 3 srcConnID, 4 dstConnID, 5 token bit, 6 token truncated, 7 address family.
func c31Real(op string, t []string, o *vu.Out) string {
	t0, t0ns, dns, mut := vu.Atoi64(t[1]), vu.Atoi64(t[2]), vu.Atoi64(t[3]), vu.Atoi(t[4])
	src, odcid := vu.MustHex(t[5]), vu.MustHex(t[6])
	ap, ok := c31AddrPort(vu.MustHex(t[7]), vu.Atoi(t[8]))
	salt := vu.Atou64(t[9])
	if !ok || t0 < 0 || t0 > 1<<41 || t0ns < 0 || t0ns > 999999999 || mut < 0 || mut > 7 || len(src) > 255 {
		return "bad-op"
	}
	var rs retryState
	if err := rs.init(); err != nil {
		return "bad-op"
	}
	issue := time.Unix(t0, t0ns)
	token, dst, err := rs.makeToken(issue, src, odcid, ap)
	if err != nil || len(dst) != 20 {
		o.Fail("", op+": makeToken failed")
		return "ok"
	}
	src2, dst2, ap2, token2 := append([]byte{}, src...), append([]byte{}, dst...), ap, append([]byte{}, token...)
	switch mut {
	case 1:
		a := ap.Addr().AsSlice()
		a[int(salt)%len(a)] ^= 1 << (salt % 8)
		ap2, _ = c31AddrPort(a, int(ap.Port()))
	case 2:
		ap2 = netip.AddrPortFrom(ap.Addr(), ap.Port()^uint16(1<<(salt%16)))
	case 3:
		if len(src2) == 0 || salt%3 == 0 {
			src2 = append(src2, byte(salt))
		} else {
			src2[int(salt)%len(src2)] ^= 1 << (salt % 8)
		}
	case 4:
		dst2[int(salt)%20] ^= 1 << (salt % 8)
	case 5:
		token2[int(salt)%len(token2)] ^= 1 << (salt % 8)
	case 6:
		token2 = token2[:int(salt)%len(token2)]
	case 7:
		if ap.Addr().Is4() {
			ap2 = netip.AddrPortFrom(netip.AddrFrom16(ap.Addr().As16()), ap.Port()) // ::ffff:a.b.c.d
		} else {
			mut = 0
		}
	}
	o.Stat(fmt.Sprintf("real:mut%d", mut))
	present := issue.Add(time.Duration(dns))
	if dns <= -(1<<61) || dns >= 1<<61 {
		present = present.Add(time.Duration(dns))
	}
	got, okv := rs.validateToken(present, token2, src2, dst2, ap2)
	// |now - when| where `when` is the issue time truncated to whole seconds
	d := present.Sub(time.Unix(t0, 0))
	within := d <= retryTokenValidityPeriod && d >= -retryTokenValidityPeriod
	switch {
	case okv && mut != 0:
		o.Fail("", fmt.Sprintf("%s: token accepted although field %d was modified", op, mut))
	case okv && !within:
		o.Fail("", fmt.Sprintf("%s: token issued at %v accepted at %v, %v away from its issue time", op, issue.UTC(), present.UTC(), d))
	case okv && !bytes.Equal(got, odcid):
		o.Fail("", fmt.Sprintf("%s: accepted token returns original DCID %x", op, got))
	case !okv && mut == 0 && within:
		o.Fail("", fmt.Sprintf("%s: unmodified token rejected %v after issue", op, d))
	}
	if okv {
		o.Stat("real:accept")
	} else {
		o.Stat("real:reject")
	}
	return "ok"
}
