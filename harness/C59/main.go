//go:build verif

// C59 harness: WebSocket hybi framing and Codec.Receive.
package main

import (
	"bytes"
	"fmt"
	"io"
	"strings"

	vu "golang.org/x/net/internal/verifutil"
	"golang.org/x/net/websocket"
)

var lenPool = []int{0, 1, 2, 124, 125, 126, 127, 128, 255, 256, 65534, 65535, 65536, 65537, 70000}

func genLen(r *vu.Rng, big bool) int {
	switch r.Intn(6) {
	case 0, 1:
		return r.Intn(20)
	case 2:
		return r.Range(120, 130)
	case 3:
		if big {
			return lenPool[r.Intn(len(lenPool))]
		}
		return lenPool[r.Intn(9)]
	case 4:
		if big && r.Chance(1, 4) {
			return r.Range(65530, 65540)
		}
		return r.Intn(300)
	default:
		return r.Intn(600)
	}
}

// key4 draws a 4-byte masking key; the all-zero key and keys with zero bytes are legal and must be
// treated as "masked" (a key whose bytes are all zero must not be confused with "no key").
func key4(r *vu.Rng) []byte {
	switch r.Intn(10) {
	case 0:
		return []byte{0, 0, 0, 0}
	case 1:
		k := r.Bytes(4)
		k[r.Intn(4)] = 0
		return k
	}
	return r.Bytes(4)
}

func genKey(r *vu.Rng) string {
	switch r.Intn(12) {
	case 0:
		return "none"
	case 1:
		return vu.Hex(r.Bytes(r.Intn(7))) // wrong-length keys (and "-" = empty, non-nil)
	default:
		return vu.Hex(key4(r))
	}
}

// a frame on the wire, built independently of the package under test
func rawFrame(fin bool, rsv, op int, masked bool, key []byte, payload []byte, declLen int64, forceForm int) []byte {
	var b []byte
	b0 := byte(rsv<<4 | op)
	if fin {
		b0 |= 0x80
	}
	b = append(b, b0)
	mb := byte(0)
	if masked {
		mb = 0x80
	}
	form := forceForm
	if form == 0 {
		switch {
		case declLen <= 125:
			form = 7
		case declLen < 65536:
			form = 16
		default:
			form = 64
		}
	}
	switch form {
	case 7:
		b = append(b, mb|byte(declLen))
	case 16:
		b = append(b, mb|126, byte(declLen>>8), byte(declLen))
	default:
		b = append(b, mb|127)
		for i := 7; i >= 0; i-- {
			b = append(b, byte(uint64(declLen)>>(8*uint(i))))
		}
	}
	if masked {
		b = append(b, key...)
		for i, c := range payload {
			b = append(b, c^key[i%4])
		}
	} else {
		b = append(b, payload...)
	}
	return b
}

func gen(r *vu.Rng, i int) []string {
	switch r.Intn(10) {
	case 0, 1, 2:
		fin := r.Intn(2)
		rsv := 0
		if r.Chance(1, 4) {
			rsv = r.Intn(8)
		}
		op := []int{0, 1, 2, 8, 9, 10, 3, 15}[r.Intn(8)]
		return []string{fmt.Sprintf("wframe %d %d %d %s %s", fin, rsv, op, genKey(r), vu.Hex(r.Bytes(genLen(r, i%50 == 0))))}
	case 3, 4:
		// rframe: valid frame (maybe truncated / overlong length form / with tail) or random bytes
		if r.Chance(1, 6) {
			return []string{"rframe " + vu.Hex(r.Bytes(r.Intn(16)))}
		}
		n := genLen(r, i%50 == 0)
		payload := r.Bytes(n)
		decl := int64(n)
		form := 0
		if r.Chance(1, 5) {
			form = []int{16, 64}[r.Intn(2)] // non-minimal length forms
			if form == 16 && n > 65535 {
				form = 64
			}
		}
		if r.Chance(1, 8) {
			decl = int64(n) + int64(r.Intn(5)) // declared longer than present
		}
		if r.Chance(1, 30) {
			decl = int64(r.Uint64() >> 1) // huge declared length
			form = 64
		}
		if r.Chance(1, 30) {
			form = 64
		}
		f := rawFrame(r.Bool(), r.Intn(8), r.Intn(16), r.Bool(), key4(r), payload, decl, form)
		if form == 64 && r.Chance(1, 4) {
			f[2] |= 0x80 // MSB of the 64-bit length must be ignored
		}
		if r.Chance(1, 6) {
			f = f[:r.Intn(len(f)+1)]
		} else if r.Bool() {
			f = append(f, r.Bytes(r.Intn(5))...)
		}
		return []string{"rframe " + vu.Hex(f)}
	case 5:
		role := []string{"server", "client"}[r.Intn(2)]
		return []string{fmt.Sprintf("send %s %d %s", role, 1+r.Intn(2), vu.Hex(r.Bytes(genLen(r, i%50 == 0))))}
	default:
		return []string{genSession(r, i)}
	}
}

// genSession builds an inbound byte stream the way a peer would produce it: messages written by
// the package's own writer role (client masks, server does not), pings/pongs interleaved,
// sometimes oversized messages, sometimes protocol violations.
func genSession(r *vu.Rng, i int) string {
	server := r.Bool() // role of the RECEIVING conn
	max := 0
	if r.Chance(2, 3) {
		max = []int{1, 10, 125, 126, 200, 1000, 65535, 65536}[r.Intn(8)]
	}
	var stream []byte
	nframes := r.Range(1, 8)
	for k := 0; k < nframes; k++ {
		masked := server // a conforming peer of a server is a client, which masks
		if r.Chance(1, 25) {
			masked = !masked // violation
		}
		op := []int{1, 2, 1, 2, 9, 10, 0, 8, 5}[r.Intn(9)]
		if r.Chance(2, 3) {
			op = []int{1, 2}[r.Intn(2)]
		}
		n := genLen(r, i%50 == 0 && k == 0)
		if max > 0 && r.Chance(1, 3) {
			n = max + r.Range(-1, 2)
			if n < 0 {
				n = 0
			}
		}
		if op >= 8 && r.Chance(3, 4) {
			n = r.Intn(126)
		}
		stream = append(stream, rawFrame(!r.Chance(1, 10), 0, op, masked, key4(r), r.Bytes(n), int64(n), 0)...)
	}
	if r.Chance(1, 8) {
		stream = stream[:r.Intn(len(stream)+1)]
	}
	role := "client"
	if server {
		role = "server"
	}
	return fmt.Sprintf("session %s %d %d %s", role, max, nframes+2, vu.Hex(stream))
}

func b2i(b bool) int {
	if b {
		return 1
	}
	return 0
}

func exec(ops []string, o *vu.Out) {
	for _, op := range ops {
		t := strings.Fields(op)
		if len(t) == 0 {
			o.Op(op, "bad-op")
			continue
		}
		o.Stat("op:" + t[0])
		switch {
		case t[0] == "wframe" && len(t) == 6:
			fin := t[1] == "1"
			rsvN := vu.Atoi(t[2])
			rsv := [3]bool{rsvN&4 != 0, rsvN&2 != 0, rsvN&1 != 0}
			opc := byte(vu.Atoi(t[3]))
			var key []byte
			if t[4] != "none" {
				key = vu.MustHex(t[4])
			}
			msg := vu.MustHex(t[5])
			res := vu.Catch(func() string {
				b, err := websocket.VerifWriteFrame(fin, rsv, opc, key, msg)
				if err != nil {
					return "err badkey"
				}
				// oracle: what was written reads back as the same frame
				f, rerr := websocket.VerifReadFrame(append(append([]byte{}, b...), 0xde, 0xad))
				if rerr != nil || f.Fin != fin || f.Rsv != rsv || f.Op != opc || f.Length != int64(len(msg)) ||
					!bytes.Equal(f.Payload, msg) || !bytes.Equal(f.Rest, []byte{0xde, 0xad}) ||
					(key == nil) != (f.Key == nil) || (key != nil && !bytes.Equal(key, f.Key)) {
					o.Fail("", fmt.Sprintf("frame fin=%v rsv=%v op=%d key=%x len=%d does not read back identically", fin, rsv, opc, key, len(msg)))
				}
				return "ok " + vu.Hex(b)
			})
			o.Op(op, res)
		case t[0] == "rframe" && len(t) == 2:
			b := vu.MustHex(t[1])
			o.Op(op, vu.Catch(func() string {
				f, err := websocket.VerifReadFrame(b)
				if err != nil {
					return "err"
				}
				key := "none"
				if f.Key != nil {
					key = vu.Hex(f.Key)
				}
				rsv := b2i(f.Rsv[0])*4 + b2i(f.Rsv[1])*2 + b2i(f.Rsv[2])
				return fmt.Sprintf("ok %d %d %d %d %s %s %s", b2i(f.Fin), rsv, f.Op, f.Length, key, vu.Hex(f.Payload), vu.Hex(f.Rest))
			}))
		case t[0] == "send" && len(t) == 4:
			server := t[1] == "server"
			typ := vu.Atoi(t[2])
			msg := vu.MustHex(t[3])
			o.Op(op, vu.Catch(func() string {
				var out bytes.Buffer
				ws := websocket.VerifNewConn(server, nil, &out, 0)
				var err error
				if typ == 1 {
					err = websocket.Message.Send(ws, string(msg))
				} else {
					err = websocket.Message.Send(ws, msg)
				}
				if err != nil {
					return "err"
				}
				f, rerr := websocket.VerifReadFrame(out.Bytes())
				if rerr != nil || len(f.Rest) != 0 {
					o.Fail("", "Send wrote something that is not exactly one frame")
					return "err"
				}
				if (f.Key != nil) == server {
					o.Fail("", fmt.Sprintf("frame sent by a server=%v conn has masked=%v", server, f.Key != nil))
				}
				if !bytes.Equal(f.Payload, msg) || int(f.Op) != typ || !f.Fin {
					o.Fail("", "sent frame does not carry the message")
				}
				return fmt.Sprintf("ok %d %d %d %s", f.Op, b2i(f.Key != nil), b2i(f.Fin), vu.Hex(f.Payload))
			}))
		case t[0] == "session" && len(t) == 5:
			server := t[1] == "server"
			max := vu.Atoi(t[2])
			n := vu.Atoi(t[3])
			in := vu.MustHex(t[4])
			o.Op(op, vu.Catch(func() string { return runSession(server, max, n, in, o) }))
		default:
			o.Op(op, "bad-op")
		}
	}
}

// refSession is an independent RFC 6455 reading of the stream, used as the property oracle:
// if the stream is what a conforming peer sends (complete frames, FIN set, correct masking,
// only text/binary/ping/pong with control payloads <= 125), it returns the messages that must be
// delivered (in order; "TOOLARGE" for a message above the limit) and the pongs that must be written.
func refSession(server bool, max int, in []byte) (res []string, pongs []string, conforming bool) {
	if max == 0 {
		max = websocket.DefaultMaxPayloadBytes
	}
	p := in
	for len(p) > 0 {
		if len(p) < 2 {
			return nil, nil, false
		}
		b0, b1 := p[0], p[1]
		p = p[2:]
		if b0&0x80 == 0 || b0&0x70 != 0 {
			return nil, nil, false
		}
		op := int(b0 & 0x0f)
		masked := b1&0x80 != 0
		if masked != server {
			return nil, nil, false
		}
		n := int64(b1 & 0x7f)
		switch n {
		case 126:
			if len(p) < 2 {
				return nil, nil, false
			}
			n = int64(p[0])<<8 | int64(p[1])
			p = p[2:]
		case 127:
			if len(p) < 8 {
				return nil, nil, false
			}
			n = 0
			for i := 0; i < 8; i++ {
				n = n<<8 | int64(p[i])
			}
			p = p[8:]
			if n < 0 {
				return nil, nil, false
			}
		}
		var key []byte
		if masked {
			if len(p) < 4 {
				return nil, nil, false
			}
			key, p = p[:4], p[4:]
		}
		if int64(len(p)) < n {
			return nil, nil, false
		}
		payload := append([]byte{}, p[:n]...)
		p = p[n:]
		for i := range payload {
			if masked {
				payload[i] ^= key[i%4]
			}
		}
		switch op {
		case 1, 2:
			if n > int64(max) {
				res = append(res, "TOOLARGE")
			} else {
				res = append(res, fmt.Sprintf("M%d:%s", op, vu.Hex(payload)))
			}
		case 9:
			if n > 125 {
				return nil, nil, false
			}
			pongs = append(pongs, fmt.Sprintf("W10:%d:%s", b2i(!server), vu.Hex(payload)))
		case 10:
			if n > 125 {
				return nil, nil, false
			}
		default:
			return nil, nil, false
		}
	}
	return res, pongs, true
}

func runSession(server bool, max, n int, in []byte, o *vu.Out) string {
	var out bytes.Buffer
	ws := websocket.VerifNewConn(server, in, &out, max)
	var res []string
	var gotType byte
	codec := websocket.Codec{Unmarshal: func(data []byte, payloadType byte, v interface{}) error {
		gotType = payloadType
		*(v.(*[]byte)) = data
		return nil
	}}
	for k := 0; k < n; k++ {
		var data []byte
		err := codec.Receive(ws, &data)
		if err == nil {
			res = append(res, fmt.Sprintf("M%d:%s", gotType, vu.Hex(data)))
			continue
		}
		if err == websocket.ErrFrameTooLarge {
			res = append(res, "TOOLARGE")
			o.Stat("session:toolarge")
			continue
		}
		if err == io.EOF {
			res = append(res, "EOF")
		} else {
			res = append(res, "ERR")
		}
		break
	}
	// frames the handler wrote (pong / close), canonicalised (client conns mask with a random key)
	var w []string
	rest := out.Bytes()
	for len(rest) > 0 {
		f, err := websocket.VerifReadFrame(rest)
		if err != nil {
			w = append(w, "W?")
			break
		}
		if (f.Key != nil) == server {
			o.Fail("", fmt.Sprintf("handler-written frame op=%d masked=%v on a server=%v conn", f.Op, f.Key != nil, server))
		}
		w = append(w, fmt.Sprintf("W%d:%d:%s", f.Op, b2i(f.Key != nil), vu.Hex(f.Payload)))
		rest = f.Rest
	}
	if want, pongs, ok := refSession(server, max, in); ok {
		o.Stat("session:conforming")
		got := res
		if len(got) > 0 && got[len(got)-1] == "EOF" {
			got = got[:len(got)-1]
		}
		if len(want) > n {
			want = want[:n]
		}
		if len(got) < len(want) || strings.Join(got[:len(want)], " ") != strings.Join(want, " ") {
			o.Fail("", fmt.Sprintf("conforming peer stream: expected deliveries %v, Receive returned %v (server=%v max=%d)", trunc(want), trunc(res), server, max))
		} else if len(got) == len(want) && strings.Join(w, " ") != strings.Join(pongs, " ") {
			o.Fail("", fmt.Sprintf("conforming peer stream: expected pongs %v, connection wrote %v", trunc(pongs), trunc(w)))
		}
	}
	s := "ok " + strings.Join(res, " ") + " |"
	for _, x := range w {
		s += " " + x
	}
	return s
}

func trunc(xs []string) []string {
	out := make([]string, len(xs))
	for i, x := range xs {
		if len(x) > 40 {
			x = x[:40] + "…"
		}
		out[i] = x
	}
	return out
}

func main() { vu.Main(gen, exec) }
