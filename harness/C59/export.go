//go:build verif

package websocket

// White-box shims for the C59 harness (injected with -overlay; never committed).

import (
	"bufio"
	"bytes"
	"io"
	"net/http"
)

// VerifWriteFrame runs hybiFrameWriter.Write and returns the bytes written.
func VerifWriteFrame(fin bool, rsv [3]bool, op byte, key []byte, msg []byte) ([]byte, error) {
	var buf bytes.Buffer
	w := &hybiFrameWriter{writer: bufio.NewWriter(&buf),
		header: &hybiFrameHeader{Fin: fin, Rsv: rsv, OpCode: op, MaskingKey: key}}
	_, err := w.Write(msg)
	return buf.Bytes(), err
}

// VerifFrame is what NewFrameReader + io.ReadAll see.
type VerifFrame struct {
	Fin     bool
	Rsv     [3]bool
	Op      byte
	Length  int64
	Key     []byte
	Payload []byte
	Rest    []byte
}

func VerifReadFrame(b []byte) (*VerifFrame, error) {
	br := bufio.NewReader(bytes.NewReader(b))
	fr, err := hybiFrameReaderFactory{br}.NewFrameReader()
	if err != nil {
		return nil, err
	}
	hf := fr.(*hybiFrameReader)
	payload, err := io.ReadAll(hf)
	if err != nil {
		return nil, err
	}
	rest, _ := io.ReadAll(br)
	return &VerifFrame{Fin: hf.header.Fin, Rsv: hf.header.Rsv, Op: hf.header.OpCode, Length: hf.header.Length,
		Key: hf.header.MaskingKey, Payload: payload, Rest: rest}, nil
}

type verifRWC struct {
	io.Reader
	io.Writer
}

func (verifRWC) Close() error { return nil }

// VerifNewConn builds a hybi Conn over an in-memory byte stream; out receives what it writes.
func VerifNewConn(server bool, in []byte, out *bytes.Buffer, maxPayload int) *Conn {
	cfg := &Config{}
	var req *http.Request
	if server {
		req = &http.Request{}
	}
	ws := newHybiConn(cfg, nil, verifRWC{bytes.NewReader(in), out}, req)
	ws.MaxPayloadBytes = maxPayload
	return ws
}
