//go:build verif

// C44 harness: webdav.NewMemFS and webdav.Dir (over a fresh temporary directory) driven by the
// same operation histories. VERIF_C44_MODE=mem (default): memFS is the implementation under the
// D-tie and the oracle compares it op by op (result + full snapshot) with Dir; =os: Dir is the
// implementation under the D-tie (against the FS.Os model).
package main

import (
	"context"
	"fmt"
	"io"
	"os"
	"path"
	"sort"
	"strconv"
	"strings"

	vu "golang.org/x/net/internal/verifutil"
	"golang.org/x/net/webdav"
)

var ctx = context.Background()

type slot struct {
	f     webdav.File
	isDir bool
	acc   int
	stale bool
	fresh bool // no Readdir yet
}

type impl struct {
	fs    webdav.FileSystem
	slots []*slot
	tmp   string
}

func newMem() *impl { return &impl{fs: webdav.NewMemFS()} }

func newOS() *impl {
	d, err := os.MkdirTemp(".", "c44fs-")
	if err != nil {
		panic(err)
	}
	return &impl{fs: webdav.Dir(d), tmp: d}
}

func (m *impl) close() {
	for _, s := range m.slots {
		if s != nil {
			s.f.Close()
		}
	}
	if m.tmp != "" {
		os.RemoveAll(m.tmp)
	}
}

func pathTok(s string) (string, bool) {
	if !strings.HasPrefix(s, "p:") {
		return "", false
	}
	return s[2:], true
}

func (m *impl) snapshot() string {
	ents := map[string]string{}
	var rec func(p string)
	rec = func(p string) {
		f, err := m.fs.OpenFile(ctx, p, os.O_RDONLY, 0)
		if err != nil {
			panic(fmt.Sprintf("snapshot: open %q: %v", p, err))
		}
		defer f.Close()
		st, err := f.Stat()
		if err != nil {
			panic(err)
		}
		if !st.IsDir() {
			b := readAll(f)
			ents[p] = "f:" + vu.Hex(b)
			return
		}
		if p != "/" {
			ents[p] = "d"
		}
		fis, err := f.Readdir(-1)
		if err != nil {
			panic(err)
		}
		for _, fi := range fis {
			rec(path.Join(p, fi.Name()))
		}
	}
	rec("/")
	if len(ents) == 0 {
		return "-"
	}
	keys := make([]string, 0, len(ents))
	for k := range ents {
		keys = append(keys, k)
	}
	sort.Strings(keys)
	parts := make([]string, len(keys))
	for i, k := range keys {
		parts[i] = k + "=" + ents[k]
	}
	return strings.Join(parts, ",")
}

func parseFlags(acc int, s string) (int, bool) {
	fl := acc
	if s == "-" {
		return fl, true
	}
	for _, c := range s {
		switch c {
		case 'a':
			fl |= os.O_APPEND
		case 'c':
			fl |= os.O_CREATE
		case 'e':
			fl |= os.O_EXCL
		case 's':
			fl |= os.O_SYNC
		case 't':
			fl |= os.O_TRUNC
		default:
			return 0, false
		}
	}
	return fl, true
}

func statLine(fi os.FileInfo, err error) string {
	if err != nil {
		return "err"
	}
	if fi.IsDir() {
		return "ok dir"
	}
	return fmt.Sprintf("ok file %d", fi.Size())
}

func (m *impl) markStale() {
	for _, s := range m.slots {
		if s != nil {
			s.stale = true
		}
	}
}

func (m *impl) slotOf(tok string) (*slot, bool) {
	k, err := strconv.Atoi(tok)
	if err != nil {
		return nil, false
	}
	if k < 0 || k >= len(m.slots) {
		return nil, true
	}
	return m.slots[k], true
}

// step runs one op line and returns the canonical result.
func (m *impl) step(t []string) string {
	switch {
	case t[0] == "snap" && len(t) == 1:
		return "ok " + m.snapshot()
	case t[0] == "mkdir" && len(t) == 2:
		p, ok := pathTok(t[1])
		if !ok {
			return "bad-op"
		}
		m.markStale()
		if err := m.fs.Mkdir(ctx, p, 0777); err != nil {
			return "err"
		}
		return "ok"
	case t[0] == "removeall" && len(t) == 2:
		p, ok := pathTok(t[1])
		if !ok {
			return "bad-op"
		}
		m.markStale()
		if err := m.fs.RemoveAll(ctx, p); err != nil {
			return "err"
		}
		return "ok"
	case t[0] == "rename" && len(t) == 3:
		a, ok1 := pathTok(t[1])
		b, ok2 := pathTok(t[2])
		if !ok1 || !ok2 {
			return "bad-op"
		}
		m.markStale()
		if err := m.fs.Rename(ctx, a, b); err != nil {
			return "err"
		}
		return "ok"
	case t[0] == "stat" && len(t) == 2:
		p, ok := pathTok(t[1])
		if !ok {
			return "bad-op"
		}
		fi, err := m.fs.Stat(ctx, p)
		res := statLine(fi, err)
		if err == nil {
			// FileInfo.Name: the last element of the cleaned name ("/" stands for the root,
			// whose native name is that of the temporary directory)
			if slashClean(p) == "/" {
				res += " /"
			} else {
				res += " " + fi.Name()
			}
		}
		return res
	case t[0] == "open" && len(t) == 4:
		p, ok := pathTok(t[1])
		acc, err := strconv.Atoi(t[2])
		if !ok || err != nil || acc < 0 || acc > 2 {
			return "bad-op"
		}
		fl, ok := parseFlags(acc, t[3])
		if !ok {
			return "bad-op"
		}
		m.markStale()
		f, err := m.fs.OpenFile(ctx, p, fl, 0666)
		if err != nil {
			m.slots = append(m.slots, nil)
			return "err"
		}
		st, err := f.Stat()
		if err != nil {
			panic(err)
		}
		m.slots = append(m.slots, &slot{f: f, isDir: st.IsDir(), acc: acc, fresh: true})
		if st.IsDir() {
			return "ok dir"
		}
		return "ok file"
	case t[0] == "fstat" && len(t) == 2:
		s, ok := m.slotOf(t[1])
		if !ok {
			return "bad-op"
		}
		if s == nil {
			return "bad-handle"
		}
		return statLine(s.f.Stat())
	case t[0] == "write" && len(t) == 3:
		s, ok := m.slotOf(t[1])
		d, ok2 := vu.ParseHex(t[2])
		if !ok || !ok2 {
			return "bad-op"
		}
		if s == nil {
			return "bad-handle"
		}
		n, err := s.f.Write(d)
		if err != nil {
			return "err"
		}
		return fmt.Sprintf("ok %d", n)
	case t[0] == "read" && len(t) == 3:
		s, ok := m.slotOf(t[1])
		n, err := strconv.Atoi(t[2])
		if !ok || err != nil || n < 0 || n > 1<<16 {
			return "bad-op"
		}
		if s == nil {
			return "bad-handle"
		}
		buf := make([]byte, n)
		k, err := s.f.Read(buf)
		if err == io.EOF {
			return "eof"
		}
		if err != nil {
			return "err"
		}
		return "ok " + vu.Hex(buf[:k])
	case t[0] == "seek" && len(t) == 4:
		s, ok := m.slotOf(t[1])
		off, err1 := strconv.ParseInt(t[2], 10, 64)
		wh, err2 := strconv.Atoi(t[3])
		if !ok || err1 != nil || err2 != nil {
			return "bad-op"
		}
		if s == nil {
			return "bad-handle"
		}
		if s.isDir {
			return "skip" // unspecified on directories
		}
		pos, err := s.f.Seek(off, wh)
		if err != nil {
			return "err"
		}
		return fmt.Sprintf("ok %d", pos)
	case t[0] == "readdir" && len(t) == 3:
		s, ok := m.slotOf(t[1])
		c, err := strconv.Atoi(t[2])
		if !ok || err != nil {
			return "bad-op"
		}
		if s == nil {
			return "bad-handle"
		}
		if s.isDir && !s.fresh && s.stale {
			// continuing an earlier listing after the namespace changed: unspecified
			return "skip"
		}
		fresh := s.fresh
		s.fresh = false
		if fresh {
			s.stale = false // from now on "stale" means: changed since the first Readdir
		}
		fis, err := s.f.Readdir(c)
		if err == io.EOF {
			return "eof"
		}
		if err != nil {
			return "err"
		}
		if fresh && c <= 0 {
			names := make([]string, len(fis))
			for i, fi := range fis {
				names[i] = fi.Name()
			}
			sort.Strings(names)
			if len(names) == 0 {
				return "ok all -"
			}
			return "ok all " + strings.Join(names, ",")
		}
		return fmt.Sprintf("ok %d", len(fis))
	}
	return "bad-op"
}

// ---------------------------------------------------------------- exec + oracle

func slashClean(p string) string { return path.Clean("/" + p) }

// classify names the divergence class of op t, using the state of the memFS before the op
// (preKind of the paths involved): the three known findings, the contract's exception, or "".
func classify(t []string, m *impl, preKind func(string) string) string {
	switch t[0] {
	case "open":
		p, _ := pathTok(t[1])
		fl := t[3]
		k := preKind(p)
		switch {
		case k == "dir" && t[2] != "0":
			return "open-dir-for-writing"
		case k == "dir" && strings.ContainsAny(fl, "ct"):
			return "open-dir-create-trunc"
		case k == "file" && t[2] == "0" && strings.Contains(fl, "t"):
			return "open-rdonly-trunc"
		}
	case "seek":
		// offsets beyond the native filesystem's maximum file size (filesystem dependent)
		if off, _ := strconv.ParseInt(t[2], 10, 64); off > 1<<43 {
			return "allowed:offset-beyond-native-limit"
		}
	case "rename":
		b, _ := pathTok(t[2])
		if preKind(b) != "" {
			return "allowed:rename-over-existing"
		}
	}
	return ""
}

func exec(ops []string, o *vu.Out) {
	var m, shadow *impl
	diverged := false
	defer func() {
		if m != nil {
			m.close()
		}
		if shadow != nil {
			shadow.close()
		}
	}()
	for _, op := range ops {
		t := strings.Fields(op)
		if len(t) == 0 {
			o.Op(op, "bad-op")
			continue
		}
		o.Stat("op:" + t[0])
		if t[0] == "reset" && len(t) == 2 {
			if m != nil {
				m.close()
			}
			if shadow != nil {
				shadow.close()
				shadow = nil
			}
			diverged = false
			switch t[1] {
			case "mem":
				m, shadow = newMem(), newOS()
			case "os":
				m = newOS()
			default:
				o.Op(op, "bad-op")
				continue
			}
			o.Op(op, "ok")
			continue
		}
		if m == nil {
			o.Op(op, "bad-op")
			continue
		}
		// pre-state, for the classification of a divergence
		// first Readdir on a directory handle opened before the namespace changed?
		snapshotRead := false
		if t[0] == "readdir" && len(t) == 3 {
			if sl, ok := m.slotOf(t[1]); ok && sl != nil {
				snapshotRead = sl.isDir && sl.fresh && sl.stale
			}
		}
		var pre map[string]string
		if shadow != nil && !diverged && (t[0] == "open" || t[0] == "rename") {
			pre = map[string]string{}
			for _, x := range t[1:] {
				if p, ok := pathTok(x); ok {
					if fi, err := m.fs.Stat(ctx, p); err == nil {
						if fi.IsDir() {
							pre[p] = "dir"
						} else {
							pre[p] = "file"
						}
					}
				}
			}
		}
		res := vu.Catch(func() string { return m.step(t) })
		o.Op(op, res)
		if res == "panic" {
			// no history of FileSystem / File calls may crash the filesystem
			o.Fail("", fmt.Sprintf("op %q panicked", op))
		}
		if strings.HasPrefix(res, "ok") {
			o.Stat("okop:" + t[0])
		}
		if shadow == nil || diverged || res == "bad-op" {
			continue
		}
		// ---- property oracle: memFS vs Dir, result and resulting names/kinds/contents
		ro := vu.Catch(func() string { return shadow.step(t) })
		same := res == ro
		var sm, so string
		if same && t[0] != "snap" && t[0] != "stat" && t[0] != "fstat" {
			sm = vu.Catch(func() string { return m.snapshot() })
			so = vu.Catch(func() string { return shadow.snapshot() })
			same = sm == so
			// unlinked files are visible only through their handles: compare sizes
			for k := 0; same && k < len(m.slots) && k < len(shadow.slots); k++ {
				if m.slots[k] != nil && shadow.slots[k] != nil {
					if a, b := statLine(m.slots[k].f.Stat()), statLine(shadow.slots[k].f.Stat()); a != b {
						same = false
						sm += fmt.Sprintf(" [slot %d: %s]", k, a)
						so += fmt.Sprintf(" [slot %d: %s]", k, b)
					}
				}
			}
		}
		if same {
			continue
		}
		diverged = true
		sig := classify(t, m, func(p string) string { return pre[p] })
		if snapshotRead {
			sig = "readdir-open-time-snapshot"
		}
		o.Stat("diverge:" + sig)
		if strings.HasPrefix(sig, "allowed:") {
			continue
		}
		o.Fail(sig, fmt.Sprintf("op %q: memFS %q, Dir %q; trees after: memFS {%s} Dir {%s}", op, res, ro, sm, so))
	}
}

// readAll is io.ReadAll with a guard against a Read that returns (0, nil) forever.
func readAll(f io.Reader) []byte {
	var out []byte
	buf := make([]byte, 512)
	stalls := 0
	for {
		n, err := f.Read(buf)
		out = append(out, buf[:n]...)
		if err == io.EOF {
			return out
		}
		if err != nil {
			panic(err)
		}
		if n == 0 {
			if stalls++; stalls > 2 {
				panic("Read keeps returning (0, nil)")
			}
		}
	}
}

func main() { vu.Main(gen, exec) }
