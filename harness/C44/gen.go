//go:build verif

package main

import (
	"fmt"
	"os"
	"strings"

	vu "golang.org/x/net/internal/verifutil"
)

var names = []string{"a", "b", "c"}

func rpath(r *vu.Rng, known [][]string) []string {
	if len(known) > 0 && r.Chance(3, 4) {
		p := known[r.Intn(len(known))]
		switch r.Intn(6) {
		case 0:
			return append(append([]string{}, p...), names[r.Intn(3)])
		case 1:
			return p[:r.Intn(len(p)+1)]
		}
		return p
	}
	n := r.Intn(3)
	if len(known) == 0 {
		n = r.Intn(2)
	}
	c := make([]string, n)
	for i := range c {
		c[i] = names[r.Intn(3)]
	}
	return c
}

func spellPath(r *vu.Rng, c []string) string {
	base := "/" + strings.Join(c, "/")
	switch r.Intn(14) {
	case 0:
		return base + "/"
	case 1:
		return "/." + base
	case 2:
		if len(c) > 0 {
			return strings.Join(c, "/")
		}
	case 3:
		return "/" + names[r.Intn(3)] + "/.." + base
	case 4:
		return base + "/."
	case 5:
		return base + "/" + names[r.Intn(3)] + "/.."
	}
	return base
}

func gen(r *vu.Rng, i int) []string {
	mode := os.Getenv("VERIF_C44_MODE")
	if mode == "" {
		mode = "mem"
	}
	ops := []string{"reset " + mode}
	var known [][]string
	kind := map[string]byte{} // guessed kinds ('d' / 'f'); only steers the distribution
	nslots := 0
	// Pattern family "truncate, then write beyond the new end": contents written earlier must not
	// come back as the bytes of a hole (a hole reads as zeros). The old contents may survive in a
	// reused buffer, so the hole is placed inside, at and beyond the previous length / capacity.
	if r.Chance(1, 5) {
		p := []string{names[r.Intn(3)]}
		ps := "p:/" + p[0]
		known = append(known, p)
		kind[p[0]] = 'f'
		ops = append(ops, fmt.Sprintf("open %s 2 c", ps))
		w := nslots
		nslots++
		total := 0
		for j := r.Range(1, 3); j > 0; j-- {
			d := r.Bytes(r.Range(1, 24))
			for i := range d {
				d[i] |= 1 // never zero: a leaked byte is visible
			}
			total += len(d)
			ops = append(ops, fmt.Sprintf("write %d %s", w, vu.Hex(d)))
		}
		if r.Chance(1, 4) { // shrink the position of the first handle
			ops = append(ops, fmt.Sprintf("seek %d %d 0", w, r.Intn(total+1)))
		}
		ops = append(ops, fmt.Sprintf("open %s %d %s", ps, 1+r.Intn(2), []string{"t", "ct", "t", "et"}[r.Intn(4)]))
		tr := nslots
		nslots++
		h := tr // the handle that writes after the truncation
		if r.Chance(1, 3) {
			h = w // the first handle still stands at its old offset
		}
		if h == tr || r.Chance(1, 2) {
			off := r.Range(1, total+2)
			if r.Chance(1, 4) {
				off = r.Range(1, 2*total+8)
			}
			ops = append(ops, fmt.Sprintf("seek %d %d 0", h, off))
		}
		ops = append(ops, fmt.Sprintf("write %d %s", h, vu.Hex(r.Bytes(r.Range(1, 3)))))
		if r.Chance(1, 3) { // a second hole further out
			ops = append(ops, fmt.Sprintf("seek %d %d 1", h, r.Range(1, total+4)))
			ops = append(ops, fmt.Sprintf("write %d %s", h, vu.Hex(r.Bytes(r.Range(1, 2)))))
		}
		ops = append(ops, fmt.Sprintf("seek %d 0 0", w), fmt.Sprintf("read %d %d", w, 3*total+40), "snap")
	}
	n := r.Range(4, 22)
	for k := 0; k < n; k++ {
		p := rpath(r, known)
		ps := "p:" + spellPath(r, p)
		switch x := r.Intn(100); {
		case x < 12:
			ops = append(ops, "mkdir "+ps)
			known = append(known, p)
			if _, ok := kind[strings.Join(p, "/")]; !ok {
				kind[strings.Join(p, "/")] = 'd'
			}
		case x < 34:
			acc := []int{0, 0, 1, 2, 2, 2}[r.Intn(6)]
			fl := ""
			if r.Chance(3, 5) {
				fl += "c"
			}
			if r.Chance(1, 8) {
				fl += "e"
			}
			if r.Chance(1, 5) {
				fl += "t"
			}
			if r.Chance(1, 25) {
				fl += "a"
			}
			if r.Chance(1, 40) {
				fl += "s"
			}
			isDirGuess := kind[strings.Join(p, "/")] == 'd' || len(p) == 0
			if isDirGuess && r.Chance(4, 5) {
				acc, fl = 0, "" // a plain read-only open of a directory
			}
			if fl == "" {
				fl = "-"
			}
			ops = append(ops, fmt.Sprintf("open %s %d %s", ps, acc, fl))
			nslots++
			if strings.Contains(fl, "c") {
				known = append(known, p)
				if _, ok := kind[strings.Join(p, "/")]; !ok {
					kind[strings.Join(p, "/")] = 'f'
				}
			}
			// directory listings right after the open (before the namespace changes again)
			if isDirGuess && r.Chance(1, 2) {
				for j := r.Range(1, 3); j > 0; j-- {
					ops = append(ops, fmt.Sprintf("readdir %d %d", nslots-1, r.Range(-1, 2)))
				}
			} else {
				for r.Chance(1, 4) {
					ops = append(ops, fmt.Sprintf("readdir %d %d", nslots-1, r.Range(-1, 2)))
				}
			}
		case x < 50 && nslots > 0:
			d := r.Bytes(r.Intn(5))
			if r.Chance(1, 30) {
				d = nil
			}
			ops = append(ops, fmt.Sprintf("write %d %s", r.Intn(nslots), vu.Hex(d)))
		case x < 62 && nslots > 0:
			cnt := r.Range(1, 6)
			if r.Chance(1, 30) {
				cnt = 0
			}
			ops = append(ops, fmt.Sprintf("read %d %d", r.Intn(nslots), cnt))
		case x < 72 && nslots > 0:
			wh := r.Intn(3)
			if r.Chance(1, 20) {
				wh = 5 + r.Intn(3)
			}
			off := int64(r.Range(-4, 9))
			if r.Chance(1, 5) {
				off = int64(r.Range(0, 40))
			}
			slot := r.Intn(nslots)
			if r.Chance(1, 12) {
				// an offset no file can have (never the range in between, which memFS would try
				// to allocate): the Write that follows must fail, not crash
				off = []int64{1 << 50, 1 << 62, 1<<62 + 5, 1<<63 - 1}[r.Intn(4)]
				wh = 0
				ops = append(ops, fmt.Sprintf("seek %d %d %d", slot, off, wh))
				ops = append(ops, fmt.Sprintf("write %d %s", slot, vu.Hex(r.Bytes(r.Range(1, 3)))))
				ops = append(ops, fmt.Sprintf("fstat %d", slot))
				continue
			}
			ops = append(ops, fmt.Sprintf("seek %d %d %d", slot, off, wh))
		case x < 76 && nslots > 0:
			ops = append(ops, fmt.Sprintf("readdir %d %d", r.Intn(nslots), r.Range(-1, 2)))
		case x < 80 && nslots > 0:
			ops = append(ops, fmt.Sprintf("fstat %d", r.Intn(nslots)))
		case x < 88:
			q := rpath(r, known)
			for tries := 0; tries < 4 && strings.Join(q, "/") == strings.Join(p, "/"); tries++ {
				q = append(append([]string{}, q...), names[r.Intn(3)])
			}
			if r.Chance(1, 25) {
				q = p
			}
			ops = append(ops, "rename "+ps+" p:"+spellPath(r, q))
			known = append(known, q)
		case x < 94:
			if len(known) > 0 && r.Chance(2, 3) {
				ps = "p:" + spellPath(r, known[r.Intn(len(known))])
			}
			ops = append(ops, "removeall "+ps)
		case x < 98:
			ops = append(ops, "stat "+ps)
		default:
			ops = append(ops, "snap")
		}
	}
	ops = append(ops, "snap")
	return ops
}
