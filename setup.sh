#!/bin/sh
# MANIFEST.setup_cmd: offline build of the Lean project, extractor and Go harnesses.
cd "$(dirname "$0")" && exec python3 lib/vsetup.py "$@"
