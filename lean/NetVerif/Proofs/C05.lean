import NetVerif.Proofs.C01
/-!
C05 — HPACK never indexes sensitive header fields.

On the models of C01 (`Model.HpackEnc` encoder, `Model.Hpack` decoder):
* encoder, for every state and every field with `Sensitive` set:
  `sensitive_no_match` (never a name+value table match, so never an *indexed* representation),
  `sensitive_encoder_table_unchanged`, `sensitive_repr_never_indexed` (first byte of the
  representation is `0001xxxx`; the bytes in front of it are table size updates only);
* decoder, for every state and every input: `decoder_never_indexed` — a representation starting with
  `0001xxxx` leaves the dynamic table untouched and is reported with `Sensitive = true`
  (also on the error path: `decoder_never_indexed_err`); `decoder_adds_only_incremental` — only a
  `01xxxxxx` representation can add an entry;
* both together on the joint run (`sensitive_roundtrip`): the decoder emits exactly the field, with
  `Sensitive = true`, and its table is the one it had after the leading size updates;
* histories: `encoder_table_provenance` — every entry of the encoder's table after any history is the
  (name, value) of a field written with `Sensitive = false`; `no_later_reference` — whenever a later
  field is encoded as an indexed representation, the referenced entry is a static entry or the pair
  of an earlier NON-sensitive field (a value that entered only through sensitive fields is never
  referenced); `sensitive_only_never_stored`. (The decoder-side history theorems are in `Proofs/C05Dec.lean`;
  `decoder_table_provenance`, `decoder_never_resolves_sensitive`, `decoder_table_provenance_bytes`,
  `decoder_only_incremental_adds`.)
-/
namespace NetVerif.Proofs.C05
open NetVerif.Model.Hpack NetVerif.Model.HpackEnc
open NetVerif.Proofs.Lemmas.HpackEnc
open NetVerif.Proofs.Lemmas.Hpack
open NetVerif.Proofs.C01
open NetVerif.Model
open NetVerif

/-! ### Encoder -/

/-- A sensitive field never gets a name+value match (static or dynamic), hence never the
"Indexed Header Field" representation. -/
theorem sensitive_no_match (e : Encoder) (f : Field) (hs : f.sensitive = true) : (e.searchTable f).2 = false :=
  searchTable_sensitive e f hs

theorem sensitive_not_indexing (e : Encoder) (f : Field) (hs : f.sensitive = true) : e.shouldIndex f = false := by
  simp [Encoder.shouldIndex, hs]

/-- `WriteField` of a sensitive field leaves the encoder's dynamic table exactly as it was
(entries, size, bounds). -/
theorem sensitive_encoder_table_unchanged (e : Encoder) (f : Field) (hs : f.sensitive = true) :
    (e.writeField f).1.dyn = e.dyn := by
  have hflush : e.flushUpdate.1.dyn = e.dyn := by
    unfold Encoder.flushUpdate; split <;> rfl
  unfold Encoder.writeField Encoder.writeRepr
  simp only [sensitive_no_match _ f hs, sensitive_not_indexing _ f hs, Bool.false_eq_true, ↓reduceIte]
  exact hflush

/-- The representation of a sensitive field starts with `0001xxxx` (never-indexed literal): it is
neither an indexed representation (`1xxxxxxx`) nor a literal with incremental indexing (`01xxxxxx`). -/
theorem sensitive_repr_never_indexed (e : Encoder) (f : Field) (hs : f.sensitive = true) :
    ∃ hd tl, (e.writeRepr f).2 = hd :: tl ∧ hd / 16 = 1 := by
  unfold Encoder.writeRepr
  simp only [sensitive_no_match _ f hs, sensitive_not_indexing _ f hs, Bool.false_eq_true, ↓reduceIte]
  by_cases h0 : (e.searchTable f).1 = 0
  · simp only [h0, ↓reduceIte, appendNewName, encodeTypeByte, hs]
    exact ⟨16, _, rfl, by decide⟩
  · simp only [h0, ↓reduceIte, appendIndexedName, encodeTypeByte, hs, Bool.false_eq_true]
    obtain ⟨hd, tl, hcons, hlo, hhi⟩ := appendVarInt_cons 4 16 (e.searchTable f).1
    rw [hcons]
    exact ⟨hd, tl ++ appendHpackString f.value, rfl, by omega⟩

/-- The bytes of `WriteField` are the pending table size updates (first bytes `001xxxxx`), then the
representation. -/
theorem writeField_bytes (e : Encoder) (f : Field) :
    (e.writeField f).2 = e.flushUpdate.2 ++ (e.flushUpdate.1.writeRepr f).2 := rfl

theorem flushUpdate_bytes (e : Encoder) :
    e.flushUpdate.2 = [] ∨ e.flushUpdate.2 = appendTableSize e.dyn.maxSize ∨
      e.flushUpdate.2 = appendTableSize e.minSize ++ appendTableSize e.dyn.maxSize := by
  unfold Encoder.flushUpdate
  split
  · split
    · right; right; rfl
    · right; left; simp
  · left; rfl

theorem appendTableSize_first (v : Nat) : ∃ hd tl, appendTableSize v = hd :: tl ∧ hd / 32 = 1 := by
  obtain ⟨hd, tl, hcons, hlo, hhi⟩ := appendVarInt_cons 5 32 v
  exact ⟨hd, tl, hcons, by omega⟩

/-! ### Decoder (all states, all inputs) -/

theorem parseLiteral_shape (d : DecCore) (n : Nat) (it : IndexType) (buf : Bytes) (a : Action) (rest : Bytes)
    (h : parseLiteral d n it buf = .ok (a, rest)) : ∃ tn un uv, a = .literal it tn un uv := by
  unfold parseLiteral Parser.bind at h
  cases hrv : readVarInt n buf with
  | error e => rw [hrv] at h; cases h
  | ok ar =>
    obtain ⟨idx, r⟩ := ar
    rw [hrv] at h
    dsimp only at h
    by_cases hpos : idx > 0
    · simp only [hpos, ↓reduceIte] at h
      cases hat : d.at idx with
      | none => rw [hat] at h; simp [Parser.fail] at h
      | some en =>
        rw [hat] at h
        dsimp only [Parser.bind] at h
        cases hrs : readString d.maxStrLen r with
        | error e => rw [hrs] at h; cases h
        | ok ur =>
          rw [hrs] at h
          simp only [Parser.pure, Except.ok.injEq, Prod.mk.injEq] at h
          exact ⟨_, _, _, h.1.symm⟩
    · simp only [hpos, ↓reduceIte] at h
      cases hrs : readString d.maxStrLen r with
      | error e => rw [hrs] at h; cases h
      | ok ur =>
        obtain ⟨u1, r1⟩ := ur
        rw [hrs] at h
        dsimp only at h
        cases hrs2 : readString d.maxStrLen r1 with
        | error e => rw [hrs2] at h; cases h
        | ok ur2 =>
          rw [hrs2] at h
          simp only [Parser.pure, Except.ok.injEq, Prod.mk.injEq] at h
          exact ⟨_, _, _, h.1.symm⟩

theorem finishEmit_ok (d : DecCore) (hf : Field) (d' : DecCore) (em : Option Field)
    (h : finishEmit d hf = .ok d' em) : d' = d ∧ ∀ f, em = some f → f = hf := by
  unfold finishEmit at h
  split at h
  · cases h
  · rename_i em' hce
    simp only [ApplyRes.ok.injEq] at h
    refine ⟨h.1.symm, ?_⟩
    intro f hf'
    unfold callEmit at hce
    split at hce
    · cases hce
    · simp only [Except.ok.injEq] at hce
      rw [← h.2, ← hce] at hf'
      split at hf'
      · simpa using hf'.symm
      · cases hf'

theorem finishEmit_err (d : DecCore) (hf : Field) (d' : DecCore) (e : PErr)
    (h : finishEmit d hf = .err e d') : d' = d := by
  unfold finishEmit at h
  split at h
  · simp only [ApplyRes.err.injEq] at h; exact h.2.symm
  · cases h

/-- What a literal does to the table, by index type. -/
theorem applyAction_literal_ok (d : DecCore) (it : IndexType) (tn : Option Bytes) (un uv : UString)
    (d' : DecCore) (em : Option Field) (h : applyAction d (.literal it tn un uv) = .ok d' em) :
    (it ≠ .indexedTrue → d'.dyn = d.dyn) ∧ (∀ f, em = some f → f.sensitive = it.sensitive) ∧
    (∀ x ∈ d'.dyn.ents, x ∈ d.dyn.ents ∨
      (it = .indexedTrue ∧ (d.emitEnabled = true → d.maxStrLen = 0 → ∃ f, em = some f ∧ x = (f.name, f.value)))) := by
  unfold applyAction at h
  simp only at h
  split at h
  · cases h
  · split at h
    · cases h
    · rename_i _ name _ _ value _
      obtain ⟨hd', hem⟩ := finishEmit_ok _ _ _ _ h
      refine ⟨?_, ?_, ?_⟩
      · intro hit
        have : it.indexed = false := by cases it <;> simp_all [IndexType.indexed]
        rw [hd', this]; rfl
      · intro f hf; rw [hem f hf]
      · intro x hx
        rw [hd'] at hx
        cases it with
        | indexedTrue =>
          simp only [IndexType.indexed, beq_self_eq_true, ↓reduceIte] at hx
          have hsub : (d.dyn.add (name, value)).ents <+: (name, value) :: d.dyn.ents := evict_ents_prefix _
          have hx' : x ∈ (name, value) :: d.dyn.ents := hsub.subset hx
          rcases List.mem_cons.mp hx' with hx1 | hx1
          · right
            refine ⟨rfl, ?_⟩
            intro hen hms
            -- with emit enabled and no string limit the field is emitted
            have : em = some { name := name, value := value, sensitive := IndexType.indexedTrue.sensitive } := by
              unfold finishEmit callEmit at h
              simp only [IndexType.indexed, beq_self_eq_true, ↓reduceIte] at h
              rw [if_neg (by simp [hms]), if_pos hen] at h
              simp only [ApplyRes.ok.injEq] at h
              exact h.2.symm
            exact ⟨_, this, hx1⟩
          · left; exact hx1
        | indexedFalse => left; simpa [IndexType.indexed] using hx
        | indexedNever => left; simpa [IndexType.indexed] using hx

theorem applyAction_literal_err (d : DecCore) (it : IndexType) (tn : Option Bytes) (un uv : UString)
    (d' : DecCore) (e : PErr) (h : applyAction d (.literal it tn un uv) = .err e d')
    (hit : it ≠ .indexedTrue) : d'.dyn = d.dyn := by
  unfold applyAction at h
  simp only at h
  split at h
  · simp only [ApplyRes.err.injEq] at h; rw [← h.2]
  · split at h
    · simp only [ApplyRes.err.injEq] at h; rw [← h.2]
    · have := finishEmit_err _ _ _ _ h
      have hidx : it.indexed = false := by cases it <;> simp_all [IndexType.indexed]
      rw [this, hidx]; rfl

/-- **Decoder, never-indexed literal** (`0001xxxx`), for every decoder state and every input: the
dynamic table is untouched and the field is reported with `Sensitive = true`. -/
theorem decoder_never_indexed (d : DecCore) (b : Nat) (p : Bytes) (hb : b / 16 = 1)
    (d' : DecCore) (rest : Bytes) (em : Option Field) (h : parseRepr d (b :: p) = .ok d' rest em) :
    d'.dyn = d.dyn ∧ ∀ f, em = some f → f.sensitive = true := by
  unfold parseRepr at h
  rw [parseAction_literal d .never b p (by simp [LitKind.flag]; omega) (by simp [LitKind.flag, LitKind.n]; omega)] at h
  split at h
  · cases h
  · cases h
  · rename_i a r hpa
    obtain ⟨tn, un, uv, rfl⟩ := parseLiteral_shape _ _ _ _ _ _ hpa
    split at h
    · cases h
    · rename_i d1 em1 hap
      simp only [PRes.ok.injEq] at h
      obtain ⟨h1, h2, _⟩ := applyAction_literal_ok d _ tn un uv d1 em1 hap
      rw [← h.1, ← h.2.2]
      exact ⟨h1 (by simp [LitKind.it]), fun f hf => by rw [h2 f hf]; rfl⟩

/-- … and on the error path the table is untouched as well. -/
theorem decoder_never_indexed_err (d : DecCore) (b : Nat) (p : Bytes) (hb : b / 16 = 1)
    (d' : DecCore) (e : PErr) (h : parseRepr d (b :: p) = .err e d') : d'.dyn = d.dyn := by
  unfold parseRepr at h
  rw [parseAction_literal d .never b p (by simp [LitKind.flag]; omega) (by simp [LitKind.flag, LitKind.n]; omega)] at h
  split at h
  · cases h
  · simp only [PRes.err.injEq] at h; rw [← h.2]
  · rename_i a r hpa
    obtain ⟨tn, un, uv, rfl⟩ := parseLiteral_shape _ _ _ _ _ _ hpa
    split at h
    · rename_i e1 d1 hap
      simp only [PRes.err.injEq] at h
      rw [← h.2]
      exact applyAction_literal_err d _ tn un uv d1 e1 hap (by simp [LitKind.it])
    · cases h

/-- What kind of action the first byte allows (inversion of `parseAction`). -/
theorem parseAction_kind (d : DecCore) (b : Nat) (p : Bytes) (a : Action) (rest : Bytes)
    (h : parseAction d (b :: p) = .ok (a, rest)) :
    (∃ e, a = .indexed e) ∨ (∃ s, a = .sizeUpdate s) ∨
      ∃ it tn un uv, a = .literal it tn un uv ∧ (it = .indexedTrue → b / 64 = 1) := by
  simp only [parseAction] at h
  split at h
  · left
    simp only [Parser.bind] at h
    cases hrv : readVarInt 7 (b :: p) with
    | error e => rw [hrv] at h; cases h
    | ok ar =>
      obtain ⟨idx, r⟩ := ar
      rw [hrv] at h
      dsimp only at h
      cases hat : d.at idx with
      | none => rw [hat] at h; simp [Parser.fail] at h
      | some en =>
        rw [hat] at h
        simp only [Parser.pure, Except.ok.injEq, Prod.mk.injEq] at h
        exact ⟨en, h.1.symm⟩
  · split at h
    · rename_i h64
      right; right
      obtain ⟨tn, un, uv, ha⟩ := parseLiteral_shape _ _ _ _ _ _ h
      exact ⟨_, tn, un, uv, ha, fun _ => h64⟩
    · split at h
      · right; right
        obtain ⟨tn, un, uv, ha⟩ := parseLiteral_shape _ _ _ _ _ _ h
        exact ⟨_, tn, un, uv, ha, fun hc => by cases hc⟩
      · split at h
        · right; right
          obtain ⟨tn, un, uv, ha⟩ := parseLiteral_shape _ _ _ _ _ _ h
          exact ⟨_, tn, un, uv, ha, fun hc => by cases hc⟩
        · split at h
          · split at h
            · cases h
            · right; left
              simp only [Parser.bind] at h
              cases hrv : readVarInt 5 (b :: p) with
              | error e => rw [hrv] at h; cases h
              | ok ar =>
                obtain ⟨sz, r⟩ := ar
                rw [hrv] at h
                dsimp only at h
                split at h
                · simp [Parser.fail] at h
                · simp only [Parser.pure, Except.ok.injEq, Prod.mk.injEq] at h
                  exact ⟨sz, h.1.symm⟩
          · cases h

/-- **Decoder, all states and inputs: only a literal with incremental indexing (`01xxxxxx`) can add
a table entry**; every other representation leaves the entries a subset of what they were. -/
theorem decoder_adds_only_incremental (d : DecCore) (b : Nat) (p : Bytes) (d' : DecCore) (rest : Bytes)
    (em : Option Field) (h : parseRepr d (b :: p) = .ok d' rest em) (hb : ¬ b / 64 = 1) :
    ∀ x ∈ d'.dyn.ents, x ∈ d.dyn.ents := by
  unfold parseRepr at h
  cases hpa : parseAction d (b :: p) with
  | error e => rw [hpa] at h; cases e <;> simp at h
  | ok ar =>
    obtain ⟨a, r⟩ := ar
    rw [hpa] at h
    dsimp only at h
    cases hap : applyAction d a with
    | err e d1 => rw [hap] at h; cases h
    | ok d1 em1 =>
      rw [hap] at h
      simp only [PRes.ok.injEq] at h
      rw [← h.1]
      rcases parseAction_kind d b p a r hpa with ⟨e, rfl⟩ | ⟨sz, rfl⟩ | ⟨it, tn, un, uv, rfl, hit⟩
      · simp only [applyAction] at hap
        rw [(finishEmit_ok _ _ _ _ hap).1]
        exact fun x hx => hx
      · simp only [applyAction, ApplyRes.ok.injEq] at hap
        rw [← hap.1]
        exact fun x hx => (setMaxSize_ents_prefix _ _).subset hx
      · have := (applyAction_literal_ok d it tn un uv d1 em1 hap).1 (fun hc => hb (hit hc))
        rw [this]
        exact fun x hx => hx

/-! ### Encoder and decoder together -/

/-- **A sensitive field on the joint run** (no table size update pending): the decoder reads the
representation back as exactly `f` (so `Sensitive = true`), its table is untouched, and so is the
encoder's. -/
theorem sensitive_roundtrip (A : Nat) (e : Encoder) (d : DecCore) (f : Field) (rest : Bytes)
    (hs : Sim A e d) (hu : e.tableSizeUpdate = false) (hf : FieldOK f) (hA : A ≤ uint32Max)
    (hsens : f.sensitive = true) :
    ∃ d', parseRepr d ((e.writeRepr f).2 ++ rest) = .ok d' rest (some f) ∧ d'.dyn = d.dyn ∧
      (e.writeRepr f).1.dyn = e.dyn := by
  obtain ⟨d', hp, _, _, _⟩ := writeRepr_sim A e d f rest hs hu hf hA
  obtain ⟨hd, tl, hcons, hpat⟩ := sensitive_repr_never_indexed e f hsens
  refine ⟨d', hp, ?_, ?_⟩
  · rw [hcons] at hp
    exact (decoder_never_indexed d hd (tl ++ rest) hpat d' rest (some f) hp).1
  · unfold Encoder.writeRepr
    simp only [sensitive_no_match _ f hsens, sensitive_not_indexing _ f hsens, Bool.false_eq_true, ↓reduceIte]

/-- The same through the public calls: `WriteField` then `Decoder.Write`. -/
theorem sensitive_writeField (A : Nat) (e : Encoder) (d : Decoder) (f : Field)
    (hs : Sim A e d.toDecCore) (hsave : d.saveBuf = []) (hA : A ≤ uint32Max)
    (hu : e.tableSizeUpdate = false) (hf : FieldOK f) (hsens : f.sensitive = true) :
    ∃ d', d.write (e.writeField f).2 = (d', [f], none) ∧ d'.dyn = d.dyn ∧ (e.writeField f).1.dyn = e.dyn := by
  have hflush : e.flushUpdate = (e, []) := by unfold Encoder.flushUpdate; simp [hu]
  obtain ⟨d2, hp, hdyn, _⟩ := sensitive_roundtrip A e d.toDecCore f [] hs hu hf hA hsens
  obtain ⟨_, _, hlen, _, _⟩ := writeRepr_sim A e d.toDecCore f [] hs hu hf hA
  rw [List.append_nil] at hp hlen
  have hne : (e.writeField f).2 ≠ [] := by
    unfold Encoder.writeField
    rw [hflush]
    simp only [List.nil_append]
    intro h0; rw [h0] at hlen; simp at hlen
  have hb : (e.writeField f).2 = (e.writeRepr f).2 := by
    unfold Encoder.writeField; rw [hflush]; rfl
  refine ⟨{ toDecCore := Hpack.afterRepr (e.writeRepr f).2 d2, saveBuf := [] }, ?_,
    by show (Hpack.afterRepr (e.writeRepr f).2 d2).dyn = d.dyn; rw [afterRepr_dyn]; exact hdyn,
    sensitive_encoder_table_unchanged e f hsens⟩
  rw [write_eq d _ hne, hsave, List.nil_append, hb, loopG_step true _ d2 _ [] (some f) [] hp hlen, loopG_nil]
  simp [finishWrite, optToList]

/-! ### Histories: where table entries come from -/

def pairOf (f : Field) : Entry := (f.name, f.value)

/-- The (name, value) pairs of the fields written with `Sensitive = false`. -/
def nsPairs (fs : List Field) : List Entry := (fs.filter (fun f => !f.sensitive)).map pairOf

theorem mem_nsPairs (fs : List Field) (f : Field) (hf : f ∈ fs) (hs : f.sensitive = false) : pairOf f ∈ nsPairs fs := by
  unfold nsPairs
  exact List.mem_map.mpr ⟨f, List.mem_filter.mpr ⟨hf, by simp [hs]⟩, rfl⟩

theorem nsPairs_append (a b : List Field) : nsPairs (a ++ b) = nsPairs a ++ nsPairs b := by
  simp [nsPairs]

theorem flushUpdate_dyn (e : Encoder) : e.flushUpdate.1.dyn = e.dyn := by
  unfold Encoder.flushUpdate; split <;> rfl

theorem writeRepr_ents (e : Encoder) (f : Field) :
    ∀ x ∈ (e.writeRepr f).1.dyn.ents, x ∈ e.dyn.ents ∨ (f.sensitive = false ∧ x = pairOf f) := by
  intro x hx
  unfold Encoder.writeRepr at hx
  simp only at hx
  split at hx
  · left; exact hx
  · by_cases hi : e.shouldIndex f = true
    · simp only [hi, ↓reduceIte] at hx
      have hsub : (e.dyn.add (f.name, f.value)).ents <+: (f.name, f.value) :: e.dyn.ents := evict_ents_prefix _
      rcases List.mem_cons.mp (hsub.subset hx) with h1 | h1
      · right
        refine ⟨?_, h1⟩
        unfold Encoder.shouldIndex at hi
        simp only [Bool.and_eq_true, Bool.not_eq_true'] at hi
        exact hi.1
      · left; exact h1
    · simp only [hi, Bool.false_eq_true, ↓reduceIte] at hx
      left; exact hx

theorem writeField_ents (e : Encoder) (f : Field) :
    ∀ x ∈ (e.writeField f).1.dyn.ents, x ∈ e.dyn.ents ∨ (f.sensitive = false ∧ x = pairOf f) := by
  intro x hx
  have := writeRepr_ents e.flushUpdate.1 f x hx
  rw [flushUpdate_dyn] at this
  exact this

theorem writeFields_ents : ∀ (fs : List Field) (e : Encoder),
    ∀ x ∈ (e.writeFields fs).1.dyn.ents, x ∈ e.dyn.ents ∨ x ∈ nsPairs fs := by
  intro fs
  induction fs with
  | nil => intro e x hx; left; exact hx
  | cons f fs ih =>
    intro e x hx
    rcases ih (e.writeField f).1 x hx with h1 | h1
    · rcases writeField_ents e f x h1 with h2 | ⟨h2, h3⟩
      · left; exact h2
      · right; rw [h3]; exact mem_nsPairs _ f (by simp) h2
    · right
      have : nsPairs (f :: fs) = nsPairs [f] ++ nsPairs fs := nsPairs_append [f] fs
      rw [this]
      exact List.mem_append_right _ h1

theorem sizeOp_ents (e : Encoder) (op : SizeOp) : ∀ x ∈ (e.sizeOp op).dyn.ents, x ∈ e.dyn.ents := by
  intro x hx
  cases op with
  | setMax v => exact (setMaxSize_ents_prefix _ _).subset hx
  | setLimit v =>
    simp only [Encoder.sizeOp, Encoder.setMaxDynamicTableSizeLimit] at hx
    split at hx
    · exact (setMaxSize_ents_prefix _ _).subset hx
    · exact hx

theorem sizeOps_ents : ∀ (ops : List SizeOp) (e : Encoder), ∀ x ∈ (ops.foldl Encoder.sizeOp e).dyn.ents, x ∈ e.dyn.ents := by
  intro ops
  induction ops with
  | nil => intro e x hx; exact hx
  | cons op ops ih => intro e x hx; exact sizeOp_ents e op x (ih _ x hx)

/-- The encoder side of a history (`(Sys.block s b).1.enc` is `(s.enc.encodeBlock b).1` by definition). -/
def encodeHistory : Encoder → List Block → Encoder
  | e, [] => e
  | e, b :: bs => encodeHistory (e.encodeBlock b).1 bs

def allFields (h : List Block) : List Field := h.flatMap (·.fields)

/-- **Every entry of the encoder's dynamic table comes from a field written with
`Sensitive = false`** — after any history of blocks and table size calls (no hypotheses). -/
theorem encoder_table_provenance : ∀ (h : List Block) (e : Encoder),
    ∀ x ∈ (encodeHistory e h).dyn.ents, x ∈ e.dyn.ents ∨ x ∈ nsPairs (allFields h) := by
  intro h
  induction h with
  | nil => intro e x hx; left; exact hx
  | cons b bs ih =>
    intro e x hx
    have hall : nsPairs (allFields (b :: bs)) = nsPairs b.fields ++ nsPairs (allFields bs) := by
      unfold allFields; rw [List.flatMap_cons, nsPairs_append]
    rw [hall]
    rcases ih _ x hx with h1 | h1
    · rcases writeFields_ents b.fields _ x h1 with h2 | h2
      · left; exact sizeOps_ents b.pre e x h2
      · right; exact List.mem_append_left _ h2
    · right; exact List.mem_append_right _ h1

theorem at_mem (d : DecCore) (i : Nat) (x : Entry) (h : d.at i = some x) : x ∈ staticTable ∨ x ∈ d.dyn.ents := by
  unfold DecCore.at at h
  split at h
  · cases h
  · split at h
    · left; exact List.mem_of_getElem? h
    · split at h
      · cases h
      · right; exact List.mem_of_getElem? h

/-- **No later reference to a sensitive value**: after any history, if the encoder represents a
field `g` by an *indexed* representation, then `g` itself is not sensitive and the entry it refers to
is a static entry or the pair of an earlier field written with `Sensitive = false`. A (name, value)
that was only ever written as sensitive is in no table and can never be referenced. -/
theorem no_later_reference (h : List Block) (g : Field)
    (hm : ((encodeHistory Encoder.new h).searchTable g).2 = true) :
    g.sensitive = false ∧ (pairOf g ∈ staticTable ∨ pairOf g ∈ nsPairs (allFields h)) := by
  let e := encodeHistory Encoder.new h
  have hspec := (searchTable_spec e { dyn := e.dyn } g (List.prefix_refl _)).1 hm
  refine ⟨hspec.1, ?_⟩
  rcases at_mem _ _ _ hspec.2.2 with h1 | h1
  · left; exact h1
  · right
    rcases encoder_table_provenance h Encoder.new _ h1 with h2 | h2
    · exact absurd h2 (by simp [Encoder.new, DynTable.setMaxSize, DynTable.evict, evictLoop])
    · exact h2

/-- A pair written only as sensitive never enters the encoder's table. -/
theorem sensitive_only_never_stored (h : List Block) (x : Entry)
    (honly : ∀ f ∈ allFields h, pairOf f = x → f.sensitive = true) :
    x ∉ (encodeHistory Encoder.new h).dyn.ents := by
  intro hx
  rcases encoder_table_provenance h Encoder.new x hx with h2 | h2
  · exact absurd h2 (by simp [Encoder.new, DynTable.setMaxSize, DynTable.evict, evictLoop])
  · unfold nsPairs at h2
    obtain ⟨f, hf, hpf⟩ := List.mem_map.mp h2
    obtain ⟨hmem, hns⟩ := List.mem_filter.mp hf
    have := honly f hmem hpf
    simp [this] at hns

/-! ### Non-vacuity -/

def secret : Field := { name := [97], value := [98], sensitive := true }

example : ((Encoder.new.writeField secret).2) = [16, 1, 97, 1, 98] := by decide +kernel
example : (Encoder.new.writeField secret).1.dyn = Encoder.new.dyn := sensitive_encoder_table_unchanged _ _ rfl
/-- After writing `a: b` non-sensitively, the sensitive copy is still a never-indexed literal
(name taken from the table entry 62, value literal) and the table does not change. -/
example : ((Encoder.new.writeField { name := [97], value := [98] }).1.writeField secret).2 = [31, 47, 1, 98] := by
  decide +kernel

end NetVerif.Proofs.C05
