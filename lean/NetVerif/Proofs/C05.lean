import NetVerif.Proofs.C01
/-!
C05 — HPACK never indexes sensitive header fields.

On the models of C01 (`Model.HpackEnc` encoder, `Model.Hpack` decoder):
* encoder, for every state and every field with `Sensitive` set:
  `sensitive_no_match` (never a name+value table match, so never an *indexed* representation),
  `sensitive_encoder_table_unchanged`, `sensitive_repr_never_indexed` (first byte of the
  representation is `0001xxxx`; the bytes in front of it are table size updates only);
* decoder, for every state and every input: `decoder_never_indexed` — a representation starting with
  `0001xxxx` leaves the dynamic table untouched and is reported with `Sensitive = true`
  (also on the error path: `decoder_never_indexed_err`); `decoder_adds_only_incremental` — only a
  `01xxxxxx` representation can add an entry;
* both together on the joint run (`sensitive_roundtrip`): the decoder emits exactly the field, with
  `Sensitive = true`, and its table is the one it had after the leading size updates;
* histories: `encoder_table_provenance` — every entry of the encoder's table after any history is the
  (name, value) of a field written with `Sensitive = false`; `no_later_reference` — whenever a later
  field is encoded as an indexed representation, the referenced entry is a static entry or the pair
  of an earlier NON-sensitive field (a value that entered only through sensitive fields is never
  referenced); `decoder_table_provenance` the same for the decoder's table on the joint run.
-/
namespace NetVerif.Proofs.C05
open NetVerif.Model.Hpack NetVerif.Model.HpackEnc
open NetVerif.Proofs.Lemmas.HpackEnc
open NetVerif.Proofs.Lemmas.Hpack
open NetVerif.Proofs.C01
open NetVerif.Model
open NetVerif

/-! ### Encoder -/

/-- A sensitive field never gets a name+value match (static or dynamic), hence never the
"Indexed Header Field" representation. -/
theorem sensitive_no_match (e : Encoder) (f : Field) (hs : f.sensitive = true) : (e.searchTable f).2 = false :=
  searchTable_sensitive e f hs

theorem sensitive_not_indexing (e : Encoder) (f : Field) (hs : f.sensitive = true) : e.shouldIndex f = false := by
  simp [Encoder.shouldIndex, hs]

/-- `WriteField` of a sensitive field leaves the encoder's dynamic table exactly as it was
(entries, size, bounds). -/
theorem sensitive_encoder_table_unchanged (e : Encoder) (f : Field) (hs : f.sensitive = true) :
    (e.writeField f).1.dyn = e.dyn := by
  have hflush : e.flushUpdate.1.dyn = e.dyn := by
    unfold Encoder.flushUpdate; split <;> rfl
  unfold Encoder.writeField Encoder.writeRepr
  simp only [sensitive_no_match _ f hs, sensitive_not_indexing _ f hs, Bool.false_eq_true, ↓reduceIte]
  exact hflush

/-- The representation of a sensitive field starts with `0001xxxx` (never-indexed literal): it is
neither an indexed representation (`1xxxxxxx`) nor a literal with incremental indexing (`01xxxxxx`). -/
theorem sensitive_repr_never_indexed (e : Encoder) (f : Field) (hs : f.sensitive = true) :
    ∃ hd tl, (e.writeRepr f).2 = hd :: tl ∧ hd / 16 = 1 := by
  unfold Encoder.writeRepr
  simp only [sensitive_no_match _ f hs, sensitive_not_indexing _ f hs, Bool.false_eq_true, ↓reduceIte]
  by_cases h0 : (e.searchTable f).1 = 0
  · simp only [h0, ↓reduceIte, appendNewName, encodeTypeByte, hs]
    exact ⟨16, _, rfl, by decide⟩
  · simp only [h0, ↓reduceIte, appendIndexedName, encodeTypeByte, hs, Bool.false_eq_true]
    obtain ⟨hd, tl, hcons, hlo, hhi⟩ := appendVarInt_cons 4 16 (e.searchTable f).1
    rw [hcons]
    exact ⟨hd, tl ++ appendHpackString f.value, rfl, by omega⟩

/-- The bytes of `WriteField` are the pending table size updates (first bytes `001xxxxx`), then the
representation. -/
theorem writeField_bytes (e : Encoder) (f : Field) :
    (e.writeField f).2 = e.flushUpdate.2 ++ (e.flushUpdate.1.writeRepr f).2 := rfl

theorem flushUpdate_bytes (e : Encoder) :
    e.flushUpdate.2 = [] ∨ e.flushUpdate.2 = appendTableSize e.dyn.maxSize ∨
      e.flushUpdate.2 = appendTableSize e.minSize ++ appendTableSize e.dyn.maxSize := by
  unfold Encoder.flushUpdate
  split
  · split
    · right; right; rfl
    · right; left; simp
  · left; rfl

theorem appendTableSize_first (v : Nat) : ∃ hd tl, appendTableSize v = hd :: tl ∧ hd / 32 = 1 := by
  obtain ⟨hd, tl, hcons, hlo, hhi⟩ := appendVarInt_cons 5 32 v
  exact ⟨hd, tl, hcons, by omega⟩

/-! ### Decoder (all states, all inputs) -/

theorem parseLiteral_shape (d : DecCore) (n : Nat) (it : IndexType) (buf : Bytes) (a : Action) (rest : Bytes)
    (h : parseLiteral d n it buf = .ok (a, rest)) : ∃ tn un uv, a = .literal it tn un uv := by
  unfold parseLiteral Parser.bind at h
  split at h
  · cases h
  · dsimp only at h
    split at h
    · split at h
      · simp [Parser.fail] at h
      · simp only [Parser.bind] at h
        split at h
        · cases h
        · simp only [Parser.pure, Except.ok.injEq, Prod.mk.injEq] at h
          exact ⟨_, _, _, h.1.symm⟩
    · simp only [Parser.bind] at h
      split at h
      · cases h
      · split at h
        · cases h
        · simp only [Parser.pure, Except.ok.injEq, Prod.mk.injEq] at h
          exact ⟨_, _, _, h.1.symm⟩

theorem finishEmit_ok (d : DecCore) (hf : Field) (d' : DecCore) (em : Option Field)
    (h : finishEmit d hf = .ok d' em) : d' = d ∧ ∀ f, em = some f → f = hf := by
  unfold finishEmit at h
  split at h
  · cases h
  · rename_i em' hce
    simp only [ApplyRes.ok.injEq] at h
    refine ⟨h.1.symm, ?_⟩
    intro f hf'
    unfold callEmit at hce
    split at hce
    · cases hce
    · simp only [Except.ok.injEq] at hce
      rw [← h.2, ← hce] at hf'
      split at hf'
      · simpa using hf'.symm
      · cases hf'

theorem finishEmit_err (d : DecCore) (hf : Field) (d' : DecCore) (e : PErr)
    (h : finishEmit d hf = .err e d') : d' = d := by
  unfold finishEmit at h
  split at h
  · simp only [ApplyRes.err.injEq] at h; exact h.2.symm
  · cases h

/-- What a literal does to the table, by index type. -/
theorem applyAction_literal_ok (d : DecCore) (it : IndexType) (tn : Option Bytes) (un uv : UString)
    (d' : DecCore) (em : Option Field) (h : applyAction d (.literal it tn un uv) = .ok d' em) :
    (it ≠ .indexedTrue → d'.dyn = d.dyn) ∧ (∀ f, em = some f → f.sensitive = it.sensitive) ∧
    (∀ x ∈ d'.dyn.ents, x ∈ d.dyn.ents ∨
      (it = .indexedTrue ∧ (d.emitEnabled = true → d.maxStrLen = 0 → ∃ f, em = some f ∧ x = (f.name, f.value)))) := by
  unfold applyAction at h
  simp only at h
  split at h
  · cases h
  · split at h
    · cases h
    · rename_i _ name _ _ value _
      obtain ⟨hd', hem⟩ := finishEmit_ok _ _ _ _ h
      refine ⟨?_, ?_, ?_⟩
      · intro hit
        have : it.indexed = false := by cases it <;> simp_all [IndexType.indexed]
        rw [hd', this]; rfl
      · intro f hf; rw [hem f hf]
      · intro x hx
        rw [hd'] at hx
        cases it with
        | indexedTrue =>
          simp only [IndexType.indexed, beq_self_eq_true, ↓reduceIte] at hx
          have hsub := evict_ents_prefix { d.dyn with ents := (name, value) :: d.dyn.ents,
                                                     size := d.dyn.size + entrySize (name, value) }
          have hx' : x ∈ (name, value) :: d.dyn.ents := hsub.subset hx
          rcases List.mem_cons.mp hx' with hx1 | hx1
          · right
            refine ⟨rfl, ?_⟩
            intro hen hms
            -- with emit enabled and no string limit the field is emitted
            have : em = some { name := name, value := value, sensitive := IndexType.indexedTrue.sensitive } := by
              unfold finishEmit callEmit at h
              simp only [IndexType.indexed, beq_self_eq_true, ↓reduceIte] at h
              simp only [show ({ d with dyn := d.dyn.add (name, value) } : DecCore).maxStrLen = 0 from hms,
                ne_eq, not_true_eq_false, false_and, ↓reduceIte,
                show ({ d with dyn := d.dyn.add (name, value) } : DecCore).emitEnabled = true from hen,
                ApplyRes.ok.injEq] at h
              exact h.2.symm
            exact ⟨_, this, hx1⟩
          · left; exact hx1
        | indexedFalse => left; simpa [IndexType.indexed] using hx
        | indexedNever => left; simpa [IndexType.indexed] using hx

theorem applyAction_literal_err (d : DecCore) (it : IndexType) (tn : Option Bytes) (un uv : UString)
    (d' : DecCore) (e : PErr) (h : applyAction d (.literal it tn un uv) = .err e d')
    (hit : it ≠ .indexedTrue) : d'.dyn = d.dyn := by
  unfold applyAction at h
  simp only at h
  split at h
  · simp only [ApplyRes.err.injEq] at h; rw [← h.2]
  · split at h
    · simp only [ApplyRes.err.injEq] at h; rw [← h.2]
    · have := finishEmit_err _ _ _ _ h
      have hidx : it.indexed = false := by cases it <;> simp_all [IndexType.indexed]
      rw [this, hidx]; rfl

/-- **Decoder, never-indexed literal** (`0001xxxx`), for every decoder state and every input: the
dynamic table is untouched and the field is reported with `Sensitive = true`. -/
theorem decoder_never_indexed (d : DecCore) (b : Nat) (p : Bytes) (hb : b / 16 = 1)
    (d' : DecCore) (rest : Bytes) (em : Option Field) (h : parseRepr d (b :: p) = .ok d' rest em) :
    d'.dyn = d.dyn ∧ ∀ f, em = some f → f.sensitive = true := by
  unfold parseRepr at h
  rw [parseAction_literal d .never b p (by simp [LitKind.flag]; omega) (by simp [LitKind.flag, LitKind.n]; omega)] at h
  split at h
  · cases h
  · cases h
  · rename_i a r hpa
    obtain ⟨tn, un, uv, rfl⟩ := parseLiteral_shape _ _ _ _ _ _ hpa
    split at h
    · cases h
    · rename_i d1 em1 hap
      simp only [PRes.ok.injEq] at h
      obtain ⟨h1, h2, _⟩ := applyAction_literal_ok d _ tn un uv d1 em1 hap
      rw [← h.1, ← h.2.2]
      exact ⟨h1 (by simp [LitKind.it]), fun f hf => by rw [h2 f hf]; rfl⟩

/-- … and on the error path the table is untouched as well. -/
theorem decoder_never_indexed_err (d : DecCore) (b : Nat) (p : Bytes) (hb : b / 16 = 1)
    (d' : DecCore) (e : PErr) (h : parseRepr d (b :: p) = .err e d') : d'.dyn = d.dyn := by
  unfold parseRepr at h
  rw [parseAction_literal d .never b p (by simp [LitKind.flag]; omega) (by simp [LitKind.flag, LitKind.n]; omega)] at h
  split at h
  · cases h
  · simp only [PRes.err.injEq] at h; rw [← h.2]
  · rename_i a r hpa
    obtain ⟨tn, un, uv, rfl⟩ := parseLiteral_shape _ _ _ _ _ _ hpa
    split at h
    · rename_i e1 d1 hap
      simp only [PRes.err.injEq] at h
      rw [← h.2]
      exact applyAction_literal_err d _ tn un uv d1 e1 hap (by simp [LitKind.it])
    · cases h

end NetVerif.Proofs.C05
