import NetVerif.Proofs.C05
import NetVerif.Proofs.C02
/-!
C05, continued — where the entries of the DECODER's dynamic table come from, over whole histories.

* arbitrary bytes, default configuration (emit enabled, no string limit): `decoder_table_provenance_bytes`
  — after any history of `Write`/`Close` calls on any byte chunks, every table entry is an entry the
  table had before or the (name, value) of a field the decoder emitted with `Sensitive = false`
  (lifted from `parseRepr_ents_ok` through the Write loop, `Write`, `runChunks`, `runWrites`);
* arbitrary bytes, ANY configuration: `decoder_only_incremental_adds` — if none of the
  representations parsed during a Write history starts with `01xxxxxx`, no entry enters the table
  (`decoder_adds_only_incremental` lifted over the loop, saveBuf resumption and chunk sequences);
* joint run with the encoder (C01's `Sim`/`roundtrip_history`): `decoder_table_provenance` — every
  entry of the decoder's table after any history of blocks is the pair of a field written with
  `Sensitive = false`; `decoder_never_resolves_sensitive` — whatever index the decoder resolves
  afterwards is a static entry or such a pair: a value that entered only through sensitive fields
  can never be referenced.
-/
namespace NetVerif.Proofs.C05
open NetVerif.Model.Hpack NetVerif.Model.HpackEnc
open NetVerif.Proofs.Lemmas.HpackEnc
open NetVerif.Proofs.Lemmas.Hpack
open NetVerif.Proofs.C01
open NetVerif.Model
open NetVerif

/-! ### One representation -/

theorem cfg_of_shape (d d' : DecCore) (dyn' : DynTable) (hc : DecCfg d) (h : d' = { d with dyn := dyn' }) : DecCfg d' := by
  subst h; exact ⟨hc.str, hc.emit⟩

theorem parseRepr_ents_ok (d : DecCore) (hc : DecCfg d) (buf : Bytes) (d' : DecCore) (rest : Bytes)
    (em : Option Field) (h : parseRepr d buf = .ok d' rest em) :
    DecCfg d' ∧ ∀ x ∈ d'.dyn.ents, x ∈ d.dyn.ents ∨ ∃ f, em = some f ∧ f.sensitive = false ∧ x = pairOf f := by
  obtain ⟨a, _, ha⟩ := Proofs.C02.parseRepr_ok_inv d buf d' rest em h
  obtain ⟨dyn', hshape, _⟩ := Proofs.C02.applyAction_shape d a
  rw [ha] at hshape
  simp only [Proofs.C02.resCore] at hshape
  refine ⟨cfg_of_shape d d' dyn' hc hshape, ?_⟩
  cases a with
  | indexed e =>
    simp only [applyAction] at ha
    rw [(finishEmit_ok _ _ _ _ ha).1]
    exact fun x hx => Or.inl hx
  | sizeUpdate s =>
    simp only [applyAction, ApplyRes.ok.injEq] at ha
    rw [← ha.1]
    exact fun x hx => Or.inl ((setMaxSize_ents_prefix _ _).subset hx)
  | literal it tn un uv =>
    obtain ⟨_, hsens, hents⟩ := applyAction_literal_ok d it tn un uv d' em ha
    intro x hx
    rcases hents x hx with h1 | ⟨hit, hex⟩
    · exact Or.inl h1
    · obtain ⟨f, hf, hxf⟩ := hex hc.emit hc.str
      refine Or.inr ⟨f, hf, ?_, hxf⟩
      rw [hsens f hf, hit]; rfl

theorem applyAction_err_cfg (d : DecCore) (hc : DecCfg d) (a : Action) (e : PErr) (d' : DecCore)
    (h : applyAction d a = .err e d') : d' = d := by
  cases a with
  | indexed en => simp only [applyAction] at h; exact finishEmit_err _ _ _ _ h
  | sizeUpdate s => simp [applyAction] at h
  | literal it tn un uv =>
    unfold applyAction at h
    simp only at h
    split at h
    · simp only [ApplyRes.err.injEq] at h; exact h.2.symm
    · split at h
      · simp only [ApplyRes.err.injEq] at h; exact h.2.symm
      · exfalso
        have key : ∀ (dd : DecCore) (hf : Field), dd.maxStrLen = 0 → ∀ e d', finishEmit dd hf ≠ .err e d' := by
          intro dd hf h0 e d' hcon
          unfold finishEmit callEmit at hcon
          rw [if_neg (by simp [h0])] at hcon
          simp at hcon
        refine key _ _ ?_ _ _ h
        split <;> exact hc.str

theorem parseRepr_ents_err (d : DecCore) (hc : DecCfg d) (buf : Bytes) (d' : DecCore) (e : PErr)
    (h : parseRepr d buf = .err e d') : d' = d := by
  rcases Proofs.C02.parseRepr_err_inv d buf d' e h with h1 | ⟨a, rest, _, ha⟩
  · exact h1
  · exact applyAction_err_cfg d hc a e d' ha

theorem cfg_afterRepr (buf : Bytes) (d : DecCore) (hc : DecCfg d) : DecCfg (afterRepr buf d) :=
  ⟨by rw [afterRepr_maxStrLen]; exact hc.str, by rw [afterRepr_emitEnabled]; exact hc.emit⟩

/-- New entries of `t'` w.r.t. `t` are pairs of non-sensitive fields in `em`. -/
def Prov (t t' : DynTable) (em : List Field) : Prop :=
  ∀ x ∈ t'.ents, x ∈ t.ents ∨ ∃ f ∈ em, f.sensitive = false ∧ x = pairOf f

theorem Prov.refl (t : DynTable) (em : List Field) : Prov t t em := fun _ hx => Or.inl hx

theorem Prov.trans {t1 t2 t3 : DynTable} {em1 em2 : List Field} (h12 : Prov t1 t2 em1) (h23 : Prov t2 t3 em2) :
    Prov t1 t3 (em1 ++ em2) := by
  intro x hx
  rcases h23 x hx with h | ⟨f, hf, hs, hp⟩
  · rcases h12 x h with h' | ⟨f, hf, hs, hp⟩
    · exact Or.inl h'
    · exact Or.inr ⟨f, List.mem_append_left _ hf, hs, hp⟩
  · exact Or.inr ⟨f, List.mem_append_right _ hf, hs, hp⟩

theorem Prov.mono {t t' : DynTable} {em em' : List Field} (h : Prov t t' em) (hsub : ∀ f ∈ em, f ∈ em') :
    Prov t t' em' := by
  intro x hx
  rcases h x hx with h1 | ⟨f, hf, hs, hp⟩
  · exact Or.inl h1
  · exact Or.inr ⟨f, hsub f hf, hs, hp⟩

/-! ### The Write loop, `Write`, chunk sequences, blocks (arbitrary bytes, default configuration) -/

theorem loopG_prov (par : Bool) : ∀ (n : Nat) (buf : Bytes) (d : DecCore) (acc : List Field), buf.length ≤ n →
    DecCfg d → DecCfg (loopG par d buf acc).1 ∧ Prov d.dyn (loopG par d buf acc).1.dyn (loopG par d buf acc).2.1 := by
  intro n
  induction n with
  | zero =>
    intro buf d acc hl hc
    have : buf = [] := List.eq_nil_of_length_eq_zero (by omega)
    subst this
    rw [loopG_nil]
    exact ⟨hc, Prov.refl _ _⟩
  | succ n ih =>
    intro buf d acc hl hc
    rw [loopG_eq]
    by_cases hnil : buf = []
    · simp only [hnil, ↓reduceIte]; exact ⟨hc, Prov.refl _ _⟩
    · simp only [hnil, ↓reduceIte]
      cases hpr : parseRepr d buf with
      | needMore => simp only; split <;> exact ⟨hc, Prov.refl _ _⟩
      | err e d' =>
        simp only
        rw [parseRepr_ents_err d hc buf d' e hpr]
        exact ⟨cfg_afterRepr _ _ hc, by rw [afterRepr_dyn]; exact Prov.refl _ _⟩
      | ok d' rest em =>
        simp only
        obtain ⟨hc', hp'⟩ := parseRepr_ents_ok d hc buf d' rest em hpr
        by_cases hlt : rest.length < buf.length
        · simp only [hlt, ↓reduceIte]
          obtain ⟨hc2, hp2⟩ := ih rest (afterRepr buf d') (acc ++ optToList em) (by omega) (cfg_afterRepr _ _ hc')
          refine ⟨hc2, ?_⟩
          rw [afterRepr_dyn] at hp2
          have hsub : ∀ f ∈ optToList em, f ∈ (loopG par (afterRepr buf d') rest (acc ++ optToList em)).2.1 := by
            intro f hf
            rw [loopG_emits par rest.length rest _ (acc ++ optToList em) (Nat.le_refl _)]
            exact List.mem_append_left _ (List.mem_append_right _ hf)
          intro x hx
          rcases hp2 x hx with h1 | h1
          · rcases hp' x h1 with h2 | ⟨f, hf, hs, hp⟩
            · exact Or.inl h2
            · exact Or.inr ⟨f, hsub f (by rw [hf]; simp [optToList]), hs, hp⟩
          · exact Or.inr h1
        · simp only [hlt, ↓reduceIte]
          refine ⟨hc', ?_⟩
          intro x hx
          rcases hp' x hx with h2 | ⟨f, hf, _, _⟩
          · exact Or.inl h2
          · -- a successful representation always consumes input (`Proofs.C02.parseRepr_consumes`)
            exact absurd (Proofs.C02.parseRepr_consumes d buf d' rest em hpr) hlt

/-- `Decoder.Write` on arbitrary bytes. -/
theorem write_prov (par : Bool) (d : Decoder) (p : Bytes) (hc : DecCfg d.toDecCore) :
    DecCfg (d.writeG par p).1.toDecCore ∧ Prov d.dyn (d.writeG par p).1.dyn (d.writeG par p).2.1 := by
  by_cases hp : p = []
  · simp only [Decoder.writeG, hp, ↓reduceIte]; exact ⟨hc, Prov.refl _ _⟩
  · rw [Proofs.C02.writeG_eq par d p hp]
    have := loopG_prov par _ (d.saveBuf ++ p) d.toDecCore [] (Nat.le_refl _) hc
    show DecCfg (finishWrite (loopG par d.toDecCore (d.saveBuf ++ p) [])).1.toDecCore ∧
      Prov d.dyn (finishWrite (loopG par d.toDecCore (d.saveBuf ++ p) [])).1.toDecCore.dyn
        (finishWrite (loopG par d.toDecCore (d.saveBuf ++ p) [])).2.1
    rw [Proofs.C02.finishWrite_core, Proofs.C02.finishWrite_em]
    exact this

theorem runChunks_prov (par : Bool) : ∀ (cs : List Bytes) (d : Decoder), DecCfg d.toDecCore →
    DecCfg (runChunks par d cs).1.toDecCore ∧ Prov d.dyn (runChunks par d cs).1.dyn (runChunks par d cs).2.1 := by
  intro cs
  induction cs with
  | nil => intro d hc; exact ⟨hc, Prov.refl _ _⟩
  | cons c cs ih =>
    intro d hc
    obtain ⟨hc1, hp1⟩ := write_prov par d c hc
    simp only [runChunks]
    cases hw : d.writeG par c with
    | mk d1 r =>
      obtain ⟨em1, e⟩ := r
      rw [hw] at hc1 hp1
      cases e with
      | some e => exact ⟨hc1, hp1⟩
      | none =>
        simp only
        obtain ⟨hc2, hp2⟩ := ih d1 hc1
        cases hr : runChunks par d1 cs with
        | mk d2 r2 =>
          obtain ⟨em2, e2⟩ := r2
          rw [hr] at hc2 hp2
          exact ⟨hc2, Prov.trans hp1 hp2⟩

/-- One block of arbitrary chunks followed by `Close`. -/
theorem runWrites_prov (d : Decoder) (cs : List Bytes) (hc : DecCfg d.toDecCore) :
    DecCfg (runWrites d cs).1.toDecCore ∧ Prov d.dyn (runWrites d cs).1.dyn (runWrites d cs).2.1 := by
  obtain ⟨hc1, hp1⟩ := runChunks_prov true cs d hc
  unfold runWrites runWritesG
  cases hr : runChunks true d cs with
  | mk d1 r =>
    obtain ⟨em, e⟩ := r
    rw [hr] at hc1 hp1
    cases e with
    | some e => exact ⟨hc1, hp1⟩
    | none =>
      simp only [Decoder.close]
      split
      · exact ⟨⟨hc1.str, hc1.emit⟩, hp1⟩
      · exact ⟨⟨hc1.str, hc1.emit⟩, hp1⟩

/-- A history of blocks, each an arbitrary list of byte chunks: final decoder, all emitted fields. -/
def decodeBlocks : Decoder → List (List Bytes) → Decoder × List Field
  | d, [] => (d, [])
  | d, cs :: rest => ((decodeBlocks (runWrites d cs).1 rest).1, (runWrites d cs).2.1 ++ (decodeBlocks (runWrites d cs).1 rest).2)

/-- **Decoder, arbitrary byte streams** (default configuration): after any history of blocks of
arbitrary bytes — including blocks that end in an error — every entry of the dynamic table is an
entry it had before or the (name, value) of a field the decoder emitted with `Sensitive = false`.
A field emitted as sensitive never leaves a trace in the table. -/
theorem decoder_table_provenance_bytes : ∀ (blocks : List (List Bytes)) (d : Decoder), DecCfg d.toDecCore →
    ∀ x ∈ (decodeBlocks d blocks).1.dyn.ents, x ∈ d.dyn.ents ∨ x ∈ nsPairs (decodeBlocks d blocks).2 := by
  intro blocks
  induction blocks with
  | nil => intro d _ x hx; exact Or.inl hx
  | cons cs rest ih =>
    intro d hc x hx
    obtain ⟨hc1, hp1⟩ := runWrites_prov d cs hc
    simp only [decodeBlocks] at hx ⊢
    rw [nsPairs_append]
    rcases ih _ hc1 x hx with h1 | h1
    · rcases hp1 x h1 with h2 | ⟨f, hf, hs, hp⟩
      · exact Or.inl h2
      · exact Or.inr (List.mem_append_left _ (by rw [hp]; exact mem_nsPairs _ f hf hs))
    · exact Or.inr (List.mem_append_right _ h1)

/-! ### Arbitrary bytes, any configuration: entries enter only through `01xxxxxx` representations -/

theorem decoder_adds_only_incremental_err (d : DecCore) (b : Nat) (p : Bytes) (d' : DecCore) (e : PErr)
    (h : parseRepr d (b :: p) = .err e d') (hb : ¬ b / 64 = 1) : d'.dyn = d.dyn := by
  rcases Proofs.C02.parseRepr_err_inv d (b :: p) d' e h with h1 | ⟨a, rest, hpa, ha⟩
  · rw [h1]
  · rcases parseAction_kind d b p a rest hpa with ⟨en, rfl⟩ | ⟨sz, rfl⟩ | ⟨it, tn, un, uv, rfl, hit⟩
    · simp only [applyAction] at ha; rw [finishEmit_err _ _ _ _ ha]
    · simp [applyAction] at ha
    · exact applyAction_literal_err d it tn un uv d' e ha (fun hc => hb (hit hc))

/-- First bytes of the representations the Write loop parses to the end (successfully or with an
error) on `buf`, in order. -/
def loopHeads : Nat → DecCore → Bytes → List Nat
  | 0, _, _ => []
  | fuel + 1, d, buf =>
    match buf with
    | [] => []
    | b :: p =>
      match parseRepr d (b :: p) with
      | .needMore => []
      | .err _ _ => [b]
      | .ok d' rest _ =>
        if rest.length < (b :: p).length then b :: loopHeads fuel (afterRepr (b :: p) d') rest else [b]

theorem writeLoop_no_incr (par : Bool) : ∀ (f : Nat) (d : DecCore) (buf : Bytes) (em : List Field),
    (∀ b ∈ loopHeads f d buf, ¬ b / 64 = 1) → ∀ x ∈ (writeLoop par f d buf em).1.dyn.ents, x ∈ d.dyn.ents := by
  intro f
  induction f with
  | zero => intro d buf em _ x hx; exact hx
  | succ f ih =>
    intro d buf em hh x hx
    cases buf with
    | nil => simpa [writeLoop] using hx
    | cons b p =>
      simp only [writeLoop, reduceCtorEq, ↓reduceIte] at hx
      simp only [loopHeads] at hh
      cases hpr : parseRepr d (b :: p) with
      | needMore =>
        rw [hpr] at hx
        simp only at hx
        split at hx <;> exact hx
      | err e d' =>
        rw [hpr] at hx hh
        simp only at hx hh
        rw [afterRepr_dyn, decoder_adds_only_incremental_err d b p d' e hpr (hh b (by simp))] at hx
        exact hx
      | ok d' rest e =>
        rw [hpr] at hx hh
        simp only at hx hh
        have hstep := decoder_adds_only_incremental d b p d' rest e hpr
        by_cases hlt : rest.length < (b :: p).length
        · simp only [hlt, ↓reduceIte] at hx hh
          have h1 := ih (afterRepr (b :: p) d') rest _ (fun b' hb' => hh b' (by simp [hb'])) x hx
          rw [afterRepr_dyn] at h1
          exact hstep (hh b (by simp)) x h1
        · simp only [hlt, ↓reduceIte] at hx hh
          exact hstep (hh b (by simp)) x hx

/-- The representations parsed by one `Write` (saved bytes are parsed again together with `p`). -/
def writeHeads (d : Decoder) (p : Bytes) : List Nat :=
  if p = [] then [] else loopHeads ((d.saveBuf ++ p).length + 1) d.toDecCore (d.saveBuf ++ p)

theorem write_no_incr (d : Decoder) (p : Bytes) (hh : ∀ b ∈ writeHeads d p, ¬ b / 64 = 1) :
    ∀ x ∈ (d.write p).1.dyn.ents, x ∈ d.dyn.ents := by
  unfold writeHeads at hh
  by_cases hp : p = []
  · simp only [Decoder.write, Decoder.writeG, hp, ↓reduceIte]; exact fun x hx => hx
  · simp only [hp, ↓reduceIte] at hh
    intro x hx
    rw [show d.write p = d.writeG true p from rfl, Proofs.C02.writeG_eq true d p hp] at hx
    have hx' : x ∈ (finishWrite (writeLoop true ((d.saveBuf ++ p).length + 1) d.toDecCore (d.saveBuf ++ p) [])).1.toDecCore.dyn.ents := hx
    rw [Proofs.C02.finishWrite_core] at hx'
    exact writeLoop_no_incr true _ _ _ _ hh x hx'

/-- The representations parsed during consecutive `Write`s (stopping at the first error, as `runChunks`). -/
def chunksHeads : Decoder → List Bytes → List Nat
  | _, [] => []
  | d, c :: cs =>
    writeHeads d c ++ (match d.write c with
      | (d1, _, none) => chunksHeads d1 cs
      | (_, _, some _) => [])

theorem runChunks_no_incr : ∀ (cs : List Bytes) (d : Decoder), (∀ b ∈ chunksHeads d cs, ¬ b / 64 = 1) →
    ∀ x ∈ (runChunks true d cs).1.dyn.ents, x ∈ d.dyn.ents := by
  intro cs
  induction cs with
  | nil => intro d _ x hx; exact hx
  | cons c cs ih =>
    intro d hh x hx
    have h1 := write_no_incr d c (fun b hb => hh b (by simp [chunksHeads, hb]))
    simp only [runChunks] at hx
    simp only [chunksHeads] at hh
    have hw : d.writeG true c = d.write c := rfl
    rw [hw] at hx
    cases hwr : d.write c with
    | mk d1 r =>
      obtain ⟨em1, e⟩ := r
      rw [hwr] at hx hh h1
      cases e with
      | some e => exact h1 x hx
      | none =>
        simp only at hx hh
        have h2 := ih d1 (fun b hb => hh b (by simp [hb]))
        cases hr : runChunks true d1 cs with
        | mk d2 r2 =>
          obtain ⟨em2, e2⟩ := r2
          rw [hr] at hx h2
          exact h1 x (h2 x hx)

/-- The representations parsed during a history of blocks (each: chunks, then `Close`). -/
def blocksHeads : Decoder → List (List Bytes) → List Nat
  | _, [] => []
  | d, cs :: rest => chunksHeads d cs ++ blocksHeads (runWrites d cs).1 rest

theorem runWrites_dyn (d : Decoder) (cs : List Bytes) : (runWrites d cs).1.dyn = (runChunks true d cs).1.dyn := by
  unfold runWrites runWritesG
  cases hr : runChunks true d cs with
  | mk d1 r =>
    obtain ⟨em, e⟩ := r
    cases e with
    | some e => rfl
    | none => simp only [Decoder.close]; split <;> rfl

/-- **Decoder, arbitrary byte streams, ANY configuration** (string limit, emit disabled, any table
bounds): over a whole history of `Write`/`Close` calls, if none of the representations the decoder
parses starts with `01xxxxxx` (literal with incremental indexing), no entry enters the dynamic
table — in particular never-indexed (`0001xxxx`), not-indexed and indexed representations and table
size updates can only leave the table as it is or evict. -/
theorem decoder_only_incremental_adds : ∀ (blocks : List (List Bytes)) (d : Decoder),
    (∀ b ∈ blocksHeads d blocks, ¬ b / 64 = 1) →
    ∀ x ∈ (decodeBlocks d blocks).1.dyn.ents, x ∈ d.dyn.ents := by
  intro blocks
  induction blocks with
  | nil => intro d _ x hx; exact hx
  | cons cs rest ih =>
    intro d hh x hx
    simp only [decodeBlocks] at hx
    simp only [blocksHeads] at hh
    have h1 := ih (runWrites d cs).1 (fun b hb => hh b (by simp [hb])) x hx
    rw [runWrites_dyn] at h1
    exact runChunks_no_incr cs d (fun b hb => hh b (by simp [hb])) x h1

/-! ### Joint run with the encoder -/

/-- State after a history (`Sys.run` reports the outputs of the same run). -/
def Sys.final : Sys → List Block → Sys
  | s, [] => s
  | s, b :: bs => Sys.final (s.block b).1 bs

/-- **Every entry of the decoder's table stems from a non-sensitive field of the history**
(hypotheses of C01's `roundtrip_history`). -/
theorem decoder_table_provenance_from (A : Nat) (hA : A ≤ uint32Max) : ∀ (h : List Block) (s : Sys), Between A s →
    HistOK A h → ∀ x ∈ (Sys.final s h).dec.dyn.ents, x ∈ s.dec.dyn.ents ∨ x ∈ nsPairs (allFields h) := by
  intro h
  induction h with
  | nil => intro s _ _ x hx; exact Or.inl hx
  | cons b bs ih =>
    intro s hb hok x hx
    have hblk := block_sim A hA s b hb (hok.1 b (by simp)) (hok.2 b (by simp))
    have hall : nsPairs (allFields (b :: bs)) = nsPairs b.fields ++ nsPairs (allFields bs) := by
      unfold allFields; rw [List.flatMap_cons, nsPairs_append]
    rw [hall]
    rcases ih (s.block b).1 hblk.2 ⟨fun b' hb' => hok.1 b' (by simp [hb']), fun b' hb' => hok.2 b' (by simp [hb'])⟩
      x hx with h1 | h1
    · have hp := (runWrites_prov s.dec (s.enc.encodeBlock b).2 hb.sim.cfg).2
      have hem : (runWrites s.dec (s.enc.encodeBlock b).2).2.1 = b.fields := congrArg Prod.fst hblk.1
      rw [hem] at hp
      rcases hp x h1 with h2 | ⟨f, hf, hs, hpf⟩
      · exact Or.inl h2
      · exact Or.inr (List.mem_append_left _ (by rw [hpf]; exact mem_nsPairs _ f hf hs))
    · exact Or.inr (List.mem_append_right _ h1)

theorem decoder_table_provenance (A : Nat) (h : List Block) (hA0 : initialHeaderTableSize ≤ A)
    (hA : A ≤ uint32Max) (hok : HistOK A h) :
    ∀ x ∈ (Sys.final (Sys.init A) h).dec.dyn.ents, x ∈ nsPairs (allFields h) := by
  intro x hx
  rcases decoder_table_provenance_from A hA h (Sys.init A) (init_between A hA0) hok x hx with h1 | h1
  · exact absurd h1 (by simp [Sys.init, Decoder.new, Decoder.setAllowedMaxDynamicTableSize])
  · exact h1

/-- **The decoder never resolves an index to a value that entered only through sensitive fields**:
after any history, whatever index `i` a later indexed representation (or indexed name) carries, the
entry `Decoder.at i` is a static entry or the pair of a field written with `Sensitive = false`. -/
theorem decoder_never_resolves_sensitive (A : Nat) (h : List Block) (hA0 : initialHeaderTableSize ≤ A)
    (hA : A ≤ uint32Max) (hok : HistOK A h) (i : Nat) (x : Entry)
    (hat : (Sys.final (Sys.init A) h).dec.toDecCore.at i = some x) :
    x ∈ staticTable ∨ x ∈ nsPairs (allFields h) := by
  rcases at_mem _ i x hat with h1 | h1
  · exact Or.inl h1
  · exact Or.inr (decoder_table_provenance A h hA0 hA hok x h1)

/-- … in particular a pair written only as sensitive is not in the decoder's table. -/
theorem sensitive_only_never_in_decoder (A : Nat) (h : List Block) (hA0 : initialHeaderTableSize ≤ A)
    (hA : A ≤ uint32Max) (hok : HistOK A h) (x : Entry)
    (honly : ∀ f ∈ allFields h, pairOf f = x → f.sensitive = true) :
    x ∉ (Sys.final (Sys.init A) h).dec.dyn.ents := by
  intro hx
  have h2 := decoder_table_provenance A h hA0 hA hok x hx
  unfold nsPairs at h2
  obtain ⟨f, hf, hpf⟩ := List.mem_map.mp h2
  obtain ⟨hmem, hns⟩ := List.mem_filter.mp hf
  have := honly f hmem hpf
  simp [this] at hns

/-! ### Non-vacuity -/

/-- A block holding only the sensitive field `a: b`: one representation, first byte `0001 0000`. -/
example : blocksHeads (Sys.init 4096).dec [[(Encoder.new.writeField secret).2]] = [16] := by decide +kernel
example : (decodeBlocks (Sys.init 4096).dec [[(Encoder.new.writeField secret).2]]).2 = [secret] := by decide +kernel
example : (Sys.final (Sys.init 4096) [{ fields := [secret, { name := [97], value := [99] }] }]).dec.dyn.ents = [([97], [99])] := by
  decide +kernel

end NetVerif.Proofs.C05
