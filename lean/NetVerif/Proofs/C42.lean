import NetVerif.Model.Atom
import NetVerif.Proofs.Lemmas.AtomEnc
/-!
C42 — the HTML atom table is an exact dictionary.

`named` are the `Atom` constants of table.go, `table`/`atomText`/`hash0`/`maxAtomLen`/`fnvPrime`
are regenerated from the Go source on every check (Gen/C42.lean), so each `decide +kernel`
below is re-run against the current table.
-/
namespace NetVerif.Proofs.C42
open NetVerif.Gen.C42 NetVerif.Model.Atom NetVerif.Proofs.Lemmas.AtomEnc

/-! ### Fast accessors: the big literal lists as single numbers (see Lemmas/AtomEnc) -/

private theorem atomText_enc : atomTextNat = enc 256 atomText := by decide +kernel
private theorem table_enc : tableNat = enc 4294967296 table := by decide +kernel
private theorem atomText_len : atomText.length = atomTextLen := by decide +kernel
private theorem table_length : table.length = tableLen := by decide +kernel
private theorem atomText_bytes : ∀ b ∈ atomText, b < 256 := by
  have h : atomText.all (fun b => decide (b < 256)) = true := by decide +kernel
  intro b hb
  simpa using List.all_eq_true.mp h b hb
private theorem table_u32 : ∀ b ∈ table, b < 4294967296 := by
  have h : table.all (fun b => decide (b < 4294967296)) = true := by decide +kernel
  intro b hb
  simpa using List.all_eq_true.mp h b hb

private def textFast (a : Nat) : List Nat :=
  if a / 256 + a % 256 > atomTextLen then [] else digits 256 (a % 256) (atomTextNat / 256 ^ (a / 256))
private def atomStrFast (a : Nat) : Option (List Nat) :=
  if a / 256 + a % 256 ≤ atomTextLen then some (digits 256 (a % 256) (atomTextNat / 256 ^ (a / 256))) else none
private def slotFast (h : Nat) : Nat := tableNat / 4294967296 ^ (h &&& (tableLen - 1)) % 4294967296

private theorem text_fast (a : Nat) : text a = textFast a := by
  unfold text textFast
  rw [atomText_len]
  split
  · rfl
  · rw [atomText_enc, slice_eq_digits 256 atomText atomText_bytes _ _ (by rw [atomText_len]; omega)]

private theorem atomStr_fast : atomStr = atomStrFast := by
  funext a
  unfold atomStr sliceText atomStrFast
  rw [atomText_len]
  split
  · rw [atomText_enc, slice_eq_digits 256 atomText atomText_bytes _ _ (by rw [atomText_len]; omega)]
  · rfl

private theorem slot_lt (h : Nat) : h &&& (tableLen - 1) < table.length := by
  rw [table_length]
  have : h &&& (tableLen - 1) ≤ tableLen - 1 := Nat.and_le_right
  have : 0 < tableLen := by decide
  omega

private theorem slot_fast : slot = slotFast := by
  funext h
  unfold slot slotFast
  rw [table_enc, getD_eq 4294967296 table table_u32 _ (slot_lt h)]

private theorem lookup_fast (s : List Nat) : lookup s = lookupWith slotFast atomStrFast s := by
  unfold lookup
  rw [slot_fast, atomStr_fast]

/-! ### Finite obligations over the regenerated table (kernel evaluation) -/

private def namedOk (a : Nat) : Bool :=
  lookupWith slotFast atomStrFast (textFast a) == some a && !(textFast a).isEmpty && a != 0

private theorem named_all : named.all namedOk = true := by decide +kernel

private theorem table_named_all :
    table.all (fun a => a == 0 || (bitsOf named).testBit a) = true := by decide +kernel

private theorem table_range_all :
    table.all (fun a => decide (a / 256 + a % 256 ≤ atomTextLen)) = true := by decide +kernel

/-! ### Property theorems -/

/-- Every named atom is found under its own name, its name is non-empty, and it is not the zero atom. -/
theorem lookup_text_named (a : Nat) (h : a ∈ named) :
    lookup (text a) = some a ∧ text a ≠ [] ∧ a ≠ 0 := by
  have := List.all_eq_true.mp named_all a h
  simp [namedOk, ← text_fast, ← lookup_fast] at this
  exact ⟨this.1.1, this.1.2, this.2⟩

/-- Every non-zero table entry is one of the named constants. -/
theorem table_entry_named (a : Nat) (h : a ∈ table) (h0 : a ≠ 0) : a ∈ named := by
  have := List.all_eq_true.mp table_named_all a h
  simp only [Bool.or_eq_true, beq_iff_eq, h0, false_or] at this
  exact mem_of_testBit_bitsOf named a this

/-- Every table entry addresses a slice inside `atomText` (so `Atom.string()` cannot panic on it). -/
theorem table_entry_in_range (a : Nat) (h : a ∈ table) : a / 256 + a % 256 ≤ atomText.length := by
  have := List.all_eq_true.mp table_range_all a h
  rw [atomText_len]
  simpa using this

private theorem slot_mem (h : Nat) : slot h ∈ table := by
  unfold slot
  rw [List.getD_eq_getElem?_getD, List.getElem?_eq_getElem (slot_lt h), Option.getD_some]
  exact List.getElem_mem (slot_lt h)

private theorem probe_slot (h : Nat) (s : List Nat) :
    probeWith atomStr (slot h) s = some (decide (slot h % 256 = s.length ∧ text (slot h) = s)) := by
  have hr := table_entry_in_range _ (slot_mem h)
  have hr' : ¬ (slot h / 256 + slot h % 256 > atomText.length) := by omega
  unfold probeWith atomStr sliceText text
  rw [if_pos hr, if_neg hr']
  by_cases hl : slot h % 256 = s.length
  · simp only [hl, Option.map_some, true_and, if_true]
    congr 1
    rw [Bool.eq_iff_iff]; simp
  · simp [hl]

/-- `Lookup` never panics (all table entries are in range). -/
theorem lookup_total (s : List Nat) : ∃ a, lookup s = some a := by
  unfold lookup lookupWith
  split
  · exact ⟨0, rfl⟩
  · simp only [probe_slot]
    split
    · simp_all
    · exact ⟨_, rfl⟩
    · split
      · simp_all
      · exact ⟨_, rfl⟩
      · exact ⟨_, rfl⟩

/-- Soundness: a non-zero result is a table entry whose name is exactly the queried string. -/
theorem lookup_sound (s : List Nat) (a : Nat) (h : lookup s = some a) (h0 : a ≠ 0) :
    text a = s ∧ a ∈ table := by
  unfold lookup lookupWith at h
  split at h
  · simp at h; omega
  · simp only [probe_slot] at h
    split at h
    · simp at h
    · rename_i hp
      simp at hp h
      subst h
      exact ⟨hp.2, slot_mem _⟩
    · split at h
      · simp at h
      · rename_i hp
        simp at hp h
        subst h
        exact ⟨hp.2, slot_mem _⟩
      · simp at h; omega

/-- A non-zero result is one of the named constants. -/
theorem lookup_named (s : List Nat) (a : Nat) (h : lookup s = some a) (h0 : a ≠ 0) : a ∈ named :=
  table_entry_named a (lookup_sound s a h h0).2 h0

/-- Every named constant occurs in the table. -/
theorem named_in_table (a : Nat) (h : a ∈ named) : a ∈ table :=
  (lookup_sound _ a (lookup_text_named a h).1 (lookup_text_named a h).2.2).2

/-- Exactness: `Lookup` returns 0 for every byte string that is not the name of a named atom. -/
theorem lookup_non_atom (s : List Nat) (hs : ∀ a ∈ named, text a ≠ s) : lookup s = some 0 := by
  obtain ⟨a, ha⟩ := lookup_total s
  by_cases h0 : a = 0
  · rw [ha, h0]
  · exact absurd (lookup_sound s a ha h0).1 (hs a (lookup_named s a ha h0))

/-- The full dictionary statement: `Lookup s` is the unique named atom called `s`, or 0 if there is none. -/
theorem lookup_iff (s : List Nat) (a : Nat) (ha : a ∈ named) : lookup s = some a ↔ text a = s := by
  constructor
  · intro h
    exact (lookup_sound s a h (lookup_text_named a ha).2.2).1
  · intro h
    rw [← h]
    exact (lookup_text_named a ha).1

/-- Distinct named atoms have distinct names. -/
theorem text_injective (a b : Nat) (ha : a ∈ named) (hb : b ∈ named) (h : text a = text b) : a = b := by
  have h1 := (lookup_text_named a ha).1
  have h2 := (lookup_text_named b hb).1
  rw [h] at h1
  rw [h1] at h2
  exact Option.some.inj h2

/-- `atom.String(s)` always returns the bytes of `s`. -/
theorem stringOf_eq (s : List Nat) : stringOf s = some s := by
  unfold stringOf
  obtain ⟨a, ha⟩ := lookup_total s
  rw [ha]
  by_cases h0 : a = 0
  · simp [h0]
  · simp [h0, (lookup_sound s a ha h0).1]

/-! ### T-tie of the control flow: the current Go source of the hand-modelled functions is the text
the model was written from (see Model/Atom.lean). `match` loops over the INPUT bytes `t`, `Lookup` has the
`len(s) > maxAtomLen` guard and compares `int(a&0xff) == len(s)` without truncation. -/
theorem gen_src_fnv : NetVerif.Gen.C42.srcFnv = NetVerif.Model.Atom.srcFnv := rfl
theorem gen_src_match : NetVerif.Gen.C42.srcMatch = NetVerif.Model.Atom.srcMatch := rfl
theorem gen_src_lookup : NetVerif.Gen.C42.srcLookup = NetVerif.Model.Atom.srcLookup := rfl
theorem gen_src_atom_String : NetVerif.Gen.C42.srcAtomString = NetVerif.Model.Atom.srcAtomString := rfl
theorem gen_src_atom_string : NetVerif.Gen.C42.srcAtomStringUnchecked = NetVerif.Model.Atom.srcAtomStringUnchecked := rfl
theorem gen_src_String : NetVerif.Gen.C42.srcString = NetVerif.Model.Atom.srcString := rfl

/-! ### Non-vacuity -/
example : 369 ≤ named.length := by decide +kernel
example : lookup [100, 105, 118] = some 0x16b03 ∧ 0x16b03 ∈ named := by   -- "div"
  rw [lookup_fast]; decide +kernel
private theorem diw : lookup [100, 105, 119] = some 0 := by rw [lookup_fast]; decide +kernel  -- "diw"
example : ∀ a ∈ named, text a ≠ [100, 105, 119] := by
  intro a ha h
  have := (lookup_iff [100, 105, 119] a ha).mpr h
  have h2 := diw
  rw [h2] at this
  exact (lookup_text_named a ha).2.2 (Option.some.inj this).symm

end NetVerif.Proofs.C42
