import NetVerif.Model.Atom
/-!
C42 — the HTML atom table is an exact dictionary.

`named` are the `Atom` constants of table.go, `table`/`atomText`/`hash0`/`maxAtomLen`/`fnvPrime`
are regenerated from the Go source on every check (Gen/C42.lean), so each `decide +kernel`
below is re-run against the current table.
-/
namespace NetVerif.Proofs.C42
open NetVerif.Gen.C42 NetVerif.Model.Atom

/-! ### Finite obligations over the regenerated table (kernel evaluation) -/

private def namedOk (a : Nat) : Bool := lookup (text a) == some a && !(text a).isEmpty && a != 0

private theorem named_all : named.all namedOk = true := by decide +kernel

private theorem table_named_all : table.all (fun a => a == 0 || named.contains a) = true := by
  decide +kernel

private theorem named_table_all : named.all (fun a => table.contains a) = true := by decide +kernel

private theorem table_range_all :
    table.all (fun a => decide (a / 256 + a % 256 ≤ atomText.length)) = true := by decide +kernel

private theorem table_length : table.length = tableLen := by decide +kernel

/-! ### Property theorems -/

/-- Every named atom is found under its own name, its name is non-empty, and it is not the zero atom. -/
theorem lookup_text_named (a : Nat) (h : a ∈ named) :
    lookup (text a) = some a ∧ text a ≠ [] ∧ a ≠ 0 := by
  have := List.all_eq_true.mp named_all a h
  simp [namedOk] at this
  exact ⟨this.1.1, this.1.2, this.2⟩

/-- Every non-zero table entry is one of the named constants. -/
theorem table_entry_named (a : Nat) (h : a ∈ table) (h0 : a ≠ 0) : a ∈ named := by
  have := List.all_eq_true.mp table_named_all a h
  simpa [h0] using this

/-- Every named constant occurs in the table. -/
theorem named_in_table (a : Nat) (h : a ∈ named) : a ∈ table := by
  have := List.all_eq_true.mp named_table_all a h
  simpa using this

/-- Every table entry addresses a slice inside `atomText` (so `Atom.string()` cannot panic on it). -/
theorem table_entry_in_range (a : Nat) (h : a ∈ table) : a / 256 + a % 256 ≤ atomText.length := by
  have := List.all_eq_true.mp table_range_all a h
  simpa using this

private theorem slot_mem (h : Nat) : slot h ∈ table := by
  unfold slot
  have hlt : h &&& (tableLen - 1) < table.length := by
    rw [table_length]
    have : h &&& (tableLen - 1) ≤ tableLen - 1 := Nat.and_le_right
    have : 0 < tableLen := by decide
    omega
  rw [List.getD_eq_getElem _ _ hlt]
  exact List.getElem_mem hlt

private theorem probe_slot (h : Nat) (s : List Nat) :
    probe (slot h) s = some (decide (slot h % 256 = s.length ∧ text (slot h) = s)) := by
  have hr := table_entry_in_range _ (slot_mem h)
  unfold probe atomStr sliceText text
  by_cases hl : slot h % 256 = s.length
  · simp [hl, hr]
    have : ¬ (atomText.length < slot h / 256 + slot h % 256) := by omega
    simp [hl] at this
    simp [this]
  · simp [hl]

/-- `Lookup` never panics (all table entries are in range). -/
theorem lookup_total (s : List Nat) : ∃ a, lookup s = some a := by
  unfold lookup
  split
  · exact ⟨0, rfl⟩
  · simp only [probe_slot]
    split
    · simp_all
    · exact ⟨_, rfl⟩
    · split
      · simp_all
      · exact ⟨_, rfl⟩
      · exact ⟨_, rfl⟩

/-- Soundness: a non-zero result is a table entry whose name is exactly the queried string. -/
theorem lookup_sound (s : List Nat) (a : Nat) (h : lookup s = some a) (h0 : a ≠ 0) :
    text a = s ∧ a ∈ table := by
  unfold lookup at h
  split at h
  · simp at h; omega
  · simp only [probe_slot] at h
    split at h
    · simp at h
    · rename_i hp
      simp at hp h
      subst h
      exact ⟨hp.2, slot_mem _⟩
    · split at h
      · simp at h
      · rename_i hp
        simp at hp h
        subst h
        exact ⟨hp.2, slot_mem _⟩
      · simp at h; omega

/-- A non-zero result is one of the named constants. -/
theorem lookup_named (s : List Nat) (a : Nat) (h : lookup s = some a) (h0 : a ≠ 0) : a ∈ named :=
  table_entry_named a (lookup_sound s a h h0).2 h0

/-- Exactness: `Lookup` returns 0 for every byte string that is not the name of a named atom. -/
theorem lookup_non_atom (s : List Nat) (hs : ∀ a ∈ named, text a ≠ s) : lookup s = some 0 := by
  obtain ⟨a, ha⟩ := lookup_total s
  by_cases h0 : a = 0
  · rw [ha, h0]
  · exact absurd (lookup_sound s a ha h0).1 (hs a (lookup_named s a ha h0))

/-- The full dictionary statement: `Lookup s` is the unique named atom called `s`, or 0 if there is none. -/
theorem lookup_iff (s : List Nat) (a : Nat) (ha : a ∈ named) : lookup s = some a ↔ text a = s := by
  constructor
  · intro h
    exact (lookup_sound s a h (lookup_text_named a ha).2.2).1
  · intro h
    rw [← h]
    exact (lookup_text_named a ha).1

/-- Distinct named atoms have distinct names. -/
theorem text_injective (a b : Nat) (ha : a ∈ named) (hb : b ∈ named) (h : text a = text b) : a = b := by
  have h1 := (lookup_text_named a ha).1
  have h2 := (lookup_text_named b hb).1
  rw [h] at h1
  rw [h1] at h2
  exact Option.some.inj h2

/-- `atom.String(s)` always returns the bytes of `s`. -/
theorem stringOf_eq (s : List Nat) : stringOf s = some s := by
  unfold stringOf
  obtain ⟨a, ha⟩ := lookup_total s
  rw [ha]
  by_cases h0 : a = 0
  · simp [h0]
  · simp [h0, (lookup_sound s a ha h0).1]

/-! ### Non-vacuity -/
example : 369 ≤ named.length := by decide +kernel
example : lookup [100, 105, 118] = some 0x16b03 ∧ 0x16b03 ∈ named := by decide +kernel  -- "div"
example : lookup [100, 105, 119] = some 0 := by decide +kernel                            -- "diw"
example : ∀ a ∈ named, text a ≠ [100, 105, 119] := by
  intro a ha h
  have := (lookup_iff [100, 105, 119] a ha).mpr h
  have h2 : lookup [100, 105, 119] = some 0 := by decide +kernel
  rw [h2] at this
  exact (lookup_text_named a ha).2.2 (Option.some.inj this).symm

end NetVerif.Proofs.C42
