import NetVerif.Model.PacketNumber
import NetVerif.Gen.C23
/-!
C23 — QUIC packet numbers decode to the number that was sent.

Model: `Model/PacketNumber.lean` (quic/packet_number.go as it is).
The literal statement ("the chosen length ALWAYS leaves pn − A below half the
window", and hence decoding for every receiver with A ≤ L < pn) is false for
gaps `pn − A ≥ 2^31`, because `packetNumberLength` returns 4 in its `default`
branch: `full_false`. Everything else is proved: `holds_partial`.
-/
namespace NetVerif.Proofs.C23
open NetVerif NetVerif.Model.PacketNumber

/-- Arguments in the packet-number space: `A` may be −1 ("nothing acknowledged yet"). -/
def InSpace (A pn : Int) : Prop := -1 ≤ A ∧ A < pn ∧ pn ≤ maxPacketNumber

/-- The property for one triple: window clause and exact decoding. -/
def HoldsAt (A L pn : Int) : Prop :=
  2 * (pn - A) < win (pnLen pn A) ∧
  decodePN L (pn % win (pnLen pn A)) (pnLen pn A) = pn

/-- C23 at full (literal) strength. -/
def FullStatement : Prop :=
  ∀ A L pn : Int, InSpace A pn → A ≤ L → L < pn → HoldsAt A L pn

/-- The region on which the literal statement fails (decidable). -/
def HugeGap (A pn : Int) : Prop := pn - A ≥ 2147483648

instance (A pn : Int) : Decidable (HugeGap A pn) := by unfold HugeGap; infer_instance
instance (A pn : Int) : Decidable (InSpace A pn) := by unfold InSpace; infer_instance
instance (A L pn : Int) : Decidable (HoldsAt A L pn) := by unfold HoldsAt; infer_instance

/-! ### Length selection -/

theorem len_range (pn A : Int) : pnLen pn A = 1 ∨ pnLen pn A = 2 ∨ pnLen pn A = 3 ∨ pnLen pn A = 4 := by
  unfold pnLen; simp only []; repeat' split
  all_goals simp

/-- (a) outside the huge-gap region the chosen window is more than twice the gap. -/
theorem len_window (pn A : Int) (h : ¬ HugeGap A pn) : 2 * (pn - A) < win (pnLen pn A) := by
  unfold HugeGap at h
  unfold pnLen win; simp only []; repeat' split
  all_goals omega

/-- The chosen length is the least one with that property. -/
theorem len_minimal (pn A n : Int) (hn : 1 ≤ n) (hlt : n < pnLen pn A) : win n ≤ 2 * (pn - A) := by
  unfold pnLen at hlt; simp only [] at hlt
  unfold win
  repeat' split at hlt
  all_goals (repeat' split)
  all_goals omega

/-- In the huge-gap region the window clause fails for every such pair (not only the witness). -/
theorem len_window_fails (pn A : Int) (h : HugeGap A pn) : ¬ 2 * (pn - A) < win (pnLen pn A) := by
  unfold HugeGap at h
  unfold pnLen win; simp only []; repeat' split
  all_goals omega

/-! ### Decoding (RFC 9000 A.3) -/

/-- (b) general form: any receiver whose expected number `L+1` is within half a window of `pn`
(`−hwin < pn − (L+1) ≤ hwin`) decodes the truncated number to exactly `pn`. -/
theorem decode_exact (L pn n : Int) (hpn0 : 0 ≤ pn) (hpn : pn ≤ maxPacketNumber)
    (hn : n = 1 ∨ n = 2 ∨ n = 3 ∨ n = 4)
    (hlo : (L + 1) - win n / 2 < pn) (hhi : pn ≤ (L + 1) + win n / 2) :
    decodePN L (pn % win n) n = pn := by
  unfold maxPacketNumber at hpn
  unfold decodePN
  simp only []
  rcases hn with rfl | rfl | rfl | rfl <;> simp [win] at hlo hhi ⊢ <;> (repeat' split) <;> omega

/-- (b) as the property states it: sender used the length chosen for `A`, receiver has `A ≤ L < pn`. -/
theorem decode_sender_receiver (A L pn : Int) (hs : InSpace A pn) (hAL : A ≤ L) (hLpn : L < pn)
    (hg : ¬ HugeGap A pn) :
    decodePN L (pn % win (pnLen pn A)) (pnLen pn A) = pn := by
  obtain ⟨hA, hApn, hmax⟩ := hs
  have hw := len_window pn A hg
  have hr := len_range pn A
  apply decode_exact L pn _ (by omega) hmax hr
  · rcases hr with h | h | h | h <;> rw [h] at hw ⊢ <;> simp [win] at hw ⊢ <;> omega
  · rcases hr with h | h | h | h <;> rw [h] at hw ⊢ <;> simp [win] at hw ⊢ <;> omega

/-- The decoded value always agrees with the truncated number in its low `8n` bits and lies in
the packet-number space whenever the inputs do (sanity of the decoder on arbitrary input). -/
theorem decode_congr (L t n : Int) (hL : -1 ≤ L) (hn : n = 1 ∨ n = 2 ∨ n = 3 ∨ n = 4)
    (ht0 : 0 ≤ t) (ht : t < win n) :
    decodePN L t n % win n = t ∧ 0 ≤ decodePN L t n := by
  unfold decodePN
  simp only []
  rcases hn with rfl | rfl | rfl | rfl <;> simp only [win] at ht ⊢ <;> simp <;> (repeat' split) <;> omega

/-- The decoder never leaves the packet-number space (for a receiver that can still receive a
larger number, `L < 2^62 − 1`): the `candidate < 2^62 − win` guard. -/
theorem decode_in_space (L t n : Int) (hL : -1 ≤ L) (hL2 : L < maxPacketNumber)
    (hn : n = 1 ∨ n = 2 ∨ n = 3 ∨ n = 4) (ht0 : 0 ≤ t) (ht : t < win n) :
    decodePN L t n ≤ maxPacketNumber := by
  unfold maxPacketNumber at *
  unfold decodePN
  simp only []
  rcases hn with rfl | rfl | rfl | rfl <;> simp only [win] at ht ⊢ <;> simp <;> (repeat' split) <;> omega

/-! ### Bytes on the wire -/

theorem append_length (pn A : Int) : ((appendPN pn A).length : Int) = pnLen pn A := by
  unfold appendPN; simp only []
  rcases len_range pn A with h | h | h | h <;> simp [h]

theorem append_value (pn A : Int) :
    beValue (appendPN pn A) = pn % win (pnLen pn A) := by
  unfold appendPN; simp only []
  rcases len_range pn A with h | h | h | h <;> simp [h, beValue, win] <;> omega

theorem append_bytes (pn A : Int) : ∀ b ∈ appendPN pn A, 0 ≤ b ∧ b < 256 := by
  unfold appendPN; simp only []
  rcases len_range pn A with h | h | h | h <;> simp [h] <;> omega

/-- End to end on bytes: what the sender appends, parsed big-endian with its own length, decodes to `pn`. -/
theorem wire_roundtrip (A L pn : Int) (hs : InSpace A pn) (hAL : A ≤ L) (hLpn : L < pn)
    (hg : ¬ HugeGap A pn) :
    decodePN L (beValue (appendPN pn A)) ((appendPN pn A).length : Int) = pn := by
  rw [append_length, append_value pn A]
  exact decode_sender_receiver A L pn hs hAL hLpn hg

/-! ### The property: partial (proved) and full (refuted) -/

/-- C23 outside the huge-gap region. Missing w.r.t. `FullStatement`: gaps `pn − A ≥ 2^31`. -/
theorem holds_partial (A L pn : Int) (hs : InSpace A pn) (hAL : A ≤ L) (hLpn : L < pn)
    (hg : ¬ HugeGap A pn) : HoldsAt A L pn :=
  ⟨len_window pn A hg, decode_sender_receiver A L pn hs hAL hLpn hg⟩

/-- The literal statement is false on the code as it is: `A = L = 2^32`, `pn = 2^32 + 2^31 + 2`
selects 4 bytes, the gap is not below half the window, and the decoder returns `2^31 + 2`. -/
theorem full_false : ¬ FullStatement := by
  intro h
  have := h 4294967296 4294967296 6442450946 (by unfold InSpace maxPacketNumber; omega) (by omega) (by omega)
  revert this
  decide

/-- The DESIGN witness `A = 0, pn = 2^31` violates the window clause (decoding still succeeds there). -/
theorem window_false_witness : ¬ (2 * ((2147483648 : Int) - 0) < win (pnLen 2147483648 0)) := by decide

/-- and the decoder really returns a different number on the `full_false` witness. -/
theorem decode_false_witness :
    decodePN 4294967296 (6442450946 % win (pnLen 6442450946 4294967296)) (pnLen 6442450946 4294967296)
      = 2147483650 := by decide

/-! ### Tie to the source -/

theorem gen_packetNumberLength_eq (pn A : Int) :
    Gen.C23.packetNumberLength pn A = some (pnLen pn A) := by
  unfold Gen.C23.packetNumberLength pnLen
  simp only []; repeat' split
  all_goals rfl

theorem gen_appendPacketNumber_eq (pn A : Int) :
    Gen.C23.appendPacketNumber [] pn A = some (appendPN pn A) := by
  unfold Gen.C23.appendPacketNumber Gen.C23.packetNumberLengthD appendPN
  simp only [gen_packetNumberLength_eq, Option.getD_some]
  repeat' split
  all_goals simp [show ∀ a b : Int, Int.emod a b = a % b from fun _ _ => rfl]

theorem gen_maxPacketNumber_eq : Gen.C23.maxPacketNumber = maxPacketNumber := by decide

/-! ### Non-vacuity -/
example : InSpace (-1) 0 ∧ ¬ HugeGap (-1) 0 := by decide
example : InSpace 0xabe8b3 0xac5c02 ∧ ¬ HugeGap 0xabe8b3 0xac5c02 ∧ pnLen 0xac5c02 0xabe8b3 = 2 := by decide
example : decodePN 0xa82f30ea 0x9b32 2 = 0xa82f9b32 := by decide  -- RFC 9000 A.3 example
example : appendPN 0xac5c02 0xabe8b3 = [0x5c, 0x02] := by decide
example : InSpace 4294967296 6442450946 ∧ HugeGap 4294967296 6442450946 := by decide

end NetVerif.Proofs.C23
