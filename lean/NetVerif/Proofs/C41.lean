import NetVerif.Model.HtmlNode
import NetVerif.Gen.C41
/-!
C41 — node-link well-formedness (html/node.go).

* `Consistent`: parent / first / last / prev / next mutually consistent at every node.
* Each mutator preserves `Consistent` under exactly the precondition the Go
  code checks (it returns `some`, i.e. does not panic) — plus, for
  `InsertBefore`, `oldChild.Parent == n`, which the Go code does NOT check
  (witness `insertBefore_needs_oldChild_parent`).
* Parent-chain and sibling-chain termination (acyclicity) are preserved under the
  extra precondition `c ∉ ancestors(n) ∪ {n}`, which Go does not check either
  (witness `appendChild_self_cyclic`).
* `wfTree` (the decision procedure the V-tie runs on every tree returned by
  Parse/ParseFragment) is sound.
* T-fact: outside node.go nothing in package html writes a link field.
-/
set_option linter.unusedSimpArgs false
namespace NetVerif.Proofs.C41
open NetVerif.Model.HtmlNode

/-! ## Link consistency -/

/-- Prop form of `localOK`. -/
structure LocalP (s : Store) (x : Nat) : Prop where
  first_ok : ∀ c, s.first x = some c → s.parent c = some x ∧ s.prev c = none ∧ s.last x ≠ none
  first_none : s.first x = none → s.last x = none
  last_ok : ∀ c, s.last x = some c → s.parent c = some x ∧ s.next c = none
  next_ok : ∀ d, s.next x = some d → s.prev d = some x ∧ s.parent d = s.parent x ∧ s.parent x ≠ none
  no_next : s.next x = none → ∀ p, s.parent x = some p → s.last p = some x
  prev_ok : ∀ d, s.prev x = some d → s.next d = some x ∧ s.parent d = s.parent x ∧ s.parent x ≠ none
  no_prev : s.prev x = none → ∀ p, s.parent x = some p → s.first p = some x

theorem localOK_iff (s : Store) (x : Nat) : localOK s x = true ↔ LocalP s x := by
  unfold localOK
  constructor
  · intro h
    simp only [Bool.and_eq_true] at h
    obtain ⟨⟨⟨h1, h2⟩, h3⟩, h4⟩ := h
    constructor
    · intro c hc; simp [hc] at h1; grind
    · intro hc; simp [hc] at h1; exact h1
    · intro c hc; simp [hc] at h2; exact h2
    · intro d hd; simp [hd] at h3; grind
    · intro hn p hp; simp [hn, hp] at h3; exact h3
    · intro d hd; simp [hd] at h4; grind
    · intro hn p hp; simp [hn, hp] at h4; exact h4
  · intro ⟨a1, a2, a3, a4, a5, a6, a7⟩
    simp only [Bool.and_eq_true]
    refine ⟨⟨⟨?_, ?_⟩, ?_⟩, ?_⟩
    · split
      · rename_i c hc; have := a1 c hc; simp [this]
      · rename_i hc; simp [a2 hc]
    · split
      · rename_i c hc; have := a3 c hc; simp [this]
      · rfl
    · split
      · rename_i d hd; have := a4 d hd; simp [this]
      · rename_i hd; split
        · rename_i p hp; simp [a5 hd p hp]
        · rfl
    · split
      · rename_i d hd; have := a6 d hd; simp [this]
      · rename_i hd; split
        · rename_i p hp; simp [a7 hd p hp]
        · rfl

/-- Link consistency of a whole store: `parent`, `first/last` and `prev/next`
agree with each other at every node; detached nodes have no siblings. -/
def Consistent (s : Store) : Prop := ∀ x, localOK s x = true

theorem consistent_iff (s : Store) : Consistent s ↔ ∀ x, LocalP s x := by
  simp [Consistent, localOK_iff]

/-- `AppendChild` preserves link consistency whenever it does not panic. -/
theorem appendChild_consistent (s s' : Store) (n c : Nat) (hc : Consistent s)
    (h : appendChild s n c = some s') : Consistent s' := by
  rw [consistent_iff] at *
  unfold appendChild at h
  split at h
  · simp at h
  · rename_i hdet
    simp only [ne_eq, not_or, Decidable.not_not] at hdet
    simp only [Option.some.injEq] at h
    subst h
    intro x
    have hx := hc x
    have hn := hc n
    have hcc := hc c
    cases hl : s.last n with
    | none =>
      simp only []
      constructor <;> simp only [upd] <;> grind [LocalP]
    | some l =>
      have hll := hc l
      simp only []
      constructor <;> simp only [upd] <;> grind [LocalP]

/-- `RemoveChild` preserves link consistency whenever it does not panic. -/
theorem removeChild_consistent (s s' : Store) (n c : Nat) (hc : Consistent s)
    (h : removeChild s n c = some s') : Consistent s' := by
  rw [consistent_iff] at *
  unfold removeChild at h
  split at h
  · simp at h
  · rename_i hpar
    simp only [ne_eq, Decidable.not_not] at hpar
    simp only [Option.some.injEq] at h
    subst h
    intro x
    have hx := hc x
    have hn := hc n
    have hcc := hc c
    cases hnx : s.next c with
    | none =>
      have hl : s.last n = some c := hcc.no_next hnx n hpar
      cases hpv : s.prev c with
      | none =>
        have hf : s.first n = some c := hcc.no_prev hpv n hpar
        simp only [upd, hf, hl, hnx, hpv, if_true, if_false, ite_self]
        constructor <;> simp only [upd] <;> grind [LocalP]
      | some pv =>
        have := hc pv
        have hf : ¬ s.first n = some c := by
          intro hf; have := (hn.first_ok c hf).2.1; simp [hpv] at this
        simp only [upd, hf, hl, hnx, hpv, if_true, if_false, ite_self]
        constructor <;> simp only [upd] <;> grind [LocalP]
    | some nx =>
      have := hc nx
      have hl : ¬ s.last n = some c := by
        intro hl; have := (hn.last_ok c hl).2; simp [hnx] at this
      cases hpv : s.prev c with
      | none =>
        have hf : s.first n = some c := hcc.no_prev hpv n hpar
        simp only [upd, hf, hl, hnx, hpv, if_true, if_false, ite_self]
        constructor <;> simp only [upd] <;> grind [LocalP]
      | some pv =>
        have := hc pv
        have hf : ¬ s.first n = some c := by
          intro hf; have := (hn.first_ok c hf).2.1; simp [hpv] at this
        simp only [upd, hf, hl, hnx, hpv, if_true, if_false, ite_self]
        constructor <;> simp only [upd] <;> grind [LocalP]

/-- `InsertBefore` preserves link consistency whenever it does not panic AND
`oldChild` is nil or a child of `n` (the latter is not checked by the Go code). -/
theorem insertBefore_consistent (s s' : Store) (n c : Nat) (old : Ptr) (hc : Consistent s)
    (hold : ∀ o, old = some o → s.parent o = some n)
    (h : insertBefore s n c old = some s') : Consistent s' := by
  rw [consistent_iff] at *
  unfold insertBefore at h
  split at h
  · simp at h
  · rename_i hdet
    simp only [ne_eq, not_or, Decidable.not_not] at hdet
    simp only [Option.some.injEq] at h
    subst h
    intro x
    have hx := hc x
    have hn := hc n
    have hcc := hc c
    cases old with
    | none =>
      cases hl : s.last n with
      | none =>
        simp only []
        constructor <;> simp only [upd] <;> grind [LocalP]
      | some l =>
        have hll := hc l
        simp only []
        constructor <;> simp only [upd] <;> grind [LocalP]
    | some o =>
      have ho := hc o
      have hpo := hold o rfl
      cases hp : s.prev o with
      | none =>
        simp only [hp]
        constructor <;> simp only [upd] <;> grind [LocalP]
      | some pv =>
        have := hc pv
        simp only [hp]
        constructor <;> simp only [upd] <;> grind [LocalP]

theorem consistent_empty : Consistent Store.empty := by
  intro x; simp [localOK, Store.empty]

/-- The precondition `oldChild.Parent == n` is necessary and unchecked: from a
consistent store, `n.InsertBefore(c, o)` with a detached `o` does not panic and
yields inconsistent links (this is the `table.Parent == nil` branch of
`fosterParent`, which passes `table` as oldChild of `p.oe[i-1]`). -/
theorem insertBefore_needs_oldChild_parent :
    ∃ s', insertBefore Store.empty 0 1 (some 2) = some s' ∧ ¬ Consistent s' := by
  refine ⟨_, rfl, ?_⟩
  intro h
  have := h 1
  revert this
  decide

/-! ## Acyclicity: chains of `parent` / `next` links end -/

/-- Every `f`-chain reaches nil. -/
def Term (f : Nat → Ptr) : Prop := ∀ x, ∃ k, iter f k x = none

/-- `y` is reachable from `x` along `f` (in ≥ 0 steps). -/
def Reaches (f : Nat → Ptr) (x y : Nat) : Prop := ∃ k, iter f k x = some y

theorem iter_succ_some (f : Nat → Ptr) (x y : Nat) (k : Nat) (h : f x = some y) :
    iter f (k + 1) x = iter f k y := by simp [iter, h]

theorem iter_add (f : Nat → Ptr) (a b x : Nat) :
    iter f (a + b) x = (iter f a x).bind (iter f b) := by
  induction a generalizing x with
  | zero => simp [iter]
  | succ a ih =>
    have : a + 1 + b = (a + b) + 1 := by omega
    rw [this]
    simp only [iter]
    cases f x with
    | none => simp
    | some y => simp [ih]

theorem iter_none_mono (f : Nat → Ptr) (a b x : Nat) (h : iter f a x = none) :
    iter f (a + b) x = none := by
  rw [iter_add, h]; rfl

/-- A chain that comes back to its start never ends. -/
theorem loop_never_ends (f : Nat → Ptr) (x : Nat) (k : Nat) (h : iter f (k + 1) x = some x) :
    ∀ m, iter f (m * (k + 1)) x = some x := by
  intro m
  induction m with
  | zero => simp [iter]
  | succ m ih =>
    have : (m + 1) * (k + 1) = m * (k + 1) + (k + 1) := by
      rw [Nat.succ_mul]
    rw [this, iter_add, ih]
    exact h

/-- In a store whose chains end, no node is reachable from its own successor:
there is no cycle. -/
theorem no_cycle (f : Nat → Ptr) (hT : Term f) (x y : Nat) (hxy : f x = some y) : ¬ Reaches f y x := by
  intro ⟨k, hk⟩
  have hloop : iter f (k + 1) x = some x := by rw [iter_succ_some f x y k hxy]; exact hk
  obtain ⟨K, hK⟩ := hT x
  have h1 := loop_never_ends f x k hloop K
  have h2 : iter f (K * (k + 1)) x = none := by
    have : K * (k + 1) = K + K * k := by rw [Nat.mul_succ]; omega
    rw [this]; exact iter_none_mono f K (K * k) x hK
  rw [h1] at h2
  simp at h2

/-- Acyclic in the usual sense: no node is its own proper ancestor / later sibling. -/
theorem term_irreflexive (f : Nat → Ptr) (hT : Term f) (x : Nat) (k : Nat) :
    iter f (k + 1) x ≠ some x := by
  intro h
  cases hfx : f x with
  | none => simp [iter, hfx] at h
  | some y =>
    rw [iter_succ_some f x y k hfx] at h
    exact no_cycle f hT x y hfx ⟨k, h⟩

theorem iter_upd_of_not_reaches (f : Nat → Ptr) (i : Nat) (v : Ptr) (k y : Nat)
    (h : ¬ Reaches f y i) : iter (upd f i v) k y = iter f k y := by
  induction k generalizing y with
  | zero => simp [iter]
  | succ k ih =>
    have hy : y ≠ i := by
      intro e; apply h; exact ⟨0, by simp [iter, e]⟩
    simp only [iter, upd, hy, if_false]
    cases hfy : f y with
    | none => rfl
    | some z =>
      simp only []
      apply ih
      intro ⟨m, hm⟩
      apply h
      exact ⟨m + 1, by rw [iter_succ_some f y z m hfy]; exact hm⟩

/-- Redirecting one link keeps all chains finite provided the new target does
not lead back to the redirected node. -/
theorem term_upd (f : Nat → Ptr) (i : Nat) (v : Ptr) (hT : Term f)
    (hv : ∀ j, v = some j → ¬ Reaches f j i) : Term (upd f i v) := by
  have key : ∀ k x, iter f k x = none → ∃ k', iter (upd f i v) k' x = none := by
    intro k
    induction k with
    | zero => intro x h; simp [iter] at h
    | succ k ih =>
      intro x h
      by_cases hx : x = i
      · subst hx
        cases hvv : v with
        | none => exact ⟨1, by simp [iter, upd, hvv]⟩
        | some j =>
          obtain ⟨m, hm⟩ := hT j
          refine ⟨m + 1, ?_⟩
          have : upd f x (some j) x = some j := by simp [upd]
          rw [iter_succ_some _ x j m this, iter_upd_of_not_reaches f x (some j) m j (hv j hvv)]
          exact hm
      · cases hfx : f x with
        | none => exact ⟨1, by simp [iter, upd, hx, hfx]⟩
        | some y =>
          rw [iter_succ_some f x y k hfx] at h
          obtain ⟨k', hk'⟩ := ih y h
          refine ⟨k' + 1, ?_⟩
          have : upd f i v x = some y := by simp [upd, hx, hfx]
          rw [iter_succ_some _ x y k' this]
          exact hk'
  intro x
  obtain ⟨k, hk⟩ := hT x
  exact key k x hk

/-- Parent chains end: no node is among its own ancestors. -/
def AcyclicParent (s : Store) : Prop := Term s.parent
/-- Sibling chains end in both directions. -/
def AcyclicNext (s : Store) : Prop := Term s.next
def AcyclicPrev (s : Store) : Prop := Term s.prev

/-- `a` is `n` itself or an ancestor of `n`. -/
def AncestorOrSelf (s : Store) (a n : Nat) : Prop := Reaches s.parent n a

theorem appendChild_parent (s s' : Store) (n c : Nat) (h : appendChild s n c = some s') :
    s'.parent = upd s.parent c (some n) := by
  unfold appendChild at h
  split at h
  · simp at h
  · simp only [Option.some.injEq] at h
    subst h
    rfl

theorem insertBefore_parent (s s' : Store) (n c : Nat) (old : Ptr) (h : insertBefore s n c old = some s') :
    s'.parent = upd s.parent c (some n) := by
  unfold insertBefore at h
  split at h
  · simp at h
  · simp only [Option.some.injEq] at h
    subst h
    rfl

theorem removeChild_parent (s s' : Store) (n c : Nat) (h : removeChild s n c = some s') :
    s'.parent = upd s.parent c none := by
  unfold removeChild at h
  split at h
  · simp at h
  · simp only [Option.some.injEq] at h
    subst h
    rfl

/-- `AppendChild` keeps the tree acyclic if `c` is neither `n` nor an ancestor of `n`
(not checked by the Go code). -/
theorem appendChild_acyclic (s s' : Store) (n c : Nat) (ha : AcyclicParent s)
    (hnc : ¬ AncestorOrSelf s c n) (h : appendChild s n c = some s') : AcyclicParent s' := by
  unfold AcyclicParent
  rw [appendChild_parent s s' n c h]
  apply term_upd _ _ _ ha
  intro j hj
  simp only [Option.some.injEq] at hj
  subst hj
  exact hnc

theorem insertBefore_acyclic (s s' : Store) (n c : Nat) (old : Ptr) (ha : AcyclicParent s)
    (hnc : ¬ AncestorOrSelf s c n) (h : insertBefore s n c old = some s') : AcyclicParent s' := by
  unfold AcyclicParent
  rw [insertBefore_parent s s' n c old h]
  apply term_upd _ _ _ ha
  intro j hj
  simp only [Option.some.injEq] at hj
  subst hj
  exact hnc

/-- `RemoveChild` can only cut parent chains. -/
theorem removeChild_acyclic (s s' : Store) (n c : Nat) (ha : AcyclicParent s)
    (h : removeChild s n c = some s') : AcyclicParent s' := by
  unfold AcyclicParent
  rw [removeChild_parent s s' n c h]
  apply term_upd _ _ _ ha
  intro j hj
  simp at hj

/-- The extra precondition is necessary: `n.AppendChild(n)` on a fresh node does
not panic, keeps the links mutually consistent, and creates a parent cycle. -/
theorem appendChild_self_cyclic :
    ∃ s', appendChild Store.empty 0 0 = some s' ∧ Consistent s' ∧ ¬ AcyclicParent s' := by
  refine ⟨_, rfl, ?_, ?_⟩
  · exact appendChild_consistent _ _ 0 0 consistent_empty rfl
  · intro h
    have := term_irreflexive _ h 0 0
    revert this
    decide

/-! ### Sibling chains -/

theorem appendChild_next (s s' : Store) (n c : Nat) (h : appendChild s n c = some s') :
    s'.next = (match s.last n with | some l => upd s.next l (some c) | none => s.next) := by
  unfold appendChild at h
  split at h
  · simp at h
  · simp only [Option.some.injEq] at h
    subst h
    cases s.last n <;> rfl

/-- `AppendChild` keeps sibling chains finite (consistent store, no extra precondition). -/
theorem appendChild_acyclicNext (s s' : Store) (n c : Nat) (hc : Consistent s) (ha : AcyclicNext s)
    (h : appendChild s n c = some s') : AcyclicNext s' := by
  unfold AcyclicNext
  rw [appendChild_next s s' n c h]
  have hdet : s.parent c = none ∧ s.next c = none := by
    unfold appendChild at h
    split at h
    · simp at h
    · rename_i hd; simp only [ne_eq, not_or, Decidable.not_not] at hd; exact ⟨hd.1, hd.2.2⟩
  cases hl : s.last n with
  | none => exact ha
  | some l =>
    simp only []
    apply term_upd _ _ _ ha
    intro j hj
    simp only [Option.some.injEq] at hj
    subst hj
    intro ⟨k, hk⟩
    have hpl := (((consistent_iff s).1 hc n).last_ok l hl).1
    cases k with
    | zero =>
      simp only [iter, Option.some.injEq] at hk
      subst hk
      rw [hdet.1] at hpl
      simp at hpl
    | succ k => simp [iter, hdet.2] at hk

theorem removeChild_next (s s' : Store) (n c : Nat) (h : removeChild s n c = some s') :
    s'.next = upd (match s.prev c with | some p => upd s.next p (s.next c) | none => s.next) c none := by
  unfold removeChild at h
  split at h
  · simp at h
  · simp only [Option.some.injEq] at h
    subst h
    show upd (match (match s.next c with | some x => upd s.prev x (s.prev c) | none => s.prev) c with
        | some p => upd s.next p (s.next c) | none => s.next) c none = _
    cases hnx : s.next c with
    | none => rfl
    | some x =>
      have : upd s.prev x (s.prev c) c = s.prev c := by simp only [upd]; split <;> rfl
      simp only [this]

/-- `RemoveChild` keeps sibling chains finite. -/
theorem removeChild_acyclicNext (s s' : Store) (n c : Nat) (hc : Consistent s) (ha : AcyclicNext s)
    (h : removeChild s n c = some s') : AcyclicNext s' := by
  unfold AcyclicNext
  rw [removeChild_next s s' n c h]
  apply term_upd
  · cases hp : s.prev c with
    | none => exact ha
    | some p =>
      simp only []
      apply term_upd _ _ _ ha
      intro j hj ⟨k, hk⟩
      -- p.next = c (consistency) and c.next = j →* p would be a cycle p → c → j →* p
      have hpc : s.next p = some c := (((consistent_iff s).1 hc c).prev_ok p hp).1
      apply no_cycle s.next ha p c hpc
      exact ⟨k + 1, by rw [iter_succ_some s.next c j k hj]; exact hk⟩
  · intro j hj; simp at hj

/-- Nothing points at a node whose `prev` is nil (in a consistent store). -/
theorem not_reached_of_no_prev (s : Store) (hc : Consistent s) (c : Nat) (hp : s.prev c = none)
    (k x : Nat) : iter s.next (k + 1) x ≠ some c := by
  induction k generalizing x with
  | zero =>
    intro h
    cases hx : s.next x with
    | none => simp [iter, hx] at h
    | some y =>
      simp only [iter, hx, Option.some.injEq] at h
      subst h
      have := (((consistent_iff s).1 hc x).next_ok y hx).1
      rw [hp] at this; simp at this
  | succ k ih =>
    intro h
    cases hx : s.next x with
    | none => simp [iter, hx] at h
    | some y =>
      rw [iter_succ_some s.next x y (k + 1) hx] at h
      exact ih y h

theorem insertBefore_next (s s' : Store) (n c : Nat) (old : Ptr) (h : insertBefore s n c old = some s') :
    s'.next = upd (match (match old with | some o => s.prev o | none => s.last n) with
                   | some p => upd s.next p (some c) | none => s.next) c old := by
  unfold insertBefore at h
  split at h
  · simp at h
  · simp only [Option.some.injEq] at h
    subst h
    rfl

/-- `InsertBefore` keeps sibling chains finite (consistent store, `oldChild` a child of `n`). -/
theorem insertBefore_acyclicNext (s s' : Store) (n c : Nat) (old : Ptr) (hc : Consistent s)
    (ha : AcyclicNext s) (hold : ∀ o, old = some o → s.parent o = some n)
    (h : insertBefore s n c old = some s') : AcyclicNext s' := by
  unfold AcyclicNext
  rw [insertBefore_next s s' n c old h]
  have hdet : s.parent c = none ∧ s.prev c = none ∧ s.next c = none := by
    unfold insertBefore at h
    split at h
    · simp at h
    · rename_i hd; simp only [ne_eq, not_or, Decidable.not_not] at hd; exact hd
  have hcP := (consistent_iff s).1 hc
  -- `c` is reached from nowhere, and from `c` only `c` is reached
  have from_c : ∀ y, Reaches s.next c y → y = c := by
    intro y ⟨k, hk⟩
    cases k with
    | zero => simp only [iter, Option.some.injEq] at hk; exact hk.symm
    | succ k => simp [iter, hdet.2.2] at hk
  cases old with
  | none =>
    simp only []
    apply term_upd
    · cases hl : s.last n with
      | none => exact ha
      | some l =>
        simp only []
        apply term_upd _ _ _ ha
        intro j hj hr
        simp only [Option.some.injEq] at hj
        subst hj
        have := from_c l hr
        subst this
        have := ((hcP n).last_ok _ hl).1
        rw [hdet.1] at this; simp at this
    · intro j hj; simp at hj
  | some o =>
    have hpo := hold o rfl
    have hoc : o ≠ c := by
      intro e; subst e; rw [hdet.1] at hpo; simp at hpo
    have o_not_c : ¬ Reaches s.next o c := by
      intro ⟨k, hk⟩
      cases k with
      | zero => simp only [iter, Option.some.injEq] at hk; exact hoc hk
      | succ k => exact not_reached_of_no_prev s hc c hdet.2.1 k o hk
    simp only []
    cases hp : s.prev o with
    | none =>
      simp only []
      apply term_upd _ _ _ ha
      intro j hj
      simp only [Option.some.injEq] at hj
      subst hj
      exact o_not_c
    | some p =>
      simp only []
      have hpn : s.next p = some o := ((hcP o).prev_ok p hp).1
      have hpp : s.parent p = s.parent o := ((hcP o).prev_ok p hp).2.1
      have o_not_p : ¬ Reaches s.next o p := no_cycle s.next ha p o hpn
      apply term_upd
      · apply term_upd _ _ _ ha
        intro j hj hr
        simp only [Option.some.injEq] at hj
        subst hj
        have := from_c p hr
        subst this
        rw [hdet.1, hpo] at hpp; simp at hpp
      · intro j hj ⟨k, hk⟩
        simp only [Option.some.injEq] at hj
        subst hj
        rw [iter_upd_of_not_reaches s.next p (some c) k o o_not_p] at hk
        exact o_not_c ⟨k, hk⟩

/-! ## Any history of mutator calls -/

inductive Op
  | append (n c : Nat)
  | insert (n c : Nat) (old : Ptr)
  | remove (n c : Nat)

def Op.apply (s : Store) : Op → Option Store
  | .append n c => appendChild s n c
  | .insert n c old => insertBefore s n c old
  | .remove n c => removeChild s n c

/-- What the callers must guarantee beyond what the Go mutators check themselves. -/
def Op.pre (s : Store) : Op → Prop
  | .append n c => ¬ AncestorOrSelf s c n
  | .insert n c old => ¬ AncestorOrSelf s c n ∧ ∀ o, old = some o → s.parent o = some n
  | .remove _ _ => True

/-- Run a history; `none` as soon as a mutator panics. -/
def runOps (s : Store) : List Op → Option Store
  | [] => some s
  | op :: ops => match op.apply s with
    | some s1 => runOps s1 ops
    | none => none

/-- The caller-side preconditions hold at every step of the history. -/
def PreAll : Store → List Op → Prop
  | _, [] => True
  | s, op :: ops => op.pre s ∧ (∀ s1, op.apply s = some s1 → PreAll s1 ops)

/-- Well-formedness as an invariant of mutator histories. -/
structure WF (s : Store) : Prop where
  consistent : Consistent s
  acyclicParent : AcyclicParent s
  acyclicNext : AcyclicNext s

theorem wf_empty : WF Store.empty :=
  ⟨consistent_empty, fun _ => ⟨1, rfl⟩, fun _ => ⟨1, rfl⟩⟩

theorem op_preserves_wf (s s' : Store) (op : Op) (hw : WF s) (hp : op.pre s)
    (h : op.apply s = some s') : WF s' := by
  obtain ⟨h1, h2, h3⟩ := hw
  cases op with
  | append n c =>
    exact ⟨appendChild_consistent s s' n c h1 h, appendChild_acyclic s s' n c h2 hp h,
           appendChild_acyclicNext s s' n c h1 h3 h⟩
  | insert n c old =>
    exact ⟨insertBefore_consistent s s' n c old h1 hp.2 h, insertBefore_acyclic s s' n c old h2 hp.1 h,
           insertBefore_acyclicNext s s' n c old h1 h3 hp.2 h⟩
  | remove n c =>
    exact ⟨removeChild_consistent s s' n c h1 h, removeChild_acyclic s s' n c h2 h,
           removeChild_acyclicNext s s' n c h1 h3 h⟩

/-- Every store reached from a well-formed one by a history of `InsertBefore` /
`AppendChild` / `RemoveChild` calls that do not panic and whose callers respect
`Op.pre` is well-formed. Since (T-fact below) nothing else in package html
writes link fields, this covers every tree the parser can build. -/
theorem history_wf (s s' : Store) (ops : List Op) (hw : WF s) (hp : PreAll s ops)
    (h : runOps s ops = some s') : WF s' := by
  induction ops generalizing s with
  | nil => simp only [runOps, Option.some.injEq] at h; subst h; exact hw
  | cons op ops ih =>
    simp only [runOps] at h
    split at h
    · rename_i s1 h1
      exact ih s1 (op_preserves_wf s s1 op hw hp.1 h1) (hp.2 s1 h1) h
    · simp at h

/-- Consistency alone needs only the `oldChild.Parent == n` side condition. -/
theorem history_consistent (s s' : Store) (ops : List Op) (hc : Consistent s)
    (hp : ∀ (pre : List Op) (n c : Nat) (old : Ptr) (post : List Op) (s1 : Store),
      ops = pre ++ .insert n c old :: post → runOps s pre = some s1 → ∀ o, old = some o → s1.parent o = some n)
    (h : runOps s ops = some s') : Consistent s' := by
  induction ops generalizing s with
  | nil => simp only [runOps, Option.some.injEq] at h; subst h; exact hc
  | cons op ops ih =>
    simp only [runOps] at h
    split at h
    · rename_i s1 h1
      have hc1 : Consistent s1 := by
        cases op with
        | append n c => exact appendChild_consistent s s1 n c hc h1
        | insert n c old => exact insertBefore_consistent s s1 n c old hc (hp [] n c old ops s rfl rfl) h1
        | remove n c => exact removeChild_consistent s s1 n c hc h1
      refine ih s1 hc1 ?_ h
      intro pre n c old post s2 he hr
      refine hp (op :: pre) n c old post s2 (by simp [he]) ?_
      simp only [runOps, h1]; exact hr
    · simp at h

/-! ## The decision procedure `wfTree` is sound -/

theorem chainEnds_sound (f : Nat → Ptr) (k x : Nat) (h : chainEnds f k x = true) : iter f k x = none := by
  induction k generalizing x with
  | zero => simp [chainEnds] at h
  | succ k ih =>
    simp only [chainEnds] at h
    simp only [iter]
    cases hfx : f x with
    | none => rfl
    | some y => simp only [hfx] at h; exact ih y h

theorem ofList_out_of_range (l : List Rec) (x : Nat) (hx : l.length ≤ x) :
    (ofList l).parent x = none ∧ (ofList l).first x = none ∧ (ofList l).last x = none ∧
    (ofList l).prev x = none ∧ (ofList l).next x = none := by
  simp [ofList, Array.getD_eq_getD_getElem?, List.getElem?_eq_none hx, Rec.nil]

/-- What a tree accepted by the checker satisfies. -/
structure WFTree (s : Store) : Prop where
  consistent : Consistent s
  acyclicParent : AcyclicParent s
  acyclicNext : AcyclicNext s
  acyclicPrev : AcyclicPrev s

theorem wfTree_sound (l : List Rec) (h : wfTree l = true) :
    WFTree (ofList l) ∧ ∀ r ∈ l, validType r.ty = true := by
  unfold wfTree at h
  simp only [Bool.and_eq_true, List.all_eq_true, List.mem_range] at h
  obtain ⟨⟨⟨⟨h1, h2⟩, h3⟩, h4⟩, h5⟩ := h
  have term : ∀ (f : Nat → Ptr), (∀ x, x < l.length → chainEnds f l.length x = true) →
      (∀ x, l.length ≤ x → f x = none) → Term f := by
    intro f hin hout x
    by_cases hx : x < l.length
    · exact ⟨l.length, chainEnds_sound f _ x (hin x hx)⟩
    · exact ⟨1, by simp [iter, hout x (by omega)]⟩
  refine ⟨⟨?_, ?_, ?_, ?_⟩, ?_⟩
  · intro x
    by_cases hx : x < l.length
    · exact h1 x hx
    · obtain ⟨a, b, c, d, e⟩ := ofList_out_of_range l x (by omega)
      simp [localOK, a, b, c, d, e]
  · exact term _ h2 (fun x hx => (ofList_out_of_range l x hx).1)
  · exact term _ h3 (fun x hx => (ofList_out_of_range l x hx).2.2.2.2)
  · exact term _ h4 (fun x hx => (ofList_out_of_range l x hx).2.2.2.1)
  · intro r hr
    have := h5 r hr
    simp only [shapeOK, Bool.and_eq_true] at this
    exact this.1.1

/-- Accepted trees have no node that is its own ancestor or its own later/earlier sibling. -/
theorem wfTree_no_cycles (l : List Rec) (h : wfTree l = true) (x k : Nat) :
    iter (ofList l).parent (k + 1) x ≠ some x ∧ iter (ofList l).next (k + 1) x ≠ some x ∧
    iter (ofList l).prev (k + 1) x ≠ some x := by
  obtain ⟨⟨_, h2, h3, h4⟩, _⟩ := wfTree_sound l h
  exact ⟨term_irreflexive _ h2 x k, term_irreflexive _ h3 x k, term_irreflexive _ h4 x k⟩

/-! ## T-facts regenerated from /repo/html on every run -/

/-- Outside node.go no non-test file of package html assigns, increments,
takes the address of, or initialises (in a `Node{…}` literal) any of
`.Parent .FirstChild .LastChild .PrevSibling .NextSibling`. -/
theorem no_link_writes_outside_node_go : Gen.C41.linkWritesOutsideNodeGo = [] := by decide

/-- Inside node.go the link fields are written by the three mutators only. -/
theorem link_writers_are_the_three_mutators :
    Gen.C41.nodeGoLinkWriters = ["AppendChild", "InsertBefore", "RemoveChild"] := by decide

/-- `InsertBefore` (the only mutator with an unchecked consistency precondition) has a
single call site, `parser.fosterParent`. -/
theorem insertBefore_single_call_site :
    Gen.C41.insertBeforeCallers = ["parse.go:fosterParent"] := by decide

/-- The source text of the three mutators the model was transcribed from. -/
def insertBeforeSrcExpected : String :=
  "{ if newChild.Parent != nil || newChild.PrevSibling != nil || newChild.NextSibling != nil { panic(\"html: InsertBefore called for an attached child Node\") } var prev, next *Node if oldChild != nil { prev, next = oldChild.PrevSibling, oldChild } else { prev = n.LastChild } if prev != nil { prev.NextSibling = newChild } else { n.FirstChild = newChild } if next != nil { next.PrevSibling = newChild } else { n.LastChild = newChild } newChild.Parent = n newChild.PrevSibling = prev newChild.NextSibling = next }"
def appendChildSrcExpected : String :=
  "{ if c.Parent != nil || c.PrevSibling != nil || c.NextSibling != nil { panic(\"html: AppendChild called for an attached child Node\") } last := n.LastChild if last != nil { last.NextSibling = c } else { n.FirstChild = c } n.LastChild = c c.Parent = n c.PrevSibling = last }"
def removeChildSrcExpected : String :=
  "{ if c.Parent != n { panic(\"html: RemoveChild called for a non-child Node\") } if n.FirstChild == c { n.FirstChild = c.NextSibling } if c.NextSibling != nil { c.NextSibling.PrevSibling = c.PrevSibling } if n.LastChild == c { n.LastChild = c.PrevSibling } if c.PrevSibling != nil { c.PrevSibling.NextSibling = c.NextSibling } c.Parent = nil c.PrevSibling = nil c.NextSibling = nil }"

theorem mutator_sources_pinned :
    Gen.C41.insertBeforeSrc = insertBeforeSrcExpected ∧
    Gen.C41.appendChildSrc = appendChildSrcExpected ∧
    Gen.C41.removeChildSrc = removeChildSrcExpected := ⟨rfl, rfl, rfl⟩

/-! ### T-fact about the acyclicity precondition (`c ∉ ancestors(n) ∪ {n}`) at the call sites -/

/-- A node that no node has as its parent (just created by `&Node{…}` / `clone()`, not yet
linked anywhere) and that is not `n` itself is not an ancestor of `n`: for such a child the
acyclicity precondition of `AppendChild` / `InsertBefore` holds trivially. -/
theorem fresh_not_ancestor (s : Store) (n c : Nat) (hne : n ≠ c) (hfresh : ∀ x, s.parent x ≠ some c) :
    ¬ AncestorOrSelf s c n := by
  intro ⟨k, hk⟩
  have key : ∀ k n, iter s.parent (k + 1) n = some c → ∃ x, s.parent x = some c := by
    intro k
    induction k with
    | zero =>
      intro n h
      cases hp : s.parent n with
      | none => simp [iter, hp] at h
      | some y => simp only [iter, hp, Option.some.injEq] at h; exact ⟨n, by rw [hp, h]⟩
    | succ k ih =>
      intro n h
      cases hp : s.parent n with
      | none => simp [iter, hp] at h
      | some y => rw [iter_succ_some s.parent n y (k + 1) hp] at h; exact ih y h
  cases k with
  | zero => simp only [iter, Option.some.injEq] at hk; exact hne hk
  | succ k => obtain ⟨x, hx⟩ := key k n hk; exact hfresh x hx

/-- Regenerated from parse.go on every run: of the 30 places where package html hands a node
to `AppendChild` / `InsertBefore` (directly or through `addChild` / `fosterParent` /
`reparentChildren`), all but these four pass a node created on the spot (`&Node{…}` or
`x.clone()`), for which `fresh_not_ancestor` applies. The four are `parseDoctype`'s new node in
`initialIM` and the three re-attachments of `lastNode` in the adoption agency algorithm
(`inBodyEndTagFormatting`); together with `furthestBlock.AppendChild(clone)` (a fresh node that
has just been given children) these are the only places where acyclicity depends on the parser's
own invariants — they are not syntactically checkable and are validated on every returned tree. -/
theorem nonfresh_child_sites_pinned :
    Gen.C41.nonFreshChildSites =
      ["parse.go:initialIM AppendChild other:n",
       "parse.go:inBodyEndTagFormatting AppendChild other:lastNode",
       "parse.go:inBodyEndTagFormatting fosterParent other:lastNode",
       "parse.go:inBodyEndTagFormatting AppendChild other:lastNode"] ∧
    Gen.C41.paramForwarders =
      ["parse.go:addChild fosterParent param:n", "parse.go:addChild AppendChild param:n",
       "parse.go:fosterParent AppendChild param:n", "parse.go:fosterParent InsertBefore param:n"] ∧
    Gen.C41.childArgSites.length = 30 := ⟨rfl, rfl, rfl⟩

/-! ## Non-vacuity -/

/-- document(0) → html(1) → [head(2), body(3)] -/
def sampleTree : List Rec :=
  [⟨2, none, some 1, some 1, none, none⟩, ⟨3, some 0, some 2, some 3, none, none⟩,
   ⟨3, some 1, none, none, none, some 3⟩, ⟨3, some 1, none, none, some 2, none⟩]

example : wfTree sampleTree = true := by decide
/-- a parent cycle 0 ↔ 1 with locally consistent links is rejected -/
example : wfTree [⟨3, some 1, some 1, some 1, none, none⟩, ⟨3, some 0, some 0, some 0, none, none⟩] = false := by decide
/-- a sibling ring under node 0 with locally consistent links is rejected -/
example : wfTree [⟨3, none, none, none, none, none⟩, ⟨3, some 0, none, none, some 2, some 2⟩,
                  ⟨3, some 0, none, none, some 1, some 1⟩] = false := by decide
example : wfTree [⟨2, none, some 1, some 1, none, none⟩, ⟨7, some 0, none, none, none, none⟩] = false := by decide

example : ∃ s1 s2 s3, runOps Store.empty [.append 0 1, .append 0 2, .insert 0 3 (some 2), .remove 0 1] = some s3 ∧
    appendChild Store.empty 0 1 = some s1 ∧ appendChild s1 0 2 = some s2 ∧ s3.first 0 = some 3 ∧ s3.next 3 = some 2 :=
  ⟨_, _, _, rfl, rfl, rfl, by decide, by decide⟩

example : PreAll Store.empty [.append 0 1, .insert 0 2 (some 1)] := by
  refine ⟨?_, ?_⟩
  · intro ⟨k, hk⟩
    cases k with
    | zero => simp [iter] at hk
    | succ k => simp [iter, Store.empty] at hk
  · intro s1 h1
    simp only [Op.apply] at h1
    have : s1.parent = upd Store.empty.parent 1 (some 0) := appendChild_parent _ _ 0 1 h1
    refine ⟨⟨?_, ?_⟩, ?_⟩
    · intro ⟨k, hk⟩
      rw [this] at hk
      cases k with
      | zero => simp [iter] at hk
      | succ k => simp [iter, upd, Store.empty] at hk
    · intro o ho
      simp only [Option.some.injEq] at ho
      subst ho
      rw [this]; simp [upd]
    · intro s2 _; trivial

end NetVerif.Proofs.C41
