import NetVerif.Model.PerHost
import NetVerif.Proofs.Lemmas.NetIP
/-!
C53 — proxy.PerHost routes each host by its documented bypass rules.

A configuration HISTORY is any sequence of `AddFromString` strings and direct
`AddNetwork/AddIP/AddZone/AddHost` calls.  The spec reads it as the list of effective rules
(`adds`); a dialed host BYPASSES iff SOME rule matches it.  The model keeps four ordered lists and
`dialerForRequest` walks them.  Theorem: the two agree, for all histories, hosts, and all
behaviours of the unmodelled parsers.
-/
namespace NetVerif.Proofs.C53
open NetVerif.Model.NetIP NetVerif.Model.PerHost

/-- One configuration call. -/
inductive Cfg where
  | fromString (s : List Nat)
  | call (a : Add)

/-- The rules a history adds, in order (spec side: a flat list). -/
def adds (O : Oracles) : List Cfg → List Add
  | [] => []
  | .fromString s :: t => (splitComma s).filterMap (pieceAdd O) ++ adds O t
  | .call a :: t => a :: adds O t

/-- Running a history on the model. -/
def run (O : Oracles) (p : State) : List Cfg → State
  | [] => p
  | .fromString s :: t => run O (addFromString O p s) t
  | .call a :: t => run O (p.add a) t

/-- `h` is a strict subdomain of `name`: `h = pre ++ "." ++ name`. -/
def IsSubdomainOf (h name : List Nat) : Prop := ∃ pre, h = pre ++ 46 :: name

/-- The name a zone argument denotes: one trailing "." and one leading "." removed. -/
def zoneName (z : List Nat) : List Nat :=
  let t := toLower (trimSuffixDot z)
  if hasPrefix t [46] then t.drop 1 else t

/-- A dialed name as it is compared: a rooted name `example.com.` is the name `example.com`. -/
def canonName (host : List Nat) : List Nat := toLower (trimSuffixDot host)

/-- "rule `a` matches the dialed host" — the documented rule; names (dialed and configured) are
compared without the trailing dot of a fully qualified spelling. -/
def AddMatches (a : Add) (host : List Nat) (ip : Option (List Nat)) : Prop :=
  match a with
  | .network n ones bits => ∃ x, ip = some x ∧ contains n ones bits x = true
  | .ip b => ∃ x, ip = some x ∧ ipEqual b x = true
  | .zone z => ip = none ∧ (canonName host = zoneName z ∨ IsSubdomainOf (canonName host) (zoneName z))
  | .host h => ip = none ∧ canonName host = canonName h

theorem normZone_eq (z : List Nat) : normZone z = 46 :: zoneName z := by
  unfold normZone zoneName
  simp only
  generalize toLower (trimSuffixDot z) = t
  by_cases h : hasPrefix t [46] = true
  · match t, h with
    | a :: t', h =>
      simp [hasPrefix, List.isPrefixOf] at h
      simp [hasPrefix, List.isPrefixOf, h]
  · simp [h]

private theorem zone_match_iff (z host : List Nat) :
    (hasSuffix host (normZone z) || host == (normZone z).drop 1) = true ↔
      (host = zoneName z ∨ IsSubdomainOf host (zoneName z)) := by
  rw [normZone_eq]
  simp only [hasSuffix, Bool.or_eq_true, List.isSuffixOf_iff_suffix, List.IsSuffix, beq_iff_eq,
    List.drop_succ_cons, List.drop_zero, IsSubdomainOf]
  constructor
  · rintro (⟨t, ht⟩ | h)
    · exact Or.inr ⟨t, ht.symm⟩
    · exact Or.inl h
  · rintro (h | ⟨t, ht⟩)
    · exact Or.inr h
    · exact Or.inl ⟨t, ht.symm⟩

private theorem dial_none (p : State) (host : List Nat) :
    dialerForRequest p host none = true ↔
      (∃ z, z ∈ p.zones ∧ (hasSuffix (canonName host) z || canonName host == z.drop 1) = true) ∨
      (∃ h, h ∈ p.hosts ∧ (h == canonName host) = true) := by
  unfold canonName
  rw [← List.any_eq_true, ← List.any_eq_true]
  unfold dialerForRequest
  simp only []
  generalize p.zones.any _ = Z
  generalize p.hosts.any _ = H
  cases Z <;> cases H <;> simp

private theorem dial_some (p : State) (host x : List Nat) :
    dialerForRequest p host (some x) = true ↔
      (∃ n, n ∈ p.networks ∧ contains n.1 n.2.1 n.2.2 x = true) ∨ (∃ b, b ∈ p.ips ∧ ipEqual b x = true) := by
  rw [← List.any_eq_true, ← List.any_eq_true]
  unfold dialerForRequest
  simp only []
  generalize p.networks.any _ = N
  generalize p.ips.any _ = I
  cases N <;> cases I <;> simp

/-- Adding one rule: the bypass set grows by exactly the hosts that rule matches. -/
theorem dial_add (p : State) (a : Add) (host : List Nat) (ip : Option (List Nat)) :
    dialerForRequest (p.add a) host ip = true ↔
      dialerForRequest p host ip = true ∨ AddMatches a host ip := by
  cases ip with
  | none =>
    simp only [dial_none]
    cases a with
    | network n ones bits => simp [State.add, AddMatches]
    | ip b => simp [State.add, AddMatches]
    | zone z =>
      have hz := zone_match_iff z (canonName host)
      simp only [State.add, AddMatches, List.mem_append, List.mem_singleton, true_and, ← hz]
      constructor
      · rintro (⟨w, hw | rfl, hm⟩ | h)
        · exact Or.inl (Or.inl ⟨w, hw, hm⟩)
        · exact Or.inr hm
        · exact Or.inl (Or.inr h)
      · rintro ((⟨w, hw, hm⟩ | h) | hm)
        · exact Or.inl ⟨w, Or.inl hw, hm⟩
        · exact Or.inr h
        · exact Or.inl ⟨_, Or.inr rfl, hm⟩
    | host h =>
      simp only [State.add, AddMatches, List.mem_append, List.mem_singleton, true_and]
      rw [show toLower (trimSuffixDot h) = canonName h from rfl]
      constructor
      · rintro (h1 | ⟨w, hw | rfl, hm⟩)
        · exact Or.inl (Or.inl h1)
        · exact Or.inl (Or.inr ⟨w, hw, hm⟩)
        · exact Or.inr (beq_iff_eq.1 hm).symm
      · rintro ((h1 | ⟨w, hw, hm⟩) | hm)
        · exact Or.inl h1
        · exact Or.inr ⟨w, Or.inl hw, hm⟩
        · exact Or.inr ⟨_, Or.inr rfl, beq_iff_eq.2 hm.symm⟩
  | some x =>
    simp only [dial_some]
    cases a with
    | network n ones bits =>
      simp only [State.add, AddMatches, List.mem_append, List.mem_singleton, Option.some.injEq]
      constructor
      · rintro (⟨w, hw | rfl, hm⟩ | h)
        · exact Or.inl (Or.inl ⟨w, hw, hm⟩)
        · exact Or.inr ⟨x, rfl, hm⟩
        · exact Or.inl (Or.inr h)
      · rintro ((⟨w, hw, hm⟩ | h) | ⟨y, rfl, hm⟩)
        · exact Or.inl ⟨w, Or.inl hw, hm⟩
        · exact Or.inr h
        · exact Or.inl ⟨_, Or.inr rfl, hm⟩
    | ip b =>
      simp only [State.add, AddMatches, List.mem_append, List.mem_singleton, Option.some.injEq]
      constructor
      · rintro (h1 | ⟨w, hw | rfl, hm⟩)
        · exact Or.inl (Or.inl h1)
        · exact Or.inl (Or.inr ⟨w, hw, hm⟩)
        · exact Or.inr ⟨x, rfl, hm⟩
      · rintro ((h1 | ⟨w, hw, hm⟩) | ⟨y, rfl, hm⟩)
        · exact Or.inl h1
        · exact Or.inr ⟨w, Or.inl hw, hm⟩
        · exact Or.inr ⟨_, Or.inr rfl, hm⟩
    | zone z => simp [State.add, AddMatches]
    | host h => simp [State.add, AddMatches]

private theorem dial_foldl (as : List Add) (p : State) (host : List Nat) (ip : Option (List Nat)) :
    dialerForRequest (as.foldl State.add p) host ip = true ↔
      dialerForRequest p host ip = true ∨ ∃ a ∈ as, AddMatches a host ip := by
  induction as generalizing p with
  | nil => simp
  | cons a t ih =>
    rw [List.foldl_cons, ih, dial_add, or_assoc]
    simp only [List.mem_cons, exists_eq_or_imp]

private theorem addFromString_eq (O : Oracles) (p : State) (s : List Nat) :
    addFromString O p s = ((splitComma s).filterMap (pieceAdd O)).foldl State.add p := by
  unfold addFromString
  generalize splitComma s = ps
  induction ps generalizing p with
  | nil => rfl
  | cons x t ih =>
    simp only [List.foldl_cons, List.filterMap_cons]
    cases h : pieceAdd O x <;> simp [ih]

/-- Running a history = adding its flat rule list one by one. -/
theorem run_eq (O : Oracles) (p : State) (ops : List Cfg) :
    run O p ops = (adds O ops).foldl State.add p := by
  induction ops generalizing p with
  | nil => rfl
  | cons c t ih =>
    cases c with
    | fromString s => simp [run, adds, ih, addFromString_eq, List.foldl_append]
    | call a => simp [run, adds, ih]

/-- **C53.** For every configuration history, every dialed host (name or IP literal) and every
behaviour of `net.ParseCIDR`/`netip.ParseAddr`: the bypass dialer is chosen exactly when some added
rule matches the host; otherwise the default dialer. -/
theorem bypass_iff (O : Oracles) (ops : List Cfg) (host : List Nat) (ip : Option (List Nat)) :
    dialerForRequest (run O {} ops) host ip = true ↔ ∃ a ∈ adds O ops, AddMatches a host ip := by
  rw [run_eq, dial_foldl]
  simp [dialerForRequest]
  cases ip <;> simp

/-- Default dialer otherwise (the Bool result is total: exactly one of the two dialers). -/
theorem default_iff (O : Oracles) (ops : List Cfg) (host : List Nat) (ip : Option (List Nat)) :
    dialerForRequest (run O {} ops) host ip = false ↔ ¬ ∃ a ∈ adds O ops, AddMatches a host ip := by
  rw [← bypass_iff]; simp

/-- Every stored zone starts with "." — so Go's `zone[1:]` in `dialerForRequest` cannot panic. -/
theorem zones_dotted (O : Oracles) (ops : List Cfg) :
    ∀ z ∈ (run O {} ops).zones, z.head? = some 46 := by
  rw [run_eq]
  suffices h : ∀ (as : List Add) (p : State), (∀ z ∈ p.zones, z.head? = some 46) →
      ∀ z ∈ (as.foldl State.add p).zones, z.head? = some 46 from h _ _ (by simp)
  intro as
  induction as with
  | nil => intro p hp; simpa using hp
  | cons a t ih =>
    intro p hp
    simp only [List.foldl_cons]
    apply ih
    cases a <;> simp only [State.add] <;> try exact hp
    intro z hz
    simp only [List.mem_append, List.mem_singleton] at hz
    rcases hz with hz | rfl
    · exact hp z hz
    · simp [normZone_eq]

/-! ### how `AddFromString` reads each documented form -/

/-- A value containing "/" is a CIDR range or is ignored. -/
theorem piece_cidr (O : Oracles) (v : List Nat) (h0 : trimSpace v ≠ [])
    (hs : (trimSpace v).contains slash = true) :
    pieceAdd O v = (O.parseCIDR (trimSpace v)).map (fun n => Add.network n.1 n.2.1 n.2.2) := by
  unfold pieceAdd
  simp only [h0, if_false, hs, if_true]
  cases O.parseCIDR (trimSpace v) <;> simp

/-- An IP literal. -/
theorem piece_ip (O : Oracles) (v ip : List Nat) (h0 : trimSpace v ≠ [])
    (hs : (trimSpace v).contains slash = false) (hip : O.parseAddr (trimSpace v) = some ip) :
    pieceAdd O v = some (.ip ip) := by
  unfold pieceAdd
  simp only [h0, if_false, hs, Bool.false_eq_true, hip]

/-- `*.zone` : a zone (the name and all its subdomains, see `AddMatches`). -/
theorem piece_zone (O : Oracles) (v d : List Nat) (hv : trimSpace v = 42 :: 46 :: d)
    (hs : (trimSpace v).contains slash = false) (hip : O.parseAddr (trimSpace v) = none) :
    pieceAdd O v = some (.zone (46 :: d)) := by
  unfold pieceAdd
  simp only [hs, Bool.false_eq_true, if_false, hip]
  simp [hv, hasPrefix, starDot, List.isPrefixOf]

/-- Anything else: a host name, matched by equality only. -/
theorem piece_host (O : Oracles) (v : List Nat) (h0 : trimSpace v ≠ [])
    (hs : (trimSpace v).contains slash = false) (hip : O.parseAddr (trimSpace v) = none)
    (hz : hasPrefix (trimSpace v) starDot = false) :
    pieceAdd O v = some (.host (trimSpace v)) := by
  unfold pieceAdd
  simp only [h0, if_false, hs, Bool.false_eq_true, hip, hz]

/-! ### non-vacuity -/

private def noOracles : Oracles := { parseCIDR := fun _ => none, parseAddr := fun _ => none }
private def exCom : List Nat := [101, 120, 46, 99, 111, 109]        -- "ex.com"
private def aExCom : List Nat := [97, 46, 101, 120, 46, 99, 111, 109] -- "a.ex.com"
private def aexCom : List Nat := [97, 101, 120, 46, 99, 111, 109]   -- "aex.com"

/-- "*.ex.com, a.ex.com." : zone ex.com and host a.ex.com. -/
private def cfg1 : List Cfg := [.fromString ([42, 46] ++ exCom ++ [44, 32] ++ aExCom ++ [46])]
example : dialerForRequest (run noOracles {} cfg1) exCom none = true := by decide
example : dialerForRequest (run noOracles {} cfg1) aExCom none = true := by decide
example : dialerForRequest (run noOracles {} cfg1) aexCom none = false := by decide
example : dialerForRequest (run noOracles {} [.fromString exCom]) aExCom none = false := by decide
/-- Rooted spellings (regression for the repaired defect `trailing-dot-never-matches`): "ex.com." and
"a.ex.com." dialed against the same rules, and a rule given with the dot against a dialed name without. -/
example : dialerForRequest (run noOracles {} cfg1) (exCom ++ [46]) none = true := by decide
example : dialerForRequest (run noOracles {} cfg1) (aExCom ++ [46]) none = true := by decide
example : dialerForRequest (run noOracles {} [.fromString (exCom ++ [46])]) (exCom ++ [46]) none = true := by decide
example : dialerForRequest (run noOracles {} cfg1) (aexCom ++ [46]) none = false := by decide
/-- Letter case (regression for the repaired defect `perhost-case-sensitive`): "EX.com" dialed against
"*.ex.com", and a rule written "EX.COM" against the dialed "ex.com". -/
example : dialerForRequest (run noOracles {} cfg1) ([69, 88] ++ exCom.drop 2) none = true := by decide
example : dialerForRequest (run noOracles {} [.fromString [69, 88, 46, 67, 79, 77]]) exCom none = true := by decide
example : dialerForRequest (run noOracles {} [.call (.network [10, 0, 0, 0] 8 32)]) [] (some [10, 9, 8, 7]) = true := by decide
example : dialerForRequest (run noOracles {} [.call (.network [10, 0, 0, 0] 8 32)]) [] (some [11, 9, 8, 7]) = false := by decide
example : dialerForRequest (run noOracles {} [.call (.ip [1, 2, 3, 4])]) []
    (some [0, 0, 0, 0, 0, 0, 0, 0, 0, 0, 255, 255, 1, 2, 3, 4]) = true := by decide

end NetVerif.Proofs.C53
