import NetVerif.Model.QuicRetryToken
/-!
C31 — Retry tokens and stateless-reset tokens are bound to their context.
Cryptography enters only through explicitly stated hypotheses on the abstract AEAD / HMAC.
-/
namespace NetVerif.Proofs.C31
open NetVerif.Model.VarintQuic NetVerif.Model.QuicRetryToken

/-! ### additional data -/

private theorem append_two_inj (a b : List Nat) (x1 x2 y1 y2 : Nat) (h : a ++ [x1, x2] = b ++ [y1, y2]) :
    a = b ∧ x1 = y1 ∧ x2 = y2 := by
  have e1 : a ++ [x1, x2] = (a ++ [x1]) ++ [x2] := by simp
  have e2 : b ++ [y1, y2] = (b ++ [y1]) ++ [y2] := by simp
  rw [e1, e2] at h
  have h1 := List.append_inj' h rfl
  obtain ⟨h2, h3⟩ := h1
  have h4 := List.append_inj' h2 rfl
  simp at h3
  obtain ⟨h5, h6⟩ := h4
  simp at h6
  exact ⟨h5, h6, h3⟩

/-- **`additionalData` is injective** in (source connection ID, address bytes, port): two
contexts with the same additional data are the same context. -/
theorem additionalData_injective (s1 s2 a1 a2 : List Nat) (p1 p2 : Nat) (x : List Nat)
    (hp1 : p1 < 65536) (hp2 : p2 < 65536)
    (h1 : additionalData s1 a1 p1 = some x) (h2 : additionalData s2 a2 p2 = some x) :
    s1 = s2 ∧ a1 = a2 ∧ p1 = p2 := by
  unfold additionalData appendUint8Bytes at h1 h2
  by_cases c1 : s1.length > 255 <;> by_cases c2 : s2.length > 255 <;> simp [c1, c2] at h1 h2
  rw [← h2] at h1
  simp at h1
  obtain ⟨hlen, hrest⟩ := h1
  have hs := List.append_inj hrest hlen
  obtain ⟨hs1, hs2⟩ := hs
  obtain ⟨ha, hb1, hb2⟩ := append_two_inj _ _ _ _ _ _ hs2
  refine ⟨hs1, ha, ?_⟩
  omega

/-! ### validateToken -/

/-- The timestamp carried by a token plaintext, in nanoseconds. -/
def whenNs (pt : List Nat) : Int := int64OfU64 (beNat (pt.take 8)) * 1000000000

/-- **What acceptance means.** If `validateToken` accepts, then: the AEAD nonce is the presented
destination connection ID followed by the first four token bytes (24 bytes in all); the rest of
the token opens under that nonce with the additional data of the PRESENTED source connection ID,
address and port; the result is the plaintext's tail; and the (saturating) `now.Sub(when)` lies
within ± five seconds. -/
theorem validate_accept_spec (a : AEAD) (now : Int) (token src dst addr : List Nat) (port : Nat)
    (od : List Nat) (h : validateToken a now token src dst addr port = VR.accept od) :
    ∃ ad pt, additionalData src addr port = some ad ∧
      (dst ++ token.take 4).length = 24 ∧ 4 ≤ token.length ∧
      a.aeadOpen (dst ++ token.take 4) (token.drop 4) ad = some pt ∧
      8 ≤ pt.length ∧ od = pt.drop 8 ∧
      satSub now (whenNs pt) ≤ 5000000000 ∧ -5000000000 ≤ satSub now (whenNs pt) := by
  unfold validateToken at h
  split at h <;> try (simp at h; done)
  rename_i h1
  split at h <;> try (simp at h; done)
  rename_i h2
  split at h <;> try (simp at h; done)
  rename_i ad had
  split at h <;> try (simp at h; done)
  rename_i pt hpt
  split at h <;> try (simp at h; done)
  rename_i h3
  split at h <;> simp at h
  rename_i h4
  refine ⟨ad, pt, had, ?_, ?_, hpt, by omega, h.symm, ?_⟩
  · simpa [nonceSize] using h2
  · simp [nonceSize, maxConnIDLen] at h1; omega
  · simp [validityNs] at h4
    simp only [whenNs]
    omega

/-- **Freshness (full).** An accepted token's timestamp is within 5 s of `now`, for every
`now` and every timestamp (the two-sided comparison also rejects the saturated differences). -/
theorem tokenFresh_holds (a : AEAD) (now : Int) (token src dst addr : List Nat) (port : Nat)
    (od : List Nat) (h : validateToken a now token src dst addr port = VR.accept od) :
    ∃ ad pt, additionalData src addr port = some ad ∧
      a.aeadOpen (dst ++ token.take 4) (token.drop 4) ad = some pt ∧
      now - whenNs pt ≤ 5000000000 ∧ whenNs pt - now ≤ 5000000000 := by
  obtain ⟨ad, pt, had, _, _, hpt, _, _, hle, hge⟩ := validate_accept_spec a now token src dst addr port od h
  refine ⟨ad, pt, had, hpt, ?_⟩
  unfold satSub at hle hge
  simp only at hle hge
  split at hle <;> (try split at hle) <;> simp_all <;> omega

/-- An AEAD that accepts everything as the 8-byte plaintext `00 00 01 00 00 00 00 00`
(timestamp 2^40 seconds, ~34865 years): the witness of the former defect
(`abs(MinInt64) < 0`), kept as a regression. -/
private def farFuture : AEAD := { aeadSeal := fun _ _ _ => [], aeadOpen := fun _ _ _ => some [0, 0, 1, 0, 0, 0, 0, 0] }

/-- The old witness is now rejected. -/
example : validateToken farFuture 0 [0, 0, 0, 0] [] (List.replicate 20 0) [1, 2, 3, 4] 80 = VR.reject := by
  decide

/-! ### binding under ideal-AEAD hypotheses -/

/-- **Binding.** Hypotheses on the AEAD (stated, not assumed globally): `hOpen` — whatever opens
was produced by `seal` with the same nonce and additional data; `hInj` — sealed outputs collide
only for equal (nonce, plaintext, additional data). Then a token minted by `makeToken` for
(nonce, time, srcConnID, origDst, addr, port) that `validateToken` accepts when presented with
(src', dst', addr', port') was presented with the same source connection ID, address and port,
with the destination connection ID that `makeToken` handed out, and yields the same original
destination connection ID. -/
theorem token_binding (a : AEAD)
    (hOpen : ∀ n c ad p, a.aeadOpen n c ad = some p → c = a.aeadSeal n p ad)
    (hInj : ∀ n p ad n' p' ad', a.aeadSeal n p ad = a.aeadSeal n' p' ad' → n = n' ∧ p = p' ∧ ad = ad')
    (nonce : List Nat) (hn : nonce.length = 24) (t : Nat) (src od addr : List Nat) (port : Nat)
    (token newDst : List Nat) (hmk : makeToken a nonce t src od addr port = some (token, newDst))
    (now : Int) (src' dst' addr' : List Nat) (port' : Nat) (od' : List Nat)
    (hp : port < 65536) (hp' : port' < 65536)
    (hv : validateToken a now token src' dst' addr' port' = VR.accept od') :
    src' = src ∧ addr' = addr ∧ port' = port ∧ dst' = newDst ∧ od' = od := by
  obtain ⟨ad', pt, had', hlen, _, hopen, hpt8, hod, _, _⟩ := validate_accept_spec a now token src' dst' addr' port' od' hv
  unfold makeToken at hmk
  split at hmk <;> simp at hmk
  rename_i ad had
  obtain ⟨htok, hdst⟩ := hmk
  have h4 : (nonce.drop maxConnIDLen).length = 4 := by simp [maxConnIDLen, hn]
  have htake : token.take 4 = nonce.drop maxConnIDLen := by
    rw [← htok, ← h4]; simp
  have hdrop : token.drop 4 = a.aeadSeal nonce (u64be t ++ od) ad := by
    rw [← htok, ← h4]; simp
  have hseal := hOpen _ _ _ _ hopen
  rw [hdrop] at hseal
  obtain ⟨hnn, hpp, hadd⟩ := hInj _ _ _ _ _ _ hseal
  subst hadd
  obtain ⟨hs, ha, hpo⟩ := additionalData_injective src' src addr' addr port' port _ hp' hp had' had
  -- nonce = dst' ++ token[:4]  and  nonce = nonce[:20] ++ nonce[20:]
  have hsplit : nonce = nonce.take maxConnIDLen ++ nonce.drop maxConnIDLen := by simp
  rw [htake] at hnn
  have hdl : (nonce.take maxConnIDLen).length = dst'.length := by
    simp [htake, h4] at hlen
    simp [maxConnIDLen, hn]; omega
  have := List.append_inj (hsplit.symm.trans hnn) hdl
  refine ⟨hs, ha, hpo, ?_, ?_⟩
  · rw [← hdst]; exact this.1.symm
  · rw [hod, ← hpp]; simp [u64be]

/-! ### stateless reset -/

/-- Determinism: the token is a function of key and connection ID (HMAC uninterpreted). -/
theorem resetToken_deterministic (hmac : List Nat → List Nat → List Nat) (k c : List Nat) :
    resetToken hmac k c = (hmac k c).take 16 := rfl

/-- Distinctness is exactly a statement about the first 16 bytes of HMAC. -/
theorem resetToken_distinct_iff (hmac : List Nat → List Nat → List Nat) (k k' c c' : List Nat) :
    resetToken hmac k c ≠ resetToken hmac k' c' ↔ (hmac k c).take 16 ≠ (hmac k' c').take 16 := Iff.rfl

/-! ### non-vacuity: the toy AEAD is a concrete instance, and tokens do get accepted -/

example : (makeToken toy (List.range 24) 1000 [1, 2] [9, 9, 9] [10, 0, 0, 1] 8000).map
    (fun r => validateToken toy (1003 * 1000000000 + 5) r.1 [1, 2] r.2 [10, 0, 0, 1] 8000)
    = some (VR.accept [9, 9, 9]) := by decide
example : (makeToken toy (List.range 24) 1000 [1, 2] [9, 9, 9] [10, 0, 0, 1] 8000).map
    (fun r => validateToken toy (1003 * 1000000000 + 5) r.1 [1, 2] r.2 [10, 0, 0, 1] 8001)
    = some VR.reject := by decide
example : (makeToken toy (List.range 24) 1000 [1, 2] [9, 9, 9] [10, 0, 0, 1] 8000).map
    (fun r => validateToken toy (1006 * 1000000000) r.1 [1, 2] r.2 [10, 0, 0, 1] 8000)
    = some VR.reject := by decide

end NetVerif.Proofs.C31
