import NetVerif.Model.ChanSem
import NetVerif.Proofs.Lemmas.GateInv
import NetVerif.Gen.C29
import NetVerif.Proofs.Lemmas.QueueGlobal
import NetVerif.Proofs.Lemmas.QueueKnow
import NetVerif.Proofs.Lemmas.MonitorSound
/-!
C29 — QUIC gates and queues provide exclusion without lost wakeups.

All theorems quantify over every configuration reachable in the small-step semantics
`Model.ChanSem` from a fresh gate with ANY number of goroutines, each a most general client
that respects the usage protocol, under ANY interleaving, with contexts cancelled at any point.
-/
namespace NetVerif.Proofs.C29
set_option linter.unusedSimpArgs false
open NetVerif.Model.ChanSem NetVerif.Proofs.GateInv

/-! ## T-tie: the DSL terms regenerated from the Go source are the modelled ones -/

/-- `quic/gate.go` (capacities, every select arm, its order, defaults, return values). -/
theorem gen_quic_gate : NetVerif.Gen.C29.quicGate = gate := by decide

/-- `internal/gate/gate.go` has the same methods (only the constructor argument differs). -/
theorem gen_internal_gate : NetVerif.Gen.C29.internalGate = gateInternal := by decide

/-- `quic/queue.go`. -/
theorem gen_quic_queue : NetVerif.Gen.C29.quicQueue = queue := by decide

/-- The semantics only looks at the method bodies and capacities, which coincide: every
theorem below about `gate` is a theorem about `internal/gate` as well. -/
theorem internal_gate_same_semantics :
    GConfig.step gateInternal = GConfig.step gate ∧ GConfig.init gateInternal = GConfig.init gate ∧
    GConfig.initLocked gateInternal = GConfig.initLocked gate := ⟨rfl, rfl, rfl⟩

/-! ## Gate -/

/-- The global invariant of a gate. -/
structure GInv (c : GConfig) : Prop where
  swf : SWf c.σ
  wf : ∀ g ∈ c.gs, GG.wf g
  /-- tokens(set) + tokens(unset) + holders = 1 -/
  tok : tokens c.σ + holders c.gs = 1
  /-- while nobody holds the gate, the token is in `set` iff the last unlock set the condition -/
  cond : holders c.gs = 0 → ((c.σ .set).len = 1 ↔ c.cond = true)

theorem ginv_init (b : Bool) (n : Nat) : GInv (GConfig.init gate b n) := by
  have hh : holders (List.replicate n ({} : GG)) = 0 := by
    induction n with
    | zero => rfl
    | succ n ih => simp [List.replicate_succ, holders, b2n]
  constructor
  · simp [SWf, GConfig.init, gateStore, gate]
  · intro g hg
    simp [GConfig.init] at hg
    rw [hg.2]; simp [GG.wf]
  · simp only [GConfig.init, hh]; cases b <;> simp [tokens, gateStore]
  · intro _; cases b <;> simp [GConfig.init, gateStore]

theorem ginv_initLocked (n : Nat) : GInv (GConfig.initLocked gate n) := by
  have hh : holders (List.replicate n ({} : GG)) = 0 := by
    induction n with
    | zero => rfl
    | succ n ih => simp [List.replicate_succ, holders, b2n]
  constructor
  · simp [SWf, GConfig.initLocked, gateStore, gate]
  · intro g hg
    simp [GConfig.initLocked] at hg
    rcases hg with rfl | hg
    · simp [GG.wf]
    · rw [hg.2]; simp [GG.wf]
  · simp [GConfig.initLocked, holders, b2n, tokens, gateStore]
  · simp [GConfig.initLocked, holders, b2n]

/-- Unfolding one system step. -/
theorem gstep_cases {c c' : GConfig} {i : Nat} {a : GAct} (h : c.step gate i a = some c') :
    ∃ g σ' g', c.gs[i]? = some g ∧ g.step gate c.σ a = some (σ', g') ∧
      c' = { σ := σ', gs := c.gs.set i g',
             cond := if g.meth.isUnlock && !g.cont.isEmpty && g'.cont.isEmpty then g.arg else c.cond } := by
  simp only [GConfig.step] at h
  split at h
  · simp at h
  · rename_i g hg
    split at h
    · simp at h
    · rename_i σ' g' hs
      simp only [Option.some.injEq] at h
      exact ⟨g, σ', g', hg, hs, h.symm⟩

theorem ginv_step {c c' : GConfig} {i : Nat} {a : GAct} (hI : GInv c)
    (h : c.step gate i a = some c') : GInv c' := by
  obtain ⟨g, σ', g', hg, hs, rfl⟩ := gstep_cases h
  have hmem : g ∈ c.gs := List.mem_of_getElem? hg
  have F := step_local hI.swf (hI.wf g hmem) hs
  have hset := holders_set c.gs i g g' hg
  have htok := hI.tok
  constructor
  · exact F.swf
  · intro x hx
    rcases List.mem_or_eq_of_mem_set hx with hx | rfl
    · exact hI.wf x hx
    · exact F.wf
  · have := F.cons
    simp only at *
    omega
  · intro h0
    simp only at h0 ⊢
    cases hh : g.holding <;> cases hh' : g'.holding
    · -- token not involved
      have hσ := F.frame (by rw [hh, hh'])
      have hcond : (g.meth.isUnlock && !g.cont.isEmpty && g'.cont.isEmpty) = false := by
        cases hm : g.meth <;> simp [GMeth.isUnlock]
        intro hne he
        have := F.unl hm (by intro hc; simp [hc] at hne) (by simpa using he)
        simp [hh] at this
      simp only [hcond, hσ]
      apply hI.cond
      simp [hh, hh', b2n] at hset; omega
    · simp [hh, hh', b2n] at hset; omega
    · obtain ⟨hm, hne, he, _, hs1, _⟩ := F.release hh hh'
      have hcond : (g.meth.isUnlock && !g.cont.isEmpty && g'.cont.isEmpty) = true := by
        simp [hm, GMeth.isUnlock, he]; intro hc; exact hne (by simpa using hc)
      have h1 := holders_pos hg hh
      simp only [hcond, if_true, hs1]
      simp [tokens] at htok
      cases hb : g.arg <;> simp [b2n] <;> omega
    · have h1 := holders_pos hg hh
      simp [hh, hh', b2n] at hset; omega

/-- **Invariant** for every reachable configuration, any number of goroutines. -/
theorem gate_invariant {c : GConfig} (h : GReachable gate c) : GInv c := by
  induction h with
  | init b n => exact ginv_init b n
  | initLocked n => exact ginv_initLocked n
  | step _ hs ih => exact ginv_step ih hs

/-- `tokens(set) + tokens(unset) + holders = 1` in every reachable configuration. -/
theorem gate_token_conservation {c : GConfig} (h : GReachable gate c) :
    (c.σ .set).len + (c.σ .unset).len + holders c.gs = 1 := (gate_invariant h).tok

/-- **Mutual exclusion**: at most one goroutine holds the gate. -/
theorem gate_mutual_exclusion {c : GConfig} (h : GReachable gate c) : holders c.gs ≤ 1 := by
  have := (gate_invariant h).tok; omega

/-- Mutual exclusion, index form: two goroutines that hold the gate are the same goroutine. -/
theorem gate_mutual_exclusion_idx {c : GConfig} (h : GReachable gate c) {i j : Nat} {g1 g2 : GG}
    (h1 : c.gs[i]? = some g1) (h2 : c.gs[j]? = some g2)
    (hh1 : g1.holding = true) (hh2 : g2.holding = true) : i = j :=
  holders_unique (gate_mutual_exclusion h) h1 h2 hh1 hh2

/-- Results are truthful: between calls a goroutine believes it owns the gate (its last call
was `lock`, a `lockIfSet` that returned true, or a `waitAndLock` that returned nil, and it has
not unlocked since) iff it actually holds the token.  So owners exclude each other too. -/
theorem gate_owner_iff_holder {c : GConfig} (h : GReachable gate c) {i : Nat} {g : GG}
    (hg : c.gs[i]? = some g) (hidle : g.cont = []) : g.owns = g.holding := by
  have := (gate_invariant h).wf g (List.mem_of_getElem? hg)
  rcases this with ⟨_, ho⟩ | ⟨_, _, hh⟩ | ⟨_, _, _, hh⟩
  · exact ho
  · rcases hh with ⟨_, hh⟩ | ⟨_, hh | hh⟩ | ⟨_, hh⟩ <;> simp [hh, gate] at hidle
  · cases hb : g.arg <;> simp [hh, hb, gate, instantiate] at hidle

theorem gate_owners_exclusive {c : GConfig} (h : GReachable gate c) {i j : Nat} {g1 g2 : GG}
    (h1 : c.gs[i]? = some g1) (h2 : c.gs[j]? = some g2)
    (hi1 : g1.cont = []) (hi2 : g2.cont = [])
    (ho1 : g1.owns = true) (ho2 : g2.owns = true) : i = j :=
  gate_mutual_exclusion_idx h h1 h2 (by rw [← gate_owner_iff_holder h h1 hi1]; exact ho1)
    (by rw [← gate_owner_iff_holder h h2 hi2]; exact ho2)

/-- The facts about one step of goroutine `i`, lifted to configurations. -/
theorem gstep_facts {c c' : GConfig} {i : Nat} {a : GAct} (hr : GReachable gate c)
    (h : c.step gate i a = some c') :
    ∃ g g', c.gs[i]? = some g ∧ c'.gs[i]? = some g' ∧ StepFacts c.σ g c'.σ g' ∧
      c'.gs = c.gs.set i g' ∧
      c'.cond = (if g.meth.isUnlock && !g.cont.isEmpty && g'.cont.isEmpty then g.arg else c.cond) := by
  obtain ⟨g, σ', g', hg, hs, rfl⟩ := gstep_cases h
  have hI := gate_invariant hr
  have F := step_local hI.swf (hI.wf g (List.mem_of_getElem? hg)) hs
  refine ⟨g, g', hg, ?_, F, rfl, rfl⟩
  have hlt : i < c.gs.length := by
    rcases Nat.lt_or_ge i c.gs.length with h | h
    · exact h
    · rw [List.getElem?_eq_none h] at hg; simp at hg
  simp [hlt]

/-- **`waitAndLock` returns only once the condition is set, or its context is done**:
whenever a step completes a `waitAndLock` call, either it returned nil having received the
token from `set` (nobody held the gate and the last unlock had set the condition), or it
returned an error, the context had been cancelled and the gate was not acquired. -/
theorem waitAndLock_returns_only_when_set_or_ctx_done {c c' : GConfig} {i : Nat} {a : GAct}
    (hr : GReachable gate c) (h : c.step gate i a = some c') {g g' : GG}
    (hg : c.gs[i]? = some g) (hg' : c'.gs[i]? = some g')
    (hm : g.meth = .waitAndLock) (hrun : g.cont ≠ []) (hdone : g'.cont = []) :
    (g'.last = some .nil ∧ g'.holding = true ∧ g'.owns = true ∧ g'.took = some .set ∧
       holders c.gs = 0 ∧ c.cond = true) ∨
    (g'.last = some .err ∧ g.ctx = true ∧ g'.holding = false ∧ g'.owns = false ∧ c'.σ = c.σ) := by
  obtain ⟨g0, g0', hg0, hg0', F, _⟩ := gstep_facts hr h
  rw [hg] at hg0; cases hg0
  rw [hg'] at hg0'; cases hg0'
  have hI := gate_invariant hr
  have hwf' := F.wf
  have hown : g'.owns = g'.holding := by
    rcases hwf' with ⟨_, ho⟩ | ⟨_, _, hh⟩ | ⟨_, _, _, hh⟩
    · exact ho
    · rcases hh with ⟨_, hh⟩ | ⟨_, hh | hh⟩ | ⟨_, hh⟩ <;> simp [hh, gate] at hdone
    · cases hb : g'.arg <;> simp [hh, hb, gate, instantiate] at hdone
  rcases F.wait hm hrun hdone with ⟨h1, h2, h3, h4⟩ | ⟨h1, h2, h3, h4⟩
  · left
    have htok := hI.tok
    have hswf := hI.swf
    simp [tokens] at htok
    have h0 : holders c.gs = 0 := by omega
    refine ⟨h1, h2, by rw [hown, h2], h3, h0, ?_⟩
    exact (hI.cond h0).mp (by omega)
  · right
    exact ⟨h1, h2, h3, by rw [hown, h3], h4⟩

/-- `lock` reports the condition: it returns `true` iff the last unlock had set it. -/
theorem lock_reports_condition {c c' : GConfig} {i : Nat} {a : GAct}
    (hr : GReachable gate c) (h : c.step gate i a = some c') {g g' : GG}
    (hg : c.gs[i]? = some g) (hg' : c'.gs[i]? = some g')
    (hm : g.meth = .lock) (hrun : g.cont ≠ []) (hdone : g'.cont = []) :
    g'.holding = true ∧ holders c.gs = 0 ∧ g'.last = some (if c.cond then .tt else .ff) := by
  obtain ⟨g0, g0', hg0, hg0', F, _⟩ := gstep_facts hr h
  rw [hg] at hg0; cases hg0
  rw [hg'] at hg0'; cases hg0'
  have hI := gate_invariant hr
  obtain ⟨hnh, hh'⟩ := F.lockDone hm hrun hdone
  have htok := hI.tok
  simp [tokens] at htok
  obtain ⟨_, _, _, hk⟩ := F.acquire hnh hh'
  have h0 : holders c.gs = 0 := by
    rcases hk with ⟨_, hl, _⟩ | ⟨_, hl, _⟩ <;> omega
  refine ⟨hh', h0, ?_⟩
  have hc := hI.cond h0
  rcases hk with ⟨_, hl, hl2⟩ | ⟨_, hl, _, hl2⟩
  · have : c.cond = true := hc.mp (by omega)
    simp [this, hl2 hm]
  · have : c.cond = false := by
      cases hx : c.cond
      · rfl
      · have := hc.mpr hx; omega
    simp [this, hl2]

/-- `lockIfSet` acquires iff the token is in `set` (gate free and condition set). -/
theorem lockIfSet_acquires_iff_set {c c' : GConfig} {i : Nat} {a : GAct}
    (hr : GReachable gate c) (h : c.step gate i a = some c') {g g' : GG}
    (hg : c.gs[i]? = some g) (hg' : c'.gs[i]? = some g')
    (hm : g.meth = .lockIfSet) (hrun : g.cont ≠ []) (hdone : g'.cont = []) :
    (g'.last = some .tt ∧ g'.holding = true ∧ holders c.gs = 0 ∧ c.cond = true) ∨
    (g'.last = some .ff ∧ g'.holding = false ∧ (c.σ .set).len = 0 ∧ c'.σ = c.σ) := by
  obtain ⟨g0, g0', hg0, hg0', F, _⟩ := gstep_facts hr h
  rw [hg] at hg0; cases hg0
  rw [hg'] at hg0'; cases hg0'
  have hI := gate_invariant hr
  rcases F.lockIfSet hm hrun hdone with ⟨h1, h2, _, h4⟩ | ⟨h1, h2, h3, h4⟩
  · left
    have htok := hI.tok
    simp [tokens] at htok
    have h0 : holders c.gs = 0 := by omega
    exact ⟨h1, h2, h0, (hI.cond h0).mp (by omega)⟩
  · right; exact ⟨h1, h3, h2, h4⟩

/-- While the gate is free with the condition set, the token sits in `set`. -/
theorem free_and_set_iff_token {c : GConfig} (hr : GReachable gate c) :
    (holders c.gs = 0 ∧ c.cond = true) ↔ (c.σ .set).len = 1 := by
  have hI := gate_invariant hr
  have htok := hI.tok
  simp [tokens] at htok
  constructor
  · rintro ⟨h0, hc⟩; exact (hI.cond h0).mpr hc
  · intro h1
    have h0 : holders c.gs = 0 := by omega
    exact ⟨h0, (hI.cond h0).mp h1⟩

/-- **No lost wakeup**: if the gate is free and the last unlock set the condition, every
goroutine blocked anywhere in `waitAndLock` has its receive from `set` enabled, and that step
returns nil with the gate acquired. -/
theorem no_lost_wakeup {c : GConfig} (hr : GReachable gate c)
    (hfree : holders c.gs = 0) (hset : c.cond = true)
    {i : Nat} {g : GG} (hg : c.gs[i]? = some g) (hm : g.meth = .waitAndLock) (hrun : g.cont ≠ []) :
    ∃ c' g', c.step gate i (.run (.arm 0)) = some c' ∧ c'.gs[i]? = some g' ∧
      g'.cont = [] ∧ g'.last = some .nil ∧ g'.holding = true ∧ g'.owns = true := by
  have hI := gate_invariant hr
  have h1 : (c.σ .set).len = 1 := (free_and_set_iff_token hr).mp ⟨hfree, hset⟩
  have hlt : i < c.gs.length := by
    rcases Nat.lt_or_ge i c.gs.length with h | h
    · exact h
    · rw [List.getElem?_eq_none h] at hg; simp at hg
  obtain rfl : c.gs[i] = g := by simpa [List.getElem?_eq_getElem hlt] using hg
  rcases hI.wf _ (List.mem_of_getElem? hg) with ⟨hc, _⟩ | ⟨_, _, hh⟩ | ⟨_, _, hm', _⟩
  · exact absurd hc hrun
  · rcases hh with ⟨hm', _⟩ | ⟨_, hc | hc⟩ | ⟨hm', _⟩
    · rw [hm] at hm'; cases hm'
    · simp [GConfig.step, hg, GG.step, hc, gate, Sel.step, Arm.enabled, h1, GG.after, hlt,
        holdAfter, acquired, hm]
    · simp [GConfig.step, hg, GG.step, hc, gate, Sel.step, Arm.enabled, h1, GG.after, hlt,
        holdAfter, acquired, hm]
    · rw [hm] at hm'; cases hm'
  · rw [hm] at hm'; cases hm'

/-- The same for a blocked `lock`: whichever channel holds the token, a receive is enabled. -/
theorem lock_enabled_when_free {c : GConfig} (hr : GReachable gate c) (hfree : holders c.gs = 0)
    {i : Nat} {g : GG} (hg : c.gs[i]? = some g) (hm : g.meth = .lock) (hrun : g.cont ≠ []) :
    ∃ k c' g', c.step gate i (.run (.arm k)) = some c' ∧ c'.gs[i]? = some g' ∧
      g'.cont = [] ∧ g'.holding = true ∧ g'.owns = true := by
  have hI := gate_invariant hr
  have htok := hI.tok
  simp [tokens, hfree] at htok
  have hlt : i < c.gs.length := by
    rcases Nat.lt_or_ge i c.gs.length with h | h
    · exact h
    · rw [List.getElem?_eq_none h] at hg; simp at hg
  obtain rfl : c.gs[i] = g := by simpa [List.getElem?_eq_getElem hlt] using hg
  rcases hI.wf _ (List.mem_of_getElem? hg) with ⟨hc, _⟩ | ⟨_, _, hh⟩ | ⟨_, _, hm', _⟩
  · exact absurd hc hrun
  · rcases hh with ⟨_, hc⟩ | ⟨hm', _⟩ | ⟨hm', _⟩
    · by_cases h1 : (c.σ .set).len = 1
      · refine ⟨0, ?_⟩
        simp [GConfig.step, hg, GG.step, hc, gate, Sel.step, Arm.enabled, h1, GG.after, hlt,
          holdAfter, acquired, hm]
      · have h2 : (c.σ .unset).len = 1 := by omega
        refine ⟨1, ?_⟩
        simp [GConfig.step, hg, GG.step, hc, gate, Sel.step, Arm.enabled, h2, GG.after, hlt,
          holdAfter, acquired, hm]
    · rw [hm] at hm'; cases hm'
    · rw [hm] at hm'; cases hm'
  · rw [hm] at hm'; cases hm'

/-- The wakeup token is stable: once it is in `set`, every step either leaves it there or is
the receive by which the stepping goroutine acquires the gate from `set`. -/
theorem set_token_stable {c c' : GConfig} {i : Nat} {a : GAct}
    (hr : GReachable gate c) (h : c.step gate i a = some c') (h1 : (c.σ .set).len = 1) :
    ((c'.σ .set).len = 1 ∧ c'.cond = c.cond) ∨
    (∃ g', c'.gs[i]? = some g' ∧ g'.holding = true ∧ g'.owns = true ∧ g'.took = some .set) := by
  obtain ⟨g, g', hg, hg', F, _, hcond⟩ := gstep_facts hr h
  have hI := gate_invariant hr
  have htok := hI.tok
  simp [tokens] at htok
  have h0 : holders c.gs = 0 := by omega
  have hnh : g.holding = false := holders_zero h0 g (List.mem_of_getElem? hg)
  cases hh' : g'.holding
  · left
    have hσ := F.frame (by rw [hh', hnh])
    refine ⟨by rw [hσ]; exact h1, ?_⟩
    rw [hcond]
    have : (g.meth.isUnlock && !g.cont.isEmpty && g'.cont.isEmpty) = false := by
      cases hm : g.meth <;> simp [GMeth.isUnlock]
      intro hne he
      have := F.unl hm (by intro hc; simp [hc] at hne) (by simpa using he)
      simp [hnh] at this
    simp [this]
  · right
    obtain ⟨_, _, ho, hk⟩ := F.acquire hnh hh'
    refine ⟨g', hg', hh', ho, ?_⟩
    rcases hk with ⟨ht, _⟩ | ⟨_, hl, _⟩
    · exact ht
    · omega

/-- `unlock` never blocks: the send of a goroutine inside `unlock` is always enabled. -/
theorem unlock_never_blocks {c : GConfig} (hr : GReachable gate c)
    {i : Nat} {g : GG} (hg : c.gs[i]? = some g) (hm : g.meth = .unlock) (hrun : g.cont ≠ []) :
    ∃ c', c.step gate i (.run (.arm 0)) = some c' := by
  have hI := gate_invariant hr
  have htok := hI.tok
  obtain ⟨c1, c2, _, _⟩ := hI.swf
  simp [tokens] at htok
  rcases hI.wf g (List.mem_of_getElem? hg) with ⟨hc, _⟩ | ⟨_, _, hh⟩ | ⟨hh, _, _, hc⟩
  · exact absurd hc hrun
  · rcases hh with ⟨hm', _⟩ | ⟨hm', _⟩ | ⟨hm', _⟩ <;> (rw [hm] at hm'; cases hm')
  · have := holders_pos hg hh
    have hs : (c.σ .set).len = 0 := by omega
    have hu : (c.σ .unset).len = 0 := by omega
    cases hb : g.arg <;> simp [hb, gate, instantiate] at hc <;>
      simp [GConfig.step, hg, GG.step, hc, Sel.step, Arm.enabled, hs, hu, c1, c2]

/-- Completing `unlock(b)` frees the gate and records `b`: afterwards nobody holds the gate,
the condition is `b`, and the token is in `set` iff `b`. -/
theorem unlock_sets_condition {c c' : GConfig} {i : Nat} {a : GAct}
    (hr : GReachable gate c) (h : c.step gate i a = some c') {g g' : GG}
    (hg : c.gs[i]? = some g) (hg' : c'.gs[i]? = some g')
    (hm : g.meth = .unlock) (hrun : g.cont ≠ []) (hdone : g'.cont = []) :
    holders c'.gs = 0 ∧ c'.cond = g.arg ∧ ((c'.σ .set).len = 1 ↔ g.arg = true) ∧ g'.owns = false := by
  obtain ⟨g0, g0', hg0, hg0', F, hgs, hcond⟩ := gstep_facts hr h
  rw [hg] at hg0; cases hg0
  rw [hg'] at hg0'; cases hg0'
  have hI := gate_invariant hr
  have hI' := gate_invariant (GReachable.step hr h)
  obtain ⟨hh, hh'⟩ := F.unl hm hrun hdone
  obtain ⟨_, _, _, ho, _, _⟩ := F.release hh hh'
  have hset := holders_set c.gs i g g' hg
  have := holders_pos hg hh
  have htok := hI.tok
  have h0 : holders c'.gs = 0 := by
    rw [hgs]; simp [hh, hh', b2n] at hset; omega
  have hc : c'.cond = g.arg := by
    rw [hcond]; simp [hm, GMeth.isUnlock, hdone]
    intro hx; exact absurd hx hrun
  refine ⟨h0, hc, ?_, ho⟩
  rw [← hc]; exact hI'.cond h0

/-! ## Queue

Configurations: the gate's channels, the shared fields `err`/`q`, ghost histories
`accepted`/`delivered`, and any number of goroutines each calling `put` / `get` / `close` in any
order (`QReachable queue gate`).  Goroutines interleave at every channel operation and between
any two statements. -/

open NetVerif.Proofs.QueueInv

/-- **Invariant** of every reachable queue configuration. -/
theorem queue_invariant_all {c : QConfig} (h : QReachable queue gate c) : QInv c := queue_invariant h

/-- At most one goroutine holds the queue's gate. -/
theorem queue_mutual_exclusion {c : QConfig} (h : QReachable queue gate c) : qholders c.gs ≤ 1 := by
  have := (queue_invariant h).tok; omega

/-- **Consequently** the shared fields are only ever touched by the goroutine that holds the
gate (and there is exactly one holder then): the queue methods are free of data races, which
is what makes treating each data statement as one step sound. -/
theorem queue_data_access_exclusive {c c' : QConfig} {i : Nat} {a : QAct}
    (h : QReachable queue gate c) (hs : c.step queue gate i a = some c') (hne : c'.sh ≠ c.sh) :
    ∃ qg, c.gs[i]? = some qg ∧ qg.g.holding = true ∧ qg.g.cont = [] ∧ qholders c.gs = 1 := by
  obtain ⟨qg, σ', sh', qg', hg, hst, rfl⟩ := qstep_cases hs
  have hI := queue_invariant h
  have F := qstep_local hI.swf (hI.wf qg (List.mem_of_getElem? hg)) hst
  obtain ⟨hh, hc, _, _⟩ := F.excl hne
  refine ⟨qg, hg, hh, hc, ?_⟩
  have h1 := holders_pos (gs := c.gs.map (·.g)) (i := i) (g := qg.g) (by simp [hg]) hh
  have := hI.tok
  simp only [qholders] at *
  omega

/-- **FIFO, exactly once**: at every point of every interleaving, the items accepted by `put`
(in the order of their appends) are exactly the items delivered by `get` (in order) followed by
the items still queued.  So every delivered item was put, nothing is delivered twice or out of
order, and nothing queued is lost while the queue is open. -/
theorem queue_fifo {c : QConfig} (h : QReachable queue gate c) :
    c.sh.accepted = c.sh.delivered ++ c.sh.q := (queue_invariant h).fifo

theorem queue_delivered_is_prefix_of_accepted {c : QConfig} (h : QReachable queue gate c) :
    c.sh.delivered <+: c.sh.accepted := ⟨c.sh.q, (queue_fifo h).symm⟩

/-- `queue.unlock` recomputes the condition: while the gate is free, the wake-up token is in
`set` iff the queue is closed or non-empty. -/
theorem queue_condition_recomputed {c : QConfig} (h : QReachable queue gate c)
    (hfree : qholders c.gs = 0) :
    (c.σ .set).len = 1 ↔ (c.sh.err = true ∨ c.sh.q ≠ []) := by
  rw [(queue_invariant h).cond hfree]
  simp [condVal]

theorem wait_step_enabled {σ : Store GCh} {g : GG} (hwf : GG.wf g) (hm : g.meth = .waitAndLock)
    (hrun : g.cont ≠ []) (h1 : (σ .set).len = 1) :
    ∃ σ' g', g.step gate σ (.run (.arm 0)) = some (σ', g') ∧ g'.cont = [] ∧
      g'.last = some .nil ∧ g'.holding = true := by
  rcases hwf with ⟨hc, _⟩ | ⟨_, _, hh⟩ | ⟨_, _, hm', _⟩
  · exact absurd hc hrun
  · rcases hh with ⟨hm', _⟩ | ⟨_, hc | hc⟩ | ⟨hm', _⟩
    · rw [hm] at hm'; cases hm'
    · simp [GG.step, hc, gate, Sel.step, Arm.enabled, h1, GG.after, holdAfter]
      exact ⟨_, _, ⟨rfl, rfl⟩, rfl, rfl, rfl⟩
    · simp [GG.step, hc, gate, Sel.step, Arm.enabled, h1, GG.after, holdAfter]
      exact ⟨_, _, ⟨rfl, rfl⟩, rfl, rfl, rfl⟩
    · rw [hm] at hm'; cases hm'
  · rw [hm] at hm'; cases hm'

/-- **A blocked get returns as soon as an item or close arrives; close wakes every blocked
getter**: whenever the gate is free and the queue is closed or non-empty, EVERY goroutine
blocked in `get` (anywhere inside `waitAndLock`) has its receive from `set` enabled, and that
step makes `waitAndLock` return nil with the gate acquired.  (After `close`, `err` stays set —
`queue_close_permanent` — so each woken getter unlocks with the condition set again and the
token returns to `set` for the next one.) -/
theorem queue_blocked_get_wakes {c : QConfig} (h : QReachable queue gate c)
    (hfree : qholders c.gs = 0) (hcond : c.sh.err = true ∨ c.sh.q ≠ [])
    {i : Nat} {qg : QG} (hg : c.gs[i]? = some qg) (hm : qg.g.meth = .waitAndLock)
    (hrun : qg.g.cont ≠ []) :
    ∃ c' qg', c.step queue gate i (.gate (.run (.arm 0))) = some c' ∧ c'.gs[i]? = some qg' ∧
      qg'.g.cont = [] ∧ qg'.g.last = some .nil ∧ qg'.g.holding = true := by
  have hI := queue_invariant h
  have h1 := (queue_condition_recomputed h hfree).mpr hcond
  obtain ⟨hwf, _, _⟩ := hI.wf qg (List.mem_of_getElem? hg)
  obtain ⟨σ', g', hst, hc, hl, hh⟩ := wait_step_enabled hwf hm hrun h1
  have hlt : i < c.gs.length := (List.getElem?_eq_some_iff.mp hg).1
  refine ⟨{ σ := σ', sh := c.sh, gs := c.gs.set i { qg with g := g' } }, { qg with g := g' }, ?_, ?_, hc, hl, hh⟩
  · simp [QConfig.step, hg, QG.step, hst]
  · simp [hlt]

/-- Closing is permanent. -/
theorem queue_close_permanent {c c' : QConfig} {i : Nat} {a : QAct}
    (h : QReachable queue gate c) (hs : c.step queue gate i a = some c') (hcl : c.sh.err = true) :
    c'.sh.err = true := by
  obtain ⟨qg, σ', sh', qg', hg, hst, rfl⟩ := qstep_cases hs
  have hI := queue_invariant h
  exact (qstep_local hI.swf (hI.wf qg (List.mem_of_getElem? hg)) hst).closed hcl

/-- Full statement: `get` never indexes an empty slice. -/
def queue_get_never_panics_Statement : Prop :=
  ∀ c, QReachable queue gate c → ∀ qg ∈ c.gs, qg.panicked = false

/-- **`get` never pops an empty queue**: under the gate, whenever the dequeue statement runs,
`len(q.q) > 0` — `waitAndLock` only acquires from `set`, the token is in `set` only if the queue
is closed or non-empty (`queue_condition_recomputed`), nobody else touches the fields meanwhile
(`queue_data_access_exclusive`), and `get` has checked `q.err == nil` before it pops. -/
theorem queue_get_never_panics : queue_get_never_panics_Statement := by
  intro c h qg hqg
  obtain ⟨j, hj⟩ := List.mem_iff_getElem?.mp hqg
  exact ((queue_invariant_know h).know j qg hj).nopanic

/-- Full statement: once the queue is closed no `put` appends anything. -/
def queue_put_after_close_rejected_Statement : Prop :=
  ∀ c c' i a, QReachable queue gate c → c.step queue gate i a = some c' → c.sh.err = true →
    c'.sh.accepted = c.sh.accepted

theorem queue_put_after_close_rejected : queue_put_after_close_rejected_Statement := by
  intro c c' i a h hs he
  rw [(qinvk_step (queue_invariant_know h) hs).2.1 he]

/-- **What holds for "every item put before it was closed is delivered exactly once, in FIFO
order"** (C29, queue clause), at every point of every interleaving:
1. accepted = delivered ++ queued;
2. a step changes the shared fields in exactly one of three ways: it sets `err`; or — only while
   the queue is OPEN — it appends one item at the back (recording it as accepted) or removes the
   FRONT item (recording it as delivered).  So the k-th delivered item is the k-th accepted one:
   exactly once, in FIFO order, nothing skipped, as long as close does not intervene;
3. once the queue is closed NOTHING changes any more: no item is accepted and none is
   delivered, i.e. the queued remainder `accepted − delivered` is discarded, as documented on
   `queue.close` ("causing pending and future pop operations to return immediately with err"). -/
theorem queue_items_before_close {c : QConfig} (h : QReachable queue gate c) :
    c.sh.accepted = c.sh.delivered ++ c.sh.q ∧
    (∀ c' i a, c.step queue gate i a = some c' →
      c'.sh = c.sh ∨ c'.sh = { c.sh with err := true } ∨
      (c.sh.err = false ∧ ∃ x, c'.sh = { c.sh with q := c.sh.q ++ [x], accepted := c.sh.accepted ++ [x] }) ∨
      (c.sh.err = false ∧ ∃ x r, c.sh.q = x :: r ∧
        c'.sh = { c.sh with q := r, delivered := c.sh.delivered ++ [x] })) ∧
    (c.sh.err = true → ∀ c' i a, c.step queue gate i a = some c' → c'.sh = c.sh) := by
  refine ⟨queue_fifo h, ?_, ?_⟩
  · intro c' i a hs
    obtain ⟨_, hfrozen, hkind⟩ := qinvk_step (queue_invariant_know h) hs
    cases he : c.sh.err
    · rcases hkind with h1 | h1 | h1 | h1
      · exact Or.inl h1
      · exact Or.inr (Or.inl h1)
      · exact Or.inr (Or.inr (Or.inl ⟨rfl, h1⟩))
      · exact Or.inr (Or.inr (Or.inr ⟨rfl, h1⟩))
    · exact Or.inl (hfrozen he)
  · intro he c' i a hs
    exact (qinvk_step (queue_invariant_know h) hs).2.1 he

/-- The literal strongest reading — nothing is left in the queue once it is closed, i.e. every
accepted item is delivered even if `close` intervenes — is what the code deliberately does NOT
do. -/
def queue_items_survive_close_Statement : Prop :=
  ∀ c, QReachable queue gate c → c.sh.err = true → c.sh.q = []

/-! ## V-tie: soundness of the trace monitors -/

open NetVerif.Model.ChanSemMonitor in
/-- Every gate trace the monitor accepts has at most one goroutine inside the gate at every
prefix. -/
theorem gate_monitor_sound (b : Bool) (es : List GEv) (m' : GMon)
    (h : ({ holder := none, cond := b } : GMon).run es = .ok m') :
    ∀ pre suf, es = pre ++ suf → (inside [] pre).length ≤ 1 :=
  NetVerif.Proofs.MonitorSound.gate_monitor_sound b es m' h

open NetVerif.Model.ChanSemMonitor in
/-- Every queue trace the monitor accepts delivers no item twice. -/
theorem queue_monitor_no_duplicates (es : List QEv) (m' : QMon)
    (h : ({} : QMon).run es = .ok m') : (deliveredOf es).Nodup :=
  NetVerif.Proofs.MonitorSound.queue_monitor_no_duplicates es m' h

/-! ## Non-vacuity: concrete reachable configurations -/

def runQ (c : QConfig) : List (Nat × QAct) → Option QConfig
  | [] => some c
  | (i, a) :: r => match c.step queue gate i a with
    | some c' => runQ c' r
    | none => none

theorem reachable_runQ {c c' : QConfig} (steps : List (Nat × QAct)) (h : QReachable queue gate c)
    (hr : runQ c steps = some c') : QReachable queue gate c' := by
  induction steps generalizing c with
  | nil => simp [runQ] at hr; subst hr; exact h
  | cons s r ih =>
    obtain ⟨i, a⟩ := s
    simp only [runQ] at hr
    split at hr
    · rename_i c1 hs; exact ih (QReachable.step h hs) hr
    · simp at hr

/-- Goroutine 1 calls `get` and blocks in `waitAndLock` (default arm taken: the queue is empty);
goroutine 0 runs a whole `put 7` (lock from `unset`, defer, check, append, return, deferred unlock
with the recomputed condition = true).  Afterwards the gate is free, the token is in `set`, the
item is queued, and the blocked getter is exactly in the situation of `queue_blocked_get_wakes`. -/
def demoQ : List (Nat × QAct) :=
  [(1, .call .get 0), (1, .stmt), (1, .gate (.run .dflt)),
   (0, .call .put 7), (0, .stmt), (0, .gate (.run (.arm 1))), (0, .stmt), (0, .stmt), (0, .stmt),
   (0, .stmt), (0, .stmt), (0, .gate (.run (.arm 0))), (0, .stmt)]

example : ∃ c, QReachable queue gate c ∧ qholders c.gs = 0 ∧ c.sh.q = [7] ∧ c.sh.accepted = [7] ∧
    (c.σ .set).len = 1 ∧
    ∃ qg, c.gs[1]? = some qg ∧ qg.g.meth = .waitAndLock ∧ qg.g.cont ≠ [] := by
  have hs : (runQ (QConfig.init gate 2) demoQ).isSome = true := by rfl
  refine ⟨(runQ (QConfig.init gate 2) demoQ).get hs, ?_, by rfl, by rfl, by rfl, by rfl, ?_⟩
  · exact reachable_runQ demoQ (QReachable.init 2) (Option.some_get hs).symm
  · exact ⟨_, rfl, rfl, by decide⟩

/-- One goroutine runs `put 7` to completion and then `close` to completion. -/
def demoClose : List (Nat × QAct) :=
  [(0, .call .put 7), (0, .stmt), (0, .gate (.run (.arm 1))), (0, .stmt), (0, .stmt), (0, .stmt),
   (0, .stmt), (0, .stmt), (0, .gate (.run (.arm 0))), (0, .stmt),
   (0, .call .close 0), (0, .stmt), (0, .gate (.run (.arm 0))), (0, .stmt), (0, .stmt), (0, .stmt),
   (0, .stmt), (0, .gate (.run (.arm 0))), (0, .stmt)]

/-- Witness that the literal reading is false: after `put 7; close` the queue is closed and the
item 7 is still queued; by `queue_items_before_close` (3) it will never be delivered. -/
theorem queue_items_survive_close_full_false : ¬ queue_items_survive_close_Statement := by
  intro hS
  have hs : (runQ (QConfig.init gate 1) demoClose).isSome = true := by rfl
  have hr := reachable_runQ demoClose (QReachable.init 1) (Option.some_get hs).symm
  have := hS _ hr (by rfl)
  have hq : ((runQ (QConfig.init gate 1) demoClose).get hs).sh.q = [7] := by rfl
  rw [hq] at this
  cases this

end NetVerif.Proofs.C29
