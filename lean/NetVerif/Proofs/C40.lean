import NetVerif.Model.HtmlEscape
/-!
C40 — HTML re-serialization: `UnescapeString(EscapeString(s)) = s`, and escaped text cannot
contain markup-significant bytes.  (Token.String and Render→Parse are V-tied Go oracles.)
-/
namespace NetVerif.Proofs.C40
open NetVerif.Gen.C40 NetVerif.Model.HtmlEscape

/-! ### T-tie: the regenerated switch table of func escape is the model's `escByte` -/

theorem gen_escTable_eq :
    escTable = [(38, ampE), (39, aposE), (60, ltE), (62, gtE), (34, quotE), (13, crE)] := by decide

theorem gen_escapedChars_eq : escapedChars = escTable.map (·.1) := by decide

theorem gen_escByte_eq (c : Nat) : escByteGen c = escByte c := by
  unfold escByteGen escByte
  rw [gen_escTable_eq]
  by_cases h1 : c = 38
  · subst h1; rfl
  by_cases h2 : c = 39
  · subst h2; rfl
  by_cases h3 : c = 60
  · subst h3; rfl
  by_cases h4 : c = 62
  · subst h4; rfl
  by_cases h5 : c = 34
  · subst h5; rfl
  by_cases h6 : c = 13
  · subst h6; rfl
  have b1 : (c == 38) = false := by simp [h1]
  have b2 : (c == 39) = false := by simp [h2]
  have b3 : (c == 60) = false := by simp [h3]
  have b4 : (c == 62) = false := by simp [h4]
  have b5 : (c == 34) = false := by simp [h5]
  have b6 : (c == 13) = false := by simp [h6]
  simp only [List.lookup, b1, b2, b3, b4, b5, b6, h1, h2, h3, h4, h5, h6, if_false]

/-! ### Facts about the regenerated entity table used by the round trip -/

private theorem ent_amp : entityLookup [97, 109, 112, 59] = 38 := by decide +kernel
private theorem ent_lt : entityLookup [108, 116, 59] = 60 := by decide +kernel
private theorem ent_gt : entityLookup [103, 116, 59] = 62 := by decide +kernel

private theorem ue_amp (rest : List Nat) (attr : Bool) :
    unescapeEntity (97 :: 109 :: 112 :: 59 :: rest) attr = (38, 0, 5) := by
  have h : scanName (97 :: 109 :: 112 :: 59 :: rest) = [97, 109, 112, 59] := by
    simp [scanName, isAlnum]
  simp [unescapeEntity, namedRef, h, ent_amp]

private theorem ue_lt (rest : List Nat) (attr : Bool) :
    unescapeEntity (108 :: 116 :: 59 :: rest) attr = (60, 0, 4) := by
  have h : scanName (108 :: 116 :: 59 :: rest) = [108, 116, 59] := by
    simp [scanName, isAlnum]
  simp [unescapeEntity, namedRef, h, ent_lt]

private theorem ue_gt (rest : List Nat) (attr : Bool) :
    unescapeEntity (103 :: 116 :: 59 :: rest) attr = (62, 0, 4) := by
  have h : scanName (103 :: 116 :: 59 :: rest) = [103, 116, 59] := by
    simp [scanName, isAlnum]
  simp [unescapeEntity, namedRef, h, ent_gt]

private theorem ue_quot (rest : List Nat) (attr : Bool) :
    unescapeEntity (35 :: 51 :: 52 :: 59 :: rest) attr = (34, 0, 5) := by
  simp [unescapeEntity, numericRef, digitLoop, decDigitVal]

private theorem ue_apos (rest : List Nat) (attr : Bool) :
    unescapeEntity (35 :: 51 :: 57 :: 59 :: rest) attr = (39, 0, 5) := by
  simp [unescapeEntity, numericRef, digitLoop, decDigitVal]

private theorem ue_cr (rest : List Nat) (attr : Bool) :
    unescapeEntity (35 :: 49 :: 51 :: 59 :: rest) attr = (13, 0, 5) := by
  simp [unescapeEntity, numericRef, digitLoop, decDigitVal]

/-! ### Round trip -/

private theorem utf8_ascii (r : Nat) (h : r < 128) : utf8Enc r = [r] := by
  simp [utf8Enc, h]

private theorem unescapeAux_escape (attr : Bool) (s : List Nat) :
    ∀ fuel, (escape s).length ≤ fuel → unescapeAux attr fuel (escape s) = s := by
  induction s with
  | nil =>
    intro fuel _
    cases fuel <;> simp [escape, unescapeAux]
  | cons c t ih =>
    intro fuel hf
    simp only [escape, List.length_append] at hf ⊢
    by_cases h1 : c = 38
    · subst h1
      rw [show escByte 38 = ampE by decide] at hf ⊢
      simp only [ampE, List.length_cons, List.length_nil] at hf
      obtain ⟨f, rfl⟩ : ∃ f, fuel = f + 1 := ⟨fuel - 1, by omega⟩
      simp [ampE, unescapeAux, ue_amp, utf8_ascii]
      exact ih f (by omega)
    by_cases h2 : c = 39
    · subst h2
      rw [show escByte 39 = aposE by decide] at hf ⊢
      simp only [aposE, List.length_cons, List.length_nil] at hf
      obtain ⟨f, rfl⟩ : ∃ f, fuel = f + 1 := ⟨fuel - 1, by omega⟩
      simp [aposE, unescapeAux, ue_apos, utf8_ascii]
      exact ih f (by omega)
    by_cases h3 : c = 60
    · subst h3
      rw [show escByte 60 = ltE by decide] at hf ⊢
      simp only [ltE, List.length_cons, List.length_nil] at hf
      obtain ⟨f, rfl⟩ : ∃ f, fuel = f + 1 := ⟨fuel - 1, by omega⟩
      simp [ltE, unescapeAux, ue_lt, utf8_ascii]
      exact ih f (by omega)
    by_cases h4 : c = 62
    · subst h4
      rw [show escByte 62 = gtE by decide] at hf ⊢
      simp only [gtE, List.length_cons, List.length_nil] at hf
      obtain ⟨f, rfl⟩ : ∃ f, fuel = f + 1 := ⟨fuel - 1, by omega⟩
      simp [gtE, unescapeAux, ue_gt, utf8_ascii]
      exact ih f (by omega)
    by_cases h5 : c = 34
    · subst h5
      rw [show escByte 34 = quotE by decide] at hf ⊢
      simp only [quotE, List.length_cons, List.length_nil] at hf
      obtain ⟨f, rfl⟩ : ∃ f, fuel = f + 1 := ⟨fuel - 1, by omega⟩
      simp [quotE, unescapeAux, ue_quot, utf8_ascii]
      exact ih f (by omega)
    by_cases h6 : c = 13
    · subst h6
      rw [show escByte 13 = crE by decide] at hf ⊢
      simp only [crE, List.length_cons, List.length_nil] at hf
      obtain ⟨f, rfl⟩ : ∃ f, fuel = f + 1 := ⟨fuel - 1, by omega⟩
      simp [crE, unescapeAux, ue_cr, utf8_ascii]
      exact ih f (by omega)
    · have hc : escByte c = [c] := by simp [escByte, h1, h2, h3, h4, h5, h6]
      rw [hc] at hf ⊢
      simp only [List.length_cons, List.length_nil] at hf
      obtain ⟨f, rfl⟩ : ∃ f, fuel = f + 1 := ⟨fuel - 1, by omega⟩
      simp [unescapeAux, h1]
      exact ih f (by omega)

/-- `UnescapeString(EscapeString(s)) == s` for every byte string (and also in attribute mode). -/
theorem unescape_escape (s : List Nat) (attr : Bool) : unescape (escape s) attr = s :=
  unescapeAux_escape attr s _ (Nat.le_refl _)

/-- `EscapeString` is injective (consequence of the round trip). -/
theorem escape_injective (s t : List Nat) (h : escape s = escape t) : s = t := by
  rw [← unescape_escape s false, h, unescape_escape]

/-! ### Escaped text cannot contain markup -/

/-- the entities `escape` can emit -/
def emitted : List (List Nat) := [ampE, aposE, ltE, gtE, quotE, crE]

private theorem escByte_cases (c : Nat) :
    (escByte c ∈ emitted) ∨
    (escByte c = [c] ∧ c ≠ 38 ∧ c ≠ 39 ∧ c ≠ 60 ∧ c ≠ 62 ∧ c ≠ 34 ∧ c ≠ 13) := by
  by_cases h1 : c = 38
  · subst h1; exact Or.inl (by decide)
  by_cases h2 : c = 39
  · subst h2; exact Or.inl (by decide)
  by_cases h3 : c = 60
  · subst h3; exact Or.inl (by decide)
  by_cases h4 : c = 62
  · subst h4; exact Or.inl (by decide)
  by_cases h5 : c = 34
  · subst h5; exact Or.inl (by decide)
  by_cases h6 : c = 13
  · subst h6; exact Or.inl (by decide)
  exact Or.inr ⟨by simp [escByte, h1, h2, h3, h4, h5, h6], h1, h2, h3, h4, h5, h6⟩

private theorem emitted_safe : ∀ e ∈ emitted, ∀ b ∈ e, b ≠ 60 ∧ b ≠ 62 ∧ b ≠ 34 ∧ b ≠ 39 ∧ b ≠ 13 := by
  decide

/-- `escape s` contains none of `<`, `>`, `"`, `'` (nor CR): escaped text can neither open or close
a tag nor leave a quoted attribute value. -/
theorem escape_no_markup (s : List Nat) :
    ∀ b ∈ escape s, b ≠ 60 ∧ b ≠ 62 ∧ b ≠ 34 ∧ b ≠ 39 ∧ b ≠ 13 := by
  induction s with
  | nil => intro b hb; simp [escape] at hb
  | cons c t ih =>
    intro b hb
    simp only [escape, List.mem_append] at hb
    rcases hb with hb | hb
    · rcases escByte_cases c with he | ⟨he, h1, h2, h3, h4, h5, h6⟩
      · exact emitted_safe _ he b hb
      · rw [he] at hb
        simp only [List.mem_singleton] at hb
        subst hb
        exact ⟨h3, h4, h5, h2, h6⟩
    · exact ih b hb

private theorem emitted_amp_first : ∀ e ∈ emitted, ∀ i, e[i]? = some 38 → i = 0 := by
  intro e he i h
  simp only [emitted, List.mem_cons, List.not_mem_nil, or_false] at he
  rcases he with rfl | rfl | rfl | rfl | rfl | rfl <;>
    (rcases i with _ | _ | _ | _ | _ | i <;> simp_all [ampE, aposE, ltE, gtE, quotE, crE])

/-- In `escape s`, every `&` is the first byte of one of the six emitted entities
(`&amp; &#39; &lt; &gt; &#34; &#13;`), i.e. no `&` of the input survives as a bare ampersand. -/
theorem escape_amp_starts_entity (s : List Nat) (i : Nat) (h : (escape s)[i]? = some 38) :
    ∃ e ∈ emitted, e <+: (escape s).drop i := by
  induction s generalizing i with
  | nil => simp [escape] at h
  | cons c t ih =>
    simp only [escape] at h ⊢
    by_cases hi : i < (escByte c).length
    · rw [List.getElem?_append_left hi] at h
      rcases escByte_cases c with he | ⟨he, h1, _⟩
      · have h0 := emitted_amp_first _ he i h
        subst h0
        exact ⟨escByte c, he, by simp⟩
      · rw [he] at h hi
        simp only [List.length_cons, List.length_nil] at hi
        have : i = 0 := by omega
        subst this
        simp at h
        exact absurd h h1
    · have hi' : (escByte c).length ≤ i := by omega
      rw [List.getElem?_append_right hi'] at h
      obtain ⟨e, he, hp⟩ := ih _ h
      refine ⟨e, he, ?_⟩
      rw [List.drop_append, List.drop_of_length_le hi', List.nil_append]
      exact hp

/-- Text without `&` is returned unchanged by `unescape` (both modes). -/
theorem unescape_no_amp (b : List Nat) (attr : Bool) (h : 38 ∉ b) : unescape b attr = b := by
  unfold unescape
  suffices ∀ fuel, b.length ≤ fuel → unescapeAux attr fuel b = b from this _ (Nat.le_refl _)
  induction b with
  | nil => intro fuel _; cases fuel <;> simp [unescapeAux]
  | cons c t ih =>
    intro fuel hf
    simp only [List.length_cons] at hf
    obtain ⟨f, rfl⟩ : ∃ f, fuel = f + 1 := ⟨fuel - 1, by omega⟩
    simp only [List.mem_cons, not_or] at h
    have hc : c ≠ 38 := fun e => h.1 e.symm
    simp [unescapeAux, hc]
    exact ih h.2 f (by omega)

/-! ### Comments: `Token.String` of a comment vs. the tokenizer's `Text()` pipeline

`commentText (escapeComment d)` is what the tokenizer returns as the Data of the comment
`"<!--" ++ escapeComment d ++ "-->"`, PROVIDED its comment scanner ends the data span exactly before
the final `-->` (the scanner itself is not modelled; that part is covered by the Go oracle). -/

private theorem convertNewlines_id (s : List Nat) (h : 13 ∉ s) : convertNewlines s = s := by
  unfold convertNewlines
  induction s with
  | nil => rfl
  | cons c t ih =>
    simp only [List.mem_cons, not_or] at h
    have hc : c ≠ 13 := fun e => h.1 e.symm
    simp [convertNewlinesAux, hc, ih h.2]

private theorem nulToReplacement_id (s : List Nat) (h : 0 ∉ s) : nulToReplacement s = s := by
  induction s with
  | nil => rfl
  | cons c t ih =>
    simp only [List.mem_cons, not_or] at h
    have hc : c ≠ 0 := fun e => h.1 e.symm
    simp [nulToReplacement, hc, ih h.2]

private theorem escapeCommentAux_mem (p : Option Nat) (d : List Nat) (b : Nat)
    (hb : b ∈ escapeCommentAux p d) : (b ∈ d ∧ b ≠ 13) ∨ b ∈ ampE ∨ b ∈ gtE ∨ b ∈ crE := by
  induction d generalizing p with
  | nil => simp [escapeCommentAux] at hb
  | cons c t ih =>
    simp only [escapeCommentAux, List.mem_append] at hb
    rcases hb with hb | hb
    · split at hb
      · exact Or.inr (Or.inl hb)
      · split at hb
        · exact Or.inr (Or.inr (Or.inl hb))
        · split at hb
          · exact Or.inr (Or.inr (Or.inr hb))
          · rename_i h13
            simp only [List.mem_singleton] at hb
            exact Or.inl ⟨by simp [hb], by rw [hb]; exact h13⟩
    · rcases ih _ hb with h | h
      · exact Or.inl ⟨by simp [h.1], h.2⟩
      · exact Or.inr h

private theorem unescapeAux_escapeComment (attr : Bool) (d : List Nat) :
    ∀ (p : Option Nat) fuel, (escapeCommentAux p d).length ≤ fuel →
      unescapeAux attr fuel (escapeCommentAux p d) = d := by
  induction d with
  | nil =>
    intro p fuel _
    cases fuel <;> simp [escapeCommentAux, unescapeAux]
  | cons c t ih =>
    intro p fuel hf
    simp only [escapeCommentAux, List.length_append] at hf ⊢
    by_cases h1 : c = 38
    · subst h1
      simp only [if_true, ampE, List.length_cons, List.length_nil] at hf
      obtain ⟨f, rfl⟩ : ∃ f, fuel = f + 1 := ⟨fuel - 1, by omega⟩
      simp [ampE, unescapeAux, ue_amp, utf8_ascii]
      exact ih _ f (by omega)
    · by_cases h2 : c = 62 ∧ (p = none ∨ p = some 33 ∨ p = some 45)
      · have hE : (if c = 38 then ampE else if c = 62 ∧ (p = none ∨ p = some 33 ∨ p = some 45) then gtE
            else if c = 13 then crE else [c]) = gtE := by rw [if_neg h1, if_pos h2]
        rw [hE] at hf ⊢
        obtain ⟨hc, _⟩ := h2
        subst hc
        simp only [gtE, List.length_cons, List.length_nil] at hf
        obtain ⟨f, rfl⟩ : ∃ f, fuel = f + 1 := ⟨fuel - 1, by omega⟩
        simp [gtE, unescapeAux, ue_gt, utf8_ascii]
        exact ih _ f (by omega)
      · by_cases h3 : c = 13
        · have hE : (if c = 38 then ampE else if c = 62 ∧ (p = none ∨ p = some 33 ∨ p = some 45) then gtE
              else if c = 13 then crE else [c]) = crE := by rw [if_neg h1, if_neg h2, if_pos h3]
          rw [hE] at hf ⊢
          subst h3
          simp only [crE, List.length_cons, List.length_nil] at hf
          obtain ⟨f, rfl⟩ : ∃ f, fuel = f + 1 := ⟨fuel - 1, by omega⟩
          simp [crE, unescapeAux, ue_cr, utf8_ascii]
          exact ih _ f (by omega)
        · have hE : (if c = 38 then ampE else if c = 62 ∧ (p = none ∨ p = some 33 ∨ p = some 45) then gtE
              else if c = 13 then crE else [c]) = [c] := by rw [if_neg h1, if_neg h2, if_neg h3]
          rw [hE] at hf ⊢
          simp only [List.length_cons, List.length_nil] at hf
          obtain ⟨f, rfl⟩ : ∃ f, fuel = f + 1 := ⟨fuel - 1, by omega⟩
          simp [h1, unescapeAux]
          exact ih _ f (by omega)

/-- `unescape (escapeComment d) = d` for every byte string: entity-wise, comments round-trip. -/
theorem unescape_escapeComment (d : List Nat) (attr : Bool) : unescape (escapeComment d) attr = d :=
  unescapeAux_escapeComment attr d none _ (Nat.le_refl _)

/-- `escapeComment` never emits a raw CR (so the tokenizer's newline normalisation cannot touch it). -/
theorem escapeComment_no_cr (d : List Nat) : 13 ∉ escapeComment d := by
  intro h
  rcases escapeCommentAux_mem none d 13 h with h | h | h | h
  · exact h.2 rfl
  · revert h; decide
  · revert h; decide
  · revert h; decide

/-- The comment round-trip statement on the model: for every comment Data the tokenizer can deliver.
`Tokenizer.Text()` replaces every NUL of comment data by U+FFFD, so delivered Data never contains
NUL (that fact about `Text()` is evident from the code and checked by the Go oracle, not proved here);
NUL-free data is therefore the whole domain the property quantifies over. -/
def CommentRoundTripStatement : Prop :=
  ∀ d : List Nat, 0 ∉ d → commentText (escapeComment d) = d

/-- The comment round trip holds (since the `fix:` commit that makes `escapeComment` escape CR; before
it, `d = [13]` was a counterexample). Covers `escapeComment`, `convertNewlines`, the NUL replacement and
`unescape`; NOT covered: that the comment scanner ends the data span exactly at the final `-->`. -/
theorem comment_roundtrip : CommentRoundTripStatement := by
  intro d hnul
  have h13 : 13 ∉ escapeComment d := escapeComment_no_cr d
  have h0 : 0 ∉ escapeComment d := by
    intro h
    rcases escapeCommentAux_mem none d 0 h with h | h | h | h
    · exact hnul h.1
    · revert h; decide
    · revert h; decide
    · revert h; decide
  unfold commentText
  rw [convertNewlines_id _ h13, nulToReplacement_id _ h0, unescape_escapeComment]

-- the former counterexample: comment data "\r" (tokenizer input `<!--&#13;-->`) now round-trips
example : escapeComment [13] = crE ∧ commentText (escapeComment [13]) = [13] := by decide +kernel
-- data with CR LF, `-->`-like pieces and `&`
example : commentText (escapeComment [45, 62, 13, 10, 38, 33, 62]) = [45, 62, 13, 10, 38, 33, 62] := by
  decide +kernel

/-! ### Non-vacuity / sanity -/
-- `a<b & "c"` escapes to `a&lt;b &amp; &#34;c&#34;`
example : escape [97, 60, 98, 32, 38, 32, 34, 99, 34] =
    [97, 38, 108, 116, 59, 98, 32, 38, 97, 109, 112, 59, 32, 38, 35, 51, 52, 59, 99, 38, 35, 51, 52, 59] := by
  decide
-- `&eacute;&#x80;&notit;&amp` unescapes to `é€¬it;&`
example : unescape [38, 101, 97, 99, 117, 116, 101, 59, 38, 35, 120, 56, 48, 59, 38, 110, 111, 116, 105, 116, 59,
    38, 97, 109, 112] false = [195, 169, 226, 130, 172, 194, 172, 105, 116, 59, 38] := by decide +kernel
-- the converse round trip fails, as the Go doc says: escape (unescape "&amp") = "&amp;" ≠ "&amp"
example : escape (unescape [38, 97, 109, 112] false) ≠ [38, 97, 109, 112] := by decide +kernel

end NetVerif.Proofs.C40
