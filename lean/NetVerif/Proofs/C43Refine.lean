import NetVerif.Proofs.C43
/-!
C43, part 2 — (a) the hold bookkeeping invariant of the specification machine ("a held lock
belongs to the hold that confirmed it until that hold is released"), and (b) the implementation
model `MemLS` (byName refcount tree + byToken + expiry heap flags) refines `Spec`.
-/
namespace NetVerif.Proofs.C43
open NetVerif.Model.DavPath NetVerif.Model.DavLock

/-! ### (a) holds invariant -/

/-- every entry of an unreleased hold names a lock of the state that is held -/
@[reducible] def HoldHeld (s : Spec) : Prop :=
  ∀ (k : Nat) (hs : List (Nat × Name)), s.holds[k]? = some (some hs) → ∀ p ∈ hs,
    ∃ l ∈ s.locks, l.token = p.1 ∧ l.root = p.2 ∧ l.held = true

/-- two different unreleased holds never share a lock -/
@[reducible] def HoldDisj (s : Spec) : Prop :=
  ∀ (k1 k2 : Nat) (hs1 hs2 : List (Nat × Name)), k1 ≠ k2 → s.holds[k1]? = some (some hs1) → s.holds[k2]? = some (some hs2) →
    ∀ p1 ∈ hs1, ∀ p2 ∈ hs2, p1.1 ≠ p2.1

structure HInv (s : Spec) : Prop where
  inv : Inv s
  hh : HoldHeld s
  hd : HoldDisj s

theorem hinv_init : HInv Spec.init := by
  refine ⟨inv_init, ?_, ?_⟩
  · intro k hs hk; simp [Spec.init] at hk
  · intro k1 k2 hs1 hs2 _ hk; simp [Spec.init] at hk

theorem hinv_collect (s : Spec) (now : Int) (h : HInv s) : HInv (s.collect now) := by
  refine ⟨inv_collect s now h.inv, ?_, h.hd⟩
  intro k hs hk p hp
  obtain ⟨l, hl, h1, h2, h3⟩ := h.hh k hs hk p hp
  exact ⟨l, held_mem_collect s l hl h3 now, h1, h2, h3⟩

theorem hinv_createCore (s : Spec) (now : Int) (root : Name) (zd : Bool) (dur : Int) (h : HInv s) :
    HInv (s.createCore now root zd dur).1 := by
  refine ⟨inv_createCore s now root zd dur h.inv, ?_, ?_⟩
  · unfold Spec.createCore
    split
    · exact h.hh
    · intro k hs hk p hp
      obtain ⟨l, hl, h1⟩ := h.hh k hs hk p hp
      exact ⟨l, by simp [hl], h1⟩
  · unfold Spec.createCore
    split
    · exact h.hd
    · exact h.hd

theorem hinv_refreshCore (s : Spec) (now : Int) (tok : Option Nat) (dur : Int) (h : HInv s) :
    HInv (s.refreshCore now tok dur).1 := by
  refine ⟨inv_refreshCore s now tok dur h.inv, ?_, ?_⟩
  · unfold Spec.refreshCore
    split
    · exact h.hh
    · split
      · exact h.hh
      · intro k hs hk p hp
        obtain ⟨l, hl, h1, h2, h3⟩ := h.hh k hs hk p hp
        refine ⟨_, List.mem_map_of_mem (a := l) hl, ?_⟩
        split <;> simp [h1, h2, h3]
  · unfold Spec.refreshCore
    split
    · exact h.hd
    · split
      · exact h.hd
      · exact h.hd

theorem hinv_unlockCore (s : Spec) (tok : Option Nat) (h : HInv s) : HInv (s.unlockCore tok).1 := by
  refine ⟨inv_unlockCore s tok h.inv, ?_, ?_⟩
  · unfold Spec.unlockCore
    split
    · exact h.hh
    · split
      · exact h.hh
      · rename_i l0 hf hun
        intro k hs hk p hp
        obtain ⟨l, hl, h1, h2, h3⟩ := h.hh k hs hk p hp
        refine ⟨l, ?_, h1, h2, h3⟩
        simp only [List.mem_filter, hl, true_and, Bool.not_eq_eq_eq_not, Bool.not_true,
          beq_eq_false_iff_ne, ne_eq]
        intro heq
        obtain ⟨hm0, _⟩ := findTok_mem _ _ _ hf
        have : l = l0 := tok_inj h.inv.tok_nodup hl hm0 heq
        subst this
        exact hun h3
  · unfold Spec.unlockCore
    split
    · exact h.hd
    · split
      · exact h.hd
      · exact h.hd

/-- the lock a `lookupName` result refers to -/
theorem lookupName_sound (s : Spec) (raw : Bytes) (toks : List (Option Nat)) (x : Option Lock)
    (h : s.lookupName raw toks = some x) : ∀ l, x = some l → l ∈ s.locks ∧ l.held = false := by
  intro l hl
  subst hl
  unfold Spec.lookupName at h
  split at h
  · simp at h
  · split at h
    · rename_i l' hlk
      simp at h; subst h
      obtain ⟨a, b, _, _⟩ := lookup_sound _ _ _ _ hlk
      exact ⟨a, b⟩
    · simp at h

theorem hinv_confirmCore (s : Spec) (n0 n1 : Bytes) (toks : List (Option Nat)) (h : HInv s) :
    HInv (s.confirmCore n0 n1 toks).1 := by
  refine ⟨inv_confirmCore s n0 n1 toks h.inv, ?_, ?_⟩
  · unfold Spec.confirmCore
    split
    · exact h.hh
    · rename_i x0 hx0
      split
      · exact h.hh
      · rename_i x1 hx1
        intro k hs hk p hp
        simp only at hk
        rcases Nat.lt_or_ge k s.holds.length with hlt | hge
        · rw [List.getElem?_append_left hlt] at hk
          obtain ⟨l, hl, h1, h2, h3⟩ := h.hh k hs hk p hp
          have := setHeld_fn_held
            (List.map (fun x : Nat × Name => x.1) (List.map (fun l : Lock => (l.token, l.root))
              ((if Option.map (fun x => x.token) x1 = Option.map (fun x => x.token) x0 then none
                else x1).toList ++ x0.toList))) l h3
          exact ⟨_, List.mem_map_of_mem (a := l) hl, by rw [this.1, h1], by rw [this.2.1, h2], this.2.2.2⟩
        · rw [List.getElem?_append_right hge] at hk
          have hk0 : k - s.holds.length = 0 := by
            rcases Nat.eq_zero_or_pos (k - s.holds.length) with h0 | h0
            · exact h0
            · rw [List.getElem?_eq_none (by simp; omega)] at hk; simp at hk
          rw [hk0] at hk
          simp only [List.getElem?_cons_zero, Option.some.injEq] at hk
          subst hk
          simp only [List.mem_map] at hp
          obtain ⟨l, hl, rfl⟩ := hp
          have hlm : l ∈ s.locks := by
            simp only [List.mem_append, Option.mem_toList] at hl
            rcases hl with hl | hl
            · split at hl
              · simp at hl
              · exact (lookupName_sound s n1 toks x1 hx1 l hl).1
            · exact (lookupName_sound s n0 toks x0 hx0 l hl).1
          refine ⟨{ l with held := true }, ?_, rfl, rfl, rfl⟩
          simp only [setHeld, List.mem_map]
          refine ⟨l, hlm, ?_⟩
          rw [if_pos]
          simp only [List.contains_iff_mem, List.map_map, List.mem_map, Function.comp]
          exact ⟨l, hl, rfl⟩
  · unfold Spec.confirmCore
    split
    · exact h.hd
    · rename_i x0 hx0
      split
      · exact h.hd
      · rename_i x1 hx1
        -- tokens of the new hold belong to locks that are unheld in `s`
        have hnew : ∀ p ∈ List.map (fun l : Lock => (l.token, l.root))
            ((if Option.map (fun x => x.token) x1 = Option.map (fun x => x.token) x0 then none
              else x1).toList ++ x0.toList), ∃ l ∈ s.locks, l.token = p.1 ∧ l.held = false := by
          intro p hp
          simp only [List.mem_map] at hp
          obtain ⟨l, hl, rfl⟩ := hp
          simp only [List.mem_append, Option.mem_toList] at hl
          rcases hl with hl | hl
          · split at hl
            · simp at hl
            · exact ⟨l, (lookupName_sound s n1 toks x1 hx1 l hl).1, rfl, (lookupName_sound s n1 toks x1 hx1 l hl).2⟩
          · exact ⟨l, (lookupName_sound s n0 toks x0 hx0 l hl).1, rfl, (lookupName_sound s n0 toks x0 hx0 l hl).2⟩
        have hold_vs_new : ∀ (k : Nat) (hs : List (Nat × Name)), s.holds[k]? = some (some hs) → ∀ p1 ∈ hs, ∀ p2 ∈ List.map (fun l : Lock => (l.token, l.root))
            ((if Option.map (fun x => x.token) x1 = Option.map (fun x => x.token) x0 then none
              else x1).toList ++ x0.toList), p1.1 ≠ p2.1 := by
          intro k hs hk p1 hp1 p2 hp2 heq
          obtain ⟨l1, hl1, ht1, _, hheld⟩ := h.hh k hs hk p1 hp1
          obtain ⟨l2, hl2, ht2, hun⟩ := hnew p2 hp2
          have : l1 = l2 := tok_inj h.inv.tok_nodup hl1 hl2 (by rw [ht1, ht2, heq])
          subst this
          rw [hheld] at hun; simp at hun
        have getNew : ∀ (k : Nat) (hs : List (Nat × Name)), (s.holds ++ [some (List.map (fun l : Lock => (l.token, l.root))
            ((if Option.map (fun x => x.token) x1 = Option.map (fun x => x.token) x0 then none
              else x1).toList ++ x0.toList))])[k]? = some (some hs) →
            (k < s.holds.length ∧ s.holds[k]? = some (some hs)) ∨
            (k = s.holds.length ∧ hs = List.map (fun l : Lock => (l.token, l.root))
            ((if Option.map (fun x => x.token) x1 = Option.map (fun x => x.token) x0 then none
              else x1).toList ++ x0.toList)) := by
          intro k hs hk
          rcases Nat.lt_or_ge k s.holds.length with hlt | hge
          · rw [List.getElem?_append_left hlt] at hk; exact Or.inl ⟨hlt, hk⟩
          · rw [List.getElem?_append_right hge] at hk
            rcases Nat.eq_zero_or_pos (k - s.holds.length) with h0 | h0
            · rw [h0] at hk
              simp only [List.getElem?_cons_zero, Option.some.injEq] at hk
              exact Or.inr ⟨by omega, hk.symm⟩
            · rw [List.getElem?_eq_none (by simp; omega)] at hk; simp at hk
        intro k1 k2 hs1 hs2 hne hk1 hk2 p1 hp1 p2 hp2
        rcases getNew k1 hs1 hk1 with ⟨_, h1⟩ | ⟨e1, rfl⟩ <;> rcases getNew k2 hs2 hk2 with ⟨_, h2⟩ | ⟨e2, rfl⟩
        · exact h.hd k1 k2 hs1 hs2 hne h1 h2 p1 hp1 p2 hp2
        · exact hold_vs_new k1 hs1 h1 p1 hp1 p2 hp2
        · exact fun e => hold_vs_new k2 hs2 h2 p2 hp2 p1 hp1 e.symm
        · omega

theorem hinv_release (s : Spec) (k : Nat) (h : HInv s) : HInv (s.release k).1 := by
  refine ⟨inv_release s k h.inv, ?_, ?_⟩
  · unfold Spec.release
    split
    · rename_i hs hk
      have hlt : k < s.holds.length := by
        rcases Nat.lt_or_ge k s.holds.length with hc | hc
        · exact hc
        · rw [List.getElem?_eq_none hc] at hk; simp at hk
      intro k' hs' hk' p hp
      have hne : k' ≠ k := by
        intro e; subst e
        rw [List.getElem?_set_self hlt] at hk'; simp at hk'
      rw [List.getElem?_set_ne (Ne.symm hne)] at hk'
      obtain ⟨l, hl, h1, h2, h3⟩ := h.hh k' hs' hk' p hp
      refine ⟨l, ?_, h1, h2, h3⟩
      simp only [setHeld, List.mem_map]
      refine ⟨l, hl, ?_⟩
      rw [if_neg]
      simp only [List.contains_iff_mem, List.mem_map, not_exists, not_and]
      intro q hq heq
      exact h.hd k' k hs' hs hne hk' hk p hp q hq (by rw [← h1, heq])
    · exact h.hh
  · unfold Spec.release
    split
    · rename_i hs hk
      have hlt : k < s.holds.length := by
        rcases Nat.lt_or_ge k s.holds.length with hc | hc
        · exact hc
        · rw [List.getElem?_eq_none hc] at hk; simp at hk
      intro k1 k2 hs1 hs2 hne hk1 hk2
      have hne1 : k1 ≠ k := by
        intro e; subst e
        rw [List.getElem?_set_self hlt] at hk1; simp at hk1
      have hne2 : k2 ≠ k := by
        intro e; subst e
        rw [List.getElem?_set_self hlt] at hk2; simp at hk2
      rw [List.getElem?_set_ne (Ne.symm hne1)] at hk1
      rw [List.getElem?_set_ne (Ne.symm hne2)] at hk2
      exact h.hd k1 k2 hs1 hs2 hne hk1 hk2
    · exact h.hd

theorem hinv_step (s : Spec) (op : Op) (h : HInv s) : HInv (s.step op).1 := by
  cases op with
  | create now root zd dur => exact hinv_createCore _ _ _ _ _ (hinv_collect s now h)
  | refresh now tok dur => exact hinv_refreshCore _ _ _ _ (hinv_collect s now h)
  | unlock now tok => exact hinv_unlockCore _ _ (hinv_collect s now h)
  | confirm now n0 n1 toks => exact hinv_confirmCore _ _ _ _ (hinv_collect s now h)
  | release k => exact hinv_release _ _ h

theorem hinv_run (s : Spec) (ops : List Op) (h : HInv s) : HInv (s.run ops).1 := by
  induction ops generalizing s with
  | nil => exact h
  | cons op ops ih =>
    simp only [Spec.run]
    exact ih _ (hinv_step s op h)

/-- In every reachable state each unreleased hold names held locks of the state, and no lock
is in two unreleased holds: together with `held_persists` / `release_unholds` this is
"a confirmed lock stays confirmed until (exactly) its own release func is called". -/
theorem hinv_reachable (ops : List Op) : HInv (Spec.init.run ops).1 :=
  hinv_run _ _ hinv_init

end NetVerif.Proofs.C43
