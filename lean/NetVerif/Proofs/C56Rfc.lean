import NetVerif.Proofs.C56
/-!
C56, containers — the RFC 9651 §4.2 parsing algorithms for parameters, inner lists, items, lists
and dictionaries transcribed as big-step relations (one constructor per path through the numbered
steps of the RFC text, no fuel, results accumulated from the consumed characters), and the theorems
that the model of the (repaired) Go code accepts exactly what these relations derive and reports
exactly the same members / keys / values / parameters; as a corollary the model's loop fuel suffices.

The bare-item and key sub-parsers are shared with the model (`consumeBareItem`, `consumeKey`); they
are characterised against the RFC ABNF with arbitrary trailing text in `Proofs/C56.lean`.
-/
namespace NetVerif.Proofs.C56
open NetVerif NetVerif.Model.Httpsfv

/-! ## every consumer returns a non-empty prefix and the remaining suffix -/

theorem consumedOf_append (t r : List Nat) : consumedOf (t ++ r) r = t := by
  unfold consumedOf; simp

private theorem numBody_split (t c r : List Nat) (h : numBody t = some (c, r)) : t = c ++ r ∧ c ≠ [] := by
  obtain ⟨h1, h2⟩ := numBody_sound t c r h
  refine ⟨h1, ?_⟩
  rcases h2 with ⟨_, hl, _⟩ | ⟨ip, fr, hc, _⟩
  · intro hc; rw [hc] at hl; simp at hl
  · rw [hc]; cases ip <;> simp

theorem ciod_split (s c r : List Nat) (h : consumeIntegerOrDecimal s = some (c, r)) :
    s = c ++ r ∧ c ≠ [] := by
  unfold consumeIntegerOrDecimal at h
  split at h
  · rename_i t
    split at h; · cases h
    rename_i c' r' hb
    simp only [Option.some.injEq, Prod.mk.injEq] at h
    obtain ⟨h1, h2⟩ := h
    subst h1; subst h2
    exact ⟨by rw [(numBody_split t c' r' hb).1]; rfl, by simp⟩
  · exact numBody_split s c r h

theorem consumeString_split (s c r : List Nat) (h : consumeString s = some (c, r)) :
    s = c ++ r ∧ c ≠ [] := by
  unfold consumeString at h
  split at h; · cases h
  rename_i c0 r0
  split at h; · cases h
  rename_i hc0
  have : c0 = 34 := by simpa using hc0
  subst this
  split at h; · cases h
  rename_i a rest hb
  simp only [Option.some.injEq, Prod.mk.injEq] at h
  obtain ⟨h1, h2⟩ := h
  subst h1; subst h2
  exact ⟨by rw [(stringBody_sound r0 a rest hb).1]; rfl, by simp⟩

private theorem span_split (p : Nat → Bool) (c0 : Nat) (r0 : List Nat) (h0 : p c0 = true) :
    (c0 :: r0) = (c0 :: r0).takeWhile p ++ (c0 :: r0).dropWhile p ∧ (c0 :: r0).takeWhile p ≠ [] := by
  refine ⟨(List.takeWhile_append_dropWhile).symm, ?_⟩
  simp [List.takeWhile_cons, h0]

theorem consumeToken_split (s c r : List Nat) (h : consumeToken s = some (c, r)) :
    s = c ++ r ∧ c ≠ [] := by
  unfold consumeToken at h
  split at h; · cases h
  rename_i c0 r0
  split at h; · cases h
  rename_i hc0
  have h0 : isTokenChar c0 = true := by
    simp only [Bool.and_eq_true, Bool.not_eq_true', bne_iff_ne, ne_eq, not_and, Decidable.not_not] at hc0
    unfold isTokenChar isTChar
    by_cases ha : isAlpha c0 = true
    · simp [ha]
    · have : c0 = 42 := hc0 (by simpa using ha)
      subst this; decide
  simp only [Option.some.injEq, Prod.mk.injEq] at h
  obtain ⟨h1, h2⟩ := h
  subst h1; subst h2
  exact span_split isTokenChar c0 r0 h0

theorem consumeKey_split (s c r : List Nat) (h : consumeKey s = some (c, r)) :
    s = c ++ r ∧ c ≠ [] := by
  unfold consumeKey at h
  split at h; · cases h
  rename_i c0 r0
  split at h; · cases h
  rename_i hc0
  have h0 : isKeyChar c0 = true := by
    simp only [Bool.and_eq_true, Bool.not_eq_true', bne_iff_ne, ne_eq, not_and, Decidable.not_not] at hc0
    unfold isKeyChar
    by_cases ha : isLCAlpha c0 = true
    · simp [ha]
    · have : c0 = 42 := hc0 (by simpa using ha)
      subst this; decide
  simp only [Option.some.injEq, Prod.mk.injEq] at h
  obtain ⟨h1, h2⟩ := h
  subst h1; subst h2
  exact span_split isKeyChar c0 r0 h0

theorem consumeByteSequence_split (s c r : List Nat) (h : consumeByteSequence s = some (c, r)) :
    s = c ++ r ∧ c ≠ [] := by
  unfold consumeByteSequence at h
  split at h; · cases h
  rename_i c0 r0
  split at h; · cases h
  rename_i hc0
  have : c0 = 58 := by simpa using hc0
  subst this
  split at h; · cases h
  rename_i a rest hb
  split at h; · cases h
  simp only [Option.some.injEq, Prod.mk.injEq] at h
  obtain ⟨h1, h2⟩ := h
  subst h1; subst h2
  obtain ⟨_, _, e, _⟩ := byteSeqBody_sound r0 a rest hb
  exact ⟨by rw [e]; rfl, by simp⟩

theorem consumeBoolean_split (s c r : List Nat) (h : consumeBoolean s = some (c, r)) :
    s = c ++ r ∧ c ≠ [] := by
  unfold consumeBoolean at h
  split at h
  · split at h
    · simp only [Option.some.injEq, Prod.mk.injEq] at h
      obtain ⟨h1, h2⟩ := h
      subst h1; subst h2
      exact ⟨rfl, by simp⟩
    · cases h
  · cases h

theorem consumeDate_split (s c r : List Nat) (h : consumeDate s = some (c, r)) :
    s = c ++ r ∧ c ≠ [] := by
  unfold consumeDate at h
  split at h; · cases h
  rename_i c0 t
  split at h; · cases h
  rename_i hc0
  have : c0 = 64 := by simpa using hc0
  subst this
  split at h; · cases h
  rename_i num rest hn
  split at h; · cases h
  simp only [Option.some.injEq, Prod.mk.injEq] at h
  obtain ⟨h1, h2⟩ := h
  subst h1; subst h2
  exact ⟨by rw [(ciod_split t num rest hn).1]; rfl, by simp⟩

theorem consumeDisplayString_split (s c r : List Nat) (h : consumeDisplayString s = some (c, r)) :
    s = c ++ r ∧ c ≠ [] := by
  unfold consumeDisplayString at h
  split at h
  · rename_i a b r0
    split at h
    · rename_i hab
      simp only [Bool.and_eq_true, beq_iff_eq] at hab
      obtain ⟨rfl, rfl⟩ := hab
      split at h; · cases h
      rename_i c' rest' hb
      simp only [Option.some.injEq, Prod.mk.injEq] at h
      obtain ⟨h1, h2⟩ := h
      subst h1; subst h2
      obtain ⟨_, _, _, e, _⟩ := displayBody_sound r0 [] c' rest' Pending.nil hb
      exact ⟨by rw [e]; rfl, by simp⟩
    · cases h
  · cases h

/-- `consumeBareItem` returns a non-empty prefix of its input and the remaining suffix. -/
theorem consumeBareItem_split (s c r : List Nat) (h : consumeBareItem s = some (c, r)) :
    s = c ++ r ∧ c ≠ [] := by
  unfold consumeBareItem at h
  split at h; · cases h
  split at h; · exact ciod_split _ c r h
  split at h; · exact consumeString_split _ c r h
  split at h; · exact consumeToken_split _ c r h
  split at h; · exact consumeByteSequence_split _ c r h
  split at h; · exact consumeBoolean_split _ c r h
  split at h; · exact consumeDate_split _ c r h
  split at h; · exact consumeDisplayString_split _ c r h
  cases h


/-! ## "Discard any leading SP characters" / "Discard any leading OWS characters" -/

def IsSpRun (sp : List Nat) : Prop := ∀ b ∈ sp, b = 32
def NoLeadSP (r : List Nat) : Prop := ∀ c t, r = c :: t → c ≠ 32
def IsOwsRun (ws : List Nat) : Prop := ∀ b ∈ ws, b = 32 ∨ b = 9
def NoLeadOWS (r : List Nat) : Prop := ∀ c t, r = c :: t → c ≠ 32 ∧ c ≠ 9

theorem dropSP_decomp (r : List Nat) : ∃ sp, IsSpRun sp ∧ r = sp ++ dropSP r ∧ NoLeadSP (dropSP r) := by
  induction r with
  | nil => exact ⟨[], fun b hb => (by cases hb), rfl, fun c t h => (by simp [dropSP] at h)⟩
  | cons c r ih =>
    by_cases hc : c = 32
    · subst hc
      obtain ⟨sp, h1, h2, h3⟩ := ih
      refine ⟨32 :: sp, ?_, ?_, ?_⟩
      · intro b hb; simp at hb; rcases hb with rfl | hb; rfl; exact h1 b hb
      · simp only [dropSP, bne_self_eq_false, Bool.false_eq_true, if_false, List.cons_append]; rw [← h2]
      · simpa [dropSP] using h3
    · have e : (c != 32) = true := by simpa using hc
      refine ⟨[], fun b hb => (by cases hb), (by simp [dropSP, e]), ?_⟩
      intro c' t h
      simp [dropSP, e] at h
      rw [← h.1]; exact hc

theorem dropSP_of_decomp (sp r0 : List Nat) (h1 : IsSpRun sp) (h2 : NoLeadSP r0) : dropSP (sp ++ r0) = r0 := by
  induction sp with
  | nil =>
    cases r0 with
    | nil => rfl
    | cons c t =>
      have := h2 c t rfl
      have e : (c != 32) = true := by simpa using this
      simp [dropSP, e]
  | cons b sp ih =>
    have : b = 32 := h1 b (by simp)
    subst this
    simp only [List.cons_append, dropSP, bne_self_eq_false, Bool.false_eq_true, if_false]
    exact ih (fun x hx => h1 x (by simp [hx]))

theorem dropWS_decomp (r : List Nat) : ∃ ws, IsOwsRun ws ∧ r = ws ++ dropWS r ∧ NoLeadOWS (dropWS r) := by
  induction r with
  | nil => exact ⟨[], fun b hb => (by cases hb), rfl, fun c t h => (by simp [dropWS] at h)⟩
  | cons c r ih =>
    by_cases hc : c = 32 ∨ c = 9
    · obtain ⟨ws, h1, h2, h3⟩ := ih
      have e : (c != 32 && c != 9) = false := by rcases hc with rfl | rfl <;> decide
      refine ⟨c :: ws, ?_, ?_, ?_⟩
      · intro b hb; simp at hb; rcases hb with rfl | hb; exact hc; exact h1 b hb
      · simp only [dropWS, e, Bool.false_eq_true, if_false, List.cons_append]; rw [← h2]
      · simpa [dropWS, e] using h3
    · have e : (c != 32 && c != 9) = true := by simp; omega
      refine ⟨[], fun b hb => (by cases hb), (by simp [dropWS, e]), ?_⟩
      intro c' t h
      simp [dropWS, e] at h
      rw [← h.1]; omega

theorem dropWS_of_decomp (ws r0 : List Nat) (h1 : IsOwsRun ws) (h2 : NoLeadOWS r0) : dropWS (ws ++ r0) = r0 := by
  induction ws with
  | nil =>
    cases r0 with
    | nil => rfl
    | cons c t =>
      have := h2 c t rfl
      have e : (c != 32 && c != 9) = true := by simp; omega
      simp [dropWS, e]
  | cons b ws ih =>
    have hb := h1 b (by simp)
    have e : (b != 32 && b != 9) = false := by rcases hb with rfl | rfl <;> decide
    simp only [List.cons_append, dropWS, e, Bool.false_eq_true, if_false]
    exact ih (fun x hx => h1 x (by simp [hx]))

/-! ## RFC 9651 §4.2.3.2 Parsing Parameters -/

/-- `RfcParams input params text rest`: the algorithm of §4.2.3.2 run on `input` consumes `text`, leaves
    `rest`, and meets the (key, value) pairs `params` in this order (the RFC's ordered map is
    `rfcOrderedMap params`: steps 2.7 / 2.8).  A parameter without "=" has the value Boolean true,
    written "?1".  No derivation = "fail parsing". -/
inductive RfcParams : List Nat → List (List Nat × List Nat) → List Nat → List Nat → Prop
  /-- step 2: input_string is empty — return (step 3) -/
  | done_nil : RfcParams [] [] [] []
  /-- step 2.1: the first character is not ";" — exit the loop -/
  | done_other (c : Nat) (r : List Nat) : c ≠ 59 → RfcParams (c :: r) [] [] (c :: r)
  /-- steps 2.2 (consume ";"), 2.3 (discard SP), 2.4 (key), 2.5 (true), 2.6 not taken, 2.7/2.8, loop -/
  | flag (sp r0 key r1 : List Nat) (ps : List (List Nat × List Nat)) (text out : List Nat) :
      IsSpRun sp → NoLeadSP r0 → consumeKey r0 = some (key, r1) → (∀ t, r1 ≠ 61 :: t) →
      RfcParams r1 ps text out →
      RfcParams (59 :: (sp ++ r0)) ((key, boolTrueText) :: ps) (59 :: (sp ++ (key ++ text))) out
  /-- steps 2.2–2.5, 2.6.1 (consume "="), 2.6.2 (bare item), 2.7/2.8, loop -/
  | valued (sp r0 key r2 val r3 : List Nat) (ps : List (List Nat × List Nat)) (text out : List Nat) :
      IsSpRun sp → NoLeadSP r0 → consumeKey r0 = some (key, 61 :: r2) →
      consumeBareItem r2 = some (val, r3) → RfcParams r3 ps text out →
      RfcParams (59 :: (sp ++ r0)) ((key, val) :: ps) (59 :: (sp ++ (key ++ 61 :: (val ++ text)))) out

/-- Steps 2.7 / 2.8: a repeated key overwrites the value in place, a new key is appended. -/
def rfcOrderedMap : List (List Nat × List Nat) → List (List Nat × List Nat)
  | [] => []
  | (k, v) :: rest =>
    -- processed left to right: fold from the left
    let rec ins (m : List (List Nat × List Nat)) (k v : List Nat) : List (List Nat × List Nat) :=
      match m with
      | [] => [(k, v)]
      | (k', v') :: m' => if k' = k then (k', v) :: m' else (k', v') :: ins m' k v
    (rest.foldl (fun m kv => ins m kv.1 kv.2) [(k, v)])

theorem rfcParams_split {s text out : List Nat} {ps : List (List Nat × List Nat)}
    (h : RfcParams s ps text out) : s = text ++ out ∧ ps.length ≤ text.length := by
  induction h with
  | done_nil => exact ⟨rfl, by simp⟩
  | done_other c r _ => exact ⟨rfl, by simp⟩
  | flag sp r0 key r1 ps text out _ _ hk _ _ ih =>
    obtain ⟨e, _⟩ := consumeKey_split r0 key r1 hk
    refine ⟨by rw [e, ih.1]; simp, ?_⟩
    simp; omega
  | valued sp r0 key r2 val r3 ps text out _ _ hk hb _ ih =>
    obtain ⟨e, _⟩ := consumeKey_split r0 key _ hk
    obtain ⟨e2, _⟩ := consumeBareItem_split r2 val r3 hb
    refine ⟨by rw [e, e2, ih.1]; simp, ?_⟩
    simp; omega

theorem paramLoop_sound : ∀ (fuel : Nat) (s : List Nat) (cbs : List (List Nat × List Nat)) (out : List Nat),
    paramLoop fuel s = some (cbs, out) → ∃ text, RfcParams s cbs text out := by
  intro fuel
  induction fuel with
  | zero => intro s cbs out h; simp [paramLoop] at h
  | succ f ih =>
    intro s cbs out h
    unfold paramLoop at h
    cases s with
    | nil =>
      simp only [Option.some.injEq, Prod.mk.injEq] at h
      obtain ⟨h1, h2⟩ := h; subst h1; subst h2
      exact ⟨[], RfcParams.done_nil⟩
    | cons c r =>
      simp only at h
      by_cases hc : c = 59
      · subst hc
        simp only [bne_self_eq_false, Bool.false_eq_true, if_false] at h
        obtain ⟨sp, hs1, hs2, hs3⟩ := dropSP_decomp r
        split at h; · cases h
        rename_i key r1 hk
        split at h; · cases h
        rename_i val r3 hv
        split at h; · cases h
        rename_i cbs' out' hl
        simp only [Option.some.injEq, Prod.mk.injEq] at h
        obtain ⟨h1, h2⟩ := h; subst h1; subst h2
        obtain ⟨text, ht⟩ := ih r3 cbs' out' hl
        unfold paramValue at hv
        split at hv
        · rename_i r2
          have := RfcParams.valued sp (dropSP r) key r2 val r3 cbs' text out' hs1 hs3 hk hv ht
          rw [← hs2] at this
          exact ⟨_, this⟩
        · rename_i hne
          simp only [Option.some.injEq, Prod.mk.injEq] at hv
          obtain ⟨h1, h2⟩ := hv; subst h1; subst h2
          have := RfcParams.flag sp (dropSP r) key r1 cbs' text out' hs1 hs3 hk (fun t ht' => hne t ht') ht
          rw [← hs2] at this
          exact ⟨_, this⟩
      · have e : (c != 59) = true := by simpa using hc
        simp only [e, if_true, Option.some.injEq, Prod.mk.injEq] at h
        obtain ⟨h1, h2⟩ := h; subst h1; subst h2
        exact ⟨[], RfcParams.done_other c r hc⟩

theorem paramLoop_complete {s text out : List Nat} {cbs : List (List Nat × List Nat)}
    (h : RfcParams s cbs text out) : ∀ fuel, cbs.length + 1 ≤ fuel → paramLoop fuel s = some (cbs, out) := by
  induction h with
  | done_nil => intro fuel hf; cases fuel with | zero => omega | succ f => simp [paramLoop]
  | done_other c r hc =>
    intro fuel hf
    cases fuel with
    | zero => omega
    | succ f =>
      have e : (c != 59) = true := by simpa using hc
      simp [paramLoop, e]
  | flag sp r0 key r1 ps text out h1 h2 hk hne _ ih =>
    intro fuel hf
    cases fuel with
    | zero => omega
    | succ f =>
      have := ih f (by simp at hf; omega)
      unfold paramLoop
      have hv : paramValue r1 = some (boolTrueText, r1) := by
        unfold paramValue
        split
        · rename_i r2 _; exact absurd rfl (hne r2)
        · rfl
      simp only [bne_self_eq_false, Bool.false_eq_true, if_false, dropSP_of_decomp sp r0 h1 h2, hk, hv, this]
  | valued sp r0 key r2 val r3 ps text out h1 h2 hk hb _ ih =>
    intro fuel hf
    cases fuel with
    | zero => omega
    | succ f =>
      have := ih f (by simp at hf; omega)
      unfold paramLoop
      have hv : paramValue (61 :: r2) = some (val, r3) := by simp [paramValue, hb]
      simp only [bne_self_eq_false, Bool.false_eq_true, if_false, dropSP_of_decomp sp r0 h1 h2, hk, hv, this]

/-- `consumeParameter` (the Go function with its `consumed` / `rest` results) computes exactly the
    RFC's parameter algorithm. -/
theorem consumeParameter_iff (s text out : List Nat) (cbs : List (List Nat × List Nat)) :
    consumeParameter s = some (cbs, text, out) ↔ RfcParams s cbs text out := by
  unfold consumeParameter
  constructor
  · intro h
    split at h; · cases h
    rename_i cbs' rest hl
    simp only [Option.some.injEq, Prod.mk.injEq] at h
    obtain ⟨h1, h2, h3⟩ := h
    subst h1; subst h3
    obtain ⟨text', ht⟩ := paramLoop_sound _ s cbs' rest hl
    have e := (rfcParams_split ht).1
    rw [← h2, e, consumedOf_append]
    rw [← e]; exact ht
  · intro h
    obtain ⟨e, hl⟩ := rfcParams_split h
    have hlen : cbs.length + 1 ≤ s.length + 1 := by rw [e]; simp; omega
    rw [paramLoop_complete h _ hlen]
    simp only [Option.some.injEq, Prod.mk.injEq, true_and, and_true]
    rw [e, consumedOf_append]

/-- `ParseParameter(s, f)` succeeds exactly when §4.2.3.2 consumes all of `s`, and calls `f` with exactly
    the (key, value) pairs the RFC algorithm meets, in order. -/
theorem parseParameter_iff (s : List Nat) (cbs : List (List Nat × List Nat)) :
    parseParameter s = some cbs ↔ RfcParams s cbs s [] := by
  unfold parseParameter
  constructor
  · intro h
    split at h
    · rename_i cbs' text heq
      simp only [Option.some.injEq] at h
      subst h
      have := (consumeParameter_iff s text [] cbs').1 heq
      have e := (rfcParams_split this).1
      rw [List.append_nil] at e
      rw [e]; rw [e] at this; exact this
    · cases h
  · intro h
    rw [(consumeParameter_iff s s [] cbs).2 h]

/-- Fuel sufficiency: any fuel ≥ `len(s) + 1` gives the same result. -/
theorem paramLoop_fuel (s : List Nat) (fuel : Nat) (hf : s.length + 1 ≤ fuel) :
    paramLoop fuel s = paramLoop (s.length + 1) s := by
  cases h1 : paramLoop fuel s with
  | some res =>
    obtain ⟨cbs, out⟩ := res
    obtain ⟨text, ht⟩ := paramLoop_sound fuel s cbs out h1
    obtain ⟨e, hl⟩ := rfcParams_split ht
    rw [paramLoop_complete ht (s.length + 1) (by rw [e]; simp; omega)]
  | none =>
    cases h2 : paramLoop (s.length + 1) s with
    | none => rfl
    | some res =>
      obtain ⟨cbs, out⟩ := res
      obtain ⟨text, ht⟩ := paramLoop_sound _ s cbs out h2
      obtain ⟨e, hl⟩ := rfcParams_split ht
      rw [paramLoop_complete ht fuel (by rw [e] at hf; simp at hf; omega)] at h1
      cases h1


/-! ## RFC 9651 §4.2.1.2 Parsing an Inner List (without the inner list's own parameters) -/

/-- `RfcInnerLoop input items text rest`: the loop of §4.2.1.2 step 3, run on the input after "(".
    `items` are (bare item text, parameter text) of each Item (§4.2.3), in order. -/
inductive RfcInnerLoop : List Nat → List (List Nat × List Nat) → List Nat → List Nat → Prop
  /-- 3.1 discard SP; 3.2 the first character is ")": 3.2.1 consume it and stop -/
  | close (sp out : List Nat) : IsSpRun sp → RfcInnerLoop (sp ++ 41 :: out) [] (sp ++ [41]) out
  /-- 3.1 discard SP; 3.2 not ")"; 3.3 parse an Item (bare item, then parameters); 3.4 append;
      3.5 the next character is SP or ")"; loop (input is not empty) -/
  | item (sp r0 bi r1 : List Nat) (ps : List (List Nat × List Nat)) (pt : List Nat) (c : Nat) (r2 : List Nat)
      (items : List (List Nat × List Nat)) (text out : List Nat) :
      IsSpRun sp → NoLeadSP r0 → (∀ t, r0 ≠ 41 :: t) → consumeBareItem r0 = some (bi, r1) →
      RfcParams r1 ps pt (c :: r2) → (c = 32 ∨ c = 41) → RfcInnerLoop (c :: r2) items text out →
      RfcInnerLoop (sp ++ r0) ((bi, pt) :: items) (sp ++ (bi ++ (pt ++ text))) out

/-- §4.2.1.2 steps 1–3 (step 4, "the end of the Inner List was not found", is the absence of a derivation). -/
def RfcBareInner (s : List Nat) (items : List (List Nat × List Nat)) (text out : List Nat) : Prop :=
  ∃ r t, s = 40 :: r ∧ RfcInnerLoop r items t out ∧ text = 40 :: t

theorem rfcInnerLoop_split {r text out : List Nat} {items : List (List Nat × List Nat)}
    (h : RfcInnerLoop r items text out) : r = text ++ out ∧ items.length + 1 ≤ text.length := by
  induction h with
  | close sp out _ => exact ⟨by simp, by simp⟩
  | item sp r0 bi r1 ps pt c r2 items text out _ _ _ hb hp _ _ ih =>
    obtain ⟨e1, hne⟩ := consumeBareItem_split r0 bi r1 hb
    obtain ⟨e2, _⟩ := rfcParams_split hp
    refine ⟨by rw [e1, e2, ih.1]; simp, ?_⟩
    have : 1 ≤ bi.length := by cases bi with | nil => exact absurd rfl hne | cons _ _ => simp
    simp; omega

theorem innerLoop_sound : ∀ (fuel : Nat) (r : List Nat) (cbs : List (List Nat × List Nat)) (out : List Nat),
    innerLoop fuel r = some (cbs, out) → ∃ text, RfcInnerLoop r cbs text out := by
  intro fuel
  induction fuel with
  | zero => intro r cbs out h; simp [innerLoop] at h
  | succ f ih =>
    intro r cbs out h
    unfold innerLoop at h
    cases r with
    | nil => cases h
    | cons c0 r' =>
      simp only at h
      obtain ⟨sp, hs1, hs2, hs3⟩ := dropSP_decomp (c0 :: r')
      split at h
      · rename_i o heq
        simp only [Option.some.injEq, Prod.mk.injEq] at h
        obtain ⟨h1, h2⟩ := h; subst h1; subst h2
        have := RfcInnerLoop.close sp o hs1
        rw [← heq, ← hs2] at this
        exact ⟨_, this⟩
      · rename_i hne
        split at h; · cases h
        rename_i bi r1 hb
        split at h; · cases h
        rename_i ps param r2 hp
        split at h; · cases h
        rename_i c r2'
        split at h; · cases h
        rename_i hc
        split at h; · cases h
        rename_i cbs' out' hl
        simp only [Option.some.injEq, Prod.mk.injEq] at h
        obtain ⟨h1, h2⟩ := h; subst h1; subst h2
        obtain ⟨text, ht⟩ := ih (c :: r2') cbs' out' hl
        have hc' : c = 32 ∨ c = 41 := by
          simp only [Bool.and_eq_true, bne_iff_ne, ne_eq, Bool.not_eq_true', not_and] at hc
          unfold isSP at hc
          by_cases h41 : c = 41
          · exact Or.inr h41
          · have := hc h41; simp at this; exact Or.inl this
        have hp' := (consumeParameter_iff r1 param (c :: r2') ps).1 hp
        have := RfcInnerLoop.item sp (dropSP (c0 :: r')) bi r1 ps param c r2' cbs' text out' hs1 hs3
          (fun t ht' => hne t ht') hb hp' hc' ht
        rw [← hs2] at this
        exact ⟨_, this⟩

private theorem nonempty_of_run (sp r0 : List Nat) (h : r0 ≠ []) : ∃ c t, sp ++ r0 = c :: t := by
  cases sp with
  | nil => cases r0 with
    | nil => exact absurd rfl h
    | cons c t => exact ⟨c, t, rfl⟩
  | cons c t => exact ⟨c, t ++ r0, rfl⟩

theorem innerLoop_complete {r text out : List Nat} {cbs : List (List Nat × List Nat)}
    (h : RfcInnerLoop r cbs text out) : ∀ fuel, cbs.length + 1 ≤ fuel → innerLoop fuel r = some (cbs, out) := by
  induction h with
  | close sp out h1 =>
    intro fuel hf
    cases fuel with
    | zero => omega
    | succ f =>
      obtain ⟨c, t, hne⟩ := nonempty_of_run sp (41 :: out) (by simp)
      have hd : dropSP (sp ++ 41 :: out) = 41 :: out :=
        dropSP_of_decomp sp _ h1 (by intro c t h; simp at h; omega)
      unfold innerLoop
      rw [hne]; simp only; rw [← hne, hd]
      rfl
  | item sp r0 bi r1 ps pt c r2 items text out h1 h2 hne hb hp hc _ ih =>
    intro fuel hf
    cases fuel with
    | zero => omega
    | succ f =>
      have hr0 : r0 ≠ [] := by
        intro e; subst e; simp [consumeBareItem] at hb
      obtain ⟨c0, t0, hne0⟩ := nonempty_of_run sp r0 hr0
      have hd : dropSP (sp ++ r0) = r0 := dropSP_of_decomp sp r0 h1 h2
      have hcp := (consumeParameter_iff r1 pt (c :: r2) ps).2 hp
      have hcc : (c != 41 && !isSP c) = false := by rcases hc with rfl | rfl <;> decide
      have := ih f (by simp at hf; omega)
      unfold innerLoop
      rw [hne0]; simp only; rw [← hne0, hd]
      split
      · rename_i o; exact absurd rfl (hne o)
      · simp only [hb, hcp, hcc, Bool.false_eq_true, if_false, this]

/-- `consumeBareInnerList` computes exactly §4.2.1.2 (steps 1–4, without the trailing parameters). -/
theorem consumeBareInnerList_iff (s text out : List Nat) (cbs : List (List Nat × List Nat)) :
    consumeBareInnerList s = some (cbs, text, out) ↔ RfcBareInner s cbs text out := by
  unfold consumeBareInnerList RfcBareInner
  constructor
  · intro h
    split at h; · cases h
    rename_i c r
    split at h; · cases h
    rename_i hc
    have : c = 40 := by simpa using hc
    subst this
    split at h; · cases h
    rename_i cbs' rest hl
    simp only [Option.some.injEq, Prod.mk.injEq] at h
    obtain ⟨h1, h2, h3⟩ := h
    subst h1; subst h3
    obtain ⟨t, ht⟩ := innerLoop_sound _ r cbs' rest hl
    have e := (rfcInnerLoop_split ht).1
    refine ⟨r, t, rfl, ht, ?_⟩
    rw [← h2, e, show 40 :: (t ++ rest) = (40 :: t) ++ rest from rfl, consumedOf_append]
  · rintro ⟨r, t, rfl, ht, rfl⟩
    obtain ⟨e, hl⟩ := rfcInnerLoop_split ht
    have hlen : cbs.length + 1 ≤ r.length + 1 := by rw [e]; simp; omega
    simp only [bne_self_eq_false, Bool.false_eq_true, if_false, innerLoop_complete ht _ hlen]
    rw [e, show 40 :: (t ++ out) = (40 :: t) ++ out from rfl, consumedOf_append]

/-- `ParseBareInnerList(s, f)` succeeds exactly when §4.2.1.2 consumes all of `s`, and calls `f` with exactly
    the items (bare item text, parameter text) the RFC algorithm yields, in order. -/
theorem parseBareInnerList_iff (s : List Nat) (cbs : List (List Nat × List Nat)) :
    parseBareInnerList s = some cbs ↔ RfcBareInner s cbs s [] := by
  unfold parseBareInnerList
  constructor
  · intro h
    split at h
    · rename_i cbs' text heq
      simp only [Option.some.injEq] at h
      subst h
      have := (consumeBareInnerList_iff s text [] cbs').1 heq
      obtain ⟨r, t, e1, ht, e2⟩ := this
      have e := (rfcInnerLoop_split ht).1
      rw [List.append_nil] at e
      exact ⟨r, t, e1, ht, by rw [e1, e]⟩
    · cases h
  · intro h
    rw [(consumeBareInnerList_iff s s [] cbs).2 h]

/-- Fuel sufficiency for the inner-list loop. -/
theorem innerLoop_fuel (r : List Nat) (fuel : Nat) (hf : r.length + 1 ≤ fuel) :
    innerLoop fuel r = innerLoop (r.length + 1) r := by
  cases h1 : innerLoop fuel r with
  | some res =>
    obtain ⟨cbs, out⟩ := res
    obtain ⟨text, ht⟩ := innerLoop_sound fuel r cbs out h1
    obtain ⟨e, hl⟩ := rfcInnerLoop_split ht
    rw [innerLoop_complete ht (r.length + 1) (by rw [e]; simp; omega)]
  | none =>
    cases h2 : innerLoop (r.length + 1) r with
    | none => rfl
    | some res =>
      obtain ⟨cbs, out⟩ := res
      obtain ⟨text, ht⟩ := innerLoop_sound _ r cbs out h2
      obtain ⟨e, hl⟩ := rfcInnerLoop_split ht
      rw [innerLoop_complete ht fuel (by rw [e] at hf; simp at hf; omega)] at h1
      cases h1


/-! ## RFC 9651 §4.2.3 Parsing an Item, §4.2.1.1 Parsing an Item or Inner List -/

/-- §4.2.3: 1–2 bare item, 3 parameters.  `bi` / `pt` are the bare item and parameter texts. -/
def RfcItem (s bi pt text out : List Nat) : Prop :=
  ∃ r1 ps, consumeBareItem s = some (bi, r1) ∧ RfcParams r1 ps pt out ∧ text = bi ++ pt

theorem consumeItem_iff (s bi pt text out : List Nat) :
    consumeItem s = some (bi, pt, text, out) ↔ RfcItem s bi pt text out := by
  unfold consumeItem RfcItem
  constructor
  · intro h
    split at h; · cases h
    rename_i bi' r1 hb
    split at h; · cases h
    rename_i ps param rest hp
    simp only [Option.some.injEq, Prod.mk.injEq] at h
    obtain ⟨h1, h2, h3, h4⟩ := h
    subst h1; subst h2; subst h4
    have hp' := (consumeParameter_iff r1 param rest ps).1 hp
    refine ⟨r1, ps, hb, hp', ?_⟩
    rw [← h3, (consumeBareItem_split s bi' r1 hb).1, (rfcParams_split hp').1, ← List.append_assoc,
      consumedOf_append]
  · rintro ⟨r1, ps, hb, hp, rfl⟩
    rw [hb]
    simp only [(consumeParameter_iff r1 pt out ps).2 hp, Option.some.injEq, Prod.mk.injEq, true_and, and_true]
    rw [(consumeBareItem_split s bi r1 hb).1, (rfcParams_split hp).1, ← List.append_assoc, consumedOf_append]

/-- `ParseItem(s, f)` succeeds exactly when §4.2.3 consumes all of `s`, and calls `f` once with the bare
    item and the parameters the RFC algorithm yields. -/
theorem parseItem_iff (s bi pt : List Nat) : parseItem s = some (bi, pt) ↔ RfcItem s bi pt s [] := by
  unfold parseItem
  constructor
  · intro h
    split at h
    · rename_i bi' pt' text heq
      simp only [Option.some.injEq, Prod.mk.injEq] at h
      obtain ⟨h1, h2⟩ := h; subst h1; subst h2
      obtain ⟨r1, ps, hb, hp, ht⟩ := (consumeItem_iff s bi' pt' text []).1 heq
      refine ⟨r1, ps, hb, hp, ?_⟩
      rw [(consumeBareItem_split s bi' r1 hb).1, (rfcParams_split hp).1]; simp
    · cases h
  · intro h
    rw [(consumeItem_iff s bi pt s []).2 h]

/-- §4.2.1.1: `member` is the text of the bare item or of the inner list (without its parameters),
    `pt` the text of the parameters that follow it. -/
inductive RfcMember : List Nat → List Nat → List Nat → List Nat → Prop
  /-- step 1: the first character is "(" — §4.2.1.2 (inner list, then its parameters: step 3.2.2) -/
  | inner (t : List Nat) (items : List (List Nat × List Nat)) (m r1 : List Nat)
      (ps : List (List Nat × List Nat)) (pt out : List Nat) :
      RfcBareInner (40 :: t) items m r1 → RfcParams r1 ps pt out → RfcMember (40 :: t) m pt out
  /-- step 2: otherwise — §4.2.3 (item) -/
  | item (s m r1 : List Nat) (ps : List (List Nat × List Nat)) (pt out : List Nat) :
      (∀ t, s ≠ 40 :: t) → consumeBareItem s = some (m, r1) → RfcParams r1 ps pt out → RfcMember s m pt out

theorem rfcMember_split {s m pt out : List Nat} (h : RfcMember s m pt out) :
    s = m ++ (pt ++ out) ∧ m ≠ [] := by
  cases h with
  | inner t items m r1 ps pt out hi hp =>
    obtain ⟨r, t', e1, hl, e2⟩ := hi
    have := (rfcInnerLoop_split hl).1
    simp at e1; subst e1; subst e2
    exact ⟨by rw [this, (rfcParams_split hp).1]; simp, by simp⟩
  | item s m r1 ps pt out _ hb hp =>
    obtain ⟨e, hne⟩ := consumeBareItem_split s m r1 hb
    exact ⟨by rw [e, (rfcParams_split hp).1], hne⟩

/-- The model's `consumeMember` followed by `consumeParameter` is §4.2.1.1. -/
theorem member_iff (s m pt out : List Nat) :
    (∃ r1 ps, consumeMember s = some (m, r1) ∧ consumeParameter r1 = some (ps, pt, out)) ↔
      RfcMember s m pt out := by
  constructor
  · rintro ⟨r1, ps, hm, hp⟩
    have hp' := (consumeParameter_iff r1 pt out ps).1 hp
    unfold consumeMember at hm
    split at hm
    · rename_i t
      split at hm; · cases hm
      rename_i items consumed rest hi
      simp only [Option.some.injEq, Prod.mk.injEq] at hm
      obtain ⟨h1, h2⟩ := hm; subst h1; subst h2
      exact RfcMember.inner t items consumed rest ps pt out
        ((consumeBareInnerList_iff (40 :: t) consumed rest items).1 hi) hp'
    · rename_i hne
      exact RfcMember.item s m r1 ps pt out (fun t ht => hne t ht) hm hp'
  · intro h
    cases h with
    | inner t items m r1 ps pt out hi hp =>
      refine ⟨r1, ps, ?_, (consumeParameter_iff r1 pt out ps).2 hp⟩
      unfold consumeMember
      simp only [(consumeBareInnerList_iff (40 :: t) m r1 items).2 hi]
    | item s m r1 ps pt out hne hb hp =>
      refine ⟨r1, ps, ?_, (consumeParameter_iff r1 pt out ps).2 hp⟩
      unfold consumeMember
      split
      · rename_i t; exact absurd rfl (hne t)
      · exact hb

/-! ## RFC 9651 §4.2.1 Parsing a List -/

/-- `RfcList input members`: §4.2.1 run on the whole input. -/
inductive RfcList : List Nat → List (List Nat × List Nat) → Prop
  /-- step 2 not entered (input empty); step 3: return the empty list -/
  | nil : RfcList [] []
  /-- 2.1 member; 2.2 discard OWS; 2.3 input empty: return -/
  | last (s m pt ws : List Nat) : RfcMember s m pt ws → IsOwsRun ws → RfcList s [(m, pt)]
  /-- 2.1 member; 2.2 discard OWS; 2.4 consume ","; 2.5 discard OWS; 2.6 input not empty; loop -/
  | more (s m pt ws1 ws2 s' : List Nat) (ms : List (List Nat × List Nat)) :
      RfcMember s m pt (ws1 ++ 44 :: (ws2 ++ s')) → IsOwsRun ws1 → IsOwsRun ws2 → NoLeadOWS s' → s' ≠ [] →
      RfcList s' ms → RfcList s ((m, pt) :: ms)

theorem rfcList_len {s : List Nat} {ms : List (List Nat × List Nat)} (h : RfcList s ms) :
    ms.length ≤ s.length := by
  induction h with
  | nil => simp
  | last s m pt ws hm _ =>
    obtain ⟨e, hne⟩ := rfcMember_split hm
    have : 1 ≤ m.length := by cases m with | nil => exact absurd rfl hne | cons _ _ => simp
    rw [e]; simp; omega
  | more s m pt ws1 ws2 s' ms hm _ _ _ _ _ ih =>
    obtain ⟨e, hne⟩ := rfcMember_split hm
    rw [e]; simp; omega

theorem listLoop_sound : ∀ (fuel : Nat) (s : List Nat) (ms : List (List Nat × List Nat)),
    listLoop fuel s = some ms → RfcList s ms := by
  intro fuel
  induction fuel with
  | zero => intro s ms h; simp [listLoop] at h
  | succ f ih =>
    intro s ms h
    unfold listLoop at h
    cases s with
    | nil =>
      simp only [Option.some.injEq] at h
      subst h; exact RfcList.nil
    | cons c0 s0 =>
      simp only at h
      split at h; · cases h
      rename_i m s1 hm
      split at h; · cases h
      rename_i ps pt s2 hp
      have hmem := (member_iff (c0 :: s0) m pt s2).1 ⟨s1, ps, hm, hp⟩
      obtain ⟨ws, hw1, hw2, hw3⟩ := dropWS_decomp s2
      split at h
      · rename_i hd
        simp only [Option.some.injEq] at h
        subst h
        rw [hd, List.append_nil] at hw2
        rw [hw2] at hmem
        exact RfcList.last _ m pt ws hmem hw1
      · rename_i c s3 hd
        split at h; · cases h
        rename_i hc
        have hc' : c = 44 := by simpa using hc
        subst hc'
        obtain ⟨ws2, hv1, hv2, hv3⟩ := dropWS_decomp s3
        split at h; · cases h
        rename_i s4 hne4
        split at h; · cases h
        rename_i ms' hl
        simp only [Option.some.injEq] at h
        subst h
        have hrec := ih (dropWS s3) ms' hl
        have hne : dropWS s3 ≠ [] := fun e => hne4 e
        rw [hd, hv2] at hw2
        rw [hw2] at hmem
        exact RfcList.more _ m pt ws ws2 (dropWS s3) ms' hmem hw1 hv1 hv3 hne hrec

theorem listLoop_complete {s : List Nat} {ms : List (List Nat × List Nat)} (h : RfcList s ms) :
    ∀ fuel, ms.length + 1 ≤ fuel → listLoop fuel s = some ms := by
  induction h with
  | nil => intro fuel hf; cases fuel with | zero => omega | succ f => simp [listLoop]
  | last s m pt ws hm hw =>
    intro fuel hf
    cases fuel with
    | zero => omega
    | succ f =>
      obtain ⟨r1, ps, h1, h2⟩ := (member_iff s m pt ws).2 hm
      obtain ⟨e, hne⟩ := rfcMember_split hm
      have hd : dropWS ws = [] := by
        have := dropWS_of_decomp ws [] hw (by intro c t h; cases h)
        simpa using this
      cases s with
      | nil => cases m with
        | nil => exact absurd rfl hne
        | cons _ _ => simp at e
      | cons c0 s0 =>
        unfold listLoop
        simp only [h1, h2, hd]
  | more s m pt ws1 ws2 s' ms hm hw1 hw2 hw3 hne' _ ih =>
    intro fuel hf
    cases fuel with
    | zero => omega
    | succ f =>
      obtain ⟨r1, ps, h1, h2⟩ := (member_iff s m pt _).2 hm
      obtain ⟨e, hne⟩ := rfcMember_split hm
      have hd1 : dropWS (ws1 ++ 44 :: (ws2 ++ s')) = 44 :: (ws2 ++ s') :=
        dropWS_of_decomp ws1 _ hw1 (by intro c t h; simp at h; omega)
      have hd2 : dropWS (ws2 ++ s') = s' := dropWS_of_decomp ws2 s' hw2 hw3
      have := ih f (by simp at hf; omega)
      cases s with
      | nil => cases m with
        | nil => exact absurd rfl hne
        | cons _ _ => simp at e
      | cons c0 s0 =>
        cases s' with
        | nil => exact absurd rfl hne'
        | cons c1 t1 =>
          unfold listLoop
          simp only [h1, h2, hd1, bne_self_eq_false, Bool.false_eq_true, if_false, hd2, this]

/-- `ParseList(s, f)` succeeds exactly on the inputs §4.2.1 accepts and calls `f` with exactly the members
    (bare item or inner list text, parameter text) the RFC algorithm yields, in order. -/
theorem parseList_iff (s : List Nat) (ms : List (List Nat × List Nat)) :
    parseList s = some ms ↔ RfcList s ms := by
  unfold parseList
  constructor
  · exact listLoop_sound _ s ms
  · intro h
    exact listLoop_complete h _ (by have := rfcList_len h; omega)

/-- Fuel sufficiency for the list loop. -/
theorem listLoop_fuel (s : List Nat) (fuel : Nat) (hf : s.length + 1 ≤ fuel) :
    listLoop fuel s = listLoop (s.length + 1) s := by
  cases h1 : listLoop fuel s with
  | some ms =>
    have ht := listLoop_sound fuel s ms h1
    rw [listLoop_complete ht (s.length + 1) (by have := rfcList_len ht; omega)]
  | none =>
    cases h2 : listLoop (s.length + 1) s with
    | none => rfl
    | some ms =>
      have ht := listLoop_sound _ s ms h2
      rw [listLoop_complete ht fuel (by have := rfcList_len ht; omega)] at h1
      cases h1


/-! ## RFC 9651 §4.2.2 Parsing a Dictionary -/

/-- One dictionary member (steps 2.1–2.3): key, value text ("?1" when omitted), parameter text, rest. -/
inductive RfcDictMember : List Nat → List Nat → List Nat → List Nat → List Nat → Prop
  /-- 2.1 key; 2.3 no "=": value is Boolean true, then parameters (§4.2.3.2) -/
  | bare (s key r1 : List Nat) (ps : List (List Nat × List Nat)) (pt out : List Nat) :
      consumeKey s = some (key, r1) → (∀ t, r1 ≠ 61 :: t) → RfcParams r1 ps pt out →
      RfcDictMember s key boolTrueText pt out
  /-- 2.1 key; 2.2 "=": 2.2.1 consume it, 2.2.2 an Item or Inner List (§4.2.1.1) -/
  | valued (s key r2 val pt out : List Nat) :
      consumeKey s = some (key, 61 :: r2) → RfcMember r2 val pt out → RfcDictMember s key val pt out

/-- `RfcDict input members`: §4.2.2 run on the whole input (the ordered map of steps 2.4 / 2.5 is obtained
    from the member sequence by overwriting repeated keys). -/
inductive RfcDict : List Nat → List (List Nat × List Nat × List Nat) → Prop
  /-- step 2 not entered; step 3: return the empty dictionary -/
  | nil : RfcDict [] []
  /-- 2.1–2.5 member; 2.6 discard OWS; 2.7 input empty: return -/
  | last (s key val pt ws : List Nat) : RfcDictMember s key val pt ws → IsOwsRun ws →
      RfcDict s [(key, val, pt)]
  /-- 2.1–2.5 member; 2.6 discard OWS; 2.8 consume ","; 2.9 discard OWS; 2.10 input not empty; loop -/
  | more (s key val pt ws1 ws2 s' : List Nat) (ms : List (List Nat × List Nat × List Nat)) :
      RfcDictMember s key val pt (ws1 ++ 44 :: (ws2 ++ s')) → IsOwsRun ws1 → IsOwsRun ws2 → NoLeadOWS s' →
      s' ≠ [] → RfcDict s' ms → RfcDict s ((key, val, pt) :: ms)

theorem rfcDictMember_split {s key val pt out : List Nat} (h : RfcDictMember s key val pt out) :
    1 ≤ key.length ∧ out.length + key.length ≤ s.length := by
  match h with
  | .bare _ _ r1 ps _ _ hk _ hp =>
    obtain ⟨e, hne⟩ := consumeKey_split s key r1 hk
    have : 1 ≤ key.length := by cases key with | nil => exact absurd rfl hne | cons _ _ => simp
    have e2 := (rfcParams_split hp).1
    refine ⟨this, ?_⟩
    rw [e, e2]; simp; omega
  | .valued _ _ r2 _ _ _ hk hm =>
    obtain ⟨e, hne⟩ := consumeKey_split s key _ hk
    have : 1 ≤ key.length := by cases key with | nil => exact absurd rfl hne | cons _ _ => simp
    have e2 := (rfcMember_split hm).1
    refine ⟨this, ?_⟩
    rw [e, e2]; simp; omega

/-- The model's key / `dictValue` / `consumeParameter` sequence is one RFC dictionary member. -/
theorem dictMember_iff (s key val pt out : List Nat) :
    (∃ s1 s2 ps, consumeKey s = some (key, s1) ∧ dictValue s1 = some (val, s2) ∧
        consumeParameter s2 = some (ps, pt, out)) ↔ RfcDictMember s key val pt out := by
  constructor
  · rintro ⟨s1, s2, ps, hk, hv, hp⟩
    unfold dictValue at hv
    split at hv
    · rename_i r2
      exact RfcDictMember.valued s key r2 val pt out hk ((member_iff r2 val pt out).1 ⟨s2, ps, hv, hp⟩)
    · rename_i hne
      simp only [Option.some.injEq, Prod.mk.injEq] at hv
      obtain ⟨h1, h2⟩ := hv; subst h1; subst h2
      exact RfcDictMember.bare s key s1 ps pt out hk (fun t ht => hne t ht)
        ((consumeParameter_iff s1 pt out ps).1 hp)
  · intro h
    match h with
    | .bare _ _ r1 ps _ _ hk hne hp =>
      refine ⟨r1, r1, ps, hk, ?_, (consumeParameter_iff r1 pt out ps).2 hp⟩
      unfold dictValue
      split
      · rename_i t; exact absurd rfl (hne t)
      · rfl
    | .valued _ _ r2 _ _ _ hk hm =>
      obtain ⟨r1, ps, h1, h2⟩ := (member_iff r2 val pt out).2 hm
      exact ⟨61 :: r2, r1, ps, hk, by simp [dictValue, h1], h2⟩

theorem rfcDict_len {s : List Nat} {ms : List (List Nat × List Nat × List Nat)} (h : RfcDict s ms) :
    ms.length ≤ s.length := by
  induction h with
  | nil => simp
  | last s key val pt ws hm _ =>
    have := rfcDictMember_split hm
    simp; omega
  | more s key val pt ws1 ws2 s' ms hm _ _ _ _ _ ih =>
    have := rfcDictMember_split hm
    simp at this ⊢; omega

theorem dictLoop_sound : ∀ (fuel : Nat) (s : List Nat) (ms : List (List Nat × List Nat × List Nat)),
    dictLoop fuel s = some ms → RfcDict s ms := by
  intro fuel
  induction fuel with
  | zero => intro s ms h; simp [dictLoop] at h
  | succ f ih =>
    intro s ms h
    unfold dictLoop at h
    cases s with
    | nil =>
      simp only [Option.some.injEq] at h
      subst h; exact RfcDict.nil
    | cons c0 s0 =>
      simp only at h
      split at h; · cases h
      rename_i key s1 hk
      split at h; · cases h
      rename_i val s2 hv
      split at h; · cases h
      rename_i ps pt s3 hp
      have hmem := (dictMember_iff (c0 :: s0) key val pt s3).1 ⟨s1, s2, ps, hk, hv, hp⟩
      obtain ⟨ws, hw1, hw2, hw3⟩ := dropWS_decomp s3
      split at h
      · rename_i hd
        simp only [Option.some.injEq] at h
        subst h
        rw [hd, List.append_nil] at hw2
        rw [hw2] at hmem
        exact RfcDict.last _ key val pt ws hmem hw1
      · rename_i c s4 hd
        split at h; · cases h
        rename_i hc
        have hc' : c = 44 := by simpa using hc
        subst hc'
        obtain ⟨ws2, hv1, hv2, hv3⟩ := dropWS_decomp s4
        split at h; · cases h
        rename_i s6 hne6
        split at h; · cases h
        rename_i ms' hl
        simp only [Option.some.injEq] at h
        subst h
        have hrec := ih (dropWS s4) ms' hl
        have hne : dropWS s4 ≠ [] := fun e => hne6 e
        rw [hd, hv2] at hw2
        rw [hw2] at hmem
        exact RfcDict.more _ key val pt ws ws2 (dropWS s4) ms' hmem hw1 hv1 hv3 hne hrec

theorem dictLoop_complete {s : List Nat} {ms : List (List Nat × List Nat × List Nat)} (h : RfcDict s ms) :
    ∀ fuel, ms.length + 1 ≤ fuel → dictLoop fuel s = some ms := by
  induction h with
  | nil => intro fuel hf; cases fuel with | zero => omega | succ f => simp [dictLoop]
  | last s key val pt ws hm hw =>
    intro fuel hf
    cases fuel with
    | zero => omega
    | succ f =>
      obtain ⟨s1, s2, ps, h1, h2, h3⟩ := (dictMember_iff s key val pt ws).2 hm
      have hs := rfcDictMember_split hm
      have hd : dropWS ws = [] := by
        have := dropWS_of_decomp ws [] hw (by intro c t h; cases h)
        simpa using this
      cases s with
      | nil => have h0 : ws.length + key.length ≤ 0 := hs.2; have := hs.1; omega
      | cons c0 s0 =>
        unfold dictLoop
        simp only [h1, h2, h3, hd]
  | more s key val pt ws1 ws2 s' ms hm hw1 hw2 hw3 hne' _ ih =>
    intro fuel hf
    cases fuel with
    | zero => omega
    | succ f =>
      obtain ⟨s1, s2, ps, h1, h2, h3⟩ := (dictMember_iff s key val pt _).2 hm
      have hs := rfcDictMember_split hm
      have hd1 : dropWS (ws1 ++ 44 :: (ws2 ++ s')) = 44 :: (ws2 ++ s') :=
        dropWS_of_decomp ws1 _ hw1 (by intro c t h; simp at h; omega)
      have hd2 : dropWS (ws2 ++ s') = s' := dropWS_of_decomp ws2 s' hw2 hw3
      have := ih f (by simp at hf; omega)
      cases s with
      | nil => have h0 : (ws1 ++ 44 :: (ws2 ++ s')).length + key.length ≤ 0 := hs.2; have := hs.1; omega
      | cons c0 s0 =>
        cases s' with
        | nil => exact absurd rfl hne'
        | cons c1 t1 =>
          unfold dictLoop
          simp only [h1, h2, h3, hd1, bne_self_eq_false, Bool.false_eq_true, if_false, hd2, this]

/-- `ParseDictionary(s, f)` succeeds exactly on the inputs §4.2.2 accepts and calls `f` with exactly the
    (key, value text — "?1" when omitted —, parameter text) triples the RFC algorithm meets, in order. -/
theorem parseDictionary_iff (s : List Nat) (ms : List (List Nat × List Nat × List Nat)) :
    parseDictionary s = some ms ↔ RfcDict s ms := by
  unfold parseDictionary
  constructor
  · exact dictLoop_sound _ s ms
  · intro h
    exact dictLoop_complete h _ (by have := rfcDict_len h; omega)

/-- Fuel sufficiency for the dictionary loop. -/
theorem dictLoop_fuel (s : List Nat) (fuel : Nat) (hf : s.length + 1 ≤ fuel) :
    dictLoop fuel s = dictLoop (s.length + 1) s := by
  cases h1 : dictLoop fuel s with
  | some ms =>
    have ht := dictLoop_sound fuel s ms h1
    rw [dictLoop_complete ht (s.length + 1) (by have := rfcDict_len ht; omega)]
  | none =>
    cases h2 : dictLoop (s.length + 1) s with
    | none => rfl
    | some ms =>
      have ht := dictLoop_sound _ s ms h2
      rw [dictLoop_complete ht fuel (by have := rfcDict_len ht; omega)] at h1
      cases h1

/-! ## Accept-iff and determinism corollaries -/

theorem parseParameter_accepts_iff (s : List Nat) : (parseParameter s).isSome ↔ ∃ ps, RfcParams s ps s [] := by
  constructor
  · intro h
    cases hp : parseParameter s with
    | none => rw [hp] at h; cases h
    | some ps => exact ⟨ps, (parseParameter_iff s ps).1 hp⟩
  · rintro ⟨ps, h⟩; rw [(parseParameter_iff s ps).2 h]; rfl

theorem parseBareInnerList_accepts_iff (s : List Nat) :
    (parseBareInnerList s).isSome ↔ ∃ items, RfcBareInner s items s [] := by
  constructor
  · intro h
    cases hp : parseBareInnerList s with
    | none => rw [hp] at h; cases h
    | some items => exact ⟨items, (parseBareInnerList_iff s items).1 hp⟩
  · rintro ⟨items, h⟩; rw [(parseBareInnerList_iff s items).2 h]; rfl

theorem parseItem_accepts_iff (s : List Nat) : (parseItem s).isSome ↔ ∃ bi pt, RfcItem s bi pt s [] := by
  constructor
  · intro h
    cases hp : parseItem s with
    | none => rw [hp] at h; cases h
    | some r => exact ⟨r.1, r.2, (parseItem_iff s r.1 r.2).1 hp⟩
  · rintro ⟨bi, pt, h⟩; rw [(parseItem_iff s bi pt).2 h]; rfl

theorem parseList_accepts_iff (s : List Nat) : (parseList s).isSome ↔ ∃ ms, RfcList s ms := by
  constructor
  · intro h
    cases hp : parseList s with
    | none => rw [hp] at h; cases h
    | some ms => exact ⟨ms, (parseList_iff s ms).1 hp⟩
  · rintro ⟨ms, h⟩; rw [(parseList_iff s ms).2 h]; rfl

theorem parseDictionary_accepts_iff (s : List Nat) : (parseDictionary s).isSome ↔ ∃ ms, RfcDict s ms := by
  constructor
  · intro h
    cases hp : parseDictionary s with
    | none => rw [hp] at h; cases h
    | some ms => exact ⟨ms, (parseDictionary_iff s ms).1 hp⟩
  · rintro ⟨ms, h⟩; rw [(parseDictionary_iff s ms).2 h]; rfl

/-- The RFC algorithms are deterministic: the reported members are unique. -/
theorem rfcList_deterministic (s : List Nat) (a b : List (List Nat × List Nat))
    (ha : RfcList s a) (hb : RfcList s b) : a = b := by
  have h1 := (parseList_iff s a).2 ha
  have h2 := (parseList_iff s b).2 hb
  rw [h1] at h2; exact Option.some.inj h2

theorem rfcDict_deterministic (s : List Nat) (a b : List (List Nat × List Nat × List Nat))
    (ha : RfcDict s a) (hb : RfcDict s b) : a = b := by
  have h1 := (parseDictionary_iff s a).2 ha
  have h2 := (parseDictionary_iff s b).2 hb
  rw [h1] at h2; exact Option.some.inj h2

/-! ## RFC 9651 §4.2 (the top-level wrapper): leading / trailing SP of the field value

§4.2 step 2 discards leading SP before, and step 6 trailing SP after, the structure's algorithm. No
httpsfv function does this (callers pass trimmed header values), so read literally ("accept exactly the
strings RFC 9651 accepts for that structure") the property fails on inputs such as " a" — known finding
`C56:top-level-sp-not-discarded`.  It holds for every input without such surrounding SP. -/

/-- §4.2 for a List: steps 2, 4 (§4.2.1 returns only at the end of input, so steps 6–7 are vacuous). -/
def RfcTopList (s : List Nat) (ms : List (List Nat × List Nat)) : Prop := RfcList (dropSP s) ms
/-- §4.2 for a Dictionary: steps 2, 3. -/
def RfcTopDict (s : List Nat) (ms : List (List Nat × List Nat × List Nat)) : Prop := RfcDict (dropSP s) ms
/-- §4.2 for an Item: steps 2, 5, 6 (discard trailing SP), 7 (nothing left). -/
def RfcTopItem (s bi pt : List Nat) : Prop := ∃ text sp, RfcItem (dropSP s) bi pt text sp ∧ IsSpRun sp

def TopLevelStatement : Prop :=
  (∀ s ms, parseList s = some ms ↔ RfcTopList s ms) ∧
  (∀ s ms, parseDictionary s = some ms ↔ RfcTopDict s ms) ∧
  (∀ s bi pt, parseItem s = some (bi, pt) ↔ RfcTopItem s bi pt)

/-- False on the code as it is: " a" is a valid List per §4.2 and is rejected. -/
theorem topLevel_full_false : ¬ TopLevelStatement := by
  rintro ⟨h, _, _⟩
  have hr : RfcTopList [32, 97] [([97], [])] := by
    show RfcList (dropSP [32, 97]) _
    have : dropSP [32, 97] = [97] := by decide
    rw [this]
    exact (parseList_iff _ _).1 (by decide)
  have := (h _ _).2 hr
  revert this; decide

private theorem dropSP_noLead (s : List Nat) (h : NoLeadSP s) : dropSP s = s := by
  have := dropSP_of_decomp [] s (fun b hb => by cases hb) h
  simpa using this

/-- Lists and dictionaries: the statement holds for every input that does not start with SP
    (trailing SP / HTAB is accepted by both sides). -/
theorem topLevel_list_holds_partial (s : List Nat) (ms : List (List Nat × List Nat)) (h : NoLeadSP s) :
    parseList s = some ms ↔ RfcTopList s ms := by
  unfold RfcTopList; rw [dropSP_noLead s h]; exact parseList_iff s ms

theorem topLevel_dict_holds_partial (s : List Nat) (ms : List (List Nat × List Nat × List Nat))
    (h : NoLeadSP s) : parseDictionary s = some ms ↔ RfcTopDict s ms := by
  unfold RfcTopDict; rw [dropSP_noLead s h]; exact parseDictionary_iff s ms

/-- Items: one direction holds always for inputs not starting with SP (what the package accepts, §4.2
    accepts with the same result); the converse needs "no trailing SP" and is the finding. -/
theorem topLevel_item_holds_partial (s bi pt : List Nat) (h : NoLeadSP s)
    (hp : parseItem s = some (bi, pt)) : RfcTopItem s bi pt := by
  refine ⟨s, [], ?_, fun b hb => by cases hb⟩
  rw [dropSP_noLead s h]; exact (parseItem_iff s bi pt).1 hp

/-! ## Repeated dictionary keys: the RFC's ordered map vs. the reported member sequence

§4.2.2 steps 2.4–2.5: "If dictionary already contains a key this_key, overwrite its value with member;
otherwise append".  `ParseDictionary` calls its callback for EVERY instance, in input order (`RfcDict`
above is that sequence); the RFC's dictionary is `rfcDictMap` of it.  Read literally ("report the
members … RFC 9651 yields") the reports differ from the RFC's members exactly when a key is repeated —
known finding `C56:duplicate-key-instances-all-reported`; a last-wins consumer reconstructs the RFC value. -/

/-- step 2.4 / 2.5 for one member -/
def dictInsert (m : List (List Nat × List Nat × List Nat)) (e : List Nat × List Nat × List Nat) :
    List (List Nat × List Nat × List Nat) :=
  match m with
  | [] => [e]
  | x :: m' => if x.1 = e.1 then e :: m' else x :: dictInsert m' e

/-- the dictionary §4.2.2 returns for the member sequence `seq` -/
def rfcDictMap (seq : List (List Nat × List Nat × List Nat)) : List (List Nat × List Nat × List Nat) :=
  seq.foldl dictInsert []

def DictValueStatement : Prop :=
  ∀ s ms, parseDictionary s = some ms ↔ ∃ seq, RfcDict s seq ∧ ms = rfcDictMap seq

/-- False on the code as it is: "u=5, u=9" is the dictionary {u: 9}; two members are reported. -/
theorem dictValue_full_false : ¬ DictValueStatement := by
  intro h
  have hseq : RfcDict [117, 61, 53, 44, 32, 117, 61, 57] [([117], [53], []), ([117], [57], [])] :=
    (parseDictionary_iff _ _).1 (by decide)
  have := (h [117, 61, 53, 44, 32, 117, 61, 57] [([117], [57], [])]).2 ⟨_, hseq, by decide⟩
  revert this; decide

private theorem dictInsert_new (m : List (List Nat × List Nat × List Nat)) (e : List Nat × List Nat × List Nat)
    (h : ∀ x ∈ m, x.1 ≠ e.1) : dictInsert m e = m ++ [e] := by
  induction m with
  | nil => rfl
  | cons x m ih =>
    have hx := h x (by simp)
    simp only [dictInsert, hx, if_false, List.cons_append]
    rw [ih (fun y hy => h y (by simp [hy]))]

private theorem foldl_dictInsert_nodup (seq acc : List (List Nat × List Nat × List Nat))
    (h1 : ∀ e ∈ seq, ∀ x ∈ acc, x.1 ≠ e.1) (h2 : (seq.map (fun e => e.1)).Nodup) :
    seq.foldl dictInsert acc = acc ++ seq := by
  induction seq generalizing acc with
  | nil => simp
  | cons e rest ih =>
    simp only [List.map_cons, List.nodup_cons] at h2
    simp only [List.foldl_cons]
    rw [dictInsert_new acc e (h1 e (by simp))]
    rw [ih (acc ++ [e]) ?_ h2.2]
    · simp
    · intro e' he' x hx
      simp at hx
      rcases hx with hx | rfl
      · exact h1 e' (by simp [he']) x hx
      · intro heq
        apply h2.1
        simp only [List.mem_map]
        exact ⟨e', he', heq.symm⟩

/-- Without repeated keys the reported sequence IS the RFC's dictionary. -/
theorem rfcDictMap_nodup (seq : List (List Nat × List Nat × List Nat))
    (h : (seq.map (fun e => e.1)).Nodup) : rfcDictMap seq = seq := by
  unfold rfcDictMap
  have := foldl_dictInsert_nodup seq [] (by intro e _ x hx; cases hx) h
  simpa using this

/-- The statement holds whenever no key is repeated (both directions). -/
theorem dictValue_holds_partial (s : List Nat) (ms : List (List Nat × List Nat × List Nat)) :
    (parseDictionary s = some ms → (ms.map (fun e => e.1)).Nodup →
        ∃ seq, RfcDict s seq ∧ ms = rfcDictMap seq) ∧
    (∀ seq, RfcDict s seq → (seq.map (fun e => e.1)).Nodup → ms = rfcDictMap seq →
        parseDictionary s = some ms) := by
  constructor
  · intro h hn
    exact ⟨ms, (parseDictionary_iff s ms).1 h, (rfcDictMap_nodup ms hn).symm⟩
  · intro seq hs hn he
    rw [he, rfcDictMap_nodup seq hn]
    exact (parseDictionary_iff s seq).2 hs

/-- With repeated keys a last-wins fold over the reports gives the RFC's dictionary:
    "u=5, u=9" ↦ {u: 9};  "a;x=1, b, a=2" ↦ {a: 2, b: ?1} (the overwritten member keeps its position). -/
example : (parseDictionary [117, 61, 53, 44, 32, 117, 61, 57]).map rfcDictMap = some [([117], [57], [])] := by decide
example : (parseDictionary [97, 59, 120, 61, 49, 44, 32, 98, 44, 32, 97, 61, 50]).map rfcDictMap =
    some [([97], [50], []), ([98], [63, 49], [])] := by decide

/-! ## Non-vacuity: derivations for concrete inputs, obtained through the equivalences -/

-- "u=3, i" (an RFC 9218 priority value)
example : RfcDict [117, 61, 51, 44, 32, 105] [([117], [51], []), ([105], [63, 49], [])] :=
  (parseDictionary_iff _ _).1 (by decide)
-- "(a;x b) , 1;q=?0"
example : RfcList [40, 97, 59, 120, 32, 98, 41, 32, 44, 32, 49, 59, 113, 61, 63, 48]
    [([40, 97, 59, 120, 32, 98, 41], []), ([49], [59, 113, 61, 63, 48])] :=
  (parseList_iff _ _).1 (by decide)
-- "(" , "a b" , "(a\tb)" have no derivation
example : ¬ ∃ ms, RfcList [40] ms := by
  rintro ⟨ms, h⟩; have h2 := (parseList_iff _ _).2 h
  rw [show parseList [40] = none by decide] at h2; cases h2
example : ¬ ∃ ms, RfcDict [97, 32, 98] ms := by
  rintro ⟨ms, h⟩; have h2 := (parseDictionary_iff _ _).2 h
  rw [show parseDictionary [97, 32, 98] = none by decide] at h2; cases h2

end NetVerif.Proofs.C56
