import NetVerif.Model.VarintQuic
import NetVerif.Gen.C22
/-!
C22 — QUIC variable-length integers round-trip for all 62-bit values.
Property theorems only (helper lemmas are local `private` ones).
-/
namespace NetVerif.Proofs.C22
open NetVerif NetVerif.Model.VarintQuic

/-- Well-formed byte list. -/
def BytesWF (bs : List Nat) : Prop := ∀ b ∈ bs, b < 256

/-- Append accepts exactly the 62-bit values. -/
theorem append_accepts_iff (v : Nat) : (appendVarint v).isSome ↔ v ≤ maxVarint := by
  unfold appendVarint maxVarint
  repeat' split
  all_goals simp
  all_goals omega

/-- `len (AppendVarint v) = SizeVarint v`. -/
theorem append_length_eq_size (v : Nat) (bs : List Nat) (h : appendVarint v = some bs) :
    sizeVarint v = some bs.length := by
  unfold appendVarint at h
  unfold sizeVarint
  repeat' split at h
  all_goals simp at h
  all_goals subst h
  all_goals (repeat' split)
  all_goals (try simp)
  all_goals omega

/-- The encoding is made of bytes. -/
theorem append_bytesWF (v : Nat) (bs : List Nat) (h : appendVarint v = some bs) : BytesWF bs := by
  unfold appendVarint at h
  unfold BytesWF
  repeat' split at h
  all_goals simp at h
  all_goals subst h
  all_goals simp
  all_goals omega

/-- Shortest encoding: the chosen size is the least of 1,2,4,8 whose capacity holds `v`. -/
theorem size_shortest (v n : Nat) (h : sizeVarint v = some n) :
    (n = 1 ∧ v < 2^6) ∨ (n = 2 ∧ 2^6 ≤ v ∧ v < 2^14) ∨
    (n = 4 ∧ 2^14 ≤ v ∧ v < 2^30) ∨ (n = 8 ∧ 2^30 ≤ v ∧ v < 2^62) := by
  unfold sizeVarint at h
  repeat' split at h
  all_goals simp at h
  all_goals omega

/-- Round trip: consuming `AppendVarint v` followed by anything returns `v` and its size. -/
theorem consume_append (v : Nat) (bs tail : List Nat) (h : appendVarint v = some bs) :
    consumeVarint (bs ++ tail) = some (v, bs.length) := by
  unfold appendVarint at h
  repeat' split at h
  all_goals simp at h
  all_goals subst h
  all_goals simp [consumeVarint]
  all_goals (repeat' split)
  all_goals (try simp)
  all_goals omega

/-- ConsumeVarint never reports more bytes than it was given, and only 1,2,4,8. -/
theorem consume_within_input (b : List Nat) (v n : Nat) (h : consumeVarint b = some (v, n)) :
    n ≤ b.length ∧ (n = 1 ∨ n = 2 ∨ n = 4 ∨ n = 8) := by
  unfold consumeVarint at h
  repeat' split at h
  all_goals simp at h
  all_goals (obtain ⟨_, rfl⟩ := h)
  all_goals simp
  all_goals omega

/-- The result only depends on the bytes it reports having read. -/
theorem consume_prefix_only (b : List Nat) (v n : Nat) (h : consumeVarint b = some (v, n))
    (tail : List Nat) : consumeVarint (b.take n ++ tail) = some (v, n) := by
  unfold consumeVarint at h
  repeat' split at h
  all_goals simp at h
  all_goals (obtain ⟨rfl, rfl⟩ := h)
  all_goals simp_all [consumeVarint]

local macro "trunc_close" : tactic =>
  `(tactic| (simp [consumeVarint]; all_goals (repeat' split); all_goals (try simp); all_goals (try omega)))

/-- Truncation is an error: every strict prefix of an encoding is rejected. -/
theorem consume_truncated (v : Nat) (bs : List Nat) (h : appendVarint v = some bs)
    (k : Nat) (hk : k < bs.length) : consumeVarint (bs.take k) = none := by
  unfold appendVarint at h
  repeat' split at h
  all_goals simp at h
  all_goals subst h
  all_goals simp at hk
  · have : k = 0 := by omega
    subst this; simp [consumeVarint]
  · have : k = 0 ∨ k = 1 := by omega
    rcases this with rfl | rfl <;> trunc_close
  · have : k = 0 ∨ k = 1 ∨ k = 2 ∨ k = 3 := by omega
    rcases this with rfl | rfl | rfl | rfl <;> trunc_close
  · have : k = 0 ∨ k = 1 ∨ k = 2 ∨ k = 3 ∨ k = 4 ∨ k = 5 ∨ k = 6 ∨ k = 7 := by omega
    rcases this with rfl | rfl | rfl | rfl | rfl | rfl | rfl | rfl <;> trunc_close

/-- Decoded values are always below 2^62 for well-formed bytes. -/
theorem consume_value_bound (b : List Nat) (hb : BytesWF b) (v n : Nat)
    (h : consumeVarint b = some (v, n)) : v ≤ maxVarint := by
  unfold consumeVarint at h
  unfold maxVarint
  unfold BytesWF at hb
  repeat' split at h
  all_goals simp at h
  all_goals (obtain ⟨rfl, _⟩ := h)
  all_goals simp at hb
  all_goals omega

/-- Length-prefixed (8-bit) bytes round-trip. -/
theorem uint8Bytes_roundtrip (v tail bs : List Nat) (h : appendUint8Bytes v = some bs) :
    consumeUint8Bytes (bs ++ tail) = some (v, bs.length) := by
  unfold appendUint8Bytes at h
  split at h
  · simp at h
  · simp at h; subst h
    simp [consumeUint8Bytes]

/-- Length-prefixed (varint) bytes round-trip. -/
theorem varintBytes_roundtrip (v tail bs : List Nat) (h : appendVarintBytes v = some bs) :
    consumeVarintBytes (bs ++ tail) = some (v, bs.length) := by
  unfold appendVarintBytes at h
  split at h
  · rename_i p hp
    simp at h; subst h
    have := consume_append v.length p (v ++ tail) hp
    simp [consumeVarintBytes, List.append_assoc, this]
    omega
  · simp at h

/-! ### Tie to the source: the functions regenerated from wire.go equal the model -/

private theorem lor64 (k x : Nat) (hx : x < 64) : (k * 64) ||| x = k * 64 + x := by
  have := Nat.two_pow_add_eq_or_of_lt (i := 6) (b := x) (by simpa using hx) k
  simp at this
  rw [Nat.mul_comm]; exact this.symm

theorem gen_sizeVarint_eq (v : Nat) : Gen.C22.sizeVarint v = sizeVarint v := by
  unfold Gen.C22.sizeVarint sizeVarint
  rfl

theorem gen_appendVarint_eq (v : Nat) : Gen.C22.appendVarint [] v = appendVarint v := by
  unfold Gen.C22.appendVarint appendVarint
  repeat' split
  all_goals simp
  · omega
  · rw [lor64 1 _ (by omega)]; omega
  · rw [lor64 2 _ (by omega)]; omega
  · rw [lor64 3 _ (by omega)]; omega

theorem gen_maxVarint_eq : Gen.C22.maxVarint = maxVarint ∧ Gen.C22.maxVarintSize = 8 := by decide

/-- Non-vacuity: the hypotheses are met by concrete non-trivial values. -/
example : appendVarint 494878333 = some [0x9d, 0x7f, 0x3e, 0x7d] := by decide
example : consumeVarint [0xc2, 0x19, 0x7c, 0x5e, 0xff, 0x14, 0xe8, 0x8c, 7] =
    some (151288809941952652, 8) := by decide
example : appendVarintBytes [1, 2, 3] = some [3, 1, 2, 3] := by decide

end NetVerif.Proofs.C22
