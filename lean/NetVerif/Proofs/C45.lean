import NetVerif.Model.DavPath
/-!
C45 — WebDAV `Dir` keeps every request path inside its root.

Everything is stated on the model of `slashClean` / `Dir.resolve` / `Dir.RemoveAll` / `Dir.Rename`
in `Model/DavPath.lean` (tied to webdav/file.go by the differential run of `./check C45`).
-/
namespace NetVerif.Proofs.C45
open NetVerif.Model.DavPath

/-- An ordinary path component: not empty, not ".", not "..", and without a slash. -/
def Normal (c : Bytes) : Prop := c ≠ [] ∧ c ≠ [46] ∧ c ≠ [46, 46] ∧ 47 ∉ c

/-- The cleaned component list of the Dir root (`filepath.Clean(string(d))`). -/
def rootComps (d : Bytes) : List Bytes := cleanComps (isRooted (dirOf d)) (splitSlash (dirOf d))

/-- `"/" ++ c` for every component, concatenated. -/
def below (cs : List Bytes) : Bytes := cs.flatMap (fun c => 47 :: c)

/-! ### helper lemmas -/

private theorem splitSlash_ne_nil (s : Bytes) : splitSlash s ≠ [] := by
  induction s with
  | nil => simp [splitSlash]
  | cons b rest ih =>
    unfold splitSlash
    split
    · simp
    · split <;> simp

private theorem splitSlash_noSlash (s : Bytes) : ∀ c ∈ splitSlash s, 47 ∉ c := by
  induction s with
  | nil => simp [splitSlash]
  | cons b rest ih =>
    unfold splitSlash
    split
    · intro c hc
      simp at hc
      rcases hc with rfl | hc
      · simp
      · exact ih c hc
    · rename_i hb
      split
      · intro c hc; simp at hc; subst hc; simp; omega
      · rename_i c0 cs heq
        intro c hc
        simp at hc
        rcases hc with rfl | hc
        · have := ih c0 (by simp [heq])
          simp; exact ⟨by omega, this⟩
        · exact ih c (by simp [heq, hc])

private theorem splitSlash_cons_slash (r : Bytes) : splitSlash (47 :: r) = [] :: splitSlash r := by
  simp [splitSlash]

private theorem splitSlash_cons_ne (x : Nat) (r c : Bytes) (cs : List Bytes) (hx : x ≠ 47)
    (h : splitSlash r = c :: cs) : splitSlash (x :: r) = (x :: c) :: cs := by
  rw [splitSlash, if_neg hx, h]

private theorem splitSlash_append (a b : Bytes) :
    splitSlash (a ++ 47 :: b) = splitSlash a ++ splitSlash b := by
  induction a with
  | nil => simp [splitSlash_cons_slash]; simp [splitSlash]
  | cons x rest ih =>
    simp only [List.cons_append]
    by_cases hx : x = 47
    · subst hx
      rw [splitSlash_cons_slash, splitSlash_cons_slash, ih]; simp
    · have h1 := splitSlash_ne_nil rest
      cases hs : splitSlash rest with
      | nil => exact absurd hs h1
      | cons c cs =>
        rw [splitSlash_cons_ne x rest c cs hx hs,
          splitSlash_cons_ne x (rest ++ 47 :: b) c (cs ++ splitSlash b) hx (by rw [ih, hs]; simp)]
        simp

private theorem splitSlash_single (c : Bytes) (h : 47 ∉ c) : splitSlash c = [c] := by
  induction c with
  | nil => simp [splitSlash]
  | cons x rest ih =>
    simp at h
    unfold splitSlash
    rw [if_neg (by omega), ih h.2]

private theorem splitSlash_joinSlash (cs : List Bytes) (hne : cs ≠ []) (h : ∀ c ∈ cs, 47 ∉ c) :
    splitSlash (joinSlash cs) = cs := by
  induction cs with
  | nil => exact absurd rfl hne
  | cons c rest ih =>
    cases rest with
    | nil => simp [joinSlash]; exact splitSlash_single c (h c (by simp))
    | cons c2 rest2 =>
      simp only [joinSlash]
      rw [splitSlash_append, splitSlash_single c (h c (by simp)),
        ih (by simp) (fun x hx => h x (by simp [hx]))]
      simp

private theorem foldl_normal (r : Bool) (cs stk : List Bytes) (h : ∀ c ∈ cs, Normal c) :
    cs.foldl (cleanStep r) stk = cs.reverse ++ stk := by
  induction cs generalizing stk with
  | nil => simp
  | cons c rest ih =>
    have hc := h c (by simp)
    simp only [List.foldl_cons]
    rw [ih _ (fun x hx => h x (by simp [hx]))]
    simp [cleanStep, hc.1, hc.2.1, hc.2.2.1]

/-- The rooted stack only ever holds ordinary components. -/
private theorem foldl_rooted_normal (comps stk : List Bytes) (hs : ∀ c ∈ stk, Normal c)
    (hc : ∀ c ∈ comps, 47 ∉ c) : ∀ c ∈ comps.foldl (cleanStep true) stk, Normal c := by
  induction comps generalizing stk with
  | nil => simpa using hs
  | cons c rest ih =>
    simp only [List.foldl_cons]
    apply ih
    · unfold cleanStep
      split
      · exact hs
      · split
        · exact hs
        · split
          · split
            · simp
            · rename_i t rest'
              split
              · rename_i ht
                exact absurd ht (hs t (by simp)).2.2.1
              · intro x hx; exact hs x (by simp [hx])
          · rename_i h1 h2 h3
            intro x hx
            simp at hx
            rcases hx with rfl | hx
            · exact ⟨h1, h2, h3, hc x (by simp)⟩
            · exact hs x hx
    · intro x hx; exact hc x (by simp [hx])

private theorem joinSlash_append (rs cs : List Bytes) (h : rs ≠ []) :
    joinSlash (rs ++ cs) = joinSlash rs ++ below cs := by
  induction rs with
  | nil => exact absurd rfl h
  | cons r rest ih =>
    cases rest with
    | nil =>
      cases cs with
      | nil => simp [joinSlash, below]
      | cons c cs' =>
        simp only [List.cons_append, List.nil_append, joinSlash]
        induction cs' generalizing c with
        | nil => simp [joinSlash, below]
        | cons c2 cs2 ih2 =>
          simp only [joinSlash]
          have := ih2 c2
          simp [below] at this ⊢
          exact this
    | cons r2 rest2 =>
      simp only [List.cons_append, joinSlash]
      have := ih (by simp)
      simp only [List.cons_append] at this
      rw [this]
      simp

private theorem below_eq_nil (cs : List Bytes) (h : below cs = []) : cs = [] := by
  cases cs with
  | nil => rfl
  | cons c rest => simp [below] at h

/-! ### slashClean -/

/-- The components `slashClean` keeps are ordinary ones. -/
theorem slashCleanComps_normal (name : Bytes) : ∀ c ∈ slashCleanComps name, Normal c := by
  unfold slashCleanComps cleanComps
  intro c hc
  rw [List.mem_reverse] at hc
  exact foldl_rooted_normal _ [] (by simp) (splitSlash_noSlash name) c hc

/-- `slashClean name` is `"/"` followed by the kept components joined by single slashes. -/
theorem slashClean_eq (name : Bytes) : slashClean name = 47 :: joinSlash (slashCleanComps name) := by
  unfold slashClean
  by_cases hr : isRooted name = true
  · simp only [hr, if_true]
    have hne : name ≠ [] := by intro h; subst h; simp [isRooted] at hr
    simp [pathClean, hne, hr, render, slashCleanComps]
  · simp only [hr]
    simp [pathClean, isRooted, render, slashCleanComps, splitSlash, cleanComps, cleanStep]

/-! ### resolve -/

/-- NUL in the name ⇒ rejected (for every root); and only then. -/
theorem resolve_nul_rejected (d name : Bytes) (h : 0 ∈ name) : resolve d name = none := by
  unfold resolve
  simp [h]

theorem resolve_rejects_only_nul (d name : Bytes) (h : resolve d name = none) : 0 ∈ name := by
  unfold resolve at h
  split at h
  · rename_i hc; simpa [List.contains_iff_mem] using hc
  · simp at h

private theorem dirOf_ne_nil (d : Bytes) : dirOf d ≠ [] := by
  unfold dirOf; split <;> simp_all

private theorem isRooted_append (a b : Bytes) (h : a ≠ []) : isRooted (a ++ b) = isRooted a := by
  cases a with
  | nil => exact absurd rfl h
  | cons x r => simp [isRooted]

/-- `filepath.Clean(string(d))` is the rendering of the root components. -/
theorem pathClean_root (d : Bytes) :
    pathClean d = render (isRooted (dirOf d)) (rootComps d) := by
  unfold rootComps dirOf
  by_cases hd : d = []
  · subst hd
    simp [pathClean, isRooted, render, cleanComps, splitSlash, cleanStep]
  · simp [hd, pathClean]

/-- Exact shape of `resolve`: the root's components followed by the name's cleaned components. -/
theorem resolve_shape (d name : Bytes) (h : 0 ∉ name) :
    resolve d name =
      some (render (isRooted (dirOf d)) (rootComps d ++ slashCleanComps name)) := by
  unfold resolve
  have hc : name.contains 0 = false := by simpa [List.contains_iff_mem] using h
  simp only [hc, Bool.false_eq_true, if_false, Option.some.injEq]
  have hdn := dirOf_ne_nil d
  have hne : dirOf d ++ 47 :: slashClean name ≠ [] := by simp
  unfold pathClean
  rw [if_neg hne, isRooted_append _ _ hdn, slashClean_eq, splitSlash_append]
  congr 1
  unfold rootComps cleanComps
  rw [List.foldl_append]
  have hn := slashCleanComps_normal name
  cases hcs : slashCleanComps name with
  | nil =>
    simp [joinSlash, splitSlash, cleanStep]
  | cons c rest =>
    rw [← hcs]
    have h1 : splitSlash (47 :: joinSlash (slashCleanComps name)) = [] :: slashCleanComps name := by
      unfold splitSlash
      simp
      exact splitSlash_joinSlash _ (by simp [hcs]) (fun x hx => (hn x hx).2.2.2)
    rw [h1]
    simp only [List.foldl_cons]
    have h2 : cleanStep (isRooted (dirOf d))
        (List.foldl (cleanStep (isRooted (dirOf d))) [] (splitSlash (dirOf d))) [] =
        List.foldl (cleanStep (isRooted (dirOf d))) [] (splitSlash (dirOf d)) := by
      simp [cleanStep]
    rw [h2, foldl_normal _ _ _ hn]
    simp

/-- **Confinement.** Whatever `resolve` returns is the cleaned root followed by ordinary
components only (no "", ".", ".." and no separator inside a component): it is lexically
inside the root, and it is the root itself exactly when the name cleans to "/". -/
theorem resolve_confined (d name p : Bytes) (h : resolve d name = some p) :
    ∃ cs : List Bytes, (∀ c ∈ cs, Normal c) ∧
      p = render (isRooted (dirOf d)) (rootComps d ++ cs) ∧
      pathClean d = render (isRooted (dirOf d)) (rootComps d) ∧
      cs = slashCleanComps name := by
  have hnul : 0 ∉ name := by
    intro h0; rw [resolve_nul_rejected d name h0] at h; simp at h
  rw [resolve_shape d name hnul] at h
  exact ⟨slashCleanComps name, slashCleanComps_normal name, by simpa using h.symm,
    pathClean_root d, rfl⟩

/-- String form of confinement for a root that has at least one component
(every root except "/", "." and their spellings): `result = Clean(root) ++ "/c1/c2…"`. -/
theorem resolve_below_root (d name p : Bytes) (h : resolve d name = some p)
    (hroot : rootComps d ≠ []) :
    p = pathClean d ++ below (slashCleanComps name) ∧ ∀ c ∈ slashCleanComps name, Normal c := by
  obtain ⟨cs, hn, hp, hr, rfl⟩ := resolve_confined d name p h
  refine ⟨?_, hn⟩
  rw [hp, hr]
  unfold render
  split
  · rw [joinSlash_append _ _ hroot]; simp
  · simp [hroot]
    rw [joinSlash_append _ _ hroot]

/-- Root "/" (any spelling): `result = "/" ++ join cs`. -/
theorem resolve_slash_root (d name p : Bytes) (h : resolve d name = some p)
    (hroot : rootComps d = []) (hr : isRooted (dirOf d) = true) :
    p = 47 :: joinSlash (slashCleanComps name) := by
  obtain ⟨cs, _, hp, _, rfl⟩ := resolve_confined d name p h
  simp [hp, hroot, hr, render]

/-- Root "." (including the empty Dir): the result is a relative path of ordinary components
(or "." itself). -/
theorem resolve_dot_root (d name p : Bytes) (h : resolve d name = some p)
    (hroot : rootComps d = []) (hr : isRooted (dirOf d) = false) :
    p = if slashCleanComps name = [] then [46] else joinSlash (slashCleanComps name) := by
  obtain ⟨cs, _, hp, _, rfl⟩ := resolve_confined d name p h
  simp [hp, hroot, hr, render]

/-! ### render is injective below a root -/

private theorem joinSlash_eq_nil (cs : List Bytes) (hn : ∀ c ∈ cs, Normal c)
    (h : joinSlash cs = []) : cs = [] := by
  cases cs with
  | nil => rfl
  | cons c rest =>
    have hc := hn c (by simp)
    cases rest with
    | nil => simp [joinSlash] at h; exact absurd h hc.1
    | cons c2 r2 => simp [joinSlash] at h

private theorem joinSlash_ne_dot (cs : List Bytes) (hn : ∀ c ∈ cs, Normal c)
    (h : joinSlash cs = [46]) : False := by
  cases cs with
  | nil => simp [joinSlash] at h
  | cons c rest =>
    have hc := hn c (by simp)
    cases rest with
    | nil => simp [joinSlash] at h; exact hc.2.1 h
    | cons c2 r2 =>
      simp only [joinSlash] at h
      cases c with
      | nil => exact hc.1 rfl
      | cons x xs =>
        simp at h

private theorem render_root_eq (r : Bool) (rs cs : List Bytes) (hn : ∀ c ∈ cs, Normal c)
    (h : render r (rs ++ cs) = render r rs) : cs = [] := by
  by_cases hrs : rs = []
  · subst hrs
    cases r with
    | true =>
      simp [render, joinSlash] at h
      exact joinSlash_eq_nil cs hn h
    | false =>
      simp only [render, List.nil_append, Bool.false_eq_true, if_false, if_true] at h
      split at h
      · assumption
      · exact (joinSlash_ne_dot cs hn h).elim
  · apply below_eq_nil
    cases r with
    | true =>
      simp only [render, if_true] at h
      rw [joinSlash_append _ _ hrs] at h
      simpa using h
    | false =>
      simp only [render, Bool.false_eq_true, if_false] at h
      simp [hrs] at h
      rw [joinSlash_append _ _ hrs] at h
      simpa using h

/-! ### RemoveAll / Rename refuse the root -/

/-- `resolve` returns the (cleaned) root exactly for the names that clean to "/". -/
theorem resolve_eq_root_iff (d name p : Bytes) (h : resolve d name = some p) :
    p = pathClean d ↔ slashCleanComps name = [] := by
  obtain ⟨cs, hn, hp, hr, rfl⟩ := resolve_confined d name p h
  constructor
  · intro he
    rw [hp, hr] at he
    exact render_root_eq _ _ _ hn he
  · intro he
    rw [hp, hr, he]; simp

/-- RemoveAll on a NUL-free name that cleans to "/" is refused with ErrInvalid, and it is
refused only then; a NUL gives ErrNotExist; otherwise `os.RemoveAll` gets a path with at
least one ordinary component below the root. -/
theorem removeAll_spec (d name : Bytes) :
    removeAll d name =
      if 0 ∈ name then .notExist
      else if slashCleanComps name = [] then .invalid
      else .os [render (isRooted (dirOf d)) (rootComps d ++ slashCleanComps name)] := by
  unfold removeAll
  by_cases h0 : 0 ∈ name
  · simp [resolve_nul_rejected d name h0, h0]
  · simp only [h0, if_false]
    have hs := resolve_shape d name h0
    have hiff := resolve_eq_root_iff d name _ hs
    rw [hs]
    simp only
    by_cases hc : slashCleanComps name = []
    · have := hiff.mpr hc
      rw [hc] at this ⊢
      simp only [List.append_nil] at this
      simp [this]
    · have : ¬ (render (isRooted (dirOf d)) (rootComps d ++ slashCleanComps name) = pathClean d) :=
        fun he => hc (hiff.mp he)
      simp [hc, this]

theorem removeAll_root_refused (d name : Bytes) (h0 : 0 ∉ name) (h : slashCleanComps name = []) :
    removeAll d name = .invalid := by
  rw [removeAll_spec]; simp [h0, h]

/-- Rename: NUL in either name ⇒ ErrNotExist; either name cleaning to "/" ⇒ ErrInvalid;
otherwise `os.Rename` gets two paths strictly below the root. -/
theorem rename_spec (d o n : Bytes) :
    rename d o n =
      if 0 ∈ o ∨ 0 ∈ n then .notExist
      else if slashCleanComps o = [] ∨ slashCleanComps n = [] then .invalid
      else .os [render (isRooted (dirOf d)) (rootComps d ++ slashCleanComps o),
                render (isRooted (dirOf d)) (rootComps d ++ slashCleanComps n)] := by
  unfold rename
  by_cases ho : 0 ∈ o
  · simp [resolve_nul_rejected d o ho, ho]
  · by_cases hn : 0 ∈ n
    · simp [resolve_nul_rejected d n hn, hn, resolve_shape d o ho]
    · have hso := resolve_shape d o ho
      have hsn := resolve_shape d n hn
      have io := resolve_eq_root_iff d o _ hso
      have in' := resolve_eq_root_iff d n _ hsn
      rw [hso, hsn]
      simp only [ho, hn, or_self, if_false]
      by_cases hco : slashCleanComps o = []
      · simp [hco, (io.mpr hco).symm]
      · by_cases hcn : slashCleanComps n = []
        · simp [hcn, (in'.mpr hcn).symm]
        · have h1 : ¬ (pathClean d = render (isRooted (dirOf d)) (rootComps d ++ slashCleanComps o)) :=
            fun he => hco (io.mp he.symm)
          have h2 : ¬ (pathClean d = render (isRooted (dirOf d)) (rootComps d ++ slashCleanComps n)) :=
            fun he => hcn (in'.mp he.symm)
          simp [hco, hcn, h1, h2]

theorem rename_root_refused (d o n : Bytes) (ho : 0 ∉ o) (hn : 0 ∉ n)
    (h : slashCleanComps o = [] ∨ slashCleanComps n = []) : rename d o n = .invalid := by
  rw [rename_spec]; simp [ho, hn, h]

/-- Every path any Dir method hands to the os package is confined (Mkdir/OpenFile/Stat may
name the root itself; RemoveAll/Rename never do). -/
theorem os_paths_confined (d name : Bytes) (ps : List Bytes)
    (h : simpleOp d name = .os ps ∨ removeAll d name = .os ps ∨ (∃ n2, rename d name n2 = .os ps)
       ∨ (∃ n1, rename d n1 name = .os ps)) :
    ∀ p ∈ ps, ∃ cs : List Bytes, (∀ c ∈ cs, Normal c) ∧
      p = render (isRooted (dirOf d)) (rootComps d ++ cs) := by
  intro p hp
  rcases h with h | h | ⟨n2, h⟩ | ⟨n1, h⟩
  · unfold simpleOp at h
    split at h
    · simp at h
    · rename_i q hq
      simp at h; subst h; simp at hp; subst hp
      obtain ⟨cs, hn, hq', _, _⟩ := resolve_confined d name p hq
      exact ⟨cs, hn, hq'⟩
  · rw [removeAll_spec] at h
    split at h
    · simp at h
    · split at h
      · simp at h
      · simp at h; subst h; simp at hp
        exact ⟨_, slashCleanComps_normal name, hp⟩
  · rw [rename_spec] at h
    split at h
    · simp at h
    · split at h
      · simp at h
      · simp at h; subst h; simp at hp
        rcases hp with hp | hp
        · exact ⟨_, slashCleanComps_normal name, hp⟩
        · exact ⟨_, slashCleanComps_normal n2, hp⟩
  · rw [rename_spec] at h
    split at h
    · simp at h
    · split at h
      · simp at h
      · simp at h; subst h; simp at hp
        rcases hp with hp | hp
        · exact ⟨_, slashCleanComps_normal n1, hp⟩
        · exact ⟨_, slashCleanComps_normal name, hp⟩

/-! ### ".." can never climb: the kept components are a suffix-closed function of the name -/

/-- The number of kept components never exceeds the number of ordinary components of the
name, and a name made of "..", "." and "" only always cleans to the root. -/
theorem dots_clean_to_root (name : Bytes)
    (h : ∀ c ∈ splitSlash name, c = [] ∨ c = [46] ∨ c = [46, 46]) : slashCleanComps name = [] := by
  unfold slashCleanComps cleanComps
  suffices hh : ∀ comps : List Bytes, (∀ c ∈ comps, c = [] ∨ c = [46] ∨ c = [46, 46]) →
      comps.foldl (cleanStep true) [] = [] by simp [hh _ h]
  intro comps hc
  induction comps with
  | nil => rfl
  | cons c rest ih =>
    simp only [List.foldl_cons]
    have : cleanStep true [] c = [] := by
      rcases hc c (by simp) with rfl | rfl | rfl <;> simp [cleanStep]
    rw [this]
    exact ih (fun x hx => hc x (by simp [hx]))

/-! ### non-vacuity -/

/-- "/a/../../b//./c" under root "/srv/dav/" resolves to "/srv/dav/b/c". -/
example : resolve [47,115,114,118,47,100,97,118,47] [47,97,47,46,46,47,46,46,47,98,47,47,46,47,99]
    = some [47,115,114,118,47,100,97,118,47,98,47,99] := by decide
/-- "%2e%2e" is an ordinary component (no decoding happens here). -/
example : slashCleanComps [37,50,101,37,50,101,47,120] = [[37,50,101,37,50,101],[120]] := by decide
example : removeAll [47,114] [97,47,46,46] = .invalid := by decide
example : removeAll [47,114] [97,0] = .notExist := by decide
example : removeAll [] [46,46,47,97] = .os [[97]] := by decide
example : rename [47,114] [97] [47,46,46,47] = .invalid := by decide
example : rename [47,114] [97] [98] = .os [[47,114,47,97],[47,114,47,98]] := by decide
example : rootComps [46,46,47,114] = [[46,46],[114]] := by decide

end NetVerif.Proofs.C45
