import NetVerif.Model.WebdavCopyMove
