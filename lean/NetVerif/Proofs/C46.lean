import NetVerif.Model.WebdavCopyMove
import NetVerif.Proofs.Lemmas.FS
/-!
C46 — WebDAV COPY and MOVE never destroy their source.

Model: `WebdavCopyMove.handle` (= `Handler.handleCopyMove` ∘ `copyFiles`/`moveFiles` over the
`memFS` model), for an arbitrary lock gate, prefix, tree and request.

* `copy_holds : CopyStatement handle`, `move_holds : MoveStatement handle` — the property at full
  strength, for every gate, prefix, tree and request.
* They rest on `copyFiles_outside` (copyFiles writes only at or below its destination),
  `moveFiles_partial` (non-overlapping MOVE moves the subtree as a whole or leaves it) and
  `handle_overlap_refused` (the handler refuses, before touching the filesystem, a destination whose
  cleaned name is the source or an ancestor of it and, for MOVE, a destination inside the source).
* History: before the upstream repair ("fix: webdav: COPY/MOVE compared source and destination
  textually") both statements were false — `COPY /a → /a/`, `COPY|MOVE /a/x → /a`, `MOVE /a → /a/x`
  destroyed (part of) the source.  Those requests are kept as `example`s (now 403, tree unchanged) and in
  `corpus/C46/findings.ops`.
-/
namespace NetVerif.Proofs.C46
open NetVerif.Model.FS NetVerif.Model.WebdavCopyMove NetVerif.Proofs.Lemmas.FS

/-! ### Every write of `copyFiles` is at or below its destination -/

theorem removeAll_outside {t t1 : Tree} {d d0 : Path} (h : Mem.removeAll t d = .ok t1)
    (hd : under d0 d = true) : outside d0 t1 = outside d0 t := by
  unfold Mem.removeAll at h
  split at h
  · cases h; rfl
  · cases h
  · split at h
    · cases h
    · cases h; exact outside_outside_of_under hd t

theorem mkdir_outside {t t1 : Tree} {d d0 : Path} (h : Mem.mkdir t d = .ok t1)
    (hd : under d0 d = true) : outside d0 t1 = outside d0 t := by
  unfold Mem.mkdir at h
  split at h
  · cases h
  · split at h
    · cases h
    · split at h
      · cases h
      · cases h; rw [outside_append, outside_singleton_under hd]; simp

theorem openFile_outside {t t1 : Tree} {d d0 : Path} {f : Mem.Flags} {info : Mem.OpenInfo}
    (h : Mem.openFile t d f = .ok (t1, info)) (hd : under d0 d = true) :
    outside d0 t1 = outside d0 t := by
  unfold Mem.openFile at h
  split at h
  · cases h
  · split at h
    · split at h
      · cases h
      · cases h; rfl
    · dsimp only at h
      split at h
      · cases h
      · split at h
        · split at h
          · cases h; rw [outside_append, outside_singleton_under hd]; simp
          · cases h
        · cases h; rfl
        · split at h
          · cases h; exact outside_setEntry hd _ _
          · cases h; rfl

theorem copyPre_outside {t t1 : Tree} {d d0 : Path} {ow c : Bool} (h : copyPre t d ow = .ok (t1, c))
    (hd : under d0 d = true) : outside d0 t1 = outside d0 t := by
  unfold copyPre at h
  split at h
  · split at h
    · cases h; rfl
    · cases h
  · split at h
    · cases h
    · split at h
      · split at h
        · cases h; rfl
        · cases h
      · rename_i hr
        cases h; exact removeAll_outside hr hd

theorem copyFileTo_outside (t1 : Tree) (d d0 : Path) (data : List Nat) (done : Nat)
    (hd : under d0 d = true) : outside d0 (copyFileTo t1 d data done).1 = outside d0 t1 := by
  unfold copyFileTo
  split
  · rfl
  · rename_i t2 info h
    have h2 := openFile_outside h hd
    repeat' split
    · exact h2
    · exact h2
    · simp only; rw [outside_setEntry hd]; exact h2

theorem copyKids_outside (step : Tree → Name → Tree × Nat) (d0 : Path)
    (hstep : ∀ t c, outside d0 (step t c).1 = outside d0 t) (t : Tree) (cs : List Name) :
    outside d0 (copyKids step t cs).1 = outside d0 t := by
  induction cs generalizing t with
  | nil => rfl
  | cons c cs ih =>
    simp only [copyKids]
    split
    · rw [ih]; exact hstep t c
    · exact hstep t c

/-- Key lemma: `copyFiles … dst …` changes the tree only at or below `dst`. -/
theorem copyFiles_outside (fuel : Nat) (t : Tree) (s d : Path) (ow inf : Bool) (d0 : Path)
    (hd : under d0 d = true) : outside d0 (copyFiles fuel t s d ow inf).1 = outside d0 t := by
  induction fuel generalizing t s d with
  | zero => rfl
  | succ n ih =>
    unfold copyFiles
    split
    · rfl
    · split
      · rfl
      · rename_i t1 created hpre
        have h1 := copyPre_outside hpre hd
        simp only
        split
        · split
          · exact h1
          · rename_i t2 hmk
            have h2 := mkdir_outside hmk hd
            split
            · have hk := copyKids_outside
                (fun t' c => copyFiles n t' (s ++ [c]) (d ++ [c]) ow inf) d0
                (fun t' c => ih t' (s ++ [c]) (d ++ [c]) (under_trans hd (under_append d [c])))
              split
              · rename_i t3 st heq
                have := congrArg (fun r => outside d0 r.1) heq
                simp only at this ⊢
                rw [← this, hk, h2, h1]
              · rename_i t3 heq
                have := congrArg (fun r => outside d0 r.1) heq
                simp only at this ⊢
                rw [← this, hk, h2, h1]
            · simp only; rw [h2, h1]
        · rw [copyFileTo_outside _ _ _ _ _ hd, h1]


/-! ### Statements -/

abbrev Handler := Gate → List Nat → Tree → Req → Tree × Nat

/-- What "the source resource and its descendants" means for source `S` and destination `D`
(cleaned): the entries at or below `S`; when `D` lies strictly inside `S`, the destination
subtree — which the client asked to create or overwrite — is left out. -/
def srcView (S D : Path) (t : Tree) : Tree :=
  if under D S then sub t S else sub (outside D t) S

/-- C46, COPY, full strength: whatever the Destination header, lock state, prefix and tree,
the source resource and its descendants are unchanged afterwards. -/
def CopyStatement (hdl : Handler) : Prop :=
  ∀ (gate : Gate) (pre : List Nat) (t : Tree) (r : Req) (host : HostClass) (dpath src dst : List Nat),
    r.isMove = false → r.dest = .parsed host dpath →
    stripPrefix pre r.path = some src → stripPrefix pre dpath = some dst →
    srcView (clean src) (clean dst) (hdl gate pre t r).1 = srcView (clean src) (clean dst) t

/-- C46, MOVE, full strength: the source is left intact, or it is gone and sits intact at
the destination. -/
def MoveStatement (hdl : Handler) : Prop :=
  ∀ (gate : Gate) (pre : List Nat) (t : Tree) (r : Req) (host : HostClass) (dpath src dst : List Nat),
    r.isMove = true → r.dest = .parsed host dpath →
    stripPrefix pre r.path = some src → stripPrefix pre dpath = some dst →
    sub (hdl gate pre t r).1 (clean src) = sub t (clean src) ∨
    (sub (hdl gate pre t r).1 (clean src) = [] ∧
     sub (hdl gate pre t r).1 (clean dst) = rebase (clean src) (clean dst) (sub t (clean src)))

/-- Region excluded from the COPY theorem: the destination resolves to the source or to an
ancestor of it. -/
def copyRegion (S D : Path) : Bool := under D S

/-- Region excluded from the MOVE theorem: source and destination resolve to the same resource,
or one contains the other. -/
def moveRegion (S D : Path) : Bool := under D S || under S D

/-- When source and destination do not overlap, `srcView` is just the source subtree. -/
theorem srcView_of_incomparable {S D : Path} (h1 : under D S = false) (h2 : under S D = false) (t : Tree) :
    srcView S D t = sub t S := by
  simp [srcView, h1, sub_outside_incomparable h1 h2]

/-! ### Requests that are refused leave the filesystem alone -/

theorem handle_no_destination (gate : Gate) (pre : List Nat) (t : Tree) (r : Req)
    (h : r.dest = .absent ∨ r.dest = .invalid) : handle gate pre t r = (t, 400) := by
  unfold handle; rcases h with h | h <;> rw [h]

theorem handle_other_host (gate : Gate) (pre : List Nat) (t : Tree) (r : Req) (p : List Nat)
    (h : r.dest = .parsed .other p) : handle gate pre t r = (t, 502) := by
  unfold handle; rw [h]; simp

theorem handle_prefix_mismatch (gate : Gate) (pre : List Nat) (t : Tree) (r : Req) (host : HostClass)
    (p : List Nat) (h : r.dest = .parsed host p)
    (hs : stripPrefix pre r.path = none ∨ stripPrefix pre p = none) : (handle gate pre t r).1 = t := by
  unfold handle; rw [h]; simp only
  split
  · rfl
  · rcases hs with hs | hs
    · rw [hs]
    · rw [hs]; split <;> rfl

/-- The handler's own check: textually equal source and destination are refused with 403. -/
theorem handle_textually_equal (gate : Gate) (pre : List Nat) (t : Tree) (r : Req) (host : HostClass)
    (p src : List Nat) (h : r.dest = .parsed host p) (hh : host ≠ .other) (hne : src ≠ [])
    (hs : stripPrefix pre r.path = some src) (hd : stripPrefix pre p = some src) :
    handle gate pre t r = (t, 403) := by
  unfold handle; rw [h]; simp [hh, hs, hd, hne]

/-- A request stopped by the lock check changes nothing. -/
theorem handle_locked (gate : Gate) (pre : List Nat) (t : Tree) (r : Req) (host : HostClass)
    (p src dst : List Nat) (st : Nat) (h : r.dest = .parsed host p)
    (hs : stripPrefix pre r.path = some src) (hd : stripPrefix pre p = some dst)
    (hg : gate r.isMove (if r.isMove then src else []) dst r.ifTokens = some st) :
    (handle gate pre t r).1 = t := by
  unfold handle; rw [h]; simp only [hs, hd]
  cases hm : r.isMove <;> simp only [hm] at hg <;> repeat' split
  all_goals first | rfl | simp_all

/-! ### Overlapping source and destination are refused -/

/-- The handler refuses (403 or an earlier status) every request in the region, leaving the tree alone. -/
theorem handle_overlap_refused (gate : Gate) (pre : List Nat) (t : Tree) (r : Req) (host : HostClass)
    (dpath src dst : List Nat) (hdest : r.dest = .parsed host dpath)
    (hs : stripPrefix pre r.path = some src) (hd : stripPrefix pre dpath = some dst)
    (hreg : under (clean dst) (clean src) = true ∨ (r.isMove = true ∧ under (clean src) (clean dst) = true)) :
    (handle gate pre t r).1 = t := by
  unfold handle; rw [hdest]; simp only [hs, hd]
  repeat' split
  all_goals first | rfl | simp_all

/-! ### COPY -/

theorem copy_holds : CopyStatement handle := by
  intro gate pre t r host dpath src dst hm hdest hs hd
  cases hreg : under (clean dst) (clean src) with
  | true => rw [handle_overlap_refused gate pre t r host dpath src dst hdest hs hd (Or.inl hreg)]
  | false =>
    unfold handle; rw [hdest]; simp only [hs, hd, hm]
    repeat' split
    all_goals first
      | rfl
      | (simp only [srcView, hreg]
         rw [copyFiles_outside _ _ _ _ _ _ _ (under_refl _)]
         simp)
      | simp_all

/-! ### MOVE -/

theorem movePre_sub {t t1 : Tree} {S D : Path} {ow c : Bool} (h : movePre t D ow = .ok (t1, c))
    (h1 : under D S = false) (h2 : under S D = false) : sub t1 S = sub t S := by
  unfold movePre at h
  split at h
  · split at h
    · cases h; rfl
    · cases h
  · split at h
    · split at h
      · cases h
      · rename_i hr
        cases h
        unfold Mem.removeAll at hr
        split at hr
        · cases hr; rfl
        · cases hr
        · split at hr
          · cases hr
          · cases hr; exact sub_outside_incomparable h1 h2 t
    · cases h

/-- A successful `Rename` between non-overlapping names moves the subtree as a whole. -/
theorem rename_ok {t t2 : Tree} {S D : Path} (h : Mem.rename t S D = .ok t2) (hne : S ≠ D) :
    t2 = outside D (outside S t) ++ rebase S D (sub t S) := by
  unfold Mem.rename at h
  simp only [hne, if_false] at h
  repeat' split at h
  all_goals first
    | (cases h; rfl)
    | cases h

theorem moveFiles_partial (t : Tree) (S D : Path) (ow : Bool)
    (h1 : under D S = false) (h2 : under S D = false) :
    sub (moveFiles t S D ow).1 S = sub t S ∨
    (sub (moveFiles t S D ow).1 S = [] ∧ sub (moveFiles t S D ow).1 D = rebase S D (sub t S)) := by
  have hne : S ≠ D := by
    intro h; rw [h, under_refl] at h1; cases h1
  unfold moveFiles
  split
  · left; rfl
  · rename_i t1 created hpre
    have hsub := movePre_sub hpre h1 h2
    split
    · left; exact hsub
    · rename_i t2 hr
      right
      simp only
      rw [rename_ok hr hne, sub_append, sub_append]
      refine ⟨?_, ?_⟩
      · rw [sub_outside_incomparable h1 h2, sub_outside_self, sub_rebase_incomparable h1 h2]; rfl
      · rw [sub_outside_self, sub_rebase_dst, hsub]; rfl

theorem move_holds : MoveStatement handle := by
  intro gate pre t r host dpath src dst hm hdest hs hd
  by_cases hreg : under (clean dst) (clean src) = true ∨ (r.isMove = true ∧ under (clean src) (clean dst) = true)
  · rw [handle_overlap_refused gate pre t r host dpath src dst hdest hs hd hreg]; left; rfl
  · have h1 : under (clean dst) (clean src) = false := by
      cases h : under (clean dst) (clean src) <;> simp_all
    have h2 : under (clean src) (clean dst) = false := by
      cases h : under (clean src) (clean dst) <;> simp_all
    unfold handle; rw [hdest]; simp only [hs, hd, hm]
    repeat' split
    all_goals first
      | (left; rfl)
      | exact moveFiles_partial _ _ _ _ h1 h2
      | simp_all

/-! ### The requests that used to destroy their source: now refused, tree unchanged -/

/-- A gate that always confirms. -/
def openGate : Gate := fun _ _ _ _ => none

/-- `/a` (collection) with one member `/a/x`. -/
def treeA : Tree := [([[97]], .dir), ([[97], [120]], .file [1])]

/-- `COPY /a`, `Destination: /a/` (same resource, different spelling). -/
def copyEquivReq : Req :=
  { isMove := false, path := [47, 97], dest := .parsed .none [47, 97, 47],
    overwrite := .absent, depth := .absent, ifTokens := none }

/-- `COPY /a/x`, `Destination: /a` (an ancestor of the source). -/
def copyAncestorReq : Req :=
  { isMove := false, path := [47, 97, 47, 120], dest := .parsed .none [47, 97],
    overwrite := .absent, depth := .absent, ifTokens := none }

/-- `MOVE /a/x`, `Destination: /a`, `Overwrite: T`. -/
def moveAncestorReq : Req :=
  { isMove := true, path := [47, 97, 47, 120], dest := .parsed .none [47, 97],
    overwrite := .t, depth := .absent, ifTokens := none }

/-- `MOVE /a`, `Destination: /a/`, `Overwrite: T`, `If: (<token 0>)`. -/
def moveEquivReq : Req :=
  { isMove := true, path := [47, 97], dest := .parsed .none [47, 97, 47],
    overwrite := .t, depth := .absent, ifTokens := some [0] }

/-- `MOVE /a`, `Destination: /a/x`, `Overwrite: T` (destination inside the source). -/
def moveInsideReq : Req :=
  { isMove := true, path := [47, 97], dest := .parsed .none [47, 97, 47, 120],
    overwrite := .t, depth := .absent, ifTokens := none }

/-- Formerly 404 with `/a/x` gone. -/
theorem regress_copy_equivalent : handle (memGate []) [] treeA copyEquivReq = (treeA, 403) := by decide +kernel
/-- Formerly 204 with `/a` replaced by its former member. -/
theorem regress_copy_ancestor : handle (memGate []) [] treeA copyAncestorReq = (treeA, 403) := by decide +kernel
/-- Formerly 403 with `/a` and `/a/x` gone. -/
theorem regress_move_ancestor : handle (memGate []) [] treeA moveAncestorReq = (treeA, 403) := by decide +kernel
/-- Formerly 204 with `/a` gone. -/
theorem regress_move_equivalent :
    handle (memGate [some ⟨[[97]], false⟩]) [] treeA moveEquivReq = (treeA, 403) := by decide +kernel
/-- Formerly 403 with `/a/x` deleted. -/
theorem regress_move_inside : handle (memGate []) [] treeA moveInsideReq = (treeA, 403) := by decide +kernel

/-- COPY into the source's own subtree stays possible (RFC 4918 allows it): everything of the source
except the destination is untouched. -/
example : handle (memGate []) [] treeA
    { isMove := false, path := [47, 97], dest := .parsed .none [47, 97, 47, 121], overwrite := .absent,
      depth := .zero, ifTokens := none }
    = ([([[97]], .dir), ([[97], [120]], .file [1]), ([[97], [121]], .dir)], 201) := by decide +kernel

/-! ### Non-vacuity: real transfers satisfy the hypotheses -/

/-- `COPY /a → /b` (Depth infinity): 201 and `/a`, `/a/x` are still there, with a copy below `/b`. -/
example : handle (memGate []) [] treeA
    { isMove := false, path := [47, 97], dest := .parsed .none [47, 98], overwrite := .absent,
      depth := .absent, ifTokens := none }
    = ([([[97]], .dir), ([[97], [120]], .file [1]), ([[98]], .dir), ([[98], [120]], .file [1])], 201) := by
  decide +kernel

example : copyRegion (clean [47, 97]) (clean [47, 98]) = false := by decide
example : moveRegion (clean [47, 97]) (clean [47, 98]) = false := by decide
example : copyRegion (clean [47, 97]) (clean [47, 97, 47]) = true := by decide
example : copyRegion (clean [47, 97, 47, 120]) (clean [47, 46, 47, 97]) = true := by decide

/-- `MOVE /a → /b`: 201, the subtree now sits below `/b`. -/
example : handle (memGate []) [] treeA
    { isMove := true, path := [47, 97], dest := .parsed .none [47, 98], overwrite := .absent,
      depth := .absent, ifTokens := none }
    = ([([[98]], .dir), ([[98], [120]], .file [1])], 201) := by
  decide +kernel

end NetVerif.Proofs.C46
