import NetVerif.Model.Pipe
import NetVerif.Gen.C30
/-!
C30 — the QUIC stream pipe stores exactly the bytes written.
-/
namespace NetVerif.Proofs.C30
open NetVerif.Model.Pipe

/-- T-tie: the chunk size regenerated from quic/pipe.go satisfies the hypothesis
(`0 < c`) under which every theorem below is proved. -/
theorem gen_chunk_pos : 0 < NetVerif.Gen.C30.pipebufSize := by decide

/-! ### chunk chains -/

/-- The byte stored for absolute offset `x` (first chunk covering it). -/
def byteAt : List Buf → Int → Option Nat
  | [], _ => none
  | pb :: rest, x => if pb.off ≤ x ∧ x < pb.stop then pb.b[(x - pb.off).toNat]? else byteAt rest x

/-- Chunks of length `c` at contiguous offsets starting at `o`. -/
def Cont (c : Nat) (o : Int) : List Buf → Prop
  | [] => True
  | pb :: rest => pb.off = o ∧ pb.b.length = c ∧ Cont c (o + c) rest

theorem copyInto_snd (dst : List Nat) (k : Nat) (src : List Nat) :
    (copyInto dst k src).2 = min (dst.length - k) src.length := rfl

theorem copyInto_fst (dst : List Nat) (k : Nat) (src : List Nat) :
    (copyInto dst k src).1 = dst.take k ++ src.take (min (dst.length - k) src.length) ++
      dst.drop (k + min (dst.length - k) src.length) := rfl

theorem copyInto_length (dst : List Nat) (k : Nat) (src : List Nat) (hk : k ≤ dst.length) :
    (copyInto dst k src).1.length = dst.length := by
  rw [copyInto_fst]
  simp only [List.length_append, List.length_take, List.length_drop]
  omega

theorem copyInto_get (dst : List Nat) (k : Nat) (src : List Nat) (j : Nat) (hk : k ≤ dst.length) :
    (copyInto dst k src).1[j]? =
      if k ≤ j ∧ j < k + (copyInto dst k src).2 then src[j - k]? else dst[j]? := by
  rw [copyInto_fst, copyInto_snd]
  generalize hn : min (dst.length - k) src.length = n
  have hn1 : n ≤ dst.length - k := by omega
  have hn2 : n ≤ src.length := by omega
  by_cases h1 : j < k
  · have : ¬ (k ≤ j ∧ j < k + n) := by omega
    rw [if_neg this, List.append_assoc, List.getElem?_append_left (by simp; omega)]
    simp [List.getElem?_take, h1]
  · by_cases h2 : j < k + n
    · rw [if_pos ⟨by omega, h2⟩, List.append_assoc, List.getElem?_append_right (by simp; omega)]
      rw [List.getElem?_append_left (by simp; omega)]
      simp only [List.length_take, List.getElem?_take]
      have : min k dst.length = k := by omega
      simp [this]; omega
    · have : ¬ (k ≤ j ∧ j < k + n) := by omega
      rw [if_neg this, List.append_assoc, List.getElem?_append_right (by simp; omega)]
      rw [List.getElem?_append_right (by simp; omega)]
      simp only [List.length_take, List.getElem?_drop]
      have e1 : min k dst.length = k := by omega
      have e2 : min n src.length = n := by omega
      rw [e1, e2]; congr 1; omega

/-- One past the last offset covered by a chain of `l.length` chunks starting at `o`. -/
def cend (o : Int) (c : Nat) (l : List Buf) : Int := o + c * l.length

theorem cend_nil (o : Int) (c : Nat) : cend o c [] = o := by simp [cend]

theorem cend_cons (o : Int) (c : Nat) (pb : Buf) (l : List Buf) :
    cend o c (pb :: l) = cend (o + c) c l := by
  simp only [cend, List.length_cons]
  push_cast
  rw [Int.mul_add]
  omega

theorem cend_ge (o : Int) (c : Nat) (l : List Buf) : o ≤ cend o c l := by
  have : (0 : Int) ≤ (c : Int) * (l.length : Int) := Int.mul_nonneg (by omega) (by omega)
  simp only [cend]; omega

theorem byteAt_in (o : Int) (b : List Nat) (rest : List Buf) (x : Int)
    (h : o ≤ x ∧ x < o + (b.length : Int)) :
    byteAt (⟨o, b⟩ :: rest) x = b[(x - o).toNat]? := by
  simp [byteAt, Buf.stop, h]

theorem byteAt_out (o : Int) (b : List Nat) (rest : List Buf) (x : Int)
    (h : ¬ (o ≤ x ∧ x < o + (b.length : Int))) :
    byteAt (⟨o, b⟩ :: rest) x = byteAt rest x := by
  simp [byteAt, Buf.stop, h]

/-- The allocation part of the `writeAt` loop: a contiguous chain of fresh chunks that
reaches the end of the data and holds the data at its offsets. -/
theorem extend_spec (c : Nat) (hc : 0 < c) : ∀ (fuel : Nat) (o : Int) (b : List Nat) (off : Int),
    o ≤ off → (off - o).toNat + b.length + 1 ≤ fuel →
    Cont c o (extend c fuel o b off) ∧ extend c fuel o b off ≠ [] ∧
    off + b.length ≤ cend o c (extend c fuel o b off) ∧
    ∀ x, off ≤ x → x < off + b.length → byteAt (extend c fuel o b off) x = b[(x - off).toNat]? := by
  intro fuel
  induction fuel with
  | zero => intro o b off _ h; omega
  | succ fuel ih =>
    intro o b off ho hf
    unfold extend
    by_cases h1 : off - o < (c : Int)
    · simp only [h1, if_true]
      have hk : (off - o).toNat ≤ (List.replicate c 0).length := by simp; omega
      have hlen := copyInto_length (List.replicate c 0) (off - o).toNat b hk
      have hget := fun j => copyInto_get (List.replicate c 0) (off - o).toNat b j hk
      have hn := copyInto_snd (List.replicate c 0) (off - o).toNat b
      generalize copyInto (List.replicate c 0) (off - o).toNat b = r at hlen hget hn
      simp only [List.length_replicate] at hlen hn
      by_cases h2 : r.2 = b.length
      · simp only [h2, if_true]
        refine ⟨⟨rfl, hlen, trivial⟩, by simp, ?_, ?_⟩
        · rw [cend_cons, cend_nil]; omega
        · intro x hx1 hx2
          have : o ≤ x ∧ x < o + (r.1.length : Int) := by rw [hlen]; omega
          rw [byteAt_in _ _ _ _ this, hget, if_pos (by omega)]
          congr 1; omega
      · simp only [h2, if_false]
        have hn' : r.2 = c - (off - o).toNat := by omega
        have e1 : off + (r.2 : Int) = o + c := by omega
        obtain ⟨i1, i2, i3, i4⟩ := ih (o + c) (b.drop r.2) (off + r.2) (by omega)
          (by simp only [List.length_drop]; omega)
        refine ⟨⟨rfl, hlen, i1⟩, by simp, ?_, ?_⟩
        · rw [cend_cons]; simp only [List.length_drop] at i3; omega
        · intro x hx1 hx2
          by_cases hx : x < o + c
          · have : o ≤ x ∧ x < o + (r.1.length : Int) := by rw [hlen]; omega
            rw [byteAt_in _ _ _ _ this, hget, if_pos (by omega)]
            congr 1; omega
          · have : ¬ (o ≤ x ∧ x < o + (r.1.length : Int)) := by rw [hlen]; omega
            rw [byteAt_out _ _ _ _ this, i4 x (by omega) (by simp only [List.length_drop]; omega), List.getElem?_drop]
            congr 1; omega
    · simp only [h1, if_false]
      obtain ⟨i1, i2, i3, i4⟩ := ih (o + c) b off (by omega) (by omega)
      refine ⟨⟨rfl, by simp [newBuf], i1⟩, by simp, ?_, ?_⟩
      · rw [cend_cons]; exact i3
      · intro x hx1 hx2
        have : ¬ (o ≤ x ∧ x < o + ((List.replicate c 0).length : Int)) := by
          simp only [List.length_replicate]; omega
        simp only [newBuf]
        rw [byteAt_out _ _ _ _ this]; exact i4 x hx1 hx2

/-- What one run of the `writeAt` loop over a contiguous chain achieves. -/
def WriteOK (c : Nat) (o : Int) (bufs : List Buf) (b : List Nat) (off : Int) (l : List Buf) : Prop :=
  Cont c o l ∧ l ≠ [] ∧ cend o c bufs ≤ cend o c l ∧ off + b.length ≤ cend o c l ∧
  (∀ x, off ≤ x → x < off + b.length → byteAt l x = b[(x - off).toNat]?) ∧
  (∀ x v, ¬ (off ≤ x ∧ x < off + b.length) → byteAt bufs x = some v → byteAt l x = some v)

theorem writeBufs_spec (c : Nat) (hc : 0 < c) : ∀ (bufs : List Buf) (o : Int) (b : List Nat) (off : Int),
    Cont c o bufs → bufs ≠ [] → o ≤ off →
    ∃ l, writeBufs c bufs b off = some l ∧ WriteOK c o bufs b off l := by
  intro bufs
  induction bufs with
  | nil => intro o b off _ h; exact absurd rfl h
  | cons pb rest ih =>
    intro o b off hcont _ ho
    obtain ⟨hoff, hlenb, hrest⟩ := hcont
    obtain ⟨po, pbb⟩ := pb
    simp only at hoff hlenb
    subst hoff
    subst hlenb
    unfold writeBufs
    simp only [Buf.stop]
    by_cases h1 : off - po < (pbb.length : Int)
    · have h0 : ¬ (off - po < 0) := by omega
      simp only [h1, h0, if_true, if_false]
      have hk : (off - po).toNat ≤ pbb.length := by omega
      have hlen := copyInto_length pbb (off - po).toNat b hk
      have hget := fun j => copyInto_get pbb (off - po).toNat b j hk
      have hn := copyInto_snd pbb (off - po).toNat b
      generalize copyInto pbb (off - po).toNat b = r at hlen hget hn
      -- facts about the chunk just written
      have inchunk : ∀ x, off ≤ x → x < off + b.length → x < po + (pbb.length : Int) → ∀ tl,
          byteAt (⟨po, r.1⟩ :: tl) x = b[(x - off).toNat]? := by
        intro x hx1 hx2 hx3 tl
        have : po ≤ x ∧ x < po + (r.1.length : Int) := by omega
        rw [byteAt_in _ _ _ _ this, hget, if_pos (by omega)]
        congr 1; omega
      have keep : ∀ x v tl tl', ¬ (off ≤ x ∧ x < off + b.length) →
          (∀ v, byteAt tl x = some v → byteAt tl' x = some v) →
          byteAt (⟨po, pbb⟩ :: tl) x = some v → byteAt (⟨po, r.1⟩ :: tl') x = some v := by
        intro x v tl tl' hx htl hv
        by_cases hin : po ≤ x ∧ x < po + (pbb.length : Int)
        · rw [byteAt_in _ _ _ _ hin] at hv
          have : po ≤ x ∧ x < po + (r.1.length : Int) := by omega
          rw [byteAt_in _ _ _ _ this, hget, if_neg (by omega)]; exact hv
        · rw [byteAt_out _ _ _ _ hin] at hv
          have : ¬ (po ≤ x ∧ x < po + (r.1.length : Int)) := by omega
          rw [byteAt_out _ _ _ _ this]; exact htl v hv
      by_cases h2 : r.2 = b.length
      · simp only [h2, if_true]
        refine ⟨_, rfl, ⟨rfl, hlen, hrest⟩, by simp, ?_, ?_, ?_, ?_⟩
        · rw [cend_cons, cend_cons]; omega
        · rw [cend_cons]; have := cend_ge (po + (pbb.length : Int)) pbb.length rest; omega
        · intro x hx1 hx2; exact inchunk x hx1 hx2 (by omega) rest
        · intro x v hx hv; exact keep x v rest rest hx (fun _ h => h) hv
      · simp only [h2, if_false]
        have e1 : off + (r.2 : Int) = po + (pbb.length : Int) := by omega
        cases rest with
        | nil =>
          simp only
          obtain ⟨i1, i2, i3, i4⟩ := extend_spec _ hc
            ((off + (r.2 : Int) - (po + (pbb.length : Int))).toNat + (b.drop r.2).length + 1)
            (po + (pbb.length : Int)) (b.drop r.2) (off + r.2) (by omega) (by omega)
          refine ⟨_, rfl, ⟨rfl, hlen, i1⟩, by simp, ?_, ?_, ?_, ?_⟩
          · rw [cend_cons, cend_cons, cend_nil]; exact cend_ge _ _ _
          · rw [cend_cons]; have hd : (b.drop r.2).length = b.length - r.2 := List.length_drop; omega
          · intro x hx1 hx2
            by_cases hx : x < po + (pbb.length : Int)
            · exact inchunk x hx1 hx2 hx _
            · have : ¬ (po ≤ x ∧ x < po + (r.1.length : Int)) := by omega
              rw [byteAt_out _ _ _ _ this, i4 x (by omega) (by simp only [List.length_drop]; omega),
                List.getElem?_drop]
              congr 1; omega
          · intro x v hx hv
            exact keep x v [] _ hx (fun v h => by simp [byteAt] at h) hv
        | cons q rest' =>
          simp only
          obtain ⟨l', e, j1, j2, j3, j4, j5, j6⟩ := ih (po + (pbb.length : Int)) (b.drop r.2) (off + r.2) hrest (by simp) (by omega)
          rw [e]; simp only [Option.map_some]
          refine ⟨_, rfl, ⟨rfl, hlen, j1⟩, by simp, ?_, ?_, ?_, ?_⟩
          · rw [cend_cons po, cend_cons po]; exact j3
          · rw [cend_cons]; have hd : (b.drop r.2).length = b.length - r.2 := List.length_drop; omega
          · intro x hx1 hx2
            by_cases hx : x < po + (pbb.length : Int)
            · exact inchunk x hx1 hx2 hx _
            · have : ¬ (po ≤ x ∧ x < po + (r.1.length : Int)) := by omega
              rw [byteAt_out _ _ _ _ this, j5 x (by omega) (by simp only [List.length_drop]; omega),
                List.getElem?_drop]
              congr 1; omega
          · intro x v hx hv
            refine keep x v (q :: rest') l' hx (fun v h => j6 x v ?_ h) hv
            simp only [List.length_drop]; omega
    · simp only [h1, if_false]
      have skip : ∀ x tl, off ≤ x → byteAt (⟨po, pbb⟩ :: tl) x = byteAt tl x := by
        intro x tl hx
        exact byteAt_out _ _ _ _ (by omega)
      have keep : ∀ x v tl tl', (∀ v, byteAt tl x = some v → byteAt tl' x = some v) →
          byteAt (⟨po, pbb⟩ :: tl) x = some v → byteAt (⟨po, pbb⟩ :: tl') x = some v := by
        intro x v tl tl' htl hv
        by_cases hin : po ≤ x ∧ x < po + (pbb.length : Int)
        · rw [byteAt_in _ _ _ _ hin] at hv ⊢; exact hv
        · rw [byteAt_out _ _ _ _ hin] at hv ⊢; exact htl v hv
      cases rest with
      | nil =>
        simp only
        obtain ⟨i1, i2, i3, i4⟩ := extend_spec _ hc
          ((off - (po + (pbb.length : Int))).toNat + b.length + 1)
          (po + (pbb.length : Int)) b off (by omega) (by omega)
        refine ⟨_, rfl, ⟨rfl, rfl, i1⟩, by simp, ?_, ?_, ?_, ?_⟩
        · rw [cend_cons, cend_cons, cend_nil]; exact cend_ge _ _ _
        · rw [cend_cons]; exact i3
        · intro x hx1 hx2; rw [skip x _ hx1]; exact i4 x hx1 hx2
        · intro x v _ hv; exact keep x v [] _ (fun v h => by simp [byteAt] at h) hv
      | cons q rest' =>
        simp only
        obtain ⟨l', e, j1, j2, j3, j4, j5, j6⟩ := ih (po + (pbb.length : Int)) b off hrest (by simp) (by omega)
        rw [e]; simp only [Option.map_some]
        refine ⟨_, rfl, ⟨rfl, rfl, j1⟩, by simp, ?_, ?_, ?_, ?_⟩
        · rw [cend_cons po, cend_cons po]; exact j3
        · rw [cend_cons]; exact j4
        · intro x hx1 hx2; rw [skip x _ hx1]; exact j5 x hx1 hx2
        · intro x v hx hv; exact keep x v (q :: rest') l' (fun v h => j6 x v hx h) hv

theorem cont_last_ge (c : Nat) : ∀ (pre : List Buf) (t : Buf) (o : Int), Cont c o (pre ++ [t]) → o ≤ t.off := by
  intro pre
  induction pre with
  | nil => intro t o h; have := h.1; omega
  | cons p0 pre ih => intro t o h; have := ih t (o + c) h.2.2; omega

theorem writeBufs_skip (c : Nat) (p0 q : Buf) (rest : List Buf) (b : List Nat) (off : Int)
    (h1 : ¬ (off - p0.off < (p0.b.length : Int))) :
    writeBufs c (p0 :: q :: rest) b off = (writeBufs c (q :: rest) b off).map (p0 :: ·) := by
  rw [writeBufs]; simp only [h1, if_false]

/-- The `if off >= p.tail.off { pb = p.tail }` shortcut gives the same result as walking from the head. -/
theorem writeBufs_tail (c : Nat) : ∀ (pre : List Buf) (t : Buf) (o : Int) (b : List Nat) (off : Int),
    Cont c o (pre ++ [t]) → t.off ≤ off →
    writeBufs c (pre ++ [t]) b off = (writeBufs c [t] b off).map (pre ++ ·) := by
  intro pre
  induction pre with
  | nil => intro t o b off _ _; simp
  | cons p0 pre ih =>
    intro t o b off h ht
    have hge := cont_last_ge c pre t (o + c) h.2.2
    have h1 : ¬ (off - p0.off < (p0.b.length : Int)) := by have := h.1; have := h.2.1; omega
    have e := ih t (o + c) b off h.2.2 ht
    cases pre with
    | nil =>
      show writeBufs c (p0 :: t :: []) b off = _
      rw [writeBufs_skip c p0 t [] b off h1]
      cases writeBufs c [t] b off <;> simp
    | cons p1 pre' =>
      show writeBufs c (p0 :: p1 :: (pre' ++ [t])) b off = _
      rw [writeBufs_skip c p0 p1 (pre' ++ [t]) b off h1]
      rw [show p1 :: (pre' ++ [t]) = (p1 :: pre') ++ [t] from rfl, e]
      cases writeBufs c [t] b off <;> simp

theorem split_last : ∀ (l : List Buf), l ≠ [] →
    ∃ pre t, l = pre ++ [t] ∧ l.getLast? = some t ∧ l.dropLast = pre := by
  intro l
  induction l with
  | nil => intro h; exact absurd rfl h
  | cons x r ih =>
    intro _
    cases r with
    | nil => exact ⟨[], x, rfl, rfl, rfl⟩
    | cons y r' =>
      obtain ⟨pre, t, e1, e2, e3⟩ := ih (by simp)
      refine ⟨x :: pre, t, by rw [e1]; rfl, by rw [List.getLast?_cons_cons]; exact e2, ?_⟩
      rw [List.dropLast_cons_cons, e3]

/-! ### specification and refinement -/

/-- Specification state: the window and the last byte written at each offset. -/
structure Spec where
  start : Int
  stop : Int
  data : Int → Option Nat

def Spec.empty : Spec := ⟨0, 0, fun _ => none⟩

/-- `writeAt(b, off)`: bytes before the window start are dropped, the window end grows. -/
def specWrite (s : Spec) (b : List Nat) (off : Int) : Spec :=
  if off + b.length ≤ s.start then s
  else ⟨s.start, if off + b.length > s.stop then off + b.length else s.stop,
        fun x => if s.start ≤ x ∧ off ≤ x ∧ x < off + b.length then b[(x - off).toNat]? else s.data x⟩

/-- `discardBefore(off)`: the window start moves, no stored byte changes. -/
def specDiscard (s : Spec) (off : Int) : Spec :=
  ⟨off, if s.stop > off then s.stop else off, s.data⟩

/-- Representation invariant of the chunk chain. -/
def Inv (c : Nat) (p : Pipe) : Prop :=
  p.start ≤ p.stop ∧ ∃ o, Cont c o p.bufs ∧ (p.bufs = [] → p.start = p.stop) ∧
    (p.bufs ≠ [] → o ≤ p.start ∧ p.start < o + c ∧ p.stop ≤ cend o c p.bufs)

/-- Offset of the head chunk (the window start when no chunk is allocated). -/
def headOff (p : Pipe) : Int :=
  match p.bufs with
  | [] => p.start
  | h :: _ => h.off

theorem headOff_nil (st sp : Int) : headOff ⟨st, sp, []⟩ = st := rfl

theorem headOff_cont (c : Nat) (o st sp : Int) (bufs : List Buf) (h : Cont c o bufs) (hne : bufs ≠ []) :
    headOff ⟨st, sp, bufs⟩ = o := by
  cases bufs with
  | nil => exact absurd rfl hne
  | cons h' t => exact h.1

theorem headOff_le_start (c : Nat) (p : Pipe) (hinv : Inv c p) : headOff p ≤ p.start := by
  obtain ⟨_, o, hcont, _, hne⟩ := hinv
  unfold headOff
  cases hb : p.bufs with
  | nil => exact Int.le_refl _
  | cons h t =>
    rw [hb] at hcont hne
    have := (hne (by simp)).1
    simp only; rw [hcont.1]; exact this

/-- Refinement relation: same window, and every byte the specification knows from the head chunk
onwards (in particular everywhere inside the window) is what the chunks hold at that offset. -/
def Rel (p : Pipe) (s : Spec) : Prop :=
  p.start = s.start ∧ p.stop = s.stop ∧
  (∀ x v, headOff p ≤ x → x < s.stop → s.data x = some v → byteAt p.bufs x = some v) ∧
  (∀ x v, s.data x = some v → x < s.stop)

theorem inv_empty (c : Nat) : Inv c empty := ⟨by decide, 0, trivial, fun _ => rfl, fun h => absurd rfl h⟩
theorem rel_empty : Rel empty Spec.empty :=
  ⟨rfl, rfl, fun _ _ _ _ h => by simp [Spec.empty] at h, fun _ _ h => by simp [Spec.empty] at h⟩

/-- **writeAt refines the specification** (and never panics) from every reachable state. -/
theorem writeAt_refines (c : Nat) (hc : 0 < c) (p : Pipe) (s : Spec) (b : List Nat) (off : Int)
    (hinv : Inv c p) (hrel : Rel p s) :
    (writeAt c p b off).2 = false ∧ Inv c (writeAt c p b off).1 ∧
    Rel (writeAt c p b off).1 (specWrite s b off) := by
  obtain ⟨hle, o, hcont, hnil, hne⟩ := hinv
  obtain ⟨r1, r2, r3, r4⟩ := hrel
  unfold writeAt specWrite
  simp only
  by_cases hskip : off + (b.length : Int) ≤ p.stop ∧ off + (b.length : Int) ≤ p.start
  · have : off + (b.length : Int) ≤ s.start := by omega
    rw [if_pos hskip, if_pos this]
    exact ⟨rfl, ⟨hle, o, hcont, hnil, hne⟩, r1, r2, r3, r4⟩
  · have hs' : ¬ (off + (b.length : Int) ≤ s.start) := by omega
    rw [if_neg hskip, if_neg hs']
    -- the trimmed data
    generalize hb1 : (if off < p.start then b.drop (p.start - off).toNat else b) = b1
    generalize hoff1 : (if off < p.start then p.start else off) = off1
    have hb1len : off1 + (b1.length : Int) = off + b.length := by
      subst hb1 hoff1; split
      · simp only [List.length_drop]; omega
      · rfl
    have ho1 : p.start ≤ off1 ∧ off ≤ off1 ∧ (off1 = off ∨ off1 = p.start) := by subst hoff1; split <;> omega
    have hb1get : ∀ x, off1 ≤ x → b1[(x - off1).toNat]? = b[(x - off).toNat]? := by
      intro x hx; subst hb1 hoff1; split
      · rw [List.getElem?_drop]; congr 1; omega
      · rfl
    -- the chain the loop starts from
    generalize hbufs0 : (if p.bufs.isEmpty then [newBuf c p.start] else p.bufs) = bufs0
    have h0 : ∃ o0, Cont c o0 bufs0 ∧ bufs0 ≠ [] ∧ o0 ≤ p.start ∧ p.start < o0 + c ∧ p.stop ≤ cend o0 c bufs0 ∧
        (∀ x v, byteAt p.bufs x = some v → byteAt bufs0 x = some v) ∧ headOff p = o0 := by
      subst hbufs0
      cases hp : p.bufs with
      | nil =>
        have := hnil hp
        refine ⟨p.start, ⟨rfl, by simp [newBuf], trivial⟩, by simp, by omega, by omega, ?_, ?_, ?_⟩
        · simp only [List.isEmpty_nil, if_true]; have := cend_ge p.start c [newBuf c p.start]; omega
        · intro x v h; simp [byteAt] at h
        · unfold headOff; rw [hp]
      | cons h t =>
        rw [hp] at hcont hne
        obtain ⟨a1, a2, a3⟩ := hne (by simp)
        exact ⟨o, hcont, by simp, a1, a2, by simpa using a3, fun _ _ h => by simpa using h,
          by unfold headOff; rw [hp]; exact hcont.1⟩
    obtain ⟨o0, c0, n0, a1, a2, a3, a4, a5⟩ := h0
    obtain ⟨l, hl, w1, w2, w3, w4, w5, w6⟩ := writeBufs_spec c hc bufs0 o0 b1 off1 c0 n0 (by omega)
    -- both branches of the shortcut run the same loop
    have hres : ∀ (stop' : Int), writeLoop c p.start stop' bufs0 b1 off1 = (⟨p.start, stop', l⟩, false) := by
      intro stop'
      obtain ⟨pre, tail, hsp, hlast, hdl⟩ := split_last bufs0 n0
      unfold writeLoop
      rw [hlast]
      simp only
      have hsplit : bufs0.dropLast ++ [tail] = bufs0 := by rw [hdl]; exact hsp.symm
      by_cases ht : off1 ≥ tail.off
      · rw [if_pos ht]
        have := writeBufs_tail c bufs0.dropLast tail o0 b1 off1 (by rw [hsplit]; exact c0) ht
        rw [hsplit, hl] at this
        cases hw : writeBufs c [tail] b1 off1 with
        | none => rw [hw] at this; simp at this
        | some l2 => rw [hw] at this; simp at this; simp [this]
      · rw [if_neg ht, hl]
    rw [hres]
    refine ⟨rfl, ⟨?_, o0, w1, fun h => absurd h w2, fun _ => ⟨a1, a2, ?_⟩⟩, ?_, ?_, ?_, ?_⟩
    · show p.start ≤ (if off + (b.length : Int) > p.stop then off + (b.length : Int) else p.stop)
      split <;> omega
    · show (if off + (b.length : Int) > p.stop then off + (b.length : Int) else p.stop) ≤ cend o0 c l
      split <;> omega
    · exact r1
    · show (if off + (b.length : Int) > p.stop then off + (b.length : Int) else p.stop) =
        (if off + (b.length : Int) > s.stop then off + (b.length : Int) else s.stop)
      rw [r2]
    · intro x v hx1 hx2 hd
      rw [headOff_cont c o0 _ _ l w1 w2] at hx1
      simp only at hx2 hd
      show byteAt l x = some v
      by_cases hin : s.start ≤ x ∧ off ≤ x ∧ x < off + (b.length : Int)
      · rw [if_pos hin] at hd
        rw [w5 x (by omega) (by omega), hb1get x (by omega)]; exact hd
      · rw [if_neg hin] at hd
        have hxs := r4 x v hd
        exact w6 x v (by omega) (a4 x v (r3 x v (by rw [a5]; exact hx1) hxs hd))
    · intro x v hd
      simp only at hd ⊢
      by_cases hin : s.start ≤ x ∧ off ≤ x ∧ x < off + (b.length : Int)
      · split <;> omega
      · rw [if_neg hin] at hd
        have := r4 x v hd
        split <;> omega

theorem dropBufs_pop (po : Int) (pbb : List Nat) (rest : List Buf) (off : Int)
    (h : po + (pbb.length : Int) ≤ off) : dropBufs (⟨po, pbb⟩ :: rest) off = dropBufs rest off := by
  simp [dropBufs, Buf.stop, h]

theorem dropBufs_keep (po : Int) (pbb : List Nat) (rest : List Buf) (off : Int)
    (h : ¬ (po + (pbb.length : Int) ≤ off)) : dropBufs (⟨po, pbb⟩ :: rest) off = ⟨po, pbb⟩ :: rest := by
  simp [dropBufs, Buf.stop, h]

theorem dropBufs_spec (c : Nat) (off : Int) : ∀ (bufs : List Buf) (o : Int), Cont c o bufs → o ≤ off →
    ∃ o', Cont c o' (dropBufs bufs off) ∧ o' ≤ off ∧
      cend o' c (dropBufs bufs off) = cend o c bufs ∧
      (dropBufs bufs off ≠ [] → off < o' + c) ∧
      (dropBufs bufs off = [] → bufs = [] ∨ cend o c bufs ≤ off) ∧
      (∀ x, o' ≤ x → byteAt (dropBufs bufs off) x = byteAt bufs x) ∧ o ≤ o' := by
  intro bufs
  induction bufs with
  | nil => intro o _ ho; exact ⟨o, trivial, ho, rfl, fun h => absurd rfl h, fun _ => Or.inl rfl, fun _ _ => rfl, Int.le_refl _⟩
  | cons pb rest ih =>
    intro o hcont ho
    obtain ⟨po, pbb⟩ := pb
    obtain ⟨h1, h2, h3⟩ := hcont
    simp only at h1 h2
    subst h1
    by_cases hp : po + (pbb.length : Int) ≤ off
    · rw [dropBufs_pop _ _ _ _ hp]
      obtain ⟨o', i1, i2, i3, i4, i5, i6, i7⟩ := ih (po + c) h3 (by omega)
      refine ⟨o', i1, i2, by rw [i3, cend_cons], i4, ?_, ?_, by omega⟩
      · intro h; right
        rcases i5 h with e | e
        · subst e; rw [cend_cons, cend_nil]; omega
        · rw [cend_cons]; exact e
      · intro x hx
        rw [i6 x hx, byteAt_out _ _ _ _ (by omega)]
    · rw [dropBufs_keep _ _ _ _ hp]
      exact ⟨po, ⟨rfl, h2, h3⟩, ho, rfl, fun _ => by omega, fun h => by simp at h, fun _ _ => rfl, Int.le_refl _⟩

/-- **discardBefore refines the specification for every offset at or after the head chunk**: forward
(`off ≥ start`: the window start advances) and backward within the head chunk (`head.off ≤ off < start`:
the window start moves back over bytes the head chunk still holds). No byte changes. -/
theorem discard_refines_any (c : Nat) (p : Pipe) (s : Spec) (off : Int)
    (hinv : Inv c p) (hrel : Rel p s) (hoff : headOff p ≤ off) :
    Inv c (discardBefore p off) ∧ Rel (discardBefore p off) (specDiscard s off) := by
  obtain ⟨hle, o, hcont, hnil, hne⟩ := hinv
  obtain ⟨r1, r2, r3, r4⟩ := hrel
  unfold discardBefore specDiscard
  cases hb : p.bufs with
  | nil =>
    have := hnil hb
    have hoff' : p.start ≤ off := by unfold headOff at hoff; rw [hb] at hoff; exact hoff
    refine ⟨⟨?_, 0, ?_, ?_, ?_⟩, rfl, ?_, ?_, ?_⟩
    · show off ≤ (if p.stop > off then p.stop else off); split <;> omega
    · simp [dropBufs, Cont]
    · intro _; show off = (if p.stop > off then p.stop else off); split <;> omega
    · intro h; simp [dropBufs] at h
    · show (if p.stop > off then p.stop else off) = (if s.stop > off then s.stop else off); rw [r2]
    · intro x v hx1 hx2 hd
      have hx1' : off ≤ x := hx1
      have := r3 x v (by unfold headOff; rw [hb]; show p.start ≤ x; omega) (r4 x v hd) hd
      rw [hb] at this; simp [byteAt] at this
    · intro x v hd; have := r4 x v hd; show x < (if s.stop > off then s.stop else off); split <;> omega
  | cons h t =>
    rw [hb] at hcont hne
    obtain ⟨a1, a2, a3⟩ := hne (by simp)
    have hho : headOff p = o := by unfold headOff; rw [hb]; exact hcont.1
    obtain ⟨o', i1, i2, i3, i4, i5, i6, i7⟩ := dropBufs_spec c off (h :: t) o hcont (by omega)
    refine ⟨⟨?_, o', i1, ?_, ?_⟩, rfl, ?_, ?_, ?_⟩
    · show off ≤ (if p.stop > off then p.stop else off); split <;> omega
    · intro hnl
      show off = (if p.stop > off then p.stop else off)
      rcases i5 hnl with e | e
      · simp at e
      · split <;> omega
    · intro hnn
      refine ⟨i2, i4 hnn, ?_⟩
      show (if p.stop > off then p.stop else off) ≤ cend o' c (dropBufs (h :: t) off)
      have hge : o' + (c : Int) ≤ cend o' c (dropBufs (h :: t) off) := by
        cases hd : dropBufs (h :: t) off with
        | nil => exact absurd hd hnn
        | cons d ds => rw [cend_cons]; exact cend_ge _ _ _
      have := i4 hnn
      split <;> omega
    · show (if p.stop > off then p.stop else off) = (if s.stop > off then s.stop else off); rw [r2]
    · intro x v hx1 hx2 hd
      show byteAt (dropBufs (h :: t) off) x = some v
      have hxs := r4 x v hd
      by_cases hemp : dropBufs (h :: t) off = []
      · exfalso
        rw [hemp] at hx1
        have hx1' : off ≤ x := hx1
        rcases i5 hemp with e | e
        · simp at e
        · omega
      · rw [headOff_cont c o' _ _ _ i1 hemp] at hx1
        rw [i6 x hx1]
        have := r3 x v (by omega) hxs hd
        rw [hb] at this; exact this
    · intro x v hd; have := r4 x v hd; show x < (if s.stop > off then s.stop else off); split <;> omega

/-- **discardBefore refines the specification**: the window start advances, the bytes still in
the window are unchanged. (`off ≥ start`: the contract of the callers.) -/
theorem discard_refines (c : Nat) (p : Pipe) (s : Spec) (off : Int)
    (hinv : Inv c p) (hrel : Rel p s) (hoff : s.start ≤ off) :
    Inv c (discardBefore p off) ∧ Rel (discardBefore p off) (specDiscard s off) :=
  discard_refines_any c p s off hinv hrel (by have := headOff_le_start c p hinv; have := hrel.1; omega)

/-- **A discard below the head chunk** (`off < head.off`, or `off < start` with no chunk allocated) does
what the code does — the window start moves back to `off`, no chunk is released, the end is unchanged —
and leaves the representation invariant: the window now claims offsets no chunk holds, and any
non-empty read at the new window start panics. Such a call is outside the contract of `discardBefore`. -/
theorem discard_below_head (c : Nat) (hc : 0 < c) (p : Pipe) (off : Int) (hinv : Inv c p) (hoff : off < headOff p) :
    discardBefore p off = ⟨off, p.stop, p.bufs⟩ ∧ ¬ Inv c (discardBefore p off) ∧
    ∀ n, 0 < n → read (discardBefore p off) off n = none := by
  obtain ⟨hle, o, hcont, hnil, hne⟩ := hinv
  have hst : headOff p ≤ p.start := headOff_le_start c p ⟨hle, o, hcont, hnil, hne⟩
  have e : discardBefore p off = ⟨off, p.stop, p.bufs⟩ := by
    unfold discardBefore
    have h1 : (if p.stop > off then p.stop else off) = p.stop := by split <;> omega
    have h2 : dropBufs p.bufs off = p.bufs := by
      cases hb : p.bufs with
      | nil => rfl
      | cons h t =>
        rw [hb] at hcont hne
        obtain ⟨a1, a2, a3⟩ := hne (by simp)
        obtain ⟨po, pbb⟩ := h
        have hh : headOff p = po := by unfold headOff; rw [hb]
        have := hcont.1; have := hcont.2.1
        simp only at *
        exact dropBufs_keep _ _ _ _ (by omega)
    rw [h1, h2]
  refine ⟨e, ?_, ?_⟩
  · rw [e]
    rintro ⟨hle', o2, hcont2, hnil2, hne2⟩
    cases hb : p.bufs with
    | nil =>
      have h1 := hnil hb
      have h2 := hnil2 hb
      have hh : headOff p = p.start := by unfold headOff; rw [hb]
      simp only at h2; omega
    | cons h t =>
      simp only at hcont2 hne2
      rw [hb] at hcont2 hne2
      have := (hne2 (by simp)).1
      have hh : headOff p = h.off := by unfold headOff; rw [hb]
      have := hcont2.1
      simp only at *; omega
  · intro n hn
    rw [e]
    unfold Model.Pipe.read
    rw [if_neg (by simp)]
    cases hb : p.bufs with
    | nil => simp [readBufs, hn]
    | cons h t =>
      have hh : headOff p = h.off := by unfold headOff; rw [hb]
      rw [hb] at hcont
      have hlen := hcont.2.1
      rw [readBufs]
      have h1 : ¬ (off ≥ h.stop) := by unfold Buf.stop; omega
      have h2 : off < h.off := by omega
      simp only [hn, h1, h2, if_true, if_false, gt_iff_lt]

/-! ### exactly when `writeAt` panics (states with any contiguous chain, in or out of contract) -/

theorem writeBufs_neg (c : Nat) (pb : Buf) (rest : List Buf) (b : List Nat) (off : Int) (h : off < pb.off) :
    writeBufs c (pb :: rest) b off = none := by
  have h1 : off - pb.off < (pb.b.length : Int) := by omega
  have h2 : off - pb.off < 0 := by omega
  cases rest <;> (rw [writeBufs]; simp only [h1, h2, if_true])

/-- Both arms of the tail shortcut are the loop over the whole chain. -/
theorem writeLoop_eq (c : Nat) (bufs0 : List Buf) (o0 : Int) (c0 : Cont c o0 bufs0) (n0 : bufs0 ≠ [])
    (b1 : List Nat) (off1 start stop' : Int) :
    writeLoop c start stop' bufs0 b1 off1 =
      match writeBufs c bufs0 b1 off1 with
      | none => (⟨start, stop', bufs0⟩, true)
      | some l => (⟨start, stop', l⟩, false) := by
  obtain ⟨pre, tail, hsp, hlast, hdl⟩ := split_last bufs0 n0
  unfold writeLoop
  rw [hlast]
  simp only
  have hsplit : bufs0.dropLast ++ [tail] = bufs0 := by rw [hdl]; exact hsp.symm
  by_cases ht : off1 ≥ tail.off
  · rw [if_pos ht]
    have := writeBufs_tail c bufs0.dropLast tail o0 b1 off1 (by rw [hsplit]; exact c0) ht
    rw [hsplit] at this
    rw [this]
    cases writeBufs c [tail] b1 off1 <;> simp
  · rw [if_neg ht]
    cases writeBufs c bufs0 b1 off1 <;> rfl

/-- **Exactly when `writeAt` panics**: never while the window start is at or after the head chunk (every
state within the contract); after a discard below the head chunk, exactly the writes whose first
retained byte lies before the head chunk (slice index `off - head.off < 0`). The pipe keeps its chunks
and has only `p.end` updated. -/
theorem writeAt_panics_iff (c : Nat) (hc : 0 < c) (p : Pipe) (o : Int) (b : List Nat) (off : Int)
    (_hle : p.start ≤ p.stop) (hcont : Cont c o p.bufs) :
    ((writeAt c p b off).2 = true ↔
      (¬ (off + (b.length : Int) ≤ p.stop ∧ off + (b.length : Int) ≤ p.start) ∧ p.bufs ≠ [] ∧ off < o ∧ p.start < o)) ∧
    ((writeAt c p b off).2 = true →
      (writeAt c p b off).1 = ⟨p.start, if off + (b.length : Int) > p.stop then off + (b.length : Int) else p.stop, p.bufs⟩) := by
  unfold writeAt
  simp only
  by_cases hskip : off + (b.length : Int) ≤ p.stop ∧ off + (b.length : Int) ≤ p.start
  · rw [if_pos hskip]
    exact ⟨⟨fun h => by simp at h, fun h => absurd hskip h.1⟩, fun h => by simp at h⟩
  · rw [if_neg hskip]
    generalize (if off < p.start then b.drop (p.start - off).toNat else b) = b1
    generalize hoff1 : (if off < p.start then p.start else off) = off1
    have ho1 : p.start ≤ off1 ∧ off ≤ off1 ∧ (off1 = off ∨ off1 = p.start) := by subst hoff1; split <;> omega
    generalize (if off + (b.length : Int) > p.stop then off + (b.length : Int) else p.stop) = stop'
    cases hb : p.bufs with
    | nil =>
      simp only [List.isEmpty_nil, if_true]
      have c0 : Cont c p.start [newBuf c p.start] := ⟨rfl, by simp [newBuf], trivial⟩
      rw [writeLoop_eq c _ p.start c0 (by simp)]
      obtain ⟨l, hl, _⟩ := writeBufs_spec c hc [newBuf c p.start] p.start b1 off1 c0 (by simp) (by omega)
      rw [hl]
      exact ⟨⟨fun h => by simp at h, fun h => absurd rfl h.2.1⟩, fun h => by simp at h⟩
    | cons h t =>
      rw [hb] at hcont
      have hho : h.off = o := hcont.1
      simp only [List.isEmpty_cons, Bool.false_eq_true, if_false]
      rw [writeLoop_eq c _ o hcont (by simp)]
      by_cases hneg : off1 < o
      · rw [writeBufs_neg c h t b1 off1 (by omega)]
        exact ⟨⟨fun _ => ⟨hskip, by simp, by omega, by omega⟩, fun _ => rfl⟩, fun _ => rfl⟩
      · obtain ⟨l, hl, _⟩ := writeBufs_spec c hc (h :: t) o b1 off1 hcont (by simp) (by omega)
        rw [hl]
        exact ⟨⟨fun h => by simp at h, fun h => by omega⟩, fun h => by simp at h⟩

/-! ### reading -/

theorem readBufs_zero (l : List Buf) (off n : Int) (h : n ≤ 0) : readBufs l off n = some [] := by
  have : ¬ (n > 0) := by omega
  cases l <;> simp [readBufs, this]

theorem readBufs_spec (c : Nat) (hc : 0 < c) : ∀ (bufs : List Buf) (o off n : Int),
    Cont c o bufs → o ≤ off → 0 ≤ n → off + n ≤ cend o c bufs →
    ∃ cs, readBufs bufs off n = some cs ∧ (cs.flatten.length : Int) = n ∧
      ∀ i : Nat, (i : Int) < n → cs.flatten[i]? = byteAt bufs (off + i) := by
  intro bufs
  induction bufs with
  | nil =>
    intro o off n _ ho hn hb
    rw [cend_nil] at hb
    exact ⟨[], readBufs_zero _ _ _ (by omega), by simp; omega, fun i hi => by omega⟩
  | cons pb rest ih =>
    intro o off n hcont ho hn hb
    obtain ⟨po, pbb⟩ := pb
    obtain ⟨h1, h2, h3⟩ := hcont
    simp only at h1 h2
    subst h1
    subst h2
    rw [cend_cons] at hb
    by_cases hpos : n > 0
    · rw [readBufs]
      simp only [Buf.stop, hpos, if_true]
      by_cases hge : off ≥ po + (pbb.length : Int)
      · simp only [hge, if_true]
        obtain ⟨cs, e1, e2, e3⟩ := ih (po + (pbb.length : Int)) off n h3 hge hn hb
        refine ⟨cs, e1, e2, fun i hi => ?_⟩
        rw [e3 i hi, byteAt_out _ _ _ _ (by omega)]
      · have hlt : ¬ (off < po) := by omega
        simp only [hge, hlt, if_false]
        -- the slice handed to the callback
        generalize hb' : (if ((pbb.drop (off - po).toNat).length : Int) > n
            then (pbb.drop (off - po).toNat).take n.toNat else pbb.drop (off - po).toNat) = b'
        have hm : b' = (pbb.drop (off - po).toNat).take b'.length ∧
            (b'.length : Int) = (if (pbb.length : Int) - (off - po) > n then n else (pbb.length : Int) - (off - po)) := by
          subst hb'
          simp only [List.length_drop]
          split
          · rename_i hh
            have : ¬ ((pbb.length : Int) - (off - po) > n) → False := by omega
            constructor
            · simp
            · simp only [List.length_take, List.length_drop]; split <;> omega
          · rename_i hh
            constructor
            · rw [List.take_of_length_le]; simp
            · simp only [List.length_drop]; split <;> omega
        obtain ⟨hm1, hm2⟩ := hm
        have hbget : ∀ i : Nat, i < b'.length → b'[i]? = byteAt (⟨po, pbb⟩ :: rest) (off + i) := by
          intro i hi
          have hin : po ≤ off + (i : Int) ∧ off + (i : Int) < po + (pbb.length : Int) := by
            constructor
            · omega
            · split at hm2 <;> omega
          rw [byteAt_in _ _ _ _ hin, hm1, List.getElem?_take, if_pos hi, List.getElem?_drop]
          congr 1; omega
        by_cases hdone : n - (b'.length : Int) ≤ 0
        · rw [readBufs_zero _ _ _ hdone]
          refine ⟨[b'], rfl, ?_, ?_⟩
          · simp only [List.flatten_cons, List.flatten_nil, List.append_nil]; split at hm2 <;> omega
          · intro i hi
            simp only [List.flatten_cons, List.flatten_nil, List.append_nil]
            exact hbget i (by split at hm2 <;> omega)
        · have hfull : (b'.length : Int) = (pbb.length : Int) - (off - po) := by split at hm2 <;> omega
          obtain ⟨cs, e1, e2, e3⟩ := ih (po + (pbb.length : Int)) (off + (b'.length : Int)) (n - (b'.length : Int)) h3
            (by omega) (by omega) (by omega)
          rw [e1]
          refine ⟨b' :: cs, rfl, ?_, ?_⟩
          · simp only [List.flatten_cons, List.length_append]; push_cast; omega
          · intro i hi
            simp only [List.flatten_cons]
            by_cases hi' : i < b'.length
            · rw [List.getElem?_append_left hi']; exact hbget i hi'
            · rw [List.getElem?_append_right (by omega), e3 (i - b'.length) (by omega),
                byteAt_out _ _ _ _ (by omega)]
              congr 1; omega
    · exact ⟨[], readBufs_zero _ _ _ (by omega), by simp; omega, fun i hi => by omega⟩

/-- The loop of `read` panics when the range runs past the last allocated chunk. -/
theorem readBufs_none (c : Nat) (hc : 0 < c) : ∀ (bufs : List Buf) (o off n : Int),
    Cont c o bufs → o ≤ off → 0 < n → cend o c bufs < off + n → readBufs bufs off n = none := by
  intro bufs
  induction bufs with
  | nil => intro o off n _ _ hn _; simp [readBufs, hn]
  | cons pb rest ih =>
    intro o off n hcont ho hn hb
    obtain ⟨po, pbb⟩ := pb
    obtain ⟨h1, h2, h3⟩ := hcont
    simp only at h1 h2
    subst h1
    subst h2
    rw [cend_cons] at hb
    have hpos : n > 0 := hn
    rw [readBufs]
    simp only [Buf.stop, hpos, if_true]
    by_cases hge : off ≥ po + (pbb.length : Int)
    · simp only [hge, if_true]
      exact ih (po + (pbb.length : Int)) off n h3 hge hn hb
    · have hlt : ¬ (off < po) := by omega
      simp only [hge, hlt, if_false]
      have hce := cend_ge (po + (pbb.length : Int)) pbb.length rest
      generalize hb' : (if ((pbb.drop (off - po).toNat).length : Int) > n
          then (pbb.drop (off - po).toNat).take n.toNat else pbb.drop (off - po).toNat) = b'
      have hm : (b'.length : Int) = (pbb.length : Int) - (off - po) := by
        subst hb'
        simp only [List.length_drop]
        split
        · rename_i hh; omega
        · simp only [List.length_drop]; omega
      rw [ih (po + (pbb.length : Int)) (off + (b'.length : Int)) (n - (b'.length : Int)) h3
        (by omega) (by omega) (by omega)]
      rfl

/-- One past the last offset for which a chunk is allocated (the window end when there is none). -/
def allocEnd (c : Nat) (p : Pipe) : Int :=
  match p.bufs with
  | [] => p.stop
  | h :: _ => cend h.off c p.bufs

theorem cont_head (c : Nat) (o : Int) (h : Buf) (t : List Buf) (hc : Cont c o (h :: t)) : h.off = o := hc.1

theorem stop_le_allocEnd (c : Nat) (p : Pipe) (hinv : Inv c p) : p.stop ≤ allocEnd c p := by
  obtain ⟨_, o, hcont, _, hne⟩ := hinv
  unfold allocEnd
  cases hb : p.bufs with
  | nil => exact Int.le_refl _
  | cons h t =>
    rw [hb] at hcont hne
    have := (hne (by simp)).2.2
    simp only; rw [cont_head c o h t hcont]; exact this

/-- **Exactly which reads panic** (in every state reachable within the contract): a read panics iff it
starts before the window start, or it is non-empty and runs past the last ALLOCATED chunk — not past
the window end `p.end`. Since `p.end ≤ allocEnd`, every in-window read succeeds, and a read of
`[off, off+n)` with `p.end < off+n ≤ allocEnd` succeeds too (it returns never-written bytes of the
tail chunk). -/
theorem read_panics_iff (c : Nat) (hc : 0 < c) (p : Pipe) (off n : Int) (hinv : Inv c p) :
    read p off n = none ↔ (off < p.start ∨ (0 < n ∧ allocEnd c p < off + n)) := by
  obtain ⟨hle, o, hcont, hnil, hne⟩ := hinv
  unfold Model.Pipe.read allocEnd
  by_cases hs : off < p.start
  · rw [if_pos hs]; exact ⟨fun _ => Or.inl hs, fun _ => rfl⟩
  · rw [if_neg hs]
    cases hb : p.bufs with
    | nil =>
      have := hnil hb
      simp only
      by_cases hn : 0 < n
      · have : readBufs [] off n = none := by simp [readBufs, hn]
        rw [this]; exact ⟨fun _ => Or.inr ⟨hn, by omega⟩, fun _ => rfl⟩
      · rw [readBufs_zero _ _ _ (by omega)]
        exact ⟨fun h => by simp at h, fun h => by omega⟩
    | cons h t =>
      rw [hb] at hcont hne
      obtain ⟨a1, a2, a3⟩ := hne (by simp)
      simp only; rw [cont_head c o h t hcont]
      by_cases hn : 0 < n
      · by_cases hend : cend o c (h :: t) < off + n
        · rw [readBufs_none c hc (h :: t) o off n hcont (by omega) hn hend]
          exact ⟨fun _ => Or.inr ⟨hn, hend⟩, fun _ => rfl⟩
        · obtain ⟨cs, e, _, _⟩ := readBufs_spec c hc (h :: t) o off n hcont (by omega) (by omega) (by omega)
          rw [e]; exact ⟨fun h => by simp at h, fun h => by omega⟩
      · rw [readBufs_zero _ _ _ (by omega)]
        exact ⟨fun h => by simp at h, fun h => by omega⟩

/-- The window-only contract as a corollary: reads inside `[start, end)` never panic. -/
theorem read_in_window_no_panic (c : Nat) (hc : 0 < c) (p : Pipe) (off n : Int) (hinv : Inv c p)
    (h1 : p.start ≤ off) (h3 : off + n ≤ p.stop) : read p off n ≠ none := by
  intro h
  have := stop_le_allocEnd c p hinv
  rcases (read_panics_iff c hc p off n hinv).1 h with h' | h' <;> omega

/-- "Panics exactly outside the window" is false for the code: a read past `p.end` inside the tail chunk. -/
theorem read_past_end_no_panic_witness :
    ∃ (p : Pipe), Inv 4 p ∧ p.stop < 0 + 4 ∧ read p 0 4 ≠ none :=
  ⟨(writeAt 4 empty [1, 2] 0).1, (writeAt_refines 4 (by decide) empty Spec.empty [1, 2] 0 (inv_empty 4) rel_empty).2.1,
    by decide, by decide⟩

/-- **read/copy inside the window**: no panic, exactly `n` bytes, byte `i` is the byte the chunks
hold at offset `off + i`. -/
theorem read_in_window (c : Nat) (hc : 0 < c) (p : Pipe) (off n : Int) (hinv : Inv c p)
    (h1 : p.start ≤ off) (h2 : 0 ≤ n) (h3 : off + n ≤ p.stop) :
    ∃ cs, read p off n = some cs ∧ (cs.flatten.length : Int) = n ∧
      ∀ i : Nat, (i : Int) < n → cs.flatten[i]? = byteAt p.bufs (off + i) := by
  obtain ⟨hle, o, hcont, hnil, hne⟩ := hinv
  unfold Model.Pipe.read
  rw [if_neg (by omega)]
  cases hb : p.bufs with
  | nil =>
    have := hnil hb
    exact ⟨[], readBufs_zero _ _ _ (by omega), by simp; omega, fun i hi => by omega⟩
  | cons h t =>
    rw [hb] at hcont hne
    obtain ⟨a1, a2, a3⟩ := hne (by simp)
    exact readBufs_spec c hc (h :: t) o off n hcont (by omega) h2 (by omega)

/-- **C30, read side**: inside the live window `read`/`copy` return exactly the bytes most
recently written (those the specification knows), whatever the chunking. -/
theorem read_returns_written (c : Nat) (hc : 0 < c) (p : Pipe) (s : Spec) (off n : Int)
    (hinv : Inv c p) (hrel : Rel p s) (h1 : s.start ≤ off) (h2 : 0 ≤ n) (h3 : off + n ≤ s.stop) :
    ∃ cs, read p off n = some cs ∧ (cs.flatten.length : Int) = n ∧
      ∀ (i : Nat) (v : Nat), (i : Int) < n → s.data (off + i) = some v → cs.flatten[i]? = some v := by
  obtain ⟨r1, r2, r3, r4⟩ := hrel
  obtain ⟨cs, e1, e2, e3⟩ := read_in_window c hc p off n hinv (by omega) h2 (by omega)
  exact ⟨cs, e1, e2, fun i v hi hd => by rw [e3 i hi]; exact r3 _ v (by have := headOff_le_start c p hinv; omega) (by omega) hd⟩

/-- Reading from before the window start panics (the explicit check in `read`). -/
theorem read_before_start_panics (p : Pipe) (off n : Int) (h : off < p.start) : read p off n = none := by
  unfold Model.Pipe.read; rw [if_pos h]

/-- **peek**: never panics for `n ≥ 0`, returns at most `n` bytes, and they are the bytes held at the
window start onwards (a possibly short prefix: it stops at the end of the head chunk; never empty for a non-empty window, see `peek_progress`). -/
theorem peek_prefix (c : Nat) (p : Pipe) (n : Int) (hinv : Inv c p) (hn : 0 ≤ n) :
    ∃ bs, peek p n = some bs ∧ (bs.length : Int) ≤ n ∧
      ∀ i : Nat, i < bs.length → bs[i]? = byteAt p.bufs (p.start + i) := by
  obtain ⟨hle, o, hcont, hnil, hne⟩ := hinv
  unfold peek
  cases hb : p.bufs with
  | nil => exact ⟨[], rfl, by simpa using hn, fun i hi => by simp at hi⟩
  | cons h t =>
    rw [hb] at hcont hne
    obtain ⟨a1, a2, a3⟩ := hne (by simp)
    obtain ⟨po, pbb⟩ := h
    obtain ⟨c1, c2, c3⟩ := hcont
    simp only at c1 c2 ⊢
    subst c1
    have hk : ¬ (p.start - po < 0 ∨ p.start - po > (pbb.length : Int)) := by omega
    have hn' : ¬ (n < 0) := by omega
    rw [if_neg hk, if_neg hn']
    refine ⟨_, rfl, ?_, ?_⟩
    · simp only [List.length_take, List.length_drop]; omega
    · intro i hi
      simp only [List.length_take, List.length_drop] at hi
      have hin : po ≤ p.start + (i : Int) ∧ p.start + (i : Int) < po + (pbb.length : Int) := by omega
      rw [byteAt_in _ _ _ _ hin, List.getElem?_take, if_pos (by simp only [List.length_drop]; omega),
        List.getElem?_drop]
      congr 1; omega

/-- **peek makes progress**: with a non-empty window and `n > 0` it returns at least one byte (the head
chunk always reaches beyond the window start since `discardBefore` releases a chunk that ends exactly
at the new start). Full statement of the formerly reported gap. -/
theorem peek_progress (c : Nat) (p : Pipe) (n : Int) (hinv : Inv c p) (hn : 0 < n) (hw : p.start < p.stop) :
    ∃ bs, peek p n = some bs ∧ 0 < bs.length := by
  obtain ⟨bs, e, _, _⟩ := peek_prefix c p n hinv (by omega)
  refine ⟨bs, e, ?_⟩
  obtain ⟨hle, o, hcont, hnil, hne⟩ := hinv
  unfold peek at e
  cases hb : p.bufs with
  | nil => have := hnil hb; omega
  | cons h t =>
    rw [hb] at hcont hne e
    obtain ⟨a1, a2, a3⟩ := hne (by simp)
    obtain ⟨po, pbb⟩ := h
    obtain ⟨c1, c2, c3⟩ := hcont
    simp only at c1 c2 e
    subst c1
    have hk : ¬ (p.start - po < 0 ∨ p.start - po > (pbb.length : Int)) := by omega
    have hn' : ¬ (n < 0) := by omega
    rw [if_neg hk, if_neg hn'] at e
    have := Option.some.inj e
    subst this
    simp only [List.length_take, List.length_drop]; omega

/-! ### all histories -/

inductive Op where
  | write (b : List Nat) (off : Int)
  | discard (off : Int)

def step (c : Nat) (p : Pipe) : Op → Pipe
  | .write b off => (writeAt c p b off).1
  | .discard off => discardBefore p off

def specStep (s : Spec) : Op → Spec
  | .write b off => specWrite s b off
  | .discard off => specDiscard s off

def run (c : Nat) (ops : List Op) (p : Pipe) : Pipe := ops.foldl (step c) p
def specRun (ops : List Op) (s : Spec) : Spec := ops.foldl specStep s

/-- Contract of a history: discards only move the window start forward. Writes are unrestricted
(any offset, any length, overlapping, out of order, before the window). -/
def Valid : List Op → Spec → Prop
  | [], _ => True
  | .write b off :: ops, s => Valid ops (specWrite s b off)
  | .discard off :: ops, s => s.start ≤ off ∧ Valid ops (specDiscard s off)

/-- No `writeAt` of the history panics. -/
def NoPanic (c : Nat) : List Op → Pipe → Prop
  | [], _ => True
  | .write b off :: ops, p => (writeAt c p b off).2 = false ∧ NoPanic c ops (writeAt c p b off).1
  | .discard off :: ops, p => NoPanic c ops (discardBefore p off)

theorem history_refines (c : Nat) (hc : 0 < c) (ops : List Op) : ∀ (p : Pipe) (s : Spec),
    Inv c p → Rel p s → Valid ops s →
    NoPanic c ops p ∧ Inv c (run c ops p) ∧ Rel (run c ops p) (specRun ops s) := by
  induction ops with
  | nil => intro p s hi hr _; exact ⟨trivial, hi, hr⟩
  | cons op ops ih =>
    intro p s hi hr hv
    cases op with
    | write b off =>
      obtain ⟨w1, w2, w3⟩ := writeAt_refines c hc p s b off hi hr
      obtain ⟨j1, j2, j3⟩ := ih (writeAt c p b off).1 (specWrite s b off) w2 w3 hv
      exact ⟨⟨w1, j1⟩, j2, j3⟩
    | discard off =>
      obtain ⟨d1, d2⟩ := discard_refines c p s off hi hr hv.1
      obtain ⟨j1, j2, j3⟩ := ih (discardBefore p off) (specDiscard s off) d1 d2 hv.2
      exact ⟨j1, j2, j3⟩

/-- **C30 over all histories**: after any sequence of writes (any offsets, lengths, order, chunk
alignment) and forward discards starting from the empty pipe, nothing has panicked, the window is
the specification's window, and every in-window `read`/`copy` returns, at each offset that was
written, the byte most recently written there. -/
theorem history_correct (c : Nat) (hc : 0 < c) (ops : List Op) (hv : Valid ops Spec.empty)
    (off n : Int) (h1 : (specRun ops Spec.empty).start ≤ off) (h2 : 0 ≤ n)
    (h3 : off + n ≤ (specRun ops Spec.empty).stop) :
    NoPanic c ops empty ∧
    (run c ops empty).start = (specRun ops Spec.empty).start ∧
    (run c ops empty).stop = (specRun ops Spec.empty).stop ∧
    ∃ cs, read (run c ops empty) off n = some cs ∧ (cs.flatten.length : Int) = n ∧
      ∀ (i : Nat) (v : Nat), (i : Int) < n → (specRun ops Spec.empty).data (off + i) = some v →
        cs.flatten[i]? = some v := by
  obtain ⟨j1, j2, j3⟩ := history_refines c hc ops empty Spec.empty (inv_empty c) rel_empty hv
  exact ⟨j1, j3.1, j3.2.1, read_returns_written c hc _ _ off n j2 j3 h1 h2 h3⟩

/-- The same at the chunk size regenerated from quic/pipe.go (T-tie instance). -/
theorem history_correct_gen (ops : List Op) (hv : Valid ops Spec.empty)
    (off n : Int) (h1 : (specRun ops Spec.empty).start ≤ off) (h2 : 0 ≤ n)
    (h3 : off + n ≤ (specRun ops Spec.empty).stop) :
    NoPanic NetVerif.Gen.C30.pipebufSize ops empty ∧
    ∃ cs, read (run NetVerif.Gen.C30.pipebufSize ops empty) off n = some cs ∧ (cs.flatten.length : Int) = n ∧
      ∀ (i : Nat) (v : Nat), (i : Int) < n → (specRun ops Spec.empty).data (off + i) = some v →
        cs.flatten[i]? = some v := by
  obtain ⟨a, _, _, d⟩ := history_correct _ gen_chunk_pos ops hv off n h1 h2 h3
  exact ⟨a, d⟩

/-- Discarding does not change what the specification stores (so, by refinement, the bytes still
in the window are unchanged). -/
theorem specDiscard_data (s : Spec) (off : Int) : (specDiscard s off).data = s.data := rfl

/-- The last write wins; other offsets keep their byte. -/
theorem specWrite_data (s : Spec) (b : List Nat) (off x : Int) (h : ¬ (off + b.length ≤ s.start)) :
    (specWrite s b off).data x =
      if s.start ≤ x ∧ off ≤ x ∧ x < off + b.length then b[(x - off).toNat]? else s.data x := by
  unfold specWrite; rw [if_neg h]

/-! ### non-vacuity and the behaviour outside the contract -/

-- chunk size 4: a write across three chunks, a partial discard, an overwrite across a boundary
example : (writeAt 4 empty [1,2,3,4,5,6,7,8,9] 0).1 =
    ⟨0, 9, [⟨0, [1,2,3,4]⟩, ⟨4, [5,6,7,8]⟩, ⟨8, [9,0,0,0]⟩]⟩ := by decide
example : read (discardBefore (writeAt 4 empty [1,2,3,4,5,6,7,8,9] 0).1 3) 3 6 =
    some [[4], [5,6,7,8], [9]] := by decide
example : read (writeAt 4 (writeAt 4 empty [1,2,3,4,5,6,7,8,9] 0).1 [50,60] 3).1 2 4 =
    some [[3, 50], [60, 6]] := by decide
example : Valid [.write [1,2,3] 5, .discard 6, .write [9] 2, .write [7,7] 7] Spec.empty := by
  refine ⟨by decide, trivial⟩
-- a read past the window end does NOT panic while it stays inside the allocated tail chunk …
example : read (writeAt 4 empty [1,2] 0).1 0 4 = some [[1,2,0,0]] := by decide
-- … and panics beyond it
example : read (writeAt 4 empty [1,2] 0).1 0 5 = none := by decide
-- the old witness of "peek returns nothing although the window is not empty" (head chunk exhausted
-- exactly at a chunk boundary) now satisfies `peek_progress`: the dead chunk is released
example : peek (discardBefore (writeAt 4 empty [1,2,3,4,5] 0).1 4) 1 = some [5] := by decide
example : (discardBefore (writeAt 4 empty [1,2,3,4,5] 0).1 4).bufs = [⟨4, [5,0,0,0]⟩] := by decide

end NetVerif.Proofs.C30
