import NetVerif.Model.Pipe
import NetVerif.Gen.C30
/-!
C30 — the QUIC stream pipe stores exactly the bytes written.
-/
namespace NetVerif.Proofs.C30
open NetVerif.Model.Pipe

/-- T-tie: the chunk size regenerated from quic/pipe.go satisfies the hypothesis
(`0 < c`) under which every theorem below is proved. -/
theorem gen_chunk_pos : 0 < NetVerif.Gen.C30.pipebufSize := by decide

/-! ### chunk chains -/

/-- The byte stored for absolute offset `x` (first chunk covering it). -/
def byteAt : List Buf → Int → Option Nat
  | [], _ => none
  | pb :: rest, x => if pb.off ≤ x ∧ x < pb.stop then pb.b[(x - pb.off).toNat]? else byteAt rest x

/-- Chunks of length `c` at contiguous offsets starting at `o`. -/
def Cont (c : Nat) (o : Int) : List Buf → Prop
  | [] => True
  | pb :: rest => pb.off = o ∧ pb.b.length = c ∧ Cont c (o + c) rest

theorem copyInto_snd (dst : List Nat) (k : Nat) (src : List Nat) :
    (copyInto dst k src).2 = min (dst.length - k) src.length := rfl

theorem copyInto_fst (dst : List Nat) (k : Nat) (src : List Nat) :
    (copyInto dst k src).1 = dst.take k ++ src.take (min (dst.length - k) src.length) ++
      dst.drop (k + min (dst.length - k) src.length) := rfl

theorem copyInto_length (dst : List Nat) (k : Nat) (src : List Nat) (hk : k ≤ dst.length) :
    (copyInto dst k src).1.length = dst.length := by
  rw [copyInto_fst]
  simp only [List.length_append, List.length_take, List.length_drop]
  omega

theorem copyInto_get (dst : List Nat) (k : Nat) (src : List Nat) (j : Nat) (hk : k ≤ dst.length) :
    (copyInto dst k src).1[j]? =
      if k ≤ j ∧ j < k + (copyInto dst k src).2 then src[j - k]? else dst[j]? := by
  rw [copyInto_fst, copyInto_snd]
  generalize hn : min (dst.length - k) src.length = n
  have hn1 : n ≤ dst.length - k := by omega
  have hn2 : n ≤ src.length := by omega
  by_cases h1 : j < k
  · have : ¬ (k ≤ j ∧ j < k + n) := by omega
    rw [if_neg this, List.append_assoc, List.getElem?_append_left (by simp; omega)]
    simp [List.getElem?_take, h1]
  · by_cases h2 : j < k + n
    · rw [if_pos ⟨by omega, h2⟩, List.append_assoc, List.getElem?_append_right (by simp; omega)]
      rw [List.getElem?_append_left (by simp; omega)]
      simp only [List.length_take, List.getElem?_take]
      have : min k dst.length = k := by omega
      simp [this]; omega
    · have : ¬ (k ≤ j ∧ j < k + n) := by omega
      rw [if_neg this, List.append_assoc, List.getElem?_append_right (by simp; omega)]
      rw [List.getElem?_append_right (by simp; omega)]
      simp only [List.length_take, List.getElem?_drop]
      have e1 : min k dst.length = k := by omega
      have e2 : min n src.length = n := by omega
      rw [e1, e2]; congr 1; omega

end NetVerif.Proofs.C30
