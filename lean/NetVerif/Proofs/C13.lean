import NetVerif.Proofs.C12
/-!
# C13 — the RFC 9218 scheduler respects urgency and serves every ready stream

All statements are about `P9218.pop` of `NetVerif.Model.WriteSched` on states satisfying the
representation invariant `P9Inv` (every state reachable by a contract-respecting history does:
`reachable_inv`).  A priority class is `c = 2*urgency + incremental`.
-/
namespace NetVerif.Proofs.C13
open NetVerif.Model.WriteSched NetVerif.Proofs.WriteSchedLemmas NetVerif.Proofs.WriteSchedSpec
  NetVerif.Proofs.WriteSchedRefine NetVerif.Proofs.C12

/-- Every state reached by a contract-respecting history satisfies the representation invariant
(for the set of streams open at that point). -/
theorem reachable_inv (ops : List Op) : ∀ (s : Sched) (opn : Nat → Bool) (e : Env),
    InvS opn s → AbsWF (absS s) opn → Contract opn ops →
    ∃ opn', InvS opn' (s.run e ops).2.1 ∧ AbsWF (absS (s.run e ops).2.1) opn' := by
  induction ops with
  | nil => intro s opn e hi hwf _; exact ⟨opn, hi, hwf⟩
  | cons op ops ih =>
    intro s opn e hi hwf hc
    obtain ⟨hok, hc'⟩ := hc
    obtain ⟨hstep, hi'⟩ := step_refines e hi hwf hok
    have hl : LedgerOK (absS s) ⟨fun id => flatToks ((absS s).q id), fun _ => [], fun _ => []⟩ := by
      intro id; simp
    obtain ⟨hwf', _, _, _⟩ := step_preserves hwf hl hok hstep
    obtain ⟨opn', h1, h2⟩ := ih (s.step e op).2.1 (opnOp opn op) (s.step e op).1 hi' hwf' hc'
    exact ⟨opn', by simpa [Sched.run] using h1, by simpa [Sched.run] using h2⟩

/-- The outcome of a `Pop` that reaches the stream queues and serves stream `id` of class `c`. -/
structure Served (e : Env) (s : P9218) (c id : Nat) (pre post : List Nat) : Prop where
  noctl : s.control.shift = none
  found : firstClass e s.qs s.ring (classOrder (!s.toggle)) = some (c, pre, id, post)

theorem pop_of_served {e : Env} {s : P9218} {c id : Nat} {pre post : List Nat} (h : Served e s c id pre post) :
    ∃ e' q' f, (s.qs id).consume e maxInt32 = (e', q', some f) ∧
      s.pop e = (e', P9218.mk s.control (upd s.qs id q')
                   (upd s.ring c (if c % 2 = 1 then post ++ pre ++ [id] else id :: (post ++ pre)))
                   s.prio (!s.toggle) s.bufId s.bufClass, .frame f) := by
  obtain ⟨_, _, hsend, _⟩ := firstClass_some h.found
  obtain ⟨e', q', f, hcons, _⟩ := pop_stream_spec (strict := True) (control := s.control) e (shift_none h.noctl) id hsend
  refine ⟨e', q', f, hcons, ?_⟩
  simp [P9218.pop, h.noctl, h.found, hcons]

/-- Conversely, a `Pop` that returns a stream frame (control queue empty) served some stream. -/
theorem served_of_pop {e e' : Env} {s s' : P9218} {f : Frame} (hn : s.control.shift = none)
    (h : s.pop e = (e', s', .frame f)) : ∃ c id pre post, Served e s c id pre post := by
  simp only [P9218.pop, hn] at h
  cases hfc : firstClass e s.qs s.ring (classOrder (!s.toggle)) with
  | none => simp [hfc] at h
  | some t => obtain ⟨c, pre, id, post⟩ := t; exact ⟨c, id, pre, post, hn, hfc⟩

theorem firstClass_before {e : Env} {qs : Nat → WQ} {ring : Nat → List Nat} {cs : List Nat}
    {c id : Nat} {pre post : List Nat} (h : firstClass e qs ring cs = some (c, pre, id, post)) :
    ∀ c' ∈ cs.takeWhile (· != c), ∀ x ∈ ring c', sendable e (qs x) = false := by
  induction cs with
  | nil => simp
  | cons c0 cs ih =>
    unfold firstClass at h
    split at h
    · rename_i pre' id' post' hsome
      simp at h
      obtain ⟨rfl, _, _, _⟩ := h
      simp [List.takeWhile]
    · rename_i hnone
      intro c' hc'
      by_cases h0 : c0 = c
      · subst h0; simp [List.takeWhile] at hc'
      · have : (c0 != c) = true := by simpa using h0
        simp only [List.takeWhile, this, List.mem_cons] at hc'
        rcases hc' with rfl | hc'
        · exact splitFirst_none hnone
        · exact ih h c' hc'

theorem order_urgency : ∀ t : Bool, ∀ c < 16, ∀ c' < 16, c' / 2 < c / 2 →
    c' ∈ (classOrder t).takeWhile (· != c) := by decide

theorem order_preferred_aux : ∀ t : Bool, ∀ c < 16, ∀ c' < 16,
    (c' / 2 == c / 2 && c' != c && (decide (c' % 2 = 1) == t)) = true →
    c' ∈ (classOrder t).takeWhile (· != c) := by decide

theorem order_preferred (t : Bool) (c : Nat) (hc : c < 16) (c' : Nat) (hc' : c' < 16) (h1 : c' / 2 = c / 2) (h2 : c' ≠ c)
    (h3 : decide (c' % 2 = 1) = t) : c' ∈ (classOrder t).takeWhile (· != c) := by
  apply order_preferred_aux t c hc c' hc'
  simp [h1, h2, h3]

theorem classOrder_lt : ∀ t : Bool, ∀ c ∈ classOrder t, c < 16 := by decide

/-- **Urgency.**  When `Pop` serves a stream of class `c`, no open stream of strictly smaller urgency
value (`c'/2 < c/2`) has a sendable frame. -/
theorem urgency_respected {e : Env} {s : P9218} {opn : Nat → Bool} {c id : Nat} {pre post : List Nat}
    (hi : P9Inv s opn) (h : Served e s c id pre post) (x c' : Nat) (hx : s.prio x = some c') (hlt : c' / 2 < c / 2) :
    sendable e (s.qs x) = false := by
  obtain ⟨hc', hmem⟩ := hi.cls x c' hx
  have hc : c < 16 := classOrder_lt _ c (firstClass_some h.found).1
  exact firstClass_before h.found c' (order_urgency _ c hc c' hc' hlt) x hmem

/-- **Alternation.**  `prioritizeIncremental` is flipped by every `Pop` that reaches the stream queues;
when a stream of class `c` is served while a stream of the other class of the same urgency is sendable,
`c` is the class whose turn it is (incremental iff the flipped `prioritizeIncremental` is set).  Hence with
both classes continuously sendable they are served alternately. -/
theorem alternation {e : Env} {s : P9218} {opn : Nat → Bool} {c id : Nat} {pre post : List Nat}
    (hi : P9Inv s opn) (h : Served e s c id pre post) (x c' : Nat) (hx : s.prio x = some c')
    (hu : c' / 2 = c / 2) (hne : c' ≠ c) (hs : sendable e (s.qs x) = true) :
    decide (c % 2 = 1) = !s.toggle := by
  obtain ⟨hc', hmem⟩ := hi.cls x c' hx
  have hc : c < 16 := classOrder_lt _ c (firstClass_some h.found).1
  cases hd : decide (c' % 2 = 1) == !s.toggle with
  | true =>
    have := firstClass_before h.found c' (order_preferred _ c hc c' hc' hu hne (by simpa using hd)) x hmem
    rw [this] at hs; cases hs
  | false =>
    have h1 : c' % 2 ≠ c % 2 := by omega
    cases ht : s.toggle <;> simp [ht] at hd ⊢ <;> omega

theorem toggle_flips {e e' : Env} {s s' : P9218} {r : Res} (hn : s.control.shift = none)
    (h : s.pop e = (e', s', r)) : s'.toggle = !s.toggle := by
  simp only [P9218.pop, hn] at h
  split at h
  · cases h; rfl
  · split at h <;> (cases h; rfl)

/-- **Non-incremental streams are served to completion.**  (1) After serving stream `id` of a
non-incremental class, `id` is the head of its ring; (2) a `Pop` that serves class `c` serves the ring's
head if the head is sendable.  So the same non-incremental stream is served by every `Pop` that reaches its
class until it has nothing sendable. -/
theorem noninc_becomes_head {e : Env} {s : P9218} {c id : Nat} {pre post : List Nat}
    (h : Served e s c id pre post) (hc : c % 2 = 0) : ((s.pop e).2.1.ring c).head? = some id := by
  obtain ⟨e', q', f, _, hp⟩ := pop_of_served h
  rw [hp]
  have : ¬ c % 2 = 1 := by omega
  simp [upd, this]

theorem head_served_first {e : Env} {s : P9218} {c id hd : Nat} {pre post tl : List Nat}
    (h : Served e s c id pre post) (hr : s.ring c = hd :: tl) (hs : sendable e (s.qs hd) = true) :
    id = hd ∧ pre = [] := by
  obtain ⟨_, hring, _, hpre⟩ := firstClass_some h.found
  rw [hr] at hring
  cases pre with
  | nil => simp at hring; exact ⟨hring.1.symm, rfl⟩
  | cons p pre' =>
    simp at hring
    have := hpre p (by simp)
    rw [← hring.1, hs] at this; cases this

/-! ### Incremental streams: bounded waiting -/

/-- Position of `x` in a ring (distance from the head). -/
def pos (x : Nat) : List Nat → Nat
  | [] => 0
  | y :: l => if y = x then 0 else pos x l + 1

theorem pos_append_mem {x : Nat} {l1 : List Nat} (l2 : List Nat) (h : x ∈ l1) : pos x (l1 ++ l2) = pos x l1 := by
  induction l1 with
  | nil => simp at h
  | cons y l ih =>
    simp only [List.cons_append, pos]
    split
    · rfl
    · rename_i hne
      simp only [List.mem_cons] at h
      rcases h with rfl | h
      · exact absurd rfl hne
      · rw [ih h]

theorem pos_append_not_mem {x : Nat} {l1 : List Nat} (l2 : List Nat) (h : x ∉ l1) :
    pos x (l1 ++ l2) = l1.length + pos x l2 := by
  induction l1 with
  | nil => simp
  | cons y l ih =>
    simp only [List.mem_cons, not_or] at h
    simp only [List.cons_append, pos, List.length_cons]
    have : ¬ y = x := fun hh => h.1 hh.symm
    simp only [this, if_false]
    rw [ih h.2]; omega

theorem pos_lt_length {x : Nat} {l : List Nat} (h : x ∈ l) : pos x l < l.length := by
  induction l with
  | nil => simp at h
  | cons y l ih =>
    simp only [pos, List.length_cons]
    split
    · omega
    · rename_i hne
      simp only [List.mem_cons] at h
      rcases h with rfl | h
      · exact absurd rfl hne
      · have := ih h; omega

/-- **Incremental streams are not starved.**  If a `Pop` serves stream `id` of an incremental class `c`
while another stream `x` of that class is sendable, `x` moves strictly closer to the head of the ring
(by `pre.length + 1`); its distance is always below the ring size, and a sendable head is served
(`head_served_first`).  So a continuously sendable incremental stream is served after at most
`(ring c).length - 1` Pops of its class that serve other streams. -/
theorem inc_moves_forward {e : Env} {s : P9218} {c id : Nat} {pre post : List Nat}
    (h : Served e s c id pre post) (hc : c % 2 = 1) (x : Nat) (hx : x ∈ s.ring c) (hne : x ≠ id)
    (hs : sendable e (s.qs x) = true) :
    pos x ((s.pop e).2.1.ring c) + pre.length + 1 = pos x (s.ring c) ∧ pos x (s.ring c) < (s.ring c).length := by
  obtain ⟨e', q', f, _, hp⟩ := pop_of_served h
  obtain ⟨_, hring, _, hpre⟩ := firstClass_some h.found
  refine ⟨?_, pos_lt_length hx⟩
  rw [hp]
  have hnp : x ∉ pre := by
    intro hm; have := hpre x hm; rw [hs] at this; cases this
  have hpost : x ∈ post := by
    rw [hring] at hx
    simp only [List.mem_append, List.mem_cons] at hx
    rcases hx with h1 | h1 | h1
    · exact absurd h1 hnp
    · exact absurd h1 hne
    · exact h1
  simp only [upd, hc, if_true]
  rw [hring, pos_append_not_mem _ hnp]
  simp only [pos]
  have : ¬ id = x := fun hh => hne hh.symm
  simp only [this, if_false]
  rw [List.append_assoc, pos_append_mem _ hpost]
  omega

/-- A `Pop` changes no ring other than the one it serves from (so waiting positions in other classes,
and in the same class while other classes are served, never get worse). -/
theorem pop_other_rings {e : Env} {s : P9218} {c id : Nat} {pre post : List Nat}
    (h : Served e s c id pre post) (c' : Nat) (hne : c' ≠ c) : (s.pop e).2.1.ring c' = s.ring c' := by
  obtain ⟨e', q', f, _, hp⟩ := pop_of_served h
  rw [hp]; simp [upd, hne]

/-- Opening a stream or re-prioritising another stream appends at the tail of a ring: positions of the
streams already waiting do not grow. -/
theorem open_keeps_pos (s : P9218) (id c x : Nat) (hn : s.prio id = none) (hb : id ≠ s.bufId) (c0 : Nat)
    (hx : x ∈ s.ring c0) : pos x ((s.openStream id c).1.ring c0) = pos x (s.ring c0) := by
  simp only [P9218.openStream, hn, hb, if_false]
  simp only [upd]
  split
  · rename_i heq; subst heq; exact pos_append_mem _ hx
  · rfl

/-- **Buffered PRIORITY_UPDATE.**  A priority update for a stream that is not open yet is applied when the
stream is opened (it overrides the priority passed to `OpenStream`). -/
theorem buffered_update_applied (s : P9218) (id c c2 : Nat) (hn : s.prio id = none) :
    let s1 := (s.adjustStream id c).1
    let s2 := (s1.openStream id c2).1
    s2.prio id = some c ∧ id ∈ s2.ring c ∧ s2.bufId = 0 := by
  simp [P9218.adjustStream, P9218.openStream, hn, upd]

/-- The full starvation-freedom statement over histories (bounded service of a continuously sendable
incremental stream), kept as a `Prop`: the one-step facts above (`inc_moves_forward`, `head_served_first`,
`pop_other_rings`, `open_keeps_pos`) are what is proved. -/
def BoundedServiceStatement : Prop :=
  ∀ (e : Env) (s : P9218) (opn : Nat → Bool) (c x : Nat), P9Inv s opn → c % 2 = 1 → x ∈ s.ring c →
    ∀ (c1 id : Nat) (pre post : List Nat), Served e s c1 id pre post → c1 = c → sendable e (s.qs x) = true →
      id = x ∨ pos x ((s.pop e).2.1.ring c) < pos x (s.ring c)

theorem bounded_service_step : BoundedServiceStatement := by
  intro e s opn c x _ hc hx c1 id pre post hsv hc1 hs
  subst hc1
  by_cases hxe : x = id
  · exact Or.inl hxe.symm
  · right
    have := (inc_moves_forward hsv hc x hx hxe hs).1
    omega

/-! ### Non-vacuity -/

def exEnv : Env := { maxFrame := 16384, connWin := 65535, win := fun _ => 65535 }

/-- three incremental streams of urgency 3 (class 7), one non-incremental of urgency 3 (class 6),
one of urgency 1 (class 2) -/
def exState : P9218 :=
  let s0 : P9218 := {}
  let s1 := (s0.openStream 1 7).1
  let s2 := (s1.openStream 3 7).1
  let s3 := (s2.openStream 5 7).1
  let s4 := (s3.openStream 7 6).1
  let s5 := (s4.openStream 9 2).1
  let s6 := (s5.push (.hdr 1 1)).1
  let s7 := (s6.push (.hdr 3 2)).1
  let s8 := (s7.push (.hdr 5 3)).1
  let s9 := (s8.push (.hdr 7 4)).1
  (s9.push (.hdr 9 5)).1

example : (exState.pop exEnv).2.2 = .frame (.hdr 9 5) := by decide
example : Served exEnv exState 2 9 [] [] := ⟨by decide, by decide⟩
example : ((exState.pop exEnv).2.1.pop exEnv).2.2 = .frame (.hdr 7 4) := by decide

end NetVerif.Proofs.C13
