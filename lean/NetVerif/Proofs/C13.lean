import NetVerif.Proofs.C12
import NetVerif.Model.RFC9218Priority
/-!
# C13 — the RFC 9218 scheduler respects urgency and serves every ready stream

All statements are about `P9218.pop` of `NetVerif.Model.WriteSched` on states satisfying the
representation invariant `P9Inv` (every state reachable by a contract-respecting history does:
`reachable_inv`).  A priority class is `c = 2*urgency + incremental`.
-/
namespace NetVerif.Proofs.C13
open NetVerif.Model.WriteSched NetVerif.Proofs.WriteSchedLemmas NetVerif.Proofs.WriteSchedSpec
  NetVerif.Proofs.WriteSchedRefine NetVerif.Proofs.C12

/-- Every state reached by a contract-respecting history satisfies the representation invariant
(for the set of streams open at that point). -/
theorem reachable_inv (ops : List Op) : ∀ (s : Sched) (opn : Nat → Bool) (e : Env),
    InvS opn s → AbsWF (absS s) opn → Contract opn ops →
    ∃ opn', InvS opn' (s.run e ops).2.1 ∧ AbsWF (absS (s.run e ops).2.1) opn' := by
  induction ops with
  | nil => intro s opn e hi hwf _; exact ⟨opn, hi, hwf⟩
  | cons op ops ih =>
    intro s opn e hi hwf hc
    obtain ⟨hok, hc'⟩ := hc
    obtain ⟨hstep, hi'⟩ := step_refines e hi hwf hok
    have hl : LedgerOK (absS s) ⟨fun id => flatToks ((absS s).q id), fun _ => [], fun _ => []⟩ := by
      intro id; simp
    obtain ⟨hwf', _, _, _⟩ := step_preserves hwf hl hok hstep
    obtain ⟨opn', h1, h2⟩ := ih (s.step e op).2.1 (opnOp opn op) (s.step e op).1 hi' hwf' hc'
    exact ⟨opn', by simpa [Sched.run] using h1, by simpa [Sched.run] using h2⟩

/-- The outcome of a `Pop` that reaches the stream queues and serves stream `id` of class `c`. -/
structure Served (e : Env) (s : P9218) (c id : Nat) (pre post : List Nat) : Prop where
  noctl : s.control.shift = none
  found : firstClass e s.qs s.ring (classOrder (!s.toggle)) = some (c, pre, id, post)

theorem pop_of_served {e : Env} {s : P9218} {c id : Nat} {pre post : List Nat} (h : Served e s c id pre post) :
    ∃ e' q' f, (s.qs id).consume e maxInt32 = (e', q', some f) ∧
      s.pop e = (e', P9218.mk s.control (upd s.qs id q')
                   (upd s.ring c (if c % 2 = 1 then post ++ pre ++ [id] else id :: (post ++ pre)))
                   s.prio (!s.toggle) s.bufId s.bufClass, .frame f) := by
  obtain ⟨_, _, hsend, _⟩ := firstClass_some h.found
  obtain ⟨e', q', f, hcons, _⟩ := pop_stream_spec (strict := True) (control := s.control) e (shift_none h.noctl) id hsend
  refine ⟨e', q', f, hcons, ?_⟩
  simp [P9218.pop, h.noctl, h.found, hcons]

/-- Conversely, a `Pop` that returns a stream frame (control queue empty) served some stream. -/
theorem served_of_pop {e e' : Env} {s s' : P9218} {f : Frame} (hn : s.control.shift = none)
    (h : s.pop e = (e', s', .frame f)) : ∃ c id pre post, Served e s c id pre post := by
  simp only [P9218.pop, hn] at h
  cases hfc : firstClass e s.qs s.ring (classOrder (!s.toggle)) with
  | none => simp [hfc] at h
  | some t => obtain ⟨c, pre, id, post⟩ := t; exact ⟨c, id, pre, post, hn, hfc⟩

theorem firstClass_before {e : Env} {qs : Nat → WQ} {ring : Nat → List Nat} {cs : List Nat}
    {c id : Nat} {pre post : List Nat} (h : firstClass e qs ring cs = some (c, pre, id, post)) :
    ∀ c' ∈ cs.takeWhile (· != c), ∀ x ∈ ring c', sendable e (qs x) = false := by
  induction cs with
  | nil => simp
  | cons c0 cs ih =>
    unfold firstClass at h
    split at h
    · rename_i pre' id' post' hsome
      simp at h
      obtain ⟨rfl, _, _, _⟩ := h
      simp [List.takeWhile]
    · rename_i hnone
      intro c' hc'
      by_cases h0 : c0 = c
      · subst h0; simp [List.takeWhile] at hc'
      · have : (c0 != c) = true := by simpa using h0
        simp only [List.takeWhile, this, List.mem_cons] at hc'
        rcases hc' with rfl | hc'
        · exact splitFirst_none hnone
        · exact ih h c' hc'

theorem order_urgency : ∀ t : Bool, ∀ c < 16, ∀ c' < 16, c' / 2 < c / 2 →
    c' ∈ (classOrder t).takeWhile (· != c) := by decide

theorem order_preferred_aux : ∀ t : Bool, ∀ c < 16, ∀ c' < 16,
    (c' / 2 == c / 2 && c' != c && (decide (c' % 2 = 1) == t)) = true →
    c' ∈ (classOrder t).takeWhile (· != c) := by decide

theorem order_preferred (t : Bool) (c : Nat) (hc : c < 16) (c' : Nat) (hc' : c' < 16) (h1 : c' / 2 = c / 2) (h2 : c' ≠ c)
    (h3 : decide (c' % 2 = 1) = t) : c' ∈ (classOrder t).takeWhile (· != c) := by
  apply order_preferred_aux t c hc c' hc'
  simp [h1, h2, h3]

theorem classOrder_lt : ∀ t : Bool, ∀ c ∈ classOrder t, c < 16 := by decide

/-- **Urgency.**  When `Pop` serves a stream of class `c`, no open stream of strictly smaller urgency
value (`c'/2 < c/2`) has a sendable frame. -/
theorem urgency_respected {e : Env} {s : P9218} {opn : Nat → Bool} {c id : Nat} {pre post : List Nat}
    (hi : P9Inv s opn) (h : Served e s c id pre post) (x c' : Nat) (hx : s.prio x = some c') (hlt : c' / 2 < c / 2) :
    sendable e (s.qs x) = false := by
  obtain ⟨hc', hmem⟩ := hi.cls x c' hx
  have hc : c < 16 := classOrder_lt _ c (firstClass_some h.found).1
  exact firstClass_before h.found c' (order_urgency _ c hc c' hc' hlt) x hmem

/-- **Alternation.**  `prioritizeIncremental` is flipped by every `Pop` that reaches the stream queues;
when a stream of class `c` is served while a stream of the other class of the same urgency is sendable,
`c` is the class whose turn it is (incremental iff the flipped `prioritizeIncremental` is set).  Hence with
both classes continuously sendable they are served alternately. -/
theorem alternation {e : Env} {s : P9218} {opn : Nat → Bool} {c id : Nat} {pre post : List Nat}
    (hi : P9Inv s opn) (h : Served e s c id pre post) (x c' : Nat) (hx : s.prio x = some c')
    (hu : c' / 2 = c / 2) (hne : c' ≠ c) (hs : sendable e (s.qs x) = true) :
    decide (c % 2 = 1) = !s.toggle := by
  obtain ⟨hc', hmem⟩ := hi.cls x c' hx
  have hc : c < 16 := classOrder_lt _ c (firstClass_some h.found).1
  cases hd : decide (c' % 2 = 1) == !s.toggle with
  | true =>
    have := firstClass_before h.found c' (order_preferred _ c hc c' hc' hu hne (by simpa using hd)) x hmem
    rw [this] at hs; cases hs
  | false =>
    have h1 : c' % 2 ≠ c % 2 := by omega
    cases ht : s.toggle <;> simp [ht] at hd ⊢ <;> omega

theorem toggle_flips {e e' : Env} {s s' : P9218} {r : Res} (hn : s.control.shift = none)
    (h : s.pop e = (e', s', r)) : s'.toggle = !s.toggle := by
  simp only [P9218.pop, hn] at h
  split at h
  · cases h; rfl
  · split at h <;> (cases h; rfl)

/-- A `Pop` that returns a control frame leaves `prioritizeIncremental` (and every ring) unchanged: control
traffic interleaved with stream frames does not disturb the alternation between the incremental and the
non-incremental class. -/
theorem control_pop_keeps_toggle {e : Env} {s : P9218} {f : Frame} {c : WQ} (h : s.control.shift = some (f, c)) :
    s.pop e = (e, { s with control := c }, .frame f) ∧ (s.pop e).2.1.toggle = s.toggle ∧
      (s.pop e).2.1.ring = s.ring := by
  have : s.pop e = (e, { s with control := c }, .frame f) := by simp [P9218.pop, h]
  rw [this]; exact ⟨rfl, rfl, rfl⟩

/-- **Non-incremental streams are served to completion.**  (1) After serving stream `id` of a
non-incremental class, `id` is the head of its ring; (2) a `Pop` that serves class `c` serves the ring's
head if the head is sendable.  So the same non-incremental stream is served by every `Pop` that reaches its
class until it has nothing sendable. -/
theorem noninc_becomes_head {e : Env} {s : P9218} {c id : Nat} {pre post : List Nat}
    (h : Served e s c id pre post) (hc : c % 2 = 0) : ((s.pop e).2.1.ring c).head? = some id := by
  obtain ⟨e', q', f, _, hp⟩ := pop_of_served h
  rw [hp]
  have : ¬ c % 2 = 1 := by omega
  simp [upd, this]

theorem head_served_first {e : Env} {s : P9218} {c id hd : Nat} {pre post tl : List Nat}
    (h : Served e s c id pre post) (hr : s.ring c = hd :: tl) (hs : sendable e (s.qs hd) = true) :
    id = hd ∧ pre = [] := by
  obtain ⟨_, hring, _, hpre⟩ := firstClass_some h.found
  rw [hr] at hring
  cases pre with
  | nil => simp at hring; exact ⟨hring.1.symm, rfl⟩
  | cons p pre' =>
    simp at hring
    have := hpre p (by simp)
    rw [← hring.1, hs] at this; cases this

/-! ### Incremental streams: bounded waiting -/

/-- Position of `x` in a ring (distance from the head). -/
def pos (x : Nat) : List Nat → Nat
  | [] => 0
  | y :: l => if y = x then 0 else pos x l + 1

theorem pos_append_mem {x : Nat} {l1 : List Nat} (l2 : List Nat) (h : x ∈ l1) : pos x (l1 ++ l2) = pos x l1 := by
  induction l1 with
  | nil => simp at h
  | cons y l ih =>
    simp only [List.cons_append, pos]
    split
    · rfl
    · rename_i hne
      simp only [List.mem_cons] at h
      rcases h with rfl | h
      · exact absurd rfl hne
      · rw [ih h]

theorem pos_append_not_mem {x : Nat} {l1 : List Nat} (l2 : List Nat) (h : x ∉ l1) :
    pos x (l1 ++ l2) = l1.length + pos x l2 := by
  induction l1 with
  | nil => simp
  | cons y l ih =>
    simp only [List.mem_cons, not_or] at h
    simp only [List.cons_append, pos, List.length_cons]
    have : ¬ y = x := fun hh => h.1 hh.symm
    simp only [this, if_false]
    rw [ih h.2]; omega

theorem pos_lt_length {x : Nat} {l : List Nat} (h : x ∈ l) : pos x l < l.length := by
  induction l with
  | nil => simp at h
  | cons y l ih =>
    simp only [pos, List.length_cons]
    split
    · omega
    · rename_i hne
      simp only [List.mem_cons] at h
      rcases h with rfl | h
      · exact absurd rfl hne
      · have := ih h; omega

/-- **Incremental streams are not starved.**  If a `Pop` serves stream `id` of an incremental class `c`
while another stream `x` of that class is sendable, `x` moves strictly closer to the head of the ring
(by `pre.length + 1`); its distance is always below the ring size, and a sendable head is served
(`head_served_first`).  So a continuously sendable incremental stream is served after at most
`(ring c).length - 1` Pops of its class that serve other streams. -/
theorem inc_moves_forward {e : Env} {s : P9218} {c id : Nat} {pre post : List Nat}
    (h : Served e s c id pre post) (hc : c % 2 = 1) (x : Nat) (hx : x ∈ s.ring c) (hne : x ≠ id)
    (hs : sendable e (s.qs x) = true) :
    pos x ((s.pop e).2.1.ring c) + pre.length + 1 = pos x (s.ring c) ∧ pos x (s.ring c) < (s.ring c).length := by
  obtain ⟨e', q', f, _, hp⟩ := pop_of_served h
  obtain ⟨_, hring, _, hpre⟩ := firstClass_some h.found
  refine ⟨?_, pos_lt_length hx⟩
  rw [hp]
  have hnp : x ∉ pre := by
    intro hm; have := hpre x hm; rw [hs] at this; cases this
  have hpost : x ∈ post := by
    rw [hring] at hx
    simp only [List.mem_append, List.mem_cons] at hx
    rcases hx with h1 | h1 | h1
    · exact absurd h1 hnp
    · exact absurd h1 hne
    · exact h1
  simp only [upd, hc, if_true]
  rw [hring, pos_append_not_mem _ hnp]
  simp only [pos]
  have : ¬ id = x := fun hh => hne hh.symm
  simp only [this, if_false]
  rw [List.append_assoc, pos_append_mem _ hpost]
  omega

/-- A `Pop` changes no ring other than the one it serves from (so waiting positions in other classes,
and in the same class while other classes are served, never get worse). -/
theorem pop_other_rings {e : Env} {s : P9218} {c id : Nat} {pre post : List Nat}
    (h : Served e s c id pre post) (c' : Nat) (hne : c' ≠ c) : (s.pop e).2.1.ring c' = s.ring c' := by
  obtain ⟨e', q', f, _, hp⟩ := pop_of_served h
  rw [hp]; simp [upd, hne]

/-- Opening a stream or re-prioritising another stream appends at the tail of a ring: positions of the
streams already waiting do not grow. -/
theorem open_keeps_pos (s : P9218) (id c x : Nat) (hn : s.prio id = none) (hb : id ≠ s.bufId) (c0 : Nat)
    (hx : x ∈ s.ring c0) : pos x ((s.openStream id c).1.ring c0) = pos x (s.ring c0) := by
  simp only [P9218.openStream, hn, hb, if_false]
  simp only [upd]
  split
  · rename_i heq; subst heq; exact pos_append_mem _ hx
  · rfl

/-- **Buffered PRIORITY_UPDATE.**  A priority update for a stream that is not open yet is applied when the
stream is opened (it overrides the priority passed to `OpenStream`). -/
theorem buffered_update_applied (s : P9218) (id c c2 : Nat) (hn : s.prio id = none) :
    let s1 := (s.adjustStream id c).1
    let s2 := (s1.openStream id c2).1
    s2.prio id = some c ∧ id ∈ s2.ring c ∧ s2.bufId = 0 := by
  simp [P9218.adjustStream, P9218.openStream, hn, upd]

/-- The full starvation-freedom statement over histories (bounded service of a continuously sendable
incremental stream), kept as a `Prop`: the one-step facts above (`inc_moves_forward`, `head_served_first`,
`pop_other_rings`, `open_keeps_pos`) are what is proved. -/
def BoundedServiceStatement : Prop :=
  ∀ (e : Env) (s : P9218) (opn : Nat → Bool) (c x : Nat), P9Inv s opn → c % 2 = 1 → x ∈ s.ring c →
    ∀ (c1 id : Nat) (pre post : List Nat), Served e s c1 id pre post → c1 = c → sendable e (s.qs x) = true →
      id = x ∨ pos x ((s.pop e).2.1.ring c) < pos x (s.ring c)

theorem bounded_service_step : BoundedServiceStatement := by
  intro e s opn c x _ hc hx c1 id pre post hsv hc1 hs
  subst hc1
  by_cases hxe : x = id
  · exact Or.inl hxe.symm
  · right
    have := (inc_moves_forward hsv hc x hx hxe hs).1
    omega

/-! ### Non-vacuity -/

def exEnv : Env := { maxFrame := 16384, connWin := 65535, win := fun _ => 65535 }

/-- three incremental streams of urgency 3 (class 7), one non-incremental of urgency 3 (class 6),
one of urgency 1 (class 2) -/
def exState : P9218 :=
  let s0 : P9218 := {}
  let s1 := (s0.openStream 1 7).1
  let s2 := (s1.openStream 3 7).1
  let s3 := (s2.openStream 5 7).1
  let s4 := (s3.openStream 7 6).1
  let s5 := (s4.openStream 9 2).1
  let s6 := (s5.push (.hdr 1 1)).1
  let s7 := (s6.push (.hdr 3 2)).1
  let s8 := (s7.push (.hdr 5 3)).1
  let s9 := (s8.push (.hdr 7 4)).1
  (s9.push (.hdr 9 5)).1

example : (exState.pop exEnv).2.2 = .frame (.hdr 9 5) := by decide
example : Served exEnv exState 2 9 [] [] := ⟨by decide, by decide⟩
example : ((exState.pop exEnv).2.1.pop exEnv).2.2 = .frame (.hdr 7 4) := by decide

/-! ## Multi-step theorems: consecutive `Pop`s

`iter n st` is the state after `n` consecutive `Pop`s (nothing else happens in between; the windows only
change by what the Pops themselves consume).  Hypotheses about "staying sendable" are stated per step. -/

/-- scheduler + flow-control state -/
abbrev St := Env × P9218

def popSt (st : St) : St := ((st.2.pop st.1).1, (st.2.pop st.1).2.1)

def iter : Nat → St → St
  | 0, st => st
  | n + 1, st => iter n (popSt st)

/-- the `j`-th Pop (counting from 0) serves stream `x` of class `c` -/
def ServesAt (st : St) (j c x : Nat) : Prop := ∃ pre post, Served (iter j st).1 (iter j st).2 c x pre post

/-- `x` is sendable before the `j`-th Pop -/
def SendableAt (st : St) (j x : Nat) : Prop := sendable (iter j st).1 ((iter j st).2.qs x) = true

/-- before the `j`-th Pop no stream of a class more urgent than `c` is sendable -/
def LowestAt (st : St) (j c : Nat) : Prop :=
  ∀ c', c' / 2 < c / 2 → ∀ y ∈ (iter j st).2.ring c', sendable (iter j st).1 ((iter j st).2.qs y) = false

theorem order_total : ∀ t : Bool, ∀ c < 16, ∀ c' < 16, c ≠ c' →
    c ∈ (classOrder t).takeWhile (· != c') ∨ c' ∈ (classOrder t).takeWhile (· != c) := by decide

theorem firstClass_ne_none {e : Env} {qs : Nat → WQ} {ring : Nat → List Nat} {cs : List Nat} {c x : Nat}
    (hc : c ∈ cs) (hx : x ∈ ring c) (hs : sendable e (qs x) = true) : firstClass e qs ring cs ≠ none := by
  intro h
  have := firstClass_none h c hc x hx
  rw [hs] at this; cases this

/-- With the control queue empty and some stream sendable, `Pop` serves some stream. -/
theorem served_exists {st : St} {c x : Nat} (hn : st.2.control.shift = none) (hc : c < 16) (hx : x ∈ st.2.ring c)
    (hs : sendable st.1 (st.2.qs x) = true) : ∃ c' id pre post, Served st.1 st.2 c' id pre post := by
  cases hf : firstClass st.1 st.2.qs st.2.ring (classOrder (!st.2.toggle)) with
  | none => exact absurd hf (firstClass_ne_none (classOrder_complete _ c hc) hx hs)
  | some t => obtain ⟨c', pre, id, post⟩ := t; exact ⟨c', id, pre, post, hn, hf⟩

/-- If `x` (class `c`) is sendable and nothing more urgent is, the served class has `c`'s urgency. -/
theorem served_same_urgency {st : St} {c x c' id : Nat} {pre post : List Nat} (hc : c < 16) (hx : x ∈ st.2.ring c)
    (hs : sendable st.1 (st.2.qs x) = true)
    (hlow : ∀ c'', c'' / 2 < c / 2 → ∀ y ∈ st.2.ring c'', sendable st.1 (st.2.qs y) = false)
    (h : Served st.1 st.2 c' id pre post) : c' / 2 = c / 2 := by
  obtain ⟨hmem, hring, hsend, _⟩ := firstClass_some h.found
  have hc' := classOrder_lt _ c' hmem
  apply Classical.byContradiction; intro hne
  rcases Nat.lt_or_gt_of_ne hne with hlt | hgt
  · have := hlow c' hlt id (by rw [hring]; simp)
    rw [hsend] at this; cases this
  · have := firstClass_before h.found c (order_urgency _ c' hc' c hc hgt) x hx
    rw [hs] at this; cases this

/-- ... and on the incremental class's turn it is class `c` itself (for incremental `c`). -/
theorem served_inc_turn {st : St} {c x c' id : Nat} {pre post : List Nat} (hc : c < 16) (hodd : c % 2 = 1)
    (hx : x ∈ st.2.ring c) (hs : sendable st.1 (st.2.qs x) = true)
    (hlow : ∀ c'', c'' / 2 < c / 2 → ∀ y ∈ st.2.ring c'', sendable st.1 (st.2.qs y) = false)
    (ht : st.2.toggle = false) (h : Served st.1 st.2 c' id pre post) : c' = c := by
  have hu := served_same_urgency hc hx hs hlow h
  have hc' := classOrder_lt _ c' (firstClass_some h.found).1
  apply Classical.byContradiction; intro hne
  have := firstClass_before h.found c
    (order_preferred _ c' hc' c hc hu.symm (fun hh => hne hh.symm) (by simp [ht, hodd])) x hx
  rw [hs] at this; cases this

theorem mem_ring_pop {e : Env} {s : P9218} {c' id : Nat} {pre post : List Nat} (h : Served e s c' id pre post)
    (c x : Nat) : x ∈ (s.pop e).2.1.ring c ↔ x ∈ s.ring c := by
  obtain ⟨e', q', f, _, hp⟩ := pop_of_served h
  obtain ⟨_, hring, _, _⟩ := firstClass_some h.found
  rw [hp]
  simp only [upd]
  split
  · rename_i heq; subst heq
    rw [hring]
    split <;> simp only [List.mem_append, List.mem_cons, List.mem_singleton] <;> grind
  · rfl

theorem control_pop {e : Env} {s : P9218} {c' id : Nat} {pre post : List Nat} (h : Served e s c' id pre post) :
    (s.pop e).2.1.control = s.control ∧ (s.pop e).2.1.toggle = !s.toggle := by
  obtain ⟨e', q', f, _, hp⟩ := pop_of_served h
  rw [hp]; exact ⟨rfl, rfl⟩

/-- potential: twice the distance of `x` from the head of its ring, plus one if the next Pop is the
non-incremental class's turn -/
def phi (c x : Nat) (s : P9218) : Nat := 2 * pos x (s.ring c) + (if s.toggle then 1 else 0)

/-- One Pop that does not serve `x` lowers the potential. -/
theorem phi_step {st : St} {c x : Nat} (hc : c < 16) (hodd : c % 2 = 1) (hn : st.2.control.shift = none)
    (hx : x ∈ st.2.ring c) (hs : sendable st.1 (st.2.qs x) = true)
    (hlow : ∀ c'', c'' / 2 < c / 2 → ∀ y ∈ st.2.ring c'', sendable st.1 (st.2.qs y) = false)
    (hnot : ¬ ∃ pre post, Served st.1 st.2 c x pre post) :
    phi c x (popSt st).2 + 1 ≤ phi c x st.2 ∧ (popSt st).2.control.shift = none ∧ x ∈ (popSt st).2.ring c := by
  obtain ⟨c', id, pre, post, hsv⟩ := served_exists hn hc hx hs
  obtain ⟨hctl, htog⟩ := control_pop hsv
  have hmem := (mem_ring_pop hsv c x).2 hx
  refine ⟨?_, by simp only [popSt]; rw [hctl]; exact hn, hmem⟩
  simp only [phi, popSt, htog]
  have hposle : pos x ((st.2.pop st.1).2.1.ring c) ≤ pos x (st.2.ring c) ∧
      (c' = c → pos x ((st.2.pop st.1).2.1.ring c) + 1 ≤ pos x (st.2.ring c)) := by
    by_cases hcc : c' = c
    · subst hcc
      have hid : x ≠ id := by intro hh; subst hh; exact hnot ⟨pre, post, hsv⟩
      have := (inc_moves_forward hsv hodd x hx hid hs).1
      exact ⟨by omega, fun _ => by omega⟩
    · rw [pop_other_rings hsv c (fun hh => hcc hh.symm)]
      exact ⟨Nat.le_refl _, fun hh => absurd hh hcc⟩
  cases ht : st.2.toggle with
  | false =>
    have := served_inc_turn hc hodd hx hs hlow ht hsv
    have := hposle.2 this
    simp; omega
  | true =>
    have := hposle.1
    simp; omega

/-- **Bounded service, k-step form.**  Let `x` be a stream of the incremental class `c`.  Over `n`
consecutive Pops during which the control queue is empty, `x` stays sendable and no more urgent class has a
sendable stream: if none of the `n` Pops serves `x`, the potential `phi` has dropped by at least `n`. -/
theorem inc_potential (c x : Nat) (hc : c < 16) (hodd : c % 2 = 1) : ∀ (n : Nat) (st : St),
    st.2.control.shift = none → x ∈ st.2.ring c →
    (∀ j, j < n → SendableAt st j x) → (∀ j, j < n → LowestAt st j c) → (∀ j, j < n → ¬ ServesAt st j c x) →
    n + phi c x (iter n st).2 ≤ phi c x st.2 := by
  intro n
  induction n with
  | zero => intro st _ _ _ _ _; simp [iter]
  | succ k ih =>
    intro st hn hx hs hl hnot
    obtain ⟨h1, h2, h3⟩ := phi_step (st := st) hc hodd hn hx (hs 0 (by omega)) (hl 0 (by omega)) (hnot 0 (by omega))
    have := ih (popSt st) h2 h3 (fun j hj => hs (j + 1) (by omega)) (fun j hj => hl (j + 1) (by omega))
      (fun j hj => hnot (j + 1) (by omega))
    simp only [iter]
    omega

/-- **Each sendable incremental stream is served within a bounded number of Pops.**  If the ring of the
incremental class `c` holds `k` streams, `c` is at the lowest sendable urgency and stream `x` of that ring
stays sendable, then one of any `2 * k` consecutive Pops serves `x` (`k` Pops of the class itself; the
factor 2 is the alternation with the non-incremental class of the same urgency). -/
theorem inc_served_within_2k (c x : Nat) (hc : c < 16) (hodd : c % 2 = 1) (st : St)
    (hn : st.2.control.shift = none) (hx : x ∈ st.2.ring c)
    (hs : ∀ j, j < 2 * (st.2.ring c).length → SendableAt st j x)
    (hl : ∀ j, j < 2 * (st.2.ring c).length → LowestAt st j c) :
    ∃ j, j < 2 * (st.2.ring c).length ∧ ServesAt st j c x := by
  apply Classical.byContradiction; intro hno
  have hnot : ∀ j, j < 2 * (st.2.ring c).length → ¬ ServesAt st j c x := fun j hj hh => hno ⟨j, hj, hh⟩
  have h := inc_potential c x hc hodd _ st hn hx hs hl hnot
  have hp := pos_lt_length hx
  have : phi c x st.2 ≤ 2 * pos x (st.2.ring c) + 1 := by
    simp only [phi]; split <;> omega
  omega

/-- **A non-incremental stream is served until it has nothing sendable.**  Once stream `x` of the
non-incremental class `c` is at the head of its ring (it is after being served: `noninc_becomes_head`),
then over any number of consecutive Pops during which `x` stays sendable, every Pop that serves class `c`
serves `x`, and `x` stays at the head. -/
theorem noninc_served_until (c x : Nat) (hev : c % 2 = 0) : ∀ (n : Nat) (st : St),
    st.2.control.shift = none → (st.2.ring c).head? = some x → (∀ j, j < n → SendableAt st j x) →
    (∀ j id, j < n → ServesAt st j c id → id = x) ∧ ((iter n st).2.ring c).head? = some x := by
  intro n
  induction n with
  | zero => intro st _ hh _; exact ⟨fun j id hj => absurd hj (by omega), hh⟩
  | succ k ih =>
    intro st hn hh hs
    have hs0 : sendable st.1 (st.2.qs x) = true := hs 0 (by omega)
    obtain ⟨tl, hring⟩ : ∃ tl, st.2.ring c = x :: tl := by
      cases hr : st.2.ring c with
      | nil => rw [hr] at hh; cases hh
      | cons a tl => rw [hr] at hh; simp at hh; subst hh; exact ⟨tl, rfl⟩
    have hx : x ∈ st.2.ring c := by rw [hring]; simp
    -- the first Pop
    have hfirst : (∀ id, ServesAt st 0 c id → id = x) ∧ (popSt st).2.control.shift = none ∧
        ((popSt st).2.ring c).head? = some x := by
      cases hf : firstClass st.1 st.2.qs st.2.ring (classOrder (!st.2.toggle)) with
      | none =>
        refine ⟨?_, ?_, ?_⟩
        · rintro id ⟨pre, post, hsv⟩; have := hsv.found; simp only [iter] at this; rw [hf] at this; cases this
        · simp [popSt, P9218.pop, hn, hf]
        · simp [popSt, P9218.pop, hn, hf, hh]
      | some t =>
        obtain ⟨c', pre, id, post⟩ := t
        have hsv : Served st.1 st.2 c' id pre post := ⟨hn, hf⟩
        obtain ⟨hctl, _⟩ := control_pop hsv
        refine ⟨?_, by simp only [popSt]; rw [hctl]; exact hn, ?_⟩
        · rintro id2 ⟨pre2, post2, hsv2⟩
          exact (head_served_first hsv2 hring hs0).1
        · by_cases hcc : c' = c
          · subst hcc
            have := (head_served_first hsv hring hs0).1
            subst this
            simp only [popSt]
            exact noninc_becomes_head hsv hev
          · simp only [popSt]
            rw [pop_other_rings hsv c (fun h => hcc h.symm)]; exact hh
    obtain ⟨f1, f2, f3⟩ := hfirst
    obtain ⟨g1, g2⟩ := ih (popSt st) f2 f3 (fun j hj => hs (j + 1) (by omega))
    refine ⟨?_, by simpa [iter] using g2⟩
    intro j id hj hsv
    cases j with
    | zero => exact f1 id hsv
    | succ j' => exact g1 j' id (by omega) hsv

/-! ### Non-vacuity of the multi-step theorems: three incremental streams of urgency 3 with two frames
each; stream 5 is last in the ring (k = 3) and is served by the third Pop (index 2 < 2 * 3). -/

def exInc : P9218 :=
  let s0 : P9218 := {}
  let s1 := (s0.openStream 1 7).1
  let s2 := (s1.openStream 3 7).1
  let s3 := (s2.openStream 5 7).1
  let s4 := (s3.push (.hdr 1 1)).1
  let s5 := (s4.push (.hdr 3 2)).1
  let s6 := (s5.push (.hdr 5 3)).1
  let s7 := (s6.push (.hdr 1 4)).1
  let s8 := (s7.push (.hdr 3 5)).1
  (s8.push (.hdr 5 6)).1

example : exInc.ring 7 = [1, 3, 5] ∧ exInc.control.shift = none := by decide
example : ((List.range 6).map fun j => ((iter j (exEnv, exInc)).2.pop exEnv).2.2) =
    [.frame (.hdr 1 1), .frame (.hdr 3 2), .frame (.hdr 5 3), .frame (.hdr 1 4), .frame (.hdr 3 5), .frame (.hdr 5 6)] := by
  decide
example : ServesAt (exEnv, exInc) 2 7 5 := ⟨[], [1, 3], by decide, by decide⟩
example : ∀ j, j < 3 → SendableAt (exEnv, exInc) j 5 := by
  simp only [SendableAt]; decide

/-! ## `parseRFC9218Priority` always yields a valid priority class

The scheduler indexes `heads[urgency][incremental]` (an `[8][2]` array) with the parsed priority; the
theorems above assume `urgency ≤ 7`, `incremental ≤ 1`.  On the model of `parseRFC9218Priority` over the
C56 model of `httpsfv.ParseDictionary` this holds for every input string. -/

open NetVerif.Model.RFC9218Priority in
theorem applyMember_range (p : Nat × Nat) (cb : List Nat × List Nat × List Nat) (h : p.1 ≤ 7 ∧ p.2 ≤ 1) :
    (applyMember p cb).1 ≤ 7 ∧ (applyMember p cb).2 ≤ 1 := by
  unfold applyMember
  split
  · split
    · split
      · rename_i u _ hu; exact ⟨by simp only; omega, h.2⟩
      · exact h
    · exact h
  · split
    · split
      · rename_i b _; exact ⟨h.1, by cases b <;> simp⟩
      · exact h
    · exact h

open NetVerif.Model.RFC9218Priority in
/-- **For every field value and both defaults the parsed priority lies in `[0,7] × {0,1}`**, and a field
that does not parse as a dictionary yields the default. -/
theorem parsePriority_range (s : List Nat) (cud : Bool) :
    (parsePriority s cud).1.1 ≤ 7 ∧ (parsePriority s cud).1.2 ≤ 1 ∧
      ((parsePriority s cud).2 = false → (parsePriority s cud).1 = defaultPrio cud) := by
  have hd : (defaultPrio cud).1 ≤ 7 ∧ (defaultPrio cud).2 ≤ 1 := by cases cud <;> decide
  have hfold : ∀ (l : List (List Nat × List Nat × List Nat)) (p : Nat × Nat), p.1 ≤ 7 ∧ p.2 ≤ 1 →
      (l.foldl applyMember p).1 ≤ 7 ∧ (l.foldl applyMember p).2 ≤ 1 := by
    intro l
    induction l with
    | nil => intro p h; exact h
    | cons cb l ih => intro p h; exact ih _ (applyMember_range p cb h)
  unfold parsePriority
  split
  · exact ⟨hd.1, hd.2, fun _ => rfl⟩
  · rename_i cbs _
    obtain ⟨h1, h2⟩ := hfold cbs _ hd
    exact ⟨h1, h2, fun h => by cases h⟩

/-- the class index `2*urgency + incremental` handed to the scheduler is below 16 -/
theorem parsePriority_class_lt (s : List Nat) (cud : Bool) :
    2 * (NetVerif.Model.RFC9218Priority.parsePriority s cud).1.1 +
      (NetVerif.Model.RFC9218Priority.parsePriority s cud).1.2 < 16 := by
  obtain ⟨h1, h2, _⟩ := parsePriority_range s cud
  omega

-- "u=-1" is ignored (urgency stays the default 3); "u=7, i"; a duplicated key (last one wins)
example : NetVerif.Model.RFC9218Priority.parsePriority [117, 61, 45, 49] true = ((3, 0), true) := by decide
example : NetVerif.Model.RFC9218Priority.parsePriority [117, 61, 55, 44, 32, 105] true = ((7, 1), true) := by decide
example : NetVerif.Model.RFC9218Priority.parsePriority [117, 61, 49, 44, 32, 117, 61, 53] false = ((5, 1), true) := by decide

/-! ## Level fairness: the full statement is FALSE for the code as it is (known finding
`p9218-alternation-global-parity`)

"Among sendable streams of equal urgency no stream is starved", read on the Pops answered from ONE urgency
level: while both classes of the level are sendable, two consecutive Pops answered from that level must not
serve the same class.  The scheduler alternates with a single global bit that every Pop reaching the stream
queues flips, also Pops answered from a more urgent level; such Pops can lock the parity. -/

/-- Monitor over a history: `streak b` counts the consecutive Pops answered from `b`'s urgency level that
served the sibling class while class `b` had a sendable stream.  `true` = some streak reached 2. -/
def altViolates (e : Env) (s : P9218) (streak : Nat → Nat) : List Op → Bool
  | [] => false
  | .pop h :: ops =>
    match s.control.shift with
    | some _ => altViolates (s.pop e).1 (s.pop e).2.1 streak ops
    | none =>
      match firstClass e s.qs s.ring (classOrder (!s.toggle)) with
      | none => altViolates (s.pop e).1 (s.pop e).2.1 streak ops
      | some (c, _, _, _) =>
        let other := if c % 2 = 1 then c - 1 else c + 1
        let so := if (s.ring other).any (fun y => sendable e (s.qs y)) then streak other + 1 else 0
        if so ≥ 2 then true
        else altViolates (s.pop e).1 (s.pop e).2.1 (upd (upd streak other so) c 0) ops
  | op :: ops => altViolates ((Sched.p9 s).step e op).1
      (match ((Sched.p9 s).step e op).2.1 with | .p9 s' => s' | _ => s) streak ops

/-- **Full level-fairness statement** (all contract-respecting histories). -/
def LevelFairStatement : Prop :=
  ∀ (e : Env) (ops : List Op), Contract (fun _ => false) ops → altViolates e {} (fun _ => 0) ops = false

/-- The reported input: stream 1 (u=0), stream 3 (u=3, non-incremental), stream 5 (u=3, incremental), 3 and 5
with frames queued; one frame is pushed on stream 1 before every second Pop.  Every Pop answered from
urgency 3 serves stream 3. -/
def parityWitness : List Op :=
  [.openS 1 0 0, .openS 3 0 6, .openS 5 0 7,
   .push (.hdr 3 1), .push (.hdr 5 2), .push (.hdr 3 3), .push (.hdr 5 4), .push (.hdr 3 5), .push (.hdr 5 6),
   .push (.hdr 1 7), .pop none, .pop none, .push (.hdr 1 8), .pop none, .pop none]

theorem parityWitness_contract : Contract (fun _ => false) parityWitness := by
  simp [parityWitness, Contract, OpOK, opnOp, pushOK, upd]

theorem parityWitness_results : ((Sched.p9 {}).run exEnv parityWitness).2.2.drop 9 =
    [.ok, .frame (.hdr 1 7), .frame (.hdr 3 1), .ok, .frame (.hdr 1 8), .frame (.hdr 3 3)] := by decide

/-- **The full statement is false for the code as it is.** -/
theorem level_fair_full_false : ¬ LevelFairStatement := by
  intro h
  have := h exEnv parityWitness parityWitness_contract
  revert this
  decide

/-- **What holds** (excluded region: a Pop answered from another urgency level, or by nothing, between the two
Pops): two CONSECUTIVE Pops that both reach the stream queues and both serve the same urgency level while
a stream of the respective other class is sendable serve different classes. -/
theorem level_alternation_partial {e1 e2 : Env} {s : P9218} {opn : Nat → Bool} {c1 id1 c2 id2 : Nat}
    {pre1 post1 pre2 post2 : List Nat} (hi : P9Inv s opn) (hi2 : P9Inv (s.pop e1).2.1 opn)
    (h1 : Served e1 s c1 id1 pre1 post1) (h2 : Served e2 (s.pop e1).2.1 c2 id2 pre2 post2)
    (x1 d1 : Nat) (hx1 : s.prio x1 = some d1) (hu1 : d1 / 2 = c1 / 2) (hn1 : d1 ≠ c1)
    (hs1 : sendable e1 (s.qs x1) = true)
    (x2 d2 : Nat) (hx2 : (s.pop e1).2.1.prio x2 = some d2) (hu2 : d2 / 2 = c2 / 2) (hn2 : d2 ≠ c2)
    (hs2 : sendable e2 ((s.pop e1).2.1.qs x2) = true) :
    c1 % 2 ≠ c2 % 2 := by
  have a1 := alternation hi h1 x1 d1 hx1 hu1 hn1 hs1
  have a2 := alternation hi2 h2 x2 d2 hx2 hu2 hn2 hs2
  have ht := (control_pop h1).2
  rw [ht] at a2
  intro heq
  rw [heq] at a1
  rw [a1] at a2
  cases hb : s.toggle <;> simp [hb] at a2

end NetVerif.Proofs.C13
