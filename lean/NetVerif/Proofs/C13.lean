import NetVerif.Proofs.C12
import NetVerif.Model.RFC9218Priority
/-!
# C13 — the RFC 9218 scheduler respects urgency and serves every ready stream

All statements are about `P9218.pop` of `NetVerif.Model.WriteSched` on states satisfying the
representation invariant `P9Inv` (every state reachable by a contract-respecting history does:
`reachable_inv`).  A priority class is `c = 2*urgency + incremental`.
-/
namespace NetVerif.Proofs.C13
open NetVerif.Model.WriteSched NetVerif.Proofs.WriteSchedLemmas NetVerif.Proofs.WriteSchedSpec
  NetVerif.Proofs.WriteSchedRefine NetVerif.Proofs.C12

/-- Every state reached by a contract-respecting history satisfies the representation invariant
(for the set of streams open at that point). -/
theorem reachable_inv (ops : List Op) : ∀ (s : Sched) (opn : Nat → Bool) (e : Env),
    InvS opn s → AbsWF (absS s) opn → Contract opn ops →
    ∃ opn', InvS opn' (s.run e ops).2.1 ∧ AbsWF (absS (s.run e ops).2.1) opn' := by
  induction ops with
  | nil => intro s opn e hi hwf _; exact ⟨opn, hi, hwf⟩
  | cons op ops ih =>
    intro s opn e hi hwf hc
    obtain ⟨hok, hc'⟩ := hc
    obtain ⟨hstep, hi'⟩ := step_refines e hi hwf hok
    have hl : LedgerOK (absS s) ⟨fun id => flatToks ((absS s).q id), fun _ => [], fun _ => []⟩ := by
      intro id; simp
    obtain ⟨hwf', _, _, _⟩ := step_preserves hwf hl hok hstep
    obtain ⟨opn', h1, h2⟩ := ih (s.step e op).2.1 (opnOp opn op) (s.step e op).1 hi' hwf' hc'
    exact ⟨opn', by simpa [Sched.run] using h1, by simpa [Sched.run] using h2⟩

/-- The outcome of a `Pop` that reaches the stream queues and serves stream `id` of class `c`. -/
structure Served (e : Env) (s : P9218) (c id : Nat) (pre post : List Nat) : Prop where
  noctl : s.control.shift = none
  found : firstClass e s.qs s.ring (classOrder s.pref) = some (c, pre, id, post)

theorem pop_of_served {e : Env} {s : P9218} {c id : Nat} {pre post : List Nat} (h : Served e s c id pre post) :
    ∃ e' q' f, (s.qs id).consume e maxInt32 = (e', q', some f) ∧
      s.pop e = (e', P9218.mk s.control (upd s.qs id q')
                   (upd s.ring c (if c % 2 = 1 then post ++ pre ++ [id] else id :: (post ++ pre)))
                   s.prio (upd s.pref (c / 2) (c % 2 == 0)) s.bufId s.bufClass, .frame f) := by
  obtain ⟨_, _, hsend, _⟩ := firstClass_some h.found
  obtain ⟨e', q', f, hcons, _⟩ := pop_stream_spec (strict := True) (control := s.control) e (shift_none h.noctl) id hsend
  refine ⟨e', q', f, hcons, ?_⟩
  simp [P9218.pop, h.noctl, h.found, hcons]

/-- Conversely, a `Pop` that returns a stream frame (control queue empty) served some stream. -/
theorem served_of_pop {e e' : Env} {s s' : P9218} {f : Frame} (hn : s.control.shift = none)
    (h : s.pop e = (e', s', .frame f)) : ∃ c id pre post, Served e s c id pre post := by
  simp only [P9218.pop, hn] at h
  cases hfc : firstClass e s.qs s.ring (classOrder s.pref) with
  | none => simp [hfc] at h
  | some t => obtain ⟨c, pre, id, post⟩ := t; exact ⟨c, id, pre, post, hn, hfc⟩

theorem firstClass_before {e : Env} {qs : Nat → WQ} {ring : Nat → List Nat} {cs : List Nat}
    {c id : Nat} {pre post : List Nat} (h : firstClass e qs ring cs = some (c, pre, id, post)) :
    ∀ c' ∈ cs.takeWhile (· != c), ∀ x ∈ ring c', sendable e (qs x) = false := by
  induction cs with
  | nil => simp
  | cons c0 cs ih =>
    unfold firstClass at h
    split at h
    · rename_i pre' id' post' hsome
      simp at h
      obtain ⟨rfl, _, _, _⟩ := h
      simp [List.takeWhile]
    · rename_i hnone
      intro c' hc'
      by_cases h0 : c0 = c
      · subst h0; simp [List.takeWhile] at hc'
      · have : (c0 != c) = true := by simpa using h0
        simp only [List.takeWhile, this, List.mem_cons] at hc'
        rcases hc' with rfl | hc'
        · exact splitFirst_none hnone
        · exact ih h c' hc'

/-- the two classes of urgency level `u`, in the order `Pop` tries them -/
def pairOf (pref : Nat → Bool) (u : Nat) : List Nat := if pref u then [2 * u + 1, 2 * u] else [2 * u, 2 * u + 1]

theorem classOrder_eq (pref : Nat → Bool) : classOrder pref = (List.range' 0 8).flatMap (pairOf pref) := by
  simp only [classOrder, List.range_eq_range']; rfl

/-- `firstClass` over consecutive urgency levels `a, a+1, …`: the class found is the first one, in visiting
order, that holds a sendable stream. -/
theorem firstClass_levels {e : Env} {qs : Nat → WQ} {ring : Nat → List Nat} {pref : Nat → Bool} (n : Nat) :
    ∀ (a : Nat) {c id : Nat} {pre post : List Nat},
    firstClass e qs ring ((List.range' a n).flatMap (pairOf pref)) = some (c, pre, id, post) →
    a ≤ c / 2 ∧ c / 2 < a + n ∧
    (∀ c', a ≤ c' / 2 → c' / 2 < c / 2 → ∀ y ∈ ring c', sendable e (qs y) = false) ∧
    (∀ c', c' / 2 = c / 2 → c' ≠ c → decide (c' % 2 = 1) = pref (c / 2) → ∀ y ∈ ring c', sendable e (qs y) = false) := by
  induction n with
  | zero => intro a c id pre post h; simp [firstClass] at h
  | succ n ih =>
    intro a c id pre post h
    rw [List.range'_succ, List.flatMap_cons] at h
    -- the two classes of level `a`
    have hp : ∃ x y, pairOf pref a = [x, y] ∧ x / 2 = a ∧ y / 2 = a ∧ x ≠ y ∧
        decide (x % 2 = 1) = pref a ∧ decide (y % 2 = 1) = !pref a := by
      unfold pairOf
      cases pref a
      · exact ⟨2 * a, 2 * a + 1, by simp, by omega, by omega, by omega, by simp <;> omega, by simp <;> omega⟩
      · exact ⟨2 * a + 1, 2 * a, by simp, by omega, by omega, by omega, by simp <;> omega, by simp <;> omega⟩
    obtain ⟨x, y, hxy, hx2, hy2, hne, hxp, hyp⟩ := hp
    rw [hxy] at h
    simp only [List.cons_append, List.nil_append] at h
    have two : ∀ c', c' / 2 = a → c' = x ∨ c' = y := by
      intro c' hc'
      have hx' : x % 2 ≠ y % 2 := by
        intro hh
        have : decide (x % 2 = 1) = decide (y % 2 = 1) := by rw [hh]
        rw [hxp, hyp] at this; cases hb : pref a <;> simp [hb] at this
      omega
    unfold firstClass at h
    split at h
    · -- served from x, the preferred class of level a
      rename_i pre' id' post' hsome
      simp at h
      obtain ⟨rfl, _, _, _⟩ := h
      refine ⟨by omega, by omega, fun c' h1 h2 => by omega, ?_⟩
      intro c' h1 h2 h3
      rcases two c' (by omega) with rfl | rfl
      · exact absurd rfl h2
      · rw [hx2] at h3; rw [hyp] at h3; cases hb : pref a <;> simp [hb] at h3
    · rename_i hnx
      unfold firstClass at h
      split at h
      · rename_i pre' id' post' hsome
        simp at h
        obtain ⟨rfl, _, _, _⟩ := h
        refine ⟨by omega, by omega, fun c' h1 h2 => by omega, ?_⟩
        intro c' h1 h2 h3
        rcases two c' (by omega) with rfl | rfl
        · exact splitFirst_none hnx
        · exact absurd rfl h2
      · rename_i hny
        obtain ⟨i1, i2, i3, i4⟩ := ih (a + 1) h
        refine ⟨by omega, by omega, ?_, i4⟩
        intro c' h1 h2
        by_cases hca : c' / 2 = a
        · rcases two c' hca with rfl | rfl
          · exact splitFirst_none hnx
          · exact splitFirst_none hny
        · exact i3 c' (by omega) h2

/-- The class `Pop` serves is the first sendable one in visiting order: nothing more urgent is sendable, and
if it is not the preferred class of its level then the preferred class has nothing sendable. -/
theorem served_order {e : Env} {s : P9218} {c id : Nat} {pre post : List Nat} (h : Served e s c id pre post) :
    c < 16 ∧ (∀ c', c' / 2 < c / 2 → ∀ y ∈ s.ring c', sendable e (s.qs y) = false) ∧
    (∀ c', c' / 2 = c / 2 → c' ≠ c → decide (c' % 2 = 1) = s.pref (c / 2) →
      ∀ y ∈ s.ring c', sendable e (s.qs y) = false) := by
  have hf := h.found
  rw [classOrder_eq] at hf
  obtain ⟨_, h2, h3, h4⟩ := firstClass_levels 8 0 hf
  exact ⟨by omega, fun c' hlt => h3 c' (by omega) hlt, h4⟩

/-- **Urgency.**  When `Pop` serves a stream of class `c`, no open stream of strictly smaller urgency
value (`c'/2 < c/2`) has a sendable frame. -/
theorem urgency_respected {e : Env} {s : P9218} {opn : Nat → Bool} {c id : Nat} {pre post : List Nat}
    (hi : P9Inv s opn) (h : Served e s c id pre post) (x c' : Nat) (hx : s.prio x = some c') (hlt : c' / 2 < c / 2) :
    sendable e (s.qs x) = false := by
  obtain ⟨_, hmem⟩ := hi.cls x c' hx
  exact (served_order h).2.1 c' hlt x hmem

/-- **Alternation.**  When a stream of class `c` is served while a stream of the other class of the same
urgency is sendable, `c` is the class whose turn it is at that urgency level
(incremental iff `prioritizeIncremental[u]` is set). -/
theorem alternation {e : Env} {s : P9218} {opn : Nat → Bool} {c id : Nat} {pre post : List Nat}
    (hi : P9Inv s opn) (h : Served e s c id pre post) (x c' : Nat) (hx : s.prio x = some c')
    (hu : c' / 2 = c / 2) (hne : c' ≠ c) (hs : sendable e (s.qs x) = true) :
    decide (c % 2 = 1) = s.pref (c / 2) := by
  obtain ⟨_, hmem⟩ := hi.cls x c' hx
  cases hd : decide (c' % 2 = 1) == s.pref (c / 2) with
  | true =>
    have := (served_order h).2.2 c' hu hne (by simpa using hd) x hmem
    rw [this] at hs; cases hs
  | false =>
    have h1 : c' % 2 ≠ c % 2 := by omega
    cases ht : s.pref (c / 2) <;> simp [ht] at hd ⊢ <;> omega

/-- **The alternation state is per urgency level and changes only when that level is served**: a `Pop` that
serves class `c` sets `prioritizeIncremental[c/2]` to "the other class next" and leaves all other levels alone;
a `Pop` that returns nothing changes nothing. -/
theorem toggle_flips {e : Env} {s : P9218} {c id : Nat} {pre post : List Nat} (h : Served e s c id pre post) :
    (s.pop e).2.1.pref = upd s.pref (c / 2) (c % 2 == 0) := by
  obtain ⟨e', q', f, _, hp⟩ := pop_of_served h
  rw [hp]

theorem pop_none_unchanged {e : Env} {s : P9218} (hn : s.control.shift = none)
    (hf : firstClass e s.qs s.ring (classOrder s.pref) = none) : s.pop e = (e, s, .none) := by
  simp [P9218.pop, hn, hf]

/-- A `Pop` that returns a control frame leaves the alternation state and every ring unchanged. -/
theorem control_pop_keeps_toggle {e : Env} {s : P9218} {f : Frame} {c : WQ} (h : s.control.shift = some (f, c)) :
    s.pop e = (e, { s with control := c }, .frame f) ∧ (s.pop e).2.1.pref = s.pref ∧
      (s.pop e).2.1.ring = s.ring := by
  have : s.pop e = (e, { s with control := c }, .frame f) := by simp [P9218.pop, h]
  rw [this]; exact ⟨rfl, rfl, rfl⟩

/-- **Non-incremental streams are served to completion.**  (1) After serving stream `id` of a
non-incremental class, `id` is the head of its ring; (2) a `Pop` that serves class `c` serves the ring's
head if the head is sendable.  So the same non-incremental stream is served by every `Pop` that reaches its
class until it has nothing sendable. -/
theorem noninc_becomes_head {e : Env} {s : P9218} {c id : Nat} {pre post : List Nat}
    (h : Served e s c id pre post) (hc : c % 2 = 0) : ((s.pop e).2.1.ring c).head? = some id := by
  obtain ⟨e', q', f, _, hp⟩ := pop_of_served h
  rw [hp]
  have : ¬ c % 2 = 1 := by omega
  simp [upd, this]

theorem head_served_first {e : Env} {s : P9218} {c id hd : Nat} {pre post tl : List Nat}
    (h : Served e s c id pre post) (hr : s.ring c = hd :: tl) (hs : sendable e (s.qs hd) = true) :
    id = hd ∧ pre = [] := by
  obtain ⟨_, hring, _, hpre⟩ := firstClass_some h.found
  rw [hr] at hring
  cases pre with
  | nil => simp at hring; exact ⟨hring.1.symm, rfl⟩
  | cons p pre' =>
    simp at hring
    have := hpre p (by simp)
    rw [← hring.1, hs] at this; cases this

/-! ### Incremental streams: bounded waiting -/

/-- Position of `x` in a ring (distance from the head). -/
def pos (x : Nat) : List Nat → Nat
  | [] => 0
  | y :: l => if y = x then 0 else pos x l + 1

theorem pos_append_mem {x : Nat} {l1 : List Nat} (l2 : List Nat) (h : x ∈ l1) : pos x (l1 ++ l2) = pos x l1 := by
  induction l1 with
  | nil => simp at h
  | cons y l ih =>
    simp only [List.cons_append, pos]
    split
    · rfl
    · rename_i hne
      simp only [List.mem_cons] at h
      rcases h with rfl | h
      · exact absurd rfl hne
      · rw [ih h]

theorem pos_append_not_mem {x : Nat} {l1 : List Nat} (l2 : List Nat) (h : x ∉ l1) :
    pos x (l1 ++ l2) = l1.length + pos x l2 := by
  induction l1 with
  | nil => simp
  | cons y l ih =>
    simp only [List.mem_cons, not_or] at h
    simp only [List.cons_append, pos, List.length_cons]
    have : ¬ y = x := fun hh => h.1 hh.symm
    simp only [this, if_false]
    rw [ih h.2]; omega

theorem pos_lt_length {x : Nat} {l : List Nat} (h : x ∈ l) : pos x l < l.length := by
  induction l with
  | nil => simp at h
  | cons y l ih =>
    simp only [pos, List.length_cons]
    split
    · omega
    · rename_i hne
      simp only [List.mem_cons] at h
      rcases h with rfl | h
      · exact absurd rfl hne
      · have := ih h; omega

/-- **Incremental streams are not starved.**  If a `Pop` serves stream `id` of an incremental class `c`
while another stream `x` of that class is sendable, `x` moves strictly closer to the head of the ring
(by `pre.length + 1`); its distance is always below the ring size, and a sendable head is served
(`head_served_first`).  So a continuously sendable incremental stream is served after at most
`(ring c).length - 1` Pops of its class that serve other streams. -/
theorem inc_moves_forward {e : Env} {s : P9218} {c id : Nat} {pre post : List Nat}
    (h : Served e s c id pre post) (hc : c % 2 = 1) (x : Nat) (hx : x ∈ s.ring c) (hne : x ≠ id)
    (hs : sendable e (s.qs x) = true) :
    pos x ((s.pop e).2.1.ring c) + pre.length + 1 = pos x (s.ring c) ∧ pos x (s.ring c) < (s.ring c).length := by
  obtain ⟨e', q', f, _, hp⟩ := pop_of_served h
  obtain ⟨_, hring, _, hpre⟩ := firstClass_some h.found
  refine ⟨?_, pos_lt_length hx⟩
  rw [hp]
  have hnp : x ∉ pre := by
    intro hm; have := hpre x hm; rw [hs] at this; cases this
  have hpost : x ∈ post := by
    rw [hring] at hx
    simp only [List.mem_append, List.mem_cons] at hx
    rcases hx with h1 | h1 | h1
    · exact absurd h1 hnp
    · exact absurd h1 hne
    · exact h1
  simp only [upd, hc, if_true]
  rw [hring, pos_append_not_mem _ hnp]
  simp only [pos]
  have : ¬ id = x := fun hh => hne hh.symm
  simp only [this, if_false]
  rw [List.append_assoc, pos_append_mem _ hpost]
  omega

/-- A `Pop` changes no ring other than the one it serves from (so waiting positions in other classes,
and in the same class while other classes are served, never get worse). -/
theorem pop_other_rings {e : Env} {s : P9218} {c id : Nat} {pre post : List Nat}
    (h : Served e s c id pre post) (c' : Nat) (hne : c' ≠ c) : (s.pop e).2.1.ring c' = s.ring c' := by
  obtain ⟨e', q', f, _, hp⟩ := pop_of_served h
  rw [hp]; simp [upd, hne]

/-- Opening a stream or re-prioritising another stream appends at the tail of a ring: positions of the
streams already waiting do not grow. -/
theorem open_keeps_pos (s : P9218) (id c x : Nat) (hn : s.prio id = none) (hb : id ≠ s.bufId) (c0 : Nat)
    (hx : x ∈ s.ring c0) : pos x ((s.openStream id c).1.ring c0) = pos x (s.ring c0) := by
  simp only [P9218.openStream, hn, hb, if_false]
  simp only [upd]
  split
  · rename_i heq; subst heq; exact pos_append_mem _ hx
  · rfl

/-- **Buffered PRIORITY_UPDATE.**  A priority update for a stream that is not open yet is applied when the
stream is opened (it overrides the priority passed to `OpenStream`). -/
theorem buffered_update_applied (s : P9218) (id c c2 : Nat) (hn : s.prio id = none) :
    let s1 := (s.adjustStream id c).1
    let s2 := (s1.openStream id c2).1
    s2.prio id = some c ∧ id ∈ s2.ring c ∧ s2.bufId = 0 := by
  simp [P9218.adjustStream, P9218.openStream, hn, upd]

/-- The full starvation-freedom statement over histories (bounded service of a continuously sendable
incremental stream), kept as a `Prop`: the one-step facts above (`inc_moves_forward`, `head_served_first`,
`pop_other_rings`, `open_keeps_pos`) are what is proved. -/
def BoundedServiceStatement : Prop :=
  ∀ (e : Env) (s : P9218) (opn : Nat → Bool) (c x : Nat), P9Inv s opn → c % 2 = 1 → x ∈ s.ring c →
    ∀ (c1 id : Nat) (pre post : List Nat), Served e s c1 id pre post → c1 = c → sendable e (s.qs x) = true →
      id = x ∨ pos x ((s.pop e).2.1.ring c) < pos x (s.ring c)

theorem bounded_service_step : BoundedServiceStatement := by
  intro e s opn c x _ hc hx c1 id pre post hsv hc1 hs
  subst hc1
  by_cases hxe : x = id
  · exact Or.inl hxe.symm
  · right
    have := (inc_moves_forward hsv hc x hx hxe hs).1
    omega

/-! ### Non-vacuity -/

def exEnv : Env := { maxFrame := 16384, connWin := 65535, win := fun _ => 65535 }

/-- three incremental streams of urgency 3 (class 7), one non-incremental of urgency 3 (class 6),
one of urgency 1 (class 2) -/
def exState : P9218 :=
  let s0 : P9218 := {}
  let s1 := (s0.openStream 1 7).1
  let s2 := (s1.openStream 3 7).1
  let s3 := (s2.openStream 5 7).1
  let s4 := (s3.openStream 7 6).1
  let s5 := (s4.openStream 9 2).1
  let s6 := (s5.push (.hdr 1 1)).1
  let s7 := (s6.push (.hdr 3 2)).1
  let s8 := (s7.push (.hdr 5 3)).1
  let s9 := (s8.push (.hdr 7 4)).1
  (s9.push (.hdr 9 5)).1

example : (exState.pop exEnv).2.2 = .frame (.hdr 9 5) := by decide
example : Served exEnv exState 2 9 [] [] := ⟨by decide, by decide⟩
example : ((exState.pop exEnv).2.1.pop exEnv).2.2 = .frame (.hdr 1 1) := by decide

/-! ## Multi-step theorems: consecutive `Pop`s

`iter n st` is the state after `n` consecutive `Pop`s (nothing else happens in between; the windows only
change by what the Pops themselves consume).  Hypotheses about "staying sendable" are stated per step. -/

/-- scheduler + flow-control state -/
abbrev St := Env × P9218

def popSt (st : St) : St := ((st.2.pop st.1).1, (st.2.pop st.1).2.1)

def iter : Nat → St → St
  | 0, st => st
  | n + 1, st => iter n (popSt st)

/-- the `j`-th Pop (counting from 0) serves stream `x` of class `c` -/
def ServesAt (st : St) (j c x : Nat) : Prop := ∃ pre post, Served (iter j st).1 (iter j st).2 c x pre post

/-- `x` is sendable before the `j`-th Pop -/
def SendableAt (st : St) (j x : Nat) : Prop := sendable (iter j st).1 ((iter j st).2.qs x) = true

/-- before the `j`-th Pop no stream of a class more urgent than `c` is sendable -/
def LowestAt (st : St) (j c : Nat) : Prop :=
  ∀ c', c' / 2 < c / 2 → ∀ y ∈ (iter j st).2.ring c', sendable (iter j st).1 ((iter j st).2.qs y) = false

theorem firstClass_ne_none {e : Env} {qs : Nat → WQ} {ring : Nat → List Nat} {cs : List Nat} {c x : Nat}
    (hc : c ∈ cs) (hx : x ∈ ring c) (hs : sendable e (qs x) = true) : firstClass e qs ring cs ≠ none := by
  intro h
  have := firstClass_none h c hc x hx
  rw [hs] at this; cases this

/-- With the control queue empty and some stream sendable, `Pop` serves some stream. -/
theorem served_exists {st : St} {c x : Nat} (hn : st.2.control.shift = none) (hc : c < 16) (hx : x ∈ st.2.ring c)
    (hs : sendable st.1 (st.2.qs x) = true) : ∃ c' id pre post, Served st.1 st.2 c' id pre post := by
  cases hf : firstClass st.1 st.2.qs st.2.ring (classOrder st.2.pref) with
  | none => exact absurd hf (firstClass_ne_none (classOrder_complete st.2.pref c hc) hx hs)
  | some t => obtain ⟨c', pre, id, post⟩ := t; exact ⟨c', id, pre, post, hn, hf⟩

theorem mem_ring_pop {e : Env} {s : P9218} {c' id : Nat} {pre post : List Nat} (h : Served e s c' id pre post)
    (c x : Nat) : x ∈ (s.pop e).2.1.ring c ↔ x ∈ s.ring c := by
  obtain ⟨e', q', f, _, hp⟩ := pop_of_served h
  obtain ⟨_, hring, _, _⟩ := firstClass_some h.found
  rw [hp]
  simp only [upd]
  split
  · rename_i heq; subst heq
    rw [hring]
    split <;> simp only [List.mem_append, List.mem_cons, List.mem_singleton] <;> grind
  · rfl

theorem control_pop {e : Env} {s : P9218} {c' id : Nat} {pre post : List Nat} (h : Served e s c' id pre post) :
    (s.pop e).2.1.control = s.control ∧ (s.pop e).2.1.pref = upd s.pref (c' / 2) (c' % 2 == 0) := by
  obtain ⟨e', q', f, _, hp⟩ := pop_of_served h
  rw [hp]; exact ⟨rfl, rfl⟩

/-- the next Pop is answered from the urgency level of class `c` -/
def levelOf (st : St) (c : Nat) : Bool :=
  match firstClass st.1 st.2.qs st.2.ring (classOrder st.2.pref) with
  | some (c', _) => c' / 2 == c / 2
  | none => false

/-- how many of the next `n` Pops are answered from the urgency level of class `c` -/
def levelCount (c : Nat) : Nat → St → Nat
  | 0, _ => 0
  | n + 1, st => (if levelOf st c then 1 else 0) + levelCount c n (popSt st)

/-- potential: twice the distance of `x` from the head of its ring, plus one if at its level the
non-incremental class goes first -/
def phi (c x : Nat) (s : P9218) : Nat := 2 * pos x (s.ring c) + (if s.pref (c / 2) then 0 else 1)

/-- One Pop that does not serve `x`: the potential drops if the Pop is answered from `x`'s urgency level and
is unchanged otherwise (Pops answered from other levels touch neither the ring nor the level's turn). -/
theorem phi_step {st : St} {c x : Nat} (hc : c < 16) (hodd : c % 2 = 1) (hn : st.2.control.shift = none)
    (hx : x ∈ st.2.ring c) (hs : sendable st.1 (st.2.qs x) = true)
    (hnot : ¬ ∃ pre post, Served st.1 st.2 c x pre post) :
    phi c x (popSt st).2 + (if levelOf st c then 1 else 0) ≤ phi c x st.2 ∧
      (popSt st).2.control.shift = none ∧ x ∈ (popSt st).2.ring c := by
  obtain ⟨c', id, pre, post, hsv⟩ := served_exists hn hc hx hs
  obtain ⟨hctl, hpref⟩ := control_pop hsv
  have hmem := (mem_ring_pop hsv c x).2 hx
  refine ⟨?_, by simp only [popSt]; rw [hctl]; exact hn, hmem⟩
  have hlv : levelOf st c = (c' / 2 == c / 2) := by simp [levelOf, hsv.found]
  simp only [phi, popSt, hpref, hlv]
  by_cases hlev : c' / 2 = c / 2
  · by_cases hcc : c' = c
    · subst hcc
      have hid : x ≠ id := by intro hh; subst hh; exact hnot ⟨pre, post, hsv⟩
      have := (inc_moves_forward hsv hodd x hx hid hs).1
      have h0 : (c' % 2 == 0) = false := by simp; omega
      simp [upd, h0]
      split <;> omega
    · have hpf : st.2.pref (c / 2) = false := by
        cases hb : st.2.pref (c / 2) with
        | false => rfl
        | true =>
          have := (served_order hsv).2.2 c hlev.symm (fun h => hcc h.symm) (by rw [← hlev] at hb; simp [hodd, hb]) x hx
          rw [hs] at this; cases this
      have h0 : (c' % 2 == 0) = true := by simp; omega
      rw [pop_other_rings hsv c (fun h => hcc h.symm)]
      simp [upd, hlev, h0, hpf]
  · rw [pop_other_rings hsv c (fun h => hlev (by rw [h]))]
    have : ¬ (c / 2 = c' / 2) := fun h => hlev h.symm
    have hb : (c' / 2 == c / 2) = false := by simpa using hlev
    simp [upd, this, hb]

/-- **Bounded service, k-step form.**  Over `n` consecutive Pops during which the control queue is empty and
the incremental stream `x` (class `c`) stays sendable: if none of them serves `x`, the potential has dropped
by the number of those Pops that were answered from `x`'s urgency level. -/
theorem inc_potential (c x : Nat) (hc : c < 16) (hodd : c % 2 = 1) : ∀ (n : Nat) (st : St),
    st.2.control.shift = none → x ∈ st.2.ring c →
    (∀ j, j < n → SendableAt st j x) → (∀ j, j < n → ¬ ServesAt st j c x) →
    levelCount c n st + phi c x (iter n st).2 ≤ phi c x st.2 := by
  intro n
  induction n with
  | zero => intro st _ _ _ _; simp [iter, levelCount]
  | succ k ih =>
    intro st hn hx hs hnot
    obtain ⟨h1, h2, h3⟩ := phi_step (st := st) hc hodd hn hx (hs 0 (by omega)) (hnot 0 (by omega))
    have := ih (popSt st) h2 h3 (fun j hj => hs (j + 1) (by omega)) (fun j hj => hnot (j + 1) (by omega))
    simp only [iter, levelCount]
    omega

/-- **Each sendable incremental stream is served within a bounded number of Pops of its urgency level.**
If the ring of the incremental class `c` holds `k` streams and stream `x` of it stays sendable, then `x` is
served before `2 * k` Pops have been answered from its urgency level — whatever more urgent (or less urgent)
streams do in between; no assumption on other levels. -/
theorem inc_served_within_2k (c x : Nat) (hc : c < 16) (hodd : c % 2 = 1) (n : Nat) (st : St)
    (hn : st.2.control.shift = none) (hx : x ∈ st.2.ring c)
    (hs : ∀ j, j < n → SendableAt st j x) (hcount : 2 * (st.2.ring c).length ≤ levelCount c n st) :
    ∃ j, j < n ∧ ServesAt st j c x := by
  apply Classical.byContradiction; intro hno
  have hnot : ∀ j, j < n → ¬ ServesAt st j c x := fun j hj hh => hno ⟨j, hj, hh⟩
  have h := inc_potential c x hc hodd n st hn hx hs hnot
  have hp := pos_lt_length hx
  have : phi c x st.2 ≤ 2 * pos x (st.2.ring c) + 1 := by
    simp only [phi]; split <;> omega
  omega

/-- **A non-incremental stream is served until it has nothing sendable.**  Once stream `x` of the
non-incremental class `c` is at the head of its ring (it is after being served: `noninc_becomes_head`),
then over any number of consecutive Pops during which `x` stays sendable, every Pop that serves class `c`
serves `x`, and `x` stays at the head. -/
theorem noninc_served_until (c x : Nat) (hev : c % 2 = 0) : ∀ (n : Nat) (st : St),
    st.2.control.shift = none → (st.2.ring c).head? = some x → (∀ j, j < n → SendableAt st j x) →
    (∀ j id, j < n → ServesAt st j c id → id = x) ∧ ((iter n st).2.ring c).head? = some x := by
  intro n
  induction n with
  | zero => intro st _ hh _; exact ⟨fun j id hj => absurd hj (by omega), hh⟩
  | succ k ih =>
    intro st hn hh hs
    have hs0 : sendable st.1 (st.2.qs x) = true := hs 0 (by omega)
    obtain ⟨tl, hring⟩ : ∃ tl, st.2.ring c = x :: tl := by
      cases hr : st.2.ring c with
      | nil => rw [hr] at hh; cases hh
      | cons a tl => rw [hr] at hh; simp at hh; subst hh; exact ⟨tl, rfl⟩
    have hx : x ∈ st.2.ring c := by rw [hring]; simp
    -- the first Pop
    have hfirst : (∀ id, ServesAt st 0 c id → id = x) ∧ (popSt st).2.control.shift = none ∧
        ((popSt st).2.ring c).head? = some x := by
      cases hf : firstClass st.1 st.2.qs st.2.ring (classOrder st.2.pref) with
      | none =>
        refine ⟨?_, ?_, ?_⟩
        · rintro id ⟨pre, post, hsv⟩; have := hsv.found; simp only [iter] at this; rw [hf] at this; cases this
        · simp [popSt, P9218.pop, hn, hf]
        · simp [popSt, P9218.pop, hn, hf, hh]
      | some t =>
        obtain ⟨c', pre, id, post⟩ := t
        have hsv : Served st.1 st.2 c' id pre post := ⟨hn, hf⟩
        obtain ⟨hctl, _⟩ := control_pop hsv
        refine ⟨?_, by simp only [popSt]; rw [hctl]; exact hn, ?_⟩
        · rintro id2 ⟨pre2, post2, hsv2⟩
          exact (head_served_first hsv2 hring hs0).1
        · by_cases hcc : c' = c
          · subst hcc
            have := (head_served_first hsv hring hs0).1
            subst this
            simp only [popSt]
            exact noninc_becomes_head hsv hev
          · simp only [popSt]
            rw [pop_other_rings hsv c (fun h => hcc h.symm)]; exact hh
    obtain ⟨f1, f2, f3⟩ := hfirst
    obtain ⟨g1, g2⟩ := ih (popSt st) f2 f3 (fun j hj => hs (j + 1) (by omega))
    refine ⟨?_, by simpa [iter] using g2⟩
    intro j id hj hsv
    cases j with
    | zero => exact f1 id hsv
    | succ j' => exact g1 j' id (by omega) hsv

/-! ### Non-vacuity of the multi-step theorems: three incremental streams of urgency 3 with two frames
each; stream 5 is last in the ring (k = 3) and is served by the third Pop (index 2 < 2 * 3). -/

def exInc : P9218 :=
  let s0 : P9218 := {}
  let s1 := (s0.openStream 1 7).1
  let s2 := (s1.openStream 3 7).1
  let s3 := (s2.openStream 5 7).1
  let s4 := (s3.push (.hdr 1 1)).1
  let s5 := (s4.push (.hdr 3 2)).1
  let s6 := (s5.push (.hdr 5 3)).1
  let s7 := (s6.push (.hdr 1 4)).1
  let s8 := (s7.push (.hdr 3 5)).1
  (s8.push (.hdr 5 6)).1

example : exInc.ring 7 = [1, 3, 5] ∧ exInc.control.shift = none := by decide
example : ((List.range 6).map fun j => ((iter j (exEnv, exInc)).2.pop exEnv).2.2) =
    [.frame (.hdr 1 1), .frame (.hdr 3 2), .frame (.hdr 5 3), .frame (.hdr 1 4), .frame (.hdr 3 5), .frame (.hdr 5 6)] := by
  decide
example : ServesAt (exEnv, exInc) 2 7 5 := ⟨[], [1, 3], by decide, by decide⟩
example : ∀ j, j < 3 → SendableAt (exEnv, exInc) j 5 := by
  simp only [SendableAt]; decide

/-! ## `parseRFC9218Priority` always yields a valid priority class

The scheduler indexes `heads[urgency][incremental]` (an `[8][2]` array) with the parsed priority; the
theorems above assume `urgency ≤ 7`, `incremental ≤ 1`.  On the model of `parseRFC9218Priority` over the
C56 model of `httpsfv.ParseDictionary` this holds for every input string. -/

open NetVerif.Model.RFC9218Priority in
theorem applyMember_range (p : Nat × Nat) (cb : List Nat × List Nat × List Nat) (h : p.1 ≤ 7 ∧ p.2 ≤ 1) :
    (applyMember p cb).1 ≤ 7 ∧ (applyMember p cb).2 ≤ 1 := by
  unfold applyMember
  split
  · split
    · split
      · rename_i u _ hu; exact ⟨by simp only; omega, h.2⟩
      · exact h
    · exact h
  · split
    · split
      · rename_i b _; exact ⟨h.1, by cases b <;> simp⟩
      · exact h
    · exact h

open NetVerif.Model.RFC9218Priority in
/-- **For every field value and both defaults the parsed priority lies in `[0,7] × {0,1}`**, and a field
that does not parse as a dictionary yields the default. -/
theorem parsePriority_range (s : List Nat) (cud : Bool) :
    (parsePriority s cud).1.1 ≤ 7 ∧ (parsePriority s cud).1.2 ≤ 1 ∧
      ((parsePriority s cud).2 = false → (parsePriority s cud).1 = defaultPrio cud) := by
  have hd : (defaultPrio cud).1 ≤ 7 ∧ (defaultPrio cud).2 ≤ 1 := by cases cud <;> decide
  have hfold : ∀ (l : List (List Nat × List Nat × List Nat)) (p : Nat × Nat), p.1 ≤ 7 ∧ p.2 ≤ 1 →
      (l.foldl applyMember p).1 ≤ 7 ∧ (l.foldl applyMember p).2 ≤ 1 := by
    intro l
    induction l with
    | nil => intro p h; exact h
    | cons cb l ih => intro p h; exact ih _ (applyMember_range p cb h)
  unfold parsePriority
  split
  · exact ⟨hd.1, hd.2, fun _ => rfl⟩
  · rename_i cbs _
    obtain ⟨h1, h2⟩ := hfold cbs _ hd
    exact ⟨h1, h2, fun h => by cases h⟩

/-- the class index `2*urgency + incremental` handed to the scheduler is below 16 -/
theorem parsePriority_class_lt (s : List Nat) (cud : Bool) :
    2 * (NetVerif.Model.RFC9218Priority.parsePriority s cud).1.1 +
      (NetVerif.Model.RFC9218Priority.parsePriority s cud).1.2 < 16 := by
  obtain ⟨h1, h2, _⟩ := parsePriority_range s cud
  omega

-- "u=-1" is ignored (urgency stays the default 3); "u=7, i"; a duplicated key (last one wins)
example : NetVerif.Model.RFC9218Priority.parsePriority [117, 61, 45, 49] true = ((3, 0), true) := by decide
example : NetVerif.Model.RFC9218Priority.parsePriority [117, 61, 55, 44, 32, 105] true = ((7, 1), true) := by decide
example : NetVerif.Model.RFC9218Priority.parsePriority [117, 61, 49, 44, 32, 117, 61, 53] false = ((5, 1), true) := by decide

/-! ## Level fairness (full theorem, after the repair `fix: http2: … per urgency level`)

"Among sendable streams of equal urgency no stream is starved", read on the Pops answered from ONE urgency
level: while both classes of the level are sendable, two consecutive Pops answered from that level never
serve the same class — whatever happens at other urgency levels in between.  (Before the repair the
alternation used one global bit that Pops answered from other levels also flipped; the input below is the
reported witness, now a regression case in `corpus/C13/parity.ops`.) -/

/-- Monitor over a history: `streak b` counts the consecutive Pops answered from `b`'s urgency level that
served the sibling class while class `b` had a sendable stream.  `true` = some streak reached 2. -/
def altViolates (e : Env) (s : P9218) (streak : Nat → Nat) : List Op → Bool
  | [] => false
  | .pop _ :: ops =>
    match s.control.shift with
    | some _ => altViolates (s.pop e).1 (s.pop e).2.1 streak ops
    | none =>
      match firstClass e s.qs s.ring (classOrder s.pref) with
      | none => altViolates (s.pop e).1 (s.pop e).2.1 streak ops
      | some (c, _, _, _) =>
        let other := if c % 2 = 1 then c - 1 else c + 1
        let so := if (s.ring other).any (fun y => sendable e (s.qs y)) then streak other + 1 else 0
        if so ≥ 2 then true
        else altViolates (s.pop e).1 (s.pop e).2.1 (upd (upd streak other so) c 0) ops
  | op :: ops => altViolates ((Sched.p9 s).step e op).1
      (match ((Sched.p9 s).step e op).2.1 with | .p9 s' => s' | _ => s) streak ops

/-- calls other than `Pop` do not touch the alternation state -/
theorem step_pref (e : Env) (s : P9218) (op : Op) (h : ∀ hh, op ≠ .pop hh) :
    ∃ s', ((Sched.p9 s).step e op).2.1 = .p9 s' ∧ s'.pref = s.pref := by
  cases op with
  | pop hh => exact absurd rfl (h hh)
  | win id d => simp only [Sched.step]; split <;> exact ⟨s, rfl, rfl⟩
  | maxframe n => exact ⟨s, rfl, rfl⟩
  | openS id p c =>
    simp only [Sched.step, P9218.openStream]
    split
    · exact ⟨s, rfl, rfl⟩
    · exact ⟨_, rfl, rfl⟩
  | closeS id =>
    simp only [Sched.step, P9218.closeStream]
    split
    · exact ⟨s, rfl, rfl⟩
    · exact ⟨_, rfl, rfl⟩
  | adjust id d x w c =>
    simp only [Sched.step, P9218.adjustStream]
    split
    · exact ⟨_, rfl, rfl⟩
    · exact ⟨_, rfl, rfl⟩
  | push f =>
    simp only [Sched.step, P9218.push]
    split
    · exact ⟨_, rfl, rfl⟩
    · split
      · exact ⟨_, rfl, rfl⟩
      · split
        · exact ⟨s, rfl, rfl⟩
        · exact ⟨_, rfl, rfl⟩

/-- monitor invariant: a class that has just been passed over is the one whose turn it is at its level -/
def AltInv (s : P9218) (streak : Nat → Nat) : Prop :=
  ∀ b, 1 ≤ streak b → streak b = 1 ∧ s.pref (b / 2) = decide (b % 2 = 1)

theorem altViolates_false (ops : List Op) : ∀ (e : Env) (s : P9218) (streak : Nat → Nat), AltInv s streak →
    altViolates e s streak ops = false := by
  induction ops with
  | nil => intro e s streak _; rfl
  | cons op ops ih =>
    intro e s streak hI
    cases op with
    | pop hh =>
      simp only [altViolates]
      cases hsh : s.control.shift with
      | some fc =>
        simp only
        obtain ⟨f, c⟩ := fc
        apply ih
        intro b hb
        rw [(control_pop_keeps_toggle (e := e) hsh).2.1]; exact hI b hb
      | none =>
        simp only
        cases hf : firstClass e s.qs s.ring (classOrder s.pref) with
        | none =>
          simp only
          rw [pop_none_unchanged hsh hf]
          exact ih e s streak hI
        | some t =>
          obtain ⟨c, pre, id, post⟩ := t
          simp only
          have hsv : Served e s c id pre post := ⟨hsh, hf⟩
          generalize hother : (if c % 2 = 1 then c - 1 else c + 1) = other
          have ho2 : other / 2 = c / 2 ∧ other ≠ c ∧ other % 2 ≠ c % 2 := by
            rw [← hother]; split <;> omega
          -- the passed-over class cannot have been passed over before
          have hso : (if (s.ring other).any (fun y => sendable e (s.qs y)) = true then streak other + 1 else 0) ≤ 1 := by
            split
            · rename_i hany
              have hz : streak other = 0 := by
                apply Classical.byContradiction; intro hne
                obtain ⟨_, hp⟩ := hI other (by omega)
                obtain ⟨y, hy, hys⟩ := List.any_eq_true.1 hany
                have := (served_order hsv).2.2 other ho2.1 ho2.2.1 (by rw [← ho2.1]; exact hp.symm) y hy
                rw [this] at hys; cases hys
              omega
            · omega
          have hnot : ¬ ((if (s.ring other).any (fun y => sendable e (s.qs y)) = true then streak other + 1 else 0) ≥ 2) := by
            omega
          rw [if_neg hnot]
          apply ih
          intro b hb
          rw [toggle_flips hsv]
          simp only [upd] at hb ⊢
          by_cases hbc : b = c
          · subst hbc; simp at hb
          · simp only [hbc, if_false] at hb ⊢
            by_cases hbo : b = other
            · subst hbo
              simp only [if_true] at hb
              refine ⟨by simp only [if_true]; omega, ?_⟩
              simp only [ho2.1, if_true]
              have := ho2.2.2
              cases hc2 : decide (b % 2 = 1) <;> simp at hc2 ⊢ <;> omega
            · simp only [hbo, if_false] at hb ⊢
              obtain ⟨h1, h2⟩ := hI b hb
              refine ⟨h1, ?_⟩
              have : ¬ (b / 2 = c / 2) := by
                intro hh; obtain ⟨o1, o2, o3⟩ := ho2; omega
              simp only [this, if_false]; exact h2
    | win id d => exact alt_other ih e s streak hI (.win id d) (by simp)
    | maxframe n => exact alt_other ih e s streak hI (.maxframe n) (by simp)
    | openS id p c => exact alt_other ih e s streak hI (.openS id p c) (by simp)
    | closeS id => exact alt_other ih e s streak hI (.closeS id) (by simp)
    | adjust id d x w c => exact alt_other ih e s streak hI (.adjust id d x w c) (by simp)
    | push f => exact alt_other ih e s streak hI (.push f) (by simp)
where
  alt_other {ops : List Op}
      (ih : ∀ (e : Env) (s : P9218) (streak : Nat → Nat), AltInv s streak → altViolates e s streak ops = false)
      (e : Env) (s : P9218) (streak : Nat → Nat) (hI : AltInv s streak) (op : Op) (h : ∀ hh, op ≠ .pop hh) :
      altViolates e s streak (op :: ops) = false := by
    obtain ⟨s', h1, h2⟩ := step_pref e s op h
    have : altViolates e s streak (op :: ops) = altViolates ((Sched.p9 s).step e op).1 s' streak ops := by
      cases op with
      | pop hh => exact absurd rfl (h hh)
      | win id d => simp only [altViolates, h1]
      | maxframe n => simp only [altViolates, h1]
      | openS id p c => simp only [altViolates, h1]
      | closeS id => simp only [altViolates, h1]
      | adjust id d x w c => simp only [altViolates, h1]
      | push f => simp only [altViolates, h1]
    rw [this]
    apply ih
    intro b hb; rw [h2]; exact hI b hb

/-- **Level fairness, full theorem**: on every history (no contract needed), from the freshly constructed
scheduler, two consecutive Pops answered from one urgency level never serve the same class while the other
class of that level has a sendable stream. -/
theorem level_fair (e : Env) (ops : List Op) : altViolates e {} (fun _ => 0) ops = false :=
  altViolates_false ops e {} (fun _ => 0) (fun b hb => by simp at hb)

/-- The formerly failing input: stream 1 (u=0), stream 3 (u=3, non-incremental), stream 5 (u=3, incremental),
3 and 5 with frames queued; one frame is pushed on stream 1 before every second Pop.  The Pops answered from
urgency 3 now alternate between stream 5 and stream 3. -/
def parityWitness : List Op :=
  [.openS 1 0 0, .openS 3 0 6, .openS 5 0 7,
   .push (.hdr 3 1), .push (.hdr 5 2), .push (.hdr 3 3), .push (.hdr 5 4), .push (.hdr 3 5), .push (.hdr 5 6),
   .push (.hdr 1 7), .pop none, .pop none, .push (.hdr 1 8), .pop none, .pop none]

example : Contract (fun _ => false) parityWitness := by
  simp [parityWitness, Contract, OpOK, opnOp, pushOK, upd]

example : ((Sched.p9 {}).run exEnv parityWitness).2.2.drop 9 =
    [.ok, .frame (.hdr 1 7), .frame (.hdr 5 2), .ok, .frame (.hdr 1 8), .frame (.hdr 3 1)] := by decide

end NetVerif.Proofs.C13
