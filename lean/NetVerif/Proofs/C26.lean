import NetVerif.Model.LossState
/-!
C26 — QUIC loss recovery accounts for every sent packet exactly once.

Theorems over the model `Model/LossState.lean` of quic/loss.go + sent_packet_list.go +
congestion_reno.go, for ALL histories of send / skip / ACK-range / ACK-end / timer /
discard operations and ALL values of the RTT-estimator inputs (`ld`, `fst`, `pcd`).
-/
namespace NetVerif.Proofs.C26
open NetVerif NetVerif.Model.LossState

/-! ## operations and histories -/

inductive Op where
  | send (space : Nat) (size : Int) (ackEliciting inFlight : Bool) (now : Int)
  | skip (space : Nat) (now : Int)
  | ackRange (space : Nat) (start end_ : Int)
  | ackEnd (space : Nat) (now ld : Int) (fst : Option Int) (pcd : Int)
  | advance (now ld : Int) (fst : Option Int)
  | discardPackets (space : Nat)
  | discardKeys (space : Nat)
  | setUnderutilized (v : Bool)

/-- One operation: new state and the ack/loss callbacks it made. -/
def step (l : Loss) : Op → Loss × List Callback
  | .send sp size ae inf now => (l.packetSent sp size ae inf now, [])
  | .skip sp now => (l.skipNumber sp now, [])
  | .ackRange sp a b => let r := l.receiveAckRange sp a b; (r.1, r.2.1)
  | .ackEnd sp now ld fst pcd => l.receiveAckEnd sp now ld fst pcd
  | .advance now ld fst => l.advance now ld fst
  | .discardPackets sp => l.discardPackets sp
  | .discardKeys sp => (l.discardKeys sp, [])
  | .setUnderutilized v => (l.setUnderutilized v, [])

def run (l : Loss) (ops : List Op) : Loss := ops.foldl (fun l op => (step l op).1) l

/-- Packet sizes are non-negative. -/
def Op.Valid : Op → Prop
  | .send _ size _ _ _ => 0 ≤ size
  | _ => True

/-! ## bytes in flight -/

/-- Contribution of one tracked packet to bytes in flight: its size if it is in flight and has
no fate yet (`state = sent`). -/
def pktFlight (p : Pkt) : Int := if p.inFlight ∧ p.state = .sent then p.size else 0

def flightSum : List Pkt → Int
  | [] => 0
  | p :: rest => pktFlight p + flightSum rest

/-- Σ sizes of in-flight packets without a fate, over the three spaces. -/
def lossFlight (l : Loss) : Int := flightSum l.s0.pkts + flightSum l.s1.pkts + flightSum l.s2.pkts

theorem flightSum_append (a b : List Pkt) : flightSum (a ++ b) = flightSum a + flightSum b := by
  induction a with
  | nil => simp [flightSum]
  | cons p rest ih => simp [flightSum, ih]; omega

theorem flightSum_nonneg (ps : List Pkt) (h : ∀ p ∈ ps, 0 ≤ p.size) : 0 ≤ flightSum ps := by
  induction ps with
  | nil => simp [flightSum]
  | cons p rest ih =>
    have h1 := h p List.mem_cons_self
    have h2 := ih (fun q hq => h q (List.mem_cons_of_mem _ hq))
    simp only [flightSum, pktFlight]
    split <;> omega

theorem flightSum_clean (ps : List Pkt) : flightSum (cleanList ps) = flightSum ps := by
  induction ps with
  | nil => rfl
  | cons p rest ih =>
    simp only [cleanList]
    split
    · rfl
    · rename_i h
      simp [flightSum, pktFlight, h, ih]

/-! ### what the congestion controller callbacks do to the counters -/

structure CCSame (c c' : CC) : Prop where
  mds : c'.mds = c.mds
  cwnd : c'.cwnd = c.cwnd

theorem CCSame.trans {a b c : CC} (h1 : CCSame a b) (h2 : CCSame b c) : CCSame a c :=
  ⟨by rw [h2.mds, h1.mds], by rw [h2.cwnd, h1.cwnd]⟩

theorem CCSame.rfl' (a : CC) : CCSame a a := ⟨rfl, rfl⟩

theorem packetAcked_spec (c : CC) (p : Pkt) :
    (c.packetAcked p).bytesInFlight = c.bytesInFlight - (if p.inFlight then p.size else 0) ∧ CCSame c (c.packetAcked p) := by
  unfold CC.packetAcked
  cases hp : p.inFlight <;> simp
  · exact ⟨rfl, rfl⟩
  · repeat' split
    all_goals exact ⟨rfl, ⟨rfl, rfl⟩⟩

theorem setPc_same (c : CC) (i : Nat) (pc : PC) :
    (c.setPc i pc).bytesInFlight = c.bytesInFlight ∧ (c.setPc i pc).mds = c.mds ∧ (c.setPc i pc).cwnd = c.cwnd ∧
    (c.setPc i pc).ackLastLoss = c.ackLastLoss := by
  unfold CC.setPc; split <;> simp

theorem packetLost_spec (c : CC) (sp : Nat) (p : Pkt) (fst : Option Int) :
    (c.packetLost sp p fst).bytesInFlight = c.bytesInFlight - (if p.inFlight then p.size else 0) ∧
    CCSame c (c.packetLost sp p fst) := by
  unfold CC.packetLost
  obtain ⟨h1, h2, h3, _⟩ := setPc_same c sp (pcAfterLoss (c.pc sp) p fst)
  cases hp : p.inFlight <;> simp
  · exact ⟨h1, ⟨h2, h3⟩⟩
  · exact ⟨by omega, ⟨h2, h3⟩⟩

theorem packetDiscarded_spec (c : CC) (p : Pkt) :
    (c.packetDiscarded p).bytesInFlight = c.bytesInFlight - (if p.inFlight then p.size else 0) ∧
    CCSame c (c.packetDiscarded p) := by
  unfold CC.packetDiscarded
  split <;> simp <;> exact ⟨rfl, rfl⟩

theorem packetSent_spec (c : CC) (p : Pkt) :
    (c.packetSent p).bytesInFlight = c.bytesInFlight + (if p.inFlight then p.size else 0) ∧
    CCSame c (c.packetSent p) := by
  unfold CC.packetSent
  split <;> simp <;> exact ⟨rfl, rfl⟩


/-! ### the list walks -/

/-- Two lists related position by position. -/
inductive All₂ {α β : Type} (R : α → β → Prop) : List α → List β → Prop
  | nil : All₂ R [] []
  | cons {a b as bs} : R a b → All₂ R as bs → All₂ R (a :: as) (b :: bs)

theorem All₂.imp {α β : Type} {R S : α → β → Prop} (h : ∀ a b, R a b → S a b) :
    ∀ {as : List α} {bs : List β}, All₂ R as bs → All₂ S as bs
  | _, _, .nil => .nil
  | _, _, .cons h1 h2 => .cons (h _ _ h1) (All₂.imp h h2)

theorem All₂.refl {α : Type} {R : α → α → Prop} (h : ∀ a, R a a) : ∀ (as : List α), All₂ R as as
  | [] => .nil
  | a :: as => .cons (h a) (All₂.refl h as)

/-- How one tracked packet may change within one operation: not at all, or from `sent` to a
final state (`acked` / `lost`). Nothing else about the packet changes. -/
def PktEvolves (p p' : Pkt) : Prop :=
  p' = p ∨ (p.state = .sent ∧ (p' = { p with state := .acked } ∨ p' = { p with state := .lost }))

/-- Packet numbers whose state differs between two snapshots of a list (position by position). -/
def changedNums : List Pkt → List Pkt → List Int
  | p :: ps, q :: qs => if p.state ≠ q.state then p.num :: changedNums ps qs else changedNums ps qs
  | _, _ => []

theorem changedNums_self (ps : List Pkt) : changedNums ps ps = [] := by
  induction ps with
  | nil => rfl
  | cons p rest ih => simp [changedNums, ih]

theorem ackWalk_spec (lo hi : Int) (ps : List Pkt) : ∀ (cc : CC) (ma : Int),
    (ackWalk lo hi cc ma ps).cc.bytesInFlight - flightSum (ackWalk lo hi cc ma ps).pkts = cc.bytesInFlight - flightSum ps ∧
    CCSame cc (ackWalk lo hi cc ma ps).cc ∧
    All₂ (fun p p' => p' = p ∨ (p.state = .sent ∧ p' = { p with state := .acked })) ps (ackWalk lo hi cc ma ps).pkts ∧
    (ackWalk lo hi cc ma ps).acked = changedNums ps (ackWalk lo hi cc ma ps).pkts := by
  induction ps with
  | nil => intro cc ma; exact ⟨rfl, ⟨rfl, rfl⟩, .nil, rfl⟩
  | cons p rest ih =>
    intro cc ma
    unfold ackWalk
    split
    · obtain ⟨h1, h2, h3, h4⟩ := ih cc ma
      refine ⟨?_, h2, .cons (Or.inl rfl) h3, ?_⟩
      · simp only [flightSum]; omega
      · simp [changedNums, h4]
    · split
      · exact ⟨rfl, ⟨rfl, rfl⟩, by show All₂ _ (p :: rest) (p :: rest); apply All₂.refl; intro a; exact Or.inl rfl, by simp [changedNums_self]⟩
      · split
        · exact ⟨rfl, ⟨rfl, rfl⟩, by show All₂ _ (p :: rest) (p :: rest); apply All₂.refl; intro a; exact Or.inl rfl, by simp [changedNums_self]⟩
        · split
          · obtain ⟨h1, h2, h3, h4⟩ := ih cc ma
            refine ⟨?_, h2, .cons (Or.inl rfl) h3, ?_⟩
            · simp only [flightSum]; omega
            · simp [changedNums, h4]
          · rename_i hns hs
            have hsent : p.state = .sent := by simpa using hs
            obtain ⟨h1, h2, h3, h4⟩ := ih (cc.packetAcked p) (if p.num > ma then p.num else ma)
            obtain ⟨hb, hsame⟩ := packetAcked_spec cc p
            refine ⟨?_, ⟨by rw [h2.mds, hsame.mds], by rw [h2.cwnd, hsame.cwnd]⟩, .cons (Or.inr ⟨hsent, rfl⟩) h3, ?_⟩
            · simp only [flightSum, pktFlight, hsent]
              simp only [hb] at h1
              split <;> simp_all <;> omega
            · simp [changedNums, hsent, h4]


theorem lossWalk_spec (sp : Nat) (ma lt : Int) (fst : Option Int) (ps : List Pkt) : ∀ (cc : CC),
    (lossWalk sp ma lt fst cc ps).cc.bytesInFlight - flightSum (lossWalk sp ma lt fst cc ps).pkts = cc.bytesInFlight - flightSum ps ∧
    CCSame cc (lossWalk sp ma lt fst cc ps).cc ∧
    All₂ (fun p p' => p' = p ∨ (p.state = .sent ∧ p' = { p with state := .lost })) ps (lossWalk sp ma lt fst cc ps).pkts ∧
    (lossWalk sp ma lt fst cc ps).lost = changedNums ps (lossWalk sp ma lt fst cc ps).pkts := by
  induction ps with
  | nil => intro cc; exact ⟨rfl, ⟨rfl, rfl⟩, .nil, rfl⟩
  | cons p rest ih =>
    intro cc
    unfold lossWalk
    split
    · obtain ⟨h1, h2, h3, h4⟩ := ih cc
      refine ⟨?_, h2, .cons (Or.inl rfl) h3, ?_⟩
      · simp only [flightSum]; omega
      · simp [changedNums, h4]
    · rename_i hs
      have hsent : p.state = .sent := by simpa using hs
      split
      · obtain ⟨h1, h2, h3, h4⟩ := ih (if p.inFlight then cc.packetLost sp p fst else cc)
        obtain ⟨hb, hsame⟩ := packetLost_spec cc sp p fst
        have hcc : CCSame cc (if p.inFlight then cc.packetLost sp p fst else cc) := by
          split
          · exact hsame
          · exact CCSame.rfl' cc
        refine ⟨?_, hcc.trans h2, .cons (Or.inr ⟨hsent, rfl⟩) h3, ?_⟩
        · simp only [flightSum, pktFlight, hsent]
          cases hp : p.inFlight <;> simp_all <;> omega
        · simp [changedNums, hsent, h4]
      · exact ⟨rfl, ⟨rfl, rfl⟩, by show All₂ _ (p :: rest) (p :: rest); apply All₂.refl; intro a; exact Or.inl rfl,
          by simp [changedNums_self]⟩

theorem discWalk_spec (ps : List Pkt) : ∀ (cc : CC),
    (discWalk cc ps).cc.bytesInFlight - flightSum (discWalk cc ps).pkts = cc.bytesInFlight - flightSum ps ∧
    CCSame cc (discWalk cc ps).cc ∧
    All₂ (fun p p' => p' = p ∨ (p.state = .sent ∧ p' = { p with state := .lost })) ps (discWalk cc ps).pkts ∧
    (discWalk cc ps).lost = changedNums ps (discWalk cc ps).pkts ∧
    flightSum (discWalk cc ps).pkts = 0 := by
  induction ps with
  | nil => intro cc; exact ⟨rfl, ⟨rfl, rfl⟩, .nil, rfl, rfl⟩
  | cons p rest ih =>
    intro cc
    unfold discWalk
    split
    · rename_i hs
      obtain ⟨h1, h2, h3, h4, h5⟩ := ih cc
      refine ⟨?_, h2, .cons (Or.inl rfl) h3, ?_, ?_⟩
      · simp only [flightSum]; omega
      · simp [changedNums, h4]
      · simp [flightSum, pktFlight, hs, h5]
    · rename_i hs
      have hsent : p.state = .sent := by simpa using hs
      obtain ⟨h1, h2, h3, h4, h5⟩ := ih (cc.packetDiscarded p)
      obtain ⟨hb, hsame⟩ := packetDiscarded_spec cc p
      refine ⟨?_, ⟨by rw [h2.mds, hsame.mds], by rw [h2.cwnd, hsame.cwnd]⟩, .cons (Or.inr ⟨hsent, rfl⟩) h3, ?_, ?_⟩
      · simp only [flightSum, pktFlight, hsent]
        cases hp : p.inFlight <;> simp_all <;> omega
      · simp [changedNums, hsent, h4]
      · simp [flightSum, pktFlight, h5]

/-! ### the accounting invariant -/

def SizesOK (ps : List Pkt) : Prop := ∀ p ∈ ps, 0 ≤ p.size

structure AcctInv (l : Loss) : Prop where
  flight_eq : l.cc.bytesInFlight = lossFlight l
  sz0 : SizesOK l.s0.pkts
  sz1 : SizesOK l.s1.pkts
  sz2 : SizesOK l.s2.pkts
  mds : 0 < l.cc.mds
  cwnd : l.cc.minWindow ≤ l.cc.cwnd

theorem sizesOK_of_all₂ {R : Pkt → Pkt → Prop} (hR : ∀ p p', R p p' → p'.size = p.size) :
    ∀ {ps ps' : List Pkt}, All₂ R ps ps' → SizesOK ps → SizesOK ps'
  | _, _, .nil, _ => by intro p hp; simp at hp
  | _, _, .cons h1 h2, hs => by
    intro q hq
    rcases List.mem_cons.1 hq with rfl | hq
    · rw [hR _ _ h1]; exact hs _ List.mem_cons_self
    · exact sizesOK_of_all₂ hR h2 (fun r hr => hs r (List.mem_cons_of_mem _ hr)) q hq

theorem sizesOK_clean (ps : List Pkt) (h : SizesOK ps) : SizesOK (cleanList ps) := by
  induction ps with
  | nil => exact h
  | cons p rest ih =>
    simp only [cleanList]
    split
    · exact h
    · exact ih (fun q hq => h q (List.mem_cons_of_mem _ hq))

theorem sizesOK_space (l : Loss) (h : AcctInv l) (i : Nat) : SizesOK (l.space i).pkts := by
  unfold Loss.space; split
  · exact h.sz0
  · exact h.sz1
  · exact h.sz2

/-- Replacing one space and the controller, keeping `bytesInFlight − Σ` of that space, the window
and the datagram size, preserves the invariant. -/
theorem upd_inv (l : Loss) (h : AcctInv l) (i : Nat) (s' : Space) (cc' : CC)
    (hb : cc'.bytesInFlight - flightSum s'.pkts = l.cc.bytesInFlight - flightSum (l.space i).pkts)
    (hsame : CCSame l.cc cc') (hsz : SizesOK s'.pkts) :
    AcctInv { (l.setSpace i s') with cc := cc' } := by
  obtain ⟨hbif, h0, h1, h2, hm, hc⟩ := h
  unfold Loss.setSpace
  unfold Loss.space at hb
  unfold lossFlight at hbif
  split <;> simp only at hb
  · exact ⟨by simp only [lossFlight]; omega, hsz, h1, h2, by rw [hsame.mds]; exact hm,
      by simp only [CC.minWindow, hsame.mds, hsame.cwnd]; exact hc⟩
  · exact ⟨by simp only [lossFlight]; omega, h0, hsz, h2, by rw [hsame.mds]; exact hm,
      by simp only [CC.minWindow, hsame.mds, hsame.cwnd]; exact hc⟩
  · exact ⟨by simp only [lossFlight]; omega, h0, h1, hsz, by rw [hsame.mds]; exact hm,
      by simp only [CC.minWindow, hsame.mds, hsame.cwnd]; exact hc⟩


theorem setSpace_cc (l : Loss) (i : Nat) (s : Space) : (l.setSpace i s).cc = l.cc := by
  unfold Loss.setSpace; split <;> rfl

theorem setSpace_eta (l : Loss) (i : Nat) (s : Space) : { (l.setSpace i s) with cc := l.cc } = l.setSpace i s := by
  unfold Loss.setSpace; split <;> rfl

/-! ### the window arithmetic -/

theorem caLoop_ge (mds : Int) (hm : 0 ≤ mds) : ∀ (fuel : Nat) (cw p : Int), cw ≤ (caLoop mds fuel cw p).1
  | 0, cw, p => by simp [caLoop]
  | fuel + 1, cw, p => by
    unfold caLoop
    split
    · have := caLoop_ge mds hm fuel (cw + mds) (p - cw); omega
    · simp

/-- The fuel given to the congestion-avoidance loop is enough: on exit `pending ≤ cwnd`
(the Go `for` loop terminates because `cwnd > 0`). -/
theorem caLoop_done (mds : Int) (hm : 0 ≤ mds) : ∀ (fuel : Nat) (cw p : Int), 0 < cw → p ≤ fuel →
    (caLoop mds fuel cw p).2 ≤ (caLoop mds fuel cw p).1
  | 0, cw, p, hcw, hp => by simp [caLoop]; omega
  | fuel + 1, cw, p, hcw, hp => by
    unfold caLoop
    split
    · exact caLoop_done mds hm fuel (cw + mds) (p - cw) (by omega) (by omega)
    · simp; omega

theorem batchStage1_spec (c : CC) (now : Int) (hm : 0 < c.mds) (hc : c.minWindow ≤ c.cwnd) :
    (c.batchStage1 now).bytesInFlight = c.bytesInFlight ∧ (c.batchStage1 now).mds = c.mds ∧
    (c.batchStage1 now).minWindow ≤ (c.batchStage1 now).cwnd := by
  unfold CC.batchStage1
  simp only [CC.minWindow] at hc
  split
  · simp only [CC.enterRecovery, CC.minWindow]
    exact ⟨trivial, trivial, by omega⟩
  · split
    · rename_i hpos
      simp only [CC.grow, CC.minWindow]
      refine ⟨trivial, trivial, ?_⟩
      have hge := caLoop_ge c.mds (by omega) c.ssStep.2.toNat c.ssStep.1 c.ssStep.2
      have : c.cwnd ≤ c.ssStep.1 := by
        unfold CC.ssStep; split <;> simp <;> omega
      omega
    · exact ⟨rfl, rfl, hc⟩

theorem batchStage2_spec (c : CC) (sp : Nat) (pcd : Int) (hc : c.minWindow ≤ c.cwnd) :
    (c.batchStage2 sp pcd).bytesInFlight = c.bytesInFlight ∧ (c.batchStage2 sp pcd).mds = c.mds ∧
    (c.batchStage2 sp pcd).minWindow ≤ (c.batchStage2 sp pcd).cwnd := by
  unfold CC.batchStage2
  split
  · exact ⟨rfl, rfl, hc⟩
  · split
    · exact ⟨rfl, rfl, by simp [CC.minWindow]⟩
    · exact ⟨rfl, rfl, hc⟩

theorem batchEnd_spec (c : CC) (now : Int) (sp : Nat) (pcd : Int) (hm : 0 < c.mds) (hc : c.minWindow ≤ c.cwnd) :
    (c.packetBatchEnd now sp pcd).bytesInFlight = c.bytesInFlight ∧
    (c.packetBatchEnd now sp pcd).mds = c.mds ∧
    (c.packetBatchEnd now sp pcd).minWindow ≤ (c.packetBatchEnd now sp pcd).cwnd ∧
    (c.packetBatchEnd now sp pcd).ackLastLoss = none := by
  obtain ⟨a1, a2, a3⟩ := batchStage1_spec c now hm hc
  obtain ⟨b1, b2, b3⟩ := batchStage2_spec (c.batchStage1 now) sp pcd a3
  unfold CC.packetBatchEnd
  simp only [CC.minWindow] at b3 ⊢
  exact ⟨by rw [b1, a1], by rw [b2, a2], b3, trivial⟩

/-- The congestion-avoidance loop runs to completion with the fuel it is given. -/
theorem grow_loop_done (c : CC) (hm : 0 < c.mds) (hc : c.minWindow ≤ c.cwnd) (hp : 0 ≤ c.pendingAcks) :
    c.grow.pendingAcks ≤ c.grow.cwnd ∨ c.grow.pendingAcks ≤ 0 := by
  left
  simp only [CC.grow]
  have h1 : c.cwnd ≤ c.ssStep.1 := by unfold CC.ssStep; split <;> simp <;> omega
  simp only [CC.minWindow] at hc
  exact caLoop_done c.mds (by omega) _ _ _ (by omega) (by omega)


/-! ### every operation preserves the accounting invariant -/

theorem inv_init (mds : Int) (h : 0 < mds) : AcctInv (Loss.init mds) := by
  refine ⟨rfl, ?_, ?_, ?_, h, ?_⟩
  · intro p hp; simp [Loss.init] at hp
  · intro p hp; simp [Loss.init] at hp
  · intro p hp; simp [Loss.init] at hp
  · simp only [Loss.init, newReno, CC.minWindow]; omega

theorem inv_packetSent (l : Loss) (h : AcctInv l) (sp : Nat) (size : Int) (ae inf : Bool) (now : Int) (hs : 0 ≤ size) :
    AcctInv (l.packetSent sp size ae inf now) := by
  unfold Loss.packetSent
  simp only [setSpace_cc]
  obtain ⟨hb, hsame⟩ := packetSent_spec l.cc
    { num := (l.space sp).nextNum, size := size, time := now, ackEliciting := ae, inFlight := inf, state := .sent }
  apply upd_inv l h sp _ _ _ hsame
  · intro p hp
    simp only [Space.add, List.mem_append, List.mem_singleton] at hp
    rcases hp with hp | rfl
    · exact sizesOK_space l h sp p hp
    · exact hs
  · simp only [Space.add, flightSum_append, flightSum, pktFlight, hb]
    cases inf <;> simp <;> omega

theorem inv_skipNumber (l : Loss) (h : AcctInv l) (sp : Nat) (now : Int) : AcctInv (l.skipNumber sp now) := by
  unfold Loss.skipNumber
  simp only
  rw [← setSpace_eta]
  apply upd_inv l h sp _ _ _ (CCSame.rfl' _)
  · intro p hp
    simp only [Space.add, List.mem_append, List.mem_singleton] at hp
    rcases hp with hp | rfl
    · exact sizesOK_space l h sp p hp
    · exact Int.le_refl _
  · simp [Space.add, flightSum_append, flightSum, pktFlight]

theorem inv_receiveAckRange (l : Loss) (h : AcctInv l) (sp : Nat) (a b : Int) :
    AcctInv (l.receiveAckRange sp a b).1 := by
  unfold Loss.receiveAckRange
  simp only
  generalize (if a < (l.space sp).start then (l.space sp).start else a) = st
  by_cases h0 : ((l.space sp).skipped.any fun k => decide (a ≤ k ∧ k < b)) = true
  · simp only [h0, if_true]; exact h
  simp only [h0, Bool.false_eq_true, if_false]
  by_cases h1 : b > (l.space sp).nextNum
  · simp only [h1, if_true]; exact h
  · by_cases h2 : st ≥ b
    · simp only [h1, h2, if_true, if_false]; exact h
    · simp only [h1, h2, if_false]
      obtain ⟨e1, e2, e3, _⟩ := ackWalk_spec st b (l.space sp).pkts l.cc (l.space sp).maxAcked
      exact upd_inv l h sp _ _ e1 e2
        (sizesOK_of_all₂ (fun p p' hpp => by rcases hpp with rfl | ⟨_, rfl⟩ <;> rfl) e3 (sizesOK_space l h sp))

theorem space_setSpace (l : Loss) (i : Nat) (s : Space) : (l.setSpace i s).space i = s := by
  unfold Loss.setSpace Loss.space
  split <;> simp

theorem inv_detectSpace (l : Loss) (h : AcctInv l) (sp : Nat) (now ld : Int) (fst : Option Int) :
    AcctInv (l.detectSpace sp now ld fst).1 := by
  unfold Loss.detectSpace
  simp only
  obtain ⟨h1, h2, h3, _⟩ := lossWalk_spec sp (l.space sp).maxAcked (now - ld) fst (l.space sp).pkts l.cc
  apply upd_inv l h sp _ _ _ h2
  · simp only [Space.clean]
    exact sizesOK_clean _ (sizesOK_of_all₂ (fun p p' hpp => by rcases hpp with rfl | ⟨_, rfl⟩ <;> rfl) h3 (sizesOK_space l h sp))
  · simp only [Space.clean, flightSum_clean]; exact h1

theorem inv_detectLoss (l : Loss) (h : AcctInv l) (now ld : Int) (fst : Option Int) :
    AcctInv (l.detectLoss now ld fst).1 := by
  unfold Loss.detectLoss
  simp only
  exact inv_detectSpace _ (inv_detectSpace _ (inv_detectSpace l h 0 now ld fst) 1 now ld fst) 2 now ld fst

theorem inv_clean (l : Loss) (h : AcctInv l) (sp : Nat) : AcctInv (l.setSpace sp (l.space sp).clean) := by
  rw [← setSpace_eta]
  apply upd_inv l h sp _ _ _ (CCSame.rfl' _)
  · exact sizesOK_clean _ (sizesOK_space l h sp)
  · simp [Space.clean, flightSum_clean]

theorem inv_receiveAckEnd (l : Loss) (h : AcctInv l) (sp : Nat) (now ld : Int) (fst : Option Int) (pcd : Int) :
    AcctInv (l.receiveAckEnd sp now ld fst pcd).1 := by
  unfold Loss.receiveAckEnd
  simp only
  have h1 := inv_detectLoss _ (inv_clean l h sp) now ld fst
  generalize ((l.setSpace sp (l.space sp).clean).detectLoss now ld fst).1 = l1 at h1
  obtain ⟨hb, h0, h1', h2, hm, hc⟩ := h1
  obtain ⟨e1, e2, e3, _⟩ := batchEnd_spec l1.cc now sp pcd hm hc
  exact ⟨by simp only [lossFlight] at hb ⊢; rw [e1]; exact hb, h0, h1', h2, by rw [e2]; exact hm, e3⟩

theorem inv_discardPackets (l : Loss) (h : AcctInv l) (sp : Nat) : AcctInv (l.discardPackets sp).1 := by
  unfold Loss.discardPackets
  simp only
  obtain ⟨h1, h2, h3, _, _⟩ := discWalk_spec (l.space sp).pkts l.cc
  apply upd_inv l h sp _ _ _ h2
  · simp only [Space.clean]
    exact sizesOK_clean _ (sizesOK_of_all₂ (fun p p' hpp => by rcases hpp with rfl | ⟨_, rfl⟩ <;> rfl) h3 (sizesOK_space l h sp))
  · simp only [Space.clean, flightSum_clean]; exact h1

theorem inv_discardKeys (l : Loss) (h : AcctInv l) (sp : Nat) : AcctInv (l.discardKeys sp) := by
  unfold Loss.discardKeys
  simp only
  obtain ⟨h1, h2, _, _, h5⟩ := discWalk_spec (l.space sp).pkts l.cc
  apply upd_inv l h sp _ _ _ h2
  · intro p hp; simp at hp
  · simp only [flightSum]; omega

theorem inv_setUnderutilized (l : Loss) (h : AcctInv l) (v : Bool) : AcctInv (l.setUnderutilized v) := by
  obtain ⟨hb, h0, h1, h2, hm, hc⟩ := h
  exact ⟨hb, h0, h1, h2, hm, hc⟩

theorem inv_step (l : Loss) (op : Op) (hv : op.Valid) (h : AcctInv l) : AcctInv (step l op).1 := by
  cases op with
  | send sp size ae inf now => exact inv_packetSent l h sp size ae inf now hv
  | skip sp now => exact inv_skipNumber l h sp now
  | ackRange sp a b => exact inv_receiveAckRange l h sp a b
  | ackEnd sp now ld fst pcd => exact inv_receiveAckEnd l h sp now ld fst pcd
  | advance now ld fst => exact inv_detectLoss l h now ld fst
  | discardPackets sp => exact inv_discardPackets l h sp
  | discardKeys sp => exact inv_discardKeys l h sp
  | setUnderutilized v => exact inv_setUnderutilized l h v

def Valid (ops : List Op) : Prop := ∀ op ∈ ops, op.Valid

theorem inv_run (ops : List Op) (l : Loss) (hv : Valid ops) (h : AcctInv l) : AcctInv (run l ops) := by
  induction ops generalizing l with
  | nil => simpa [run] using h
  | cons op rest ih =>
    simp only [run, List.foldl_cons]
    exact ih _ (fun o ho => hv o (List.mem_cons_of_mem _ ho)) (inv_step l op (hv op List.mem_cons_self) h)

/-- States reachable from `lossState.init` with a positive maximum datagram size. -/
def Reachable (l : Loss) : Prop := ∃ mds ops, 0 < mds ∧ Valid ops ∧ l = run (Loss.init mds) ops

theorem reachable_inv {l : Loss} (h : Reachable l) : AcctInv l := by
  obtain ⟨mds, ops, hm, hv, rfl⟩ := h
  exact inv_run ops _ hv (inv_init mds hm)

/-- **Bytes in flight always equal the sizes of the in-flight packets that have no fate yet, and
are never negative** — after any history, for any RTT-estimator inputs. -/
theorem bytesInFlight_exact {l : Loss} (h : Reachable l) :
    l.cc.bytesInFlight = lossFlight l ∧ 0 ≤ l.cc.bytesInFlight := by
  have hi := reachable_inv h
  refine ⟨hi.flight_eq, ?_⟩
  rw [hi.flight_eq]
  have a := flightSum_nonneg _ hi.sz0
  have b := flightSum_nonneg _ hi.sz1
  have c := flightSum_nonneg _ hi.sz2
  simp only [lossFlight]; omega

/-- **The congestion window never drops below the minimum window** `2·maxDatagramSize`,
and the datagram size never changes. -/
theorem cwnd_ge_minimum {l : Loss} (h : Reachable l) : 2 * l.cc.mds ≤ l.cc.cwnd ∧ 0 < l.cc.mds := by
  have hi := reachable_inv h
  exact ⟨hi.cwnd, hi.mds⟩


/-! ## fates: every tracked packet changes state at most once, callbacks are exact -/

/-- The list holds consecutive packet numbers starting at `n` (the ring buffer invariant). -/
def Consec : Int → List Pkt → Prop
  | _, [] => True
  | n, p :: rest => p.num = n ∧ Consec (n + 1) rest

theorem consec_mem {n : Int} {ps : List Pkt} (h : Consec n ps) {p : Pkt} (hp : p ∈ ps) :
    n ≤ p.num ∧ p.num < n + ps.length := by
  induction ps generalizing n with
  | nil => simp at hp
  | cons q rest ih =>
    obtain ⟨h1, h2⟩ := h
    rcases List.mem_cons.1 hp with rfl | hp
    · simp only [List.length_cons]; omega
    · have := ih h2 hp
      simp only [List.length_cons]; omega

theorem consec_append {n : Int} {ps : List Pkt} (h : Consec n ps) (p : Pkt) (hp : p.num = n + ps.length) :
    Consec n (ps ++ [p]) := by
  induction ps generalizing n with
  | nil => simp at hp; exact ⟨hp, trivial⟩
  | cons q rest ih =>
    obtain ⟨h1, h2⟩ := h
    refine ⟨h1, ih h2 ?_⟩
    simp only [List.length_cons] at hp; omega

theorem consec_clean {n : Int} {ps : List Pkt} (h : Consec n ps) :
    Consec (n + (ps.length - (cleanList ps).length : Nat)) (cleanList ps) ∧ (cleanList ps).length ≤ ps.length ∧
    (∀ p ∈ ps, p ∈ cleanList ps ∨ (p.state ≠ .sent ∧ p.num < n + (ps.length - (cleanList ps).length : Nat))) := by
  induction ps generalizing n with
  | nil => simp [cleanList]; exact h
  | cons q rest ih =>
    obtain ⟨h1, h2⟩ := h
    simp only [cleanList]
    split
    · simp; exact ⟨⟨h1, h2⟩, fun a ha => Or.inl (Or.inr ha)⟩
    · rename_i hq
      obtain ⟨a, b, c⟩ := ih h2
      have hl : (q :: rest).length - (cleanList rest).length = (rest.length - (cleanList rest).length) + 1 := by
        simp only [List.length_cons]; omega
      rw [hl]
      refine ⟨?_, by simp only [List.length_cons]; omega, ?_⟩
      · have : n + ((rest.length - (cleanList rest).length + 1 : Nat) : Int) = n + 1 + ((rest.length - (cleanList rest).length : Nat) : Int) := by
          push_cast; omega
        rw [this]; exact a
      · intro p hp
        rcases List.mem_cons.1 hp with rfl | hp
        · right; exact ⟨hq, by push_cast; omega⟩
        · rcases c p hp with h | ⟨h, h'⟩
          · exact Or.inl h
          · right; exact ⟨h, by push_cast at h' ⊢; omega⟩

/-- The generic relation all three walks satisfy. -/
def Settles (p p' : Pkt) : Prop :=
  p' = p ∨ (p.state = .sent ∧ (p' = { p with state := .acked } ∨ p' = { p with state := .lost }))

/-- Everything the history-level argument needs about one walk over a consecutive list. -/
theorem walk_facts {ps ps' : List Pkt} (h : All₂ Settles ps ps') : ∀ {n : Int}, Consec n ps →
    Consec n ps' ∧ ps'.length = ps.length ∧
    (∀ k ∈ changedNums ps ps', n ≤ k ∧ (∃ p ∈ ps, p.num = k ∧ p.state = .sent) ∧
        (∀ p' ∈ ps', p'.num = k → p'.state = .acked ∨ p'.state = .lost)) ∧
    (∀ p' ∈ ps', p'.num ∉ changedNums ps ps' → p' ∈ ps) ∧
    (∀ p ∈ ps, p.state ≠ .sent → p ∈ ps') ∧
    (changedNums ps ps').Nodup := by
  induction h with
  | nil => intro n _; exact ⟨trivial, rfl, by simp [changedNums], by simp, by simp, by simp [changedNums]⟩
  | @cons p p' rest rest' hpp hrest ih =>
    intro n hc
    obtain ⟨hn, hc'⟩ := hc
    obtain ⟨i1, i2, i3, i4, i5, i6⟩ := ih hc'
    have hnum : p'.num = p.num := by rcases hpp with rfl | ⟨_, rfl | rfl⟩ <;> rfl
    have hrest'_num : ∀ q ∈ rest', n + 1 ≤ q.num := fun q hq => (consec_mem i1 hq).1
    have hrest_num : ∀ q ∈ rest, n + 1 ≤ q.num := fun q hq => (consec_mem hc' hq).1
    refine ⟨⟨by rw [hnum, hn], i1⟩, by simp [i2], ?_, ?_, ?_, ?_⟩
    · intro k hk
      simp only [changedNums] at hk
      split at hk
      · rename_i hne
        rcases List.mem_cons.1 hk with rfl | hk
        · have hsent : p.state = .sent ∧ (p'.state = .acked ∨ p'.state = .lost) := by
            rcases hpp with rfl | ⟨hs, rfl | rfl⟩
            · exact absurd rfl hne
            · exact ⟨hs, Or.inl rfl⟩
            · exact ⟨hs, Or.inr rfl⟩
          refine ⟨by omega, ⟨p, List.mem_cons_self, rfl, hsent.1⟩, ?_⟩
          intro q hq hqn
          rcases List.mem_cons.1 hq with rfl | hq
          · exact hsent.2
          · have := hrest'_num q hq; omega
        · obtain ⟨a, ⟨q, hq, hq1, hq2⟩, c⟩ := i3 k hk
          refine ⟨by omega, ⟨q, List.mem_cons_of_mem _ hq, hq1, hq2⟩, ?_⟩
          intro r hr hrn
          rcases List.mem_cons.1 hr with rfl | hr
          · omega
          · exact c r hr hrn
      · obtain ⟨a, ⟨q, hq, hq1, hq2⟩, c⟩ := i3 k hk
        refine ⟨by omega, ⟨q, List.mem_cons_of_mem _ hq, hq1, hq2⟩, ?_⟩
        intro r hr hrn
        rcases List.mem_cons.1 hr with rfl | hr
        · omega
        · exact c r hr hrn
    · intro q hq hqn
      simp only [changedNums] at hqn
      rcases List.mem_cons.1 hq with rfl | hq
      · split at hqn
        · exact absurd (by rw [hnum]; exact List.mem_cons_self) hqn
        · rename_i he
          have : q = p := by
            rcases hpp with h | ⟨hs, rfl | rfl⟩
            · exact h
            · simp at he; rw [hs] at he; exact absurd he (by decide)
            · simp at he; rw [hs] at he; exact absurd he (by decide)
          rw [this]; exact List.mem_cons_self
      · apply List.mem_cons_of_mem
        apply i4 q hq
        split at hqn
        · exact fun h => hqn (List.mem_cons_of_mem _ h)
        · exact hqn
    · intro q hq hqs
      rcases List.mem_cons.1 hq with rfl | hq
      · rcases hpp with h | ⟨hs, _⟩
        · rw [h]; exact List.mem_cons_self
        · exact absurd hs hqs
      · exact List.mem_cons_of_mem _ (i5 q hq hqs)
    · simp only [changedNums]
      split
      · refine List.nodup_cons.2 ⟨?_, i6⟩
        intro hk
        have := (i3 _ hk).1
        omega
      · exact i6


/-- Per-space invariant with ghost lists: `fs` = packet numbers that already received a callback,
`ks` = packet numbers that were skipped (both since the keys of the space were last discarded). -/
structure SpaceInv (s : Space) (fs ks : List Int) : Prop where
  consec : Consec s.start s.pkts
  f_lt : ∀ n ∈ fs, n < s.nextNum
  f_settled : ∀ n ∈ fs, ∀ p ∈ s.pkts, p.num = n → p.state = .acked ∨ p.state = .lost
  k_lt : ∀ k ∈ ks, k < s.nextNum
  k_unsent : ∀ k ∈ ks, (∃ p ∈ s.pkts, p.num = k ∧ p.state = .unsent) ∨ k < s.start
  f_nodup : fs.Nodup
  unsent_k : ∀ p ∈ s.pkts, p.state = .unsent → p.num ∈ ks
  sk : ∀ k, k ∈ s.skipped ↔ k ∈ ks

theorem spaceInv_empty : SpaceInv {} [] [] := by
  refine ⟨trivial, ?_, ?_, ?_, ?_, List.nodup_nil, ?_, fun k => Iff.rfl⟩ <;> intro n hn <;> simp at hn

theorem spaceInv_add (s : Space) (fs ks : List Int) (h : SpaceInv s fs ks) (p : Pkt)
    (hnum : p.num = s.nextNum) (hst : p.state = .sent ∨ p.state = .unsent) :
    SpaceInv { (s.add p) with skipped := if p.state = .unsent then s.nextNum :: s.skipped else s.skipped }
      fs (if p.state = .unsent then s.nextNum :: ks else ks) := by
  obtain ⟨hc, h1, h2, h3, h4, h5, h6, h7⟩ := h
  have hlen : (s.pkts ++ [p]).length = s.pkts.length + 1 := by simp
  refine { consec := ?_, f_lt := ?_, f_settled := ?_, k_lt := ?_, k_unsent := ?_, f_nodup := h5, unsent_k := ?_, sk := ?_ }
  · show Consec (s.nextNum + 1 - ((s.pkts ++ [p]).length : Nat)) (s.pkts ++ [p])
    have : s.nextNum + 1 - ((s.pkts ++ [p]).length : Nat) = s.start := by
      simp only [Space.start, hlen]; push_cast; omega
    rw [this]
    apply consec_append hc
    simp only [Space.start]; omega
  · intro n hn; have := h1 n hn; show n < s.nextNum + 1; omega
  · intro n hn q hq hqn
    have hq : q ∈ s.pkts ++ [p] := hq
    simp only [List.mem_append, List.mem_singleton] at hq
    rcases hq with hq | rfl
    · exact h2 n hn q hq hqn
    · have := h1 n hn; omega
  · intro k hk
    show k < s.nextNum + 1
    split at hk
    · rcases List.mem_cons.1 hk with rfl | hk
      · omega
      · have := h3 k hk; omega
    · have := h3 k hk; omega
  · intro k hk
    show (∃ q ∈ s.pkts ++ [p], q.num = k ∧ q.state = .unsent) ∨ k < s.nextNum + 1 - ((s.pkts ++ [p]).length : Nat)
    have : s.nextNum + 1 - ((s.pkts ++ [p]).length : Nat) = s.start := by
      simp only [Space.start, hlen]; push_cast; omega
    rw [this]
    split at hk
    · rename_i hu
      rcases List.mem_cons.1 hk with rfl | hk
      · exact Or.inl ⟨p, by simp, hnum, hu⟩
      · rcases h4 k hk with ⟨q, hq, hq1, hq2⟩ | h
        · exact Or.inl ⟨q, by simp [hq], hq1, hq2⟩
        · exact Or.inr h
    · rcases h4 k hk with ⟨q, hq, hq1, hq2⟩ | h
      · exact Or.inl ⟨q, by simp [hq], hq1, hq2⟩
      · exact Or.inr h
  · intro q hq hqu
    have hq : q ∈ s.pkts ++ [p] := hq
    simp only [List.mem_append, List.mem_singleton] at hq
    rcases hq with hq | rfl
    · have := h6 q hq hqu
      split
      · exact List.mem_cons_of_mem _ this
      · exact this
    · simp only [hqu, if_true, hnum]; exact List.mem_cons_self
  · intro k
    show k ∈ (if p.state = .unsent then s.nextNum :: s.skipped else s.skipped) ↔ _
    split
    · simp only [List.mem_cons, h7 k]
    · exact h7 k

/-- A walk (ACK range / loss detection / discard) over the list of one space. -/
theorem spaceInv_walk (s : Space) (fs ks : List Int) (h : SpaceInv s fs ks) (ps' : List Pkt) (m : Int)
    (hw : All₂ Settles s.pkts ps') :
    SpaceInv { s with pkts := ps', maxAcked := m } (changedNums s.pkts ps' ++ fs) ks ∧
    (∀ n ∈ changedNums s.pkts ps', n ∉ fs ∧ n ∉ ks ∧ n < s.nextNum) ∧
    (changedNums s.pkts ps').Nodup := by
  obtain ⟨hc, h1, h2, h3, h4, h5, h6, h7⟩ := h
  obtain ⟨w1, w2, w3, w4, w5, w6⟩ := walk_facts hw hc
  have hstart : ({ s with pkts := ps', maxAcked := m } : Space).start = s.start := by
    simp only [Space.start, w2]
  have hfresh : ∀ n ∈ changedNums s.pkts ps', n ∉ fs ∧ n ∉ ks ∧ n < s.nextNum := by
    intro n hn
    obtain ⟨a, ⟨p, hp, hp1, hp2⟩, c⟩ := w3 n hn
    refine ⟨?_, ?_, ?_⟩
    · intro hf
      rcases h2 n hf p hp hp1 with h | h <;> rw [hp2] at h <;> exact absurd h (by decide)
    · intro hk
      rcases h4 n hk with ⟨q, hq, hq1, hq2⟩ | hlt
      · -- q and p have the same number in a consecutive list, so they are the same packet
        have hcq := c
        have hq' : q ∈ ps' := w5 q hq (by rw [hq2]; decide)
        rcases c q hq' hq1 with h | h <;> rw [hq2] at h <;> exact absurd h (by decide)
      · omega
    · have := (consec_mem hc hp).2
      simp only [Space.start] at this; omega
  refine ⟨⟨by rw [hstart]; exact w1, ?_, ?_, h3, ?_, ?_, ?_, h7⟩, hfresh, w6⟩
  rotate_left 4
  · intro p' hp' hpu
    by_cases hch : p'.num ∈ changedNums s.pkts ps'
    · rcases (w3 _ hch).2.2 p' hp' rfl with h | h <;> rw [hpu] at h <;> exact absurd h (by decide)
    · exact h6 p' (w4 p' hp' hch) hpu
  · intro n hn
    rcases List.mem_append.1 hn with hn | hn
    · exact (hfresh n hn).2.2
    · exact h1 n hn
  · intro n hn p' hp' hpn
    rcases List.mem_append.1 hn with hn | hn
    · exact (w3 n hn).2.2 p' hp' hpn
    · by_cases hch : p'.num ∈ changedNums s.pkts ps'
      · exact (w3 _ hch).2.2 p' hp' rfl
      · exact h2 n hn p' (w4 p' hp' hch) hpn
  · intro k hk
    rw [hstart]
    rcases h4 k hk with ⟨q, hq, hq1, hq2⟩ | hlt
    · exact Or.inl ⟨q, w5 q hq (by rw [hq2]; decide), hq1, hq2⟩
    · exact Or.inr hlt
  · refine List.nodup_append.2 ⟨w6, h5, ?_⟩
    intro a ha b hb hab
    subst hab
    exact (hfresh a ha).1 hb

theorem spaceInv_clean (s : Space) (fs ks : List Int) (h : SpaceInv s fs ks) : SpaceInv s.clean fs ks := by
  obtain ⟨hc, h1, h2, h3, h4, h5, h6, h7⟩ := h
  obtain ⟨c1, c2, c3⟩ := consec_clean hc
  have hstart : s.clean.start = s.start + (s.pkts.length - (cleanList s.pkts).length : Nat) := by
    simp only [Space.start, Space.clean]; push_cast; omega
  have hsub : ∀ q ∈ cleanList s.pkts, q ∈ s.pkts := by
    intro q hq
    have : ∀ (l : List Pkt), q ∈ cleanList l → q ∈ l := by
      intro l; induction l with
      | nil => simp [cleanList]
      | cons r rest ih =>
        simp only [cleanList]; split
        · exact id
        · intro h; exact List.mem_cons_of_mem _ (ih h)
    exact this _ hq
  refine ⟨by rw [hstart]; exact c1, h1, ?_, h3, ?_, h5, fun p hp hpu => h6 p (hsub p hp) hpu, h7⟩
  · intro n hn p hp hpn
    exact h2 n hn p (hsub p hp) hpn
  · intro k hk
    rw [hstart]
    rcases h4 k hk with ⟨q, hq, hq1, hq2⟩ | hlt
    · rcases c3 q hq with h | ⟨_, h⟩
      · exact Or.inl ⟨q, h, hq1, hq2⟩
      · right; omega
    · right; omega


/-! ### ghost history: which numbers already had a callback, which were skipped -/

structure Ghost where
  f : Nat → List Int := fun _ => []   -- per space: numbers that received an ack/loss callback
  k : Nat → List Int := fun _ => []   -- per space: numbers that were skipped

def upd (g : Nat → List Int) (i : Nat) (v : List Int) : Nat → List Int := fun j => if j = i then v else g j

def numsOf (cbs : List Callback) : List Int := cbs.map (·.2.1)

def FInv (l : Loss) (g : Ghost) : Prop := ∀ i, i < 3 → SpaceInv (l.space i) (g.f i) (g.k i)

theorem space_update (l : Loss) (i j : Nat) (hi : i < 3) (hj : j < 3) (s : Space) (cc : CC) :
    ({ (l.setSpace i s) with cc := cc } : Loss).space j = if j = i then s else l.space j := by
  have : i = 0 ∨ i = 1 ∨ i = 2 := by omega
  have : j = 0 ∨ j = 1 ∨ j = 2 := by omega
  rcases ‹i = 0 ∨ i = 1 ∨ i = 2› with rfl | rfl | rfl <;> rcases ‹j = 0 ∨ j = 1 ∨ j = 2› with rfl | rfl | rfl <;>
    simp [Loss.setSpace, Loss.space]

theorem finv_update (l : Loss) (g : Ghost) (h : FInv l g) (i : Nat) (hi : i < 3) (s : Space) (cc : CC)
    (fs ks : List Int) (hs : SpaceInv s fs ks) :
    FInv { (l.setSpace i s) with cc := cc } { f := upd g.f i fs, k := upd g.k i ks } := by
  intro j hj
  rw [space_update l i j hi hj]
  simp only [upd]
  by_cases hji : j = i
  · simp only [hji, if_true]; exact hs
  · simp only [hji, if_false]; exact h j hj

theorem settles_of_ack {ps ps' : List Pkt}
    (h : All₂ (fun p p' => p' = p ∨ (p.state = .sent ∧ p' = { p with state := .acked })) ps ps') : All₂ Settles ps ps' :=
  All₂.imp (fun _ _ h => by rcases h with h | ⟨h1, h2⟩; exact Or.inl h; exact Or.inr ⟨h1, Or.inl h2⟩) h

theorem settles_of_lost {ps ps' : List Pkt}
    (h : All₂ (fun p p' => p' = p ∨ (p.state = .sent ∧ p' = { p with state := .lost })) ps ps') : All₂ Settles ps ps' :=
  All₂.imp (fun _ _ h => by rcases h with h | ⟨h1, h2⟩; exact Or.inl h; exact Or.inr ⟨h1, Or.inr h2⟩) h

theorem numsOf_map (sp : Nat) (f : Fate) (ns : List Int) : numsOf (ns.map fun n => (sp, n, f)) = ns := by
  simp [numsOf, List.map_map, Function.comp_def]

/-- What holds of the callbacks of one primitive step on space `sp`. -/
def Fresh (g : Ghost) (sp : Nat) (cbs : List Callback) : Prop :=
  (∀ c ∈ cbs, c.1 = sp ∧ c.2.1 ∉ g.f sp ∧ c.2.1 ∉ g.k sp) ∧ (numsOf cbs).Nodup

theorem fresh_of (g : Ghost) (sp : Nat) (f : Fate) (ns : List Int)
    (h : ∀ n ∈ ns, n ∉ g.f sp ∧ n ∉ g.k sp) (hn : ns.Nodup) : Fresh g sp (ns.map fun n => (sp, n, f)) := by
  refine ⟨?_, by rw [numsOf_map]; exact hn⟩
  intro c hc
  obtain ⟨n, hn', rfl⟩ := List.mem_map.1 hc
  exact ⟨rfl, h n hn'⟩

theorem g_receiveAckRange (l : Loss) (g : Ghost) (h : FInv l g) (sp : Nat) (hsp : sp < 3) (a b : Int) :
    FInv (l.receiveAckRange sp a b).1 { g with f := upd g.f sp (numsOf (l.receiveAckRange sp a b).2.1 ++ g.f sp) } ∧
    Fresh g sp (l.receiveAckRange sp a b).2.1 := by
  have hsame : ∀ (l' : Loss), l' = l → FInv l' { g with f := upd g.f sp ([] ++ g.f sp) } := by
    intro l' hl; subst hl
    intro j hj; simp only [upd]; split
    · rename_i e; subst e; exact h j hj
    · exact h j hj
  unfold Loss.receiveAckRange
  simp only
  generalize (if a < (l.space sp).start then (l.space sp).start else a) = st
  by_cases h0 : ((l.space sp).skipped.any fun k => decide (a ≤ k ∧ k < b)) = true
  · simp only [h0, if_true]; exact ⟨hsame l rfl, by simp [Fresh, numsOf]⟩
  simp only [h0, Bool.false_eq_true, if_false]
  by_cases h1 : b > (l.space sp).nextNum
  · simp only [h1, if_true]; exact ⟨hsame l rfl, by simp [Fresh, numsOf]⟩
  · by_cases h2 : st ≥ b
    · simp only [h1, h2, if_true, if_false]; exact ⟨hsame l rfl, by simp [Fresh, numsOf]⟩
    · simp only [h1, h2, if_false]
      obtain ⟨_, _, e3, e4⟩ := ackWalk_spec st b (l.space sp).pkts l.cc (l.space sp).maxAcked
      obtain ⟨w1, w2, w3⟩ := spaceInv_walk (l.space sp) (g.f sp) (g.k sp) (h sp hsp) _
        (ackWalk st b l.cc (l.space sp).maxAcked (l.space sp).pkts).maxAcked (settles_of_ack e3)
      rw [numsOf_map, e4]
      refine ⟨?_, fresh_of g sp _ _ (fun n hn => ⟨(w2 n (e4 ▸ hn)).1, (w2 n (e4 ▸ hn)).2.1⟩) (e4 ▸ w3)⟩
      have := finv_update l g h sp hsp _ (ackWalk st b l.cc (l.space sp).maxAcked (l.space sp).pkts).cc _ _ w1
      intro j hj
      have hj' := this j hj
      simp only [upd] at hj' ⊢
      by_cases hji : j = sp
      · simp only [hji, if_true] at hj' ⊢; exact hj'
      · simp only [hji, if_false] at hj' ⊢; exact hj'


theorem upd_self (g : Nat → List Int) (i : Nat) : upd g i (g i) = g := by
  funext j; simp only [upd]; split
  · rename_i h; rw [h]
  · rfl

/-- `finv_update` when only the fated list of space `i` changes. -/
theorem finv_update_f (l : Loss) (g : Ghost) (h : FInv l g) (i : Nat) (hi : i < 3) (s : Space) (cc : CC)
    (fs : List Int) (hs : SpaceInv s fs (g.k i)) :
    FInv { (l.setSpace i s) with cc := cc } { g with f := upd g.f i fs } := by
  have := finv_update l g h i hi s cc fs (g.k i) hs
  rw [upd_self] at this
  exact this

theorem g_detectSpace (l : Loss) (g : Ghost) (h : FInv l g) (sp : Nat) (hsp : sp < 3) (now ld : Int) (fst : Option Int) :
    FInv (l.detectSpace sp now ld fst).1 { g with f := upd g.f sp (numsOf (l.detectSpace sp now ld fst).2 ++ g.f sp) } ∧
    Fresh g sp (l.detectSpace sp now ld fst).2 := by
  unfold Loss.detectSpace
  simp only
  obtain ⟨_, _, e3, e4⟩ := lossWalk_spec sp (l.space sp).maxAcked (now - ld) fst (l.space sp).pkts l.cc
  obtain ⟨w1, w2, w3⟩ := spaceInv_walk (l.space sp) (g.f sp) (g.k sp) (h sp hsp) _ (l.space sp).maxAcked (settles_of_lost e3)
  rw [numsOf_map, e4]
  refine ⟨?_, fresh_of g sp _ _ (fun n hn => ⟨(w2 n (e4 ▸ hn)).1, (w2 n (e4 ▸ hn)).2.1⟩) (e4 ▸ w3)⟩
  exact finv_update_f l g h sp hsp _ _ _ (spaceInv_clean _ _ _ w1)

theorem g_discardPackets (l : Loss) (g : Ghost) (h : FInv l g) (sp : Nat) (hsp : sp < 3) :
    FInv (l.discardPackets sp).1 { g with f := upd g.f sp (numsOf (l.discardPackets sp).2 ++ g.f sp) } ∧
    Fresh g sp (l.discardPackets sp).2 := by
  unfold Loss.discardPackets
  simp only
  obtain ⟨_, _, e3, e4, _⟩ := discWalk_spec (l.space sp).pkts l.cc
  obtain ⟨w1, w2, w3⟩ := spaceInv_walk (l.space sp) (g.f sp) (g.k sp) (h sp hsp) _ (l.space sp).maxAcked (settles_of_lost e3)
  rw [numsOf_map, e4]
  refine ⟨?_, fresh_of g sp _ _ (fun n hn => ⟨(w2 n (e4 ▸ hn)).1, (w2 n (e4 ▸ hn)).2.1⟩) (e4 ▸ w3)⟩
  exact finv_update_f l g h sp hsp _ _ _ (spaceInv_clean _ _ _ w1)

theorem g_clean (l : Loss) (g : Ghost) (h : FInv l g) (sp : Nat) (hsp : sp < 3) :
    FInv (l.setSpace sp (l.space sp).clean) g := by
  have := finv_update_f l g h sp hsp _ l.cc _ (spaceInv_clean _ _ _ (h sp hsp))
  rw [upd_self, setSpace_eta] at this
  exact this

theorem g_cc (l : Loss) (g : Ghost) (h : FInv l g) (cc : CC) : FInv { l with cc := cc } g := by
  intro j hj
  have := h j hj
  have e : ({ l with cc := cc } : Loss).space j = l.space j := by
    unfold Loss.space; split <;> rfl
  rw [e]; exact this

theorem g_discardKeys (l : Loss) (g : Ghost) (h : FInv l g) (sp : Nat) (hsp : sp < 3) :
    FInv (l.discardKeys sp) { f := upd g.f sp [], k := upd g.k sp [] } := by
  unfold Loss.discardKeys
  simp only
  exact finv_update l g h sp hsp {} _ [] [] spaceInv_empty

theorem g_packetSent (l : Loss) (g : Ghost) (h : FInv l g) (sp : Nat) (hsp : sp < 3) (size : Int) (ae inf : Bool) (now : Int) :
    FInv (l.packetSent sp size ae inf now) g := by
  unfold Loss.packetSent
  simp only [setSpace_cc]
  have hs := spaceInv_add (l.space sp) (g.f sp) (g.k sp) (h sp hsp)
    { num := (l.space sp).nextNum, size := size, time := now, ackEliciting := ae, inFlight := inf, state := .sent } rfl (Or.inl rfl)
  simp only [show (PState.sent = PState.unsent) = False by simp, if_false] at hs
  have hs : SpaceInv ((l.space sp).add
      { num := (l.space sp).nextNum, size := size, time := now, ackEliciting := ae, inFlight := inf, state := .sent }) (g.f sp) (g.k sp) := hs
  have := finv_update_f l g h sp hsp _ (l.cc.packetSent
    { num := (l.space sp).nextNum, size := size, time := now, ackEliciting := ae, inFlight := inf, state := .sent }) _ hs
  rw [upd_self] at this
  exact this

theorem g_skipNumber (l : Loss) (g : Ghost) (h : FInv l g) (sp : Nat) (hsp : sp < 3) (now : Int) :
    FInv (l.skipNumber sp now) { g with k := upd g.k sp ((l.space sp).nextNum :: g.k sp) } := by
  unfold Loss.skipNumber
  simp only
  have hs := spaceInv_add (l.space sp) (g.f sp) (g.k sp) (h sp hsp)
    { num := (l.space sp).nextNum, size := 0, time := now, ackEliciting := false, inFlight := false, state := .unsent } rfl (Or.inr rfl)
  simp only [if_true] at hs
  have := finv_update l g h sp hsp _ l.cc _ _ hs
  rw [upd_self, setSpace_eta] at this
  exact this


/-- Callbacks are new: none is for a packet number that already had a callback or that was
skipped, and no packet appears twice among them. -/
def FreshAll (g : Ghost) (cbs : List Callback) : Prop :=
  (∀ c ∈ cbs, c.1 < 3 ∧ c.2.1 ∉ g.f c.1 ∧ c.2.1 ∉ g.k c.1) ∧ (cbs.map fun c => (c.1, c.2.1)).Nodup

theorem freshAll_of_fresh {g : Ghost} {sp : Nat} {cbs : List Callback} (hsp : sp < 3) (h : Fresh g sp cbs) :
    FreshAll g cbs := by
  obtain ⟨h1, h2⟩ := h
  refine ⟨fun c hc => ?_, ?_⟩
  · obtain ⟨e, a, b⟩ := h1 c hc
    rw [e]; exact ⟨hsp, a, b⟩
  · have : (cbs.map fun c => (c.1, c.2.1)) = (numsOf cbs).map fun n => (sp, n) := by
      simp only [numsOf, List.map_map]
      apply List.map_congr_left
      intro c hc
      simp [(h1 c hc).1]
    rw [this]
    exact List.Pairwise.map (fun n => (sp, n)) (fun a b hab h => hab (by simpa using h)) h2

theorem freshAll_nil (g : Ghost) : FreshAll g [] := ⟨by simp, by simp⟩

/-- Callbacks of two consecutive primitive steps on different spaces. -/
theorem freshAll_append {g g' : Ghost} {sp : Nat} {c0 c1 : List Callback} (hsp : sp < 3)
    (h0 : FreshAll g c0) (hall0 : ∀ c ∈ c0, c.1 < sp) (h1 : Fresh g' sp c1)
    (hf : g'.f sp = g.f sp) (hk : g'.k sp = g.k sp) : FreshAll g (c0 ++ c1) := by
  obtain ⟨a1, a2⟩ := h0
  obtain ⟨b1, b2⟩ := freshAll_of_fresh hsp h1
  refine ⟨?_, ?_⟩
  · intro c hc
    rcases List.mem_append.1 hc with hc | hc
    · exact a1 c hc
    · obtain ⟨x, y, z⟩ := b1 c hc
      have e := (h1.1 c hc).1
      rw [e] at y z ⊢
      rw [hf] at y; rw [hk] at z
      exact ⟨hsp, y, z⟩
  · rw [List.map_append]
    refine List.nodup_append.2 ⟨a2, b2, ?_⟩
    intro x hx y hy hxy
    obtain ⟨c, hc, rfl⟩ := List.mem_map.1 hx
    obtain ⟨d, hd, rfl⟩ := List.mem_map.1 hy
    have := hall0 c hc
    have := (h1.1 d hd).1
    simp at hxy
    omega

def gDetectLoss (l : Loss) (g : Ghost) (now ld : Int) (fst : Option Int) : Ghost :=
  let r0 := l.detectSpace 0 now ld fst
  let g0 : Ghost := { g with f := upd g.f 0 (numsOf r0.2 ++ g.f 0) }
  let r1 := r0.1.detectSpace 1 now ld fst
  let g1 : Ghost := { g0 with f := upd g0.f 1 (numsOf r1.2 ++ g0.f 1) }
  let r2 := r1.1.detectSpace 2 now ld fst
  { g1 with f := upd g1.f 2 (numsOf r2.2 ++ g1.f 2) }

theorem g_detectLoss (l : Loss) (g : Ghost) (h : FInv l g) (now ld : Int) (fst : Option Int) :
    FInv (l.detectLoss now ld fst).1 (gDetectLoss l g now ld fst) ∧ FreshAll g (l.detectLoss now ld fst).2 := by
  obtain ⟨i0, f0⟩ := g_detectSpace l g h 0 (by omega) now ld fst
  obtain ⟨i1, f1⟩ := g_detectSpace _ _ i0 1 (by omega) now ld fst
  obtain ⟨i2, f2⟩ := g_detectSpace _ _ i1 2 (by omega) now ld fst
  unfold Loss.detectLoss gDetectLoss
  refine ⟨i2, ?_⟩
  simp only
  have a0 := freshAll_of_fresh (by omega : 0 < 3) f0
  have a1 := freshAll_append (g := g) (by omega : 1 < 3) a0
    (fun c hc => by have := (f0.1 c hc).1; omega) f1 (by simp [upd]) rfl
  exact freshAll_append (g := g) (by omega : 2 < 3) a1
    (fun c hc => by
      rcases List.mem_append.1 hc with hc | hc
      · have := (f0.1 c hc).1; omega
      · have := (f1.1 c hc).1; omega) f2 (by simp [upd]) rfl

/-- Ghost update of one operation. -/
def gstep (l : Loss) (g : Ghost) : Op → Ghost
  | .send _ _ _ _ _ => g
  | .skip sp _ => { g with k := upd g.k sp ((l.space sp).nextNum :: g.k sp) }
  | .ackRange sp a b => { g with f := upd g.f sp (numsOf (l.receiveAckRange sp a b).2.1 ++ g.f sp) }
  | .ackEnd sp now ld fst _ => gDetectLoss (l.setSpace sp (l.space sp).clean) g now ld fst
  | .advance now ld fst => gDetectLoss l g now ld fst
  | .discardPackets sp => { g with f := upd g.f sp (numsOf (l.discardPackets sp).2 ++ g.f sp) }
  | .discardKeys sp => { f := upd g.f sp [], k := upd g.k sp [] }
  | .setUnderutilized _ => g

/-- Operations address one of the three packet number spaces. -/
def Op.SpaceOK : Op → Prop
  | .send sp _ _ _ _ => sp < 3
  | .skip sp _ => sp < 3
  | .ackRange sp _ _ => sp < 3
  | .ackEnd sp _ _ _ _ => sp < 3
  | .discardPackets sp => sp < 3
  | .discardKeys sp => sp < 3
  | _ => True

/-- **Exactly-once step theorem.** In any state satisfying the ghost invariant, the callbacks an
operation makes are all for packets that never had a callback before and were never skipped, no
packet is reported twice within the operation (so never both acked and lost), and the invariant
is re-established with those packets recorded as settled. -/
theorem fate_step (l : Loss) (g : Ghost) (op : Op) (hsp : op.SpaceOK) (h : FInv l g) :
    FInv (step l op).1 (gstep l g op) ∧ FreshAll g (step l op).2 := by
  cases op with
  | send sp size ae inf now => exact ⟨g_packetSent l g h sp hsp size ae inf now, freshAll_nil g⟩
  | skip sp now => exact ⟨g_skipNumber l g h sp hsp now, freshAll_nil g⟩
  | ackRange sp a b =>
    obtain ⟨a1, a2⟩ := g_receiveAckRange l g h sp hsp a b
    exact ⟨a1, freshAll_of_fresh hsp a2⟩
  | ackEnd sp now ld fst pcd =>
    obtain ⟨a1, a2⟩ := g_detectLoss _ g (g_clean l g h sp hsp) now ld fst
    exact ⟨g_cc _ _ a1 _, a2⟩
  | advance now ld fst => exact g_detectLoss l g h now ld fst
  | discardPackets sp =>
    obtain ⟨a1, a2⟩ := g_discardPackets l g h sp hsp
    exact ⟨a1, freshAll_of_fresh hsp a2⟩
  | discardKeys sp => exact ⟨g_discardKeys l g h sp hsp, freshAll_nil g⟩
  | setUnderutilized v => exact ⟨g_cc l g h _, freshAll_nil g⟩

theorem finv_init (mds : Int) : FInv (Loss.init mds) {} := by
  intro i _
  have : (Loss.init mds).space i = {} := by unfold Loss.space Loss.init; split <;> rfl
  rw [this]; exact spaceInv_empty

/-- Histories with the ghost record. -/
def grun : Loss → Ghost → List Op → Loss × Ghost
  | l, g, [] => (l, g)
  | l, g, op :: rest => grun (step l op).1 (gstep l g op) rest

theorem grun_fst (ops : List Op) (l : Loss) (g : Ghost) : (grun l g ops).1 = run l ops := by
  induction ops generalizing l g with
  | nil => rfl
  | cons op rest ih => simp only [grun, run, List.foldl_cons]; exact ih _ _

theorem finv_grun (ops : List Op) (l : Loss) (g : Ghost) (hv : ∀ op ∈ ops, op.SpaceOK) (h : FInv l g) :
    FInv (grun l g ops).1 (grun l g ops).2 := by
  induction ops generalizing l g with
  | nil => exact h
  | cons op rest ih =>
    simp only [grun]
    exact ih _ _ (fun o ho => hv o (List.mem_cons_of_mem _ ho)) (fate_step l g op (hv op List.mem_cons_self) h).1

/-- **Every packet gets at most one fate, over any history.** After any history `ops` from
`init`, the callbacks of the next operation are all for packets without a previous callback
(since the keys of their space were last discarded) and never for a skipped number; within the
operation no packet is reported twice, so ack and loss callbacks are disjoint. -/
theorem fate_once (mds : Int) (ops : List Op) (op : Op) (hv : ∀ o ∈ ops, o.SpaceOK) (hop : op.SpaceOK) :
    FreshAll (grun (Loss.init mds) {} ops).2 (step (run (Loss.init mds) ops) op).2 := by
  have := finv_grun ops _ _ hv (finv_init mds)
  rw [← grun_fst ops (Loss.init mds) {}]
  exact (fate_step _ _ op hop this).2

/-- Every callback is recorded in the ghost state (so `fate_once` really speaks about all
earlier callbacks). -/
theorem callbacks_recorded (l : Loss) (g : Ghost) (op : Op) (hsp : op.SpaceOK) (h : FInv l g) :
    ∀ c ∈ (step l op).2, c.2.1 ∈ (gstep l g op).f c.1 := by
  have key : ∀ (sp : Nat) (cbs : List Callback) (g0 : Ghost), (∀ c ∈ cbs, c.1 = sp) →
      ∀ c ∈ cbs, c.2.1 ∈ upd g0.f sp (numsOf cbs ++ g0.f sp) c.1 := by
    intro sp cbs g0 hall c hc
    simp only [upd, hall c hc, if_true]
    exact List.mem_append_left _ (List.mem_map.2 ⟨c, hc, rfl⟩)
  have keyDL : ∀ (l0 : Loss) (now ld : Int) (fst : Option Int), FInv l0 g →
      ∀ c ∈ (l0.detectLoss now ld fst).2, c.2.1 ∈ (gDetectLoss l0 g now ld fst).f c.1 := by
    intro l0 now ld fst h0 c hc
    obtain ⟨i0, f0⟩ := g_detectSpace l0 g h0 0 (by omega) now ld fst
    obtain ⟨i1, f1⟩ := g_detectSpace _ _ i0 1 (by omega) now ld fst
    obtain ⟨_, f2⟩ := g_detectSpace _ _ i1 2 (by omega) now ld fst
    unfold Loss.detectLoss at hc
    simp only at hc
    unfold gDetectLoss
    simp only
    rcases List.mem_append.1 hc with hc | hc
    · rcases List.mem_append.1 hc with hc | hc
      · have e := (f0.1 c hc).1
        simp only [upd, e]
        simp
        exact Or.inl (List.mem_map.2 ⟨c, hc, rfl⟩)
      · have e := (f1.1 c hc).1
        simp only [upd, e]
        simp
        exact Or.inl (List.mem_map.2 ⟨c, hc, rfl⟩)
    · have e := (f2.1 c hc).1
      simp only [upd, e]
      simp
      exact Or.inl (List.mem_map.2 ⟨c, hc, rfl⟩)
  cases op with
  | send sp size ae inf now => intro c hc; simp [step] at hc
  | skip sp now => intro c hc; simp [step] at hc
  | ackRange sp a b =>
    exact key sp _ g (fun c hc => ((g_receiveAckRange l g h sp hsp a b).2.1 c hc).1)
  | ackEnd sp now ld fst pcd => exact keyDL _ now ld fst (g_clean l g h sp hsp)
  | advance now ld fst => exact keyDL l now ld fst h
  | discardPackets sp => exact key sp _ g (fun c hc => ((g_discardPackets l g h sp hsp).2.1 c hc).1)
  | discardKeys sp => intro c hc; simp [step] at hc
  | setUnderutilized v => intro c hc; simp [step] at hc


/-- A settled packet never changes again: the only transitions are `sent → acked` and `sent → lost`. -/
theorem settles_final (p p' : Pkt) (h : Settles p p') (hs : p.state ≠ .sent) : p' = p := by
  rcases h with h | ⟨h, _⟩
  · exact h
  · exact absurd h hs

/-! ## Non-vacuity -/

/-- 4 packets of 1000 bytes, ACK of #3 only: #0 is lost by the packet threshold, #3 acked,
#1 and #2 stay in flight (2000 bytes); the window is halved on entering recovery. -/
def demo : Loss × List Callback :=
  let l := run (Loss.init 1200) [.send 2 1000 true true 0, .send 2 1000 true true 1, .send 2 1000 true true 2, .send 2 1000 true true 3]
  let r := l.receiveAckRange 2 3 4
  let e := r.1.receiveAckEnd 2 10 1000 none 5000
  (e.1, r.2.1 ++ e.2)

example : demo.2 = [(2, 3, Fate.acked), (2, 0, Fate.lost)] := by decide
example : demo.1.cc.bytesInFlight = 2000 ∧ lossFlight demo.1 = 2000 ∧ demo.1.cc.cwnd = 6000 ∧ demo.1.cc.inRecovery = true := by decide
example : Reachable (run (Loss.init 1200) [.send 2 1000 true true 0]) :=
  ⟨1200, _, by decide, by intro o ho; simp at ho; subst ho; simp [Op.Valid], rfl⟩
/-- Persistent congestion collapses the window to exactly the minimum. -/
example : ((newReno 1200).packetLost 0 ⟨0, 100, 0, true, true, .sent⟩ (some 0) |>.packetLost 0 ⟨1, 100, 9000, true, true, .sent⟩ (some 0)
            |>.packetBatchEnd 9500 0 3000).cwnd = 2400 := by decide

end NetVerif.Proofs.C26
